import TnVerif.Lemmas.RoundTTBridge
/-! Column-orthonormal Tucker factors act isometrically on the core tensor (Frobenius inner products are preserved). -/
set_option linter.unusedSectionVars false
set_option linter.unusedVariables false
open Finset
namespace TN
variable {R : Type} [CommRing R]

/-- every factor has orthonormal columns (`UᵀU = I` on the columns the core uses) -/
def ColOrtho : List (Nat × (Nat → Nat → R)) → List Nat → Prop
  | (rows, L) :: Ls, n :: ns =>
      (∀ j, j < n → ∀ j', j' < n → (∑ i ∈ range rows, L i j * L i j') = if j = j' then 1 else 0) ∧ ColOrtho Ls ns
  | [], [] => True
  | _, _ => False

def rowsOf (Ls : List (Nat × (Nat → Nat → R))) : List Nat := Ls.map (·.1)

/-- Gram identity of the Tucker operator: `⟨(⊗U)f, (⊗U)g⟩ = ⟨f, g⟩` -/
theorem wprod_gram : ∀ (Ls : List (Nat × (Nat → Nat → R))) (ns : List Nat) (f g : List Nat → R), ColOrtho Ls ns →
    boxSum (rowsOf Ls) (fun is => boxSum ns (fun js => wprod Ls is js * f js) * boxSum ns (fun js => wprod Ls is js * g js))
      = boxSum ns (fun js => f js * g js) := by
  intro Ls
  induction Ls with
  | nil =>
    intro ns f g h
    cases ns with
    | nil => simp [rowsOf, boxSum, wprod]
    | cons _ _ => simp [ColOrtho] at h
  | cons Lh Ls ih =>
    intro ns f g h
    obtain ⟨rows, L⟩ := Lh
    cases ns with
    | nil => simp [ColOrtho] at h
    | cons n ns =>
      obtain ⟨ho, hrest⟩ := h
      have hr : rowsOf ((rows, L) :: Ls) = rows :: rowsOf Ls := rfl
      rw [hr, boxSum_cons]
      -- inner products of the slices
      have e1 : ∀ i ∈ range rows, boxSum (rowsOf Ls) (fun is =>
            boxSum (n :: ns) (fun js => wprod ((rows, L) :: Ls) (i :: is) js * f js) *
            boxSum (n :: ns) (fun js => wprod ((rows, L) :: Ls) (i :: is) js * g js))
          = ∑ j ∈ range n, ∑ j' ∈ range n, (L i j * L i j') * boxSum (rowsOf Ls) (fun is =>
              boxSum ns (fun js => wprod Ls is js * f (j :: js)) * boxSum ns (fun js => wprod Ls is js * g (j' :: js))) := by
        intro i _
        have e : (fun is => boxSum (n :: ns) (fun js => wprod ((rows, L) :: Ls) (i :: is) js * f js) *
              boxSum (n :: ns) (fun js => wprod ((rows, L) :: Ls) (i :: is) js * g js))
            = (fun is => ∑ j ∈ range n, ∑ j' ∈ range n, (L i j * L i j') *
                (boxSum ns (fun js => wprod Ls is js * f (j :: js)) * boxSum ns (fun js => wprod Ls is js * g (j' :: js)))) := by
          funext is
          rw [boxSum_cons, boxSum_cons, Finset.sum_mul_sum]
          apply Finset.sum_congr rfl; intro j _
          apply Finset.sum_congr rfl; intro j' _
          have a1 : boxSum ns (fun js => wprod ((rows, L) :: Ls) (i :: is) (j :: js) * f (j :: js))
              = L i j * boxSum ns (fun js => wprod Ls is js * f (j :: js)) := by
            rw [← boxSum_mul_left]; apply boxSum_congr; intro js; simp only [wprod]; ring
          have a2 : boxSum ns (fun js => wprod ((rows, L) :: Ls) (i :: is) (j' :: js) * g (j' :: js))
              = L i j' * boxSum ns (fun js => wprod Ls is js * g (j' :: js)) := by
            rw [← boxSum_mul_left]; apply boxSum_congr; intro js; simp only [wprod]; ring
          rw [a1, a2]; ring
        rw [e, boxSum_sum]
        apply Finset.sum_congr rfl; intro j _
        rw [boxSum_sum]
        apply Finset.sum_congr rfl; intro j' _
        rw [boxSum_mul_left]
      rw [Finset.sum_congr rfl e1, Finset.sum_comm]
      rw [boxSum_cons]
      apply Finset.sum_congr rfl; intro j hj
      rw [Finset.sum_comm]
      have e2 : ∀ j' ∈ range n, (∑ i ∈ range rows, (L i j * L i j') * boxSum (rowsOf Ls) (fun is =>
              boxSum ns (fun js => wprod Ls is js * f (j :: js)) * boxSum ns (fun js => wprod Ls is js * g (j' :: js))))
          = (if j = j' then 1 else 0) * boxSum (rowsOf Ls) (fun is =>
              boxSum ns (fun js => wprod Ls is js * f (j :: js)) * boxSum ns (fun js => wprod Ls is js * g (j' :: js))) := by
        intro j' hj'
        rw [← Finset.sum_mul, ho j (Finset.mem_range.mp hj) j' (Finset.mem_range.mp hj')]
      rw [Finset.sum_congr rfl e2, Finset.sum_eq_single j]
      · rw [if_pos rfl, one_mul]
        exact ih ns (fun js => f (j :: js)) (fun js => g (j :: js)) hrest
      · intro j' _ hne; simp [Ne.symm hne]
      · intro hh; exact absurd hj hh

theorem boxSum_sub' (s : List Nat) (f g : List Nat → R) :
    boxSum s (fun is => f is - g is) = boxSum s f - boxSum s g := boxSum_sub s f g

/-- dense array of a chain with factors applied: the Tucker operator on the core array -/
theorem dense_linAll (Ls : List (Nat × (Nat → Nat → R))) (m : Mode R) (ms : List (Mode R)) (hl : Ls.length = (m :: ms).length)
    (is : List Nat) (hi : is.length = (m :: ms).length) :
    dense (linAll Ls (m :: ms)) is = boxSum ((m :: ms).map (·.n)) (fun js => wprod Ls is js * dense (m :: ms) js) := by
  cases Ls with
  | nil => simp at hl
  | cons Lh Ls' =>
    obtain ⟨rows, L⟩ := Lh
    have ht := fun a => tail_linAll ((rows, L) :: Ls') (m :: ms) hl is hi a
    simp only [linAll] at ht ⊢
    have hrl : (Mode.lin rows L m).rl = m.rl := rfl
    simp only [dense, sumTo_eq, hrl]
    rw [Finset.sum_congr rfl (fun a _ => ht a), ← boxSum_sum]
    apply boxSum_congr; intro js
    rw [Finset.mul_sum]

/-- **isometry**: with column-orthonormal factors the Frobenius distance of two tensors sharing the factors is the Frobenius distance
    of their core tensors -/
theorem factors_isometry (Ls : List (Nat × (Nat → Nat → R))) (m m' : Mode R) (ms ms' : List (Mode R))
    (hl : Ls.length = (m :: ms).length) (hl' : Ls.length = (m' :: ms').length)
    (hshape : (m' :: ms').map (·.n) = (m :: ms).map (·.n)) (ho : ColOrtho Ls ((m :: ms).map (·.n))) :
    boxSum (rowsOf Ls) (fun is => (dense (linAll Ls (m :: ms)) is - dense (linAll Ls (m' :: ms')) is) ^ 2)
      = boxSum ((m :: ms).map (·.n)) (fun js => (dense (m :: ms) js - dense (m' :: ms') js) ^ 2) := by
  have hrl : (rowsOf Ls).length = Ls.length := by simp [rowsOf]
  have e : boxSum (rowsOf Ls) (fun is => (dense (linAll Ls (m :: ms)) is - dense (linAll Ls (m' :: ms')) is) ^ 2)
      = boxSum (rowsOf Ls) (fun is =>
          boxSum ((m :: ms).map (·.n)) (fun js => wprod Ls is js * (dense (m :: ms) js - dense (m' :: ms') js)) *
          boxSum ((m :: ms).map (·.n)) (fun js => wprod Ls is js * (dense (m :: ms) js - dense (m' :: ms') js))) := by
    apply boxSum_congr_len; intro is his
    have hi1 : is.length = (m :: ms).length := by rw [his, hrl, hl]
    have hi2 : is.length = (m' :: ms').length := by rw [his, hrl, hl']
    rw [dense_linAll Ls m ms hl is hi1, dense_linAll Ls m' ms' hl' is hi2, hshape, ← boxSum_sub, sq]
    congr 1 <;> (apply boxSum_congr; intro js; ring)
  rw [e, wprod_gram Ls _ _ _ ho]
  apply boxSum_congr; intro js; ring


/-- the norm of the full tensor is the norm of its core tensor -/
theorem factors_norm (Ls : List (Nat × (Nat → Nat → R))) (m : Mode R) (ms : List (Mode R))
    (hl : Ls.length = (m :: ms).length) (ho : ColOrtho Ls ((m :: ms).map (·.n))) :
    boxSum (rowsOf Ls) (fun is => dense (linAll Ls (m :: ms)) is ^ 2) = boxSum ((m :: ms).map (·.n)) (fun js => dense (m :: ms) js ^ 2) := by
  have hrl : (rowsOf Ls).length = Ls.length := by simp [rowsOf]
  have e : boxSum (rowsOf Ls) (fun is => dense (linAll Ls (m :: ms)) is ^ 2)
      = boxSum (rowsOf Ls) (fun is =>
          boxSum ((m :: ms).map (·.n)) (fun js => wprod Ls is js * dense (m :: ms) js) *
          boxSum ((m :: ms).map (·.n)) (fun js => wprod Ls is js * dense (m :: ms) js)) := by
    apply boxSum_congr_len; intro is his
    rw [dense_linAll Ls m ms hl is (by rw [his, hrl, hl]), sq]
  rw [e, wprod_gram Ls _ _ _ ho]
  apply boxSum_congr; intro js; ring

section withfactors
variable {K : Type} [Field K] [LinearOrder K] [IsStrictOrderedRing K]

/-- **`round_tt` on a TT-Tucker tensor** (factors column-orthonormal, as `factor_orthogonalize` leaves them): the sweep acts on the cores
    only, and the error and the norm of the full tensor are those of the core tensor — so the tolerance is honoured for the full tensor -/
theorem roundTT_with_factors (thr eps : K) (ms : List (Mode K)) (as : List (SVDAns K × Nat)) (cur : Mode K) (rest : List (Mode K))
    (Ls : List (Nat × (Nat → Nat → K)))
    (hrev : ms.reverse = cur :: rest) (hlo : chainLO rest) (hrl : cur.rl = topRank rest) (hrr : cur.rr = 1)
    (hok : ansOK thr (budget2 eps cur rest.length) (cur :: rest) as)
    (hun : uncapped thr (budget2 eps cur rest.length) (cur :: rest) as)
    (hlen : Ls.length = ms.length) (hcol : ColOrtho Ls (ms.map (·.n))) :
    boxSum (rowsOf Ls) (fun is => (dense (linAll Ls ms) is
        - dense (linAll Ls (roundTTsem thr (budget2 eps cur rest.length) ms as)) is) ^ 2)
      ≤ eps ^ 2 * boxSum (rowsOf Ls) (fun is => dense (linAll Ls ms) is ^ 2) := by
  have key := roundTT_within_eps thr eps ms as cur rest hrev hlo hrl hrr hok hun
  -- the swept chain has the same shape and is non-empty
  have hsh : (roundTTsem thr (budget2 eps cur rest.length) ms as).map (·.n) = ms.map (·.n) := by
    unfold roundTTsem
    have := shapeRev_sweepRev thr (budget2 eps cur rest.length) as ms.reverse
    simp only [shapeRev] at this
    rw [List.map_reverse, this, ← List.map_reverse, List.reverse_reverse]
  cases hms : ms with
  | nil => rw [hms] at hrev; simp at hrev
  | cons m t =>
    cases hout : roundTTsem thr (budget2 eps cur rest.length) ms as with
    | nil => rw [hout, hms] at hsh; simp at hsh
    | cons m' t' =>
      rw [hms] at hlen hcol key hsh hout
      rw [hout] at hsh key ⊢
      have hlen' : Ls.length = (m' :: t').length := by
        have := congrArg List.length hsh; simp only [List.length_map] at this; rw [this]; exact hlen
      rw [factors_isometry Ls m m' t t' hlen hlen' hsh hcol, factors_norm Ls m t hlen hcol]
      exact key

end withfactors
end TN
