import TnVerif.Lemmas.RoundTT
import TnVerif.Lemmas.Reverse
/-! Bridge from the reversed, open-bond formulation of the `round_tt` sweep to `dense` of the forward chain. -/
set_option linter.unusedSectionVars false
set_option linter.unusedVariables false
open Finset
namespace TN
variable {R : Type} [CommRing R]

theorem boxSum_congr_len (s : List Nat) (f g : List Nat → R) (h : ∀ is, is.length = s.length → f is = g is) :
    boxSum s f = boxSum s g := by
  induction s generalizing f g with
  | nil => simp only [boxSum]; exact h [] rfl
  | cons n ns ih =>
    simp only [boxSum, sumTo_eq]
    apply Finset.sum_congr rfl; intro i _
    apply ih; intro is his; exact h (i :: is) (by simp [his])

theorem boxSum_snoc (s : List Nat) (n : Nat) (g : List Nat → R) :
    boxSum (s ++ [n]) g = boxSum s (fun is => ∑ i ∈ range n, g (is ++ [i])) := by
  induction s generalizing g with
  | nil => simp [boxSum, sumTo_eq]
  | cons m ms ih =>
    simp only [List.cons_append, boxSum, sumTo_eq]
    apply Finset.sum_congr rfl; intro j _
    rw [ih]

theorem boxSum_reverse (s : List Nat) (f : List Nat → R) :
    boxSum s.reverse (fun is => f is.reverse) = boxSum s f := by
  induction s generalizing f with
  | nil => simp [boxSum]
  | cons n ns ih =>
    rw [List.reverse_cons, boxSum_snoc, boxSum_cons]
    have e : (fun is => ∑ i ∈ range n, f (is ++ [i]).reverse) = (fun is => ∑ i ∈ range n, f (i :: is.reverse)) := by
      funext is; simp
    rw [e, boxSum_sum]
    apply Finset.sum_congr rfl; intro i _
    exact ih (fun is => f (i :: is))

/-- reversed chain with matching ranks and left boundary rank 1 -/
def wfRev : List (Mode R) → Prop
  | [] => True
  | m :: rest => m.rl = topRank rest ∧ wfRev rest

theorem chainLO_wfRev (l : List (Mode R)) (h : chainLO l) : wfRev l := by
  induction l with
  | nil => trivial
  | cons m rest ih => exact ⟨h.1, ih h.2.2⟩

theorem wfRev_forward (l : List (Mode R)) : wfRev l → wf 1 l.reverse ∧ outRank 1 l.reverse = topRank l := by
  induction l with
  | nil => intro _; exact ⟨trivial, rfl⟩
  | cons m rest ih =>
    intro ⟨h1, h2⟩
    obtain ⟨w1, w2⟩ := ih h2
    rw [List.reverse_cons]
    exact ⟨wf_snoc _ _ _ w1 (by rw [w2, h1]), by rw [outRank_snoc]; rfl⟩

theorem openRev_eq_chainMat (l : List (Mode R)) : ∀ (is : List Nat) (b : Nat), wfRev l → is.length = l.length → b < topRank l →
    openRev l is b = chainMat l.reverse is.reverse 0 b := by
  induction l with
  | nil =>
    intro is b _ hi _
    have : is = [] := List.length_eq_zero_iff.mp hi
    subst this; simp [openRev, chainMat, eq_comm]
  | cons m rest ih =>
    intro is b ⟨h1, h2⟩ hi hb
    cases is with
    | nil => simp at hi
    | cons i is' =>
      obtain ⟨w1, w2⟩ := wfRev_forward rest h2
      simp only [topRank] at hb
      rw [List.reverse_cons, List.reverse_cons,
        chainMat_snoc rest.reverse m i 1 is'.reverse 0 b w1 (by omega) hb (by simpa using hi), w2, ← h1]
      simp only [openRev]
      apply Finset.sum_congr rfl; intro a ha
      rw [ih is' a h2 (by simpa using hi) (by rw [← h1]; exact Finset.mem_range.mp ha)]

/-- for a closed reversed chain (right boundary rank 1) the open-bond entry at 0 is the dense value -/
theorem openRev_eq_dense (l : List (Mode R)) (is : List Nat) (hne : l ≠ []) (hw : wfRev l) (ht : topRank l = 1)
    (hi : is.length = l.length) : openRev l is 0 = dense l.reverse is.reverse := by
  obtain ⟨w1, w2⟩ := wfRev_forward l hw
  rw [openRev_eq_chainMat l is 0 hw hi (by omega)]
  cases hrev : l.reverse with
  | nil => simp at hrev; exact absurd hrev hne
  | cons x xs =>
    rw [hrev] at w1 w2
    have hx : x.rl = 1 := w1.1
    simp only [dense, hx, sumTo_eq, Finset.sum_range_one]
    rw [tail_eq_chainMat (x :: xs) 1 is.reverse 0 w1 (by omega) (by rw [← hrev]; simp [hi]), w2, ht]
    simp

section sweep
variable {K : Type} [Field K] [LinearOrder K] [IsStrictOrderedRing K]

theorem topRank_sweepRev (thr d2 : K) (l : List (Mode K)) (as : List (SVDAns K × Nat)) :
    topRank (sweepRev thr d2 l as) = topRank l := by
  match l, as with
  | [], _ => simp [sweepRev]
  | [_], _ => simp [sweepRev]
  | _ :: _ :: _, [] => simp [sweepRev]
  | cur :: p :: rest, (A, rmax) :: as' => simp [sweepRev, topRank, roundStep]

theorem wfRev_sweepRev (thr d2 : K) : ∀ (as : List (SVDAns K × Nat)) (l : List (Mode K)), wfRev l → wfRev (sweepRev thr d2 l as) := by
  intro as
  induction as with
  | nil => intro l h; cases l with
    | nil => simpa [sweepRev] using h
    | cons a t => cases t <;> simpa [sweepRev] using h
  | cons Ar as' ih =>
    intro l h
    obtain ⟨A, rmax⟩ := Ar
    match l, h with
    | [], h => simpa [sweepRev] using h
    | [_], h => simpa [sweepRev] using h
    | cur :: p :: rest, ⟨h1, h2, h3⟩ =>
      simp only [sweepRev]
      refine ⟨?_, ih _ ⟨?_, h3⟩⟩
      · rw [topRank_sweepRev]; simp [roundStep, topRank]
      · simpa [roundStep] using h2

theorem shapeRev_sweepRev (thr d2 : K) : ∀ (as : List (SVDAns K × Nat)) (l : List (Mode K)),
    shapeRev (sweepRev thr d2 l as) = shapeRev l := by
  intro as
  induction as with
  | nil => intro l; cases l with
    | nil => simp [sweepRev]
    | cons a t => cases t <;> simp [sweepRev]
  | cons Ar as' ih =>
    intro l
    obtain ⟨A, rmax⟩ := Ar
    match l with
    | [] => simp [sweepRev]
    | [_] => simp [sweepRev]
    | cur :: p :: rest =>
      simp only [sweepRev, shapeRev, List.map_cons]
      have := ih ((roundStep p cur (stepAns thr A) (stepRank thr d2 A rmax)).1 :: rest)
      simp only [shapeRev, List.map_cons] at this
      rw [this]; simp [roundStep]

/-- forward form of the sweep: reverse, sweep, reverse back -/
def roundTTsem (thr d2 : K) (ms : List (Mode K)) (as : List (SVDAns K × Nat)) : List (Mode K) :=
  (sweepRev thr d2 ms.reverse as).reverse

/-- **error of `round_tt`'s truncation sweep on the represented arrays**:
    `Σ_is (dense t is − dense (roundTT t) is)² = Σ_steps (discarded tail)` -/
theorem roundTT_error_eq (thr d2 : K) (ms : List (Mode K)) (as : List (SVDAns K × Nat)) (cur : Mode K) (rest : List (Mode K))
    (hrev : ms.reverse = cur :: rest) (hlo : chainLO rest) (hrl : cur.rl = topRank rest) (hrr : cur.rr = 1)
    (hok : ansOK thr d2 (cur :: rest) as) :
    boxSum (ms.map (·.n)) (fun is => (dense ms is - dense (roundTTsem thr d2 ms as) is) ^ 2) = sweepErr thr d2 (cur :: rest) as := by
  have hsw := sweep_error thr d2 rest cur as hlo hrl hok
  rw [hrr] at hsw
  simp only [Finset.sum_range_one] at hsw
  rw [← hsw, ← boxSum_reverse (ms.map (·.n))]
  have hshape : (ms.map (·.n)).reverse = shapeRev (cur :: rest) := by
    rw [← List.map_reverse, hrev]; rfl
  rw [hshape]
  apply boxSum_congr_len; intro is his
  have hw : wfRev (cur :: rest) := ⟨hrl, chainLO_wfRev rest hlo⟩
  have hlen : is.length = (cur :: rest).length := by rw [his]; simp [shapeRev]
  have hms : ms = (cur :: rest).reverse := by rw [← hrev, List.reverse_reverse]
  have h1 : openRev (cur :: rest) is 0 = dense ms is.reverse := by
    rw [hms]; exact openRev_eq_dense (cur :: rest) is (by simp) hw (by simpa [topRank] using hrr) hlen
  have hw2 := wfRev_sweepRev thr d2 as (cur :: rest) hw
  have ht2 : topRank (sweepRev thr d2 (cur :: rest) as) = 1 := by rw [topRank_sweepRev]; simpa [topRank] using hrr
  have hsh := shapeRev_sweepRev thr d2 as (cur :: rest)
  have hlen2 : is.length = (sweepRev thr d2 (cur :: rest) as).length := by
    have := congrArg List.length hsh
    simp only [shapeRev, List.length_map] at this
    rw [this]; exact hlen
  have hne2 : sweepRev thr d2 (cur :: rest) as ≠ [] := by
    intro h; rw [h] at hlen2; rw [hlen2] at hlen; simp at hlen
  have h2 : openRev (sweepRev thr d2 (cur :: rest) as) is 0 = dense (roundTTsem thr d2 ms as) is.reverse := by
    rw [roundTTsem, hrev]; exact openRev_eq_dense _ is hne2 hw2 ht2 hlen2
  rw [h1, h2]


theorem boxSum_sq_nonneg (s : List Nat) (f : List Nat → K) : 0 ≤ boxSum s (fun is => f is ^ 2) := by
  induction s generalizing f with
  | nil => simp only [boxSum]; positivity
  | cons n ns ih =>
    rw [boxSum_cons]; apply Finset.sum_nonneg; intro i _; exact ih (fun is => f (i :: is))

/-- `‖T‖² = ‖cores[-1]‖²` for the state entering the sweep (everything left of the last core left-orthonormal) -/
theorem normsq_dense_eq_last (ms : List (Mode K)) (cur : Mode K) (rest : List (Mode K))
    (hrev : ms.reverse = cur :: rest) (hlo : chainLO rest) (hrl : cur.rl = topRank rest) (hrr : cur.rr = 1) :
    boxSum (ms.map (·.n)) (fun is => dense ms is ^ 2) = lastNormSq cur := by
  have hn := norm_eq_last rest cur hlo hrl
  rw [hrr] at hn
  simp only [Finset.sum_range_one] at hn
  have hl : lastNormSq cur = ∑ i ∈ range cur.n, ∑ a ∈ range cur.rl, cur.G i a 0 ^ 2 := by
    simp only [lastNormSq, sumTo_eq, hrr, Finset.sum_range_one, sq]
  rw [hl, ← hn, ← boxSum_reverse (ms.map (·.n))]
  have hshape : (ms.map (·.n)).reverse = shapeRev (cur :: rest) := by
    rw [← List.map_reverse, hrev]; rfl
  rw [hshape]
  apply boxSum_congr_len; intro is his
  have hw : wfRev (cur :: rest) := ⟨hrl, chainLO_wfRev rest hlo⟩
  have hlen : is.length = (cur :: rest).length := by rw [his]; simp [shapeRev]
  have hms : ms = (cur :: rest).reverse := by rw [← hrev, List.reverse_reverse]
  rw [hms, ← openRev_eq_dense (cur :: rest) is (by simp) hw (by simpa [topRank] using hrr) hlen]

/-- **`round_tt` stays within `eps`** (TT cores, `algorithm='svd'`, no step capped by `rmax`, no absolute-zero special
    case): `‖T − round_tt(T)‖² ≤ eps²·‖T‖²` -/
theorem roundTT_within_eps (thr eps : K) (ms : List (Mode K)) (as : List (SVDAns K × Nat)) (cur : Mode K) (rest : List (Mode K))
    (hrev : ms.reverse = cur :: rest) (hlo : chainLO rest) (hrl : cur.rl = topRank rest) (hrr : cur.rr = 1)
    (hok : ansOK thr (budget2 eps cur rest.length) (cur :: rest) as)
    (hun : uncapped thr (budget2 eps cur rest.length) (cur :: rest) as) :
    boxSum (ms.map (·.n)) (fun is => (dense ms is - dense (roundTTsem thr (budget2 eps cur rest.length) ms as) is) ^ 2)
      ≤ eps ^ 2 * boxSum (ms.map (·.n)) (fun is => dense ms is ^ 2) := by
  rw [roundTT_error_eq thr _ ms as cur rest hrev hlo hrl hrr hok, normsq_dense_eq_last ms cur rest hrev hlo hrl hrr]
  have hnn : 0 ≤ lastNormSq cur := by
    rw [← normsq_dense_eq_last ms cur rest hrev hlo hrl hrr]; exact boxSum_sq_nonneg _ _
  have hd : 0 ≤ budget2 eps cur rest.length := by
    unfold budget2; apply div_nonneg
    · exact mul_nonneg (mul_self_nonneg eps) hnn
    · positivity
  refine le_trans (sweepErr_le thr _ hd rest cur as hok hun) ?_
  unfold budget2
  rcases Nat.eq_zero_or_pos rest.length with h0 | hpos
  · rw [h0]; simp only [Nat.cast_zero, zero_mul]; exact mul_nonneg (sq_nonneg _) hnn
  · have hm : max 1 rest.length = rest.length := by omega
    rw [hm]
    have hne : (rest.length : K) ≠ 0 := by exact_mod_cast (by omega : rest.length ≠ 0)
    rw [mul_div_assoc', mul_comm, mul_div_assoc, div_self hne]
    rw [sq]; linarith

end sweep
end TN
