import TnVerif.Model.OrthSweep
import TnVerif.Lemmas.RoundTTBridge
import TnVerif.Lemmas.Ortho
/-! The left-orthogonalisation sweep establishes the state `round_tt`'s truncation sweep starts from. -/
set_option linter.unusedSectionVars false
set_option linter.unusedVariables false
open Finset
namespace TN
variable {R : Type} [CommRing R]

/-- kernel contract of `torch.linalg.qr` for the left unfolding of `m`: `Q·R = unfolding`, `QᵀQ = I` -/
structure QRokM (m : Mode R) (A : QRAns R) : Prop where
  factor : ∀ a, a < m.rl → ∀ i, i < m.n → ∀ b, b < m.rr → m.G i a b = ∑ c ∈ range A.k, A.Q (a * m.n + i) c * A.Rm c b
  ortho : ∀ d, d < A.k → ∀ d', d' < A.k → (∑ row ∈ range (m.rl * m.n), A.Q row d * A.Q row d') = if d = d' then 1 else 0

/-- every answer meets its contract for the core it was computed from (the chain evolves along the sweep) -/
def qrOK : List (Mode R) → List (QRAns R) → Prop
  | m :: nx :: rest, A :: as => QRokM m A ∧ m.rr = nx.rl ∧ qrOK ((orthStep m nx A).2 :: rest) as
  | _, _ => True

/-- the new core is left-orthonormal: its left unfolding is the kernel's `Q` -/
theorem orthStep_LO (m nx : Mode R) (A : QRAns R) (h : QRokM m A) : leftOrthoM (orthStep m nx A).1 := by
  intro d hd d' hd'
  simp only [orthStep] at hd hd' ⊢
  have := sum_range_mul m.rl m.n (fun c i => A.Q (c * m.n + i) d * A.Q (c * m.n + i) d')
  rw [← this, ← h.ortho d hd d' hd']
  apply Finset.sum_congr rfl; intro row hrow
  by_cases hn : m.n = 0
  · simp [hn] at hrow
  · have : row / m.n * m.n + row % m.n = row := by rw [Nat.mul_comm]; exact Nat.div_add_mod row m.n
    rw [this]

/-- one step leaves every tail of the chain (hence the tensor) unchanged -/
theorem orthStep_tail (m nx : Mode R) (A : QRAns R) (rest : List (Mode R)) (h : QRokM m A) (hb : m.rr = nx.rl)
    (i j : Nat) (is : List Nat) (a : Nat) (ha : a < m.rl) (hi : i < m.n) :
    tail ((orthStep m nx A).1 :: (orthStep m nx A).2 :: rest) (i :: j :: is) a = tail (m :: nx :: rest) (i :: j :: is) a := by
  apply tail_bond m (orthStep m nx A).1 nx (orthStep m nx A).2 A.Rm rest i j is a rfl
  · intro b hb'; simpa [orthStep] using h.factor a ha i hi b hb'
  · intro c b _ _; simp [orthStep, sumTo_eq]


theorem boxSum_congr_box (s : List Nat) (f g : List Nat → R) (h : ∀ is, inShape is s → f is = g is) :
    boxSum s f = boxSum s g := by
  induction s generalizing f g with
  | nil => simp only [boxSum]; exact h [] trivial
  | cons n ns ih =>
    simp only [boxSum, sumTo_eq]
    apply Finset.sum_congr rfl; intro i hi
    apply ih; intro is his; exact h (i :: is) ⟨Finset.mem_range.mp hi, his⟩

theorem leftSweep_nil (ms : List (Mode R)) : leftSweep ms [] = ms := by
  cases ms with
  | nil => rfl
  | cons m t => cases t <;> rfl

theorem leftSweep_length : ∀ (as : List (QRAns R)) (ms : List (Mode R)), (leftSweep ms as).length = ms.length := by
  intro as
  induction as with
  | nil => intro ms; rw [leftSweep_nil]
  | cons A as ih =>
    intro ms
    match ms with
    | [] => rfl
    | [_] => rfl
    | m :: nx :: rest => simp only [leftSweep, List.length_cons]; rw [ih]; simp

theorem leftSweep_shape : ∀ (as : List (QRAns R)) (ms : List (Mode R)), (leftSweep ms as).map (·.n) = ms.map (·.n) := by
  intro as
  induction as with
  | nil => intro ms; rw [leftSweep_nil]
  | cons A as ih =>
    intro ms
    match ms with
    | [] => rfl
    | [_] => rfl
    | m :: nx :: rest =>
      simp only [leftSweep, List.map_cons]
      have := ih ((orthStep m nx A).2 :: rest)
      simp only [List.map_cons] at this
      rw [this]; simp [orthStep]

/-- **the sweep does not change the tensor** (every tail of the chain is preserved) -/
theorem leftSweep_tail : ∀ (as : List (QRAns R)) (ms : List (Mode R)) (is : List Nat) (a : Nat), qrOK ms as →
    inShape is (ms.map (·.n)) → (∀ m ∈ ms.head?, a < m.rl) → tail (leftSweep ms as) is a = tail ms is a := by
  intro as
  induction as with
  | nil => intro ms is a _ _ _; rw [leftSweep_nil]
  | cons A as ih =>
    intro ms is a hok hin ha
    match ms, is, hok, hin with
    | [], _, _, _ => rfl
    | [_], _, _, _ => rfl
    | m :: nx :: rest, [], _, hin => simp [inShape] at hin
    | m :: nx :: rest, [_], _, hin => simp [inShape] at hin
    | m :: nx :: rest, i :: j :: is', ⟨hqr, hb, hok'⟩, ⟨hi, hj, hrest⟩ =>
      have ha' : a < m.rl := ha m (by simp)
      simp only [leftSweep]
      rw [← orthStep_tail m nx A rest hqr hb i j is' a ha' hi]
      simp only [tail, sumTo_eq]
      apply Finset.sum_congr rfl; intro b hb'
      have hb'' : b < A.k := by simpa [orthStep] using Finset.mem_range.mp hb'
      have := ih ((orthStep m nx A).2 :: rest) (j :: is') b hok' (by simpa [inShape, orthStep] using And.intro hj hrest)
        (by intro x hx; simp at hx; subst hx; simpa [orthStep] using hb'')
      rw [this]; simp only [tail, sumTo_eq]

theorem leftSweep_head_rl (ms : List (Mode R)) (as : List (QRAns R)) :
    (leftSweep ms as).head?.map (·.rl) = ms.head?.map (·.rl) := by
  match ms, as with
  | [], _ => simp [leftSweep]
  | [_], _ => simp [leftSweep]
  | _ :: _ :: _, [] => simp [leftSweep]
  | m :: nx :: rest, A :: as' => simp [leftSweep, orthStep]

/-- **C13/C01 at sweep level**: `orthogonalize` leaves the dense array unchanged -/
theorem leftSweep_dense (ms : List (Mode R)) (as : List (QRAns R)) (is : List Nat) (hok : qrOK ms as)
    (hin : inShape is (ms.map (·.n))) : dense (leftSweep ms as) is = dense ms is := by
  cases hms : ms with
  | nil => simp [leftSweep]
  | cons m t =>
    have hh := leftSweep_head_rl ms as
    rw [hms] at hh hok hin
    cases hl : leftSweep (m :: t) as with
    | nil => have := leftSweep_length as (m :: t); rw [hl] at this; simp at this
    | cons x xs =>
      rw [hl] at hh
      have hx : x.rl = m.rl := by simpa using hh
      simp only [dense, sumTo_eq, hx]
      apply Finset.sum_congr rfl; intro a ha
      rw [← hl]
      exact leftSweep_tail as (m :: t) is a hok hin (by intro y hy; simp at hy; subst hy; exact Finset.mem_range.mp ha)

/-! ### the gauge established by the sweep -/

def fwdLO (p : Nat) : List (Mode R) → Prop
  | [] => True
  | m :: ms => m.rl = p ∧ leftOrthoM m ∧ fwdLO m.rr ms

theorem leftSweep_fwdLO : ∀ (as : List (QRAns R)) (ms : List (Mode R)) (p : Nat), qrOK ms as → as.length + 1 = ms.length →
    (∀ m ∈ ms.head?, m.rl = p) → fwdLO p (leftSweep ms as).dropLast := by
  intro as
  induction as with
  | nil =>
    intro ms p _ hl _
    rw [leftSweep_nil]
    match ms, hl with
    | [m], _ => simp [fwdLO]
  | cons A as ih =>
    intro ms p hok hl hp
    match ms, hok, hl with
    | [], _, hl => simp at hl
    | [_], _, hl => simp at hl
    | m :: nx :: rest, ⟨hqr, hb, hok'⟩, hl =>
      simp only [leftSweep]
      have hne : leftSweep ((orthStep m nx A).2 :: rest) as ≠ [] := by
        intro h; have := leftSweep_length as ((orthStep m nx A).2 :: rest); rw [h] at this; simp at this
      rw [List.dropLast_cons_of_ne_nil hne]
      refine ⟨by simpa [orthStep] using hp m (by simp), orthStep_LO m nx A hqr, ?_⟩
      exact ih ((orthStep m nx A).2 :: rest) (orthStep m nx A).1.rr hok' (by simpa using hl) (by intro x hx; simp at hx; subst hx; simp [orthStep])

theorem leftSweep_wf : ∀ (as : List (QRAns R)) (ms : List (Mode R)) (p : Nat), wf p ms → wf p (leftSweep ms as) := by
  intro as
  induction as with
  | nil => intro ms p h; rw [leftSweep_nil]; exact h
  | cons A as ih =>
    intro ms p h
    match ms, h with
    | [], h => exact h
    | [_], h => exact h
    | m :: nx :: rest, ⟨h1, h2, h3⟩ =>
      simp only [leftSweep]
      exact ⟨by simpa [orthStep] using h1, ih _ _ ⟨by simp [orthStep], by simpa [orthStep] using h3⟩⟩

theorem leftSweep_outRank : ∀ (as : List (QRAns R)) (ms : List (Mode R)) (p : Nat), outRank p (leftSweep ms as) = outRank p ms := by
  intro as
  induction as with
  | nil => intro ms p; rw [leftSweep_nil]
  | cons A as ih =>
    intro ms p
    match ms with
    | [] => rfl
    | [_] => rfl
    | m :: nx :: rest =>
      simp only [leftSweep, outRank]
      rw [ih]; simp [outRank, orthStep]

/-- generalised boundary rank for the reversed predicates -/
def topRankP (p : Nat) : List (Mode R) → Nat
  | [] => p
  | m :: _ => m.rr

def chainLOP (p : Nat) : List (Mode R) → Prop
  | [] => True
  | m :: rest => m.rl = topRankP p rest ∧ leftOrthoM m ∧ chainLOP p rest

theorem topRankP_one (l : List (Mode R)) : topRankP 1 l = topRank l := by cases l <;> rfl

theorem chainLOP_one (l : List (Mode R)) : chainLOP 1 l ↔ chainLO l := by
  induction l with
  | nil => simp [chainLOP, chainLO]
  | cons m rest ih => simp only [chainLOP, chainLO, topRankP_one, ih]

theorem topRankP_snoc (p : Nat) (xs : List (Mode R)) (m : Mode R) : topRankP p (xs ++ [m]) = topRankP m.rr xs := by
  cases xs <;> rfl

theorem chainLOP_snoc (p : Nat) (xs : List (Mode R)) (m : Mode R) :
    chainLOP p (xs ++ [m]) ↔ (m.rl = p ∧ leftOrthoM m ∧ chainLOP m.rr xs) := by
  induction xs with
  | nil => simp [chainLOP, topRankP]
  | cons x xs ih =>
    simp only [List.cons_append, chainLOP, ih, topRankP_snoc]
    constructor
    · rintro ⟨h1, h2, h3, h4, h5⟩; exact ⟨h3, h4, h1, h2, h5⟩
    · rintro ⟨h3, h4, h1, h2, h5⟩; exact ⟨h1, h2, h3, h4, h5⟩

theorem fwdLO_reverse : ∀ (l : List (Mode R)) (p : Nat), fwdLO p l → chainLOP p l.reverse := by
  intro l
  induction l with
  | nil => intro p _; trivial
  | cons m ms ih =>
    intro p ⟨h1, h2, h3⟩
    rw [List.reverse_cons, chainLOP_snoc]
    exact ⟨h1, h2, ih m.rr h3⟩


theorem wf_snoc_inv (xs : List (Mode R)) (m : Mode R) : ∀ p, wf p (xs ++ [m]) → wf p xs ∧ m.rl = outRank p xs := by
  induction xs with
  | nil => intro p h; exact ⟨trivial, h.1⟩
  | cons x xs ih =>
    intro p h
    obtain ⟨h1, h2⟩ := ih x.rr h.2
    exact ⟨⟨h.1, h1⟩, h2⟩

section endtoend
variable {K : Type} [Field K] [LinearOrder K] [IsStrictOrderedRing K]

/-- **`round_tt` end to end** (TT cores, `algorithm='svd'`): orthogonalisation sweep with QR answers, then truncation sweep with SVD
    answers. Given the kernel contracts (`qrOK`, `ansOK`), no `rmax` cap and no absolute-zero special case:
    `‖T − round_tt(T)‖² ≤ eps²·‖T‖²`, for every number of modes, sizes and ranks. -/
theorem roundTT_end_to_end (thr eps : K) (ms : List (Mode K)) (qrs : List (QRAns K)) (svds : List (SVDAns K × Nat))
    (cur : Mode K) (rest : List (Mode K))
    (hwf : wf 1 ms) (hout : outRank 1 ms = 1) (hlen : qrs.length + 1 = ms.length) (hqr : qrOK ms qrs)
    (hrev : (leftSweep ms qrs).reverse = cur :: rest)
    (hok : ansOK thr (budget2 eps cur rest.length) (cur :: rest) svds)
    (hun : uncapped thr (budget2 eps cur rest.length) (cur :: rest) svds) :
    boxSum (ms.map (·.n)) (fun is => (dense ms is - dense (roundTTsem thr (budget2 eps cur rest.length) (leftSweep ms qrs) svds) is) ^ 2)
      ≤ eps ^ 2 * boxSum (ms.map (·.n)) (fun is => dense ms is ^ 2) := by
  have hout_eq : leftSweep ms qrs = rest.reverse ++ [cur] := by
    have := congrArg List.reverse hrev; simpa using this
  have hhead : ∀ m ∈ ms.head?, m.rl = 1 := by
    intro m hm; cases ms with
    | nil => simp at hm
    | cons x xs => simp at hm; subst hm; exact hwf.1
  have hf := leftSweep_fwdLO qrs ms 1 hqr hlen hhead
  rw [hout_eq, List.dropLast_concat] at hf
  have hlo : chainLO rest := by
    have := fwdLO_reverse rest.reverse 1 hf
    rw [List.reverse_reverse] at this
    exact (chainLOP_one rest).mp this
  have hw := leftSweep_wf qrs ms 1 hwf
  rw [hout_eq] at hw
  obtain ⟨_, hcur⟩ := wf_snoc_inv rest.reverse cur 1 hw
  have hrl : cur.rl = topRank rest := by rw [hcur]; exact (wfRev_forward rest (chainLO_wfRev rest hlo)).2
  have hrr : cur.rr = 1 := by
    have := leftSweep_outRank qrs ms 1
    rw [hout_eq, outRank_snoc, hout] at this; exact this
  have key := TN.roundTT_within_eps thr eps (leftSweep ms qrs) svds cur rest hrev hlo hrl hrr hok hun
  rw [leftSweep_shape] at key
  have e1 : boxSum (ms.map (·.n)) (fun is => (dense ms is - dense (roundTTsem thr (budget2 eps cur rest.length) (leftSweep ms qrs) svds) is) ^ 2)
      = boxSum (ms.map (·.n)) (fun is => (dense (leftSweep ms qrs) is - dense (roundTTsem thr (budget2 eps cur rest.length) (leftSweep ms qrs) svds) is) ^ 2) := by
    apply boxSum_congr_box; intro is his; rw [leftSweep_dense ms qrs is hqr his]
  have e2 : boxSum (ms.map (·.n)) (fun is => dense ms is ^ 2) = boxSum (ms.map (·.n)) (fun is => dense (leftSweep ms qrs) is ^ 2) := by
    apply boxSum_congr_box; intro is his; rw [leftSweep_dense ms qrs is hqr his]
  rw [e1, e2]; exact key

end endtoend
end TN
