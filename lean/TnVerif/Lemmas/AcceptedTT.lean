import TnVerif.Lemmas.Accepted
import TnVerif.Lemmas.Format
/-! `t.tt()` (line 94 of `accepted_inputs`) of any well-formed tensor is a well-formed pure-TT tensor of the
    same shape. -/
set_option linter.unusedSectionVars false
set_option linter.unusedSimpArgs false
open Finset
namespace TN
variable {R : Type} [CommSemiring R]

/-! ### `t.tt()` of any well-formed tensor is a pure-TT tensor of the same shape -/

theorem decompAll_noFac (t : Tensor R) : NoFac t.decompAll := by
  intro m hm
  simp only [Tensor.decompAll, List.mem_map] at hm
  obtain ⟨x, _, rfl⟩ := hm; rfl

theorem decompAll_shape (t : Tensor R) : t.decompAll.shape = t.shape := by
  simp [Tensor.decompAll, Tensor.shape, List.map_map, Function.comp_def, TMode.n]

theorem decompAll_WFfrom (t : Tensor R) : ∀ p, Tensor.WFfrom p t → Tensor.WFfrom p t.decompAll := by
  induction t with
  | nil => intro p h; exact h
  | cons x xs ih =>
    intro p h
    exact ⟨by simpa using h.1, trivial, by simpa [Tensor.decompAll] using ih _ h.2.2⟩

theorem go_pure (t : Tensor R) (h : NoFac t) : Tensor.isPureTT (cpToTTAll.go t) = true := by
  induction t with
  | nil => rfl
  | cons x xs ih =>
    have hx : x.U = none := h x (by simp)
    have hxs : NoFac xs := fun y hy => h y (by simp [hy])
    cases xs with
    | nil =>
      obtain ⟨c, U⟩ := x
      cases c <;> simp_all [cpToTTAll.go, Tensor.isPureTT, Core.liftLast, Core.isCP]
    | cons y ys =>
      have := ih hxs
      obtain ⟨c, U⟩ := x
      rw [cpToTTAll.go.eq_3 _ _ (by simp), isPureTT_cons]
      refine ⟨?_, this⟩
      cases c <;> simp_all [Core.toTT, Core.isCP]
    
theorem go_shape (t : Tensor R) : Tensor.shape (cpToTTAll.go t) = Tensor.shape t := by
  induction t with
  | nil => rfl
  | cons x xs ih =>
    cases xs with
    | nil => obtain ⟨c, U⟩ := x; cases U <;> simp [cpToTTAll.go, Tensor.shape, TMode.n]
    | cons y ys =>
      rw [cpToTTAll.go.eq_3 _ _ (by simp), shape_cons, shape_cons x, ih]
      obtain ⟨c, U⟩ := x; cases U <;> simp [TMode.n]

theorem go_WFfrom (t : Tensor R) (h : NoFac t) : ∀ p, Tensor.WFfrom p t → Tensor.WFfrom p (cpToTTAll.go t) := by
  induction t with
  | nil => intro p hp; exact hp
  | cons x xs ih =>
    intro p hp
    have hx : x.U = none := h x (by simp)
    have hxs : NoFac xs := fun y hy => h y (by simp [hy])
    obtain ⟨c, U⟩ := x
    simp only at hx; subst hx
    cases xs with
    | nil => exact ⟨by simpa [cpToTTAll.go] using hp.1, trivial, trivial⟩
    | cons y ys =>
      rw [cpToTTAll.go.eq_3 _ _ (by simp)]
      exact ⟨by simpa using hp.1, trivial, by simpa using ih hxs _ hp.2.2⟩

theorem cpToTTAll_pure (t : Tensor R) (h : NoFac t) : Tensor.isPureTT (cpToTTAll t) = true := by
  cases t with
  | nil => rfl
  | cons x xs =>
    have hx : x.U = none := h x (by simp)
    have hxs : NoFac xs := fun y hy => h y (by simp [hy])
    obtain ⟨c, U⟩ := x
    simp only at hx; subst hx
    cases xs with
    | nil => cases c <;> simp [cpToTTAll, Tensor.isPureTT, Core.sumCols, Core.isCP]
    | cons y ys =>
      simp only [cpToTTAll]
      rw [isPureTT_cons]
      exact ⟨by cases c <;> simp [Core.lift1, Core.isCP], go_pure _ hxs⟩

theorem cpToTTAll_shape (t : Tensor R) : Tensor.shape (cpToTTAll t) = Tensor.shape t := by
  cases t with
  | nil => rfl
  | cons x xs =>
    obtain ⟨c, U⟩ := x
    cases xs with
    | nil => cases c <;> cases U <;> simp [cpToTTAll, Tensor.shape, TMode.n, Core.sumCols, Core.spatial]
    | cons y ys =>
      simp only [cpToTTAll]
      rw [shape_cons, shape_cons _ (y :: ys), go_shape]
      cases U <;> simp [TMode.n]

theorem cpToTTAll_WF (t : Tensor R) (h : NoFac t) (hw : t.WF) : (cpToTTAll t).WF := by
  cases t with
  | nil => exact hw
  | cons x xs =>
    have hx : x.U = none := h x (by simp)
    have hxs : NoFac xs := fun y hy => h y (by simp [hy])
    obtain ⟨c, U⟩ := x
    simp only at hx; subst hx
    cases xs with
    | nil => exact ⟨rfl, trivial, trivial⟩
    | cons y ys =>
      simp only [cpToTTAll]
      exact ⟨rfl, trivial, by simpa using go_WFfrom _ hxs _ hw.2.2⟩

theorem tt_pure (t : Tensor R) : t.tt.isPureTT = true := cpToTTAll_pure _ (decompAll_noFac t)
theorem tt_shape (t : Tensor R) : t.tt.shape = t.shape := by
  unfold Tensor.tt; rw [cpToTTAll_shape, decompAll_shape]
theorem tt_WF (t : Tensor R) (h : t.WF) : t.tt.WF := by
  apply cpToTTAll_WF _ (decompAll_noFac t)
  cases t with
  | nil => exact h
  | cons m ms =>
    have := decompAll_WFfrom (m :: ms) _ h
    simpa [Tensor.WF, Tensor.decompAll] using this

end TN
