import TnVerif.Lemmas.Chain
import TnVerif.Model.Arith
/-! Link lemmas: the code-level `addMode` / `mulMode` realise `Mode.add` / `Mode.kron`. -/
set_option linter.unusedSectionVars false
set_option linter.unusedSimpArgs false
open Finset
namespace TN
variable {R : Type} [CommSemiring R]

omit [CommSemiring R] in
theorem Mode.ext' {m m' : Mode R} (h1 : m.rl = m'.rl) (h2 : m.rr = m'.rr) (h3 : m.n = m'.n)
    (h4 : ∀ i a b, m.G i a b = m'.G i a b) : m = m' := by
  cases m; cases m'; simp only [Mode.mk.injEq] at *
  exact ⟨h1, h2, h3, by funext i a b; exact h4 i a b⟩

@[simp] theorem Fac.apply_rl (U : Fac R) (c : Core R) : (U.apply c).rl = c.rl := by cases c <;> rfl
@[simp] theorem Fac.apply_rr (U : Fac R) (c : Core R) : (U.apply c).rr = c.rr := by cases c <;> rfl
@[simp] theorem Fac.apply_spatial (U : Fac R) (c : Core R) : (U.apply c).spatial = U.rows := by cases c <;> rfl
@[simp] theorem Fac.apply_isCP (U : Fac R) (c : Core R) : (U.apply c).isCP = c.isCP := by cases c <;> rfl

@[simp] theorem TMode.decomp_rl (m : TMode R) : m.decomp.rl = m.core.rl := by
  unfold TMode.decomp; cases m.U <;> simp
@[simp] theorem TMode.decomp_rr (m : TMode R) : m.decomp.rr = m.core.rr := by
  unfold TMode.decomp; cases m.U <;> simp
@[simp] theorem TMode.decomp_spatial (m : TMode R) : m.decomp.spatial = m.n := by
  unfold TMode.decomp TMode.n; cases m.U <;> simp
@[simp] theorem TMode.decomp_isCP (m : TMode R) : m.decomp.isCP = m.core.isCP := by
  unfold TMode.decomp; cases m.U <;> simp

/-- entries of a core with an absorbed factor -/
theorem Fac.apply_get (U : Fac R) (c : Core R) (a i b : Nat) :
    (U.apply c).get a i b = ∑ j ∈ range c.spatial, U.f i j * c.get a j b := by
  cases c with
  | tt r0 s r1 f => simp [Fac.apply, Core.get, Core.spatial, sumTo_eq]
  | cp s r f =>
    simp only [Fac.apply, Core.get, Core.spatial, sumTo_eq]
    by_cases h : a = b <;> simp [h]

@[simp] theorem TMode.toMode_rl (m : TMode R) : m.toMode.rl = m.core.rl := rfl
@[simp] theorem TMode.toMode_rr (m : TMode R) : m.toMode.rr = m.core.rr := rfl
@[simp] theorem TMode.toMode_n (m : TMode R) : m.toMode.n = m.n := rfl
theorem TMode.toMode_G (m : TMode R) (i a b : Nat) : m.toMode.G i a b = m.decomp.get a i b := rfl

theorem Core.get_diag (c : Core R) (h : c.isCP = true) (a j b : Nat) :
    c.get a j b = if a = b then c.get a j a else 0 := by
  cases c with
  | tt => simp [Core.isCP] at h
  | cp s r f => by_cases hab : a = b <;> simp [Core.get, hab]

theorem Core.get_offdiag (c : Core R) (h : c.isCP = true) (a j b : Nat) (hab : a ≠ b) : c.get a j b = 0 := by
  rw [Core.get_diag c h]; simp [hab]

theorem Core.isCP_rl (c : Core R) (h : c.isCP = true) : c.rl = c.rr := by
  cases c with
  | tt => simp [Core.isCP] at h
  | cp => rfl

@[simp] theorem Core.cp_get (s r : Nat) (f : Nat → Nat → R) (a j b : Nat) :
    (Core.cp s r f).get a j b = if a = b then f j a else 0 := rfl
@[simp] theorem Core.tt_get (r0 s r1 : Nat) (f : Nat → Nat → Nat → R) (a j b : Nat) :
    (Core.tt r0 s r1 f).get a j b = f a j b := rfl

@[simp] theorem Core.cp_rl (s r : Nat) (f : Nat → Nat → R) : (Core.cp s r f).rl = r := rfl
@[simp] theorem Core.cp_rr (s r : Nat) (f : Nat → Nat → R) : (Core.cp s r f).rr = r := rfl
@[simp] theorem Core.cp_spatial (s r : Nat) (f : Nat → Nat → R) : (Core.cp s r f).spatial = s := rfl
@[simp] theorem Core.cp_isCP (s r : Nat) (f : Nat → Nat → R) : (Core.cp s r f).isCP = true := rfl
@[simp] theorem Core.tt_rl (r0 s r1 : Nat) (f : Nat → Nat → Nat → R) : (Core.tt r0 s r1 f).rl = r0 := rfl
@[simp] theorem Core.tt_rr (r0 s r1 : Nat) (f : Nat → Nat → Nat → R) : (Core.tt r0 s r1 f).rr = r1 := rfl
@[simp] theorem Core.tt_spatial (r0 s r1 : Nat) (f : Nat → Nat → Nat → R) : (Core.tt r0 s r1 f).spatial = s := rfl
@[simp] theorem Core.tt_isCP (r0 s r1 : Nat) (f : Nat → Nat → Nat → R) : (Core.tt r0 s r1 f).isCP = false := rfl
@[simp] theorem TMode.decomp_none (c : Core R) : (TMode.mk c none).decomp = c := rfl
@[simp] theorem TMode.decomp_some (c : Core R) (U : Fac R) : (TMode.mk c (some U)).decomp = U.apply c := rfl
@[simp] theorem TMode.n_none (c : Core R) : (TMode.mk c none).n = c.spatial := rfl
@[simp] theorem TMode.n_some (c : Core R) (U : Fac R) : (TMode.mk c (some U)).n = U.rows := rfl

/-- "decompress, then stack" realises the block-diagonal combination -/
theorem toMode_addPlain (x y : TMode R) : (addPlain x y).toMode = Mode.add x.toMode y.toMode := by
  by_cases hcp : (x.core.isCP && y.core.isCP) = true
  · have h1 : x.core.isCP = true := by simp_all
    have h2 : y.core.isCP = true := by simp_all
    have hd1 : x.decomp.isCP = true := by simp [h1]
    have hd2 : y.decomp.isCP = true := by simp [h2]
    apply Mode.ext'
    · simp [addPlain, hcp, Mode.add, Core.isCP_rl _ h1, Core.isCP_rl _ h2]
    · simp [addPlain, hcp, Mode.add]
    · simp [addPlain, hcp, Mode.add]
    · intro i a b
      simp only [addPlain, hcp, if_true, TMode.toMode_G, Mode.add, TMode.decomp_none, Core.cp_get, TMode.decomp_rr,
        TMode.toMode_rl, TMode.toMode_rr, Core.isCP_rl _ h1]
      by_cases hab : a = b
      · subst hab; by_cases ha : a < x.core.rr <;> simp [ha]
      · simp only [hab, if_false]
        by_cases ha : a < x.core.rr <;> by_cases hb : b < x.core.rr <;> simp only [ha, hb, if_true, if_false]
        · exact (Core.get_offdiag _ hd1 a i b hab).symm
        · exact (Core.get_offdiag _ hd2 _ i _ (by omega)).symm
  · have hcp' : (x.core.isCP && y.core.isCP) = false := by simpa using hcp
    apply Mode.ext'
    · simp [addPlain, hcp', Mode.add]
    · simp [addPlain, hcp', Mode.add]
    · simp [addPlain, hcp', Mode.add]
    · intro i a b
      simp only [addPlain, hcp', Mode.add, TMode.toMode_G, TMode.decomp_none, Core.tt_get, TMode.decomp_rl, TMode.decomp_rr, TMode.toMode_rl, TMode.toMode_rr]
      rfl

/-! ### both operands carry a factor -/
section addFac
variable (c1 c2 : Core R) (U1 U2 : Fac R)

theorem addFac_rl : (addFac c1 c2 U1 U2).core.rl = c1.rl + c2.rl := by
  by_cases hcp : (c1.isCP && c2.isCP) = true
  · have h1 : c1.isCP = true := by simp_all
    have h2 : c2.isCP = true := by simp_all
    simp [addFac, hcp, Core.isCP_rl _ h1, Core.isCP_rl _ h2]
  · have hcp' : (c1.isCP && c2.isCP) = false := by simpa using hcp
    simp [addFac, hcp']

theorem addFac_rr : (addFac c1 c2 U1 U2).core.rr = c1.rr + c2.rr := by
  by_cases hcp : (c1.isCP && c2.isCP) = true
  · simp [addFac, hcp]
  · have hcp' : (c1.isCP && c2.isCP) = false := by simpa using hcp
    simp [addFac, hcp']

theorem addFac_spatial : (addFac c1 c2 U1 U2).core.spatial = c1.spatial + c2.spatial := by
  by_cases hcp : (c1.isCP && c2.isCP) = true
  · simp [addFac, hcp]
  · have hcp' : (c1.isCP && c2.isCP) = false := by simpa using hcp
    simp [addFac, hcp']

theorem addFac_U : (addFac c1 c2 U1 U2).U = some (U1.hcat U2) := by
  by_cases hcp : (c1.isCP && c2.isCP) = true
  · simp [addFac, hcp]
  · have hcp' : (c1.isCP && c2.isCP) = false := by simpa using hcp
    simp [addFac, hcp']

/-- entries of the 3-way block core, uniformly for the CP and the TT layout -/
theorem addFac_get (a j b : Nat) : (addFac c1 c2 U1 U2).core.get a j b =
    if j < c1.spatial then (if a < c1.rl then (if b < c1.rr then c1.get a j b else 0) else 0)
    else (if a < c1.rl then 0 else (if b < c1.rr then 0 else c2.get (a - c1.rl) (j - c1.spatial) (b - c1.rr))) := by
  by_cases hcp : (c1.isCP && c2.isCP) = true
  · have h1 : c1.isCP = true := by simp_all
    have h2 : c2.isCP = true := by simp_all
    simp only [addFac, hcp, if_true, Core.cp_get, Core.isCP_rl _ h1]
    by_cases hab : a = b
    · subst hab; by_cases ha : a < c1.rr <;> simp [ha]
    · simp only [hab, if_false]
      by_cases hj : j < c1.spatial <;> by_cases ha : a < c1.rr <;> by_cases hb : b < c1.rr <;>
        simp only [hj, ha, hb, if_true, if_false]
      · exact (Core.get_offdiag _ h1 a j b hab).symm
      · exact (Core.get_offdiag _ h2 _ _ _ (by omega)).symm
  · have hcp' : (c1.isCP && c2.isCP) = false := by simpa using hcp
    simp [addFac, hcp']
end addFac

theorem toMode_addFac (c1 c2 : Core R) (U1 U2 : Fac R) (h1 : U1.cols = c1.spatial) :
    (addFac c1 c2 U1 U2).toMode = Mode.add (TMode.mk c1 (some U1)).toMode (TMode.mk c2 (some U2)).toMode := by
  apply Mode.ext'
  · simp [addFac_rl, Mode.add]
  · simp [addFac_rr, Mode.add]
  · simp [TMode.n, addFac_U, Mode.add, Fac.hcat]
  · intro i a b
    simp only [TMode.toMode_G, Mode.add, TMode.toMode_rl, TMode.toMode_rr, TMode.decomp_some]
    have hd : (addFac c1 c2 U1 U2).decomp = Fac.apply (U1.hcat U2) (addFac c1 c2 U1 U2).core := by
      unfold TMode.decomp; rw [addFac_U]
    rw [hd, Fac.apply_get, Fac.apply_get, Fac.apply_get, addFac_spatial]
    simp only [addFac_get, Fac.hcat, h1]
    have key : ∀ j, (if j < c1.spatial then U1.f i j else U2.f i (j - c1.spatial)) *
        (if j < c1.spatial then (if a < c1.rl then (if b < c1.rr then c1.get a j b else 0) else 0)
         else (if a < c1.rl then 0 else (if b < c1.rr then 0 else c2.get (a - c1.rl) (j - c1.spatial) (b - c1.rr))))
        = if j < c1.spatial then U1.f i j * (if a < c1.rl then (if b < c1.rr then c1.get a j b else 0) else 0)
          else U2.f i (j - c1.spatial) * (if a < c1.rl then 0 else (if b < c1.rr then 0 else c2.get (a - c1.rl) (j - c1.spatial) (b - c1.rr))) := by
      intro j; split <;> rfl
    simp only [key]
    rw [sum_blk c1.spatial c2.spatial
      (fun j => U1.f i j * (if a < c1.rl then (if b < c1.rr then c1.get a j b else 0) else 0))
      (fun j => U2.f i j * (if a < c1.rl then 0 else (if b < c1.rr then 0 else c2.get (a - c1.rl) j (b - c1.rr))))]
    by_cases ha : a < c1.rl <;> by_cases hb : b < c1.rr <;> simp [ha, hb]

/-- the code-level `+` of one mode is the block-diagonal combination of the semantic modes -/
theorem toMode_addMode (x y : TMode R) (hx : x.ok) :
    (addMode x y).toMode = Mode.add x.toMode y.toMode := by
  obtain ⟨c1, U1⟩ := x
  obtain ⟨c2, U2⟩ := y
  cases U1 with
  | none => exact toMode_addPlain _ _
  | some U1 =>
    cases U2 with
    | none => exact toMode_addPlain _ _
    | some U2 => exact toMode_addFac c1 c2 U1 U2 hx

/-! ### multiplication -/

theorem div_mod_ne {a b r : Nat} (h : a ≠ b) : a / r ≠ b / r ∨ a % r ≠ b % r := by
  by_contra hc
  have h1 : a / r = b / r := by by_contra h'; exact hc (Or.inl h')
  have h2 : a % r = b % r := by by_contra h'; exact hc (Or.inr h')
  apply h
  rw [← Nat.div_add_mod a r, ← Nat.div_add_mod b r, h1, h2]

/-- product of two diagonal (CP) cores, read off the diagonal -/
theorem get_mul_offdiag (c1 c2 : Core R) (h1 : c1.isCP = true) (h2 : c2.isCP = true) (a b j j' r : Nat) (hab : a ≠ b) :
    c1.get (a / r) j (b / r) * c2.get (a % r) j' (b % r) = 0 := by
  rcases div_mod_ne (r := r) hab with h | h
  · rw [Core.get_offdiag c1 h1 _ _ _ h, zero_mul]
  · rw [Core.get_offdiag c2 h2 _ _ _ h, mul_zero]

theorem toMode_mulPlain (x y : TMode R) : (mulPlain x y).toMode = Mode.kron x.toMode y.toMode := by
  by_cases hcp : (x.core.isCP && y.core.isCP) = true
  · have h1 : x.core.isCP = true := by simp_all
    have h2 : y.core.isCP = true := by simp_all
    have hd1 : x.decomp.isCP = true := by simp [h1]
    have hd2 : y.decomp.isCP = true := by simp [h2]
    apply Mode.ext'
    · simp [mulPlain, hcp, Mode.kron, Core.isCP_rl _ h1, Core.isCP_rl _ h2]
    · simp [mulPlain, hcp, Mode.kron]
    · simp [mulPlain, hcp, Mode.kron]
    · intro i a b
      simp only [mulPlain, hcp, if_true, TMode.toMode_G, Mode.kron, TMode.decomp_none, Core.cp_get, TMode.decomp_rr,
        TMode.toMode_rl, TMode.toMode_rr, Core.isCP_rl _ h2]
      by_cases hab : a = b
      · subst hab; simp
      · simp only [hab, if_false]
        exact (get_mul_offdiag _ _ hd1 hd2 a b i i _ hab).symm
  · have hcp' : (x.core.isCP && y.core.isCP) = false := by simpa using hcp
    apply Mode.ext'
    · simp [mulPlain, hcp', Mode.kron]
    · simp [mulPlain, hcp', Mode.kron]
    · simp [mulPlain, hcp', Mode.kron]
    · intro i a b
      simp only [mulPlain, hcp', Mode.kron, TMode.toMode_G, TMode.decomp_none, Core.tt_get, TMode.decomp_rl, TMode.decomp_rr,
        TMode.toMode_rl, TMode.toMode_rr]
      rfl

section mulFac
variable (c1 c2 : Core R) (U1 U2 : Fac R)

theorem mulFac_rl : (mulFac c1 c2 U1 U2).core.rl = c1.rl * c2.rl := by
  by_cases hcp : (c1.isCP && c2.isCP) = true
  · have h1 : c1.isCP = true := by simp_all
    have h2 : c2.isCP = true := by simp_all
    simp [mulFac, hcp, Core.isCP_rl _ h1, Core.isCP_rl _ h2]
  · have hcp' : (c1.isCP && c2.isCP) = false := by simpa using hcp
    simp [mulFac, hcp']

theorem mulFac_rr : (mulFac c1 c2 U1 U2).core.rr = c1.rr * c2.rr := by
  by_cases hcp : (c1.isCP && c2.isCP) = true
  · simp [mulFac, hcp]
  · have hcp' : (c1.isCP && c2.isCP) = false := by simpa using hcp
    simp [mulFac, hcp']

theorem mulFac_spatial : (mulFac c1 c2 U1 U2).core.spatial = c1.spatial * c2.spatial := by
  by_cases hcp : (c1.isCP && c2.isCP) = true
  · simp [mulFac, hcp]
  · have hcp' : (c1.isCP && c2.isCP) = false := by simpa using hcp
    simp [mulFac, hcp']

theorem mulFac_U : (mulFac c1 c2 U1 U2).U = some (U1.krao U2) := by
  by_cases hcp : (c1.isCP && c2.isCP) = true
  · simp [mulFac, hcp]
  · have hcp' : (c1.isCP && c2.isCP) = false := by simpa using hcp
    simp [mulFac, hcp']

theorem mulFac_get (a j b : Nat) : (mulFac c1 c2 U1 U2).core.get a j b =
    c1.get (a / c2.rl) (j / c2.spatial) (b / c2.rr) * c2.get (a % c2.rl) (j % c2.spatial) (b % c2.rr) := by
  by_cases hcp : (c1.isCP && c2.isCP) = true
  · have h1 : c1.isCP = true := by simp_all
    have h2 : c2.isCP = true := by simp_all
    simp only [mulFac, hcp, if_true, Core.cp_get, Core.isCP_rl _ h2]
    by_cases hab : a = b
    · subst hab; simp
    · simp only [hab, if_false]
      exact (get_mul_offdiag _ _ h1 h2 a b _ _ _ hab).symm
  · have hcp' : (c1.isCP && c2.isCP) = false := by simpa using hcp
    simp [mulFac, hcp']
end mulFac

theorem toMode_mulFac (c1 c2 : Core R) (U1 U2 : Fac R) (h2 : U2.cols = c2.spatial) :
    (mulFac c1 c2 U1 U2).toMode = Mode.kron (TMode.mk c1 (some U1)).toMode (TMode.mk c2 (some U2)).toMode := by
  apply Mode.ext'
  · simp [mulFac_rl, Mode.kron]
  · simp [mulFac_rr, Mode.kron]
  · simp [TMode.n, mulFac_U, Mode.kron, Fac.krao]
  · intro i a b
    simp only [TMode.toMode_G, Mode.kron, TMode.toMode_rl, TMode.toMode_rr, TMode.decomp_some]
    have hd : (mulFac c1 c2 U1 U2).decomp = Fac.apply (U1.krao U2) (mulFac c1 c2 U1 U2).core := by
      unfold TMode.decomp; rw [mulFac_U]
    rw [hd, Fac.apply_get, Fac.apply_get, Fac.apply_get, mulFac_spatial]
    simp only [mulFac_get, Fac.krao, h2]
    rw [sum_range_mul c1.spatial c2.spatial (fun j1 j2 => U1.f i j1 * U2.f i j2 *
      (c1.get (a / c2.rl) j1 (b / c2.rr) * c2.get (a % c2.rl) j2 (b % c2.rr)))]
    rw [Finset.sum_mul_sum]
    apply Finset.sum_congr rfl; intro j1 _
    apply Finset.sum_congr rfl; intro j2 _
    ring

/-- the code-level `*` of one mode is the slice-wise Kronecker product of the semantic modes -/
theorem toMode_mulMode (x y : TMode R) (hy : y.ok) :
    (mulMode x y).toMode = Mode.kron x.toMode y.toMode := by
  obtain ⟨c1, U1⟩ := x
  obtain ⟨c2, U2⟩ := y
  cases U1 with
  | none => exact toMode_mulPlain _ _
  | some U1 =>
    cases U2 with
    | none => exact toMode_mulPlain _ _
    | some U2 =>
      simp only [mulMode]
      split
      · exact toMode_mulFac c1 c2 U1 U2 hy
      · exact toMode_mulPlain _ _

end TN
