import TnVerif.Lemmas.Squeeze
import TnVerif.Lemmas.AcceptedTT
import TnVerif.Model.Logic
/-! Keys made of integers and slices only (as `[slice(1, 3)] * n + [0] + [slice(1, 3)] * (N - n - 1)` of
    `relevant_symbols`, logic.py:133), run through `_process_key`, bounds normalisation and the `__getitem__` state
    machine: the indexing never fails, deletes exactly the integer-indexed modes, and reads the source array at the
    integer / `start + j·step` positions.  (Generalises the squeeze key of Lemmas/Squeeze.) -/
set_option linter.unusedSectionVars false
set_option linter.unusedSimpArgs false
open Finset
namespace TN
variable {R : Type}

/-- a normalised key entry that is an integer or a slice -/
inductive LogicIS where
  | int (k : Nat)
  | slice (start step count : Nat)

def logicISItems : List LogicIS → List Item
  | [] => []
  | .int k :: ks => .int k :: logicISItems ks
  | .slice a s c :: ks => .slice a s c :: logicISItems ks

def logicISG : List LogicIS → List GItem
  | [] => []
  | .int k :: ks => .int k :: logicISG ks
  | .slice a s c :: ks => .slice a s c :: logicISG ks

/-- the shape of the result: one mode per slice -/
def logicISShape : List LogicIS → List Nat
  | [] => []
  | .int _ :: ks => logicISShape ks
  | .slice _ _ c :: ks => c :: logicISShape ks

/-- the source index of an output index -/
def logicISSrc : List LogicIS → List Nat → List Nat
  | [], _ => []
  | .int k :: ks, out => k :: logicISSrc ks out
  | .slice a s _ :: ks, j :: out => (a + j * s) :: logicISSrc ks out
  | .slice _ _ _ :: _, [] => []

theorem logic_groupKey_is : ∀ ks : List LogicIS, groupKey (logicISItems ks) = logicISG ks := by
  intro ks
  induction ks with
  | nil => rfl
  | cons k ks ih => cases k <;> simp [logicISItems, logicISG, groupKey, ih]

theorem logic_fits_is : ∀ ks : List LogicIS, fits (logicISG ks) ks.length (logicISShape ks).length := by
  intro ks
  induction ks with
  | nil => simp [logicISG, fits, logicISShape]
  | cons k ks ih => cases k <;> simp [logicISG, fits, logicISShape, ih]

theorem logic_srcIdx_is : ∀ (ks : List LogicIS) (out : List Nat), out.length = (logicISShape ks).length →
    srcIdx (logicISG ks) out = logicISSrc ks out := by
  intro ks
  induction ks with
  | nil => intro out _; simp [logicISG, srcIdx, logicISSrc]
  | cons k ks ih =>
    intro out ho
    cases k with
    | int k => simp only [logicISG, srcIdx, logicISSrc, logicISShape] at ho ⊢; rw [ih out ho]
    | slice a s c =>
      cases out with
      | nil => simp [logicISShape] at ho
      | cons j out =>
        simp only [logicISG, srcIdx, logicISSrc, logicISShape, List.length_cons, Nat.add_right_cancel_iff] at ho ⊢
        rw [ih out ho]

section machine
variable [Zero R] [One R] [Add R] [Mul R]

/-- on a key of integers and slices the state machine succeeds; the emitted modes have one mode per slice; nothing is
    emitted only if the key has no slice, and then a pending factor is returned as soon as there was one before or at
    least one mode was consumed -/
theorem logic_goKey_is (lastRR : Nat) : ∀ (ks : List LogicIS) (ms : Tensor R) (d : Bool) (p : Option (PInt R)),
    ks.length = ms.length →
    ∃ r, goKey lastRR d p (logicISG ks) ms = .ok r ∧ Tensor.shape r.1 = logicISShape ks ∧
      (r.1 = [] → (p.isSome ∨ ks ≠ []) → r.2.isSome) := by
  intro ks
  induction ks with
  | nil =>
    intro ms d p hl
    refine ⟨([], p), by simp [logicISG, goKey], by simp [logicISShape, Tensor.shape], ?_⟩
    intro _ h; simpa using h
  | cons k ks ih =>
    intro ms d p hl
    cases ms with
    | nil => simp at hl
    | cons m rest =>
      have hl' : ks.length = rest.length := by simpa using hl
      cases k with
      | int k =>
        obtain ⟨r, h1, h2, h3⟩ := ih rest d (some (PInt.combOpt p (getInt m k))) hl'
        refine ⟨r, ?_, ?_, ?_⟩
        · simpa [logicISG, goKey] using h1
        · simpa [logicISShape] using h2
        · intro hr _; exact h3 hr (Or.inl rfl)
      | slice a s c =>
        obtain ⟨r, h1, h2, _⟩ := ih rest d Option.none hl'
        refine ⟨emitJoin p (m.slice a s c) r, ?_, ?_, ?_⟩
        · simp only [logicISG, goKey]
          simp [h1, bind, Except.bind, pure, Except.pure]
        · rw [emitJoin_shape, slice_n, h2]; simp [logicISShape]
        · intro hr; exact absurd hr (emitJoin_ne _ _ _)

end machine

section wfres
variable [CommSemiring R]

theorem logic_goKey_is_wf (lastRR : Nat) : ∀ (ks : List LogicIS) (ms : Tensor R) (d : Bool) (p : Option (PInt R)) (rin : Nat)
    (r : List (TMode R) × Option (PInt R)),
    ks.length = ms.length → Tensor.WFfrom rin ms → (∀ q, p = some q → q.rr = rin) →
    goKey lastRR d p (logicISG ks) ms = .ok r →
    Tensor.WFfrom (rowdim p rin) r.1 ∧ (∀ q, r = ([], some q) → q.rl = rowdim p rin) := by
  intro ks
  induction ks with
  | nil =>
    intro ms d p rin r _ _ _ h
    simp only [logicISG, goKey, Except.ok.injEq] at h
    subst h
    refine ⟨trivial, ?_⟩
    intro q hq
    simp only [Prod.mk.injEq, true_and] at hq
    subst hq; rfl
  | cons k ks ih =>
    intro ms d p rin r hl hw hp h
    cases ms with
    | nil => simp at hl
    | cons m rest =>
      have hl' : ks.length = rest.length := by simpa using hl
      obtain ⟨w1, w2, w3⟩ := hw
      cases k with
      | int k =>
        simp only [logicISG, goKey] at h
        obtain ⟨c1, c2⟩ := combOpt_spec p m k rin w1 hp
        have := ih rest d (some (PInt.combOpt p (getInt m k))) m.core.rr r hl' w3
          (by intro q hq; simp only [Option.some.injEq] at hq; subst hq; exact c1) h
        simp only [rowdim, c2] at this
        exact this
      | slice a s c =>
        simp only [logicISG, goKey, bind, Except.bind, pure, Except.pure] at h
        split at h
        · cases h
        · rename_i r' hr'
          simp only [Except.ok.injEq] at h
          subst h
          obtain ⟨i1, i2⟩ := ih rest d Option.none m.core.rr r' hl' w3 (by intro q hq; cases hq) hr'
          simp only [rowdim] at i1 i2
          obtain ⟨s1, s2, _, s4, _⟩ := slice_spec m a s c
          refine ⟨emitJoin_wf p _ r' rin (by rw [s1, w1]) (s4.mpr w2) hp (by rw [s2]; exact i1) (by rw [s2]; exact i2), ?_⟩
          intro q hq
          exact absurd (congrArg Prod.fst hq) (emitJoin_ne _ _ _)

end wfres
/-! ### the key of `relevant_symbols` -/

/-- the raw slice `slice(1, 3)` -/
abbrev logicSl : RawItem := .slice (some 1) (some 3) Option.none

/-- the normalised key: `slice(1, 3)` on a mode of size 3 selects positions 1 and 2 -/
def logicRelIS (N n : Nat) : List LogicIS :=
  List.replicate n (.slice 1 1 2) ++ .int 0 :: List.replicate (N - n - 1) (.slice 1 1 2)

theorem logic_expand_plain (N : Nat) (key : List RawItem) (c : Nat) : ∀ l : List RawItem,
    (∀ k ∈ l, k = logicSl ∨ k = .int 0) → processKey.expand N key c l = l := by
  intro l
  induction l with
  | nil => intro _; rfl
  | cons x xs ih =>
    intro h
    have hx := h x (by simp)
    have := ih (fun k hk => h k (List.mem_cons_of_mem _ hk))
    rcases hx with rfl | rfl <;> simp [processKey.expand, this]

theorem logicRelKey_mem (N n : Nat) : ∀ k ∈ logicRelKey N n, k = logicSl ∨ k = .int 0 := by
  intro k hk
  simp only [logicRelKey, List.mem_append, List.mem_replicate, List.mem_singleton] at hk
  rcases hk with (⟨_, rfl⟩ | rfl) | ⟨_, rfl⟩
  · exact Or.inl rfl
  · exact Or.inr rfl
  · exact Or.inl rfl

theorem logicRelKey_length (N n : Nat) (hn : n < N) : (logicRelKey N n).length = N := by
  simp [logicRelKey]; omega

/-- `_process_key` leaves the key of `relevant_symbols` alone -/
theorem logic_processKey_rel (N n : Nat) (hn : n < N) : processKey N (logicRelKey N n) = .ok (logicRelKey N n) := by
  have hmem := logicRelKey_mem N n
  have hnone : (logicRelKey N n).filter RawItem.isNone = [] := by
    rw [List.filter_eq_nil_iff]
    intro k hk
    rcases hmem k hk with rfl | rfl <;> simp [RawItem.isNone]
  have hell : (logicRelKey N n).any RawItem.isEllipsis = false := by
    rw [List.any_eq_false]
    intro k hk
    rcases hmem k hk with rfl | rfl <;> simp [RawItem.isEllipsis]
  unfold processKey
  simp only [hnone, List.length_nil, logic_expand_plain _ _ _ _ hmem, hell, logicRelKey_length N n hn,
    Nat.sub_zero, Nat.lt_irrefl, Nat.sub_self, List.replicate_zero, List.append_nil]
  simp

theorem logic_normSlice_13 : normSlice (some 1) (some 3) Option.none 3 = .ok (1, 1, 2) := by decide

theorem logic_normKey_slices : ∀ m : Nat, normKey (List.replicate m logicSl) (List.replicate m 3) =
    .ok (logicISItems (List.replicate m (.slice 1 1 2))) := by
  intro m
  induction m with
  | zero => rfl
  | succ m ih =>
    simp only [List.replicate_succ, normKey, logic_normSlice_13, ih, logicISItems, bind, Except.bind, pure, Except.pure]

/-- bounds normalisation of the key of `relevant_symbols` against `N` modes of size 3 -/
theorem logic_normKey_rel (N n : Nat) (hn : n < N) :
    normKey (logicRelKey N n) (List.replicate N 3) = .ok (logicISItems (logicRelIS N n)) := by
  have h0 : normInt 0 3 = .ok 0 := by decide
  have key : ∀ a b : Nat, normKey (List.replicate a logicSl ++ [.int 0] ++ List.replicate b logicSl)
      (List.replicate (a + (1 + b)) 3) =
      .ok (logicISItems (List.replicate a (.slice 1 1 2) ++ .int 0 :: List.replicate b (.slice 1 1 2))) := by
    intro a b
    induction a with
    | zero =>
      simp only [List.replicate_zero, List.nil_append, Nat.zero_add, List.singleton_append,
        show 1 + b = b + 1 from Nat.add_comm 1 b, List.replicate_succ, normKey, h0, logic_normKey_slices b, logicISItems, bind,
        Except.bind, pure, Except.pure]
    | succ a ih =>
      simp only [List.replicate_succ, List.cons_append, show a + 1 + (1 + b) = (a + (1 + b)) + 1 by omega, normKey,
        logic_normSlice_13, logicISItems, bind, Except.bind, pure, Except.pure] at ih ⊢
      rw [ih]
  have := key n (N - n - 1)
  rw [show n + (1 + (N - n - 1)) = N by omega] at this
  exact this

theorem logicRelIS_length (N n : Nat) (hn : n < N) : (logicRelIS N n).length = N := by simp [logicRelIS]; omega

theorem logicISShape_slices (m : Nat) : logicISShape (List.replicate m (.slice 1 1 2)) = List.replicate m 2 := by
  induction m with
  | zero => rfl
  | succ m ih => simp [List.replicate_succ, logicISShape, ih]

theorem logicISShape_append (a b : List LogicIS) : logicISShape (a ++ b) = logicISShape a ++ logicISShape b := by
  induction a with
  | nil => rfl
  | cons k ks ih => cases k <;> simp [logicISShape, ih]

theorem logicISShape_rel (N n : Nat) (hn : n < N) : logicISShape (logicRelIS N n) = List.replicate (N - 1) 2 := by
  simp only [logicRelIS, logicISShape_append, logicISShape, logicISShape_slices]
  rw [← List.replicate_add]; congr 1; omega

/-- insert the value `v` as the `n`-th entry -/
def logicIns (n v : Nat) (out : List Nat) : List Nat := out.take n ++ v :: out.drop n

theorem logicISSrc_slices : ∀ (m : Nat) (out : List Nat), out.length = m →
    logicISSrc (List.replicate m (.slice 1 1 2)) out = out.map (· + 1) := by
  intro m
  induction m with
  | zero => intro out h; have : out = [] := List.length_eq_zero_iff.mp h; subst this; rfl
  | succ m ih =>
    intro out h
    cases out with
    | nil => simp at h
    | cons j out =>
      simp only [List.replicate_succ, logicISSrc, List.map_cons, ih out (by simpa using h)]
      congr 1; omega

theorem logicISSrc_rel (N n : Nat) (hn : n < N) : ∀ (out : List Nat), out.length = N - 1 →
    logicISSrc (logicRelIS N n) out = (out.take n).map (· + 1) ++ 0 :: (out.drop n).map (· + 1) := by
  have key : ∀ (a b : Nat) (out : List Nat), out.length = a + b →
      logicISSrc (List.replicate a (.slice 1 1 2) ++ .int 0 :: List.replicate b (.slice 1 1 2)) out =
        (out.take a).map (· + 1) ++ 0 :: (out.drop a).map (· + 1) := by
    intro a
    induction a with
    | zero =>
      intro b out h
      simp only [List.replicate_zero, List.nil_append, logicISSrc, List.take_zero, List.map_nil, List.drop_zero]
      rw [logicISSrc_slices b out (by simpa using h)]
    | succ a ih =>
      intro b out h
      cases out with
      | nil => simp at h; omega
      | cons j out =>
        simp only [List.replicate_succ, List.cons_append, logicISSrc, List.take_succ_cons, List.map_cons, List.drop_succ_cons]
        rw [ih b out (by simp at h; omega)]
        congr 1; omega
  intro out ho
  exact key n (N - n - 1) out (by omega)

/-! ### the difference cores of `relevant_symbols` (logic.py:128) -/
section diff
variable [CommRing R]

/-- the cores of `t2`: difference slice in front, no factors -/
def logicDiffMap (t : Tensor R) : Tensor R := t.map fun m => { core := m.core.logicDiffCat, U := Option.none }

theorem logicDiff_eq (t : Tensor R) : t.logicDiff = logicDiffMap t.tt := rfl

theorem logicDiffMap_length (t : Tensor R) : (logicDiffMap t).length = t.length := by simp [logicDiffMap]

theorem logicDiffMap_WFfrom (t : Tensor R) : ∀ p, Tensor.WFfrom p t → Tensor.WFfrom p (logicDiffMap t) := by
  induction t with
  | nil => intro p h; exact h
  | cons m ms ih =>
    intro p h
    obtain ⟨h1, _, h3⟩ := h
    have e1 : m.core.logicDiffCat.rl = m.core.rl := by cases m.core <;> rfl
    have e2 : m.core.logicDiffCat.rr = m.core.rr := by cases m.core <;> rfl
    refine ⟨by simpa [e1] using h1, trivial, ?_⟩
    have := ih _ h3
    simpa [logicDiffMap, e2] using this

theorem logicDiffMap_WF (t : Tensor R) (h : t.WF) : (logicDiffMap t).WF := by
  cases t with
  | nil => exact h
  | cons m ms =>
    have := logicDiffMap_WFfrom (m :: ms) _ h
    have e1 : m.core.logicDiffCat.rl = m.core.rl := by cases m.core <;> rfl
    simpa [logicDiffMap, Tensor.WF, e1] using this

theorem logicDiffMap_shape (t : Tensor R) (hp : t.isPureTT = true) : (logicDiffMap t).shape = t.shape.map (· + 1) := by
  induction t with
  | nil => rfl
  | cons m ms ih =>
    rw [isPureTT_cons] at hp
    obtain ⟨⟨hU, hcp⟩, hms⟩ := hp
    obtain ⟨c, U⟩ := m
    simp only at hU hcp; subst hU
    have := ih hms
    simp only [logicDiffMap, Tensor.shape, List.map_cons, List.map_map] at this ⊢
    rw [this]
    cases c with
    | tt r0 s r1 f => simp [Core.logicDiffCat, TMode.n, Core.spatial]
    | cp s r f => simp [Core.isCP] at hcp

/-- reading the extended cores at the shifted positions gives back the original chain -/
theorem logicDiff_tail_shift (t : Tensor R) (hp : t.isPureTT = true) : ∀ (is : List Nat) (a : Nat),
    tail (logicDiffMap t).modes (is.map (· + 1)) a = tail t.modes is a := by
  induction t with
  | nil => intro is a; rfl
  | cons m ms ih =>
    intro is a
    rw [isPureTT_cons] at hp
    obtain ⟨⟨hU, hcp⟩, hms⟩ := hp
    obtain ⟨c, U⟩ := m
    simp only at hU hcp; subst hU
    cases c with
    | cp s r f => simp [Core.isCP] at hcp
    | tt r0 s r1 f =>
      cases is with
      | nil => rfl
      | cons i is =>
        have := ih hms is
        simp only [logicDiffMap, Tensor.modes, List.map_cons, List.map_map, tail, sumTo_eq, TMode.toMode_rr, Core.logicDiffCat,
          Core.tt_rr, TMode.toMode_G, TMode.decomp_none, Core.tt_get] at this ⊢
        apply Finset.sum_congr rfl; intro b _
        rw [this b]; simp

/-- reading the difference slice of mode `n` (and the shifted positions elsewhere) gives the difference of the two
    entries that differ only in the `n`-th index -/
theorem logicDiff_tail_at : ∀ (pre : List Nat) (t : Tensor R), t.isPureTT = true → pre.length < t.length →
    ∀ (post : List Nat) (a : Nat),
    tail (logicDiffMap t).modes (pre.map (· + 1) ++ 0 :: post.map (· + 1)) a =
      tail t.modes (pre ++ 1 :: post) a - tail t.modes (pre ++ 0 :: post) a := by
  intro pre
  induction pre with
  | nil =>
    intro t hp hl post a
    cases t with
    | nil => simp at hl
    | cons m ms =>
      rw [isPureTT_cons] at hp
      obtain ⟨⟨hU, hcp⟩, hms⟩ := hp
      obtain ⟨c, U⟩ := m
      simp only at hU hcp; subst hU
      cases c with
      | cp s r f => simp [Core.isCP] at hcp
      | tt r0 s r1 f =>
        have := logicDiff_tail_shift ms hms post
        simp only [logicDiffMap, Tensor.modes, List.map_cons, List.map_map, List.map_nil, List.nil_append, tail, sumTo_eq,
          TMode.toMode_rr, Core.logicDiffCat, Core.tt_rr, TMode.toMode_G, TMode.decomp_none, Core.tt_get] at this ⊢
        rw [← Finset.sum_sub_distrib]
        apply Finset.sum_congr rfl; intro b _
        rw [this b]; simp; ring
  | cons i pre ih =>
    intro t hp hl post a
    cases t with
    | nil => simp at hl
    | cons m ms =>
      rw [isPureTT_cons] at hp
      obtain ⟨⟨hU, hcp⟩, hms⟩ := hp
      obtain ⟨c, U⟩ := m
      simp only at hU hcp; subst hU
      cases c with
      | cp s r f => simp [Core.isCP] at hcp
      | tt r0 s r1 f =>
        have := ih ms hms (by simpa using hl) post
        simp only [logicDiffMap, Tensor.modes, List.map_cons, List.map_map, List.cons_append, tail, sumTo_eq,
          TMode.toMode_rr, Core.logicDiffCat, Core.tt_rr, TMode.toMode_G, TMode.decomp_none, Core.tt_get] at this ⊢
        rw [← Finset.sum_sub_distrib]
        apply Finset.sum_congr rfl; intro b _
        rw [this b]; simp; ring

theorem logicDiff_dense_at (t : Tensor R) (hp : t.isPureTT = true) (pre post : List Nat) (hl : pre.length < t.length) :
    (logicDiffMap t).dense (pre.map (· + 1) ++ 0 :: post.map (· + 1)) =
      t.dense (pre ++ 1 :: post) - t.dense (pre ++ 0 :: post) := by
  have h := logicDiff_tail_at pre t hp hl post
  cases t with
  | nil => simp at hl
  | cons m ms =>
    have e1 : m.core.logicDiffCat.rl = m.core.rl := by cases m.core <;> rfl
    simp only [Tensor.dense, logicDiffMap, Tensor.modes, List.map_cons, dense, sumTo_eq, TMode.toMode_rl, e1] at h ⊢
    rw [← Finset.sum_sub_distrib]
    apply Finset.sum_congr rfl; intro a _
    exact h a

end diff

end TN
