import TnVerif.Lemmas.IndexGen
import TnVerif.Model.SqueezeOps
/-! Keys made only of full slices, `None` and in-range non-negative integers ("simple keys": what `tn.squeeze`,
    `tn.unsqueeze`, `tn.unbind` and the `tn.unsqueeze(value, int_dims)` of `_setitem` build), traced through
    `_process_key`, bounds normalisation and grouping; and the step-by-step key constructions of tools.py. -/
set_option linter.unusedSectionVars false
set_option linter.unusedSimpArgs false
namespace TN
variable {R : Type}

/-- one entry of a simple key: `:` , `None`, or an integer `k ≥ 0` -/
inductive SK where
  | keep
  | none
  | int (k : Nat)

def skRaw : List SK → List RawItem
  | [] => []
  | .keep :: s => sliceAll :: skRaw s
  | .none :: s => RawItem.none :: skRaw s
  | .int k :: s => RawItem.int (k : Int) :: skRaw s

/-- the simple key after bounds normalisation against the mode sizes -/
def skItems : List SK → List Nat → List Item
  | [], _ => []
  | .none :: s, ns => Item.none :: skItems s ns
  | .keep :: s, n :: ns => Item.slice 0 1 n :: skItems s ns
  | .int k :: s, _ :: ns => Item.int k :: skItems s ns
  | .keep :: _, [] => []
  | .int _ :: _, [] => []

/-- … and after grouping (no index arrays) -/
def skG : List SK → List Nat → List GItem
  | [], _ => []
  | .none :: s, ns => GItem.none :: skG s ns
  | .keep :: s, n :: ns => GItem.slice 0 1 n :: skG s ns
  | .int k :: s, _ :: ns => GItem.int k :: skG s ns
  | .keep :: _, [] => []
  | .int _ :: _, [] => []

/-- number of entries that consume a mode -/
def skCons : List SK → Nat
  | [] => 0
  | .none :: s => skCons s
  | .keep :: s => skCons s + 1
  | .int _ :: s => skCons s + 1

/-- the integers are inside their modes -/
def skOK : List SK → List Nat → Prop
  | .none :: s, ns => skOK s ns
  | .keep :: s, _ :: ns => skOK s ns
  | .int k :: s, n :: ns => k < n ∧ skOK s ns
  | _, _ => True

/-- shape of `t[key]`: a kept mode keeps its size, `None` gives a 1, an integer removes its mode -/
def skShape : List SK → List Nat → List Nat
  | [], _ => []
  | .none :: s, ns => 1 :: skShape s ns
  | .keep :: s, n :: ns => n :: skShape s ns
  | .int _ :: s, _ :: ns => skShape s ns
  | .keep :: _, [] => []
  | .int _ :: _, [] => []

/-- source index of an output index: the entry of a `None` position is dropped, an integer is inserted -/
def skSrc : List SK → List Nat → List Nat
  | [], _ => []
  | .none :: s, _ :: out => skSrc s out
  | .keep :: s, j :: out => j :: skSrc s out
  | .int k :: s, out => k :: skSrc s out
  | .none :: _, [] => []
  | .keep :: _, [] => []

theorem sk_noEllipsis (s : List SK) : (skRaw s).any RawItem.isEllipsis = false := by
  induction s with
  | nil => rfl
  | cons x xs ih => cases x <;> simpa [skRaw, RawItem.isEllipsis, sliceAll] using ih

theorem sk_consR (s : List SK) : gk_consR (skRaw s) = skCons s := by
  induction s with
  | nil => rfl
  | cons x xs ih => cases x <;> simp [skRaw, gk_consR, skCons, sliceAll, ih]

theorem sqops_normInt_nat (k n : Nat) (h : k < n) : normInt (k : Int) n = .ok k := by
  unfold normInt
  have h1 : ¬ ((k : Int) < 0) := by omega
  have h2 : (0 : Int) ≤ k ∧ (k : Int) < n := by omega
  simp only [h1, if_false, h2, and_self, if_true, Int.toNat_natCast]

theorem sk_normKey : ∀ (s : List SK) (ns : List Nat), skCons s = ns.length → skOK s ns →
    normKey (skRaw s) ns = .ok (skItems s ns) := by
  intro s
  induction s with
  | nil => intro ns _ _; simp [skRaw, normKey, skItems]
  | cons x xs ih =>
    intro ns hc hok
    cases x with
    | none =>
      have := ih ns (by simpa [skCons] using hc) (by simpa [skOK] using hok)
      simp only [skRaw, normKey, this, skItems, bind, Except.bind, pure, Except.pure]
    | keep =>
      cases ns with
      | nil => simp [skCons] at hc
      | cons n ns =>
        have := ih ns (by simpa [skCons] using hc) (by simpa [skOK] using hok)
        simp only [skRaw, sliceAll, normKey, normSlice_all, this, skItems, bind, Except.bind, pure, Except.pure]
    | int k =>
      cases ns with
      | nil => simp [skCons] at hc
      | cons n ns =>
        simp only [skOK] at hok
        have := ih ns (by simpa [skCons] using hc) hok.2
        simp only [skRaw, normKey, sqops_normInt_nat k n hok.1, this, skItems, bind, Except.bind, pure, Except.pure]

theorem sk_groupKey : ∀ (s : List SK) (ns : List Nat), groupKey (skItems s ns) = skG s ns := by
  intro s
  induction s with
  | nil => intro ns; simp [skItems, skG, groupKey]
  | cons x xs ih =>
    intro ns
    cases x with
    | none => simp [skItems, skG, groupKey, ih ns]
    | keep => cases ns <;> simp [skItems, skG, groupKey, ih]
    | int k => cases ns <;> simp [skItems, skG, groupKey, ih]

theorem sk_outShape : ∀ (s : List SK) (ns : List Nat), outShape (skG s ns) = skShape s ns := by
  intro s
  induction s with
  | nil => intro ns; simp [skG, outShape, skShape]
  | cons x xs ih =>
    intro ns
    cases x with
    | none => simp [skG, outShape, skShape, ih ns]
    | keep => cases ns <;> simp [skG, outShape, skShape, ih]
    | int k => cases ns <;> simp [skG, outShape, skShape, ih]

theorem sk_srcIdx : ∀ (s : List SK) (ns : List Nat) (out : List Nat), skCons s ≤ ns.length →
    srcIdx (skG s ns) out = skSrc s out := by
  intro s
  induction s with
  | nil => intro ns out _; simp [skG, srcIdx, skSrc]
  | cons x xs ih =>
    intro ns out hc
    cases x with
    | none =>
      cases out with
      | nil => simp [skG, srcIdx, skSrc]
      | cons j out => simp [skG, srcIdx, skSrc, ih ns out (by simpa [skCons] using hc)]
    | keep =>
      cases ns with
      | nil => simp [skCons] at hc
      | cons n ns =>
        cases out with
        | nil => simp [skG, srcIdx, skSrc]
        | cons j out => simp [skG, srcIdx, skSrc, ih ns out (by simpa [skCons] using hc)]
    | int k =>
      cases ns with
      | nil => simp [skCons] at hc
      | cons n ns => simp [skG, srcIdx, skSrc, ih ns out (by simpa [skCons] using hc)]

theorem sk_runsOK : ∀ (s : List SK) (ns : List Nat) (d : Bool), gk_runsOK d (skG s ns) := by
  intro s
  induction s with
  | nil => intro ns d; simp [skG, gk_runsOK]
  | cons x xs ih =>
    intro ns d
    cases x with
    | none => simp [skG, gk_runsOK, ih ns d]
    | keep => cases ns <;> simp [skG, gk_runsOK, ih]
    | int k => cases ns <;> simp [skG, gk_runsOK, ih]

/-! ### marking positions: the flags behind `idx[m] = …` in a loop -/

/-- the positions that were overwritten -/
def sqops_mark (M : Nat) (dims : List Nat) : List Bool :=
  dims.foldl (fun f m => f.set m true) (List.replicate M false)

theorem sqops_fold_map {α : Type} (g : Bool → α) (dims : List Nat) : ∀ (f0 : List Bool),
    dims.foldl (fun idx m => idx.set m (g true)) (f0.map g) = (dims.foldl (fun f m => f.set m true) f0).map g := by
  induction dims with
  | nil => intro f0; rfl
  | cons d ds ih =>
    intro f0
    simp only [List.foldl_cons]
    rw [← List.map_set, ih]

theorem sqops_fold_length (dims : List Nat) : ∀ (f0 : List Bool),
    (dims.foldl (fun f m => f.set m true) f0).length = f0.length := by
  induction dims with
  | nil => intro f0; rfl
  | cons d ds ih => intro f0; simp only [List.foldl_cons]; rw [ih]; simp

theorem sqops_fold_get (dims : List Nat) : ∀ (f0 : List Bool) (k : Nat),
    (dims.foldl (fun f m => f.set m true) f0)[k]? = f0[k]?.map (fun b => b || decide (k ∈ dims)) := by
  induction dims with
  | nil =>
    intro f0 k
    simp only [List.foldl_nil, List.not_mem_nil, decide_false, Bool.or_false]
    cases f0[k]? <;> rfl
  | cons d ds ih =>
    intro f0 k
    simp only [List.foldl_cons]
    rw [ih, List.getElem?_set]
    by_cases hdk : d = k
    · subst hdk
      by_cases hl : d < f0.length
      · simp [hl]
      · simp [hl, List.getElem?_eq_none (Nat.le_of_not_lt hl)]
    · have : k ≠ d := fun h => hdk h.symm
      simp only [hdk, if_false, List.mem_cons, this, false_or]

theorem sqops_mark_length (M : Nat) (dims : List Nat) : (sqops_mark M dims).length = M := by
  simp [sqops_mark, sqops_fold_length]

/-- position `k < M` is flagged iff it was listed -/
theorem sqops_mark_get (M : Nat) (dims : List Nat) (k : Nat) (hk : k < M) :
    (sqops_mark M dims)[k]? = some (decide (k ∈ dims)) := by
  simp [sqops_mark, sqops_fold_get, hk]

theorem sqops_mark_get_ge (M : Nat) (dims : List Nat) (k : Nat) (hk : M ≤ k) : (sqops_mark M dims)[k]? = Option.none := by
  simp [sqops_mark, sqops_fold_get, hk]

/-- the squeeze key built by the loop is `0` at the flagged positions and `:` elsewhere -/
theorem sqops_sqKey_eq (N : Nat) (dims : List Nat) : sqops_sqKey N dims = squeezeKey (sqops_mark N dims) := by
  have := sqops_fold_map (fun b => if b then RawItem.int 0 else sliceAll) dims (List.replicate N false)
  simp only [List.map_replicate, Bool.false_eq_true, if_false, if_true] at this
  exact this

/-- flags to simple key: `None` at the flagged positions -/
def uqSK (f : List Bool) : List SK := f.map fun b => if b then SK.none else SK.keep

theorem sqops_skRaw_uq (f : List Bool) : skRaw (uqSK f) = f.map fun b => if b then RawItem.none else sliceAll := by
  induction f with
  | nil => rfl
  | cons b bs ih => cases b <;> simp [uqSK, skRaw] at ih ⊢ <;> exact ih

/-- the unsqueeze key built by the loop is `None` at the flagged positions and `:` elsewhere -/
theorem sqops_uqKey_eq (M : Nat) (dims : List Nat) : sqops_uqKey M dims = skRaw (uqSK (sqops_mark M dims)) := by
  have := sqops_fold_map (fun b => if b then RawItem.none else sliceAll) dims (List.replicate M false)
  simp only [List.map_replicate, Bool.false_eq_true, if_false, if_true] at this
  rw [sqops_skRaw_uq]
  exact this

/-- the shape with a 1 inserted at the flagged positions -/
def sqops_insOnes : List Bool → List Nat → List Nat
  | [], _ => []
  | true :: f, ns => 1 :: sqops_insOnes f ns
  | false :: f, n :: ns => n :: sqops_insOnes f ns
  | false :: _, [] => []

theorem sqops_skShape_uq : ∀ (f : List Bool) (ns : List Nat), skShape (uqSK f) ns = sqops_insOnes f ns := by
  intro f
  induction f with
  | nil => intro ns; rfl
  | cons b bs ih =>
    intro ns
    cases b with
    | true => simp only [uqSK, List.map_cons, if_true, skShape, sqops_insOnes] at ih ⊢; rw [ih]
    | false =>
      cases ns with
      | nil => rfl
      | cons n ns => simp only [uqSK, List.map_cons, Bool.false_eq_true, if_false, skShape, sqops_insOnes] at ih ⊢; rw [ih]

theorem sqops_skSrc_uq : ∀ (f : List Bool) (out : List Nat), skSrc (uqSK f) out = keepShape f out := by
  intro f
  induction f with
  | nil => intro out; simp [uqSK, skSrc, keepShape]
  | cons b bs ih =>
    intro out
    cases out with
    | nil => cases b <;> simp [uqSK, skSrc, keepShape]
    | cons j out =>
      cases b with
      | true => simp only [uqSK, List.map_cons, if_true, skSrc, keepShape] at ih ⊢; rw [ih]
      | false => simp only [uqSK, List.map_cons, Bool.false_eq_true, if_false, skSrc, keepShape] at ih ⊢; rw [ih]

theorem sqops_skOK_uq : ∀ (f : List Bool) (ns : List Nat), skOK (uqSK f) ns := by
  intro f
  induction f with
  | nil => intro ns; simp [uqSK, skOK]
  | cons b bs ih =>
    intro ns
    cases b with
    | true => simpa [uqSK, skOK] using ih ns
    | false => cases ns with
      | nil => simp [uqSK, skOK]
      | cons n ns => simpa [uqSK, skOK] using ih ns

theorem sqops_skCons_uq (f : List Bool) : skCons (uqSK f) + f.count true = f.length := by
  induction f with
  | nil => rfl
  | cons b bs ih => cases b <;> simp [uqSK, skCons] at ih ⊢ <;> omega

/-- distinct in-range positions flag exactly that many entries -/
theorem sqops_fold_count (dims : List Nat) : ∀ (f0 : List Bool), dims.Nodup → (∀ d ∈ dims, f0[d]? = some false) →
    (dims.foldl (fun f m => f.set m true) f0).count true = f0.count true + dims.length := by
  induction dims with
  | nil => intro f0 _ _; rfl
  | cons d ds ih =>
    intro f0 hnd hf
    simp only [List.foldl_cons, List.length_cons]
    have hd := hf d List.mem_cons_self
    have hlt : d < f0.length := by
      by_contra h
      rw [List.getElem?_eq_none (Nat.le_of_not_lt h)] at hd; cases hd
    have hget : f0[d] = false := by
      have := List.getElem?_eq_getElem hlt
      rw [this] at hd; simpa using hd
    rw [ih (f0.set d true) (List.nodup_cons.mp hnd).2]
    · rw [List.count_set hlt]
      simp [hget]; omega
    · intro d' hd'
      have hne : d ≠ d' := by
        intro h; subst h; exact (List.nodup_cons.mp hnd).1 hd'
      rw [List.getElem?_set]
      simp only [hne, if_false]
      exact hf d' (List.mem_cons_of_mem _ hd')

theorem sqops_mark_count (M : Nat) (dims : List Nat) (hnd : dims.Nodup) (hr : ∀ d ∈ dims, d < M) :
    (sqops_mark M dims).count true = dims.length := by
  unfold sqops_mark
  rw [sqops_fold_count dims _ hnd]
  · simp [List.count_replicate]
  · intro d hd; simp [hr d hd]

/-- flags and sizes: `flaggedOne` from the pointwise statement -/
theorem sqops_flaggedOne : ∀ (f : List Bool) (ns : List Nat),
    (∀ k : Nat, f[k]? = some true → ns[k]? = some 1) → flaggedOne f ns := by
  intro f
  induction f with
  | nil => intro ns _; simp [flaggedOne]
  | cons b bs ih =>
    intro ns h
    cases ns with
    | nil => cases b <;> simp [flaggedOne]
    | cons n ns =>
      have ht : flaggedOne bs ns := ih ns (fun k hk => by simpa using h (k + 1) (by simpa using hk))
      cases b with
      | true =>
        have := h 0 (by simp)
        simp only [List.getElem?_cons_zero, Option.some.injEq] at this
        exact ⟨this, ht⟩
      | false => exact ht

/-- `dim=None`: the flags of `np.where([s == 1 for s in t.shape])[0]` -/
theorem sqops_mark_ones (sh : List Nat) : sqops_mark sh.length (sqops_onesDims sh) = sh.map (fun n => n == 1) := by
  apply List.ext_getElem?
  intro k
  by_cases hk : k < sh.length
  · rw [sqops_mark_get _ _ _ hk]
    simp only [sqops_onesDims, List.mem_filter, List.mem_range, hk, true_and, List.getElem?_map,
      List.getElem?_eq_getElem hk, Option.map_some, Option.some.injEq]
    simp only [List.getD_eq_getElem?_getD, List.getElem?_eq_getElem hk, Option.getD_some]
    cases h : sh[k] == 1 <;> simp_all
  · have hk' : sh.length ≤ k := Nat.le_of_not_lt hk
    rw [sqops_mark_get_ge _ _ _ hk']
    simp [hk']

theorem sqops_keepShape_ones : ∀ (sh : List Nat), keepShape (sh.map (fun n => n == 1)) sh = sh.filter (fun n => n != 1) := by
  intro sh
  induction sh with
  | nil => rfl
  | cons n ns ih =>
    by_cases h : n = 1
    · subst h; simp [keepShape, ih]
    · have h' : (n == 1) = false := by simpa using h
      simp [keepShape, h', h, ih]

theorem sqops_onesDims_lt (sh : List Nat) : ∀ k ∈ sqops_onesDims sh, k < sh.length := by
  intro k hk
  simp only [sqops_onesDims, List.mem_filter, List.mem_range] at hk
  exact hk.1

theorem sqops_mapM_nat (N : Nat) : ∀ (l : List Nat), (∀ k ∈ l, k < N) →
    (l.map Int.ofNat).mapM (fun d => normInt d N) = .ok l := by
  intro l
  induction l with
  | nil => intro _; rfl
  | cons k ks ih =>
    intro h
    have h1 := sqops_normInt_nat k N (h k List.mem_cons_self)
    have h2 := ih (fun x hx => h x (List.mem_cons_of_mem _ hx))
    simp only [List.map_cons, List.mapM_cons, Int.ofNat_eq_natCast, bind, Except.bind, pure, Except.pure] at h2 ⊢
    rw [h1]; simp only; rw [h2]

/-! ### `tn.unbind`: one integer between full slices -/

def ubSK (a b k : Nat) : List SK := List.replicate a SK.keep ++ SK.int k :: List.replicate b SK.keep

theorem sqops_skRaw_keep (n : Nat) : skRaw (List.replicate n SK.keep) = List.replicate n sliceAll := by
  induction n with
  | zero => rfl
  | succ n ih => simp only [List.replicate_succ, skRaw, ih]

theorem sqops_skRaw_ub (a b k : Nat) :
    skRaw (ubSK a b k) = List.replicate a sliceAll ++ [RawItem.int (k : Int)] ++ List.replicate b sliceAll := by
  induction a with
  | zero => simp [ubSK, skRaw, sqops_skRaw_keep]
  | succ a ih => simp only [ubSK, List.replicate_succ, List.cons_append, skRaw] at ih ⊢; rw [ih]

theorem sqops_skCons_keep (n : Nat) : skCons (List.replicate n SK.keep) = n := by
  induction n with
  | zero => rfl
  | succ n ih => simp only [List.replicate_succ, skCons, ih]

theorem sqops_skCons_ub (a b k : Nat) : skCons (ubSK a b k) = a + b + 1 := by
  induction a with
  | zero => simp [ubSK, skCons, sqops_skCons_keep]
  | succ a ih => simp only [ubSK, List.replicate_succ, List.cons_append, skCons] at ih ⊢; omega

theorem sqops_skOK_keep : ∀ (n : Nat) (ns : List Nat), skOK (List.replicate n SK.keep) ns := by
  intro n
  induction n with
  | zero => intro ns; simp [skOK]
  | succ n ih =>
    intro ns
    cases ns with
    | nil => simp [List.replicate_succ, skOK]
    | cons x xs => simpa [List.replicate_succ, skOK] using ih xs

theorem sqops_skOK_ub : ∀ (a b k : Nat) (ns : List Nat), (∀ n, ns[a]? = some n → k < n) → skOK (ubSK a b k) ns := by
  intro a
  induction a with
  | zero =>
    intro b k ns h
    cases ns with
    | nil => simp [ubSK, skOK]
    | cons n ns => exact ⟨h n (by simp), sqops_skOK_keep b ns⟩
  | succ a ih =>
    intro b k ns h
    cases ns with
    | nil => simp [ubSK, List.replicate_succ, skOK]
    | cons n ns =>
      have := ih b k ns (fun x hx => h x (by simpa using hx))
      simpa [ubSK, List.replicate_succ, skOK] using this

theorem sqops_skShape_keep : ∀ (n : Nat) (ns : List Nat), ns.length = n → skShape (List.replicate n SK.keep) ns = ns := by
  intro n
  induction n with
  | zero => intro ns h; simp [List.length_eq_zero_iff.mp h, skShape]
  | succ n ih =>
    intro ns h
    cases ns with
    | nil => simp at h
    | cons x xs => simp only [List.replicate_succ, skShape, ih xs (by simpa using h)]

/-- the shape of one slice of `unbind`: mode `a` deleted -/
theorem sqops_skShape_ub : ∀ (a b k : Nat) (ns : List Nat), ns.length = a + b + 1 →
    skShape (ubSK a b k) ns = ns.take a ++ ns.drop (a + 1) := by
  intro a
  induction a with
  | zero =>
    intro b k ns h
    cases ns with
    | nil => simp at h
    | cons n ns => simp [ubSK, skShape, sqops_skShape_keep b ns (by simpa using h)]
  | succ a ih =>
    intro b k ns h
    cases ns with
    | nil => simp at h
    | cons n ns =>
      have := ih b k ns (by simp at h; omega)
      simp only [ubSK, List.replicate_succ, List.cons_append, skShape, List.take_succ_cons, List.drop_succ_cons] at this ⊢
      rw [this]

theorem sqops_skSrc_keep : ∀ (n : Nat) (out : List Nat), out.length = n → skSrc (List.replicate n SK.keep) out = out := by
  intro n
  induction n with
  | zero => intro out h; simp [List.length_eq_zero_iff.mp h, skSrc]
  | succ n ih =>
    intro out h
    cases out with
    | nil => simp at h
    | cons x xs => simp only [List.replicate_succ, skSrc, ih xs (by simpa using h)]

/-- the source index of one slice of `unbind`: `k` inserted at position `a` -/
theorem sqops_skSrc_ub : ∀ (a b k : Nat) (out : List Nat), out.length = a + b →
    skSrc (ubSK a b k) out = out.take a ++ k :: out.drop a := by
  intro a
  induction a with
  | zero => intro b k out h; simp [ubSK, skSrc, sqops_skSrc_keep b out (by simpa using h)]
  | succ a ih =>
    intro b k out h
    cases out with
    | nil => simp at h; omega
    | cons j out =>
      have := ih b k out (by simp at h; omega)
      simp only [ubSK, List.replicate_succ, List.cons_append, skSrc, List.take_succ_cons, List.drop_succ_cons] at this ⊢
      rw [this]

/-! ### `tn.squeeze`: integer 0 at the flagged positions -/

def sqSK (f : List Bool) : List SK := f.map fun b => if b then SK.int 0 else SK.keep

theorem sqops_skRaw_sq (f : List Bool) : skRaw (sqSK f) = squeezeKey f := by
  induction f with
  | nil => rfl
  | cons b bs ih => cases b <;> simp [sqSK, skRaw, squeezeKey] at ih ⊢ <;> exact ih

theorem sqops_skCons_sq (f : List Bool) : skCons (sqSK f) = f.length := by
  induction f with
  | nil => rfl
  | cons b bs ih => cases b <;> simp [sqSK, skCons] at ih ⊢ <;> exact ih

theorem sqops_skShape_sq : ∀ (f : List Bool) (ns : List Nat), skShape (sqSK f) ns = keepShape f ns := by
  intro f
  induction f with
  | nil => intro ns; simp [sqSK, skShape, keepShape]
  | cons b bs ih =>
    intro ns
    cases ns with
    | nil => cases b <;> simp [sqSK, skShape, keepShape]
    | cons n ns =>
      cases b with
      | true => simp only [sqSK, List.map_cons, if_true, skShape, keepShape] at ih ⊢; rw [ih]
      | false => simp only [sqSK, List.map_cons, Bool.false_eq_true, if_false, skShape, keepShape] at ih ⊢; rw [ih]

theorem sqops_skSrc_sq : ∀ (f : List Bool) (out : List Nat), skSrc (sqSK f) out = fillIdx f out := by
  intro f
  induction f with
  | nil => intro out; simp [sqSK, skSrc, fillIdx]
  | cons b bs ih =>
    intro out
    cases b with
    | true => simp only [sqSK, List.map_cons, if_true, skSrc, fillIdx] at ih ⊢; rw [ih]
    | false =>
      cases out with
      | nil => simp [sqSK, skSrc, fillIdx]
      | cons j out => simp only [sqSK, List.map_cons, Bool.false_eq_true, if_false, skSrc, fillIdx] at ih ⊢; rw [ih]

theorem sqops_skOK_sq : ∀ (f : List Bool) (ns : List Nat), flaggedOne f ns → skOK (sqSK f) ns := by
  intro f
  induction f with
  | nil => intro ns _; simp [sqSK, skOK]
  | cons b bs ih =>
    intro ns h
    cases ns with
    | nil => cases b <;> simp [sqSK, skOK]
    | cons n ns =>
      cases b with
      | true =>
        obtain ⟨h1, h2⟩ := h
        have := ih ns h2
        simp only [sqSK, List.map_cons, if_true, skOK] at this ⊢
        exact ⟨by omega, this⟩
      | false =>
        have := ih ns h
        simpa [sqSK, skOK] using this

/-! ### `mapM` over `Except` -/

theorem sqops_normInt_lt (d : Int) (n k : Nat) (h : normInt d n = .ok k) : k < n := by
  unfold normInt at h
  by_cases hd : d < 0
  · simp only [hd, if_true] at h
    split at h
    · simp only [Except.ok.injEq] at h; omega
    · cases h
  · simp only [hd, if_false] at h
    split at h
    · simp only [Except.ok.injEq] at h; omega
    · cases h

theorem sqops_mapM_spec (M : Nat) : ∀ (l : List Int) (r : List Nat), l.mapM (fun d => normInt d M) = .ok r →
    r.length = l.length ∧ ∀ d ∈ r, d < M := by
  intro l
  induction l with
  | nil => intro r h; simp only [List.mapM_nil, pure, Except.pure, Except.ok.injEq] at h; subst h; simp
  | cons x xs ih =>
    intro r h
    simp only [List.mapM_cons, bind, Except.bind, pure, Except.pure] at h
    split at h
    · cases h
    · rename_i k hk
      split at h
      · cases h
      · rename_i r' hr'
        simp only [Except.ok.injEq] at h; subst h
        obtain ⟨i1, i2⟩ := ih r' hr'
        refine ⟨by simp [i1], ?_⟩
        intro d hd
        rcases List.mem_cons.mp hd with rfl | hm
        · exact sqops_normInt_lt x M _ hk
        · exact i2 d hm

theorem sqops_mapM_error (M : Nat) : ∀ (l : List Int), (∃ d ∈ l, ∃ e, normInt d M = .error e) →
    ∃ e, l.mapM (fun d => normInt d M) = .error e := by
  intro l
  induction l with
  | nil => intro ⟨d, hd, _⟩; simp at hd
  | cons x xs ih =>
    intro ⟨d, hd, e, he⟩
    simp only [List.mapM_cons, bind, Except.bind, pure, Except.pure]
    cases hx : normInt x M with
    | error e' => exact ⟨e', rfl⟩
    | ok k =>
      simp only
      rcases List.mem_cons.mp hd with rfl | hm
      · rw [he] at hx; cases hx
      · obtain ⟨e', he'⟩ := ih ⟨d, hm, e, he⟩
        rw [he']; exact ⟨e', rfl⟩

/-- `mapM` of a function that succeeds on every listed element -/
theorem sqops_mapM_ok {ε α β : Type} (f : α → Except ε β) : ∀ (l : List α), (∀ x ∈ l, ∃ y, f x = .ok y) →
    ∃ ys, l.mapM f = .ok ys ∧ ys.length = l.length ∧
      ∀ (i : Nat) (x : α), l[i]? = some x → ∃ y, ys[i]? = some y ∧ f x = .ok y := by
  intro l
  induction l with
  | nil => intro _; exact ⟨[], rfl, rfl, by intro i x h; simp at h⟩
  | cons a as ih =>
    intro h
    obtain ⟨y, hy⟩ := h a List.mem_cons_self
    obtain ⟨ys, h1, h2, h3⟩ := ih (fun x hx => h x (List.mem_cons_of_mem _ hx))
    refine ⟨y :: ys, ?_, by simp [h2], ?_⟩
    · simp only [List.mapM_cons, bind, Except.bind, pure, Except.pure, hy, h1]
    · intro i x hx
      cases i with
      | zero => simp only [List.getElem?_cons_zero, Option.some.injEq] at hx; subst hx; exact ⟨y, by simp, hy⟩
      | succ i => simpa using h3 i x (by simpa using hx)

theorem sqops_insOnes_length : ∀ (f : List Bool) (ns : List Nat), skCons (uqSK f) = ns.length →
    (sqops_insOnes f ns).length = f.length := by
  intro f
  induction f with
  | nil => intro ns _; rfl
  | cons b bs ih =>
    intro ns h
    cases b with
    | true => simp only [sqops_insOnes, List.length_cons]; rw [ih ns (by simpa [uqSK, skCons] using h)]
    | false =>
      cases ns with
      | nil => simp [uqSK, skCons] at h
      | cons n ns => simp only [sqops_insOnes, List.length_cons]; rw [ih ns (by simpa [uqSK, skCons] using h)]

/-- deleting the inserted positions gives the original shape back -/
theorem sqops_keepShape_insOnes : ∀ (f : List Bool) (ns : List Nat), skCons (uqSK f) = ns.length →
    keepShape f (sqops_insOnes f ns) = ns := by
  intro f
  induction f with
  | nil => intro ns h; simp [uqSK, skCons] at h; simp [keepShape, List.length_eq_zero_iff.mp h.symm]
  | cons b bs ih =>
    intro ns h
    cases b with
    | true => simp only [sqops_insOnes, keepShape]; exact ih ns (by simpa [uqSK, skCons] using h)
    | false =>
      cases ns with
      | nil => simp [uqSK, skCons] at h
      | cons n ns => simp only [sqops_insOnes, keepShape]; rw [ih ns (by simpa [uqSK, skCons] using h)]

/-- the inserted positions have size 1 -/
theorem sqops_flaggedOne_insOnes : ∀ (f : List Bool) (ns : List Nat), flaggedOne f (sqops_insOnes f ns) := by
  intro f
  induction f with
  | nil => intro ns; simp [flaggedOne]
  | cons b bs ih =>
    intro ns
    cases b with
    | true => exact ⟨rfl, ih ns⟩
    | false =>
      cases ns with
      | nil => simp [sqops_insOnes, flaggedOne]
      | cons n ns => exact ih ns

/-! ### repeated positions flag fewer entries (the key of `tn.unsqueeze` then has too many non-`None` entries) -/

theorem sqops_set_count (f : List Bool) (d : Nat) :
    (f.set d true).count true ≤ f.count true + 1 ∧ (f[d]? ≠ some false → (f.set d true).count true = f.count true) := by
  by_cases hd : d < f.length
  · cases hv : f[d] with
    | true =>
      have : f.set d true = f := by rw [← hv]; exact List.set_getElem_self hd
      rw [this]; exact ⟨by omega, fun _ => rfl⟩
    | false =>
      rw [List.count_set hd]
      refine ⟨by simp [hv], ?_⟩
      intro h
      rw [List.getElem?_eq_getElem hd, hv] at h
      exact absurd rfl h
  · rw [List.set_eq_of_length_le (Nat.le_of_not_lt hd)]
    exact ⟨by omega, fun _ => rfl⟩

theorem sqops_fold_count_le (dims : List Nat) : ∀ (f0 : List Bool),
    (dims.foldl (fun f m => f.set m true) f0).count true ≤ f0.count true + dims.length := by
  induction dims with
  | nil => intro f0; simp
  | cons d ds ih =>
    intro f0
    have := ih (f0.set d true)
    have h2 := (sqops_set_count f0 d).1
    simp only [List.foldl_cons, List.length_cons]; omega

theorem sqops_fold_count_hit (dims : List Nat) : ∀ (f0 : List Bool), (∃ d ∈ dims, f0[d]? ≠ some false) →
    (dims.foldl (fun f m => f.set m true) f0).count true < f0.count true + dims.length := by
  induction dims with
  | nil => intro f0 ⟨d, hd, _⟩; simp at hd
  | cons x xs ih =>
    intro f0 ⟨d, hd, hne⟩
    simp only [List.foldl_cons, List.length_cons]
    by_cases hx : f0[x]? ≠ some false
    · have h1 := (sqops_set_count f0 x).2 hx
      have h2 := sqops_fold_count_le xs (f0.set x true)
      omega
    · have hx' : f0[x]? = some false := by simpa using hx
      have hdx : d ≠ x := by intro h; subst h; exact hne hx'
      have hmem : d ∈ xs := by
        rcases List.mem_cons.mp hd with h | h
        · exact absurd h hdx
        · exact h
      have h1 := ih (f0.set x true) ⟨d, hmem, by
        rw [List.getElem?_set]; simp only [Ne.symm hdx, if_false]; exact hne⟩
      have h2 := (sqops_set_count f0 x).1
      omega

theorem sqops_fold_count_dup (dims : List Nat) : ∀ (f0 : List Bool), ¬ dims.Nodup →
    (dims.foldl (fun f m => f.set m true) f0).count true < f0.count true + dims.length := by
  induction dims with
  | nil => intro f0 h; exact absurd List.nodup_nil h
  | cons d ds ih =>
    intro f0 h
    simp only [List.foldl_cons, List.length_cons]
    have h2 := (sqops_set_count f0 d).1
    by_cases hmem : d ∈ ds
    · have := sqops_fold_count_hit ds (f0.set d true) ⟨d, hmem, by
        rw [List.getElem?_set]
        simp only [if_true]
        split <;> simp⟩
      omega
    · have hnd : ¬ ds.Nodup := fun hh => h (List.nodup_cons.mpr ⟨hmem, hh⟩)
      have := ih (f0.set d true) hnd
      omega

theorem sqops_mark_count_dup (M : Nat) (dims : List Nat) (h : ¬ dims.Nodup) :
    (sqops_mark M dims).count true < dims.length := by
  have := sqops_fold_count_dup dims (List.replicate M false) h
  simpa [sqops_mark, List.count_replicate] using this

end TN
