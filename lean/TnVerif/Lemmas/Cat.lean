import TnVerif.Lemmas.Tools
import TnVerif.Lemmas.WF
import TnVerif.Model.Cat
/-! Helper lemmas for `tn.cat` / `tn.pad`: a matrix applied to a single mode, the embedding matrix at an
    offset, the "zeros + write" embedding of one operand, and the accumulation loop. -/
set_option linter.unusedSectionVars false
set_option linter.unusedSimpArgs false
open Finset
namespace TN
variable {R : Type} [CommSemiring R]

/-! ### a map on a single mode -/

/-- the per-mode map list "matrix `p` on mode `d`, nothing elsewhere" (as `cat2`, `partial1` build it) -/
def singleMap (N d : Nat) (p : Nat × (Nat → Nat → R)) : List (Option (Nat × (Nat → Nat → R))) :=
  (List.range N).map fun k => if k = d then some p else Option.none

omit [CommSemiring R] in
theorem singleMap_length (N d : Nat) (p : Nat × (Nat → Nat → R)) : (singleMap N d p).length = N := by
  simp [singleMap]

/-- no map anywhere: `linModes` is the identity -/
theorem linModes_allNone (p : Nat × (Nat → Nat → R)) (off : Nat) : ∀ (t : Tensor R) (M o : Nat), off < o →
    t.linModes ((List.range' o M).map fun k => if k = off then some p else Option.none) = t := by
  intro t
  induction t with
  | nil => intro M o _; cases M <;> simp [List.range'_succ, Tensor.linModes]
  | cons m ms ih =>
    intro M o ho
    cases M with
    | zero => simp [Tensor.linModes]
    | succ M =>
      have hne : ¬ o = off := by omega
      simp only [List.range'_succ, List.map_cons, hne, if_false, Tensor.linModes]
      rw [ih M (o + 1) (by omega)]

/-- a map on mode `d` only is `atMode` of `spatialLin` -/
theorem linModes_range' (rows : Nat) (L : Nat → Nat → R) : ∀ (t : Tensor R) (off d : Nat),
    t.linModes ((List.range' off t.length).map fun k => if k = off + d then some (rows, L) else Option.none) =
      t.atMode (TMode.spatialLin rows L) d := by
  intro t
  induction t with
  | nil => intro off d; cases d <;> simp [Tensor.linModes, Tensor.atMode]
  | cons m ms ih =>
    intro off d
    cases d with
    | zero =>
      simp only [List.length_cons, List.range'_succ, List.map_cons, Nat.add_zero, if_true, Tensor.linModes, Tensor.atMode]
      rw [linModes_allNone (rows, L) off ms ms.length (off + 1) (by omega)]
    | succ d =>
      have hne : ¬ off = off + (d + 1) := by omega
      simp only [List.length_cons, List.range'_succ, List.map_cons, hne, if_false, Tensor.linModes, Tensor.atMode]
      have := ih (off + 1) d
      rw [show off + 1 + d = off + (d + 1) by omega] at this
      rw [this]

theorem linModes_single (rows : Nat) (L : Nat → Nat → R) (t : Tensor R) (d : Nat) :
    t.linModes (singleMap t.length d (rows, L)) = t.atMode (TMode.spatialLin rows L) d := by
  have := linModes_range' rows L t 0 d
  simpa [singleMap, List.range_eq_range'] using this

/-- a matrix on mode `d` only: the array is transformed along `d`, all other indices are untouched
    (`C20.applyMaps_single` over a semiring, with `List.set`) -/
theorem applyMaps_single (L : Nat → Nat → R) (rows : Nat) : ∀ (N d : Nat) (ns is : List Nat) (f : List Nat → R),
    d < N → ns.length = N → is.length = N →
    applyMaps (singleMap N d (rows, L)) ns f is =
      ∑ j ∈ range (ns.getD d 0), L (is.getD d 0) j * f (is.set d j) := by
  intro N
  suffices h : ∀ (off d : Nat) (ns is : List Nat) (f : List Nat → R), d < N → ns.length = N → is.length = N →
      applyMaps ((List.range' off N).map fun k => if k = off + d then some (rows, L) else Option.none) ns f is =
        ∑ j ∈ range (ns.getD d 0), L (is.getD d 0) j * f (is.set d j) by
    intro d ns is f hd hn hi
    simpa [singleMap, List.range_eq_range'] using h 0 d ns is f hd hn hi
  induction N with
  | zero => intro off d ns is f hd; omega
  | succ N ih =>
    intro off d ns is f hd hn hi
    cases ns with
    | nil => simp at hn
    | cons n ns =>
      cases is with
      | nil => simp at hi
      | cons i is =>
        cases d with
        | zero =>
          simp only [List.range'_succ, List.map_cons, Nat.add_zero, if_true, applyMaps, List.getD_cons_zero, List.set_cons_zero]
          apply Finset.sum_congr rfl; intro j _
          congr 1
          have : ∀ (M o : Nat) (ms js : List Nat) (g : List Nat → R), off < o →
              applyMaps ((List.range' o M).map fun k => if k = off then some (rows, L) else Option.none) ms g js = g js := by
            intro M
            induction M with
            | zero => intro o ms js g _; simp [applyMaps]
            | succ M ihM =>
              intro o ms js g ho
              have hne : ¬ o = off := by omega
              cases ms with
              | nil => simp [List.range'_succ, hne, applyMaps]
              | cons m ms =>
                cases js with
                | nil => simp [List.range'_succ, hne, applyMaps]
                | cons j' js =>
                  simp only [List.range'_succ, List.map_cons, hne, if_false, applyMaps]
                  exact ihM (o + 1) ms js _ (by omega)
          exact this N (off + 1) ns is _ (by omega)
        | succ d =>
          have hne : ¬ off = off + (d + 1) := by omega
          simp only [List.range'_succ, List.map_cons, hne, if_false, applyMaps, List.getD_cons_succ, List.set_cons_succ]
          have := ih (off + 1) d ns is (fun js => f (i :: js)) (by omega) (by simpa using hn) (by simpa using hi)
          rw [show off + (d + 1) = off + 1 + d by omega]
          exact this

/-- the embedding matrix at an offset picks entry `i - off` inside the block `[off, off + n)` and gives `0` elsewhere -/
theorem embed_row_off (off n i : Nat) (g : Nat → R) :
    (∑ j ∈ range n, embedL (R := R) off n i j * g j) = if off ≤ i ∧ i < off + n then g (i - off) else 0 := by
  by_cases h : off ≤ i ∧ i < off + n
  · rw [if_pos h, Finset.sum_eq_single (i - off)]
    · have h1 : i = off + (i - off) := by omega
      have h2 : i - off < n := by omega
      simp [embedL, ← h1, h2]
    · intro j hj hne
      have := Finset.mem_range.mp hj
      have : ¬ i = off + j := by omega
      simp [embedL, this]
    · intro hh; exact absurd (Finset.mem_range.mpr (by omega)) hh
  · rw [if_neg h]
    apply Finset.sum_eq_zero
    intro j hj
    have := Finset.mem_range.mp hj
    have : ¬ (i = off + j ∧ j < n) := by omega
    simp [embedL, this]

/-- **one matrix on one mode**, at the level of the decompressed array -/
theorem dense_atMode_spatialLin (t : Tensor R) (rows : Nat) (L : Nat → Nat → R) (d : Nat) (idx : List Nat)
    (hd : d < t.length) (hi : idx.length = t.length) :
    dense (t.atMode (TMode.spatialLin rows L) d).modes idx =
      ∑ j ∈ range (t.shape.getD d 0), L (idx.getD d 0) j * dense t.modes (idx.set d j) := by
  rw [← linModes_single, dense_linModes t _ idx (singleMap_length _ _ _) hi]
  exact applyMaps_single L rows t.length d t.shape idx _ hd (shape_length t) hi

/-! ### `atMode`: well-formedness and shape -/

omit [CommSemiring R] in
theorem atMode_length (f : TMode R → TMode R) : ∀ (t : Tensor R) (d : Nat), (t.atMode f d).length = t.length := by
  intro t
  induction t with
  | nil => intro d; cases d <;> rfl
  | cons m ms ih => intro d; cases d <;> simp [Tensor.atMode, ih]

omit [CommSemiring R] in
theorem atMode_WFfrom (f : TMode R → TMode R) (hrl : ∀ m, (f m).core.rl = m.core.rl)
    (hrr : ∀ m, (f m).core.rr = m.core.rr) (hok : ∀ m, m.ok → (f m).ok) :
    ∀ (t : Tensor R) (d p : Nat), Tensor.WFfrom p t → Tensor.WFfrom p (t.atMode f d) := by
  intro t
  induction t with
  | nil => intro d p h; cases d <;> exact h
  | cons m ms ih =>
    intro d p h
    obtain ⟨h1, h2, h3⟩ := h
    cases d with
    | zero => exact ⟨by rw [hrl]; exact h1, hok m h2, by rw [hrr]; exact h3⟩
    | succ d => exact ⟨h1, h2, ih d _ h3⟩

omit [CommSemiring R] in
theorem atMode_WF (f : TMode R → TMode R) (hrl : ∀ m, (f m).core.rl = m.core.rl)
    (hrr : ∀ m, (f m).core.rr = m.core.rr) (hok : ∀ m, m.ok → (f m).ok)
    (t : Tensor R) (d : Nat) (h : t.WF) : (t.atMode f d).WF := by
  cases t with
  | nil => exact absurd h (by simp [Tensor.WF])
  | cons m ms =>
    have := atMode_WFfrom f hrl hrr hok (m :: ms) d _ h
    cases d with
    | zero => simp only [Tensor.atMode, Tensor.WF] at this ⊢; rw [hrl]; exact this
    | succ d => simpa [Tensor.atMode, Tensor.WF] using this

omit [CommSemiring R] in
theorem atMode_shape (f : TMode R → TMode R) (rows : Nat) (hn : ∀ m, (f m).n = rows) :
    ∀ (t : Tensor R) (d : Nat), (t.atMode f d).shape = t.shape.set d rows := by
  intro t
  induction t with
  | nil => intro d; cases d <;> rfl
  | cons m ms ih =>
    intro d
    cases d with
    | zero => simp [Tensor.atMode, Tensor.shape, hn]
    | succ d =>
      have := ih d
      simp only [Tensor.shape] at this
      simp [Tensor.atMode, Tensor.shape, this]

theorem spatialLin_rl (rows : Nat) (L : Nat → Nat → R) (m : TMode R) : (m.spatialLin rows L).core.rl = m.core.rl := by
  obtain ⟨c, U⟩ := m; cases U <;> simp [TMode.spatialLin]
theorem spatialLin_rr (rows : Nat) (L : Nat → Nat → R) (m : TMode R) : (m.spatialLin rows L).core.rr = m.core.rr := by
  obtain ⟨c, U⟩ := m; cases U <;> simp [TMode.spatialLin]
theorem spatialLin_n (rows : Nat) (L : Nat → Nat → R) (m : TMode R) : (m.spatialLin rows L).n = rows := by
  obtain ⟨c, U⟩ := m; cases U <;> simp [TMode.spatialLin, TMode.n, Fac.lmul]

/-! ### the "zeros + write" embedding of one operand -/

theorem Core.embedRows_get (total off : Nat) (c : Core R) (a i b : Nat) :
    (c.embedRows total off).get a i b = if off ≤ i ∧ i < off + c.spatial then c.get a (i - off) b else 0 := by
  cases c with
  | tt r0 s r1 f => by_cases hb : off ≤ i ∧ i < off + s <;> simp [Core.embedRows, hb]
  | cp s r f => by_cases h : a = b <;> by_cases hb : off ≤ i ∧ i < off + s <;> simp [Core.embedRows, h, hb]

omit [CommSemiring R] in
@[simp] theorem Core.embedRows_rl [Zero R] (total off : Nat) (c : Core R) : (c.embedRows total off).rl = c.rl := by cases c <;> rfl
omit [CommSemiring R] in
@[simp] theorem Core.embedRows_rr [Zero R] (total off : Nat) (c : Core R) : (c.embedRows total off).rr = c.rr := by cases c <;> rfl
omit [CommSemiring R] in
@[simp] theorem Core.embedRows_spatial [Zero R] (total off : Nat) (c : Core R) : (c.embedRows total off).spatial = total := by cases c <;> rfl

theorem embedAt_rl (total off : Nat) (m : TMode R) : (m.embedAt total off).core.rl = m.core.rl := by
  obtain ⟨c, U⟩ := m; cases U <;> simp [TMode.embedAt]
theorem embedAt_rr (total off : Nat) (m : TMode R) : (m.embedAt total off).core.rr = m.core.rr := by
  obtain ⟨c, U⟩ := m; cases U <;> simp [TMode.embedAt]
theorem embedAt_n (total off : Nat) (m : TMode R) : (m.embedAt total off).n = total := by
  obtain ⟨c, U⟩ := m; cases U <;> simp [TMode.embedAt, TMode.n, Fac.embedRows]
theorem embedAt_ok (total off : Nat) (m : TMode R) (h : m.ok) : (m.embedAt total off).ok := by
  obtain ⟨c, U⟩ := m
  cases U with
  | none => trivial
  | some U => exact h

/-- writing the rows into a zero array is the embedding matrix `embedL off n` applied to the mode -/
theorem toMode_embedAt (total off : Nat) (m : TMode R) :
    (m.embedAt total off).toMode = (m.spatialLin total (embedL off m.n)).toMode := by
  rw [toMode_spatialLin]
  obtain ⟨c, U⟩ := m
  cases U with
  | none =>
    apply Mode.ext'
    · simp [TMode.embedAt, Mode.lin]
    · simp [TMode.embedAt, Mode.lin]
    · simp [TMode.embedAt, Mode.lin, TMode.n]
    · intro i a b
      simp only [TMode.embedAt, Mode.lin, TMode.toMode_G, TMode.decomp_none, Core.embedRows_get, sumTo_eq,
        TMode.toMode_n, TMode.n_none]
      exact (embed_row_off off c.spatial i (fun j => c.get a j b)).symm
  | some U =>
    apply Mode.ext'
    · simp [TMode.embedAt, Mode.lin]
    · simp [TMode.embedAt, Mode.lin]
    · simp [TMode.embedAt, Mode.lin, TMode.n, Fac.embedRows]
    · intro i a b
      simp only [TMode.embedAt, Mode.lin, TMode.toMode_G, TMode.decomp_some, Fac.apply_get, sumTo_eq,
        TMode.toMode_n, TMode.n_some, Fac.embedRows]
      rw [embed_row_off off U.rows i (fun j' => ∑ j ∈ range c.spatial, U.f j' j * c.get a j b)]
      by_cases h : off ≤ i ∧ i < off + U.rows
      · simp [h]
      · simp [h]

theorem modes_embedDim (total off : Nat) : ∀ (t : Tensor R) (d : Nat),
    (t.embedDim total off d).modes = (t.atMode (TMode.spatialLin total (embedL off (t.shape.getD d 0))) d).modes := by
  intro t
  induction t with
  | nil => intro d; cases d <;> rfl
  | cons m ms ih =>
    intro d
    cases d with
    | zero =>
      simp only [Tensor.embedDim, Tensor.atMode, Tensor.modes, List.map_cons, Tensor.shape, List.getD_cons_zero]
      rw [toMode_embedAt]
    | succ d =>
      have := ih d
      simp only [Tensor.embedDim, Tensor.modes, Tensor.shape] at this
      simp only [Tensor.embedDim, Tensor.atMode, Tensor.modes, List.map_cons, Tensor.shape, List.getD_cons_succ, this]

/-- **one embedded operand**: inside its block it reads the operand at the shifted index, elsewhere it is zero -/
theorem dense_embedDim (t : Tensor R) (total off d : Nat) (idx : List Nat) (hd : d < t.length) (hi : idx.length = t.length) :
    (t.embedDim total off d).dense idx =
      if off ≤ idx.getD d 0 ∧ idx.getD d 0 < off + t.shape.getD d 0 then t.dense (idx.set d (idx.getD d 0 - off)) else 0 := by
  unfold Tensor.dense
  rw [modes_embedDim, dense_atMode_spatialLin t _ _ d idx hd hi]
  exact embed_row_off off _ _ (fun j => dense t.modes (idx.set d j))

theorem dense_linEmbed (t : Tensor R) (total off d : Nat) (idx : List Nat) (hd : d < t.length) (hi : idx.length = t.length) :
    (t.linModes (singleMap t.length d (total, embedL off (t.shape.getD d 0)))).dense idx =
      if off ≤ idx.getD d 0 ∧ idx.getD d 0 < off + t.shape.getD d 0 then t.dense (idx.set d (idx.getD d 0 - off)) else 0 := by
  unfold Tensor.dense
  rw [linModes_single, dense_atMode_spatialLin t _ _ d idx hd hi]
  exact embed_row_off off _ _ (fun j => dense t.modes (idx.set d j))

theorem WF_embedDim (t : Tensor R) (total off d : Nat) (h : t.WF) : (t.embedDim total off d).WF :=
  atMode_WF _ (embedAt_rl total off) (embedAt_rr total off) (embedAt_ok total off) t d h

theorem shape_embedDim (t : Tensor R) (total off d : Nat) : (t.embedDim total off d).shape = t.shape.set d total :=
  atMode_shape _ total (embedAt_n total off) t d

theorem WF_linSingle (t : Tensor R) (rows : Nat) (L : Nat → Nat → R) (d : Nat) (h : t.WF) :
    (t.linModes (singleMap t.length d (rows, L))).WF := by
  rw [linModes_single]
  exact atMode_WF _ (spatialLin_rl rows L) (spatialLin_rr rows L) (spatialLin_ok rows L) t d h

theorem shape_linSingle (t : Tensor R) (rows : Nat) (L : Nat → Nat → R) (d : Nat) :
    (t.linModes (singleMap t.length d (rows, L))).shape = t.shape.set d rows := by
  rw [linModes_single]
  exact atMode_shape _ rows (spatialLin_n rows L) t d

/-! ### `+` of two tensors of equal shape (the statements of `C02.add_dense` / `C02.add_wf_shape`, needed below the
    property layer) -/

theorem Tensor.add_dense_eq (t u : Tensor R) (ht : t.WF) (hu : u.WF) (hs : t.shape = u.shape)
    (idx : List Nat) : (t.add u).dense idx = t.dense idx + u.dense idx := by
  unfold Tensor.add broadcast Tensor.dense
  rw [if_pos hs]
  simp only
  rw [dense_collapseLast, dense_collapseFirst]
  cases t with
  | nil => exact absurd ht (by simp [Tensor.WF])
  | cons x xs =>
    cases u with
    | nil => exact absurd hu (by simp [Tensor.WF])
    | cons y ys =>
      rw [modes_zipWith_addMode _ _ (Tensor.WFfrom_ok _ _ ht)]
      exact dense_add x.toMode (Tensor.modes xs) y.toMode (Tensor.modes ys) idx (wf_modes _ _ ht) (wf_modes _ _ hu)
        (compat_modes _ _ hs)

theorem Tensor.add_wf_shape_eq (t u : Tensor R) (ht : t.WF) (hu : u.WF) (hs : t.shape = u.shape) :
    (t.add u).WF ∧ (t.add u).shape = t.shape := by
  have hlen : t.length = u.length := by simpa [shape_length] using congrArg List.length hs
  unfold Tensor.add broadcast
  rw [if_pos hs]
  simp only
  constructor
  · apply WF_collapseLast; apply WF_collapseFirst
    cases t with
    | nil => exact absurd ht (by simp [Tensor.WF])
    | cons x xs =>
      cases u with
      | nil => simp at hlen
      | cons y ys => exact WF_of_WFfrom _ _ (WFfrom_zipWith_addMode _ _ _ _ ht hu) (by simp)
  · rw [shape_collapseLast, shape_collapseFirst, shape_zipWith_addMode _ _ hlen]

/-! ### the accumulation loop -/

/-- the sum of what the embedded operands contribute at one index: operand `t` at offset `off` contributes its
    entry at the shifted index if `idx[d]` lies in its block `[off, off + n_t)`, else nothing -/
def catSum (d : Nat) (idx : List Nat) : Nat → List (Tensor R) → R
  | _, [] => 0
  | off, t :: ts =>
    (if off ≤ idx.getD d 0 ∧ idx.getD d 0 < off + catSize d t then t.dense (idx.set d (idx.getD d 0 - off)) else 0)
      + catSum d idx (off + catSize d t) ts

/-- invariant of the loop `result += embed(ts[i])` -/
theorem catGo_spec (d total N : Nat) (S : List Nat) : ∀ (ts : List (Tensor R)) (acc : Tensor R) (off : Nat),
    acc.WF → acc.shape = S →
    (∀ t ∈ ts, t.WF ∧ t.length = N ∧ d < N ∧ t.shape.set d total = S) →
    (catGo d total acc off ts).WF ∧ (catGo d total acc off ts).shape = S ∧
    ∀ idx : List Nat, idx.length = N →
      (catGo d total acc off ts).dense idx = acc.dense idx + catSum d idx off ts := by
  intro ts
  induction ts with
  | nil => intro acc off hw hs _; exact ⟨hw, hs, fun idx _ => by simp [catGo, catSum]⟩
  | cons t ts ih =>
    intro acc off hw hs hall
    obtain ⟨htw, htl, hdN, hts⟩ := hall t List.mem_cons_self
    have hE : (t.embedDim total off d).WF := WF_embedDim t total off d htw
    have hES : acc.shape = (t.embedDim total off d).shape := by rw [shape_embedDim, hts, hs]
    obtain ⟨hw', hs'⟩ := Tensor.add_wf_shape_eq acc _ hw hE hES
    obtain ⟨r1, r2, r3⟩ := ih (acc.add (t.embedDim total off d)) (off + catSize d t) hw' (hs'.trans hs)
      (fun t' ht' => hall t' (List.mem_cons_of_mem _ ht'))
    refine ⟨r1, r2, ?_⟩
    intro idx hi
    simp only [catGo, catSum]
    rw [r3 idx hi, Tensor.add_dense_eq acc _ hw hE hES idx,
      dense_embedDim t total off d idx (by omega) (by omega)]
    rw [add_assoc]; rfl

/-- if `idx[d]` lies in the block of operand `k`, only that operand contributes -/
theorem catSum_block (d : Nat) (idx : List Nat) : ∀ (ts : List (Tensor R)) (off k : Nat) (hk : k < ts.length),
    off + ((ts.take k).map (catSize d)).sum ≤ idx.getD d 0 →
    idx.getD d 0 < off + ((ts.take (k + 1)).map (catSize d)).sum →
    catSum d idx off ts = ts[k].dense (idx.set d (idx.getD d 0 - (off + ((ts.take k).map (catSize d)).sum))) := by
  intro ts
  induction ts with
  | nil => intro off k hk; simp at hk
  | cons t ts ih =>
    intro off k hk hlo hhi
    -- contributions of operands lying entirely to the right of the index vanish
    have hright : ∀ (us : List (Tensor R)) (o : Nat), idx.getD d 0 < o → catSum d idx o us = 0 := by
      intro us
      induction us with
      | nil => intro o _; rfl
      | cons u us ihu =>
        intro o ho
        have : ¬ (o ≤ idx.getD d 0 ∧ idx.getD d 0 < o + catSize d u) := by omega
        simp only [catSum, this, if_false, zero_add]
        exact ihu _ (by omega)
    cases k with
    | zero =>
      simp only [List.take_zero, List.map_nil, List.sum_nil, Nat.add_zero, List.take_succ_cons, List.map_cons,
        List.sum_cons] at hlo hhi
      have hin : off ≤ idx.getD d 0 ∧ idx.getD d 0 < off + catSize d t := by omega
      simp only [catSum, hin, and_self, if_true, List.take_zero, List.map_nil, List.sum_nil, Nat.add_zero,
        List.getElem_cons_zero]
      rw [hright ts _ (by omega), add_zero]
    | succ k =>
      simp only [List.take_succ_cons, List.map_cons, List.sum_cons] at hlo hhi
      have hout : ¬ (off ≤ idx.getD d 0 ∧ idx.getD d 0 < off + catSize d t) := by omega
      simp only [catSum, hout, if_false, zero_add, List.take_succ_cons, List.map_cons, List.sum_cons,
        List.getElem_cons_succ]
      have := ih (off + catSize d t) k (by simpa using hk) (by omega) (by omega)
      rw [this, Nat.add_assoc]

/-- to the right of all blocks nothing contributes -/
theorem catSum_outside (d : Nat) (idx : List Nat) : ∀ (ts : List (Tensor R)) (off : Nat),
    off + (ts.map (catSize d)).sum ≤ idx.getD d 0 → catSum d idx off ts = 0 := by
  intro ts
  induction ts with
  | nil => intro off _; rfl
  | cons t ts ih =>
    intro off h
    simp only [List.map_cons, List.sum_cons] at h
    have hout : ¬ (off ≤ idx.getD d 0 ∧ idx.getD d 0 < off + catSize d t) := by omega
    simp only [catSum, hout, if_false, zero_add]
    exact ih _ (by omega)

/-! ### small list facts -/

theorem getD_eq_getElem' (l : List Nat) (d : Nat) (h : d < l.length) : l.getD d 0 = l[d] := by
  simp [List.getD_eq_getElem?_getD, h]

theorem set_getD_self (l : List Nat) (d : Nat) (h : d < l.length) : l.set d (l.getD d 0) = l := by
  rw [getD_eq_getElem' _ _ h]; exact List.set_getElem_self h

/-- two shapes of equal length that agree off position `d` agree everywhere once position `d` is overwritten -/
theorem set_eq_of_off (a b : List Nat) (d x : Nat) (hl : a.length = b.length)
    (h : ∀ k, k ≠ d → a.getD k 0 = b.getD k 0) : a.set d x = b.set d x := by
  apply List.ext_getElem
  · simp [hl]
  · intro k h1 h2
    simp only [List.getElem_set]
    by_cases hk : d = k
    · simp [hk]
    · simp only [hk, if_false]
      have h1' : k < a.length := by simpa using h1
      have h2' : k < b.length := by simpa using h2
      have := h k (fun e => hk e.symm)
      rwa [getD_eq_getElem' _ _ h1', getD_eq_getElem' _ _ h2'] at this

theorem getD_eq_of_set_eq (a b : List Nat) (d x k : Nat) (hk : k ≠ d) (h : a.set d x = b.set d x) :
    a.getD k 0 = b.getD k 0 := by
  have := congrArg (fun l => l.getD k 0) h
  simpa [List.getD_eq_getElem?_getD, List.getElem?_set, Ne.symm hk] using this

theorem normInt_eq_ok_iff (k : Int) (n d : Nat) :
    normInt k n = .ok d ↔ ((d : Int) = if k < 0 then k + n else k) ∧ d < n := by
  unfold normInt
  by_cases hk : k < 0
  · simp only [hk, if_true]
    by_cases h : 0 ≤ k + ↑n ∧ k + ↑n < ↑n
    · rw [if_pos h]
      constructor
      · intro e; injection e with e; omega
      · intro e; congr 1; omega
    · rw [if_neg h]
      constructor
      · intro e; cases e
      · intro e; omega
  · simp only [hk, if_false]
    by_cases h : 0 ≤ k ∧ k < ↑n
    · rw [if_pos h]
      constructor
      · intro e; injection e with e; omega
      · intro e; congr 1; omega
    · rw [if_neg h]
      constructor
      · intro e; cases e
      · intro e; omega

end TN
