import TnVerif.Lemmas.Dot
import TnVerif.Lemmas.Scalar
import TnVerif.Model.Stats
import Mathlib.Algebra.Field.Basic
import Mathlib.Algebra.Order.Field.Basic
import Mathlib.Algebra.Order.BigOperators.Ring.Finset
import Mathlib.Tactic.FieldSimp
import Mathlib.Tactic.Linarith
/-! Helper lemmas for the statistics of metrics.py: sums / means over a subset of modes as functions on
    the dense array, the embedding of mode sizes in the scalars, sums of squares over the index box. -/
set_option linter.unusedSectionVars false
set_option linter.unusedSimpArgs false
open Finset
namespace TN
variable {R : Type}

/-! ### specification functions on dense arrays -/

/-- `f` summed over the modes flagged in `dims` (the other indices are read from `is`; the entry of `is`
    at a summed mode is ignored) -/
def sumOver [CommSemiring R] : List Bool → List Nat → (List Nat → R) → List Nat → R
  | true :: ds, n :: ns, f, _ :: is => ∑ j ∈ range n, sumOver ds ns (fun js => f (j :: js)) is
  | false :: ds, _ :: ns, f, i :: is => sumOver ds ns (fun js => f (i :: js)) is
  | _, _, f, is => f is

/-- number of entries `sumOver` adds up: the product of the sizes of the flagged modes -/
def cntOver : List Bool → List Nat → Nat
  | true :: ds, n :: ns => n * cntOver ds ns
  | false :: ds, _ :: ns => cntOver ds ns
  | _, _ => 1

/-- the shape with the flagged modes deleted -/
def keepShape : List Bool → List Nat → List Nat
  | true :: ds, _ :: ns => keepShape ds ns
  | false :: ds, n :: ns => n :: keepShape ds ns
  | _, _ => []

/-- an index of the squeezed array read as an index of the keepdim array: `0` at the flagged modes -/
def fillIdx : List Bool → List Nat → List Nat
  | true :: ds, out => 0 :: fillIdx ds out
  | false :: ds, j :: out => j :: fillIdx ds out
  | _, _ => []

/-- product of a per-size constant over the flagged modes -/
def cprod [CommSemiring R] (c : Nat → R) : List Bool → List Nat → R
  | true :: ds, n :: ns => c n * cprod c ds ns
  | false :: ds, _ :: ns => cprod c ds ns
  | _, _ => 1


/-! ### the `ZeroDivisionError` guard of `tn.sum(…, _normalize=True)` -/

theorem flaggedZero_pos : ∀ (dims : List Bool) (ns : List Nat), (∀ n ∈ ns, 0 < n) → flaggedZero dims ns = false := by
  intro dims
  induction dims with
  | nil => intro ns _; rfl
  | cons b ds ih =>
    intro ns h
    cases ns with
    | nil => cases b <;> rfl
    | cons n ns =>
      have hn : 0 < n := h n (by simp)
      have hr := ih ns (fun k hk => h k (by simp [hk]))
      cases b
      · simpa [flaggedZero] using hr
      · simp only [flaggedZero, hr, Bool.or_false, beq_eq_false_iff_ne]; omega

theorem flaggedZero_all : ∀ (ns : List Nat), 0 ∈ ns → flaggedZero (ns.map fun _ => true) ns = true := by
  intro ns
  induction ns with
  | nil => intro h; simp at h
  | cons n ns ih =>
    intro h
    simp only [List.map_cons, flaggedZero, Bool.or_eq_true, beq_iff_eq]
    rcases List.mem_cons.mp h with h0 | h1
    · exact Or.inl h0.symm
    · exact Or.inr (ih h1)

section semiring
variable [CommSemiring R]

theorem sumOver_mul_left (c : R) : ∀ (dims : List Bool) (ns : List Nat) (f : List Nat → R) (is : List Nat),
    sumOver dims ns (fun js => c * f js) is = c * sumOver dims ns f is := by
  intro dims
  induction dims with
  | nil => intro ns f is; simp [sumOver]
  | cons b ds ih =>
    intro ns f is
    cases ns with
    | nil => cases b <;> simp [sumOver]
    | cons n ns =>
      cases is with
      | nil => cases b <;> simp [sumOver]
      | cons i is =>
        cases b with
        | false => simp only [sumOver]; exact ih ns _ is
        | true =>
          simp only [sumOver, Finset.mul_sum]
          apply Finset.sum_congr rfl; intro j _
          exact ih ns _ is

theorem sumOver_congr : ∀ (dims : List Bool) (ns : List Nat) (f g : List Nat → R) (is : List Nat),
    (∀ js, f js = g js) → sumOver dims ns f is = sumOver dims ns g is := by
  intro dims ns f g is h
  have : f = g := funext h
  rw [this]


theorem sumOver_congr_len : ∀ (dims : List Bool) (ns : List Nat) (f g : List Nat → R) (is : List Nat),
    is.length = ns.length → (∀ js, js.length = ns.length → f js = g js) → sumOver dims ns f is = sumOver dims ns g is := by
  intro dims
  induction dims with
  | nil => intro ns f g is hi h; simpa [sumOver] using h is hi
  | cons b ds ih =>
    intro ns f g is hi h
    cases ns with
    | nil =>
      have : is = [] := by simpa using hi
      subst this
      cases b <;> simpa [sumOver] using h [] rfl
    | cons n ns =>
      cases is with
      | nil => simp at hi
      | cons i is =>
        have hi' : is.length = ns.length := by simpa using hi
        cases b with
        | false =>
          simp only [sumOver]
          exact ih ns _ _ is hi' (fun js hjs => h (i :: js) (by simp [hjs]))
        | true =>
          simp only [sumOver]
          apply Finset.sum_congr rfl; intro j _
          exact ih ns _ _ is hi' (fun js hjs => h (j :: js) (by simp [hjs]))

/-- one-row matrices with a constant entry per mode: the array is summed over the flagged modes and
    multiplied by the product of the constants -/
theorem applyMaps_const (c : Nat → R) : ∀ (dims : List Bool) (ns : List Nat) (f : List Nat → R) (is : List Nat),
    is.length = ns.length →
    applyMaps (List.zipWith (fun b n => if b then some (1, fun _ _ => c n) else Option.none) dims ns) ns f is
      = cprod c dims ns * sumOver dims ns f is := by
  intro dims
  induction dims with
  | nil => intro ns f is _; simp [applyMaps, cprod, sumOver]
  | cons b ds ih =>
    intro ns f is hi
    cases ns with
    | nil => cases b <;> simp [applyMaps, cprod, sumOver]
    | cons n ns =>
      cases is with
      | nil => simp at hi
      | cons i is =>
        have hi' : is.length = ns.length := by simpa using hi
        cases b with
        | false =>
          simp only [List.zipWith_cons_cons, applyMaps, cprod, sumOver]
          exact ih ns _ is hi'
        | true =>
          simp only [List.zipWith_cons_cons, if_true, applyMaps, cprod, sumOver, Finset.mul_sum]
          apply Finset.sum_congr rfl; intro j _
          rw [ih ns _ is hi']; ring

theorem cprod_one : ∀ (dims : List Bool) (ns : List Nat), cprod (fun _ => (1 : R)) dims ns = 1 := by
  intro dims
  induction dims with
  | nil => intro ns; simp [cprod]
  | cons b ds ih =>
    intro ns
    cases ns with
    | nil => cases b <;> simp [cprod]
    | cons n ns => cases b <;> simp [cprod, ih ns]

/-- the per-mode maps of `sumKeep` / `meanKeep` are stated over the modes; this re-expresses them over the shape -/
theorem zipWith_modes (g : Bool → Nat → Option (Nat × (Nat → Nat → R))) (dims : List Bool) (t : Tensor R) :
    List.zipWith (fun b (m : TMode R) => g b m.n) dims t = List.zipWith g dims t.shape := by
  induction t generalizing dims with
  | nil => cases dims <;> simp [Tensor.shape]
  | cons m ms ih =>
    cases dims with
    | nil => simp
    | cons b bs => simp only [List.zipWith_cons_cons, Tensor.shape, List.map_cons, List.cons.injEq, true_and]; exact ih bs

/-- summing over every mode is the sum over the whole box -/
theorem sumOver_all : ∀ (ns : List Nat) (f : List Nat → R) (is : List Nat), is.length = ns.length →
    sumOver (ns.map fun _ => true) ns f is = boxSum ns f := by
  intro ns
  induction ns with
  | nil => intro f is h; cases is with
    | nil => simp [sumOver, boxSum]
    | cons _ _ => simp at h
  | cons n ns ih =>
    intro f is h
    cases is with
    | nil => simp at h
    | cons i is =>
      simp only [List.map_cons, sumOver, boxSum, sumTo_eq]
      apply Finset.sum_congr rfl; intro j _
      exact ih _ is (by simpa using h)

theorem cntOver_all : ∀ (ns : List Nat), cntOver (ns.map fun _ => true) ns = ns.prod := by
  intro ns
  induction ns with
  | nil => rfl
  | cons n ns ih => simp only [List.map_cons, cntOver, ih, List.prod_cons]

/-- summing over no mode reads the entry -/
theorem sumOver_none : ∀ (ns : List Nat) (f : List Nat → R) (is : List Nat),
    sumOver (ns.map fun _ => false) ns f is = f is := by
  intro ns
  induction ns with
  | nil => intro f is; simp [sumOver]
  | cons n ns ih =>
    intro f is
    cases is with
    | nil => simp [sumOver]
    | cons i is => simp only [List.map_cons, sumOver]; exact ih _ is

/-- `Σ_box (f + c·g)` etc. are available through `boxSum_add`, `boxSum_mul_left`; constants sum to `numel · c` -/
theorem boxSum_const (ns : List Nat) (c : R) : boxSum ns (fun _ => c) = (ns.prod : R) * c := by
  induction ns with
  | nil => simp [boxSum]
  | cons n ns ih =>
    simp only [boxSum, sumTo_eq, ih, Finset.sum_const, Finset.card_range, List.prod_cons, Nat.cast_mul, nsmul_eq_mul]
    ring


theorem boxSum_congr_in_st : ∀ (ns : List Nat) (f g : List Nat → R), (∀ is, inShape is ns → f is = g is) →
    boxSum ns f = boxSum ns g := by
  intro ns
  induction ns with
  | nil => intro f g h; exact h [] (by simp [inShape])
  | cons n ns ih =>
    intro f g h
    simp only [boxSum, sumTo_eq]
    apply Finset.sum_congr rfl; intro i hi
    exact ih _ _ (fun is his => h (i :: is) (by simp only [inShape]; exact ⟨Finset.mem_range.mp hi, his⟩))

theorem all_true_eq : ∀ (dims : List Bool), dims.all id = true → dims = List.replicate dims.length true := by
  intro dims
  induction dims with
  | nil => intro _; rfl
  | cons b ds ih =>
    intro h
    simp only [List.all_cons, id, Bool.and_eq_true] at h
    rw [h.1, List.length_cons, List.replicate_succ, ← ih h.2]

theorem fillIdx_all : ∀ (dims : List Bool), dims.all id = true → fillIdx dims [] = List.replicate dims.length 0 := by
  intro dims
  induction dims with
  | nil => intro _; rfl
  | cons b ds ih =>
    intro h
    simp only [List.all_cons, id, Bool.and_eq_true] at h
    rw [h.1]; simp [fillIdx, List.replicate_succ, ih h.2]

end semiring

/-! ### mode sizes in the scalars -/
section field
variable [Field R]

theorem natR_eq (n : Nat) : (natR n : R) = (n : R) := by
  induction n with
  | zero => simp [natR]
  | succ n ih => simp [natR, ih]

theorem cprod_inv : ∀ (dims : List Bool) (ns : List Nat),
    cprod (fun n => (1 / natR n : R) * 1) dims ns = ((cntOver dims ns : Nat) : R)⁻¹ := by
  intro dims
  induction dims with
  | nil => intro ns; simp [cprod, cntOver]
  | cons b ds ih =>
    intro ns
    cases ns with
    | nil => cases b <;> simp [cprod, cntOver]
    | cons n ns =>
      cases b with
      | false => simp only [cprod, cntOver]; exact ih ns
      | true =>
        simp only [cprod, cntOver]
        rw [ih ns, natR_eq, Nat.cast_mul, mul_inv, one_div, mul_one]

theorem numelR_eq (t : Tensor R) : t.numelR = ((t.shape.prod : Nat) : R) := by
  unfold Tensor.numelR
  have : ∀ (l : List Nat) (a : R), l.foldl (fun acc s => acc * natR s) a = a * ((l.prod : Nat) : R) := by
    intro l
    induction l with
    | nil => intro a; simp
    | cons s l ih => intro a; rw [List.foldl_cons, ih, natR_eq, List.prod_cons, Nat.cast_mul]; ring
  rw [this]; ring


/-! ### the rank-one tensor of normalised marginals -/

/-- product of the normalised marginal weights at an index (`none`: no weight on that mode) -/
def margW : List (Option (Nat × (Nat → R))) → List Nat → R
  | some (len, w) :: ws, j :: js => (w j / ∑ k ∈ range len, w k) * margW ws js
  | Option.none :: ws, _ :: js => margW ws js
  | _, _ => 1

/-- every marginal vector has the length of its mode (otherwise `t * pdf` broadcasts or raises) -/
def margsFit : List Nat → List (Option (Nat × (Nat → R))) → Prop
  | sh :: shs, some (len, _) :: ws => len = sh ∧ margsFit shs ws
  | _ :: shs, Option.none :: ws => margsFit shs ws
  | _, _ => True

theorem WFfrom_pdfT : ∀ (shs : List Nat) (ws : List (Option (Nat × (Nat → R)))), Tensor.WFfrom 1 (pdfT shs ws) := by
  intro shs
  induction shs with
  | nil => intro ws; cases ws <;> trivial
  | cons sh shs ih =>
    intro ws
    cases ws with
    | nil => exact ⟨rfl, trivial, ih []⟩
    | cons w ws =>
      cases w with
      | none => exact ⟨rfl, trivial, ih ws⟩
      | some q => obtain ⟨len, w⟩ := q; exact ⟨rfl, trivial, ih ws⟩

theorem WF_pdfT (shs : List Nat) (ws : List (Option (Nat × (Nat → R)))) (hne : shs ≠ []) : (pdfT shs ws).WF := by
  cases shs with
  | nil => exact absurd rfl hne
  | cons sh shs =>
    have := WFfrom_pdfT (sh :: shs) ws
    cases ws with
    | nil => exact this
    | cons w ws =>
      cases w with
      | none => exact this
      | some q => obtain ⟨len, w⟩ := q; exact this

theorem shape_pdfT : ∀ (shs : List Nat) (ws : List (Option (Nat × (Nat → R)))), margsFit shs ws → (pdfT shs ws).shape = shs := by
  intro shs
  induction shs with
  | nil => intro ws _; cases ws <;> rfl
  | cons sh shs ih =>
    intro ws h
    cases ws with
    | nil =>
      have := ih [] (by cases shs <;> trivial)
      simp only [Tensor.shape] at this
      simp [pdfT, pdfMode, Tensor.shape, TMode.n, this]
    | cons w ws =>
      cases w with
      | none =>
        have := ih ws h
        simp only [Tensor.shape] at this
        simp [pdfT, pdfMode, Tensor.shape, TMode.n, this]
      | some q =>
        obtain ⟨len, w⟩ := q
        obtain ⟨h1, h2⟩ := h
        have := ih ws h2
        simp only [Tensor.shape] at this
        simp [pdfT, pdfMode, Tensor.shape, TMode.n, this, h1]

theorem tail_pdfT : ∀ (shs : List Nat) (ws : List (Option (Nat × (Nat → R)))) (js : List Nat), js.length = shs.length →
    tail (pdfT shs ws).modes js 0 = margW ws js := by
  intro shs
  induction shs with
  | nil => intro ws js h; cases ws <;> cases js <;> simp_all [pdfT, Tensor.modes, tail, margW]
  | cons sh shs ih =>
    intro ws js h
    cases js with
    | nil => simp at h
    | cons j js =>
      have h' : js.length = shs.length := by simpa using h
      cases ws with
      | nil =>
        have := ih [] js h'
        simp only [Tensor.modes] at this
        simp [pdfT, pdfMode, Tensor.modes, tail, sumTo_eq, TMode.toMode_G, this, margW]
      | cons w ws =>
        have := ih ws js h'
        simp only [Tensor.modes] at this
        cases w with
        | none => simp [pdfT, pdfMode, Tensor.modes, tail, sumTo_eq, TMode.toMode_G, this, margW]
        | some q =>
          obtain ⟨len, w⟩ := q
          simp [pdfT, pdfMode, Tensor.modes, tail, sumTo_eq, TMode.toMode_G, this, margW, normW]

theorem dense_pdfT (shs : List Nat) (ws : List (Option (Nat × (Nat → R)))) (js : List Nat) (hne : shs ≠ [])
    (h : js.length = shs.length) : dense (pdfT shs ws).modes js = margW ws js := by
  have ht := tail_pdfT shs ws js h
  cases shs with
  | nil => exact absurd rfl hne
  | cons sh shs =>
    cases ws with
    | nil => simpa [pdfT, pdfMode, Tensor.modes, dense, sumTo_eq] using ht
    | cons w ws =>
      cases w with
      | none => simpa [pdfT, pdfMode, Tensor.modes, dense, sumTo_eq] using ht
      | some q => obtain ⟨len, w⟩ := q; simpa [pdfT, pdfMode, Tensor.modes, dense, sumTo_eq] using ht

/-- the `pdf` of `tn.var(t, marginals)` is the `pdf` of `tn.mean` when every mode has a marginal -/
theorem pdfT_all : ∀ (shs : List Nat) (margs : List (Nat × (Nat → R))), margs.length = shs.length →
    pdfT shs (margs.map some) = margs.map fun p => pdfMode 0 (some p) := by
  intro shs
  induction shs with
  | nil => intro margs h; cases margs with
    | nil => rfl
    | cons _ _ => simp at h
  | cons sh shs ih =>
    intro margs h
    cases margs with
    | nil => simp at h
    | cons p ps =>
      obtain ⟨len, w⟩ := p
      simp only [List.map_cons, pdfT, pdfMode, List.cons.injEq, true_and]
      exact ih ps (by simpa using h)

end field

/-! ### sums of squares over the box (ordered scalars) -/
section ordered
variable [CommRing R] [LinearOrder R] [IsStrictOrderedRing R]

theorem boxSum_nonneg : ∀ (ns : List Nat) (f : List Nat → R), (∀ is, 0 ≤ f is) → 0 ≤ boxSum ns f := by
  intro ns
  induction ns with
  | nil => intro f h; exact h []
  | cons n ns ih =>
    intro f h
    simp only [boxSum, sumTo_eq]
    exact Finset.sum_nonneg (fun i _ => ih _ (fun is => h (i :: is)))

/-- a box sum of non-negative terms vanishes iff every term inside the box does -/
theorem boxSum_eq_zero_iff : ∀ (ns : List Nat) (f : List Nat → R), (∀ is, 0 ≤ f is) →
    (boxSum ns f = 0 ↔ ∀ is, inShape is ns → f is = 0) := by
  intro ns
  induction ns with
  | nil =>
    intro f _
    simp only [boxSum]
    constructor
    · intro h is his
      cases is with
      | nil => exact h
      | cons _ _ => simp [inShape] at his
    · intro h; exact h [] (by simp [inShape])
  | cons n ns ih =>
    intro f h
    simp only [boxSum, sumTo_eq]
    rw [Finset.sum_eq_zero_iff_of_nonneg (fun i _ => boxSum_nonneg ns _ (fun is => h (i :: is)))]
    constructor
    · intro hz is his
      cases is with
      | nil => simp [inShape] at his
      | cons i is =>
        simp only [inShape] at his
        exact (ih _ (fun is => h (i :: is))).mp (hz i (Finset.mem_range.mpr his.1)) is his.2
    · intro hz i hi
      apply (ih _ (fun is => h (i :: is))).mpr
      intro is his
      exact hz (i :: is) (by simp only [inShape]; exact ⟨Finset.mem_range.mp hi, his⟩)

end ordered

end TN
