import TnVerif.Lemmas.Arith
/-! Chain-level facts about the code-level tensor model: well-formedness, shapes, boundary collapses. -/
set_option linter.unusedSectionVars false
set_option linter.unusedSimpArgs false
open Finset
namespace TN
variable {R : Type} [CommSemiring R]

theorem wf_modes (t : Tensor R) : ∀ p, Tensor.WFfrom p t → wf p t.modes := by
  induction t with
  | nil => intro p _; trivial
  | cons m ms ih =>
    intro p h
    obtain ⟨h1, _, h3⟩ := h
    exact ⟨h1, ih _ h3⟩

theorem compat_modes (t u : Tensor R) (h : t.shape = u.shape) : compat t.modes u.modes := by
  induction t generalizing u with
  | nil => cases u with
    | nil => trivial
    | cons _ _ => simp [Tensor.shape] at h
  | cons m ms ih => cases u with
    | nil => simp [Tensor.shape] at h
    | cons m' ms' =>
      simp only [Tensor.shape, List.map_cons, List.cons.injEq] at h
      exact ⟨h.1, ih ms' h.2⟩

theorem Tensor.WFfrom_ok (t : Tensor R) (p : Nat) (h : Tensor.WFfrom p t) : ∀ m ∈ t, m.ok := by
  induction t generalizing p with
  | nil => intro m hm; cases hm
  | cons x xs ih =>
    intro m hm
    obtain ⟨_, h2, h3⟩ := h
    cases hm with
    | head => exact h2
    | tail _ hm' => exact ih _ h3 m hm'

/-- modes of the mode-wise sum are the block-diagonal combination of the modes -/
theorem modes_zipWith_addMode (t u : Tensor R) (ht : ∀ m ∈ t, m.ok) :
    Tensor.modes (List.zipWith addMode t u) = addT t.modes u.modes := by
  induction t generalizing u with
  | nil => simp [Tensor.modes, addT]
  | cons x xs ih =>
    cases u with
    | nil => simp [Tensor.modes, addT]
    | cons y ys =>
      simp only [Tensor.modes, List.zipWith_cons_cons, List.map_cons, addT]
      rw [toMode_addMode x y (ht x (List.mem_cons_self))]
      congr 1
      exact ih ys (fun m hm => ht m (List.mem_cons_of_mem _ hm))

theorem modes_zipWith_mulMode (t u : Tensor R) (hu : ∀ m ∈ u, m.ok) :
    Tensor.modes (List.zipWith mulMode t u) = mulT t.modes u.modes := by
  induction t generalizing u with
  | nil => simp [Tensor.modes, mulT]
  | cons x xs ih =>
    cases u with
    | nil => simp [Tensor.modes, mulT]
    | cons y ys =>
      simp only [Tensor.modes, List.zipWith_cons_cons, List.map_cons, mulT]
      rw [toMode_mulMode x y (hu y (List.mem_cons_self))]
      congr 1
      exact ih ys (fun m hm => hu m (List.mem_cons_of_mem _ hm))

/-! ### boundary collapses -/

theorem dense_collapseL (m : Mode R) (ms : List (Mode R)) (is : List Nat) :
    dense (m.collapseL :: ms) is = dense (m :: ms) is := by
  cases is with
  | nil => simp [dense, tail, sumTo_eq, Mode.collapseL]
  | cons i is =>
    simp only [dense, tail, sumTo_eq, Mode.collapseL, Finset.sum_range_one, Finset.sum_mul]
    rw [Finset.sum_comm]

theorem tail_collapseR (m : Mode R) (is : List Nat) (a : Nat) :
    tail [m.collapseR] is a = tail [m] is a := by
  cases is with
  | nil => simp [tail]
  | cons i is => simp [tail, sumTo_eq, Mode.collapseR]

/-- absorbing the left boundary: `{m with core := m.core.sumL}` -/
theorem toMode_sumL (c : Core R) (U : Option (Fac R)) (h : c.isCP = false) :
    (TMode.mk c.sumL U).toMode = (TMode.mk c U).toMode.collapseL := by
  cases c with
  | cp => simp [Core.isCP] at h
  | tt r0 s r1 f =>
    cases U with
    | none => apply Mode.ext' <;> simp [Core.sumL, Mode.collapseL, TMode.toMode_G, sumTo_eq]
    | some U =>
      apply Mode.ext'
      · simp [Core.sumL, Mode.collapseL]
      · simp [Core.sumL, Mode.collapseL]
      · simp [Core.sumL, Mode.collapseL]
      · intro i a b
        simp only [Core.sumL, Mode.collapseL, TMode.toMode_G, TMode.decomp_some, Fac.apply, Core.tt_get, sumTo_eq,
          TMode.toMode_rl, Core.tt_rl, Finset.mul_sum]
        rw [Finset.sum_comm]

theorem toMode_sumR (c : Core R) (U : Option (Fac R)) (h : c.isCP = false) :
    (TMode.mk c.sumR U).toMode = (TMode.mk c U).toMode.collapseR := by
  cases c with
  | cp => simp [Core.isCP] at h
  | tt r0 s r1 f =>
    cases U with
    | none => apply Mode.ext' <;> simp [Core.sumR, Mode.collapseR, TMode.toMode_G, sumTo_eq]
    | some U =>
      apply Mode.ext'
      · simp [Core.sumR, Mode.collapseR]
      · simp [Core.sumR, Mode.collapseR]
      · simp [Core.sumR, Mode.collapseR]
      · intro i a b
        simp only [Core.sumR, Mode.collapseR, TMode.toMode_G, TMode.decomp_some, Fac.apply, Core.tt_get, sumTo_eq,
          TMode.toMode_rr, Core.tt_rr, Finset.mul_sum]
        rw [Finset.sum_comm]

theorem Core.sumL_cp (c : Core R) (h : c.isCP = true) : c.sumL = c := by
  cases c with
  | tt => simp [Core.isCP] at h
  | cp => rfl
theorem Core.sumR_cp (c : Core R) (h : c.isCP = true) : c.sumR = c := by
  cases c with
  | tt => simp [Core.isCP] at h
  | cp => rfl

theorem dense_collapseFirst (t : Tensor R) (is : List Nat) :
    dense (Tensor.collapseFirst t).modes is = dense t.modes is := by
  cases t with
  | nil => rfl
  | cons m ms =>
    obtain ⟨c, U⟩ := m
    simp only [Tensor.collapseFirst, Tensor.modes, List.map_cons]
    by_cases h : c.isCP = true
    · rw [Core.sumL_cp c h]
    · have h' : c.isCP = false := by simpa using h
      rw [toMode_sumL c U h', dense_collapseL]

theorem tail_collapseLast (t : Tensor R) (is : List Nat) (a : Nat) :
    tail (Tensor.collapseLast t).modes is a = tail t.modes is a := by
  induction t generalizing is a with
  | nil => rfl
  | cons m ms ih =>
    cases ms with
    | nil =>
      obtain ⟨c, U⟩ := m
      simp only [Tensor.collapseLast, Tensor.modes, List.map_cons, List.map_nil]
      by_cases h : c.isCP = true
      · rw [Core.sumR_cp c h]
      · have h' : c.isCP = false := by simpa using h
        rw [toMode_sumR c U h', tail_collapseR]
    | cons m' ms' =>
      simp only [Tensor.collapseLast, Tensor.modes, List.map_cons] at ih ⊢
      cases is with
      | nil => simp [tail]
      | cons i is =>
        simp only [tail]
        congr 1; funext b
        rw [ih is b]

theorem head_rl_collapseLast (t : Tensor R) :
    (Tensor.collapseLast t).modes.head?.map (·.rl) = t.modes.head?.map (·.rl) := by
  cases t with
  | nil => rfl
  | cons m ms =>
    cases ms with
    | nil =>
      obtain ⟨c, U⟩ := m
      cases c <;> simp [Tensor.collapseLast, Tensor.modes, Core.sumR]
    | cons m' ms' => simp [Tensor.collapseLast, Tensor.modes]

theorem dense_collapseLast (t : Tensor R) (is : List Nat) :
    dense (Tensor.collapseLast t).modes is = dense t.modes is := by
  have h := head_rl_collapseLast t
  have ht := tail_collapseLast t is
  cases t with
  | nil => rfl
  | cons m ms =>
    revert h ht
    generalize hx : (Tensor.collapseLast (m :: ms)).modes = X
    cases X with
    | nil =>
      cases ms <;> simp [Tensor.collapseLast, Tensor.modes] at hx
    | cons x xs =>
      intro h ht
      simp only [Tensor.modes, List.map_cons, List.head?_cons, Option.map_some, Option.some.injEq] at h
      simp only [dense, h]
      simp only [Tensor.modes, List.map_cons] at ht
      congr 1; funext a; exact ht a

end TN
