import TnVerif.Lemmas.Sobol
import TnVerif.Lemmas.Reverse
import TnVerif.Lemmas.RoundTTBridge
/-! Lemmas for C09, one-hot masks: the trailing-dimension branch of `tn.dot` (`sobolDotOpenGo`), Kronecker chains with an
    open trailing bond, the trailing rank of `a`. -/
set_option linter.unusedSectionVars false
set_option linter.unusedSimpArgs false
open Finset
namespace TN
variable {R : Type}
section
variable [CommSemiring R]

/-- the running matrix of `tn.dot` after the common leading modes, as a function -/
def sobolDotSweepF (L : Nat → Nat → R) : List (Mode R) → List (Mode R) → (Nat → Nat → R)
  | m :: ms, m' :: ms' => sobolDotSweepF (dotStep L m m') ms ms'
  | _, _ => L

/-- sweeping two chains that are both extended on the right: first the common part, then the extension -/
theorem sobol_dotGo_append (ms : List (Mode R)) : ∀ (ms' xs xs' : List (Mode R)) (L : Nat → Nat → R) (rl' rl : Nat),
    ms.length = ms'.length →
    dotGo L rl' rl (ms ++ xs) (ms' ++ xs') = dotGo (sobolDotSweepF L ms ms') (outRank rl' ms') (outRank rl ms) xs xs' := by
  induction ms with
  | nil =>
    intro ms' xs xs' L rl' rl h
    cases ms' with
    | nil => rfl
    | cons _ _ => simp at h
  | cons m ms ih =>
    intro ms' xs xs' L rl' rl h
    cases ms' with
    | nil => simp at h
    | cons m' ms' =>
      simp only [List.cons_append, dotGo, sobolDotSweepF, outRank]
      exact ih ms' xs xs' _ _ _ (by simpa using h)

theorem sobol_dotStep_congr (L L' : Nat → Nat → R) (m m' : Mode R) (h : ∀ b' b, b < m.rl → L b' b = L' b' b) (c' c : Nat) :
    dotStep L m m' c' c = dotStep L' m m' c' c := by
  simp only [dotStep, sumTo_eq]
  apply Finset.sum_congr rfl; intro i _
  apply Finset.sum_congr rfl; intro b' _
  apply Finset.sum_congr rfl; intro b hb
  rw [h b' b (Finset.mem_range.mp hb)]

/-- the trailing-dimension branch of `tn.dot`, one trailing mode: the tabulated sweep agrees with `sobolDotSweepF` -/
theorem sobol_dotOpenGo_eq (ms : List (Mode R)) : ∀ (ms' : Tensor R) (e : TMode R) (L : FlatArr R) (Lf : Nat → Nat → R)
    (rl' rl : Nat), ms.length = ms'.length → wf rl ms → (∀ c' c, c < rl → L.get (c' * rl + c) = Lf c' c) →
    ∃ LN : FlatArr R,
      sobolDotOpenGo L rl' rl ms (ms' ++ [e]) =
        [{ core := sobolProjLeftT LN (outRank rl' ms'.modes) (outRank rl ms) e.core, U := e.U }] ∧
      ∀ c' c, c < outRank rl ms → LN.get (c' * outRank rl ms + c) = sobolDotSweepF Lf ms ms'.modes c' c := by
  induction ms with
  | nil =>
    intro ms' e L Lf rl' rl h _ hL
    cases ms' with
    | nil => exact ⟨L, rfl, hL⟩
    | cons _ _ => simp at h
  | cons m ms ih =>
    intro ms' e L Lf rl' rl h hw hL
    cases ms' with
    | nil => simp at h
    | cons m' ms' =>
      obtain ⟨h1, h2⟩ := hw
      have hstep : ∀ c' c, c < m.rr → (sobolDotStepA L m m'.toMode).get (c' * m.rr + c) = dotStep Lf m m'.toMode c' c := by
        intro c' c hc
        rw [sobol_dotStepA_get L m m'.toMode c' c hc]
        apply sobol_dotStep_congr
        intro b' b hb
        rw [h1]; exact hL b' b (by rw [← h1]; exact hb)
      obtain ⟨LN, e1, e2⟩ := ih ms' e (sobolDotStepA L m m'.toMode) (dotStep Lf m m'.toMode) m'.core.rr m.rr
        (by simpa using h) h2 hstep
      exact ⟨LN, by simpa [sobolDotOpenGo, Tensor.modes, outRank] using e1, by simpa [sobolDotSweepF, Tensor.modes, outRank] using e2⟩

end
end TN

namespace TN
variable {R : Type}
section
variable [CommSemiring R]

/-- selector of the value `k` of an extra trailing mode of size `r` (bond `rl`, closed on the right) -/
def sobolSelMode (rl r k : Nat) : Mode R := { rl := rl, rr := 1, n := r, G := fun i _ _ => if i = k then 1 else 0 }

theorem sobol_eyeLast_toMode (r : Nat) :
    (sobolEyeLast (R := R) r).toMode = { rl := r, rr := 1, n := r, G := fun i a _ => if a = i then 1 else 0 } := rfl

/-- closing the running matrix with the selector of `k` against the identity core reads row `k` -/
theorem sobol_dotGo_sel (L : Nat → Nat → R) (rl r k : Nat) (hk : k < r) :
    dotGo L r rl [sobolSelMode rl r k] [(sobolEyeLast (R := R) r).toMode] = ∑ s ∈ range rl, L k s := by
  simp only [dotGo, dotStep, sumTo_eq, sobol_eyeLast_toMode, sobolSelMode, Finset.sum_range_one]
  rw [Finset.sum_eq_single k]
  · rw [Finset.sum_eq_single k]
    · simp
    · intro b' _ hb'; simp [hb']
    · intro hh; exact absurd (Finset.mem_range.mpr hk) hh
  · intro i _ hi; simp [hi]
  · intro hh; exact absurd (Finset.mem_range.mpr hk) hh

/-- entry `k` of the one-mode tensor the trailing branch of `tn.dot` returns for an appended identity core -/
theorem sobol_projLeft_dense (LN : FlatArr R) (rl r k : Nat) (hk : k < r) :
    Tensor.dense [({ core := sobolProjLeftT LN r rl (sobolEyeLast (R := R) r).core, U := (sobolEyeLast (R := R) r).U } : TMode R)] [k]
      = ∑ s ∈ range rl, LN.get (k * rl + s) := by
  simp only [Tensor.dense, Tensor.modes, List.map_cons, List.map_nil, dense, tail, sumTo_eq, sobolEyeLast, sobolProjLeftT,
    TMode.toMode_rl, TMode.toMode_rr, Core.tt_rl, Core.tt_rr, TMode.toMode_G, TMode.decomp_none, Core.tt_get,
    Core.spatial, Core.rr, Finset.sum_range_one, mul_one]
  apply Finset.sum_congr rfl; intro s _
  rw [Finset.sum_eq_single k]
  · simp
  · intro ρ _ hρ; simp [hρ]
  · intro hh; exact absurd (Finset.mem_range.mpr hk) hh

theorem sobol_compat_snoc (ms ms' : List (Mode R)) (x y : Mode R) (hc : compat ms ms') (hn : x.n = y.n) :
    compat (ms ++ [x]) (ms' ++ [y]) := by
  induction ms generalizing ms' with
  | nil => cases ms' with
    | nil => exact ⟨hn, trivial⟩
    | cons _ _ => simp [compat] at hc
  | cons m ms ih => cases ms' with
    | nil => simp [compat] at hc
    | cons m' ms' => exact ⟨hc.1, ih ms' hc.2⟩

theorem sobol_compat_length (ms ms' : List (Mode R)) (hc : compat ms ms') : ms.length = ms'.length := by
  induction ms generalizing ms' with
  | nil => cases ms' with
    | nil => rfl
    | cons _ _ => simp [compat] at hc
  | cons m ms ih => cases ms' with
    | nil => simp [compat] at hc
    | cons m' ms' => simp [ih ms' hc.2]

/-- the chain closed by the selector: `[i = k]` times the chain -/
theorem sobol_tail_snoc_sel (ms : List (Mode R)) (p r k i : Nat) (is : List Nat) (a : Nat) (hw : wf p ms) (ha : a < p)
    (hi : is.length = ms.length) :
    tail (ms ++ [sobolSelMode (outRank p ms) r k]) (is ++ [i]) a = (if i = k then 1 else 0) * tail ms is a := by
  have hw' : wf p (ms ++ [sobolSelMode (R := R) (outRank p ms) r k]) := wf_snoc ms _ p hw rfl
  rw [tail_eq_chainMat _ p _ a hw' ha (by simp [hi]), outRank_snoc]
  simp only [sobolSelMode, Finset.sum_range_one]
  rw [chainMat_snoc ms _ i p is a 0 hw ha (by simp) hi, tail_eq_chainMat ms p is a hw ha hi, Finset.mul_sum]
  apply Finset.sum_congr rfl; intro c _; ring

/-- the chain closed by the identity core: the open-bond entry `i` -/
theorem sobol_tail_snoc_eye (ms : List (Mode R)) (p r i : Nat) (is : List Nat) (a : Nat) (hw : wf p ms) (ha : a < p)
    (hi : is.length = ms.length) (hr : outRank p ms = r) (hir : i < r) :
    tail (ms ++ [(sobolEyeLast (R := R) r).toMode]) (is ++ [i]) a = chainMat ms is a i := by
  have hw' : wf p (ms ++ [(sobolEyeLast (R := R) r).toMode]) := wf_snoc ms _ p hw (by rw [hr]; rfl)
  rw [tail_eq_chainMat _ p _ a hw' ha (by simp [hi]), outRank_snoc]
  simp only [sobol_eyeLast_toMode, Finset.sum_range_one]
  rw [chainMat_snoc ms _ i p is a 0 hw ha (by simp) hi, hr, Finset.sum_eq_single i]
  · simp
  · intro c _ hc; simp [hc]
  · intro hh; exact absurd (Finset.mem_range.mpr hir) hh

end
end TN

namespace TN
variable {R : Type}
section
variable [CommRing R]

/-- **the trailing-dimension branch of `tn.dot` with an appended identity core**: entry `k` of the returned one-mode
    tensor is the inner product of the first tensor with the open-bond entry `k` of the second -/
theorem sobol_dotOpen_dense (ms : List (Mode R)) (ms' : Tensor R) (p p' r k : Nat) (hw : wf p ms) (hw' : wf p' ms'.modes)
    (hc : compat ms ms'.modes) (hr : outRank p' ms'.modes = r) (hk : k < r) :
    Tensor.dense (sobolDotOpenGo (.tab (p' * p) fun _ => 1) p' p ms (ms' ++ [sobolEyeLast r])) [k]
      = boxSum (ms.map (·.n)) (fun idx =>
          (∑ b ∈ range p, tail ms idx b) * (∑ b' ∈ range p', chainMat ms'.modes idx b' k)) := by
  have hlen : ms.length = ms'.length := by
    have := sobol_compat_length _ _ hc; simpa [Tensor.modes] using this
  obtain ⟨LN, e1, e2⟩ := sobol_dotOpenGo_eq ms ms' (sobolEyeLast r) (.tab (p' * p) fun _ => 1) (fun _ _ => 1) p' p hlen hw
    (by intro c' c _; rw [FlatArr.get_tab])
  rw [e1, hr, sobol_projLeft_dense LN (outRank p ms) r k hk]
  rw [Finset.sum_congr rfl (fun s hs => e2 k s (Finset.mem_range.mp hs)), ← sobol_dotGo_sel _ _ r k hk]
  have happ := sobol_dotGo_append ms ms'.modes [sobolSelMode (outRank p ms) r k] [(sobolEyeLast (R := R) r).toMode]
    (fun _ _ => 1) p' p (by simpa [Tensor.modes] using hlen)
  rw [hr] at happ
  rw [← happ]
  have hwa : wf p (ms ++ [sobolSelMode (R := R) (outRank p ms) r k]) := wf_snoc ms _ p hw rfl
  have hwa' : wf p' (ms'.modes ++ [(sobolEyeLast (R := R) r).toMode]) := wf_snoc _ _ p' hw' (by rw [hr]; rfl)
  have hca : compat (ms ++ [sobolSelMode (R := R) (outRank p ms) r k]) (ms'.modes ++ [(sobolEyeLast (R := R) r).toMode]) :=
    sobol_compat_snoc _ _ _ _ hc rfl
  rw [dotGo_spec _ _ _ _ _ hwa hwa' hca]
  have e : ∀ b' ∈ range p', ∀ b ∈ range p,
      (1 : R) * iface (ms ++ [sobolSelMode (R := R) (outRank p ms) r k]) (ms'.modes ++ [(sobolEyeLast (R := R) r).toMode]) b b'
        = boxSum (ms.map (·.n)) (fun idx => tail ms idx b * chainMat ms'.modes idx b' k) := by
    intro b' hb' b hb
    rw [one_mul, ← boxSum_tail_mul _ _ hca, List.map_append, List.map_cons, List.map_nil, boxSum_snoc]
    apply boxSum_congr_len; intro idx hidx
    have hidx' : idx.length = ms.length := by simpa using hidx
    have h1 : ∀ i ∈ range (sobolSelMode (R := R) (outRank p ms) r k).n,
        tail (ms ++ [sobolSelMode (R := R) (outRank p ms) r k]) (idx ++ [i]) b *
          tail (ms'.modes ++ [(sobolEyeLast (R := R) r).toMode]) (idx ++ [i]) b'
        = (if i = k then 1 else 0) * (tail ms idx b * chainMat ms'.modes idx b' i) := by
      intro i hi
      have hir : i < r := Finset.mem_range.mp hi
      rw [sobol_tail_snoc_sel ms p r k i idx b hw (Finset.mem_range.mp hb) hidx',
        sobol_tail_snoc_eye ms'.modes p' r i idx b' hw' (Finset.mem_range.mp hb')
          (by rw [hidx', hlen]; simp [Tensor.modes]) hr hir]
      ring
    rw [Finset.sum_congr rfl h1, Finset.sum_eq_single k]
    · simp
    · intro i _ hi; simp [hi]
    · intro hh; exact absurd (Finset.mem_range.mpr hk) hh
  rw [Finset.sum_congr rfl (fun b' hb' => Finset.sum_congr rfl (fun b hb => e b' hb' b hb))]
  rw [show (fun idx => (∑ b ∈ range p, tail ms idx b) * ∑ b' ∈ range p', chainMat ms'.modes idx b' k)
      = (fun idx => ∑ b' ∈ range p', ∑ b ∈ range p, tail ms idx b * chainMat ms'.modes idx b' k) from by
    funext idx; rw [Finset.sum_mul_sum, Finset.sum_comm]]
  rw [boxSum_sum]
  apply Finset.sum_congr rfl; intro b' _
  rw [boxSum_sum]

end
/-! ### Kronecker chains with an open bond; the trailing rank of `a` -/
section
variable [CommSemiring R]

theorem sobol_divmod_eq (a b q : Nat) : (a = b) ↔ (a / q = b / q ∧ a % q = b % q) := by
  constructor
  · intro h; subst h; exact ⟨rfl, rfl⟩
  · intro ⟨h1, h2⟩
    rw [← Nat.div_add_mod a q, ← Nat.div_add_mod b q, h1, h2]

/-- slice-wise Kronecker chains with an open trailing bond multiply -/
theorem sobol_chainMat_mul (xs ys : List (Mode R)) :
    ∀ (is : List Nat) (p q : Nat), wf p xs → wf q ys → compat xs ys → ∀ a b,
    chainMat (mulT xs ys) is a b
      = chainMat xs is (a / q) (b / outRank q ys) * chainMat ys is (a % q) (b % outRank q ys) := by
  induction xs generalizing ys with
  | nil =>
    intro is p q _ _ hc a b
    cases ys with
    | nil =>
      simp only [mulT, List.zipWith_nil_left, chainMat, outRank]
      by_cases h : a = b
      · subst h; simp
      · have := (sobol_divmod_eq a b q).not.mp h
        by_cases h1 : a / q = b / q
        · have h2 : ¬ a % q = b % q := fun h2 => this ⟨h1, h2⟩
          simp [h, h1, h2]
        · simp [h, h1]
    | cons y ys => simp [compat] at hc
  | cons x xs ih =>
    intro is p q hx hy hc a b
    cases ys with
    | nil => simp [compat] at hc
    | cons y ys =>
      obtain ⟨hxl, hxw⟩ := hx
      obtain ⟨hyl, hyw⟩ := hy
      obtain ⟨_, hc'⟩ := hc
      cases is with
      | nil => simp [mulT, chainMat]
      | cons i is =>
        have ih' := ih ys is x.rr y.rr hxw hyw hc'
        simp only [mulT, List.zipWith_cons_cons, chainMat, outRank] at ih' ⊢
        simp only [Mode.kron, ih']
        subst hyl
        rw [sum_range_mul x.rr y.rr (fun c1 c2 => x.G i (a / y.rl) c1 * y.G i (a % y.rl) c2 *
          (chainMat xs is c1 (b / outRank y.rr ys) * chainMat ys is c2 (b % outRank y.rr ys)))]
        rw [Finset.sum_mul_sum]
        apply Finset.sum_congr rfl; intro c1 _
        apply Finset.sum_congr rfl; intro c2 _
        ring

theorem sobol_outRank_mul (xs : List (Mode R)) : ∀ (ys : List (Mode R)) (p q : Nat), compat xs ys →
    outRank (p * q) (mulT xs ys) = outRank p xs * outRank q ys := by
  induction xs with
  | nil => intro ys p q hc; cases ys with
    | nil => rfl
    | cons _ _ => simp [compat] at hc
  | cons x xs ih => intro ys p q hc; cases ys with
    | nil => simp [compat] at hc
    | cons y ys =>
      simp only [mulT, List.zipWith_cons_cons, outRank]
      exact ih ys x.rr y.rr hc.2

end
end TN

namespace TN
variable {R : Type}
section
variable [CommSemiring R]

/-! ### `tn.mask` on a mask with an open trailing bond -/
theorem sobol_chainMat_maskSel (mk : Tensor R) : ∀ (shs is : List Nat) (a b : Nat), shs.length = mk.length →
    is.length = mk.length →
    chainMat (Tensor.sobolMaskSel shs mk).modes is a b = chainMat mk.modes (sobolClampL mk.shape is) a b := by
  induction mk with
  | nil => intro shs is a b _ _; cases shs <;> rfl
  | cons m ms ih =>
    intro shs is a b hs hi
    cases shs with
    | nil => simp at hs
    | cons sh shs =>
      cases is with
      | nil => simp at hi
      | cons i is =>
        have ih' := fun c => ih shs is c b (by simpa using hs) (by simpa using hi)
        simp only [Tensor.modes, Tensor.shape] at ih'
        simp only [Tensor.sobolMaskSel, Tensor.modes, List.map_cons, Tensor.shape, sobolClampL, chainMat, TMode.toMode_rr,
          sobol_gather_rr, sobol_gather_G, ih']

theorem sobol_outRank_maskSel (mk : Tensor R) : ∀ (shs : List Nat) (p : Nat), shs.length = mk.length →
    outRank p (Tensor.sobolMaskSel shs mk).modes = outRank p mk.modes := by
  induction mk with
  | nil => intro shs p _; cases shs <;> rfl
  | cons m ms ih =>
    intro shs p hs
    cases shs with
    | nil => simp at hs
    | cons sh shs =>
      simp only [Tensor.sobolMaskSel, Tensor.modes, List.map_cons, outRank, TMode.toMode_rr, sobol_gather_rr]
      exact ih shs _ (by simpa using hs)

theorem sobol_outRank_wrowsAll (t : Tensor R) : ∀ (ws : List (Nat → R)) (p : Nat), ws.length = t.length →
    outRank p (sobolWrowsAll ws t).modes = outRank p t.modes := by
  induction t with
  | nil => intro ws p _; cases ws <;> rfl
  | cons m ms ih =>
    intro ws p hw
    cases ws with
    | nil => simp at hw
    | cons w ws =>
      simp only [sobolWrowsAll, Tensor.modes, List.map_cons, outRank, TMode.toMode_rr, sobol_wrows_rr]
      exact ih ws _ (by simpa using hw)

/-! ### the trailing rank of a sum whose second operand has 3-D cores and no factors is 1 -/
theorem sobol_collapseLast_rr : ∀ (l : Tensor R), l ≠ [] → (∀ m ∈ l, m.core.isCP = false) →
    ∃ m, (Tensor.collapseLast l).getLast? = some m ∧ m.core.rr = 1 := by
  intro l
  induction l with
  | nil => intro h; exact absurd rfl h
  | cons x xs ih =>
    intro _ hcp
    cases xs with
    | nil =>
      have hx := hcp x (by simp)
      refine ⟨{ x with core := x.core.sumR }, rfl, ?_⟩
      cases hc : x.core with
      | tt r0 s r1 f => rfl
      | cp s r f => rw [hc] at hx; simp [Core.isCP] at hx
    | cons y ys =>
      obtain ⟨m, h1, h2⟩ := ih (by simp) (fun m hm => hcp m (by simp [hm]))
      exact ⟨m, by simp only [Tensor.collapseLast] at h1 ⊢; exact sobol_getLast?_cons _ _ _ h1, h2⟩

theorem sobol_addMode_notCP (x y : TMode R) (hy : y.U = Option.none ∧ y.core.isCP = false) :
    (addMode x y).core.isCP = false := by
  obtain ⟨cx, Ux⟩ := x
  obtain ⟨cy, Uy⟩ := y
  simp only at hy
  obtain ⟨h1, h2⟩ := hy
  subst h1
  cases cy with
  | cp s r f => simp [Core.isCP] at h2
  | tt r0 s r1 f => cases Ux <;> simp [addMode, addPlain, Core.isCP]

theorem sobol_zipWith_addMode_notCP : ∀ (t u : Tensor R), (∀ m ∈ u, m.U = Option.none ∧ m.core.isCP = false) →
    ∀ m ∈ List.zipWith addMode t u, m.core.isCP = false := by
  intro t
  induction t with
  | nil => intro u _ m hm; simp at hm
  | cons x xs ih =>
    intro u hu m hm
    cases u with
    | nil => simp at hm
    | cons y ys =>
      simp only [List.zipWith_cons_cons, List.mem_cons] at hm
      rcases hm with rfl | hm
      · exact sobol_addMode_notCP x y (hu y (by simp))
      · exact ih ys (fun m hm => hu m (by simp [hm])) m hm

theorem sobol_collapseFirst_notCP (l : Tensor R) (h : ∀ m ∈ l, m.core.isCP = false) :
    ∀ m ∈ Tensor.collapseFirst l, m.core.isCP = false := by
  cases l with
  | nil => intro m hm; simp [Tensor.collapseFirst] at hm
  | cons x xs =>
    intro m hm
    simp only [Tensor.collapseFirst, List.mem_cons] at hm
    rcases hm with rfl | hm
    · have hx := h x (by simp)
      cases hc : x.core with
      | tt r0 s r1 f => rfl
      | cp s r f => rw [hc] at hx; simp [Core.isCP] at hx
    · exact h m (by simp [hm])

/-- `t + u` ends in a bond of size 1 when `u` consists of 3-D cores without factors (as the empty-term tensor of `sobol`) -/
theorem sobol_add_last_rr (t u : Tensor R) (hs : t.shape = u.shape) (hne : t ≠ [])
    (hu : ∀ m ∈ u, m.U = Option.none ∧ m.core.isCP = false) :
    ∃ m, (t.add u).getLast? = some m ∧ m.core.rr = 1 := by
  unfold Tensor.add broadcast
  rw [if_pos hs]
  simp only
  apply sobol_collapseLast_rr
  · have hl : t.length = u.length := by simpa [shape_length] using congrArg List.length hs
    cases t with
    | nil => exact absurd rfl hne
    | cons x xs =>
      cases u with
      | nil => simp at hl
      | cons y ys => simp [Tensor.collapseFirst]
  · exact sobol_collapseFirst_notCP _ (sobol_zipWith_addMode_notCP t u hu)

theorem sobol_scale_plain (c : R) (m : TMode R) (h : m.U = Option.none ∧ m.core.isCP = false) :
    (m.scale c).U = Option.none ∧ (m.scale c).core.isCP = false := by
  obtain ⟨k, U⟩ := m
  obtain ⟨h1, h2⟩ := h
  refine ⟨h1, ?_⟩
  cases k with
  | tt r0 s r1 f => rfl
  | cp s r f => simp [Core.isCP] at h2

theorem sobol_scalarMul_plain (ρ sgn : R) (t : Tensor R) (h : ∀ m ∈ t, m.U = Option.none ∧ m.core.isCP = false) :
    ∀ m ∈ t.scalarMul ρ sgn, m.U = Option.none ∧ m.core.isCP = false := by
  cases t with
  | nil => intro m hm; simp [Tensor.scalarMul] at hm
  | cons x xs =>
    intro m hm
    simp only [Tensor.scalarMul, List.mem_cons, List.mem_map] at hm
    rcases hm with rfl | ⟨y, hy, rfl⟩
    · exact sobol_scale_plain _ _ (sobol_scale_plain _ _ (h x (by simp)))
    · exact sobol_scale_plain _ _ (h y (by simp [hy]))

theorem sobol_emptyT_plain (shape : List Nat) : ∀ m ∈ sobolEmptyT (R := R) shape, m.U = Option.none ∧ m.core.isCP = false := by
  intro m hm
  simp only [sobolEmptyT, List.mem_map] at hm
  obtain ⟨s, _, rfl⟩ := hm
  exact ⟨rfl, rfl⟩

end
/-! ### `weight_one_hot` -/
section
variable [CommSemiring R]

theorem sobol_shift_spec (r : Nat) : ∀ rest : List Nat,
    Tensor.WFfrom r (rest.map (shiftCore (R := R) r)) ∧ Tensor.shape (rest.map (shiftCore (R := R) r)) = rest ∧
      outRank r (Tensor.modes (rest.map (shiftCore (R := R) r))) = r ∧
      ∀ m, (rest.map (shiftCore (R := R) r)).getLast? = some m → m.core.isCP = false ∧ m.core.rr = r := by
  intro rest
  induction rest with
  | nil => exact ⟨trivial, rfl, rfl, by intro m h; simp at h⟩
  | cons x xs ih =>
    obtain ⟨i1, i2, i3, i4⟩ := ih
    refine ⟨⟨rfl, trivial, i1⟩, ?_, ?_, ?_⟩
    · simp only [List.map_cons, Tensor.shape] at i2 ⊢
      rw [i2]; rfl
    · simp only [List.map_cons, Tensor.modes, outRank] at i3 ⊢
      exact i3
    · intro m hm
      cases xs with
      | nil => simp only [List.map_cons, List.map_nil, List.getLast?_singleton, Option.some.injEq] at hm; subst hm; exact ⟨rfl, rfl⟩
      | cons y ys =>
        simp only [List.map_cons] at hm i4
        rw [List.getLast?_cons_cons] at hm
        exact i4 m hm

/-- `tn.weight_one_hot(N, r, nsymbols)`: well-formed, shape `nsymbols`, trailing bond of size `r`, open iff `r > 1` -/
theorem sobol_weightOneHot_spec (r : Nat) (nss : List Nat) (hne : nss ≠ []) :
    (weightOneHot (R := R) r nss).WF ∧ (weightOneHot (R := R) r nss).shape = nss ∧
      outRank 1 (weightOneHot (R := R) r nss).modes = r ∧
      (1 < r → (weightOneHot (R := R) r nss).sobolOpenBond = true) := by
  cases nss with
  | nil => exact absurd rfl hne
  | cons ns rest =>
    obtain ⟨i1, i2, i3, i4⟩ := sobol_shift_spec (R := R) r rest
    refine ⟨⟨rfl, trivial, i1⟩, ?_, ?_, ?_⟩
    · simp only [weightOneHot, Tensor.shape, List.map_cons] at i2 ⊢
      rw [i2]; rfl
    · simp only [weightOneHot, Tensor.modes, List.map_cons, outRank] at i3 ⊢
      exact i3
    · intro hr
      simp only [weightOneHot, Tensor.sobolOpenBond]
      cases hrest : rest.map (shiftCore (R := R) r) with
      | nil => simp [Core.isCP, hr]
      | cons y ys =>
        rw [hrest] at i4
        rw [List.getLast?_cons_cons]
        cases hl : (y :: ys).getLast? with
        | none => simp at hl
        | some m =>
          obtain ⟨h1, h2⟩ := i4 m hl
          simp [h1, h2, hr]

end
/-! ### the one-mode tensor `sobol` computes for a mask with an open bond -/
section
variable [CommRing R]

theorem sobol_outRank_lastRR (m : TMode R) (ms : Tensor R) (p : Nat) :
    outRank p (Tensor.modes (m :: ms)) = sobolLastRR (m :: ms) := by
  induction ms generalizing m p with
  | nil => rfl
  | cons x xs ih =>
    have := ih x m.core.rr
    simp only [Tensor.modes, List.map_cons, outRank, sobolLastRR] at this ⊢
    rw [this]
    simp [List.getLast?_cons_cons]

/-- the value a tensor with an open trailing bond takes at index `idx`, position `k` of the bond
    (leading bond summed, as `Tensor.torch()` does) -/
def sobolOpenVal (mk : Tensor R) (idx : List Nat) (k : Nat) : R :=
  match mk with
  | [] => 0
  | m :: _ => ∑ b ∈ range m.core.rl, chainMat mk.modes idx b k

theorem sobol_mul_eq_zip (am mk : Tensor R) (h2 : am.shape = mk.shape) : am.mul mk = List.zipWith mulMode am mk := by
  unfold Tensor.mul; rw [broadcast_of_eq am mk h2]

/-- **`tn.dot(a, tn.mask-product ++ identity core)`**: entry `k` of the one-mode result -/
theorem sobol_dotOpen_mul (a am mk : Tensor R) (ha : a.WF) (hm : am.WF) (hk : mk.WF) (h1 : a.shape = am.shape)
    (h2 : am.shape = mk.shape) (hmw : (am.mul mk).WF) (hms : (am.mul mk).shape = am.shape)
    (hra : sobolLastRR am = 1) (k : Nat) (hkr : k < sobolLastRR mk) :
    (a.sobolDotOpen (am.mul mk ++ [sobolEyeLast (sobolLastRR (am.mul mk))])).dense [k]
      = boxSum a.shape (fun idx => a.dense idx * (am.dense idx * sobolOpenVal mk idx k)) := by
  cases a with
  | nil => exact absurd ha (by simp [Tensor.WF])
  | cons x xs =>
  cases am with
  | nil => exact absurd hm (by simp [Tensor.WF])
  | cons y ys =>
  cases mk with
  | nil => exact absurd hk (by simp [Tensor.WF])
  | cons z zs =>
  have hzok := Tensor.WFfrom_ok _ _ hk
  have hzip := sobol_mul_eq_zip (y :: ys) (z :: zs) h2
  rw [hzip] at hmw hms ⊢
  simp only [List.zipWith_cons_cons] at hmw hms ⊢
  have hmodes : Tensor.modes (mulMode y z :: List.zipWith mulMode ys zs) = mulT (Tensor.modes (y :: ys)) (Tensor.modes (z :: zs)) := by
    have := modes_zipWith_mulMode (y :: ys) (z :: zs) hzok
    simpa using this
  have hcM : compat (Tensor.modes (y :: ys)) (Tensor.modes (z :: zs)) := compat_modes _ _ h2
  have hrl : (mulMode y z).core.rl = y.core.rl * z.core.rl := mulMode_rl y z (hzok z (by simp))
  have hr : outRank (mulMode y z).core.rl (Tensor.modes (mulMode y z :: List.zipWith mulMode ys zs)) = sobolLastRR (z :: zs) := by
    rw [hmodes, hrl, sobol_outRank_mul _ _ _ _ hcM, sobol_outRank_lastRR, sobol_outRank_lastRR, hra, one_mul]
  have hlast : sobolLastRR (mulMode y z :: List.zipWith mulMode ys zs) = sobolLastRR (z :: zs) := by
    rw [← sobol_outRank_lastRR _ _ (mulMode y z).core.rl]; exact hr
  rw [hlast]
  have hcA : compat (Tensor.modes (x :: xs)) (Tensor.modes (mulMode y z :: List.zipWith mulMode ys zs)) :=
    compat_modes _ _ (by rw [hms, h1])
  have key := sobol_dotOpen_dense (Tensor.modes (x :: xs)) (mulMode y z :: List.zipWith mulMode ys zs) x.core.rl
    (mulMode y z).core.rl (sobolLastRR (z :: zs)) k (wf_modes _ _ ha) (wf_modes _ _ hmw) hcA hr hkr
  have hunf : Tensor.sobolDotOpen (x :: xs) ((mulMode y z :: List.zipWith mulMode ys zs) ++ [sobolEyeLast (sobolLastRR (z :: zs))])
      = sobolDotOpenGo (.tab ((mulMode y z).core.rl * x.core.rl) fun _ => 1) (mulMode y z).core.rl x.core.rl
          (Tensor.modes (x :: xs)) ((mulMode y z :: List.zipWith mulMode ys zs) ++ [sobolEyeLast (sobolLastRR (z :: zs))]) := rfl
  rw [hunf, key]
  have hsh : (Tensor.modes (x :: xs)).map (·.n) = Tensor.shape (x :: xs) := by
    simp [Tensor.shape, Tensor.modes, List.map_map, Function.comp_def]
  rw [hsh]
  apply boxSum_congr_in; intro idx hidx
  have hil : idx.length = (y :: ys).length := by
    have := inShape_length idx _ hidx
    rw [h1, shape_length] at this; exact this
  have eA : (∑ b ∈ range x.core.rl, tail (Tensor.modes (x :: xs)) idx b) = Tensor.dense (x :: xs) idx := by
    simp [Tensor.dense, dense, Tensor.modes, sumTo_eq]
  rw [eA]
  congr 1
  rw [hmodes, hrl]
  have e : ∀ b' ∈ range (y.core.rl * z.core.rl),
      chainMat (mulT (Tensor.modes (y :: ys)) (Tensor.modes (z :: zs))) idx b' k
        = chainMat (Tensor.modes (y :: ys)) idx (b' / z.core.rl) 0 * chainMat (Tensor.modes (z :: zs)) idx (b' % z.core.rl) k := by
    intro b' _
    rw [sobol_chainMat_mul _ _ idx y.core.rl z.core.rl (wf_modes _ _ hm) (wf_modes _ _ hk) hcM,
      sobol_outRank_lastRR, Nat.div_eq_of_lt hkr, Nat.mod_eq_of_lt hkr]
  rw [Finset.sum_congr rfl e,
    sum_range_mul y.core.rl z.core.rl (fun b1 b2 => chainMat (Tensor.modes (y :: ys)) idx b1 0 * chainMat (Tensor.modes (z :: zs)) idx b2 k),
    ← Finset.sum_mul_sum]
  congr 1
  simp only [Tensor.dense, dense, Tensor.modes, List.map_cons, sumTo_eq, TMode.toMode_rl]
  apply Finset.sum_congr rfl; intro b hb
  have := tail_eq_chainMat (Tensor.modes (y :: ys)) y.core.rl idx b (wf_modes _ _ hm) (Finset.mem_range.mp hb)
    (by simpa [Tensor.modes] using hil)
  rw [sobol_outRank_lastRR, hra, Finset.sum_range_one] at this
  simpa [Tensor.modes] using this.symm

end
section
variable [CommRing R]

theorem sobol_openVal_maskSel (mk : Tensor R) (shs idx : List Nat) (k : Nat) (hs : shs.length = mk.length)
    (hi : idx.length = mk.length) :
    sobolOpenVal (Tensor.sobolMaskSel shs mk) idx k = sobolOpenVal mk (sobolClampL mk.shape idx) k := by
  cases mk with
  | nil => cases shs <;> rfl
  | cons m ms =>
    cases shs with
    | nil => simp at hs
    | cons sh shs =>
      have h := fun b => sobol_chainMat_maskSel (m :: ms) (sh :: shs) idx b k hs hi
      simp only [Tensor.sobolMaskSel] at h
      simp only [sobolOpenVal, Tensor.sobolMaskSel, sobol_gather_rl, h]

theorem sobol_lastRR_maskSel (mk : Tensor R) (shs : List Nat) (hs : shs.length = mk.length) (hne : mk ≠ []) :
    sobolLastRR (Tensor.sobolMaskSel shs mk) = sobolLastRR mk := by
  cases mk with
  | nil => exact absurd rfl hne
  | cons m ms =>
    cases shs with
    | nil => simp at hs
    | cons sh shs =>
      have := sobol_outRank_maskSel (m :: ms) (sh :: shs) 1 hs
      simp only [Tensor.sobolMaskSel] at this ⊢
      rw [← sobol_outRank_lastRR _ _ 1, ← sobol_outRank_lastRR _ _ 1]
      exact this

theorem sobol_lastRR_wrowsAll (t : Tensor R) (ws : List (Nat → R)) (hw : ws.length = t.length) (hne : t ≠ []) :
    sobolLastRR (sobolWrowsAll ws t) = sobolLastRR t := by
  cases t with
  | nil => exact absurd rfl hne
  | cons m ms =>
    cases ws with
    | nil => simp at hw
    | cons w ws =>
      have := sobol_outRank_wrowsAll (m :: ms) (w :: ws) 1 hw
      simp only [sobolWrowsAll] at this ⊢
      rw [← sobol_outRank_lastRR _ _ 1, ← sobol_outRank_lastRR _ _ 1]
      exact this

theorem sobol_openBond_lastRR (mk : Tensor R) (h : mk.sobolOpenBond = true) : 1 < sobolLastRR mk := by
  unfold Tensor.sobolOpenBond at h
  unfold sobolLastRR
  cases hl : mk.getLast? with
  | none => rw [hl] at h; simp at h
  | some m => rw [hl] at h; simp at h; exact h.2


/-- the trailing branch of `tn.dot` with one appended identity core returns a single 3-D core without factor whose
    spatial size is the size of the identity -/
theorem sobol_dotOpen_form (a amm : Tensor R) (r : Nat) (ha : a.WF) (hlen : a.length = amm.length) :
    ∃ c : Core R, a.sobolDotOpen (amm ++ [sobolEyeLast r]) = [{ core := c, U := Option.none }] ∧ c.spatial = r := by
  cases a with
  | nil => exact absurd ha (by simp [Tensor.WF])
  | cons x xs =>
    cases amm with
    | nil => simp at hlen
    | cons y ys =>
      obtain ⟨LN, e1, _⟩ := sobol_dotOpenGo_eq (Tensor.modes (x :: xs)) (y :: ys) (sobolEyeLast r)
        (.tab (y.core.rl * x.core.rl) fun _ => 1) (fun _ _ => 1) y.core.rl x.core.rl (by simpa [Tensor.modes] using hlen)
        (wf_modes _ _ ha) (by intro c' c _; rw [FlatArr.get_tab])
      exact ⟨_, e1, rfl⟩

end
end TN
