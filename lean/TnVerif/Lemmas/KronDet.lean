import TnVerif.Lemmas.TTMatMul
import Mathlib.LinearAlgebra.Matrix.Kronecker
import Mathlib.LinearAlgebra.Matrix.NonsingularInverse
/-! N-fold Kronecker products of square blocks (Mathlib's `⊗ₖ`, right-nested) and the determinant loop of
    `TTMatrix.determinant`. -/
namespace TN
open Matrix
open scoped Kronecker

/-- row / column index type of the Kronecker product of blocks of sizes `ns` -/
def KIdx : List Nat → Type
  | [] => Unit
  | n :: ns => Fin n × KIdx ns

instance instFintypeKIdx : (ns : List Nat) → Fintype (KIdx ns)
  | [] => inferInstanceAs (Fintype Unit)
  | n :: ns => have := instFintypeKIdx ns; inferInstanceAs (Fintype (Fin n × KIdx ns))

instance instDecEqKIdx : (ns : List Nat) → DecidableEq (KIdx ns)
  | [] => inferInstanceAs (DecidableEq Unit)
  | n :: ns => have := instDecEqKIdx ns; inferInstanceAs (DecidableEq (Fin n × KIdx ns))

theorem card_KIdx (ns : List Nat) : Fintype.card (KIdx ns) = ns.prod := by
  induction ns with
  | nil => rfl
  | cons n ns ih =>
    show Fintype.card (Fin n × KIdx ns) = _
    rw [Fintype.card_prod, Fintype.card_fin, ih, List.prod_cons]

variable {K : Type} [CommRing K]

/-- a tuple of square blocks of sizes `ns` -/
def Blocks (K : Type) : List Nat → Type
  | [] => Unit
  | n :: ns => Matrix (Fin n) (Fin n) K × Blocks K ns

/-- `A_0 ⊗ (A_1 ⊗ (… ⊗ A_{d-1}))` : the dense matrix of an all-ranks-1 TT matrix -/
def kronAll : (ns : List Nat) → Blocks K ns → Matrix (KIdx ns) (KIdx ns) K
  | [], _ => 1
  | _ :: ns, (A, rest) => A ⊗ₖ kronAll ns rest

/-- block sizes and block determinants (`torch.linalg.det(cores[k][0, :, :, 0])`) in order -/
noncomputable def blockDets : (ns : List Nat) → Blocks K ns → List (Nat × K)
  | [], _ => []
  | n :: ns, (A, rest) => (n, det A) :: blockDets ns rest

theorem blockDets_fst (ns : List Nat) (bs : Blocks K ns) : (blockDets ns bs).map (·.1) = ns := by
  induction ns with
  | nil => rfl
  | cons n ns ih => obtain ⟨A, rest⟩ := bs; simp [blockDets, ih rest]

theorem powNat_eq (x : K) (n : Nat) : powNat x n = x ^ n := by
  induction n with
  | zero => simp [powNat]
  | succ n ih => simp [powNat, ih, pow_succ]

theorem foldl_mul_pow (rows : Nat) (l : List (Nat × K)) (acc : K) :
    l.foldl (fun det b => det * powNat b.2 (rows / b.1)) acc = acc * (l.map fun b => b.2 ^ (rows / b.1)).prod := by
  induction l generalizing acc with
  | nil => simp
  | cons b l ih =>
    simp only [List.foldl_cons, List.map_cons, List.prod_cons]
    rw [ih, powNat_eq]; ring

/-- the product of block powers with exponents `(t · rows) / n_k` is the `t`-th power of the determinant of
    the Kronecker product -/
theorem prod_blockDets (ns : List Nat) : ∀ (bs : Blocks K ns) (t : Nat),
    ((blockDets ns bs).map fun b => b.2 ^ ((t * ns.prod) / b.1)).prod = det (kronAll ns bs) ^ t := by
  induction ns with
  | nil => intro _ t; simp [blockDets, kronAll]
  | cons n ns ih =>
    intro bs t
    obtain ⟨A, rest⟩ := bs
    have hdet : det (kronAll (n :: ns) (A, rest)) = det A ^ ns.prod * det (kronAll ns rest) ^ n := by
      show det (A ⊗ₖ kronAll ns rest) = _
      rw [det_kronecker, card_KIdx, Fintype.card_fin]
    rw [hdet]
    simp only [blockDets, List.map_cons, List.prod_cons]
    rcases Nat.eq_zero_or_pos n with h0 | hpos
    · subst h0
      have hA : det A = 1 := det_isEmpty
      simp [hA]
    · have e1 : t * (n * ns.prod) / n = t * ns.prod := by
        rw [Nat.mul_left_comm, Nat.mul_div_cancel_left _ hpos]
      have e2 : t * (n * ns.prod) = (t * n) * ns.prod := by rw [Nat.mul_assoc]
      rw [e1, e2, ih rest (t * n), mul_pow, ← pow_mul, ← pow_mul, Nat.mul_comm ns.prod t, Nat.mul_comm n t]

/-- apply a per-block operation (`torch.linalg.inv`, `torch.linalg.cholesky`) to every block -/
def Blocks.map (g : (n : Nat) → Matrix (Fin n) (Fin n) K → Matrix (Fin n) (Fin n) K) :
    (ns : List Nat) → Blocks K ns → Blocks K ns
  | [], _ => ()
  | n :: ns, (A, rest) => (g n A, Blocks.map g ns rest)

/-- every block of `Ls` is a Cholesky-type factor of the corresponding block of `As`: `L_k L_kᵀ = A_k` -/
def Blocks.cholRel : (ns : List Nat) → Blocks K ns → Blocks K ns → Prop
  | [], _, _ => True
  | _ :: ns, (L, Ls), (A, As) => L * Lᵀ = A ∧ Blocks.cholRel ns Ls As

theorem kronAll_inv (ns : List Nat) : ∀ bs : Blocks K ns,
    (kronAll ns bs)⁻¹ = kronAll ns (Blocks.map (fun _ A => A⁻¹) ns bs) := by
  induction ns with
  | nil => intro _; show (1 : Matrix Unit Unit K)⁻¹ = 1; exact inv_one
  | cons n ns ih =>
    intro bs
    obtain ⟨A, rest⟩ := bs
    show (A ⊗ₖ kronAll ns rest)⁻¹ = A⁻¹ ⊗ₖ kronAll ns (Blocks.map (fun _ A => A⁻¹) ns rest)
    rw [inv_kronecker, ih rest]

theorem kronAll_chol (ns : List Nat) : ∀ (Ls As : Blocks K ns), Blocks.cholRel ns Ls As →
    kronAll ns Ls * (kronAll ns Ls)ᵀ = kronAll ns As := by
  induction ns with
  | nil => intro _ _ _; show (1 : Matrix Unit Unit K) * (1 : Matrix Unit Unit K)ᵀ = 1; simp
  | cons n ns ih =>
    intro Ls As h
    obtain ⟨L, Ls⟩ := Ls
    obtain ⟨A, As⟩ := As
    obtain ⟨h1, h2⟩ := h
    show (L ⊗ₖ kronAll ns Ls) * (L ⊗ₖ kronAll ns Ls)ᵀ = A ⊗ₖ kronAll ns As
    rw [← h1, ← ih Ls As h2, mul_kronecker_mul, kroneckerMap_transpose]

/-! ### the Kronecker product is the decompression of the all-ranks-1 TT matrix -/

/-- the multi-index a Kronecker row / column index stands for -/
def KIdx.toList : (ns : List Nat) → KIdx ns → List Nat
  | [], _ => []
  | _ :: ns, (i, rest) => i.val :: KIdx.toList ns rest

/-- the blocks `cores[k][0, :, :, 0]` of a TT matrix, as `input_dims[k] × input_dims[k]` matrices -/
def blocksOf : (m : TTMat K) → Blocks K (TTMat.inDims m)
  | [] => ()
  | c :: cs => ((Matrix.of fun (i j : Fin c.inD) => c.f 0 i.val j.val 0), blocksOf cs)

theorem kronAll_blocksOf (m : TTMat K) (h : ∀ c ∈ m, c.rl = 1 ∧ c.rr = 1 ∧ c.inD = c.outD) :
    ∀ (I J : KIdx (TTMat.inDims m)),
      kronAll (TTMat.inDims m) (blocksOf m) I J = mtail m (KIdx.toList _ I) (KIdx.toList _ J) 0 := by
  induction m with
  | nil =>
    intro I J
    rw [mtail_nil]
    show (1 : Matrix Unit Unit K) I J = 1
    exact Matrix.one_apply_eq _
  | cons c cs ih =>
    intro I J
    obtain ⟨i, I'⟩ := I
    obtain ⟨j, J'⟩ := J
    obtain ⟨_, hrr, hsq⟩ := h c List.mem_cons_self
    have ih' := ih (fun c' hc' => h c' (List.mem_cons_of_mem _ hc')) I' J'
    have hj : j.val < c.outD := by rw [← hsq]; exact j.isLt
    show (Matrix.of fun (i j : Fin c.inD) => c.f 0 i.val j.val 0) i j * kronAll (TTMat.inDims cs) (blocksOf cs) I' J'
      = mtail (c :: cs) (i.val :: KIdx.toList _ I') (j.val :: KIdx.toList _ J') 0
    rw [mtail_cons c cs _ _ _ _ 0 hj, hrr, ih']
    simp only [Finset.sum_range_one, Matrix.of_apply]
    rfl

end TN
