import TnVerif.Lemmas.Format
/-! `_full_rank_tt` reproduces the array it is given (C01, lossless round-trip). -/
set_option linter.unusedSectionVars false
set_option linter.unusedSimpArgs false
open Finset
namespace TN
variable {R : Type} [CommSemiring R]

theorem flat_lt (is ss : List Nat) (h : inShape is ss) : flat is ss < ss.prod := by
  induction is generalizing ss with
  | nil => cases ss with
    | nil => simp [flat]
    | cons _ _ => simp [inShape] at h
  | cons i is ih =>
    cases ss with
    | nil => simp [inShape] at h
    | cons s ss =>
      obtain ⟨h1, h2⟩ := h
      have := ih ss h2
      simp only [flat, List.prod_cons]
      calc i * ss.prod + flat is ss < i * ss.prod + ss.prod := by omega
        _ = (i + 1) * ss.prod := by ring
        _ ≤ s * ss.prod := Nat.mul_le_mul_right _ h1

theorem fullRankLoop_head_rl (sPrev : Nat) (st : Resh R) (rest : List Nat) :
    ((Tensor.modes (fullRankLoop sPrev st rest)).head?.map (·.rl)) = some (st.rows / sPrev) := by
  cases rest with
  | nil => simp [fullRankLoop, Tensor.modes]
  | cons s rest => simp only [fullRankLoop]; split <;> simp [Tensor.modes]

/-- loop invariant: the chain emitted from a state evaluates to the state's running matrix -/
theorem tail_fullRankLoop (rest : List Nat) : ∀ (sPrev ρ : Nat) (st : Resh R) (i : Nat) (is : List Nat) (α : Nat),
    st.rows = ρ * sPrev → st.cols = rest.prod → i < sPrev → α < ρ → inShape is rest →
    tail (Tensor.modes (fullRankLoop sPrev st rest)) (i :: is) α = st.M (α * sPrev + i) (flat is rest) := by
  induction rest with
  | nil =>
    intro sPrev ρ st i is α hr hc hi hα his
    cases is with
    | nil => simp [fullRankLoop, Tensor.modes, tail, sumTo_eq, TMode.toMode_G, flat]
    | cons _ _ => simp [inShape] at his
  | cons s rest ih =>
    intro sPrev ρ st i is α hr hc hi hα his
    cases is with
    | nil => simp [inShape] at his
    | cons j is =>
      obtain ⟨hj, his'⟩ := his
      have hs : 0 < s := by omega
      have hcols' : st.cols / s = rest.prod := by
        rw [hc, List.prod_cons, Nat.mul_div_cancel_left _ hs]
      have hαi : α * sPrev + i < st.rows := by
        rw [hr]
        calc α * sPrev + i < α * sPrev + sPrev := by omega
          _ = (α + 1) * sPrev := by ring
          _ ≤ ρ * sPrev := Nat.mul_le_mul_right _ hα
      have hdm : ∀ β, (β * s + j) / s = β ∧ (β * s + j) % s = j := by
        intro β
        constructor
        · rw [Nat.mul_comm, Nat.mul_add_div hs, Nat.div_eq_of_lt hj]; simp
        · rw [Nat.mul_comm, Nat.mul_add_mod, Nat.mod_eq_of_lt hj]
      have hflat : flat (j :: is) (s :: rest) = j * rest.prod + flat is rest := rfl
      simp only [fullRankLoop]
      split
      · -- identity core, next mode folded into the rows
        rename_i hlt
        simp only [Tensor.modes, List.map_cons, tail, sumTo_eq, TMode.toMode_G, TMode.toMode_rr, TMode.decomp_none,
          Core.tt_get, Core.tt_rr]
        rw [Finset.sum_eq_single (α * sPrev + i)]
        · simp only [if_true, one_mul]
          have := ih s st.rows (st.fold s) j is (α * sPrev + i) rfl hcols' hj hαi his'
          simp only [Tensor.modes] at this
          rw [this]
          simp only [Resh.fold, (hdm _).1, (hdm _).2, hcols', hflat]
        · intro b _ hne; simp [Ne.symm hne]
        · intro h; exact absurd (Finset.mem_range.mpr hαi) h
      · -- the matrix itself is the core, continue with an identity
        simp only [Tensor.modes, List.map_cons, tail, sumTo_eq, TMode.toMode_G, TMode.toMode_rr, TMode.decomp_none,
          Core.tt_get, Core.tt_rr]
        have hF : flat (j :: is) (s :: rest) < st.cols := by
          rw [hc]; exact flat_lt (j :: is) (s :: rest) ⟨hj, his'⟩
        rw [Finset.sum_eq_single (flat (j :: is) (s :: rest))]
        · have := ih s st.cols (st.eyeFold s) j is (flat (j :: is) (s :: rest)) rfl hcols' hj hF his'
          simp only [Tensor.modes] at this
          rw [this]
          simp only [Resh.eyeFold, (hdm _).1, (hdm _).2, hcols', hflat, if_true, mul_one]
        · intro b hb hne
          have := ih s st.cols (st.eyeFold s) j is b rfl hcols' hj (Finset.mem_range.mp hb) his'
          simp only [Tensor.modes] at this
          rw [this]
          simp only [Resh.eyeFold, (hdm _).1, (hdm _).2, hcols']
          rw [hflat] at hne
          simp [hne]
        · intro h; exact absurd (Finset.mem_range.mpr hF) h

/-- **lossless round-trip**: the chain built by `_full_rank_tt` decompresses to the array it was given,
    for any number of modes and any mode sizes (including 1) -/
theorem dense_fullRankTT (shape : List Nat) (x : Nat → R) (idx : List Nat) (h : inShape idx shape) (hne : shape ≠ []) :
    dense (Tensor.modes (fullRankTT shape x)) idx = x (flat idx shape) := by
  cases shape with
  | nil => exact absurd rfl hne
  | cons s rest =>
    cases idx with
    | nil => simp [inShape] at h
    | cons i is =>
      obtain ⟨hi, his⟩ := h
      have hs : 0 < s := by omega
      have hrl := fullRankLoop_head_rl s (Resh.ofArray s rest.prod x) rest
      have ht := tail_fullRankLoop rest s 1 (Resh.ofArray s rest.prod x) i is 0 (by simp [Resh.ofArray]) rfl hi (by omega) his
      simp only [fullRankTT]
      generalize hX : Tensor.modes (fullRankLoop s (Resh.ofArray s rest.prod x) rest) = X at hrl ht
      cases X with
      | nil => simp at hrl
      | cons m ms =>
        simp only [List.head?_cons, Option.map_some, Option.some.injEq, Resh.ofArray, Nat.div_self hs] at hrl
        simp only [dense, hrl, sumTo_eq, Finset.sum_range_one, ht, flat, Resh.ofArray]
        simp

end TN
