import TnVerif.Lemmas.Accepted
import TnVerif.Model.Tools
/-! The row count of `accepted_inputs`, `round(tn.sum(t))`: the scalar `sumAllTT t` of `Model/Accepted` is what the
    model of `tn.sum` (`Tensor.sum`, Model/Tools: `tn.ttm` with ones, then squeeze by indexing) returns on a
    pure-TT tensor when all modes are summed. -/
set_option linter.unusedSectionVars false
set_option linter.unusedSimpArgs false
open Finset
namespace TN
variable {R : Type} [CommSemiring R]

theorem expand_ints (N : Nat) (key : List RawItem) (nc n : Nat) :
    processKey.expand N key nc (List.replicate n (RawItem.int 0)) = List.replicate n (RawItem.int 0) := by
  induction n with
  | zero => simp [processKey.expand]
  | succ n ih => simp [List.replicate_succ, processKey.expand, ih]

theorem processKey_ints (N : Nat) : processKey N (List.replicate N (RawItem.int 0)) = .ok (List.replicate N (RawItem.int 0)) := by
  unfold processKey
  have h1 : (List.filter RawItem.isNone (List.replicate N (RawItem.int 0))).length = 0 := by
    simp [RawItem.isNone]
  simp only [h1, expand_ints, List.length_replicate, Nat.sub_zero, Nat.lt_irrefl, if_false, Nat.sub_self,
    List.replicate_zero, List.append_nil]
  rw [if_neg]
  simp [List.any_replicate, RawItem.isEllipsis]

theorem normKey_ints (n : Nat) : normKey (List.replicate n (RawItem.int 0)) (List.replicate n 1) = .ok (List.replicate n (Item.int 0)) := by
  induction n with
  | zero => rfl
  | succ n ih =>
    simp only [List.replicate_succ, normKey, ih, normInt]
    rfl

theorem groupKey_ints (n : Nat) : groupKey (List.replicate n (Item.int 0)) = List.replicate n (GItem.int 0) := by
  induction n with
  | zero => rfl
  | succ n ih => simp [List.replicate_succ, groupKey, ih]

/-- what integer entries leave pending: the running product of the selected matrices -/
def intsGo : Option (PInt R) → Tensor R → Option (PInt R)
  | p, [] => p
  | p, m :: ms => intsGo (some (PInt.combOpt p (getInt m 0))) ms

theorem goKey_ints (lastRR : Nat) (ms : Tensor R) : ∀ (p : Option (PInt R)),
    goKey lastRR false p (List.replicate ms.length (GItem.int 0)) ms = .ok ([], intsGo p ms) := by
  induction ms with
  | nil => intro p; simp [goKey, intsGo]
  | cons m ms ih => intro p; simp only [List.length_cons, List.replicate_succ, goKey, ih, intsGo]

/-- `tn.ttm(t, ones)` on every mode of a factor-free tensor -/
def sumModes (t : Tensor R) : Tensor R := t.map fun m => m.spatialLin 1 onesL

theorem sumKeep_all (t : Tensor R) : t.sumKeep (List.replicate t.length true) = sumModes t := by
  unfold Tensor.sumKeep sumModes
  induction t with
  | nil => simp [Tensor.linModes]
  | cons m ms ih =>
    simp only [List.length_cons, List.replicate_succ, List.zipWith_cons_cons, if_true, Tensor.linModes, List.map_cons]
    rw [ih]

theorem intsGo_sumModes (ms : Tensor R) (hp : ms.isPureTT = true) : ∀ (rows cols : Nat) (M : Nat → Nat → R),
    ∃ P, intsGo (some (.mat rows cols M)) (sumModes ms) = some P ∧ P.total = sumAllGo ms rows cols M := by
  induction ms with
  | nil => intro rows cols M; exact ⟨_, rfl, rfl⟩
  | cons m ms ih =>
    intro rows cols M
    rw [isPureTT_cons] at hp
    obtain ⟨⟨hU, hc⟩, hms⟩ := hp
    obtain ⟨c, U⟩ := m
    simp only at hU hc; subst hU
    cases c with
    | cp => simp [Core.isCP] at hc
    | tt r0 s r1 f =>
      obtain ⟨P, h1, h2⟩ := ih hms rows r1 (fun a b => sumTo cols fun k => M a k * (Core.tt r0 s r1 f).sumMat k b)
      refine ⟨P, ?_, ?_⟩
      · rw [← h1]
        simp only [sumModes, List.map_cons, intsGo, PInt.combOpt, getInt, TMode.spatialLin, Core.lin, TMode.decomp,
          PInt.comb, Core.sumMat, Core.get, Core.spatial, onesL, one_mul]
      · rw [h2]; rfl

theorem sumModes_shape (t : Tensor R) (hp : t.isPureTT = true) : (sumModes t).shape = List.replicate t.length 1 := by
  induction t with
  | nil => rfl
  | cons m ms ih =>
    rw [isPureTT_cons] at hp
    obtain ⟨c, U⟩ := m
    obtain ⟨⟨hU, _⟩, hms⟩ := hp
    simp only at hU; subst hU
    have := ih hms
    simp only [sumModes, List.map_cons, Tensor.shape, List.length_cons, List.replicate_succ] at this ⊢
    rw [this]
    cases c <;> simp [TMode.spatialLin, TMode.n, Core.lin, Core.spatial]

/-- **link to the model of `tn.sum`** (Model/Tools): on a pure-TT tensor, `tn.sum(t)` with all modes
    summed returns the scalar `sumAllTT t` -/
theorem sum_all_eq (t : Tensor R) (hp : t.isPureTT = true) (hne : t ≠ []) :
    t.sum (List.replicate t.length true) = .ok (.inr (sumAllTT t)) := by
  have hk : squeezeKey (List.replicate t.length true) = List.replicate t.length (RawItem.int 0) := by
    simp [squeezeKey]
  have hlen : (sumModes t).length = t.length := by simp [sumModes]
  unfold Tensor.sum
  rw [sumKeep_all, hk]
  unfold Tensor.getitem
  rw [hlen, processKey_ints]
  simp only [bind, Except.bind, sumModes_shape t hp, normKey_ints, groupKey_ints]
  rw [← hlen, goKey_ints]
  cases t with
  | nil => exact absurd rfl hne
  | cons m ms =>
    rw [isPureTT_cons] at hp
    obtain ⟨⟨hU, hc⟩, hms⟩ := hp
    obtain ⟨c, U⟩ := m
    simp only at hU hc; subst hU
    cases c with
    | cp => simp [Core.isCP] at hc
    | tt r0 s r1 f =>
      obtain ⟨P, h1, h2⟩ := intsGo_sumModes ms hms r0 r1 (Core.tt r0 s r1 f).sumMat
      have e : intsGo (none : Option (PInt R)) (sumModes ({ core := .tt r0 s r1 f, U := none } :: ms)) = some P := by
        rw [← h1]
        simp only [sumModes, List.map_cons, intsGo, PInt.combOpt, getInt, TMode.spatialLin, Core.lin, TMode.decomp,
          onesL, one_mul]
        rfl
      simp only [e, pure, Except.pure, h2]
      rfl

end TN
