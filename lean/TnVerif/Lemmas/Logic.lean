import TnVerif.Lemmas.Scalar
import TnVerif.Lemmas.Accepted
import TnVerif.Lemmas.Dot
import TnVerif.Model.Logic
/-! Lemmas for the Boolean-logic helpers of logic.py: rank-one tensors with binary modes (`true`, `false`, `all`,
    `none`, `presence`, `absence`), counting of satisfying assignments, the stored-matrix form of `tn.dot`. -/
set_option linter.unusedSectionVars false
set_option linter.unusedSimpArgs false
open Finset
namespace TN
variable {R : Type} [CommSemiring R]

/-! ### rank-one tensors with binary modes -/

/-- every mode is a `1 × 2 × 1` core (or a `2 × 1` CP factor) without Tucker factor -/
def LogicR1m (m : TMode R) : Prop := m.U = Option.none ∧ m.core.rl = 1 ∧ m.core.rr = 1 ∧ m.core.spatial = 2
def LogicR1 (t : Tensor R) : Prop := ∀ m ∈ t, LogicR1m m

/-- the product of the selected core entries -/
def logicR1val : Tensor R → List Nat → R
  | m :: ms, i :: is => m.core.get 0 i 0 * logicR1val ms is
  | _, _ => 1

theorem logicR1_cons (m : TMode R) (ms : Tensor R) :
    LogicR1 (m :: ms) ↔ (m.U = Option.none ∧ m.core.rl = 1 ∧ m.core.rr = 1 ∧ m.core.spatial = 2) ∧ LogicR1 ms := by
  simp [LogicR1, LogicR1m]

theorem logicR1_tail (t : Tensor R) (h : LogicR1 t) : ∀ (is : List Nat), is.length = t.length →
    tail t.modes is 0 = logicR1val t is := by
  induction t with
  | nil => intro is _; simp [Tensor.modes, tail, logicR1val]
  | cons m ms ih =>
    intro is hl
    cases is with
    | nil => simp at hl
    | cons i is =>
      obtain ⟨⟨hU, _, hrr, _⟩, hms⟩ := (logicR1_cons m ms).mp h
      have := ih hms is (by simpa using hl)
      obtain ⟨c, U⟩ := m
      simp only at hU hrr
      subst hU
      simp only [Tensor.modes, List.map_cons, tail, sumTo_eq, TMode.toMode_rr, hrr, Finset.sum_range_one,
        TMode.toMode_G, TMode.decomp_none, logicR1val] at this ⊢
      rw [this]

theorem logicR1_WFfrom (t : Tensor R) (h : LogicR1 t) : Tensor.WFfrom 1 t := by
  induction t with
  | nil => trivial
  | cons m ms ih =>
    obtain ⟨⟨hU, hrl, hrr, _⟩, hms⟩ := (logicR1_cons m ms).mp h
    refine ⟨hrl, ?_, ?_⟩
    · simp [TMode.ok, hU]
    · rw [hrr]; exact ih hms

theorem logicR1_WF (t : Tensor R) (h : LogicR1 t) (hne : t ≠ []) : t.WF := WF_of_WFfrom t 1 (logicR1_WFfrom t h) hne

theorem logicR1_shape (t : Tensor R) (h : LogicR1 t) : t.shape = List.replicate t.length 2 := by
  induction t with
  | nil => rfl
  | cons m ms ih =>
    obtain ⟨⟨hU, _, _, hs⟩, hms⟩ := (logicR1_cons m ms).mp h
    obtain ⟨c, U⟩ := m
    simp only at hU hs
    subst hU
    have := ih hms
    simp only [Tensor.shape] at this
    simp [Tensor.shape, List.replicate_succ, hs, this]

theorem logicR1_dense (t : Tensor R) (h : LogicR1 t) (hne : t ≠ []) (is : List Nat) (hl : is.length = t.length) :
    t.dense is = logicR1val t is := by
  have ht := logicR1_tail t h is hl
  cases t with
  | nil => exact absurd rfl hne
  | cons m ms =>
    have hrl := ((logicR1_cons m ms).mp h).1.2.1
    simp only [Tensor.dense, Tensor.modes, List.map_cons, dense, sumTo_eq, TMode.toMode_rl, hrl,
      Finset.sum_range_one] at ht ⊢
    exact ht

/-- a tensor built mode by mode from `List.range N` -/
theorem logicR1_map (N : Nat) (F : Nat → TMode R)
    (hF : ∀ n, n < N → LogicR1m (F n)) :
    LogicR1 ((List.range N).map F) := by
  intro m hm
  obtain ⟨n, hn, rfl⟩ := List.mem_map.mp hm
  exact hF n (List.mem_range.mp hn)

/-- the value of a rank-one 0/1 tensor: 1 iff every selected core entry is 1 -/
theorem logicR1val_bool : ∀ (t : Tensor R) (is : List Nat) (p : Nat → Bool), is.length = t.length →
    (∀ n (h : n < t.length), (t[n]).core.get 0 (is.getD n 0) 0 = if p n then 1 else 0) →
    logicR1val t is = if (∀ n, n < t.length → p n = true) then 1 else 0 := by
  intro t
  induction t with
  | nil => intro is p _ _; simp [logicR1val]
  | cons m ms ih =>
    intro is p hl hp
    cases is with
    | nil => simp at hl
    | cons i is =>
      have h0 := hp 0 (by simp)
      simp only [List.getElem_cons_zero, List.getD_cons_zero] at h0
      have hrest := ih is (fun n => p (n + 1)) (by simpa using hl) (by
        intro n hn
        have := hp (n + 1) (by simpa using hn)
        simpa using this)
      simp only [logicR1val, h0, hrest]
      by_cases hp0 : p 0 = true
      · have : (∀ n, n < (m :: ms).length → p n = true) ↔ ∀ n, n < ms.length → p (n + 1) = true := by
          constructor
          · intro h n hn; exact h (n + 1) (by simpa using hn)
          · intro h n hn
            cases n with
            | zero => exact hp0
            | succ n => exact h n (by simpa using hn)
        rw [if_pos hp0, one_mul, if_congr this rfl rfl]
      · have : ¬ (∀ n, n < (m :: ms).length → p n = true) := fun h => hp0 (h 0 (by simp))
        rw [if_neg hp0, zero_mul, if_neg this]

/-- the dense value of a rank-one 0/1 tensor -/
theorem logicR1_dense_bool (t : Tensor R) (h : LogicR1 t) (hne : t ≠ []) (is : List Nat) (hl : is.length = t.length)
    (p : Nat → Bool) (hp : ∀ n (h : n < t.length), (t[n]).core.get 0 (is.getD n 0) 0 = if p n then 1 else 0)
    (P : Prop) [Decidable P] (hP : P ↔ ∀ n, n < t.length → p n = true) :
    t.dense is = if P then 1 else 0 := by
  rw [logicR1_dense t h hne is hl, logicR1val_bool t is p hl hp]
  exact if_congr hP.symm rfl rfl

/-! ### `cores[w][0, j0, 0] = 0` -/

theorem logicModifyAt_length (f : TMode R → TMode R) : ∀ (w : Nat) (t : Tensor R), (logicModifyAt f w t).length = t.length := by
  intro w t
  induction t generalizing w with
  | nil => cases w <;> rfl
  | cons m ms ih => cases w <;> simp [logicModifyAt, ih]

theorem logicModifyAt_getElem (f : TMode R → TMode R) : ∀ (w : Nat) (t : Tensor R) (n : Nat) (h : n < t.length),
    (logicModifyAt f w t)[n]'(by rw [logicModifyAt_length]; exact h) = if n = w then f t[n] else t[n] := by
  intro w t
  induction t generalizing w with
  | nil => intro n h; simp at h
  | cons m ms ih =>
    intro n h
    cases w with
    | zero => cases n <;> simp [logicModifyAt]
    | succ w =>
      cases n with
      | zero => simp [logicModifyAt]
      | succ n =>
        simp only [logicModifyAt, List.getElem_cons_succ, Nat.add_right_cancel_iff]
        exact ih w n (by simpa using h)

theorem logicModifyAt_R1 (f : TMode R → TMode R) (hf : ∀ m, LogicR1m m → LogicR1m (f m)) : ∀ (w : Nat) (t : Tensor R),
    LogicR1 t → LogicR1 (logicModifyAt f w t) := by
  intro w t
  induction t generalizing w with
  | nil => intro h; cases w <;> exact h
  | cons m ms ih =>
    intro h
    have h' := (logicR1_cons m ms).mp h
    cases w with
    | zero =>
      intro x hx
      simp only [logicModifyAt, List.mem_cons] at hx
      rcases hx with rfl | hx
      · exact hf m h'.1
      · exact h x (List.mem_cons_of_mem _ hx)
    | succ w =>
      intro x hx
      simp only [logicModifyAt, List.mem_cons] at hx
      rcases hx with rfl | hx
      · exact h'.1
      · exact ih w h'.2 x hx

theorem Core.logicSetEntry_R1 (j0 : Nat) (v : R) (m : TMode R) (h : LogicR1m m) :
    LogicR1m { m with core := m.core.logicSetEntry 0 j0 0 v } := by
  obtain ⟨c, U⟩ := m
  cases c <;> exact h

/-- the state of the loop `for w in which: cores[w][0, j0, 0] = 0`: rank-one binary modes of 3-D cores whose entries
    `[0, j, 0]` are given by `g` -/
def LogicInv (t : Tensor R) (g : Nat → Nat → R) : Prop :=
  LogicR1 t ∧ (∀ m ∈ t, m.core.isCP = false) ∧ ∀ n (h : n < t.length) j, (t[n]).core.get 0 j 0 = g n j

theorem logicZeroAt_inv (j0 : Nat) (t : Tensor R) (g : Nat → Nat → R) (w : Nat) (h : LogicInv t g) :
    LogicInv (logicZeroAt j0 t w) (fun n j => if n = w ∧ j = j0 then 0 else g n j) ∧
      (logicZeroAt j0 t w).length = t.length := by
  obtain ⟨h1, h2, h3⟩ := h
  have hlen := logicModifyAt_length (fun m : TMode R => { m with core := m.core.logicSetEntry 0 j0 0 0 }) w t
  refine ⟨⟨logicModifyAt_R1 _ (fun m hm => Core.logicSetEntry_R1 j0 0 m hm) w t h1, ?_, ?_⟩, hlen⟩
  · intro m hm
    obtain ⟨n, hn, rfl⟩ := List.getElem_of_mem hm
    have hn' : n < t.length := by rw [logicZeroAt, hlen] at hn; exact hn
    simp only [logicZeroAt]
    rw [logicModifyAt_getElem _ w t n hn']
    have := h2 t[n] (List.getElem_mem hn')
    split
    · revert this; cases t[n].core <;> simp [Core.logicSetEntry, Core.isCP]
    · exact this
  · intro n hn j
    have hn' : n < t.length := by rw [logicZeroAt, hlen] at hn; exact hn
    simp only [logicZeroAt]
    rw [logicModifyAt_getElem _ w t n hn']
    have hcp := h2 t[n] (List.getElem_mem hn')
    have hg := h3 n hn' j
    by_cases hw : n = w
    · rw [if_pos hw]
      revert hcp hg
      cases t[n].core with
      | tt r0 s r1 f =>
        intro _ hg
        simp only [Core.logicSetEntry, Core.tt_get] at hg ⊢
        by_cases hj : j = j0 <;> simp [hw, hj, hg]
      | cp s r f => intro hcp; simp [Core.isCP] at hcp
    · rw [if_neg hw, hg]; simp [hw]

theorem logicFold_inv (j0 : Nat) : ∀ (ws : List Nat) (t : Tensor R) (g : Nat → Nat → R), LogicInv t g →
    LogicInv (ws.foldl (logicZeroAt j0) t) (fun n j => if n ∈ ws ∧ j = j0 then 0 else g n j) ∧
      (ws.foldl (logicZeroAt j0) t).length = t.length := by
  intro ws
  induction ws with
  | nil => intro t g h; simpa using h
  | cons w ws ih =>
    intro t g h
    obtain ⟨i1, i2⟩ := logicZeroAt_inv j0 t g w h
    obtain ⟨k1, k2⟩ := ih _ _ i1
    refine ⟨?_, by rw [List.foldl_cons, k2, i2]⟩
    rw [List.foldl_cons]
    have : (fun n j => if n ∈ w :: ws ∧ j = j0 then (0 : R) else g n j) =
        (fun n j => if n ∈ ws ∧ j = j0 then 0 else if n = w ∧ j = j0 then 0 else g n j) := by
      funext n j
      by_cases a : n ∈ ws <;> by_cases b : n = w <;> by_cases c : j = j0 <;> simp [a, b, c]
    rw [this]; exact k1

/-! ### counting satisfying assignments -/

/-- the sum of a 0/1 indicator over a box is the number of box indices that satisfy it -/
theorem logic_boxSum_indicator (s : List Nat) (p : List Nat → Bool) :
    boxSum s (fun idx => if p idx then (1 : R) else 0) = ((lexBox s).countP p : R) := by
  induction s generalizing p with
  | nil => by_cases h : p [] <;> simp [boxSum, lexBox, h]
  | cons n ns ih =>
    simp only [boxSum, sumTo_eq, lexBox, List.countP_flatMap, List.countP_map]
    rw [Finset.sum_congr rfl (fun i _ => ih (fun is => p (i :: is)))]
    induction n with
    | zero => simp
    | succ n ihn =>
      rw [Finset.sum_range_succ, ihn, List.range_succ]
      simp [Function.comp_def]

/-- the indices of the box `2 × … × 2` are the 0/1 assignments -/
theorem logic_inShape_bits : ∀ (idx : List Nat) (N : Nat),
    inShape idx (List.replicate N 2) ↔ idx.length = N ∧ ∀ v ∈ idx, v = 0 ∨ v = 1 := by
  intro idx
  induction idx with
  | nil => intro N; cases N <;> simp [inShape, List.replicate_succ]
  | cons i is ih =>
    intro N
    cases N with
    | zero => simp [inShape]
    | succ N =>
      simp only [List.replicate_succ, inShape, ih N, List.length_cons, Nat.add_right_cancel_iff, List.mem_cons,
        forall_eq_or_imp]
      constructor
      · rintro ⟨h1, h2, h3⟩; exact ⟨h2, by omega, h3⟩
      · rintro ⟨h1, h2, h3⟩; exact ⟨by omega, h1, h3⟩

theorem logic_mem_lexBox : ∀ (s : List Nat) (idx : List Nat), idx ∈ lexBox s ↔ inShape idx s := by
  intro s
  induction s with
  | nil => intro idx; cases idx <;> simp [lexBox, inShape]
  | cons n ns ih =>
    intro idx
    cases idx with
    | nil => simp [lexBox, inShape]
    | cons i is => simp [lexBox, inShape, ih is]

/-! ### `tn.dot` with a stored running matrix equals the sweep `dotGo` -/

theorem logic_idx_div_mod (a b n : Nat) (hb : b < n) : (a * n + b) / n = a ∧ (a * n + b) % n = b := by
  have hn : 0 < n := by omega
  constructor
  · rw [Nat.mul_comm, Nat.mul_add_div hn, Nat.div_eq_of_lt hb]; rfl
  · rw [Nat.mul_comm, Nat.mul_add_mod, Nat.mod_eq_of_lt hb]

theorem LogicTab.get_ofFn (rows cols : Nat) (f : Nat → Nat → R) (i j : Nat) (hi : i < rows) (hj : j < cols) :
    (LogicTab.ofFn rows cols f).get i j = f i j := by
  have hlt : i * cols + j < rows * cols := by
    calc i * cols + j < i * cols + cols := by omega
      _ = (i + 1) * cols := by ring
      _ ≤ rows * cols := Nat.mul_le_mul_right _ hi
  obtain ⟨h1, h2⟩ := logic_idx_div_mod i j cols hj
  simp only [LogicTab.get, LogicTab.ofFn, hj, if_true]
  rw [Array.getD_eq_getD_getElem?, Array.getElem?_ofFn]
  simp [hlt, h1, h2]

theorem logic_row_lt (a b n r : Nat) (ha : a < r) (hb : b < n) : a * n + b < r * n := by
  calc a * n + b < a * n + n := by omega
    _ = (a + 1) * n := by ring
    _ ≤ r * n := Nat.mul_le_mul_right _ ha

theorem logicTabMode_get (m : Mode R) (i a b : Nat) (hi : i < m.n) (ha : a < m.rl) (hb : b < m.rr) :
    (logicTabMode m).get (i * m.rl + a) b = m.G i a b := by
  obtain ⟨d1, d2⟩ := logic_idx_div_mod i a m.rl ha
  simp only [logicTabMode]
  rw [LogicTab.get_ofFn _ _ _ _ _ (logic_row_lt i a m.rl m.n hi ha) hb, d1, d2]

/-- inside its range the stored matrix after one mode is the matrix `dotStep` computes -/
theorem logicDotStep_get (L : LogicTab R) (m m' : Mode R) (hn : m.n = m'.n) (c' c : Nat) (hc' : c' < m'.rr) (hc : c < m.rr) :
    (logicDotStep L m m').get c' c = dotStep L.get m m' c' c := by
  simp only [logicDotStep, dotStep]
  rw [LogicTab.get_ofFn _ _ _ _ _ hc' hc]
  simp only [sumTo_eq]
  rw [Finset.sum_comm]
  apply Finset.sum_congr rfl; intro i hi
  have hi' := Finset.mem_range.mp hi
  apply Finset.sum_congr rfl; intro b' hb'
  have hb'' := Finset.mem_range.mp hb'
  obtain ⟨e1, e2⟩ := logic_idx_div_mod b' i m.n hi'
  rw [logicTabMode_get m' i b' c' (by omega) hb'' hc']
  simp only [logicProjectLeft]
  rw [LogicTab.get_ofFn _ _ _ _ _ (logic_row_lt b' i m.n m'.rl hb'' hi') hc, e1, e2, sumTo_eq, Finset.mul_sum]
  apply Finset.sum_congr rfl; intro b hb
  rw [logicTabMode_get m i b c hi' (Finset.mem_range.mp hb) hc]
  ring

theorem logicDotGo_eq (ms : List (Mode R)) : ∀ (ms' : List (Mode R)) (L : LogicTab R) (rl' rl : Nat),
    wf rl ms → wf rl' ms' → compat ms ms' → logicDotGo L rl' rl ms ms' = dotGo L.get rl' rl ms ms' := by
  induction ms with
  | nil =>
    intro ms' L rl' rl _ _ hc
    cases ms' with
    | nil => rfl
    | cons _ _ => simp [compat] at hc
  | cons m ms ih =>
    intro ms' L rl' rl hw hw' hc
    cases ms' with
    | nil => simp [compat] at hc
    | cons m' ms' =>
      obtain ⟨_, h2⟩ := hw
      obtain ⟨_, g2⟩ := hw'
      obtain ⟨hn, hc'⟩ := hc
      simp only [logicDotGo, dotGo]
      rw [ih ms' _ _ _ h2 g2 hc', dotGo_spec ms ms' _ _ _ h2 g2 hc', dotGo_spec ms ms' _ _ _ h2 g2 hc']
      apply Finset.sum_congr rfl; intro b' hb'
      apply Finset.sum_congr rfl; intro b hb
      rw [logicDotStep_get L m m' hn b' b (Finset.mem_range.mp hb') (Finset.mem_range.mp hb)]

/-- **the stored-matrix inner product is `Tensor.dot`** -/
theorem logic_dotTab_eq (t u : Tensor R) (ht : t.WF) (hu : u.WF) (hs : t.shape = u.shape) : t.dotTab u = t.dot u := by
  cases t with
  | nil => exact absurd ht (by simp [Tensor.WF])
  | cons x xs =>
    cases u with
    | nil => exact absurd hu (by simp [Tensor.WF])
    | cons y ys =>
      have hc := compat_modes _ _ hs
      have hwt := wf_modes _ _ ht
      have hwu := wf_modes _ _ hu
      simp only [Tensor.dotTab, Tensor.dot, Tensor.modes, List.map_cons] at hc hwt hwu ⊢
      have hwt' : wf x.toMode.rl (x.toMode :: List.map TMode.toMode xs) := hwt
      have hwu' : wf y.toMode.rl (y.toMode :: List.map TMode.toMode ys) := hwu
      rw [logicDotGo_eq _ _ _ _ _ hwt' hwu' hc, dotGo_spec _ _ _ _ _ hwt' hwu' hc, dotGo_spec _ _ _ _ _ hwt' hwu' hc]
      apply Finset.sum_congr rfl; intro b' hb'
      apply Finset.sum_congr rfl; intro b hb
      rw [LogicTab.get_ofFn _ _ _ _ _ (Finset.mem_range.mp hb') (Finset.mem_range.mp hb)]

theorem logic_normsqTab_eq (t : Tensor R) (ht : t.WF) : t.normsqTab = t.normsq := logic_dotTab_eq t t ht ht rfl


end TN
