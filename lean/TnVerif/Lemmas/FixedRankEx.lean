import TnVerif.Lemmas.FixedRankExact
import Mathlib.Tactic.IntervalCases
import Mathlib.Tactic.NormNum
/-! Concrete inputs meeting every hypothesis of the C05 constructor theorems (non-vacuity): the dense 2×2 array `diag(p, q)` with
    `p ≥ q ≥ 0`, `thr = 0`, built by `_full_rank_tt`, with the exact answers of the QR kernel (`Q = I`, `R = diag(p,q)`), of the SVD
    kernel (`U = I`, `S = (p, q)`, `Vh = I`) and, for `diag(3,1)`, of the four kernels of both `round_tucker` iterations. -/
set_option linter.unusedSimpArgs false
set_option linter.unusedSectionVars false
set_option linter.unusedVariables false
set_option linter.unnecessarySeqFocus false
open Finset
namespace TN
variable {K : Type} [Field K] [LinearOrder K] [IsStrictOrderedRing K]

/-- row-major entries of `diag(p, q)` -/
def fixedrankExX (p q : K) : Nat → K := fun k => if k = 0 then p else if k = 3 then q else 0
def fixedrankExI : Nat → Nat → K := fun a b => if a = b then 1 else 0
def fixedrankExD (p q : K) : Nat → Nat → K := fun a b => if a = b then (if a = 0 then p else q) else 0
/-- the QR answer of `orthogonalize(N-1)` for the first core (its left unfolding is `diag(p,q)` itself) -/
def fixedrankExQ (p q : K) : QRAns K := { k := 2, Q := fixedrankExI, Rm := fixedrankExD p q }
/-- the SVD answer for the right unfolding of the last core in the state entering the sweep -/
def fixedrankExA (p q : K) : SVDAns K :=
  { n := 2, U := fixedrankExI, S := fun l => if l = 0 then p else q, Vh := fun l i _ => fixedrankExI l i }
/-- the four kernel answers of one `round_tucker` iteration on this input (the same in both iterations) -/
def fixedrankExTA (p q : K) : TkAns K :=
  { qr := { k := 2, Q := fixedrankExI, Rm := fixedrankExD p q },
    svd := fixedrankExA p q,
    fq := { k := 2, Q := fixedrankExI, Rm := fixedrankExI },
    rq := { k := 2, Q := fixedrankExI, Rm := fixedrankExD p q } }

/-- a first core that carries the matrix `diag(p,q)` (what `_full_rank_tt` emits) -/
def fixedrankEx_isD (p q : K) (m : Mode K) : Prop :=
  m.rl = 1 ∧ m.n = 2 ∧ m.rr = 2 ∧ ∀ i, i < 2 → ∀ b, b < 2 → m.G i 0 b = fixedrankExD p q i b
/-- a last core that is the identity -/
def fixedrankEx_isI (m : Mode K) : Prop :=
  m.rl = 2 ∧ m.n = 2 ∧ m.rr = 1 ∧ ∀ i, i < 2 → ∀ a, a < 2 → m.G i a 0 = fixedrankExI i a
/-- a left-orthonormal first core (identity) -/
def fixedrankEx_isP (m : Mode K) : Prop :=
  m.rl = 1 ∧ m.n = 2 ∧ m.rr = 2 ∧ ∀ i, i < 2 → ∀ b, b < 2 → m.G i 0 b = fixedrankExI i b
/-- a last core that carries the matrix -/
def fixedrankEx_isC (p q : K) (m : Mode K) : Prop :=
  m.rl = 2 ∧ m.n = 2 ∧ m.rr = 1 ∧ ∀ j, j < 2 → ∀ c, c < 2 → m.G j c 0 = fixedrankExD p q c j

theorem fixedrankEx_modes (p q : K) : ∃ m0 m1 : Mode K, Tensor.modes (fullRankTT [2, 2] (fixedrankExX p q)) = [m0, m1] ∧
    fixedrankEx_isD p q m0 ∧ fixedrankEx_isI m1 := by
  refine ⟨_, _, rfl, ⟨?_, ?_, ?_, ?_⟩, ⟨?_, ?_, ?_, ?_⟩⟩
  any_goals (simp [TMode.toMode, TMode.n, Core.rl, Core.rr, Core.spatial, Resh.ofArray, Resh.eyeFold]; done)
  · intro i hi b hb
    interval_cases i <;> interval_cases b <;>
      simp [TMode.toMode, TMode.decomp, Core.get, Resh.ofArray, fixedrankExX, fixedrankExD]
  · intro i hi a ha
    interval_cases i <;> interval_cases a <;>
      simp [TMode.toMode, TMode.decomp, Core.get, Resh.ofArray, Resh.eyeFold, fixedrankExI]

/-- the orthogonalisation step: QR contract, and the shape of the state it leaves -/
theorem fixedrankEx_orth (p q : K) (m0 m1 : Mode K) (h0 : fixedrankEx_isD p q m0) (h1 : fixedrankEx_isI m1) :
    qrOK [m0, m1] [fixedrankExQ p q] ∧ fixedrankEx_isP (orthStep m0 m1 (fixedrankExQ p q)).1 ∧
    fixedrankEx_isC p q (orthStep m0 m1 (fixedrankExQ p q)).2 := by
  obtain ⟨h0l, h0n, h0r, hG0⟩ := h0
  obtain ⟨h1l, h1n, h1r, hG1⟩ := h1
  refine ⟨⟨⟨?_, ?_⟩, by rw [h0r, h1l], trivial⟩, ⟨h0l, h0n, rfl, ?_⟩, ⟨rfl, h1n, h1r, ?_⟩⟩
  · intro a ha i hi b hb
    rw [h0l] at ha; rw [h0n] at hi; rw [h0r] at hb
    have ha0 : a = 0 := by omega
    subst ha0
    rw [hG0 i hi b hb, h0n]
    interval_cases i <;> interval_cases b <;> simp [fixedrankExQ, fixedrankExI, fixedrankExD, Finset.sum_range_succ]
  · intro d hd d' hd'
    simp only [fixedrankExQ] at hd hd'
    rw [h0l, h0n]
    interval_cases d <;> interval_cases d' <;> simp [fixedrankExQ, fixedrankExI, Finset.sum_range_succ]
  · intro i hi b hb
    simp only [orthStep, h0n, fixedrankExQ]
    interval_cases i <;> interval_cases b <;> simp [fixedrankExI]
  · intro j hj c hc
    simp only [orthStep, sumTo_eq, h0r, Finset.sum_range_succ, Finset.sum_range_zero, zero_add]
    rw [hG1 j hj 0 (by omega), hG1 j hj 1 (by omega)]
    interval_cases j <;> interval_cases c <;> simp [fixedrankExQ, fixedrankExI, fixedrankExD]

/-- the SVD contract in the state entering the truncation sweep -/
theorem fixedrankEx_svd (p q : K) (hq : 0 ≤ q) (hpq : q ≤ p) (d2 : K) (rmax : Nat) (pm cur : Mode K)
    (hP : fixedrankEx_isP pm) (hC : fixedrankEx_isC p q cur) :
    ansOK (0 : K) d2 [cur, pm] [(fixedrankExA p q, rmax)] ∧ (∀ Ar ∈ [(fixedrankExA p q, rmax)], fixedrank_svSorted Ar.1) := by
  obtain ⟨hcl, hcn, hcr, hGc⟩ := hC
  refine ⟨⟨⟨?_, ?_, ?_⟩, ?_, by simp [fixedrankExA], trivial⟩, ?_⟩
  · intro a ha i hi b hb
    rw [hcl] at ha; rw [hcn] at hi; rw [hcr] at hb
    have hb0 : b = 0 := by omega
    subst hb0
    rw [hGc i hi a ha]
    interval_cases a <;> interval_cases i <;> simp [fixedrankExA, fixedrankExI, fixedrankExD, Finset.sum_range_succ]
  · intro k l hk hl
    simp only [fixedrankExA] at hk hl
    rw [hcl]
    interval_cases k <;> interval_cases l <;> simp [fixedrankExA, fixedrankExI, Finset.sum_range_succ]
  · intro k l hk hl
    simp only [fixedrankExA] at hk hl
    rw [hcn, hcr]
    interval_cases k <;> interval_cases l <;> simp [fixedrankExA, fixedrankExI, Finset.sum_range_succ]
  · simp only [fixedrankExA]; simp; exact le_trans hq hpq
  · intro Ar hAr
    simp only [List.mem_singleton] at hAr
    subst hAr
    refine ⟨?_, ?_⟩
    · intro l l' hll hl'
      simp only [fixedrankExA] at hl' ⊢
      interval_cases l' <;> interval_cases l <;> simp [hpq]
    · intro l hl
      simp only [fixedrankExA] at hl ⊢
      interval_cases l <;> simp [hq, le_trans hq hpq]

/-- every hypothesis of the fixed-rank TT theorems holds for `diag(p, q)`, `p ≥ q ≥ 0`, with any budget and any `rmax` -/
theorem fixedrankEx_hyps (p q : K) (hq : 0 ≤ q) (hpq : q ≤ p) (d2 : K) (rmax : Nat) : ∃ (cur : Mode K) (rest : List (Mode K)),
    (leftSweep (Tensor.modes (fullRankTT [2, 2] (fixedrankExX p q))) [fixedrankExQ p q]).reverse = cur :: rest ∧
    qrOK (Tensor.modes (fullRankTT [2, 2] (fixedrankExX p q))) [fixedrankExQ p q] ∧
    ansOK (0 : K) d2 (cur :: rest) [(fixedrankExA p q, rmax)] ∧
    (∀ Ar ∈ [(fixedrankExA p q, rmax)], fixedrank_svSorted Ar.1) ∧ rest.length = 1 := by
  obtain ⟨m0, m1, hms, hD, hI⟩ := fixedrankEx_modes p q
  rw [hms]
  obtain ⟨hqr, hP, hC⟩ := fixedrankEx_orth p q m0 m1 hD hI
  obtain ⟨hok, hs⟩ := fixedrankEx_svd p q hq hpq d2 rmax _ _ hP hC
  exact ⟨(orthStep m0 m1 (fixedrankExQ p q)).2, [(orthStep m0 m1 (fixedrankExQ p q)).1], rfl, hqr, hok, hs, rfl⟩

/-- `diag(p, 0)` has unfolding rank 1 (explicit factorisation `(p, 0)ᵀ·(1, 0)`) -/
theorem fixedrankEx_unfold (p : K) : fixedrank_unfoldAll [2, 2] (fixedrankExX p 0) 0 [1] := by
  refine ⟨⟨fun r _ => if r = [0] then p else 0, fun _ cs => if cs = [0] then 1 else 0, ?_⟩, trivial⟩
  intro idx h
  match idx, h with
  | [i, j], ⟨hi, hj, _⟩ =>
    interval_cases i <;> interval_cases j <;> simp [flat, fixedrankExX]

/-- the unfolding of a 2×2 array has (Mathlib) rank at most 2 -/
theorem fixedrankEx_rank (x : Nat → K) : fixedrank_rankAll [2, 2] x 0 [2] := by
  refine ⟨?_, trivial⟩
  refine le_trans (Matrix.rank_le_card_width _) ?_
  simp

/-! ### `diag(3,1)`: the Tucker sweep and the two-stage `round` -/

theorem fixedrankEx_rank31 (d2 : K) (h : d2 = 0) : stepRank (0 : K) d2 (fixedrankExA (3 : K) 1) 7 = 2 := by
  subst h
  simp [stepRank, fixedrankExA, rankSelect, leastRank, tailSum, SVDAns.sq, List.range, List.range.loop]
  norm_num

/-- the truncation step at full rank maps the state back to (matrix core, identity core) -/
theorem fixedrankEx_round (p q : K) (pm cur : Mode K) (hP : fixedrankEx_isP pm) (hC : fixedrankEx_isC p q cur) :
    fixedrankEx_isD p q (roundStep pm cur (fixedrankExA p q) 2).1 ∧ fixedrankEx_isI (roundStep pm cur (fixedrankExA p q) 2).2 := by
  obtain ⟨hpl, hpn, hpr, hGp⟩ := hP
  obtain ⟨hcl, hcn, hcr, hGc⟩ := hC
  refine ⟨⟨hpl, hpn, rfl, ?_⟩, ⟨rfl, hcn, hcr, ?_⟩⟩
  · intro i hi b hb
    simp only [roundStep, sumTo_eq, hpr, Finset.sum_range_succ, Finset.sum_range_zero, zero_add]
    rw [hGp i hi 0 (by omega), hGp i hi 1 (by omega)]
    interval_cases i <;> interval_cases b <;> simp [fixedrankExA, fixedrankExI, fixedrankExD]
  · intro i hi a ha
    simp only [roundStep, fixedrankExA]
    interval_cases i <;> interval_cases a <;> simp [fixedrankExI]

theorem fixedrankEx_tkRank (c : TkMode K) : tkStepRank (0 : K) 0 2 c (fixedrankExTA (3 : K) 1) 7 = 2 := by
  unfold tkStepRank
  exact fixedrankEx_rank31 _ (by simp [tkBudget2])

theorem fixedrankEx_tkCore (c : TkMode K) :
    tkStepCore (0 : K) 0 2 c (fixedrankExTA (3 : K) 1) 7 = tkTrunc (tkGauge c (fixedrankExTA (3 : K) 1).qr) (fixedrankExTA (3 : K) 1).svd 2 := by
  rw [tkStepCore_eq _ _ _ _ _ _ (by simp [fixedrankExTA, fixedrankExA]), fixedrankEx_tkRank]

/-- the SVD contract of the gauged factor: for any mode with 2 rows, core size 2 and identity factor -/
theorem fixedrankEx_tkSVD (c : TkMode K) (hr : c.rows = 2) (hn : c.core.n = 2) (hU : ∀ i j, i < 2 → j < 2 → c.U i j = fixedrankExI i j) :
    TkSVDok (tkGauge c (fixedrankExTA (3 : K) 1).qr) (fixedrankExTA (3 : K) 1).svd := by
  refine ⟨?_, ?_, ?_⟩
  · intro i hi l hl
    simp only [tkGauge, hr, fixedrankExTA] at hi hl
    simp only [tkGauge, sumTo_eq, hn]
    interval_cases i <;> interval_cases l <;> simp [fixedrankExTA, fixedrankExA, fixedrankExI, fixedrankExD, Finset.sum_range_succ, hU]
  · intro k l hk hl
    simp only [fixedrankExTA, fixedrankExA] at hk hl
    simp only [tkGauge, hr]
    interval_cases k <;> interval_cases l <;> simp [fixedrankExTA, fixedrankExA, fixedrankExI, Finset.sum_range_succ]
  · intro k l hk hl
    simp only [fixedrankExTA, fixedrankExA] at hk hl
    simp only [tkGauge]
    interval_cases k <;> interval_cases l <;> simp [fixedrankExTA, fixedrankExA, fixedrankExI, Finset.sum_range_succ]

/-- every contract of the Tucker sweep on the state (identity core, matrix core) with identity factors -/
theorem fixedrankEx_tk (pm cur : Mode K) (hP : fixedrankEx_isP pm) (hC : fixedrankEx_isC (3 : K) 1 cur) :
    tkOK (0 : K) 0 2 [TkMode.ofMode cur, TkMode.ofMode pm] [(fixedrankExTA 3 1, 7), (fixedrankExTA 3 1, 7)] ∧
    tkUncapped (0 : K) 0 2 [TkMode.ofMode cur, TkMode.ofMode pm] [(fixedrankExTA 3 1, 7), (fixedrankExTA 3 1, 7)] ∧
    tkShapes (0 : K) 0 2 [TkMode.ofMode cur, TkMode.ofMode pm] [(fixedrankExTA 3 1, 7), (fixedrankExTA 3 1, 7)] := by
  obtain ⟨hpl, hpn, hpr, hGp⟩ := hP
  obtain ⟨hcl, hcn, hcr, hGc⟩ := hC
  have hb : ∀ d2 : K, leastRank (fixedrankExTA (3 : K) 1).svd.sq d2 (fixedrankExTA (3 : K) 1).svd.sq.length 0 ≤ 7 := by
    intro d2
    have h := (leastRank_spec (fixedrankExTA (3 : K) 1).svd.sq d2 (fixedrankExTA (3 : K) 1).svd.sq.length 0).2.1
    have : (fixedrankExTA (3 : K) 1).svd.sq.length = 2 := by simp [SVDAns.sq, fixedrankExTA, fixedrankExA]
    omega
  have hQR1 : TkQRok (TkMode.ofMode cur) (fixedrankExTA (3 : K) 1).qr := by
    refine ⟨?_, ?_⟩
    · intro a ha j hj b hb
      simp only [TkMode.ofMode, hcl, hcn, hcr] at ha hj hb
      have hb0 : b = 0 := by omega
      subst hb0
      simp only [TkMode.ofMode, hcr]
      rw [hGc j hj a ha]
      interval_cases a <;> interval_cases j <;> simp [fixedrankExTA, fixedrankExI, fixedrankExD, Finset.sum_range_succ]
    · intro l hl l' hl'
      simp only [fixedrankExTA] at hl hl'
      simp only [TkMode.ofMode, hcl, hcr]
      interval_cases l <;> interval_cases l' <;> simp [fixedrankExTA, fixedrankExI, Finset.sum_range_succ]
  have hSVD1 := fixedrankEx_tkSVD (TkMode.ofMode cur) (by simp [TkMode.ofMode, hcn]) (by simp [TkMode.ofMode, hcn])
    (by intro i j _ _; rfl)
  -- the truncated mode
  have hFQ : TkFQok (tkTrunc (tkGauge (TkMode.ofMode cur) (fixedrankExTA (3 : K) 1).qr) (fixedrankExTA (3 : K) 1).svd 2)
      (fixedrankExTA (3 : K) 1).fq := by
    refine ⟨?_, ?_, rfl⟩
    · intro i hi k hk
      simp only [tkTrunc, tkGauge, TkMode.ofMode, hcn] at hi hk
      interval_cases i <;> interval_cases k <;> simp [tkTrunc, fixedrankExTA, fixedrankExA, fixedrankExI, Finset.sum_range_succ]
    · intro l hl l' hl'
      simp only [fixedrankExTA] at hl hl'
      simp only [tkTrunc, tkGauge, TkMode.ofMode, hcn]
      interval_cases l <;> interval_cases l' <;> simp [fixedrankExTA, fixedrankExI, Finset.sum_range_succ]
  have hRQ : TkRQok (tkTrunc (tkGauge (TkMode.ofMode cur) (fixedrankExTA (3 : K) 1).qr) (fixedrankExTA (3 : K) 1).svd 2)
      (fixedrankExTA (3 : K) 1).fq (fixedrankExTA (3 : K) 1).rq := by
    refine ⟨?_, ?_⟩
    · intro l hl a ha b hb
      simp only [tkTrunc, tkGauge, TkMode.ofMode, fixedrankExTA, hcl, hcr] at hl ha hb
      have hb0 : b = 0 := by omega
      subst hb0
      interval_cases l <;> interval_cases a <;>
        simp [tkCore3, tkTrunc, tkGauge, tkRight, TkMode.ofMode, fixedrankExTA, fixedrankExA, fixedrankExI, fixedrankExD, sumTo_eq,
          Finset.sum_range_succ, hcn, hcr]
    · intro c hc c' hc'
      simp only [fixedrankExTA] at hc hc'
      simp only [tkTrunc, tkGauge, TkMode.ofMode, fixedrankExTA, hcr]
      interval_cases c <;> interval_cases c' <;> simp [fixedrankExI, Finset.sum_range_succ]
  -- mode 0 after the first iteration
  have hQR2 : TkQRok (tkRegauge (TkMode.ofMode pm)
      (tkTrunc (tkGauge (TkMode.ofMode cur) (fixedrankExTA (3 : K) 1).qr) (fixedrankExTA (3 : K) 1).svd 2)
      (fixedrankExTA (3 : K) 1).fq (fixedrankExTA (3 : K) 1).rq).1 (fixedrankExTA (3 : K) 1).qr := by
    refine ⟨?_, ?_⟩
    · intro a ha j hj b hb
      simp only [tkRegauge, TkMode.ofMode, fixedrankExTA, hpl, hpn] at ha hj hb
      have ha0 : a = 0 := by omega
      subst ha0
      simp only [tkRegauge, TkMode.ofMode, sumTo_eq, hpr, Finset.sum_range_succ, Finset.sum_range_zero, zero_add]
      rw [hGp j hj 0 (by omega), hGp j hj 1 (by omega)]
      interval_cases j <;> interval_cases b <;> simp [fixedrankExTA, fixedrankExI, fixedrankExD, Finset.sum_range_succ]
    · intro l hl l' hl'
      simp only [fixedrankExTA] at hl hl'
      simp only [tkRegauge, TkMode.ofMode, fixedrankExTA, hpl]
      interval_cases l <;> interval_cases l' <;> simp [fixedrankExI, Finset.sum_range_succ]
  have hSVD2 := fixedrankEx_tkSVD (tkRegauge (TkMode.ofMode pm)
      (tkTrunc (tkGauge (TkMode.ofMode cur) (fixedrankExTA (3 : K) 1).qr) (fixedrankExTA (3 : K) 1).svd 2)
      (fixedrankExTA (3 : K) 1).fq (fixedrankExTA (3 : K) 1).rq).1 (by simp [tkRegauge, TkMode.ofMode, hpn])
      (by simp [tkRegauge, TkMode.ofMode, hpn]) (by intro i j _ _; rfl)
  refine ⟨⟨hQR1, hSVD1, by simp [fixedrankExTA, fixedrankExA], by simp [fixedrankExTA, fixedrankExA], ?_, ?_, ?_⟩, ⟨hb _, hb _⟩, ?_⟩
  · rw [fixedrankEx_tkCore]; exact hFQ
  · rw [fixedrankEx_tkCore]; exact hRQ
  · simp only [tuckerStep]
    rw [fixedrankEx_tkCore]
    exact ⟨hQR2, hSVD2, by simp [fixedrankExTA, fixedrankExA], by simp [fixedrankExTA, fixedrankExA]⟩
  · refine ⟨by simp [fixedrankExTA, fixedrankExA], by simp [fixedrankExTA, TkMode.ofMode, hcn], ?_⟩
    simp only [tuckerStep]
    exact ⟨by simp [fixedrankExTA, fixedrankExA], by simp [fixedrankExTA, tkRegauge, TkMode.ofMode, hpn]⟩


/-- the first stage of `round` on this input (`eps = 0`): `round_tt` keeps rank 2 and returns (matrix core, identity core) -/
theorem fixedrankEx_stage1 (pm cur : Mode K) (hP : fixedrankEx_isP pm) (hC : fixedrankEx_isC (3 : K) 1 cur) :
    ∃ y0 y1, roundTTsem (0 : K) (budget2 0 cur [pm].length) [pm, cur] [(fixedrankExA 3 1, 7)] = [y0, y1] ∧
      fixedrankEx_isD 3 1 y0 ∧ fixedrankEx_isI y1 ∧
      sweepErr (0 : K) (budget2 0 cur [pm].length) [cur, pm] [(fixedrankExA 3 1, 7)] = 0 := by
  rw [fixedrank_budget_zero]
  have hA : stepAns (0 : K) (fixedrankExA (3 : K) 1) = fixedrankExA 3 1 := by
    simp [stepAns, fixedrankExA]
  have hr := fixedrankEx_rank31 (K := K) 0 rfl
  obtain ⟨hD, hI⟩ := fixedrankEx_round (3 : K) 1 pm cur hP hC
  refine ⟨(roundStep pm cur (fixedrankExA 3 1) 2).1, (roundStep pm cur (fixedrankExA 3 1) 2).2, ?_, hD, hI, ?_⟩
  · simp only [roundTTsem, List.reverse_cons, List.reverse_nil, List.nil_append, List.cons_append, sweepRev, hA, hr]
  · simp only [sweepErr, hr]
    simp [fixedrankExA]

/-- every hypothesis of `construct_eps_within` for `Tensor(diag(3,1), eps=0)` with `reached = 0` -/
theorem fixedrankEx_eps : ∃ (cur1 : Mode K) (rest1 : List (Mode K)) (cur2 : Mode K) (rest2 : List (Mode K)),
    qrOK (Tensor.modes (fullRankTT [2, 2] (fixedrankExX (3 : K) 1))) [fixedrankExQ 3 1] ∧
    (leftSweep (Tensor.modes (fullRankTT [2, 2] (fixedrankExX (3 : K) 1))) [fixedrankExQ 3 1]).reverse = cur1 :: rest1 ∧
    qrOK (roundTTsem (0 : K) (budget2 0 cur1 rest1.length)
      (leftSweep (Tensor.modes (fullRankTT [2, 2] (fixedrankExX (3 : K) 1))) [fixedrankExQ 3 1]) [(fixedrankExA 3 1, 7)]) [fixedrankExQ 3 1] ∧
    (leftSweep (roundTTsem (0 : K) (budget2 0 cur1 rest1.length)
      (leftSweep (Tensor.modes (fullRankTT [2, 2] (fixedrankExX (3 : K) 1))) [fixedrankExQ 3 1]) [(fixedrankExA 3 1, 7)])
        [fixedrankExQ 3 1]).reverse = cur2 :: rest2 ∧
    ansOK (0 : K) (budget2 0 cur1 rest1.length) (cur1 :: rest1) [(fixedrankExA 3 1, 7)] ∧
    sweepErr (0 : K) (budget2 0 cur1 rest1.length) (cur1 :: rest1) [(fixedrankExA 3 1, 7)] = 0 ∧
    tkOK (0 : K) 0 2 ((cur2 :: rest2).map TkMode.ofMode) [(fixedrankExTA 3 1, 7), (fixedrankExTA 3 1, 7)] ∧
    tkUncapped (0 : K) 0 2 ((cur2 :: rest2).map TkMode.ofMode) [(fixedrankExTA 3 1, 7), (fixedrankExTA 3 1, 7)] := by
  obtain ⟨m0, m1, hms, hD, hI⟩ := fixedrankEx_modes (3 : K) 1
  rw [hms]
  obtain ⟨hqr, hP, hC⟩ := fixedrankEx_orth (3 : K) 1 m0 m1 hD hI
  have hsw : leftSweep [m0, m1] [fixedrankExQ (3 : K) 1] = [(orthStep m0 m1 (fixedrankExQ 3 1)).1, (orthStep m0 m1 (fixedrankExQ 3 1)).2] := rfl
  rw [hsw]
  obtain ⟨y0, y1, hy, hD', hI', herr⟩ := fixedrankEx_stage1 _ _ hP hC
  obtain ⟨hqr2, hP2, hC2⟩ := fixedrankEx_orth (3 : K) 1 y0 y1 hD' hI'
  obtain ⟨hok, _⟩ := fixedrankEx_svd (3 : K) 1 (by norm_num) (by norm_num)
    (budget2 0 (orthStep m0 m1 (fixedrankExQ (3 : K) 1)).2 [(orthStep m0 m1 (fixedrankExQ (3 : K) 1)).1].length) 7 _ _ hP hC
  obtain ⟨t1, t2, _⟩ := fixedrankEx_tk _ _ hP2 hC2
  refine ⟨(orthStep m0 m1 (fixedrankExQ 3 1)).2, [(orthStep m0 m1 (fixedrankExQ 3 1)).1],
    (orthStep y0 y1 (fixedrankExQ 3 1)).2, [(orthStep y0 y1 (fixedrankExQ 3 1)).1], hqr, rfl, ?_, ?_, hok, herr, t1, t2⟩
  · rw [hy]; exact hqr2
  · rw [hy]; rfl

end TN
