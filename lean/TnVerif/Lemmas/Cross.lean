import TnVerif.Model.Cross
import TnVerif.Lemmas.RoundTTBridge
import TnVerif.Lemmas.OrthSweep
/-! Cross-approximation: the interfaces are partial products of the argument tensor along the index sets. -/
open Finset
namespace TN
variable {R : Type} [CommRing R]

/-- the `(I_j, local_j)` levels of a reversed chain with pivots, as `lsetsRev` consumes them -/
def llevels (l : List (Mode R × (Nat → Nat))) : List (Nat × (Nat → Nat)) := l.map fun x => (x.1.n, x.2)
/-- the `(R_{j+1}, local_j)` levels of a chain with pivots, as `rsetsOf` consumes them -/
def rlevels (l : List (Mode R × Nat × (Nat → Nat))) : List (Nat × (Nat → Nat)) := l.map fun x => (x.2.1, x.2.2)

/-- reversed chain (latest mode first) with matching ranks and left boundary rank `p` (`p = R` for an argument tensor whose first
    core is a CP factor of rank `R`: cross.py:118 `linterfaces[0] = ones(1, t.ranks_tt[0])`) -/
def wfRevP (p : Nat) : List (Mode R) → Prop
  | [] => True
  | m :: rest => m.rl = topRankP p rest ∧ wfRevP p rest

theorem wfRevP_forward (p : Nat) (l : List (Mode R)) : wfRevP p l → wf p l.reverse ∧ outRank p l.reverse = topRankP p l := by
  induction l with
  | nil => intro _; exact ⟨trivial, rfl⟩
  | cons m rest ih =>
    intro ⟨h1, h2⟩
    obtain ⟨w1, w2⟩ := ih h2
    rw [List.reverse_cons]
    exact ⟨wf_snoc _ _ _ w1 (by rw [w2, h1]), by rw [outRank_snoc]; rfl⟩

theorem lsetsRev_length : ∀ (l : List (Nat × (Nat → Nat))) (a : Nat), (lsetsRev l a).length = l.length := by
  intro l
  induction l with
  | nil => intro a; rfl
  | cons x rest ih => obtain ⟨n, loc⟩ := x; intro a; simp [lsetsRev, ih]

/-- the left interface row `a` is the product of the cores along `lsets[j][a]`, rows of the boundary bond summed -/
theorem linterface_eq_chainMat (p : Nat) : ∀ (l : List (Mode R × (Nat → Nat))), wfRevP p (l.map (·.1)) → ∀ a q,
    q < topRankP p (l.map (·.1)) →
    linterface l a q = ∑ s ∈ range p, chainMat (l.map (·.1)).reverse (lsetsRev (llevels l) a).reverse s q := by
  intro l
  induction l with
  | nil =>
    intro _ a q hq
    simp only [List.map_nil, topRankP] at hq
    simp only [linterface, List.map_nil, List.reverse_nil, llevels, lsetsRev, chainMat]
    rw [Finset.sum_ite_eq' (range p) q]
    simp [hq]
  | cons x earlier ih =>
    obtain ⟨m, loc⟩ := x
    intro hw a q hq
    obtain ⟨h1, h2⟩ := hw
    obtain ⟨w1, w2⟩ := wfRevP_forward p _ h2
    simp only [topRankP, List.map_cons] at hq
    simp only [linterface, List.map_cons, llevels, lsetsRev, sumTo_eq, List.reverse_cons]
    have hlen : (lsetsRev (llevels earlier) (loc a / m.n)).reverse.length = ((earlier.map (·.1)).reverse).length := by
      simp [lsetsRev_length, llevels]
    have hstep : ∀ s ∈ range p, chainMat ((earlier.map (·.1)).reverse ++ [m])
        ((lsetsRev (List.map (fun x => (x.1.n, x.2)) earlier) (loc a / m.n)).reverse ++ [loc a % m.n]) s q =
        ∑ c ∈ range m.rl, chainMat (earlier.map (·.1)).reverse (lsetsRev (llevels earlier) (loc a / m.n)).reverse s c * m.G (loc a % m.n) c q := by
      intro s hs
      have e : List.map (fun x : Mode R × (Nat → Nat) => (x.1.n, x.2)) earlier = llevels earlier := rfl
      rw [e, chainMat_snoc _ m _ p _ s q w1 (Finset.mem_range.mp hs) hq hlen, w2, ← h1]
    rw [Finset.sum_congr rfl hstep, Finset.sum_comm]
    apply Finset.sum_congr rfl; intro c hc
    have hc' : c < topRankP p (earlier.map (·.1)) := by rw [← h1]; exact Finset.mem_range.mp hc
    rw [ih h2 (loc a / m.n) c hc', Finset.sum_mul]

/-- the right interface column `b` is the tail of the chain along `rsets[j][b]` -/
theorem rinterface_eq_tail : ∀ (l : List (Mode R × Nat × (Nat → Nat))) (p b : Nat),
    rinterface l p b = tail (l.map (·.1)) (rsetsOf (rlevels l) b) p := by
  intro l
  induction l with
  | nil => intro p b; simp [rinterface, tail]
  | cons x rest ih =>
    obtain ⟨m, rr, loc⟩ := x
    intro p b
    simp only [rinterface, List.map_cons, rlevels, rsetsOf, tail]
    congr 1; funext q
    rw [ih q (loc b % rr)]
    rfl

/-- splitting a chain: the tail of `pre ++ post` is the matrix product of `pre` applied to the tail of `post` -/
theorem tail_append (pre post : List (Mode R)) : ∀ (p : Nat) (is js : List Nat) (a : Nat), wf p pre → a < p →
    is.length = pre.length →
    tail (pre ++ post) (is ++ js) a = ∑ c ∈ range (outRank p pre), chainMat pre is a c * tail post js c := by
  induction pre with
  | nil =>
    intro p is js a _ ha hi
    have : is = [] := List.length_eq_zero_iff.mp hi
    subst this
    simp only [List.nil_append, outRank, chainMat]
    rw [Finset.sum_eq_single a]
    · simp
    · intro c _ hne; simp [Ne.symm hne]
    · intro h; exact absurd (Finset.mem_range.mpr ha) h
  | cons x xs ih =>
    intro p is js a hw ha hi
    cases is with
    | nil => simp at hi
    | cons i is' =>
      simp only [List.cons_append, tail, sumTo_eq, outRank, chainMat, Finset.sum_mul]
      rw [Finset.sum_comm (s := range (outRank x.rr xs))]
      apply Finset.sum_congr rfl; intro b hb
      rw [ih x.rr is' js b hw.2 (Finset.mem_range.mp hb) (by simpa using hi), Finset.mul_sum]
      apply Finset.sum_congr rfl; intro c _; ring

end TN
