import TnVerif.Lemmas.Tools
import TnVerif.Lemmas.WF
import TnVerif.Lemmas.Deriv
import TnVerif.Model.PartialSet
import Mathlib.Tactic.Ring
/-! Lemmas for `partialset` / `tn.mask`: the slices of the stacked cores are iterated forward
    differences; gathering mask slices by label re-indexes the mask. -/
set_option linter.unusedSectionVars false
set_option linter.unusedSimpArgs false
open Finset
namespace TN
variable {R : Type} [CommRing R]

/-- `o`-fold forward difference of a sequence, each difference multiplied by `c = 1/step` -/
def diffIter (c : R) : Nat → (Nat → R) → Nat → R
  | 0, x => x
  | o + 1, x => diffIter c o (fun j => (x (j + 1) - x j) * c)

/-- mode by mode: along mode `n` the `o_n`-fold forward difference with `c_n`, evaluated at `i_n` -/
def multiDiff : List (R × Nat) → (List Nat → R) → List Nat → R
  | (c, o) :: os, f, i :: is => diffIter c o (fun j => multiDiff os (fun js => f (j :: js)) is) i
  | _, f, is => f is

theorem diffIter_linear (c : R) (k : Nat) (y : Nat → R) : ∀ (o : Nat) (x : Nat → Nat → R) (i : Nat),
    diffIter c o (fun j => ∑ b ∈ range k, x b j * y b) i = ∑ b ∈ range k, diffIter c o (x b) i * y b := by
  intro o
  induction o with
  | zero => intro x i; rfl
  | succ o ih =>
    intro x i
    simp only [diffIter]
    rw [← ih (fun b j => (x b (j + 1) - x b j) * c) i]
    congr 1
    funext j
    rw [← Finset.sum_sub_distrib, Finset.sum_mul]
    apply Finset.sum_congr rfl; intro b _; ring

theorem multiDiff_linear (os : List (R × Nat)) : ∀ (is : List Nat) (k : Nat) (y : Nat → R) (g : Nat → List Nat → R),
    multiDiff os (fun js => ∑ b ∈ range k, y b * g b js) is = ∑ b ∈ range k, y b * multiDiff os (g b) is := by
  induction os with
  | nil => intro is k y g; simp [multiDiff]
  | cons p os ih =>
    intro is k y g
    obtain ⟨c, o⟩ := p
    cases is with
    | nil => simp [multiDiff]
    | cons i is =>
      simp only [multiDiff]
      have h1 : (fun j => multiDiff os (fun js => ∑ b ∈ range k, y b * g b (j :: js)) is) =
          fun j => ∑ b ∈ range k, multiDiff os (fun js => g b (j :: js)) is * y b := by
        funext j
        rw [ih is k y (fun b js => g b (j :: js))]
        apply Finset.sum_congr rfl; intro b _; ring
      rw [h1, diffIter_linear c k y o (fun b j => multiDiff os (fun js => g b (j :: js)) is) i]
      apply Finset.sum_congr rfl; intro b _; ring

/-! ### cores -/

theorem Core.fwdDiff_get (c : R) (core : Core R) (a j b : Nat) :
    (core.fwdDiff c).get a j b = (core.get a (j + 1) b - core.get a j b) * c := by
  cases core with
  | tt r0 s r1 f => simp [Core.fwdDiff, Core.get, sub_eq_add_neg]
  | cp s r f => by_cases h : a = b <;> simp [Core.fwdDiff, Core.get, h, sub_eq_add_neg]
@[simp] theorem Core.fwdDiff_rl (c : R) (core : Core R) : (core.fwdDiff c).rl = core.rl := by cases core <;> rfl
@[simp] theorem Core.fwdDiff_rr (c : R) (core : Core R) : (core.fwdDiff c).rr = core.rr := by cases core <;> rfl
@[simp] theorem Core.fwdDiff_spatial (c : R) (core : Core R) : (core.fwdDiff c).spatial = core.spatial - 1 := by
  cases core <;> rfl
@[simp] theorem Core.fwdDiff_isCP (c : R) (core : Core R) : (core.fwdDiff c).isCP = core.isCP := by cases core <;> rfl

theorem Core.catSpatial_get (x y : Core R) (h : x.isCP = y.isCP) (a j b : Nat) :
    (x.catSpatial y).get a j b = if j < x.spatial then x.get a j b else y.get a (j - x.spatial) b := by
  cases x with
  | tt r0 s r1 f =>
    cases y with
    | tt r0' s' r1' g => rfl
    | cp s' r' g => simp [Core.isCP] at h
  | cp s r f =>
    cases y with
    | tt r0' s' r1' g => simp [Core.isCP] at h
    | cp s' r' g =>
      by_cases hab : a = b <;> by_cases hj : j < s <;> simp [Core.catSpatial, Core.get, Core.spatial, hab, hj]
theorem Core.catSpatial_rl (x y : Core R) : (x.catSpatial y).rl = x.rl := by cases x <;> cases y <;> rfl
theorem Core.catSpatial_rr (x y : Core R) : (x.catSpatial y).rr = x.rr := by cases x <;> cases y <;> rfl
theorem Core.catSpatial_isCP (x y : Core R) : (x.catSpatial y).isCP = x.isCP := by cases x <;> cases y <;> rfl
theorem Core.catSpatial_spatial (x y : Core R) (h : x.isCP = y.isCP) :
    (x.catSpatial y).spatial = x.spatial + y.spatial := by
  cases x <;> cases y <;> first | rfl | simp [Core.isCP] at h

/-! ### block positions and labels -/

theorem blockStart_succ' (s : Nat) : ∀ o, blockStart s (o + 1) = s + blockStart (s - 1) o := by
  intro o
  induction o with
  | zero => simp [blockStart]
  | succ o ih =>
    have e : blockStart s (o + 1 + 1) = blockStart s (o + 1) + (s - (o + 1)) := rfl
    have e' : blockStart (s - 1) (o + 1) = blockStart (s - 1) o + (s - 1 - o) := rfl
    rw [e, ih, e']; omega

theorem blockStart_mono (s : Nat) : ∀ (k o : Nat), o ≤ k → blockStart s o + (s - o) ≤ blockStart s (k + 1) := by
  intro k
  induction k with
  | zero => intro o h; have : o = 0 := by omega
            subst this; simp [blockStart]
  | succ k ih =>
    intro o h
    by_cases hk : o ≤ k
    · have := ih o hk
      have e : blockStart s (k + 1 + 1) = blockStart s (k + 1) + (s - (k + 1)) := rfl
      omega
    · have : o = k + 1 := by omega
      subst this; exact Nat.le_refl _

theorem blockLabels_length (s : Nat) : ∀ k, (blockLabels s k).length = blockStart s (k + 1) := by
  intro k
  induction k with
  | zero => simp [blockLabels, blockStart]
  | succ k ih =>
    simp only [blockLabels, List.length_append, List.length_replicate, ih]
    rfl

/-- the slice at position `blockStart s o + i` (`i < s − o`) carries the label `o` -/
theorem blockLabels_getD (s : Nat) : ∀ (k o i : Nat), o ≤ k → i < s - o →
    (blockLabels s k).getD (blockStart s o + i) 0 = o := by
  intro k
  induction k with
  | zero =>
    intro o i ho hi
    have : o = 0 := by omega
    subst this
    simp only [blockLabels, blockStart, Nat.zero_add]
    rw [List.getD_eq_getElem?_getD, List.getElem?_replicate]
    rw [if_pos (by omega)]; rfl
  | succ k ih =>
    intro o i ho hi
    simp only [blockLabels]
    by_cases hk : o ≤ k
    · have hlt : blockStart s o + i < (blockLabels s k).length := by
        rw [blockLabels_length]; have := blockStart_mono s k o hk; omega
      rw [List.getD_eq_getElem?_getD, List.getElem?_append_left hlt, ← List.getD_eq_getElem?_getD]
      exact ih o i hk hi
    · have : o = k + 1 := by omega
      subst this
      rw [List.getD_eq_getElem?_getD, List.getElem?_append_right (by rw [blockLabels_length]; omega),
        blockLabels_length, List.getElem?_replicate]
      have : blockStart s (k + 1) + i - blockStart s (k + 1) = i := by omega
      rw [this, if_pos hi]; rfl

/-! ### the stacked core -/

/-- **slices of the stack**: with `k < s` the loop does not raise; the result keeps kind and bond sizes,
    has `Σ_{o ≤ k} (s − o)` slices, and slice `blockStart s o + i` is the `o`-fold forward difference of
    the core's slices at `i` -/
theorem stackDiffs_spec (c : R) : ∀ (k : Nat) (core : Core R), k < core.spatial →
    ∃ st, stackDiffs c k core = some st ∧ st.isCP = core.isCP ∧ st.rl = core.rl ∧ st.rr = core.rr ∧
      st.spatial = blockStart core.spatial (k + 1) ∧
      ∀ o i a b, o ≤ k → i < core.spatial - o →
        st.get a (blockStart core.spatial o + i) b = diffIter c o (fun j => core.get a j b) i := by
  intro k
  induction k with
  | zero =>
    intro core _
    refine ⟨core, rfl, rfl, rfl, rfl, by simp [blockStart], ?_⟩
    intro o i a b ho _
    have : o = 0 := by omega
    subst this; simp [blockStart, diffIter]
  | succ k ih =>
    intro core hk
    have hne : (core.spatial == 1) = false := by simp; omega
    obtain ⟨rest, e1, e2, e3, e4, e5, e6⟩ := ih (core.fwdDiff c) (by simp; omega)
    have hkind : core.isCP = rest.isCP := by rw [e2]; simp
    refine ⟨core.catSpatial rest, ?_, Core.catSpatial_isCP _ _, Core.catSpatial_rl _ _, Core.catSpatial_rr _ _, ?_, ?_⟩
    · simp only [stackDiffs, hne, e1]; rfl
    · rw [Core.catSpatial_spatial _ _ hkind, e5, blockStart_succ' core.spatial (k + 1)]; simp
    · intro o i a b ho hi
      rw [Core.catSpatial_get _ _ hkind]
      cases o with
      | zero =>
        have : blockStart core.spatial 0 + i < core.spatial := by simp [blockStart]; omega
        rw [if_pos this]; simp [blockStart, diffIter]
      | succ o =>
        have hge : ¬ blockStart core.spatial (o + 1) + i < core.spatial := by
          rw [blockStart_succ']; omega
        rw [if_neg hge]
        have : blockStart core.spatial (o + 1) + i - core.spatial = blockStart (core.spatial - 1) o + i := by
          rw [blockStart_succ']; omega
        rw [this]
        have h6 := e6 o i a b (by omega) (by simp; omega)
        simp only [Core.fwdDiff_spatial] at h6
        rw [h6]
        simp only [diffIter, Core.fwdDiff_get]

/-- rows of the stacked tensor addressed by (order, offset) per mode -/
def stackRows : List Nat → List Nat → List Nat → List Nat
  | s :: ss, o :: os, i :: is => (blockStart s o + i) :: stackRows ss os is
  | _, _, _ => []

/-- per mode: the stack does not raise (`k < s`), the order is at most `k`, the offset is inside the block -/
def stackOK (k : Nat) : List Nat → List Nat → List Nat → Prop
  | s :: ss, o :: os, i :: is => k < s ∧ o ≤ k ∧ i < s - o ∧ stackOK k ss os is
  | [], [], [] => True
  | _, _, _ => False

theorem tail_partialStack (k : Nat) : ∀ (t : Tensor R) (cs : List R) (d : Tensor R) (os is : List Nat) (a : Nat),
    t.partialStack cs k = some d → cs.length = t.length → stackOK k t.shape os is →
    tail d.modes (stackRows t.shape os is) a =
      multiDiff (List.zip cs os) (fun js => tail t.modes js a) is := by
  intro t
  induction t with
  | nil =>
    intro cs d os is a hd hc hok
    cases cs with
    | cons _ _ => simp at hc
    | nil =>
      simp only [Tensor.partialStack, Option.some.injEq] at hd
      subst hd
      cases os <;> cases is <;> simp_all [stackOK, Tensor.shape, stackRows, Tensor.modes, tail, multiDiff]
  | cons m ms ih =>
    intro cs d os is a hd hc hok
    cases cs with
    | nil => simp at hc
    | cons c cs =>
      cases os with
      | nil => simp [stackOK, Tensor.shape] at hok
      | cons o os =>
        cases is with
        | nil => simp [stackOK, Tensor.shape] at hok
        | cons i is =>
          simp only [Tensor.shape, List.map_cons, stackOK] at hok
          obtain ⟨hk, ho, hi, hrest⟩ := hok
          obtain ⟨st, e1, e2, e3, e4, e5, e6⟩ := stackDiffs_spec c k m.decomp (by simpa using hk)
          simp only [Tensor.partialStack, e1] at hd
          cases hr : Tensor.partialStack ms cs k with
          | none => simp [hr] at hd
          | some rest =>
            simp only [hr, Option.some.injEq] at hd
            subst hd
            have ih' := fun b => ih cs rest os is b hr (by simpa using hc) hrest
            simp only [Tensor.shape] at ih'
            simp only [Tensor.modes, List.map_cons, Tensor.shape, stackRows, tail, sumTo_eq, TMode.toMode_rr, e4,
              TMode.decomp_rr, TMode.toMode_G, TMode.decomp_none, List.zip_cons_cons, multiDiff]
            simp only [Tensor.modes] at ih'
            have h6 : ∀ b, st.get a (blockStart m.n o + i) b = diffIter c o (fun j => m.decomp.get a j b) i := by
              intro b
              have := e6 o i a b ho (by simpa using hi)
              simpa using this
            simp only [h6, ih']
            rw [← diffIter_linear c m.core.rr _ o (fun b j => m.decomp.get a j b) i]
            congr 1
            funext j
            rw [multiDiff_linear (List.zip cs os) is m.core.rr (fun b => m.decomp.get a j b)
              (fun b js => tail (List.map TMode.toMode ms) js b)]

theorem partialStack_head_rl (k : Nat) (m : TMode R) (ms : Tensor R) (cs : List R) (d : Tensor R)
    (hd : Tensor.partialStack (m :: ms) cs k = some d) (hk : k < m.n) :
    ∃ m' ms', d = m' :: ms' ∧ m'.core.rl = m.core.rl := by
  cases cs with
  | nil => simp [Tensor.partialStack] at hd
  | cons c cs =>
    obtain ⟨st, e1, e2, e3, e4, e5, e6⟩ := stackDiffs_spec c k m.decomp (by simpa using hk)
    simp only [Tensor.partialStack, e1] at hd
    cases hr : Tensor.partialStack ms cs k with
    | none => simp [hr] at hd
    | some rest =>
      simp only [hr, Option.some.injEq] at hd
      exact ⟨_, _, hd.symm, by simpa using e3⟩

/-- **the stacked tensor `d` of `partialset`**: its entry at the slices addressed by (order `o_n`,
    offset `i_n`) per mode is the mixed forward difference of the decompressed input: along every mode `n`
    the `o_n`-fold difference with that mode's step, at `i_n` -/
theorem dense_partialStack (k : Nat) (t : Tensor R) (cs : List R) (d : Tensor R) (os is : List Nat)
    (hd : t.partialStack cs k = some d) (hc : cs.length = t.length) (hok : stackOK k t.shape os is) :
    dense d.modes (stackRows t.shape os is) = multiDiff (List.zip cs os) (fun js => dense t.modes js) is := by
  cases t with
  | nil =>
    cases cs with
    | cons _ _ => simp at hc
    | nil =>
      simp only [Tensor.partialStack, Option.some.injEq] at hd
      subst hd
      cases os <;> cases is <;> simp_all [stackOK, Tensor.shape, stackRows, Tensor.modes, dense, multiDiff]
  | cons m ms =>
    have hk : k < m.n := by
      cases os with
      | nil => simp [stackOK, Tensor.shape] at hok
      | cons o os =>
        cases is with
        | nil => simp [stackOK, Tensor.shape] at hok
        | cons i is => simp only [Tensor.shape, List.map_cons, stackOK] at hok; exact hok.1
    obtain ⟨m', ms', rfl, hrl⟩ := partialStack_head_rl k m ms cs d hd hk
    have ht := fun a => tail_partialStack k (m :: ms) cs (m' :: ms') os is a hd hc hok
    simp only [Tensor.modes, List.map_cons, dense, sumTo_eq, TMode.toMode_rl, hrl] at ht ⊢
    simp only [ht]
    have := multiDiff_linear (List.zip cs os) is m.core.rl (fun _ => (1 : R))
      (fun a js => tail (m.toMode :: List.map TMode.toMode ms) js a)
    simp only [one_mul] at this
    exact this.symm

theorem partialStack_wf_shape (k : Nat) : ∀ (t : Tensor R) (cs : List R) (d : Tensor R) (p : Nat),
    t.partialStack cs k = some d → (∀ s ∈ t.shape, k < s) → Tensor.WFfrom p t →
    Tensor.WFfrom p d ∧ d.shape = t.shape.map (fun s => blockStart s (k + 1)) ∧ d.length = t.length := by
  intro t
  induction t with
  | nil =>
    intro cs d p hd _ _
    simp only [Tensor.partialStack, Option.some.injEq] at hd
    subst hd; exact ⟨trivial, rfl, rfl⟩
  | cons m ms ih =>
    intro cs d p hd hk hw
    cases cs with
    | nil => simp [Tensor.partialStack] at hd
    | cons c cs =>
      have hkm : k < m.n := hk m.n (by simp [Tensor.shape])
      obtain ⟨st, e1, e2, e3, e4, e5, e6⟩ := stackDiffs_spec c k m.decomp (by simpa using hkm)
      simp only [Tensor.partialStack, e1] at hd
      cases hr : Tensor.partialStack ms cs k with
      | none => simp [hr] at hd
      | some rest =>
        simp only [hr, Option.some.injEq] at hd
        subst hd
        obtain ⟨h1, h2, h3⟩ := hw
        obtain ⟨i1, i2, i3⟩ := ih cs rest m.core.rr hr
          (fun s hs => hk s (by simp only [Tensor.shape, List.map_cons, List.mem_cons]; exact Or.inr hs)) h3
        refine ⟨⟨by simpa [e3] using h1, trivial, by simpa [e4] using i1⟩, ?_, by simp [i3]⟩
        simp only [Tensor.shape, List.map_cons, TMode.n_none, e5, TMode.decomp_spatial] at i2 ⊢
        rw [i2]

/-! ### `tn.mask`: gathering mask slices by (clamped) label -/

/-- the mask index a position of the masked tensor is matched with: its label, clamped to the mask's size -/
def clampLabels : List (List Nat) → List Nat → List Nat → List Nat
  | lab :: labs, n :: ns, i :: is => min (lab.getD i 0) (n - 1) :: clampLabels labs ns is
  | _, _, _ => []

theorem applyMaps_gather : ∀ (idxs : List (List Nat)) (mask : Tensor R) (is : List Nat) (f : List Nat → R),
    idxs.length = mask.length → is.length = mask.length → (∀ n ∈ mask.shape, 0 < n) →
    applyMaps (List.zipWith (fun lab (m : TMode R) => some (lab.length, sel (R := R) fun i => min (lab.getD i 0) (m.n - 1)))
      idxs mask) mask.shape f is = f (clampLabels idxs mask.shape is) := by
  intro idxs
  induction idxs with
  | nil =>
    intro mask is f h1 h2 _
    have : mask = [] := List.length_eq_zero_iff.mp h1.symm
    subst this
    have : is = [] := List.length_eq_zero_iff.mp (by simpa using h2)
    subst this
    simp [applyMaps, clampLabels, Tensor.shape]
  | cons lab labs ih =>
    intro mask is f h1 h2 hpos
    cases mask with
    | nil => simp at h1
    | cons m ms =>
      cases is with
      | nil => simp at h2
      | cons i is =>
        have hm : 0 < m.n := hpos m.n (by simp [Tensor.shape])
        simp only [List.zipWith_cons_cons, Tensor.shape, List.map_cons, applyMaps, clampLabels, sel]
        rw [Finset.sum_eq_single (min (lab.getD i 0) (m.n - 1))]
        · simp only [if_true, one_mul]
          have := ih ms is (fun js => f (min (lab.getD i 0) (m.n - 1) :: js)) (by simpa using h1) (by simpa using h2)
            (fun n hn => hpos n (by simp only [Tensor.shape, List.map_cons, List.mem_cons]; exact Or.inr hn))
          simp only [Tensor.shape] at this
          exact this
        · intro j _ hj; rw [if_neg hj, zero_mul]
        · intro hh; exact absurd (Finset.mem_range.mpr (by omega)) hh

theorem shape_gather : ∀ (idxs : List (List Nat)) (mask : Tensor R), idxs.length = mask.length →
    (mask.linModes (List.zipWith (fun lab (m : TMode R) => some (lab.length, sel (R := R) fun i => min (lab.getD i 0) (m.n - 1)))
      idxs mask)).shape = idxs.map List.length := by
  intro idxs
  induction idxs with
  | nil => intro mask h; have : mask = [] := List.length_eq_zero_iff.mp h.symm
           subst this; simp [Tensor.linModes, Tensor.shape]
  | cons lab labs ih =>
    intro mask h
    cases mask with
    | nil => simp at h
    | cons m ms =>
      have := ih ms (by simpa using h)
      simp only [Tensor.shape] at this
      simp only [List.zipWith_cons_cons, Tensor.linModes, Tensor.shape, List.map_cons, spatialLin_n_dv, this]


/-! ### the weight mask is a well-formed tensor -/

theorem weightMask_go_spec (W : List Nat) (r : Nat) : ∀ rest : List Nat,
    Tensor.WFfrom r (weightMask.go (R := R) W r rest) ∧ (weightMask.go (R := R) W r rest).shape = rest := by
  intro rest
  induction rest with
  | nil => exact ⟨trivial, rfl⟩
  | cons x xs ih =>
    cases xs with
    | nil => exact ⟨⟨rfl, trivial, trivial⟩, rfl⟩
    | cons y ys =>
      obtain ⟨i1, i2⟩ := ih
      refine ⟨⟨rfl, trivial, i1⟩, ?_⟩
      simp only [weightMask.go, Tensor.shape, List.map_cons] at i2 ⊢
      rw [i2]; rfl

theorem weightMask_wf_shape (W : List Nat) (r : Nat) (nss : List Nat) (hne : nss ≠ []) :
    (weightMask (R := R) W r nss).WF ∧ (weightMask (R := R) W r nss).shape = nss := by
  cases nss with
  | nil => exact absurd rfl hne
  | cons ns rest =>
    cases rest with
    | nil => exact ⟨⟨rfl, trivial, trivial⟩, rfl⟩
    | cons y ys =>
      obtain ⟨i1, i2⟩ := weightMask_go_spec (R := R) W r (y :: ys)
      refine ⟨⟨rfl, trivial, i1⟩, ?_⟩
      simp only [weightMask, Tensor.shape, List.map_cons] at i2 ⊢
      rw [i2]; rfl

theorem le_foldl_max : ∀ (l : List Nat) (init w : Nat), w ∈ l ∨ w ≤ init → w ≤ l.foldl max init := by
  intro l
  induction l with
  | nil => intro init w h; rcases h with h | h
           · simp at h
           · exact h
  | cons x xs ih =>
    intro init w h
    simp only [List.foldl_cons]
    apply ih
    rcases h with h | h
    · rcases List.mem_cons.mp h with rfl | h'
      · right; exact Nat.le_max_right _ _
      · left; exact h'
    · right; exact Nat.le_trans h (Nat.le_max_left _ _)

/-! ### existence of the stack, rows, labels -/

theorem partialStack_some (k : Nat) : ∀ (t : Tensor R) (cs : List R), cs.length = t.length →
    (∀ s ∈ t.shape, k < s) → ∃ d, t.partialStack cs k = some d := by
  intro t
  induction t with
  | nil => intro cs _ _; exact ⟨[], rfl⟩
  | cons m ms ih =>
    intro cs hc hk
    cases cs with
    | nil => simp at hc
    | cons c cs =>
      have hkm : k < m.n := hk m.n (by simp [Tensor.shape])
      obtain ⟨st, e1, _⟩ := stackDiffs_spec c k m.decomp (by simpa using hkm)
      obtain ⟨rest, hr⟩ := ih cs (by simpa using hc)
        (fun s hs => hk s (by simp only [Tensor.shape, List.map_cons, List.mem_cons]; exact Or.inr hs))
      exact ⟨{ core := st, U := Option.none } :: rest, by simp only [Tensor.partialStack, e1, hr]⟩

theorem stackRows_length (k : Nat) : ∀ (shape os is : List Nat), stackOK k shape os is →
    (stackRows shape os is).length = shape.length ∧ os.length = shape.length := by
  intro shape
  induction shape with
  | nil => intro os is h; cases os <;> cases is <;> simp_all [stackOK, stackRows]
  | cons s ss ih =>
    intro os is h
    cases os with
    | nil => simp [stackOK] at h
    | cons o os =>
      cases is with
      | nil => simp [stackOK] at h
      | cons i is =>
        obtain ⟨_, _, _, h'⟩ := h
        obtain ⟨a, b⟩ := ih os is h'
        simp [stackRows, a, b]

/-- the labels of the addressed slices are the orders themselves (the clamp to the mask size `k + 1`
    does nothing) -/
theorem clamp_stackRows (k : Nat) : ∀ (shape os is : List Nat), stackOK k shape os is →
    clampLabels (shape.map fun s => blockLabels s k) (List.replicate shape.length (k + 1)) (stackRows shape os is) = os := by
  intro shape
  induction shape with
  | nil => intro os is h; cases os <;> cases is <;> simp_all [stackOK, stackRows, clampLabels]
  | cons s ss ih =>
    intro os is h
    cases os with
    | nil => simp [stackOK] at h
    | cons o os =>
      cases is with
      | nil => simp [stackOK] at h
      | cons i is =>
        obtain ⟨_, h2, h3, h'⟩ := h
        simp only [List.map_cons, List.length_cons, List.replicate_succ, stackRows, clampLabels, ih os is h',
          blockLabels_getD s k o i h2 h3]
        congr 1; omega

end TN
