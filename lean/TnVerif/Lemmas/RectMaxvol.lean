import TnVerif.Model.RectMaxvol
import TnVerif.Lemmas.Sum
import Mathlib.Algebra.Field.Basic
import Mathlib.Algebra.Order.Field.Basic
import Mathlib.Algebra.Order.BigOperators.Ring.Finset
import Mathlib.Algebra.BigOperators.Ring.Finset
import Mathlib.Algebra.BigOperators.Intervals
import Mathlib.Tactic.FieldSimp
import Mathlib.Tactic.Ring
import Mathlib.Tactic.LinearCombination
/-! Helper lemmas for the rectangular maximum-volume routine (`Model/RectMaxvol.lean`): tabulation is the identity,
    `argmax` returns a first maximal position, the parameter clamps, the two algebraic identities of one
    augmentation (reconstruction and the row-norm update). -/
open Finset
namespace TN

section tab
variable {R : Type}

@[simp] theorem RmvVec.tab_get (n : Nat) (f : Nat → R) (a : Nat) : (RmvVec.tab n f).get a = f a := by
  simp only [RmvVec.tab, RmvVec.get]
  by_cases h : a < n
  · simp [h]
  · simp [h]

@[simp] theorem RmvMat.tab_get (n m : Nat) (f : Nat → Nat → R) (a b : Nat) : (RmvMat.tab n m f).get a b = f a b := by
  simp only [RmvMat.tab, RmvMat.get]
  by_cases h : a < n
  · by_cases h2 : b < m
    · simp [h, h2]
    · simp [h, h2]
  · simp [h]

@[simp] theorem RmvMat.ofFn_get (f : Nat → Nat → R) (a b : Nat) : (RmvMat.ofFn f).get a b = f a b := by
  simp [RmvMat.ofFn, RmvMat.get]

end tab

section argmax
variable {R : Type} [LinearOrder R]

theorem rectmvLt_irrefl (x : Option R) : rectmvLt x x = false := by
  cases x <;> simp [rectmvLt]

/-- `y ≤ x` and `x < z` give `¬ z < y` -/
theorem rectmvLt_not_of (x y z : Option R) (h1 : rectmvLt x y = false) (h2 : rectmvLt x z = true) :
    rectmvLt z y = false := by
  cases x <;> cases y <;> cases z <;> simp_all [rectmvLt]
  exact le_of_lt (lt_of_le_of_lt h1 h2)

/-- `y ≤ x` and `x < z` give `y < z` -/
theorem rectmvLt_of_le_of_lt (x y z : Option R) (h1 : rectmvLt x y = false) (h2 : rectmvLt x z = true) :
    rectmvLt y z = true := by
  cases x <;> cases y <;> cases z <;> simp_all [rectmvLt]
  exact lt_of_le_of_lt h1 h2

/-- the `argmax` is a position of the scanned range -/
theorem rectmvArgmaxTo_lt (w : Nat → Option R) : ∀ n, 0 < n → rectmvArgmaxTo w n < n := by
  intro n
  induction n with
  | zero => intro h; omega
  | succ n ih =>
    intro _
    simp only [rectmvArgmaxTo]
    split
    · omega
    · rcases Nat.eq_zero_or_pos n with h0 | hp
      · subst h0; simp [rectmvArgmaxTo]
      · have := ih hp; omega

/-- no scanned value is larger than the one at the `argmax` -/
theorem rectmvArgmaxTo_max (w : Nat → Option R) : ∀ n l, l < n → rectmvLt (w (rectmvArgmaxTo w n)) (w l) = false := by
  intro n
  induction n with
  | zero => intro l h; omega
  | succ n ih =>
    intro l hl
    simp only [rectmvArgmaxTo]
    split
    · rename_i hlt
      rcases Nat.lt_succ_iff_lt_or_eq.mp hl with h | h
      · exact rectmvLt_not_of _ _ _ (ih l h) hlt
      · subst h; exact rectmvLt_irrefl _
    · rename_i hnl
      rcases Nat.lt_succ_iff_lt_or_eq.mp hl with h | h
      · exact ih l h
      · subst h; simpa using hnl

/-- every value before the `argmax` is strictly smaller: `argmax` returns the FIRST maximal position -/
theorem rectmvArgmaxTo_first (w : Nat → Option R) : ∀ n l, l < rectmvArgmaxTo w n →
    rectmvLt (w l) (w (rectmvArgmaxTo w n)) = true := by
  intro n
  induction n with
  | zero => intro l h; simp [rectmvArgmaxTo] at h
  | succ n ih =>
    intro l hl
    simp only [rectmvArgmaxTo] at hl ⊢
    split
    · rename_i hlt
      simp only [hlt, if_true] at hl
      exact rectmvLt_of_le_of_lt _ _ _ (rectmvArgmaxTo_max w n l hl) hlt
    · rename_i hnl
      simp only [hnl] at hl
      exact ih l hl

/-- `argmax` of a sequence of `-inf` only is position 0 (NumPy: the first of equal values) -/
theorem rectmvArgmaxTo_none (w : Nat → Option R) : ∀ n, (∀ l, l < n → w l = none) → rectmvArgmaxTo w n = 0 := by
  intro n
  induction n with
  | zero => intro _; rfl
  | succ n ih =>
    intro h
    simp only [rectmvArgmaxTo]
    rw [ih (fun l hl => h l (by omega)), h n (Nat.lt_succ_self n)]
    cases w 0 <;> simp [rectmvLt]

end argmax

section masked
variable {K : Type} [Field K] [LinearOrder K]

theorem rectmvArgmax_lt (top : Nat) (chosen rns : RmvVec K) (h : 0 < top) : rectmvArgmax top chosen rns < top :=
  rectmvArgmaxTo_lt _ top h

/-- if some candidate row is still unchosen, the `argmax` is an unchosen row and no unchosen candidate has a larger
    `row_norm_sqr` -/
theorem rectmvArgmax_spec (top : Nat) (chosen rns : RmvVec K) (l : Nat) (hl : l < top) (hc : 0 < chosen.get l) :
    0 < chosen.get (rectmvArgmax top chosen rns) ∧ rns.get l ≤ rns.get (rectmvArgmax top chosen rns) := by
  have h := rectmvArgmaxTo_max (rectmvMasked chosen rns) top l hl
  simp only [rectmvArgmax]
  generalize rectmvArgmaxTo (rectmvMasked chosen rns) top = b at h ⊢
  simp only [rectmvMasked, hc, if_true] at h
  by_cases hb : 0 < chosen.get b
  · simp only [hb, if_true, rectmvLt, decide_eq_false_iff_not, not_lt] at h
    exact ⟨hb, h⟩
  · simp [hb, rectmvLt] at h

end masked

section params

/-- the clamps of maxvol.py:53-69 leave `r ≤ minK ≤ maxK ≤ N` and `r ≤ top_k_index ≤ N` (for `N > r`) -/
theorem rectmvParams_bounds (N r : Nat) (maxK minAddK minK : Option Int) (topK : Int) (h : r < N) :
    r ≤ (rectmvParams N r maxK minAddK minK topK).minK ∧
    (rectmvParams N r maxK minAddK minK topK).minK ≤ (rectmvParams N r maxK minAddK minK topK).maxK ∧
    (rectmvParams N r maxK minAddK minK topK).maxK ≤ N ∧
    r ≤ (rectmvParams N r maxK minAddK minK topK).top ∧ (rectmvParams N r maxK minAddK minK topK).top ≤ N := by
  cases maxK <;> cases minAddK <;> cases minK <;> simp only [rectmvParams] <;> (repeat' split) <;> omega

/-- with the default `top_k_index = -1` every row is a candidate -/
theorem rectmvParams_top_default (N r : Nat) (maxK minAddK minK : Option Int) (h : r < N) :
    (rectmvParams N r maxK minAddK minK (-1)).top = N := by
  cases maxK <;> cases minAddK <;> cases minK <;> simp only [rectmvParams] <;> (repeat' split) <;>
    first | omega | (exfalso; simp_all)

end params

section algebra
variable {K : Type} [Field K] [LinearOrder K] [IsStrictOrderedRing K]

omit [LinearOrder K] [IsStrictOrderedRing K] in
/-- the reconstruction identity of one augmentation: if `a = Σ x_k b_k` and `ai = Σ c_k b_k` then
    `Σ (x_k − λ·vl·c_k) b_k + λ·vl·ai = a`, for every `λ`, `vl` -/
theorem rectmv_recon_update (m : Nat) (x c b : Nat → K) (lam vl a ai : K)
    (ha : a = ∑ k ∈ range m, x k * b k) (hai : ai = ∑ k ∈ range m, c k * b k) :
    (∑ k ∈ range m, (x k + (-lam) * vl * c k) * b k) + lam * vl * ai = a := by
  have e : ∀ k ∈ range m, (x k + (-lam) * vl * c k) * b k = x k * b k - lam * vl * (c k * b k) := by
    intro k _; ring
  rw [Finset.sum_congr rfl e, Finset.sum_sub_distrib, ← Finset.mul_sum, ← ha, ← hai]
  ring

/-- the row-norm update of one augmentation: with `vi = ‖c‖²`, `vl = x·c`, `λ = 1/(1+vi)`,
    `‖[x − λ·vl·c , λ·vl]‖² = ‖x‖² − λ·vl²` -/
theorem rectmv_norm_update (m : Nat) (x c : Nat → K) (lam vl vi : K)
    (hvi : vi = ∑ k ∈ range m, c k * c k) (hvl : vl = ∑ k ∈ range m, x k * c k) (hlam : lam = 1 / (1 + vi)) :
    (∑ k ∈ range m, (x k + (-lam) * vl * c k) * (x k + (-lam) * vl * c k)) + (lam * vl) * (lam * vl)
      = (∑ k ∈ range m, x k * x k) + -(lam * vl * vl) := by
  have hpos : 0 ≤ vi := by
    rw [hvi]; exact Finset.sum_nonneg fun k _ => mul_self_nonneg (c k)
  have hne : (1 + vi) ≠ 0 := by
    exact ne_of_gt (add_pos_of_pos_of_nonneg one_pos hpos)
  have hl : lam * (1 + vi) = 1 := by rw [hlam]; field_simp
  have e : ∀ k ∈ range m, (x k + (-lam) * vl * c k) * (x k + (-lam) * vl * c k)
      = x k * x k - 2 * lam * vl * (x k * c k) + lam * lam * vl * vl * (c k * c k) := by
    intro k _; ring
  rw [Finset.sum_congr rfl e, Finset.sum_add_distrib, Finset.sum_sub_distrib, ← Finset.mul_sum, ← Finset.mul_sum,
    ← hvl, ← hvi]
  linear_combination (lam * vl * vl) * hl

end algebra

section step
variable {K : Type} [Field K] [LinearOrder K]

/-- `v = C · c` with `c = C[i]` (maxvol.py:97-98) -/
def rectmvV (s : RMVState K) (l : Nat) : K := ∑ k ∈ range s.K, s.C.get l k * s.C.get s.i k

/-- `l = 1 / (1 + v[i])` (maxvol.py:99) -/
def rectmvLam (s : RMVState K) : K := 1 / (1 + rectmvV s s.i)

@[simp] theorem rectmvStep_K (N top : Nat) (s : RMVState K) : (rectmvStep N top s).K = s.K + 1 := rfl

theorem rectmvStep_index (N top : Nat) (s : RMVState K) (k : Nat) :
    (rectmvStep N top s).index.get k = if k = s.K then s.i else s.index.get k := by
  simp [rectmvStep]

theorem rectmvStep_chosen (N top : Nat) (s : RMVState K) (l : Nat) :
    (rectmvStep N top s).chosen.get l = if l = s.i then 0 else s.chosen.get l := by
  simp [rectmvStep]

theorem rectmvStep_C (N top : Nat) (s : RMVState K) (l k : Nat) :
    (rectmvStep N top s).C.get l k =
      if k < s.K then s.C.get l k + (-rectmvLam s) * rectmvV s l * s.C.get s.i k else rectmvLam s * rectmvV s l := by
  simp [rectmvStep, rectmvLam, rectmvV, sumTo_eq]

theorem rectmvStep_rns (N top : Nat) (s : RMVState K) (l : Nat) :
    (rectmvStep N top s).rns.get l =
      (s.rns.get l + -(rectmvLam s * rectmvV s l * rectmvV s l)) * (if l = s.i then 0 else s.chosen.get l) := by
  simp [rectmvStep, rectmvLam, rectmvV, sumTo_eq]

theorem rectmvStep_i (N top : Nat) (s : RMVState K) :
    (rectmvStep N top s).i = rectmvArgmax top (rectmvStep N top s).chosen (rectmvStep N top s).rns := rfl

end step

section whole
variable {K : Type} [Field K] [LinearOrder K]

/-- `l · (1 + v[i]) = 1`: the denominator `1 + ‖c‖²` is positive in an ordered field -/
theorem rectmvLam_mul [IsStrictOrderedRing K] (s : RMVState K) : rectmvLam s * (1 + rectmvV s s.i) = 1 := by
  have hpos : 0 ≤ rectmvV s s.i := Finset.sum_nonneg fun k _ => mul_self_nonneg (s.C.get s.i k)
  have hne : (1 + rectmvV s s.i) ≠ 0 := ne_of_gt (add_pos_of_pos_of_nonneg one_pos hpos)
  rw [rectmvLam]; field_simp

/-! the state before the loop -/

theorem rectmvInit_K (N r top : Nat) (tmp : Nat → Nat) (C0 : Nat → Nat → K) : (rectmvInit N r top tmp C0).K = r := rfl

theorem rectmvInit_index (N r top : Nat) (tmp : Nat → Nat) (C0 : Nat → Nat → K) (k : Nat) :
    (rectmvInit N r top tmp C0).index.get k = if k < r then tmp k else 0 := by simp [rectmvInit]

theorem rectmvInit_C (N r top : Nat) (tmp : Nat → Nat) (C0 : Nat → Nat → K) (l k : Nat) :
    (rectmvInit N r top tmp C0).C.get l k = C0 l k := by simp [rectmvInit]

theorem rectmvInit_chosen (N r top : Nat) (tmp : Nat → Nat) (C0 : Nat → Nat → K) (l : Nat) :
    (rectmvInit N r top tmp C0).chosen.get l = if ∃ k, k < r ∧ tmp k = l then 0 else 1 := by
  simp [rectmvInit]

theorem rectmvInit_rns (N r top : Nat) (tmp : Nat → Nat) (C0 : Nat → Nat → K) (l : Nat) :
    (rectmvInit N r top tmp C0).rns.get l =
      (rectmvInit N r top tmp C0).chosen.get l * ∑ k ∈ range r, C0 l k * C0 l k := by
  simp [rectmvInit, sumTo_eq]

/-! the final assignment `C[index[:K]] = eye(K)` -/

omit [LinearOrder K] in
/-- rows that are not chosen are left alone by the final assignment -/
theorem rectmvSetRows_other (index : Nat → Nat) (C : Nat → Nat → K) (l : Nat) :
    ∀ m, (∀ k, k < m → index k ≠ l) → ∀ c, rectmvSetRows index C m l c = C l c := by
  intro m
  induction m with
  | zero => intro _ c; rfl
  | succ m ih =>
    intro h c
    simp only [rectmvSetRows]
    have : l ≠ index m := fun e => h m (Nat.lt_succ_self m) e.symm
    simp only [this, if_false]
    exact ih (fun k hk => h k (by omega)) c

omit [LinearOrder K] in
/-- the `k`-th chosen row becomes the `k`-th unit vector when the chosen rows are pairwise distinct -/
theorem rectmvSetRows_chosen (index : Nat → Nat) (C : Nat → Nat → K) :
    ∀ m, (∀ k, k < m → ∀ k', k' < m → k ≠ k' → index k ≠ index k') →
      ∀ k, k < m → ∀ c, rectmvSetRows index C m (index k) c = if k = c then 1 else 0 := by
  intro m
  induction m with
  | zero => intro _ k hk; omega
  | succ m ih =>
    intro hd k hk c
    simp only [rectmvSetRows]
    by_cases e : k = m
    · subst e; simp
    · have : index k ≠ index m := hd k hk m (Nat.lt_succ_self m) e
      simp only [this, if_false]
      exact ih (fun a ha b hb => hd a (by omega) b (by omega)) k (by omega) c

omit [LinearOrder K] in
/-- every row the final assignment writes is a unit vector `e_k` with `index[k]` = that row — distinct or not -/
theorem rectmvSetRows_row (index : Nat → Nat) (C : Nat → Nat → K) (l : Nat) :
    ∀ m, (∃ k, k < m ∧ index k = l ∧ ∀ c, rectmvSetRows index C m l c = if k = c then 1 else 0) ∨
      (∀ c, rectmvSetRows index C m l c = C l c) := by
  intro m
  induction m with
  | zero => right; intro c; rfl
  | succ m ih =>
    by_cases e : l = index m
    · left
      refine ⟨m, Nat.lt_succ_self m, e.symm, ?_⟩
      intro c; simp [rectmvSetRows, e]
    · rcases ih with ⟨k, hk, hk2, hk3⟩ | hr
      · left
        refine ⟨k, by omega, hk2, ?_⟩
        intro c; simp only [rectmvSetRows, e, if_false]; exact hk3 c
      · right
        intro c; simp only [rectmvSetRows, e, if_false]; exact hr c

/-- what `py_rect_maxvol` returns for a tall matrix -/
theorem pyRectMaxvol_tall (N r : Nat) (tol : K) (maxK minAddK minK : Option Int) (ident : Bool) (topK : Int)
    (tmp : Nat → Nat) (C0 : Nat → Nat → K) (hN : r < N) (htop : 0 < (rectmvParams N r maxK minAddK minK topK).top) :
    pyRectMaxvol N r tol maxK minAddK minK ident topK tmp C0 =
      some ⟨(List.range (rectmvLoop N (rectmvParams N r maxK minAddK minK topK).top (rectmvParams N r maxK minAddK minK topK).maxK
          (rectmvParams N r maxK minAddK minK topK).minK (tol * tol) ((rectmvParams N r maxK minAddK minK topK).maxK - r)
          (rectmvInit N r (rectmvParams N r maxK minAddK minK topK).top tmp C0)).K).map
        (rectmvLoop N (rectmvParams N r maxK minAddK minK topK).top (rectmvParams N r maxK minAddK minK topK).maxK
          (rectmvParams N r maxK minAddK minK topK).minK (tol * tol) ((rectmvParams N r maxK minAddK minK topK).maxK - r)
          (rectmvInit N r (rectmvParams N r maxK minAddK minK topK).top tmp C0)).index.get,
        (rectmvLoop N (rectmvParams N r maxK minAddK minK topK).top (rectmvParams N r maxK minAddK minK topK).maxK
          (rectmvParams N r maxK minAddK minK topK).minK (tol * tol) ((rectmvParams N r maxK minAddK minK topK).maxK - r)
          (rectmvInit N r (rectmvParams N r maxK minAddK minK topK).top tmp C0)).K,
        if ident = true then RmvMat.tab N (rectmvLoop N (rectmvParams N r maxK minAddK minK topK).top (rectmvParams N r maxK minAddK minK topK).maxK
          (rectmvParams N r maxK minAddK minK topK).minK (tol * tol) ((rectmvParams N r maxK minAddK minK topK).maxK - r)
          (rectmvInit N r (rectmvParams N r maxK minAddK minK topK).top tmp C0)).K
          (rectmvSetRows (rectmvLoop N (rectmvParams N r maxK minAddK minK topK).top (rectmvParams N r maxK minAddK minK topK).maxK
          (rectmvParams N r maxK minAddK minK topK).minK (tol * tol) ((rectmvParams N r maxK minAddK minK topK).maxK - r)
          (rectmvInit N r (rectmvParams N r maxK minAddK minK topK).top tmp C0)).index.get
          (rectmvLoop N (rectmvParams N r maxK minAddK minK topK).top (rectmvParams N r maxK minAddK minK topK).maxK
          (rectmvParams N r maxK minAddK minK topK).minK (tol * tol) ((rectmvParams N r maxK minAddK minK topK).maxK - r)
          (rectmvInit N r (rectmvParams N r maxK minAddK minK topK).top tmp C0)).C.get
          (rectmvLoop N (rectmvParams N r maxK minAddK minK topK).top (rectmvParams N r maxK minAddK minK topK).maxK
          (rectmvParams N r maxK minAddK minK topK).minK (tol * tol) ((rectmvParams N r maxK minAddK minK topK).maxK - r)
          (rectmvInit N r (rectmvParams N r maxK minAddK minK topK).top tmp C0)).K)
        else (rectmvLoop N (rectmvParams N r maxK minAddK minK topK).top (rectmvParams N r maxK minAddK minK topK).maxK
          (rectmvParams N r maxK minAddK minK topK).minK (tol * tol) ((rectmvParams N r maxK minAddK minK topK).maxK - r)
          (rectmvInit N r (rectmvParams N r maxK minAddK minK topK).top tmp C0)).C⟩ := by
  simp only [pyRectMaxvol, Nat.not_le.mpr hN, if_false, Nat.ne_of_gt htop]


end whole
end TN
