import TnVerif.Lemmas.Tools
import TnVerif.Lemmas.WF
import TnVerif.Model.Deriv
import TnVerif.Model.DerivOps
/-! Structural lemmas for `linModes` / `partial1` / `partialN` / `partialList`: length, shape, `WF`. -/
set_option linter.unusedSectionVars false
set_option linter.unusedSimpArgs false
open Finset
namespace TN
variable {R : Type} [CommSemiring R]

theorem length_linModes_dv (ls : List (Option (Nat × (Nat → Nat → R)))) :
    ∀ t : Tensor R, (t.linModes ls).length = t.length := by
  induction ls with
  | nil => intro t; simp [Tensor.linModes]
  | cons l ls ih =>
    intro t
    cases t with
    | nil => cases l <;> simp [Tensor.linModes]
    | cons m ms =>
      cases l with
      | none => simp [Tensor.linModes, ih ms]
      | some p => obtain ⟨rows, L⟩ := p; simp [Tensor.linModes, ih ms]

theorem spatialLin_n_dv (rows : Nat) (L : Nat → Nat → R) (m : TMode R) : (m.spatialLin rows L).n = rows := by
  have := congrArg Mode.n (toMode_spatialLin rows L m)
  simpa [Mode.lin] using this
theorem spatialLin_rl_dv (rows : Nat) (L : Nat → Nat → R) (m : TMode R) :
    (m.spatialLin rows L).core.rl = m.core.rl := by
  have := congrArg Mode.rl (toMode_spatialLin rows L m)
  simpa [Mode.lin] using this
theorem spatialLin_rr_dv (rows : Nat) (L : Nat → Nat → R) (m : TMode R) :
    (m.spatialLin rows L).core.rr = m.core.rr := by
  have := congrArg Mode.rr (toMode_spatialLin rows L m)
  simpa [Mode.lin] using this

/-- maps whose row count equals the size of the mode they act on leave the shape unchanged -/
theorem shape_linModes_same (ls : List (Option (Nat × (Nat → Nat → R)))) : ∀ t : Tensor R,
    (∀ k p, ls[k]? = some (some p) → p.1 = t.shape.getD k 0) → (t.linModes ls).shape = t.shape := by
  induction ls with
  | nil => intro t _; simp [Tensor.linModes]
  | cons l ls ih =>
    intro t h
    cases t with
    | nil => cases l <;> simp [Tensor.linModes]
    | cons m ms =>
      have htl : ∀ k p, ls[k]? = some (some p) → p.1 = (Tensor.shape ms).getD k 0 := by
        intro k p hk
        have := h (k + 1) p (by simpa using hk)
        simpa [Tensor.shape] using this
      cases l with
      | none =>
        simp only [Tensor.linModes, Tensor.shape, List.map_cons]
        have := ih ms htl
        simp only [Tensor.shape] at this
        rw [this]
      | some p =>
        obtain ⟨rows, L⟩ := p
        have h0 := h 0 (rows, L) (by simp)
        simp only [Tensor.shape, List.map_cons, List.getD_cons_zero] at h0
        simp only [Tensor.linModes, Tensor.shape, List.map_cons, spatialLin_n_dv]
        have := ih ms htl
        simp only [Tensor.shape] at this
        rw [this, h0]

theorem WFfrom_linModes_dv (ls : List (Option (Nat × (Nat → Nat → R)))) : ∀ (t : Tensor R) (p : Nat),
    Tensor.WFfrom p t → Tensor.WFfrom p (t.linModes ls) := by
  induction ls with
  | nil => intro t p h; simpa [Tensor.linModes] using h
  | cons l ls ih =>
    intro t p h
    cases t with
    | nil => cases l <;> simpa [Tensor.linModes] using h
    | cons m ms =>
      obtain ⟨h1, h2, h3⟩ := h
      cases l with
      | none => exact ⟨h1, h2, ih ms _ h3⟩
      | some q =>
        obtain ⟨rows, L⟩ := q
        refine ⟨by rw [spatialLin_rl_dv]; exact h1, spatialLin_ok rows L m h2, ?_⟩
        rw [spatialLin_rr_dv]; exact ih ms _ h3

theorem WF_linModes_dv (ls : List (Option (Nat × (Nat → Nat → R)))) (t : Tensor R) (h : t.WF) :
    (t.linModes ls).WF := by
  cases t with
  | nil => exact absurd h (by simp [Tensor.WF])
  | cons m ms =>
    have hw : Tensor.WFfrom m.core.rl (Tensor.linModes ls (m :: ms)) := WFfrom_linModes_dv ls (m :: ms) _ h
    exact WF_of_WFfrom _ _ hw (by
      intro he
      have := congrArg List.length he
      rw [length_linModes_dv] at this
      simp at this)

section
variable {R : Type} [CommRing R]

theorem partial1_length (t : Tensor R) (d : Nat) (c : R) (per : Bool) : (t.partial1 d c per).length = t.length := by
  unfold Tensor.partial1; exact length_linModes_dv _ t

theorem partial1_shape (t : Tensor R) (d : Nat) (c : R) (per : Bool) : (t.partial1 d c per).shape = t.shape := by
  unfold Tensor.partial1
  apply shape_linModes_same
  intro k p hk
  simp only [List.getElem?_map, List.getElem?_range] at hk
  by_cases hkl : k < t.length
  · simp only [List.getElem?_range hkl, Option.map_some, Option.some.injEq] at hk
    by_cases hkd : k = d
    · simp only [hkd, if_true, Option.some.injEq] at hk
      rw [← hk, hkd]
    · simp [hkd] at hk
  · have : (List.range t.length)[k]? = none := by simp; omega
    simp [this] at hk

theorem partial1_WF (t : Tensor R) (d : Nat) (c : R) (per : Bool) (h : t.WF) : (t.partial1 d c per).WF := by
  unfold Tensor.partial1; exact WF_linModes_dv _ t h

theorem partialN_length (t : Tensor R) (d : Nat) (c : R) (per : Bool) (k : Nat) :
    (t.partialN d c per k).length = t.length := by
  induction k with
  | zero => rfl
  | succ k ih => simp only [Tensor.partialN, partial1_length, ih]

theorem partialN_shape (t : Tensor R) (d : Nat) (c : R) (per : Bool) (k : Nat) :
    (t.partialN d c per k).shape = t.shape := by
  induction k with
  | zero => rfl
  | succ k ih => simp only [Tensor.partialN, partial1_shape, ih]

theorem partialN_WF (t : Tensor R) (d : Nat) (c : R) (per : Bool) (k : Nat) (h : t.WF) :
    (t.partialN d c per k).WF := by
  induction k with
  | zero => exact h
  | succ k ih => exact partial1_WF _ d c per ih

theorem partialList_nil (t : Tensor R) (order : Nat) : t.partialList order [] = t := rfl
theorem partialList_cons (t : Tensor R) (order : Nat) (s : Nat × R × Bool) (specs : List (Nat × R × Bool)) :
    t.partialList order (s :: specs) = (t.partialN s.1 s.2.1 s.2.2 order).partialList order specs := rfl

theorem partialList_length (order : Nat) (specs : List (Nat × R × Bool)) : ∀ t : Tensor R,
    (t.partialList order specs).length = t.length := by
  induction specs with
  | nil => intro t; rfl
  | cons s specs ih => intro t; rw [partialList_cons, ih, partialN_length]

theorem partialList_shape (order : Nat) (specs : List (Nat × R × Bool)) : ∀ t : Tensor R,
    (t.partialList order specs).shape = t.shape := by
  induction specs with
  | nil => intro t; rfl
  | cons s specs ih => intro t; rw [partialList_cons, ih, partialN_shape]

theorem partialList_WF (order : Nat) (specs : List (Nat × R × Bool)) : ∀ t : Tensor R, t.WF →
    (t.partialList order specs).WF := by
  induction specs with
  | nil => intro t h; exact h
  | cons s specs ih => intro t h; rw [partialList_cons]; exact ih _ (partialN_WF t _ _ _ _ h)

end
end TN
