import TnVerif.Lemmas.Cat
import TnVerif.Lemmas.Scalar
import TnVerif.Model.Pad
/-! Helper lemmas for `tn.pad`: zero padding evaluated explicitly, well-formedness / shape of `linModes`,
    the all-ones tensor, and subtraction. -/
set_option linter.unusedSectionVars false
set_option linter.unusedSimpArgs false
open Finset
namespace TN
variable {R : Type}

/-- the index lies inside the original box on every padded mode -/
def padInside : List (Option Nat) → List Nat → List Nat → Bool
  | some _ :: ss, n :: ns, i :: is => decide (i < n) && padInside ss ns is
  | Option.none :: ss, _ :: ns, _ :: is => padInside ss ns is
  | _, _, _ => true

/-- the shape after padding: the new size on padded modes, the old one elsewhere -/
def padShape (sizes : List (Option Nat)) (shape : List Nat) : List Nat :=
  List.zipWith (fun (s : Option Nat) n => s.getD n) sizes shape

/-- every new size is at least the old one (else `torch.ones` of a negative size raises) -/
def padGE : List (Option Nat) → List Nat → Prop
  | some n' :: ss, n :: ns => n ≤ n' ∧ padGE ss ns
  | Option.none :: ss, _ :: ns => padGE ss ns
  | _, _ => True

theorem padInside_iff : ∀ (sizes : List (Option Nat)) (shape idx : List Nat), sizes.length = shape.length →
    idx.length = shape.length →
    (padInside sizes shape idx = true ↔
      ∀ k n', sizes[k]? = some (some n') → idx.getD k 0 < shape.getD k 0) := by
  intro sizes
  induction sizes with
  | nil => intro shape idx _ _; simp [padInside]
  | cons s ss ih =>
    intro shape idx hs hi
    cases shape with
    | nil => simp at hs
    | cons n ns =>
      cases idx with
      | nil => simp at hi
      | cons i is =>
        have ih' := ih ns is (by simpa using hs) (by simpa using hi)
        cases s with
        | none =>
          simp only [padInside, ih']
          constructor
          · intro h k n' hk
            cases k with
            | zero => simp at hk
            | succ k => simpa using h k n' (by simpa using hk)
          · intro h k n' hk
            simpa using h (k + 1) n' (by simpa using hk)
        | some n0 =>
          simp only [padInside, Bool.and_eq_true, decide_eq_true_eq, ih']
          constructor
          · rintro ⟨h0, h⟩ k n' hk
            cases k with
            | zero => simpa using h0
            | succ k => simpa using h k n' (by simpa using hk)
          · intro h
            refine ⟨by simpa using h 0 n0 (by simp), ?_⟩
            intro k n' hk
            simpa using h (k + 1) n' (by simpa using hk)

section semiring
variable [CommSemiring R]

/-- zero padding, evaluated: inside the original box (on the padded modes) the array is unchanged, outside it is 0 -/
theorem applyMaps_pad : ∀ (sizes : List (Option Nat)) (t : Tensor R) (f : List Nat → R) (idx : List Nat),
    sizes.length = t.length → idx.length = t.length →
    applyMaps (List.zipWith (fun (s : Option Nat) (m : TMode R) => s.map fun n' => (n', embedL 0 m.n)) sizes t) t.shape f idx =
      if padInside sizes t.shape idx = true then f idx else 0 := by
  intro sizes
  induction sizes with
  | nil => intro t f idx _ _; simp [applyMaps, padInside]
  | cons s ss ih =>
    intro t f idx hs hi
    cases t with
    | nil => simp at hs
    | cons m ms =>
      cases idx with
      | nil => simp at hi
      | cons i is =>
        have hs' : ss.length = ms.length := by simpa using hs
        have hi' : is.length = ms.length := by simpa using hi
        cases s with
        | none =>
          simp only [List.zipWith_cons_cons, Option.map_none, Tensor.shape, List.map_cons, applyMaps, padInside]
          exact ih ms (fun js => f (i :: js)) is hs' hi'
        | some n' =>
          simp only [List.zipWith_cons_cons, Option.map_some, Tensor.shape, List.map_cons, applyMaps, padInside,
            Bool.and_eq_true, decide_eq_true_eq]
          have hstep : ∀ j, applyMaps (List.zipWith (fun (s : Option Nat) (m : TMode R) => s.map fun n' => (n', embedL 0 m.n)) ss ms)
              (List.map TMode.n ms) (fun js => f (j :: js)) is =
              if padInside ss (List.map TMode.n ms) is = true then f (j :: is) else 0 := by
            intro j
            exact ih ms (fun js => f (j :: js)) is hs' hi'
          simp only [hstep]
          rw [embed_row_off 0 m.n i (fun j => if padInside ss (List.map TMode.n ms) is = true then f (j :: is) else 0)]
          by_cases h1 : i < m.n <;> by_cases h2 : padInside ss (List.map TMode.n ms) is = true <;> simp [h1, h2]

theorem dense_pad0 (t : Tensor R) (sizes : List (Option Nat)) (idx : List Nat) (hd : sizes.length = t.length)
    (hi : idx.length = t.length) :
    (t.pad0 sizes).dense idx = if padInside sizes t.shape idx = true then t.dense idx else 0 := by
  unfold Tensor.pad0 Tensor.dense
  rw [dense_linModes t _ idx (by simp [hd]) hi]
  exact applyMaps_pad sizes t _ idx hd hi

theorem WFfrom_linModes : ∀ (ls : List (Option (Nat × (Nat → Nat → R)))) (t : Tensor R) (p : Nat),
    Tensor.WFfrom p t → Tensor.WFfrom p (t.linModes ls) := by
  intro ls
  induction ls with
  | nil => intro t p h; cases t <;> simpa [Tensor.linModes] using h
  | cons l ls ih =>
    intro t p h
    cases t with
    | nil => cases l <;> simpa [Tensor.linModes] using h
    | cons m ms =>
      obtain ⟨h1, h2, h3⟩ := h
      cases l with
      | none => exact ⟨h1, h2, ih ms _ h3⟩
      | some q =>
        obtain ⟨rows, L⟩ := q
        refine ⟨by rw [spatialLin_rl]; exact h1, spatialLin_ok rows L m h2, ?_⟩
        rw [spatialLin_rr]; exact ih ms _ h3

theorem WF_linModes (ls : List (Option (Nat × (Nat → Nat → R)))) (t : Tensor R) (h : t.WF) : (t.linModes ls).WF := by
  cases t with
  | nil => exact absurd h (by simp [Tensor.WF])
  | cons m ms =>
    have := WFfrom_linModes ls (m :: ms) _ h
    cases ls with
    | nil => simpa [Tensor.linModes] using h
    | cons l ls =>
      cases l with
      | none => simpa [Tensor.linModes, Tensor.WF] using this
      | some q =>
        obtain ⟨rows, L⟩ := q
        simp only [Tensor.linModes, Tensor.WF] at this ⊢
        rw [spatialLin_rl]; exact this

theorem WF_pad0 (t : Tensor R) (sizes : List (Option Nat)) (h : t.WF) : (t.pad0 sizes).WF :=
  WF_linModes _ t h

theorem shape_pad0 : ∀ (sizes : List (Option Nat)) (t : Tensor R), sizes.length = t.length →
    (t.pad0 sizes).shape = padShape sizes t.shape := by
  intro sizes
  induction sizes with
  | nil => intro t h; cases t <;> simp_all [Tensor.pad0, Tensor.linModes, padShape, Tensor.shape]
  | cons s ss ih =>
    intro t h
    cases t with
    | nil => simp at h
    | cons m ms =>
      have := ih ms (by simpa using h)
      simp only [Tensor.pad0, Tensor.shape, padShape] at this
      cases s with
      | none =>
        simp only [Tensor.pad0, List.zipWith_cons_cons, Option.map_none, Tensor.linModes, Tensor.shape, List.map_cons,
          padShape, Option.getD_none, this]
      | some n' =>
        simp only [Tensor.pad0, List.zipWith_cons_cons, Option.map_some, Tensor.linModes, Tensor.shape, List.map_cons,
          padShape, Option.getD_some, this, spatialLin_n]

/-! ### the all-ones tensor -/

theorem onesTT_eq_constLike (ss : List Nat) (hne : ss ≠ []) : Tensor.onesTT (R := R) ss = Tensor.constLike 1 ss := by
  cases ss with
  | nil => exact absurd rfl hne
  | cons s ss => rfl

theorem dense_onesTT (ss idx : List Nat) (hne : ss ≠ []) (hi : idx.length = ss.length) :
    (Tensor.onesTT (R := R) ss).dense idx = 1 := by
  rw [onesTT_eq_constLike ss hne]; exact dense_constLike 1 ss idx hne hi

theorem WF_onesTT (ss : List Nat) (hne : ss ≠ []) : (Tensor.onesTT (R := R) ss).WF := by
  rw [onesTT_eq_constLike ss hne]; exact WF_constLike 1 ss hne

theorem shape_onesTT (ss : List Nat) : (Tensor.onesTT (R := R) ss).shape = ss := by
  simp [Tensor.onesTT, Tensor.shape, TMode.n, List.map_map, Function.comp_def, Core.spatial]

end semiring

section ring
variable [CommRing R]

theorem Tensor.sub_dense_eq (t u : Tensor R) (ht : t.WF) (hu : u.WF) (hs : t.shape = u.shape)
    (idx : List Nat) (hi : idx.length = t.length) : (t.sub u).dense idx = t.dense idx - u.dense idx := by
  have hlen : t.length = u.length := by simpa [shape_length] using congrArg List.length hs
  have hne : u ≠ [] := by intro h; subst h; simp [Tensor.WF] at hu
  unfold Tensor.sub Tensor.neg
  rw [Tensor.add_dense_eq t _ ht (WF_scalarMul _ _ u hu) (by rw [shape_scalarMul]; exact hs)]
  unfold Tensor.dense
  rw [dense_scalarMul 1 (-1) u idx hne (by rw [hi, hlen])]
  simp; ring

theorem Tensor.sub_wf_shape_eq (t u : Tensor R) (ht : t.WF) (hu : u.WF) (hs : t.shape = u.shape) :
    (t.sub u).WF ∧ (t.sub u).shape = t.shape := by
  unfold Tensor.sub Tensor.neg
  exact Tensor.add_wf_shape_eq t _ ht (WF_scalarMul _ _ u hu) (by rw [shape_scalarMul]; exact hs)

/-- the pieces of `padC`: all are well-formed, of the padded shape, with the expected entries -/
theorem padC_parts (t : Tensor R) (sizes : List (Option Nat)) (ρ sgn c : R) (ht : t.WF)
    (hd : sizes.length = t.length) (hc : sgn * ρ ^ t.length = c) :
    let P : Tensor R := (Tensor.onesTT t.shape).pad0 sizes
    let S : Tensor R := ((Tensor.onesTT P.shape).sub P).scalarMul ρ sgn
    S.WF ∧ S.shape = padShape sizes t.shape ∧
    ∀ idx : List Nat, idx.length = t.length →
      S.dense idx = c * (1 - if padInside sizes t.shape idx = true then 1 else 0) := by
  intro P S
  have hne : t.shape ≠ [] := by
    intro h; cases t with
    | nil => simp [Tensor.WF] at ht
    | cons _ _ => simp [Tensor.shape] at h
  have hO := WF_onesTT (R := R) t.shape hne
  have hOs := shape_onesTT (R := R) t.shape
  have hOl : (Tensor.onesTT (R := R) t.shape).length = t.length := by
    rw [← shape_length, hOs, shape_length]
  have hPw : P.WF := WF_pad0 _ _ hO
  have hPs : P.shape = padShape sizes t.shape := by
    show ((Tensor.onesTT t.shape).pad0 sizes).shape = _
    rw [shape_pad0 sizes _ (by rw [hOl]; exact hd), hOs]
  have hPl : P.shape.length = t.length := by
    rw [hPs]; simp [padShape, shape_length, hd]
  have hPne : P.shape ≠ [] := by
    intro h; rw [h] at hPl
    have : t.length ≠ 0 := by
      cases t with
      | nil => simp [Tensor.WF] at ht
      | cons _ _ => simp
    exact this hPl.symm
  have hPd : ∀ idx : List Nat, idx.length = t.length →
      P.dense idx = if padInside sizes t.shape idx = true then 1 else 0 := by
    intro idx hi
    show ((Tensor.onesTT t.shape).pad0 sizes).dense idx = _
    rw [dense_pad0 _ sizes idx (by rw [hOl]; exact hd) (by rw [hOl]; exact hi), hOs,
      dense_onesTT t.shape idx hne (by rw [hi, shape_length])]
  have hO2 := WF_onesTT (R := R) P.shape hPne
  have hO2s := shape_onesTT (R := R) P.shape
  have hO2l : (Tensor.onesTT (R := R) P.shape).length = t.length := by
    rw [← shape_length, hO2s, hPl]
  obtain ⟨hDw, hDs⟩ := Tensor.sub_wf_shape_eq _ P hO2 hPw hO2s
  have hDl : ((Tensor.onesTT (R := R) P.shape).sub P).length = t.length := by
    rw [← shape_length, hDs, hO2s, hPl]
  have hDne : (Tensor.onesTT (R := R) P.shape).sub P ≠ [] := by
    intro h; rw [h] at hDw; simp [Tensor.WF] at hDw
  refine ⟨WF_scalarMul _ _ _ hDw, by rw [shape_scalarMul, hDs, hO2s, hPs], ?_⟩
  intro idx hi
  show dense (((Tensor.onesTT P.shape).sub P).scalarMul ρ sgn).modes idx = _
  rw [dense_scalarMul ρ sgn _ idx hDne (by rw [hDl]; exact hi), hDl, hc]
  have := Tensor.sub_dense_eq _ P hO2 hPw hO2s idx (by rw [hO2l]; exact hi)
  unfold Tensor.dense at this
  rw [this]
  have h1 := dense_onesTT (R := R) P.shape idx hPne (by rw [hPl]; exact hi)
  have h2 := hPd idx hi
  unfold Tensor.dense at h1 h2
  rw [h1, h2]

end ring
end TN
