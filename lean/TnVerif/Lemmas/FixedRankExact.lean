import TnVerif.Lemmas.FixedRank
import Mathlib.LinearAlgebra.Matrix.Rank
/-! Exact reproduction of low-rank input by the fixed-rank TT constructor: the chain of facts from "every unfolding of `x` factors
    through `ρ`" to "every step of the truncation sweep discards singular values that are all zero beyond index `ρ`".

    * `fixedrank_sv_zero` (uses Mathlib's `Matrix.rank`): if `M = B·C` with inner dimension `ρ` and `M = U·diag(S)·Vh` with `UᵀU = I`,
      `Vh·Vhᵀ = I`, `S` non-negative and non-increasing, then `S_l = 0` for every `l ≥ ρ` (`rank diag(S) = #{S_l ≠ 0}`, `rank_mul_le_left`).
    * `fixedrank_FacLE_step`: the truncation step maps the open chain `Z` to `Y = Z·Vh_rᵀ`; a factorisation of an unfolding of `Z` through
      `ρ` gives one of the corresponding unfolding of `Y` through the same `ρ` (multiplying on the right does not raise the rank).
    * `fixedrank_core_factor`: the matrix handed to the SVD kernel is `Xᵀ·(unfolding)` with `X` the orthonormal interface, so it factors
      through `ρ` as well.
    * `fixedrank_capOK_of_fac`: induction over the sweep. -/
set_option linter.unusedSectionVars false
set_option linter.unusedVariables false
set_option linter.unusedSimpArgs false
open Finset
namespace TN
variable {K : Type} [Field K] [LinearOrder K] [IsStrictOrderedRing K]

/-- **singular values beyond the rank vanish** -/
theorem fixedrank_sv_zero {ι : Type} [Fintype ι] (m n ρ : Nat) (U : Nat → Nat → K) (S : Nat → K) (Vh : Nat → ι → K)
    (B : Nat → Nat → K) (C : Nat → ι → K)
    (hf : ∀ i, i < m → ∀ j, (∑ k ∈ range ρ, B i k * C k j) = ∑ l ∈ range n, U i l * (S l * Vh l j))
    (hU : ∀ k l, k < n → l < n → (∑ i ∈ range m, U i k * U i l) = if k = l then 1 else 0)
    (hV : ∀ k l, k < n → l < n → (∑ j, Vh k j * Vh l j) = if k = l then 1 else 0)
    (hmono : ∀ l l', l ≤ l' → l' < n → S l' ≤ S l) (hnn : ∀ l, l < n → 0 ≤ S l) :
    ∀ l, ρ ≤ l → l < n → S l = 0 := by
  classical
  let Um : Matrix (Fin m) (Fin n) K := Matrix.of fun i l => U i l
  let Vm : Matrix (Fin n) ι K := Matrix.of fun l j => Vh l j
  let Bm : Matrix (Fin m) (Fin ρ) K := Matrix.of fun i k => B i k
  let Cm : Matrix (Fin ρ) ι K := Matrix.of fun k j => C k j
  let d : Fin n → K := fun l => S l
  have hM : Bm * Cm = Um * Matrix.diagonal d * Vm := by
    ext i j
    rw [Matrix.mul_apply, Matrix.mul_apply]
    simp only [Matrix.mul_diagonal, Matrix.of_apply, Um, Vm, Bm, Cm, d]
    rw [Fin.sum_univ_eq_sum_range (fun k => B i k * C k j) ρ, hf i i.2 j,
      ← Fin.sum_univ_eq_sum_range (fun l => U i l * (S l * Vh l j)) n]
    apply Finset.sum_congr rfl; intro l _; ring
  have hUU : Um.transpose * Um = 1 := by
    ext k l
    simp only [Matrix.mul_apply, Matrix.transpose_apply, Matrix.of_apply, Um, Matrix.one_apply]
    rw [Fin.sum_univ_eq_sum_range (fun i => U i k * U i l) m, hU k l k.2 l.2]
    simp [Fin.ext_iff]
  have hVV : Vm * Vm.transpose = 1 := by
    ext k l
    simp only [Matrix.mul_apply, Matrix.transpose_apply, Matrix.of_apply, Vm, Matrix.one_apply]
    rw [hV k l k.2 l.2]
    simp [Fin.ext_iff]
  have hD : Matrix.diagonal d = (Um.transpose * Bm) * (Cm * Vm.transpose) := by
    calc Matrix.diagonal d = (Um.transpose * Um) * Matrix.diagonal d * (Vm * Vm.transpose) := by rw [hUU, hVV]; simp
      _ = Um.transpose * (Um * Matrix.diagonal d * Vm) * Vm.transpose := by simp only [Matrix.mul_assoc]
      _ = _ := by rw [← hM]; simp only [Matrix.mul_assoc]
  have hrank : Fintype.card {i : Fin n // d i ≠ 0} ≤ ρ := by
    rw [← Matrix.rank_diagonal, hD]
    exact le_trans (Matrix.rank_mul_le_left _ _) (Matrix.rank_le_width _)
  intro l hl hln
  by_contra hne
  have hpos : 0 < S l := lt_of_le_of_ne (hnn l hln) (Ne.symm hne)
  let f : Fin (l + 1) → {i : Fin n // d i ≠ 0} := fun t =>
    ⟨⟨t.1, by omega⟩, ne_of_gt (lt_of_lt_of_le hpos (hmono t.1 l (by omega) hln))⟩
  have hinj : Function.Injective f := by
    intro a b hab
    have := congrArg (fun z => (z.1 : Fin n).1) hab
    exact Fin.ext this
  have := Fintype.card_le_of_injective f hinj
  simp only [Fintype.card_fin] at this
  omega

/-- what `torch.linalg.svd` guarantees about the singular values: non-negative and in non-increasing order -/
def fixedrank_svSorted (A : SVDAns K) : Prop :=
  (∀ l l', l ≤ l' → l' < A.n → A.S l' ≤ A.S l) ∧ ∀ l, l < A.n → 0 ≤ A.S l

/-- the open reversed chain `l` (entries `openRev l is b`), unfolded after its first `j` listed modes (= the LAST `j` modes in forward
    order, together with the open bond, form the columns), factors through `ρ` -/
def fixedrank_FacLE (l : List (Mode K)) (j ρ : Nat) : Prop :=
  ∃ (B : List Nat → Nat → K) (C : Nat → List Nat → Nat → K), ∀ is, inShape is (shapeRev l) → ∀ b, b < topRank l →
    openRev l is b = ∑ k ∈ range ρ, B (is.drop j) k * C k (is.take j) b

/-- `M·Vh_kᵀ = U_k·S_k` for the kernel's SVD of the right unfolding -/
theorem fixedrank_svd_right (cur : Mode K) (A : SVDAns K) (h : SVDokM cur A) (a k : Nat) (ha : a < cur.rl) (hk : k < A.n) :
    (∑ i ∈ range cur.n, ∑ b ∈ range cur.rr, cur.G i a b * A.Vh k i b) = A.U a k * A.S k := by
  have e : ∀ i ∈ range cur.n, ∀ b ∈ range cur.rr, cur.G i a b * A.Vh k i b
      = ∑ l ∈ range A.n, (A.U a l * A.S l) * (A.Vh l i b * A.Vh k i b) := by
    intro i hi b hb
    rw [h.factor a ha i (Finset.mem_range.mp hi) b (Finset.mem_range.mp hb), Finset.sum_mul]
    apply Finset.sum_congr rfl; intro l _; ring
  rw [Finset.sum_congr rfl (fun i hi => Finset.sum_congr rfl (e i hi))]
  have e2 : (∑ i ∈ range cur.n, ∑ b ∈ range cur.rr, ∑ l ∈ range A.n, (A.U a l * A.S l) * (A.Vh l i b * A.Vh k i b))
      = ∑ l ∈ range A.n, (A.U a l * A.S l) * (∑ i ∈ range cur.n, ∑ b ∈ range cur.rr, A.Vh l i b * A.Vh k i b) := by
    calc _ = ∑ i ∈ range cur.n, ∑ l ∈ range A.n, ∑ b ∈ range cur.rr, (A.U a l * A.S l) * (A.Vh l i b * A.Vh k i b) := by
            apply Finset.sum_congr rfl; intro i _; rw [Finset.sum_comm]
      _ = ∑ l ∈ range A.n, ∑ i ∈ range cur.n, ∑ b ∈ range cur.rr, (A.U a l * A.S l) * (A.Vh l i b * A.Vh k i b) := by
            rw [Finset.sum_comm]
      _ = _ := by
            apply Finset.sum_congr rfl; intro l _
            rw [Finset.mul_sum]; apply Finset.sum_congr rfl; intro i _; rw [Finset.mul_sum]
  rw [e2, Finset.sum_eq_single k]
  · rw [h.orthoV k k hk hk]; simp
  · intro l hl hne
    rw [h.orthoV l k (Finset.mem_range.mp hl) hk]; simp [hne]
  · intro hh; exact absurd (Finset.mem_range.mpr hk) hh

/-- **a truncation step does not raise the rank of any unfolding**: the open chain after the step is the open chain before it
    multiplied on the right by `Vh_rᵀ` -/
theorem fixedrank_FacLE_step (p cur : Mode K) (rest : List (Mode K)) (A : SVDAns K) (r j ρ : Nat) (hr : r ≤ A.n)
    (hc : cur.rl = p.rr) (hsvd : SVDokM cur A) (h : fixedrank_FacLE (cur :: p :: rest) (j + 1) ρ) :
    fixedrank_FacLE ((roundStep p cur A r).1 :: rest) j ρ := by
  obtain ⟨B, C, hBC⟩ := h
  refine ⟨B, fun k js k' => ∑ i ∈ range cur.n, ∑ b ∈ range cur.rr, C k (i :: js) b * A.Vh k' i b, ?_⟩
  intro is his k' hk'
  have hk'' : k' < r := by simpa [topRank, roundStep] using hk'
  have hkn : k' < A.n := by omega
  have his' : inShape is (shapeRev (p :: rest)) := his
  rw [openRev_step p cur A r rest hc is k']
  have e1 : ∀ a ∈ range cur.rl, openRev (p :: rest) is a * (A.U a k' * A.S k')
      = ∑ i ∈ range cur.n, ∑ b ∈ range cur.rr, (openRev (p :: rest) is a * cur.G i a b) * A.Vh k' i b := by
    intro a ha
    rw [← fixedrank_svd_right cur A hsvd a k' (Finset.mem_range.mp ha) hkn, Finset.mul_sum]
    apply Finset.sum_congr rfl; intro i _
    rw [Finset.mul_sum]; apply Finset.sum_congr rfl; intro b _; ring
  rw [Finset.sum_congr rfl e1]
  have e2 : (∑ a ∈ range cur.rl, ∑ i ∈ range cur.n, ∑ b ∈ range cur.rr, (openRev (p :: rest) is a * cur.G i a b) * A.Vh k' i b)
      = ∑ i ∈ range cur.n, ∑ b ∈ range cur.rr, openRev (cur :: p :: rest) (i :: is) b * A.Vh k' i b := by
    rw [Finset.sum_comm]
    apply Finset.sum_congr rfl; intro i _
    rw [Finset.sum_comm]
    apply Finset.sum_congr rfl; intro b _
    rw [← Finset.sum_mul]; rfl
  rw [e2]
  have e3 : ∀ i ∈ range cur.n, ∀ b ∈ range cur.rr, openRev (cur :: p :: rest) (i :: is) b * A.Vh k' i b
      = ∑ k ∈ range ρ, B (is.drop j) k * (C k (i :: is.take j) b * A.Vh k' i b) := by
    intro i hi b hb
    rw [hBC (i :: is) ⟨Finset.mem_range.mp hi, his'⟩ b (by simpa [topRank] using Finset.mem_range.mp hb), Finset.sum_mul]
    apply Finset.sum_congr rfl; intro k _
    simp only [List.drop_succ_cons, List.take_succ_cons]; ring
  rw [Finset.sum_congr rfl (fun i hi => Finset.sum_congr rfl (e3 i hi))]
  calc _ = ∑ i ∈ range cur.n, ∑ k ∈ range ρ, ∑ b ∈ range cur.rr, B (is.drop j) k * (C k (i :: is.take j) b * A.Vh k' i b) := by
          apply Finset.sum_congr rfl; intro i _; rw [Finset.sum_comm]
    _ = ∑ k ∈ range ρ, ∑ i ∈ range cur.n, ∑ b ∈ range cur.rr, B (is.drop j) k * (C k (i :: is.take j) b * A.Vh k' i b) := by
          rw [Finset.sum_comm]
    _ = _ := by
          apply Finset.sum_congr rfl; intro k _
          rw [Finset.mul_sum]; apply Finset.sum_congr rfl; intro i _; rw [Finset.mul_sum]

/-- **the matrix handed to the SVD kernel factors through `ρ`** when the unfolding of the current (open) tensor at that bond does:
    it is `Xᵀ·unfolding` with `X` the orthonormal interface of the cores to the left -/
theorem fixedrank_core_factor (cur : Mode K) (rest : List (Mode K)) (ρ : Nat) (hlo : chainLO rest) (hrl : cur.rl = topRank rest)
    (h : fixedrank_FacLE (cur :: rest) 1 ρ) :
    ∃ (B' : Nat → Nat → K) (C' : Nat → Nat → Nat → K), ∀ a, a < cur.rl → ∀ i, i < cur.n → ∀ b, b < cur.rr →
      cur.G i a b = ∑ k ∈ range ρ, B' a k * C' k i b := by
  obtain ⟨B, C, hBC⟩ := h
  refine ⟨fun a k => boxSum (shapeRev rest) (fun is => openRev rest is a * B is k), fun k i b => C k [i] b, ?_⟩
  intro a ha i hi b hb
  have h1 : boxSum (shapeRev rest) (fun is => openRev rest is a * openRev (cur :: rest) (i :: is) b) = cur.G i a b := by
    have hp := boxSum_orth_pair (shapeRev rest) (topRank rest) (fun is c => openRev rest is c) (LO_iso rest hlo)
      (fun c => if c = a then 1 else 0) (fun c => cur.G i c b)
    have ea : ∀ x : List Nat, (∑ c ∈ range (topRank rest), openRev rest x c * (if c = a then (1 : K) else 0)) = openRev rest x a := by
      intro x
      rw [Finset.sum_eq_single a]
      · simp
      · intro c _ hne; simp [hne]
      · intro hh; exact absurd (Finset.mem_range.mpr (by rw [← hrl]; exact ha)) hh
    have eb : (∑ c ∈ range (topRank rest), (if c = a then (1 : K) else 0) * cur.G i c b) = cur.G i a b := by
      rw [Finset.sum_eq_single a]
      · simp
      · intro c _ hne; simp [hne]
      · intro hh; exact absurd (Finset.mem_range.mpr (by rw [← hrl]; exact ha)) hh
    rw [eb] at hp
    rw [← hp]
    apply boxSum_congr; intro x
    rw [ea x]
    simp only [openRev, hrl]
  rw [← h1]
  have h2 : boxSum (shapeRev rest) (fun is => openRev rest is a * openRev (cur :: rest) (i :: is) b)
      = boxSum (shapeRev rest) (fun is => ∑ k ∈ range ρ, (openRev rest is a * B is k) * C k [i] b) := by
    apply boxSum_congr_box; intro is his
    rw [hBC (i :: is) ⟨hi, his⟩ b (by simpa [topRank] using hb), Finset.mul_sum]
    apply Finset.sum_congr rfl; intro k _
    simp only [List.drop_succ_cons, List.drop_zero, List.take_succ_cons, List.take_zero]; ring
  rw [h2, boxSum_sum]
  apply Finset.sum_congr rfl; intro k _
  rw [boxSum_mul_right]

/-- **one step: the singular values from index `ρ` on are zero** when the unfolding of the current tensor at this bond factors through `ρ` -/
theorem fixedrank_step_sv_zero (cur : Mode K) (rest : List (Mode K)) (A : SVDAns K) (ρ : Nat) (hlo : chainLO rest)
    (hrl : cur.rl = topRank rest) (hsvd : SVDokM cur A) (hs : fixedrank_svSorted A) (h : fixedrank_FacLE (cur :: rest) 1 ρ) :
    ∀ l, ρ ≤ l → l < A.n → A.S l = 0 := by
  obtain ⟨B', C', hBC⟩ := fixedrank_core_factor cur rest ρ hlo hrl h
  apply fixedrank_sv_zero (ι := Fin cur.n × Fin cur.rr) cur.rl A.n ρ A.U A.S (fun l j => A.Vh l j.1 j.2) B' (fun k j => C' k j.1 j.2)
  · intro a ha j
    rw [← hBC a ha j.1 j.1.2 j.2 j.2.2, hsvd.factor a ha j.1 j.1.2 j.2 j.2.2]
  · exact hsvd.orthoU
  · intro k l hk hl
    rw [Fintype.sum_prod_type]
    rw [Fin.sum_univ_eq_sum_range (fun i => ∑ b : Fin cur.rr, A.Vh k i b * A.Vh l i b) cur.n, ← hsvd.orthoV k l hk hl]
    apply Finset.sum_congr rfl; intro i _
    rw [Fin.sum_univ_eq_sum_range (fun b => A.Vh k i b * A.Vh l i b) cur.rr]
  · exact hs.1
  · exact hs.2

/-- a list of factorisation ranks for the unfoldings after `j+1`, `j+2`, … listed modes -/
def fixedrank_facAll (l : List (Mode K)) : Nat → List Nat → Prop
  | _, [] => True
  | j, ρ :: ρs => fixedrank_FacLE l (j + 1) ρ ∧ fixedrank_facAll l (j + 1) ρs

/-- one rank per step of the sweep, each within that step's `rmax` -/
def fixedrank_fits : List Nat → List (SVDAns K × Nat) → Prop
  | _, [] => True
  | [], _ :: _ => False
  | ρ :: ρs, (_, rmax) :: as => ρ ≤ rmax ∧ fixedrank_fits ρs as

theorem fixedrank_facAll_step (p cur : Mode K) (rest : List (Mode K)) (A : SVDAns K) (r : Nat) (hr : r ≤ A.n)
    (hc : cur.rl = p.rr) (hsvd : SVDokM cur A) : ∀ (ρs : List Nat) (j : Nat),
    fixedrank_facAll (cur :: p :: rest) (j + 1) ρs → fixedrank_facAll ((roundStep p cur A r).1 :: rest) j ρs := by
  intro ρs
  induction ρs with
  | nil => intro j _; trivial
  | cons ρ ρs ih =>
    intro j ⟨h1, h2⟩
    exact ⟨fixedrank_FacLE_step p cur rest A r (j + 1) ρ hr hc hsvd h1, ih (j + 1) h2⟩

/-- **induction over the sweep**: if the unfoldings of the tensor entering the sweep factor through ranks that fit the requested
    `rmax`, then at every step either `rmax` does not bind or all singular values from index `rmax` on are zero -/
theorem fixedrank_capOK_of_fac (thr d2 : K) : ∀ (as : List (SVDAns K × Nat)) (rest : List (Mode K)) (cur : Mode K) (ρs : List Nat),
    chainLO rest → cur.rl = topRank rest → ansOK thr d2 (cur :: rest) as → (∀ Ar ∈ as, fixedrank_svSorted Ar.1) →
    fixedrank_fits ρs as → fixedrank_facAll (cur :: rest) 0 ρs → fixedrank_capOK thr d2 (cur :: rest) as := by
  intro as
  induction as with
  | nil => intro rest cur ρs _ _ _ _ _ _; cases rest <;> trivial
  | cons Ar as' ih =>
    intro rest cur ρs hlo hrl hok hsort hfit hfac
    obtain ⟨A, rmax⟩ := Ar
    match rest, hlo, hrl, hok with
    | [], _, _, _ => trivial
    | p :: rest', hlo, hrl, ⟨hsvd, h0, h1, hok'⟩ =>
      match ρs, hfit, hfac with
      | ρ :: ρs', ⟨hρ, hfit'⟩, ⟨hf1, hfac'⟩ =>
        have hsA : fixedrank_svSorted A := hsort (A, rmax) (by simp)
        have hA : stepAns thr A = A := by simp [stepAns, h0]
        have hr := stepRank_le thr d2 A rmax h0 h1
        have hcp : cur.rl = p.rr := by simpa [topRank] using hrl
        refine ⟨Or.inr ?_, ?_⟩
        · intro l hl hln
          exact fixedrank_step_sv_zero cur (p :: rest') A ρ hlo hrl hsvd hsA hf1 l (by omega) hln
        · rw [hA] at hok' ⊢
          exact ih rest' _ ρs' hlo.2.2 (by simpa [roundStep] using hlo.1) hok'
            (fun Ar hAr => hsort Ar (by simp [hAr])) hfit'
            (fixedrank_facAll_step p cur rest' A _ hr hcp hsvd ρs' 0 hfac')


/-! ### from the unfoldings of the dense input to the state entering the sweep -/

/-- **unfolding rank `≤ ρ`** of the dense array `x` (shape `shape`, row-major entries): the matrix whose rows are indexed by the first
    `N - c` modes and whose columns by the LAST `c` modes is a product of a `(rows × ρ)` and a `(ρ × columns)` matrix -/
def fixedrank_UnfoldLE (shape : List Nat) (x : Nat → K) (c ρ : Nat) : Prop :=
  ∃ (B : List Nat → Nat → K) (C : Nat → List Nat → K), ∀ idx, inShape idx shape →
    x (flat idx shape) = ∑ k ∈ range ρ, B (idx.take (shape.length - c)) k * C k (idx.drop (shape.length - c))

/-- ranks for the unfoldings with `j+1`, `j+2`, … column modes (processing order of the sweep: the bond next to the last mode first) -/
def fixedrank_unfoldAll (shape : List Nat) (x : Nat → K) : Nat → List Nat → Prop
  | _, [] => True
  | j, ρ :: ρs => fixedrank_UnfoldLE shape x (j + 1) ρ ∧ fixedrank_unfoldAll shape x (j + 1) ρs

theorem fixedrank_inShape_reverse : ∀ (is ss : List Nat), inShape is ss → inShape is.reverse ss.reverse := by
  have snoc : ∀ (is ss : List Nat) (i s : Nat), inShape is ss → i < s → inShape (is ++ [i]) (ss ++ [s]) := by
    intro is
    induction is with
    | nil => intro ss i s h hi; cases ss with
      | nil => exact ⟨hi, trivial⟩
      | cons _ _ => simp [inShape] at h
    | cons j js ih => intro ss i s h hi; cases ss with
      | nil => simp [inShape] at h
      | cons t ts => exact ⟨h.1, ih ts i s h.2 hi⟩
  intro is
  induction is with
  | nil => intro ss h; cases ss with
    | nil => trivial
    | cons _ _ => simp [inShape] at h
  | cons i is ih => intro ss h; cases ss with
    | nil => simp [inShape] at h
    | cons s ss =>
      rw [List.reverse_cons, List.reverse_cons]
      exact snoc _ _ i s (ih ss h.2) h.1

theorem fixedrank_take_reverse (is : List Nat) (N c : Nat) (h : is.length = N) :
    is.reverse.take (N - c) = (is.drop c).reverse ∧ is.reverse.drop (N - c) = (is.take c).reverse := by
  subst h
  by_cases hc : c ≤ is.length
  · constructor
    · rw [List.take_reverse]; congr 2; omega
    · rw [List.drop_reverse]; congr 2; omega
  · have h0 : is.length - c = 0 := by omega
    rw [h0, List.take_zero, List.drop_zero, List.drop_eq_nil_of_le (by omega), List.take_of_length_le (by omega)]
    exact ⟨rfl, rfl⟩

/-- the factorisation of an unfolding of `x` is one of the open reversed chain that represents `x` -/
theorem fixedrank_FacLE_of_unfold (l : List (Mode K)) (shape : List Nat) (x : Nat → K) (c ρ : Nat)
    (hsh : shapeRev l = shape.reverse) (ht : topRank l = 1)
    (hx : ∀ is, inShape is (shapeRev l) → openRev l is 0 = x (flat is.reverse shape))
    (h : fixedrank_UnfoldLE shape x c ρ) : fixedrank_FacLE l c ρ := by
  obtain ⟨B, C, hBC⟩ := h
  refine ⟨fun r k => B r.reverse k, fun k cs _ => C k cs.reverse, ?_⟩
  intro is his b hb
  have hb0 : b = 0 := by omega
  subst hb0
  rw [hx is his]
  have hin : inShape is.reverse shape := by
    have := fixedrank_inShape_reverse is (shapeRev l) his
    rwa [hsh, List.reverse_reverse] at this
  have hlen : is.length = shape.length := by
    have := inShape_length _ _ hin; simpa using this
  rw [hBC _ hin]
  obtain ⟨e1, e2⟩ := fixedrank_take_reverse is shape.length c hlen
  rw [e1, e2]

theorem fixedrank_facAll_of_unfold (l : List (Mode K)) (shape : List Nat) (x : Nat → K)
    (hsh : shapeRev l = shape.reverse) (ht : topRank l = 1)
    (hx : ∀ is, inShape is (shapeRev l) → openRev l is 0 = x (flat is.reverse shape)) : ∀ (ρs : List Nat) (j : Nat),
    fixedrank_unfoldAll shape x j ρs → fixedrank_facAll l j ρs := by
  intro ρs
  induction ρs with
  | nil => intro j _; trivial
  | cons ρ ρs ih =>
    intro j ⟨h1, h2⟩
    exact ⟨fixedrank_FacLE_of_unfold l shape x (j + 1) ρ hsh ht hx h1, ih (j + 1) h2⟩

/-- **low-rank input ⇒ `capOK`**: for `Tensor(x, ranks_tt=…)`, if the unfoldings of `x` factor through ranks that fit the requested `rmax`
    (and the SVD kernel returns its singular values non-negative and sorted), then at every step of the sweep `rmax` does not bind or all
    singular values from index `rmax` on are zero -/
theorem fixedrank_capOK_of_unfold (thr d2 : K) (shape : List Nat) (x : Nat → K) (qrs : List (QRAns K)) (svds : List (SVDAns K × Nat))
    (cur : Mode K) (rest : List (Mode K)) (ρs : List Nat)
    (hne : shape ≠ []) (hpos : ∀ s ∈ shape, 0 < s) (hlen : qrs.length + 1 = shape.length)
    (hqr : qrOK (Tensor.modes (fullRankTT shape x)) qrs)
    (hrev : (leftSweep (Tensor.modes (fullRankTT shape x)) qrs).reverse = cur :: rest)
    (hok : ansOK thr d2 (cur :: rest) svds) (hsort : ∀ Ar ∈ svds, fixedrank_svSorted Ar.1)
    (hfit : fixedrank_fits ρs svds) (hunf : fixedrank_unfoldAll shape x 0 ρs) :
    fixedrank_capOK thr d2 (cur :: rest) svds := by
  obtain ⟨hlo, hrl, hrr, hsh, hd⟩ := fixedrank_entering shape x qrs cur rest hne hpos hlen hqr hrev
  have hshr : shapeRev (cur :: rest) = shape.reverse := by
    rw [← hsh, ← List.map_reverse, hrev]; rfl
  have hw : wfRev (cur :: rest) := ⟨hrl, chainLO_wfRev rest hlo⟩
  have hx : ∀ is, inShape is (shapeRev (cur :: rest)) → openRev (cur :: rest) is 0 = x (flat is.reverse shape) := by
    intro is his
    have hin : inShape is.reverse shape := by
      have := fixedrank_inShape_reverse is _ his
      rwa [hshr, List.reverse_reverse] at this
    have hl : is.length = (cur :: rest).length := by
      have := inShape_length _ _ his; simpa [shapeRev] using this
    rw [openRev_eq_dense (cur :: rest) is (by simp) hw (by simpa [topRank] using hrr) hl, ← hrev, List.reverse_reverse, hd _ hin]
  exact fixedrank_capOK_of_fac thr d2 svds rest cur ρs hlo hrl hok hsort hfit
    (fixedrank_facAll_of_unfold (cur :: rest) shape x hshr (by simpa [topRank] using hrr) hx ρs 0 hunf)

/-- `budget2` with `eps = 0` is `0` -/
theorem fixedrank_budget_zero (cur : Mode K) (n : Nat) : budget2 (0 : K) cur n = 0 := by
  unfold budget2; simp


/-! ### Mathlib's `Matrix.rank` of the unfolding -/

/-- a matrix of rank `≤ ρ` is a product through `ρ` (columns expressed in a basis of the column space) -/
theorem fixedrank_factor_of_rank {m n : Nat} (A : Matrix (Fin m) (Fin n) K) (ρ : Nat) (h : A.rank ≤ ρ) :
    ∃ (B : Nat → Nat → K) (C : Nat → Nat → K), ∀ (i : Fin m) (j : Fin n), A i j = ∑ k ∈ range ρ, B i k * C k j := by
  classical
  let W := Submodule.span K (Set.range A.col)
  have hfin : Module.finrank K W = A.rank := (A.rank_eq_finrank_span_cols).symm
  let b := Module.finBasis K W
  have hcol : ∀ j, A.col j ∈ W := fun j => Submodule.subset_span ⟨j, rfl⟩
  refine ⟨fun i k => if hk : k < Module.finrank K W then (if hi : i < m then ((b ⟨k, hk⟩ : W) : Fin m → K) ⟨i, hi⟩ else 0) else 0,
          fun k j => if hk : k < Module.finrank K W then (if hj : j < n then b.repr ⟨A.col ⟨j, hj⟩, hcol _⟩ ⟨k, hk⟩ else 0) else 0, ?_⟩
  intro i j
  have hs := b.sum_repr ⟨A.col j, hcol j⟩
  have hs2 := congrArg (fun w : W => (w : Fin m → K) i) hs
  simp only [Submodule.coe_sum, Submodule.coe_smul, Finset.sum_apply, Pi.smul_apply, smul_eq_mul, Matrix.col_apply] at hs2
  rw [← hs2]
  have hd : Module.finrank K W ≤ ρ := by omega
  rw [← Finset.sum_range_add_sum_Ico _ hd]
  have z : (∑ k ∈ Ico (Module.finrank K W) ρ,
      (if hk : k < Module.finrank K W then (if hi : (i : Nat) < m then ((b ⟨k, hk⟩ : W) : Fin m → K) ⟨i, hi⟩ else 0) else 0) *
      (if hk : k < Module.finrank K W then (if hj : (j : Nat) < n then b.repr ⟨A.col ⟨j, hj⟩, hcol _⟩ ⟨k, hk⟩ else 0) else 0)) = 0 := by
    apply Finset.sum_eq_zero; intro k hk
    have : ¬ k < Module.finrank K W := by have := (Finset.mem_Ico.mp hk).1; omega
    simp [this]
  rw [z, add_zero, ← Fin.sum_univ_eq_sum_range (fun k =>
      (if hk : k < Module.finrank K W then (if hi : (i : Nat) < m then ((b ⟨k, hk⟩ : W) : Fin m → K) ⟨i, hi⟩ else 0) else 0) *
      (if hk : k < Module.finrank K W then (if hj : (j : Nat) < n then b.repr ⟨A.col ⟨j, hj⟩, hcol _⟩ ⟨k, hk⟩ else 0) else 0))]
  apply Finset.sum_congr rfl; intro k _
  simp only [k.2, i.2, j.2, dif_pos, Fin.eta]
  ring

/-- the row-major flat index splits at any position into (row index)·(number of columns) + (column index) -/
theorem fixedrank_flat_split : ∀ (m : Nat) (idx shape : List Nat), inShape idx shape →
    flat idx shape = flat (idx.take m) (shape.take m) * (shape.drop m).prod + flat (idx.drop m) (shape.drop m) ∧
    inShape (idx.take m) (shape.take m) ∧ inShape (idx.drop m) (shape.drop m) := by
  intro m
  induction m with
  | zero => intro idx shape h; simp [flat, inShape, h]
  | succ m ih =>
    intro idx shape h
    match idx, shape, h with
    | [], [], _ => simp [flat, inShape]
    | i :: is, s :: ss, ⟨hi, his⟩ =>
      obtain ⟨e, h1, h2⟩ := ih is ss his
      refine ⟨?_, ⟨hi, h1⟩, h2⟩
      simp only [List.take_succ_cons, List.drop_succ_cons, flat]
      have hp : ss.prod = (ss.take m).prod * (ss.drop m).prod := (List.prod_take_mul_prod_drop ss m).symm
      rw [e]
      calc i * ss.prod + (flat (is.take m) (ss.take m) * (ss.drop m).prod + flat (is.drop m) (ss.drop m))
          = i * ((ss.take m).prod * (ss.drop m).prod) + (flat (is.take m) (ss.take m) * (ss.drop m).prod + flat (is.drop m) (ss.drop m)) := by
            rw [← hp]
        _ = _ := by ring

/-- the unfolding of the dense array `x` with the LAST `c` modes as columns, as a Mathlib matrix (row-major entries: the entry at
    (row `r`, column `q`) is `x[r·ncols + q]`) -/
def fixedrank_unfoldMat (shape : List Nat) (x : Nat → K) (c : Nat) :
    Matrix (Fin (shape.take (shape.length - c)).prod) (Fin (shape.drop (shape.length - c)).prod) K :=
  Matrix.of fun r q => x (r.1 * (shape.drop (shape.length - c)).prod + q.1)

/-- **`Matrix.rank (unfolding) ≤ ρ` gives the factorisation** used by the sweep lemmas -/
theorem fixedrank_UnfoldLE_of_rank (shape : List Nat) (x : Nat → K) (c ρ : Nat)
    (h : (fixedrank_unfoldMat shape x c).rank ≤ ρ) : fixedrank_UnfoldLE shape x c ρ := by
  obtain ⟨B, C, hBC⟩ := fixedrank_factor_of_rank _ ρ h
  refine ⟨fun r k => B (flat r (shape.take (shape.length - c))) k, fun k cs => C k (flat cs (shape.drop (shape.length - c))), ?_⟩
  intro idx hin
  obtain ⟨e, h1, h2⟩ := fixedrank_flat_split (shape.length - c) idx shape hin
  have := hBC ⟨flat (idx.take (shape.length - c)) (shape.take (shape.length - c)), flat_lt _ _ h1⟩
    ⟨flat (idx.drop (shape.length - c)) (shape.drop (shape.length - c)), flat_lt _ _ h2⟩
  simp only [fixedrank_unfoldMat, Matrix.of_apply] at this
  rw [e]; exact this

/-- ranks (Mathlib's `Matrix.rank`) of the unfoldings with `j+1`, `j+2`, … column modes -/
def fixedrank_rankAll (shape : List Nat) (x : Nat → K) : Nat → List Nat → Prop
  | _, [] => True
  | j, ρ :: ρs => (fixedrank_unfoldMat shape x (j + 1)).rank ≤ ρ ∧ fixedrank_rankAll shape x (j + 1) ρs

theorem fixedrank_unfoldAll_of_rank (shape : List Nat) (x : Nat → K) : ∀ (ρs : List Nat) (j : Nat),
    fixedrank_rankAll shape x j ρs → fixedrank_unfoldAll shape x j ρs := by
  intro ρs
  induction ρs with
  | nil => intro j _; trivial
  | cons ρ ρs ih => intro j ⟨h1, h2⟩; exact ⟨fixedrank_UnfoldLE_of_rank shape x (j + 1) ρ h1, ih (j + 1) h2⟩

end TN
