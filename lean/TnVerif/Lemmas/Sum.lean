import TnVerif.Model.Basic
import Mathlib.Algebra.BigOperators.Intervals
import Mathlib.Algebra.BigOperators.Ring.Finset
import Mathlib.Tactic.Ring
import Mathlib.Algebra.Ring.Defs
/-! Helper lemmas about `sumTo` and finite sums (bridge to Mathlib's big operators). -/
open Finset
namespace TN
variable {R : Type} [CommSemiring R]

theorem sumTo_eq (n : Nat) (f : Nat → R) : sumTo n f = ∑ x ∈ range n, f x := by
  induction n with
  | zero => simp [sumTo]
  | succ n ih => simp [sumTo, ih, Finset.sum_range_succ]

theorem sum_blk (p q : Nat) (f g : Nat → R) :
    (∑ b ∈ range (p + q), (if b < p then f b else g (b - p))) = (∑ b ∈ range p, f b) + ∑ b ∈ range q, g b := by
  rw [Finset.sum_range_add]
  congr 1
  · apply Finset.sum_congr rfl; intro x hx; simp [Finset.mem_range.mp hx]
  · apply Finset.sum_congr rfl; intro x hx; simp

theorem sum_range_mul (p q : Nat) (f : Nat → Nat → R) :
    (∑ b ∈ range (p * q), f (b / q) (b % q)) = ∑ b1 ∈ range p, ∑ b2 ∈ range q, f b1 b2 := by
  induction p with
  | zero => simp
  | succ p ih =>
    rw [Nat.succ_mul, Finset.sum_range_add, ih, Finset.sum_range_succ]
    congr 1
    apply Finset.sum_congr rfl
    intro x hx
    have hx' := Finset.mem_range.mp hx
    have hq : 0 < q := by omega
    rw [Nat.mul_comm p q, Nat.mul_add_div hq, Nat.mul_add_mod, Nat.div_eq_of_lt hx', Nat.mod_eq_of_lt hx']
    simp

end TN
