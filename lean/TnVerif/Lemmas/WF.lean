import TnVerif.Lemmas.Broadcast
/-! Preservation of `WF` and of the reported shape by the arithmetic operations. -/
set_option linter.unusedSectionVars false
set_option linter.unusedSimpArgs false
open Finset
namespace TN
variable {R : Type} [CommSemiring R]

theorem addMode_rl (x y : TMode R) : (addMode x y).core.rl = x.core.rl + y.core.rl := by
  have := congrArg Mode.rl (toMode_addPlain x y)
  obtain ⟨c1, U1⟩ := x; obtain ⟨c2, U2⟩ := y
  cases U1 <;> cases U2 <;> first | exact this | exact addFac_rl _ _ _ _
theorem addMode_rr (x y : TMode R) : (addMode x y).core.rr = x.core.rr + y.core.rr := by
  have := congrArg Mode.rr (toMode_addPlain x y)
  obtain ⟨c1, U1⟩ := x; obtain ⟨c2, U2⟩ := y
  cases U1 <;> cases U2 <;> first | exact this | exact addFac_rr _ _ _ _
theorem addMode_n (x y : TMode R) : (addMode x y).n = x.n := by
  have := congrArg Mode.n (toMode_addPlain x y)
  obtain ⟨c1, U1⟩ := x; obtain ⟨c2, U2⟩ := y
  cases U1 <;> cases U2 <;> first | exact this | simp [addMode, TMode.n, addFac_U, Fac.hcat]

theorem addPlain_U (x y : TMode R) : (addPlain x y).U = none := by
  unfold addPlain; split <;> rfl

theorem addMode_ok (x y : TMode R) (hx : x.ok) (hy : y.ok) : (addMode x y).ok := by
  obtain ⟨c1, U1⟩ := x; obtain ⟨c2, U2⟩ := y
  cases U1 with
  | none => simp [addMode, TMode.ok, addPlain_U]
  | some U1 =>
    cases U2 with
    | none => simp [addMode, TMode.ok, addPlain_U]
    | some U2 =>
      simp only [addMode, TMode.ok, addFac_U, addFac_spatial, Fac.hcat]
      simp only [TMode.ok] at hx hy
      rw [hx, hy]

theorem mulMode_rl (x y : TMode R) (hy : y.ok) : (mulMode x y).core.rl = x.core.rl * y.core.rl :=
  congrArg Mode.rl (toMode_mulMode x y hy)
theorem mulMode_rr (x y : TMode R) (hy : y.ok) : (mulMode x y).core.rr = x.core.rr * y.core.rr :=
  congrArg Mode.rr (toMode_mulMode x y hy)
theorem mulMode_n (x y : TMode R) (hy : y.ok) : (mulMode x y).n = x.n :=
  congrArg Mode.n (toMode_mulMode x y hy)

theorem mulPlain_U (x y : TMode R) : (mulPlain x y).U = none := by
  unfold mulPlain; split <;> rfl

theorem mulMode_ok (x y : TMode R) (hx : x.ok) (hy : y.ok) : (mulMode x y).ok := by
  obtain ⟨c1, U1⟩ := x; obtain ⟨c2, U2⟩ := y
  cases U1 with
  | none => simp [mulMode, TMode.ok, mulPlain_U]
  | some U1 =>
    cases U2 with
    | none => simp [mulMode, TMode.ok, mulPlain_U]
    | some U2 =>
      simp only [mulMode]
      split
      · simp only [TMode.ok, mulFac_U, mulFac_spatial, Fac.krao]
        simp only [TMode.ok] at hx hy
        rw [hx, hy]
      · simp [TMode.ok, mulPlain_U]

theorem WFfrom_zipWith_addMode (t u : Tensor R) : ∀ p q, Tensor.WFfrom p t → Tensor.WFfrom q u →
    Tensor.WFfrom (p + q) (List.zipWith addMode t u) := by
  induction t generalizing u with
  | nil => intros; trivial
  | cons x xs ih =>
    intro p q ht hu
    cases u with
    | nil => trivial
    | cons y ys =>
      obtain ⟨h1, h2, h3⟩ := ht
      obtain ⟨g1, g2, g3⟩ := hu
      refine ⟨by rw [addMode_rl, h1, g1], addMode_ok x y h2 g2, ?_⟩
      rw [addMode_rr]; exact ih ys _ _ h3 g3

theorem WFfrom_zipWith_mulMode (t u : Tensor R) : ∀ p q, Tensor.WFfrom p t → Tensor.WFfrom q u →
    Tensor.WFfrom (p * q) (List.zipWith mulMode t u) := by
  induction t generalizing u with
  | nil => intros; trivial
  | cons x xs ih =>
    intro p q ht hu
    cases u with
    | nil => trivial
    | cons y ys =>
      obtain ⟨h1, h2, h3⟩ := ht
      obtain ⟨g1, g2, g3⟩ := hu
      refine ⟨by rw [mulMode_rl _ _ g2, h1, g1], mulMode_ok x y h2 g2, ?_⟩
      rw [mulMode_rr _ _ g2]; exact ih ys _ _ h3 g3

omit [CommSemiring R] in
theorem WF_of_WFfrom (t : Tensor R) (p : Nat) (h : Tensor.WFfrom p t) (hne : t ≠ []) : t.WF := by
  cases t with
  | nil => exact absurd rfl hne
  | cons m ms => obtain ⟨h1, h2, h3⟩ := h; exact ⟨rfl, h2, h3⟩

@[simp] theorem Core.sumL_rr (c : Core R) : c.sumL.rr = c.rr := by cases c <;> rfl
@[simp] theorem Core.sumL_spatial (c : Core R) : c.sumL.spatial = c.spatial := by cases c <;> rfl
@[simp] theorem Core.sumR_rl (c : Core R) : c.sumR.rl = c.rl := by cases c <;> rfl
@[simp] theorem Core.sumR_spatial (c : Core R) : c.sumR.spatial = c.spatial := by cases c <;> rfl

theorem WF_collapseFirst (t : Tensor R) (h : t.WF) : (Tensor.collapseFirst t).WF := by
  cases t with
  | nil => exact h
  | cons m ms =>
    obtain ⟨_, h2, h3⟩ := h
    refine ⟨rfl, ?_, ?_⟩
    · obtain ⟨c, U⟩ := m; cases U <;> simp_all [TMode.ok]
    · simpa using h3

theorem WFfrom_collapseLast (t : Tensor R) : ∀ p, Tensor.WFfrom p t → Tensor.WFfrom p (Tensor.collapseLast t) := by
  induction t with
  | nil => intro p h; exact h
  | cons m ms ih =>
    intro p h
    cases ms with
    | nil =>
      obtain ⟨h1, h2, _⟩ := h
      refine ⟨by simpa using h1, ?_, trivial⟩
      obtain ⟨c, U⟩ := m; cases U <;> simp_all [TMode.ok]
    | cons m' ms' =>
      obtain ⟨h1, h2, h3⟩ := h
      exact ⟨h1, h2, ih _ h3⟩

theorem WF_collapseLast (t : Tensor R) (h : t.WF) : (Tensor.collapseLast t).WF := by
  cases t with
  | nil => exact h
  | cons m ms =>
    have := WFfrom_collapseLast (m :: ms) _ h
    cases ms with
    | nil => simpa [Tensor.WF, Tensor.collapseLast] using this
    | cons m' ms' => simpa [Tensor.WF, Tensor.collapseLast] using this

theorem shape_collapseFirst (t : Tensor R) : (Tensor.collapseFirst t).shape = t.shape := by
  cases t with
  | nil => rfl
  | cons m ms => obtain ⟨c, U⟩ := m; cases U <;> simp [Tensor.collapseFirst, Tensor.shape, TMode.n]

theorem shape_collapseLast (t : Tensor R) : (Tensor.collapseLast t).shape = t.shape := by
  induction t with
  | nil => rfl
  | cons m ms ih =>
    cases ms with
    | nil => obtain ⟨c, U⟩ := m; cases U <;> simp [Tensor.collapseLast, Tensor.shape, TMode.n]
    | cons m' ms' =>
      simp only [Tensor.collapseLast, Tensor.shape, List.map_cons, List.cons.injEq, true_and] at ih ⊢
      exact ih

theorem shape_zipWith_addMode (t u : Tensor R) (h : t.length = u.length) :
    Tensor.shape (List.zipWith addMode t u) = t.shape := by
  induction t generalizing u with
  | nil => rfl
  | cons x xs ih =>
    cases u with
    | nil => simp at h
    | cons y ys =>
      simp only [List.zipWith_cons_cons, Tensor.shape, List.map_cons, addMode_n, List.cons.injEq, true_and]
      exact ih ys (by simpa using h)

theorem shape_zipWith_mulMode (t u : Tensor R) (h : t.length = u.length) (hu : ∀ m ∈ u, m.ok) :
    Tensor.shape (List.zipWith mulMode t u) = t.shape := by
  induction t generalizing u with
  | nil => rfl
  | cons x xs ih =>
    cases u with
    | nil => simp at h
    | cons y ys =>
      simp only [List.zipWith_cons_cons, Tensor.shape, List.map_cons, mulMode_n _ _ (hu y List.mem_cons_self), List.cons.injEq, true_and]
      exact ih ys (by simpa using h) (fun m hm => hu m (List.mem_cons_of_mem _ hm))

end TN
