import TnVerif.Lemmas.Accepted
import Mathlib.Tactic.SplitIfs
/-! Refinement: the array-level model of `accepted_inputs` (the exact writes into `Xs`) produces the
    list-level model laid out as a matrix, whenever no sub-recursion fills more rows than its caller
    reserved for it. -/
set_option linter.unusedSectionVars false
set_option linter.unusedSimpArgs false
namespace TN

/-- entry `(j, c)` of a list of rows (0 outside) -/
def rowsFn (L : List (List Nat)) (j c : Nat) : Nat := (L[j]?.getD [])[c]?.getD 0

/-- the matrix `X` with the rows `L` written at row offset `bound`, column offset `mu`, `width` columns -/
def layout (L : List (List Nat)) (bound mu width : Nat) (X : Nat → Nat → Nat) : Nat → Nat → Nat :=
  fun r c => if bound ≤ r ∧ r < bound + L.length ∧ mu ≤ c ∧ c < mu + width then rowsFn L (r - bound) (c - mu) else X r c

/-- `writeCol` on the underlying function -/
def writeColFn (X : Nat → Nat → Nat) (lo hi mu i : Nat) : Nat → Nat → Nat :=
  fun r c => if lo ≤ r ∧ r < hi ∧ c = mu then i else X r c

theorem writeCol_get (X : NatMat) (lo hi mu i : Nat) : (writeCol X lo hi mu i).get = writeColFn X.get lo hi mu i := rfl

theorem rowsFn_append (A B : List (List Nat)) (j c : Nat) :
    rowsFn (A ++ B) j c = if j < A.length then rowsFn A j c else rowsFn B (j - A.length) c := by
  unfold rowsFn
  split
  · rename_i h; rw [List.getElem?_append_left h]
  · rename_i h; rw [List.getElem?_append_right (by omega)]

theorem rowsFn_block (k p w : Nat) (sub : List (List Nat)) (j c : Nat) :
    rowsFn ((padRows p w sub).map (k :: ·)) j c =
      if j < p then (if c = 0 then k else if j < sub.length then rowsFn sub j (c - 1) else 0) else 0 := by
  unfold rowsFn padRows
  by_cases hj : j < p
  · simp only [hj, if_true, List.getElem?_map, List.getElem?_range hj, Option.map_some, Option.getD_some,
      List.getD_eq_getElem?_getD]
    cases c with
    | zero => simp
    | succ c' =>
      simp only [List.getElem?_cons_succ, Nat.add_sub_cancel, Nat.succ_ne_zero, if_false]
      by_cases hs : j < sub.length
      · simp [hs]
      · simp only [hs, if_false]
        rw [show sub[j]? = none from List.getElem?_eq_none (by omega)]
        simp only [Option.getD_none, List.getElem?_replicate]
        split <;> rfl
  · simp only [hj, if_false]
    have : (List.range p)[j]? = none := List.getElem?_eq_none (by simp; omega)
    simp [this]

theorem step_layout (Lk sub : List (List Nat)) (bound mu w ck pk k : Nat) (hk : Lk.length = ck)
    (hsub : sub.length ≤ pk) (X : Nat → Nat → Nat)
    (hX : ∀ r c, bound + ck ≤ r → r < bound + (ck + pk) → mu ≤ c → c < mu + (w + 1) → X r c = 0) :
    layout sub (bound + ck) (mu + 1) w (writeColFn (layout Lk bound mu (w + 1) X) (bound + ck) (bound + (ck + pk)) mu k) =
      layout (Lk ++ (padRows pk w sub).map (k :: ·)) bound mu (w + 1) X := by
  funext r c
  have hlen : ((padRows pk w sub).map (k :: ·)).length = pk := by simp [padRows]
  simp only [layout, writeColFn, List.length_append, hlen, rowsFn_append, rowsFn_block, hk]
  split_ifs <;> first | omega | rfl | skip
  · congr 1; omega
  · exact hX r c (by omega) (by omega) (by omega) (by omega)

theorem cumCount_succ (p : Nat → Nat) (i : Nat) : cumCount p (i + 1) = cumCount p i + p i := rfl

theorem cumCount_mono (p : Nat → Nat) (i j : Nat) (h : i ≤ j) : cumCount p i ≤ cumCount p j := by
  induction j with
  | zero => have : i = 0 := by omega
            subst this; exact Nat.le_refl _
  | succ j ih =>
    by_cases hij : i = j + 1
    · subst hij; exact Nat.le_refl _
    · have := ih (by omega); rw [cumCount_succ]; omega

theorem layout_nil (bound mu w : Nat) (X : Nat → Nat → Nat) : layout [] bound mu w X = X := by
  funext r c
  simp only [layout, List.length_nil]
  split
  · omega
  · rfl

/-- the blocks of the first `k` symbols occupy `c[k]` rows -/
theorem length_blocks (p : Nat → Nat) (sub : Nat → List (List Nat)) (w k : Nat) :
    ((List.range k).flatMap fun i => if p i = 0 then [] else (padRows (p i) w (sub i)).map (i :: ·)).length =
      cumCount p k := by
  induction k with
  | zero => rfl
  | succ k ih =>
    rw [List.range_succ, List.flatMap_append, List.length_append, ih, cumCount_succ]
    by_cases h : p k = 0 <;> simp [h, padRows]

/-- the loop over the symbols (automata.py:111-121) as a fold: if every sub-recursion `F i` lays out its
    rows `sub i` (at most `p i` of them) over a zero region, the loop lays out the blocks of all symbols -/
theorem fold_layout (p : Nat → Nat) (sub : Nat → List (List Nat))
    (F : Nat → Nat → NatMat → NatMat) (bound mu w n : Nat) (X : NatMat)
    (hsub : ∀ i, i < n → p i ≠ 0 → (sub i).length ≤ p i)
    (hF : ∀ i, i < n → p i ≠ 0 → ∀ b (X' : NatMat),
        (∀ r c, b ≤ r → r < b + (sub i).length → mu + 1 ≤ c → c < mu + 1 + w → X'.get r c = 0) →
        (F i b X').get = layout (sub i) b (mu + 1) w X'.get)
    (hX : ∀ r c, bound ≤ r → r < bound + cumCount p n → mu ≤ c → c < mu + (w + 1) → X.get r c = 0) :
    ∀ k, k ≤ n →
      ((List.range k).foldl (fun X i => if cumCount p i = cumCount p (i + 1) then X else
          F i (bound + cumCount p i) (writeCol X (bound + cumCount p i) (bound + cumCount p (i + 1)) mu i)) X).get =
        layout ((List.range k).flatMap fun i => if p i = 0 then [] else (padRows (p i) w (sub i)).map (i :: ·))
          bound mu (w + 1) X.get := by
  intro k
  induction k with
  | zero => intro _; simp [layout_nil]
  | succ k ih =>
    intro hk
    have hlen := length_blocks p sub w k
    have hmono := cumCount_mono p (k + 1) n hk
    have ih' := ih (by omega)
    rw [List.range_succ, List.foldl_append, List.flatMap_append]
    simp only [List.foldl_cons, List.foldl_nil, List.flatMap_cons, List.flatMap_nil, List.append_nil]
    by_cases hp : p k = 0
    · have hc : cumCount p k = cumCount p (k + 1) := by rw [cumCount_succ, hp]; rfl
      rw [if_pos hc, if_pos hp, List.append_nil]
      exact ih'
    · have hne : ¬ cumCount p k = cumCount p (k + 1) := by rw [cumCount_succ]; omega
      simp only [hne, hp, if_false]
      rw [cumCount_succ] at hmono ⊢
      have hs := hsub k (by omega) hp
      rw [hF k (by omega) hp]
      · rw [writeCol_get, ih']
        exact step_layout _ _ bound mu w _ _ k hlen hs X.get (by
          intro r c h1 h2 h3 h4
          exact hX r c (by omega) (by omega) h3 h4)
      · intro r c h1 h2 h3 h4
        rw [writeCol_get, ih']
        simp only [writeColFn, layout, hlen]
        rw [if_neg (by omega), if_neg (by omega)]
        exact hX r c (by omega) (by omega) (by omega) (by omega)

variable {R : Type} [Zero R] [One R] [Add R] [Mul R]

/-- no call of the recursion fills in more rows than its caller reserved for it -/
def NoOverflow (toNat : R → Nat) : Tensor R → List (Vec R) → Vec R → Prop
  | m :: ms, r :: rs, left => ∀ i, i < m.core.spatial → perPoint toNat m.core left r i ≠ 0 →
      (acceptedList toNat ms rs (m.core.leftStep left i)).length ≤ perPoint toNat m.core left r i ∧
      NoOverflow toNat ms rs (m.core.leftStep left i)
  | _, _, _ => True

/-- **refinement**: the exact writes of `recursion` into a matrix that is zero where the call will
    write produce the list-level rows, laid out at row `bound`, column `mu` -/
theorem acceptedArr_eq_layout (toNat : R → Nat) (t : Tensor R) :
    ∀ (rs : List (Vec R)) (left : Vec R) (bound mu : Nat) (X : NatMat), NoOverflow toNat t rs left →
    (∀ r c, bound ≤ r → r < bound + (acceptedList toNat t rs left).length → mu ≤ c → c < mu + t.length → X.get r c = 0) →
    (acceptedArr toNat t rs left bound mu X).get = layout (acceptedList toNat t rs left) bound mu t.length X.get := by
  induction t with
  | nil => intro rs left bound mu X _ _; simp [acceptedArr, acceptedList, layout_nil]
  | cons m ms ih =>
    intro rs left bound mu X hno hX
    cases rs with
    | nil => simp [acceptedArr, acceptedList, layout_nil]
    | cons r rs =>
      simp only [acceptedArr, acceptedList, List.length_cons] at hX ⊢
      rw [length_blocks (perPoint toNat m.core left r) (fun i => acceptedList toNat ms rs (m.core.leftStep left i))] at hX
      exact fold_layout (perPoint toNat m.core left r) (fun i => acceptedList toNat ms rs (m.core.leftStep left i))
        (fun i b X' => acceptedArr toNat ms rs (m.core.leftStep left i) b (mu + 1) X') bound mu ms.length
        m.core.spatial X (fun i hi hp => (hno i hi hp).1)
        (fun i hi hp b X' hz => ih rs _ b (mu + 1) X' (hno i hi hp).2 hz) hX _ (Nat.le_refl _)

/-- every row the recursion fills in has one entry per remaining mode -/
theorem acceptedList_row_length (toNat : R → Nat) (t : Tensor R) : ∀ (rs : List (Vec R)) (left : Vec R),
    ∀ row ∈ acceptedList toNat t rs left, row.length = t.length := by
  induction t with
  | nil => intro rs left row h; simp [acceptedList] at h
  | cons m ms ih =>
    intro rs left row h
    cases rs with
    | nil => simp [acceptedList] at h
    | cons r rs =>
      simp only [acceptedList, List.mem_flatMap, List.mem_range] at h
      obtain ⟨i, _, hrow⟩ := h
      split at hrow
      · simp at hrow
      · obtain ⟨x, hx, rfl⟩ := List.mem_map.mp hrow
        simp only [padRows, List.mem_map, List.mem_range] at hx
        obtain ⟨k, _, rfl⟩ := hx
        simp only [List.length_cons, Nat.add_right_cancel_iff, List.getD_eq_getElem?_getD]
        cases hk : (acceptedList toNat ms rs (m.core.leftStep left i))[k]? with
        | none => simp
        | some y => simpa using ih rs _ y (List.mem_of_getElem? hk)

/-- reading back the zero matrix with the rows `L` (all of width `n`) written at the top -/
theorem matRows_layout (L : List (List Nat)) (n nrows : Nat) (hL : ∀ row ∈ L, row.length = n) :
    matRows ⟨layout L 0 0 n (fun _ _ => 0)⟩ nrows n = padRows nrows n L := by
  unfold matRows padRows
  apply List.map_congr_left
  intro r _
  rw [List.getD_eq_getElem?_getD]
  by_cases hr : r < L.length
  · have hlen := hL L[r] (List.getElem_mem hr)
    rw [List.getElem?_eq_getElem hr, Option.getD_some]
    apply List.ext_getElem
    · simp [hlen]
    · intro c h1 h2
      simp only [List.length_map, List.length_range] at h1
      simp only [List.getElem_map, List.getElem_range, layout, rowsFn]
      rw [if_pos (by omega)]
      simp [List.getElem?_eq_getElem hr, List.getElem?_eq_getElem h2]
  · rw [List.getElem?_eq_none (by omega), Option.getD_none]
    apply List.ext_getElem
    · simp
    · intro c h1 h2
      simp only [List.getElem_map, List.getElem_range, layout, List.getElem_replicate]
      rw [if_neg (by omega)]

/-- **refinement of the whole function**: whenever no call overflows the rows reserved for it, the
    array-level model (exact writes into `Xs`) returns what the list-level model returns -/
theorem acceptedInputsArr_eq (toNat : R → Nat) (t : Tensor R)
    (h : NoOverflow toNat t.tt (rightsList t.tt).tail Vec.ones) :
    t.acceptedInputsArr toNat = t.acceptedInputs toNat := by
  unfold Tensor.acceptedInputsArr Tensor.acceptedInputs
  simp only
  split
  · rw [← matRows_layout _ _ _ (acceptedList_row_length toNat t.tt _ _),
      ← acceptedArr_eq_layout toNat t.tt _ _ 0 0 ⟨fun _ _ => 0⟩ h (fun _ _ _ _ _ _ => rfl)]
  · rfl

section semiring
variable {S : Type} [CommSemiring S]

/-- for a chain with natural values and an exact rounding function nothing overflows -/
theorem noOverflow_of_natValued (toNat : S → Nat) (htn : ∀ n : Nat, toNat (n : S) = n) (t : Tensor S) :
    ∀ (p : Nat) (left : Vec S) (w : List Nat → Nat), NatValued p left t w →
    NoOverflow toNat t (rightsList t).tail left := by
  induction t with
  | nil => intro p left w _; trivial
  | cons m ms ih =>
    intro p left w h
    rw [rightsList_tail_cons, rightsList_eq ms]
    intro i hi hp
    have hstep := natValued_step m ms p left w h i hi
    rw [perPoint_eq toNat htn m ms p left w h i hi]
    exact ⟨length_acceptedList_le toNat htn ms _ _ _ hstep, ih _ _ _ hstep⟩
end semiring

end TN
