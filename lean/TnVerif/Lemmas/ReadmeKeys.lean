import TnVerif.Lemmas.IndexGen
import TnVerif.Lemmas.IndexSpec
/-!
  The keys of the README loss `tn.norm(t[:3, :3, :3, :3] - t[-3:, -3:, -3:, -3:])` (README.md:89-91) and of its
  abbreviation `t[:3, ...]`, `t[-3:, ...]`: every entry is one of the three slices `:3`, `-3:`, `:`.
  What `_process_key`, the bounds normalisation and the grouping make of such a key, its result shape and its
  source-index map.
-/
set_option linter.unusedSectionVars false
set_option linter.unusedSimpArgs false
namespace TN

/-- the three slices the README loss is written with -/
inductive ReadmeSl where
  /-- `:3` -/
  | front
  /-- `-3:` -/
  | back
  /-- `:` (what `...` expands to) -/
  | all
  deriving DecidableEq, Repr

/-- the key entry as the user writes it -/
def ReadmeSl.raw : ReadmeSl → RawItem
  | .front => .slice Option.none (some 3) Option.none
  | .back => .slice (some (-3)) Option.none Option.none
  | .all => sliceAll

/-- the entry after bounds normalisation against a mode of size `n` (`3 ≤ n` for `:3` and `-3:`) -/
def ReadmeSl.item : ReadmeSl → Nat → Item
  | .front, _ => .slice 0 1 3
  | .back, n => .slice (n - 3) 1 3
  | .all, n => .slice 0 1 n

/-- size of the selected range -/
def ReadmeSl.count : ReadmeSl → Nat → Nat
  | .front, _ => 3
  | .back, _ => 3
  | .all, n => n

/-- position in the original mode of the `j`-th selected entry -/
def ReadmeSl.src : ReadmeSl → Nat → Nat → Nat
  | .front, _, j => j
  | .back, n, j => n - 3 + j
  | .all, _, j => j

def readme_raw (l : List ReadmeSl) : List RawItem := l.map ReadmeSl.raw

/-- the modes sliced by `:3` or `-3:` have at least three entries (then exactly three are selected) -/
def readme_ok : List ReadmeSl → List Nat → Prop
  | .all :: l, _ :: ns => readme_ok l ns
  | _ :: l, n :: ns => 3 ≤ n ∧ readme_ok l ns
  | _, _ => True

def readme_items : List ReadmeSl → List Nat → List Item
  | s :: l, n :: ns => s.item n :: readme_items l ns
  | _, _ => []

def readme_G : List ReadmeSl → List Nat → List GItem
  | .front :: l, _ :: ns => .slice 0 1 3 :: readme_G l ns
  | .back :: l, n :: ns => .slice (n - 3) 1 3 :: readme_G l ns
  | .all :: l, n :: ns => .slice 0 1 n :: readme_G l ns
  | _, _ => []

/-- shape of `t[key]` -/
def readme_shape : List ReadmeSl → List Nat → List Nat
  | s :: l, n :: ns => s.count n :: readme_shape l ns
  | _, _ => []

/-- index in `t` of entry `out` of `t[key]` -/
def readme_src : List ReadmeSl → List Nat → List Nat → List Nat
  | s :: l, n :: ns, j :: out => s.src n j :: readme_src l ns out
  | _, _, _ => []

theorem readme_noEllipsis (l : List ReadmeSl) : (readme_raw l).any RawItem.isEllipsis = false := by
  induction l with
  | nil => rfl
  | cons x xs ih => cases x <;> simpa [readme_raw, ReadmeSl.raw, RawItem.isEllipsis, sliceAll] using ih

theorem readme_consR (l : List ReadmeSl) : gk_consR (readme_raw l) = l.length := by
  induction l with
  | nil => rfl
  | cons x xs ih =>
    have ih' : gk_consR (List.map ReadmeSl.raw xs) = xs.length := ih
    cases x <;> simp [readme_raw, ReadmeSl.raw, gk_consR, sliceAll, ih']

/-- a key with one of the three slices per mode passes `_process_key` unchanged -/
theorem readme_processKey (N : Nat) (l : List ReadmeSl) (h : l.length = N) :
    processKey N (readme_raw l) = .ok (readme_raw l) :=
  gk_processKey_id N _ (readme_noEllipsis l) (by rw [readme_consR, h])

/-- `t[s, ...]`: the Ellipsis expands to one `:` per remaining mode -/
theorem readme_processKey_ellipsis (N : Nat) (s : ReadmeSl) :
    processKey (N + 1) [s.raw, .ellipsis] = .ok (readme_raw (s :: List.replicate N .all)) := by
  have h4 : N + 1 + 1 - (1 + 1 - 0) = N := by omega
  have h2 : ¬ (N + 1 < N + 1 - 0) := by omega
  cases s <;>
    simp [processKey, processKey.expand, ReadmeSl.raw, sliceAll, RawItem.isNone, RawItem.isEllipsis, readme_raw,
      List.map_replicate, h4, h2]

theorem readme_normSlice_front (n : Nat) (h : 3 ≤ n) : normSlice Option.none (some 3) Option.none n = .ok (0, 1, 3) := by
  unfold normSlice
  simp only [Option.getD_none]
  have h1 : ¬ ((1 : Int) ≤ 0) := by omega
  have h2 : ¬ ((3 : Int) < 0) := by omega
  have h0 : 0 < n := by omega
  have h3 : min 3 n = 3 := by omega
  simp [h1, h2, h0, h3]

theorem readme_normSlice_back (n : Nat) (h : 3 ≤ n) : normSlice (some (-3)) Option.none Option.none n = .ok (n - 3, 1, 3) := by
  unfold normSlice
  simp only [Option.getD_none]
  have h1 : ¬ ((1 : Int) ≤ 0) := by omega
  have h2 : ((-3 : Int) < 0) := by omega
  have h3 : (max (-3 + (n : Int)) 0).toNat = n - 3 := by omega
  have h4 : n - 3 < n := by omega
  have h5 : n - (n - 3) = 3 := by omega
  simp [h1, h2, h3, h4, h5]

theorem readme_normSlice_all (n : Nat) : normSlice Option.none Option.none Option.none n = .ok (0, 1, n) := by
  unfold normSlice
  simp only [Option.getD_none]
  have h1 : ¬ ((1 : Int) ≤ 0) := by omega
  by_cases h : 0 < n
  · simp [h1, h]
  · have : n = 0 := by omega
    subst this; simp [h1]

/-- bounds normalisation of such a key -/
theorem readme_normKey : ∀ (l : List ReadmeSl) (ns : List Nat), l.length = ns.length → readme_ok l ns →
    normKey (readme_raw l) ns = .ok (readme_items l ns) := by
  intro l
  induction l with
  | nil => intro ns _ _; cases ns <;> simp [readme_raw, normKey, readme_items]
  | cons x xs ih =>
    intro ns hl hok
    cases ns with
    | nil => simp at hl
    | cons n ns =>
      have hl' : xs.length = ns.length := by simpa using hl
      cases x with
      | front =>
        obtain ⟨h3, hr⟩ := hok
        have := ih ns hl' hr
        simp only [readme_raw] at this
        simp only [readme_raw, List.map_cons, ReadmeSl.raw, normKey, readme_normSlice_front n h3, this, readme_items,
          ReadmeSl.item, bind, Except.bind, pure, Except.pure]
      | back =>
        obtain ⟨h3, hr⟩ := hok
        have := ih ns hl' hr
        simp only [readme_raw] at this
        simp only [readme_raw, List.map_cons, ReadmeSl.raw, normKey, readme_normSlice_back n h3, this, readme_items,
          ReadmeSl.item, bind, Except.bind, pure, Except.pure]
      | all =>
        have := ih ns hl' hok
        simp only [readme_raw] at this
        simp only [readme_raw, List.map_cons, ReadmeSl.raw, sliceAll, normKey, readme_normSlice_all n, this, readme_items,
          ReadmeSl.item, bind, Except.bind, pure, Except.pure]

theorem readme_groupKey : ∀ (l : List ReadmeSl) (ns : List Nat), groupKey (readme_items l ns) = readme_G l ns := by
  intro l
  induction l with
  | nil => intro ns; simp [readme_items, readme_G, groupKey]
  | cons x xs ih =>
    intro ns
    cases ns with
    | nil => cases x <;> simp [readme_items, readme_G, groupKey]
    | cons n ns => cases x <;> simp [readme_items, readme_G, groupKey, ReadmeSl.item, ih ns]

theorem readme_outShape : ∀ (l : List ReadmeSl) (ns : List Nat), outShape (readme_G l ns) = readme_shape l ns := by
  intro l
  induction l with
  | nil => intro ns; simp [readme_G, outShape, readme_shape]
  | cons x xs ih =>
    intro ns
    cases ns with
    | nil => cases x <;> simp [readme_G, outShape, readme_shape]
    | cons n ns => cases x <;> simp [readme_G, outShape, readme_shape, ReadmeSl.count, ih ns]

theorem readme_runsOK : ∀ (l : List ReadmeSl) (ns : List Nat) (d : Bool), gk_runsOK d (readme_G l ns) := by
  intro l
  induction l with
  | nil => intro ns d; simp [readme_G, gk_runsOK]
  | cons x xs ih =>
    intro ns d
    cases ns with
    | nil => cases x <;> simp [readme_G, gk_runsOK]
    | cons n ns => cases x <;> simp [readme_G, gk_runsOK, ih ns d]

theorem readme_srcIdx : ∀ (l : List ReadmeSl) (ns : List Nat) (out : List Nat), l.length = ns.length → out.length = l.length →
    srcIdx (readme_G l ns) out = readme_src l ns out := by
  intro l
  induction l with
  | nil => intro ns out _ _; simp [readme_G, srcIdx, readme_src]
  | cons x xs ih =>
    intro ns out hl ho
    cases ns with
    | nil => simp at hl
    | cons n ns =>
      cases out with
      | nil => simp at ho
      | cons j out =>
        have := ih ns out (by simpa using hl) (by simpa using ho)
        cases x <;> simp [readme_G, srcIdx, readme_src, ReadmeSl.src, this]

theorem readme_shape_length : ∀ (l : List ReadmeSl) (ns : List Nat), l.length = ns.length →
    (readme_shape l ns).length = l.length := by
  intro l
  induction l with
  | nil => intro ns _; simp [readme_shape]
  | cons x xs ih =>
    intro ns hl
    cases ns with
    | nil => simp at hl
    | cons n ns => simp [readme_shape, ih ns (by simpa using hl)]

/-! ### the two keys of the README loss: every mode `:3`, every mode `-3:` -/

theorem readme_raw_replicate (N : Nat) (s : ReadmeSl) : readme_raw (List.replicate N s) = List.replicate N s.raw := by
  simp [readme_raw, List.map_replicate]

theorem readme_ok_replicate (s : ReadmeSl) : ∀ (ns : List Nat), (∀ n ∈ ns, 3 ≤ n) → readme_ok (List.replicate ns.length s) ns := by
  intro ns
  induction ns with
  | nil => intro _; simp [readme_ok]
  | cons n ns ih =>
    intro h
    have hr := ih (fun k hk => h k (by simp [hk]))
    have hn := h n (by simp)
    cases s
    · exact ⟨hn, hr⟩
    · exact ⟨hn, hr⟩
    · exact hr

theorem readme_shape_replicate_front : ∀ (ns : List Nat), readme_shape (List.replicate ns.length .front) ns = List.replicate ns.length 3 := by
  intro ns
  induction ns with
  | nil => rfl
  | cons n ns ih => simp [List.replicate_succ, readme_shape, ReadmeSl.count, ih]

theorem readme_shape_replicate_back : ∀ (ns : List Nat), readme_shape (List.replicate ns.length .back) ns = List.replicate ns.length 3 := by
  intro ns
  induction ns with
  | nil => rfl
  | cons n ns ih => simp [List.replicate_succ, readme_shape, ReadmeSl.count, ih]

theorem readme_src_replicate_front : ∀ (ns out : List Nat), out.length = ns.length →
    readme_src (List.replicate ns.length .front) ns out = out := by
  intro ns
  induction ns with
  | nil => intro out h; cases out with
    | nil => rfl
    | cons _ _ => simp at h
  | cons n ns ih =>
    intro out h
    cases out with
    | nil => simp at h
    | cons j out => simp [List.replicate_succ, readme_src, ReadmeSl.src, ih out (by simpa using h)]

theorem readme_src_replicate_back : ∀ (ns out : List Nat), out.length = ns.length →
    readme_src (List.replicate ns.length .back) ns out = List.zipWith (fun n j => n - 3 + j) ns out := by
  intro ns
  induction ns with
  | nil => intro out h; cases out with
    | nil => rfl
    | cons _ _ => simp at h
  | cons n ns ih =>
    intro out h
    cases out with
    | nil => simp at h
    | cons j out => simp [List.replicate_succ, readme_src, ReadmeSl.src, ih out (by simpa using h)]

/-! ### `t[:3, ...]`, `t[-3:, ...]` -/

theorem readme_ok_all : ∀ (ns : List Nat), readme_ok (List.replicate ns.length .all) ns := by
  intro ns
  induction ns with
  | nil => simp [readme_ok]
  | cons n ns ih => simpa [List.replicate_succ, readme_ok] using ih

theorem readme_shape_all : ∀ (ns : List Nat), readme_shape (List.replicate ns.length .all) ns = ns := by
  intro ns
  induction ns with
  | nil => rfl
  | cons n ns ih => simp [List.replicate_succ, readme_shape, ReadmeSl.count, ih]

theorem readme_src_all : ∀ (ns out : List Nat), out.length = ns.length →
    readme_src (List.replicate ns.length .all) ns out = out := by
  intro ns
  induction ns with
  | nil => intro out h; cases out with
    | nil => rfl
    | cons _ _ => simp at h
  | cons n ns ih =>
    intro out h
    cases out with
    | nil => simp at h
    | cons j out => simp [List.replicate_succ, readme_src, ReadmeSl.src, ih out (by simpa using h)]

end TN
