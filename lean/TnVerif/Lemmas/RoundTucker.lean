import TnVerif.Model.RoundTucker
import TnVerif.Lemmas.RoundTTBridge
import TnVerif.Lemmas.RankSelect
import TnVerif.Lemmas.OrthSweep
import Mathlib.Tactic.FieldSimp
import Mathlib.LinearAlgebra.Matrix.NonsingularInverse
/-! Error of the `round_tucker` sweep: per-mode Pythagoras (the truncation of the factor seen through the orthonormal
    core and the orthonormal interfaces), the re-gauging `right_orthogonalize`, and the assembly over the sweep. -/
set_option linter.unusedSectionVars false
set_option linter.unusedVariables false
set_option linter.unusedSimpArgs false
open Finset
namespace TN
variable {R : Type} [CommRing R]

/-- a square matrix with orthonormal columns has orthonormal rows (`RᵀR = I → RRᵀ = I`) -/
theorem tk_sq_orth (r : Nat) (Rf : Nat → Nat → R)
    (h : ∀ m, m < r → ∀ m', m' < r → (∑ l ∈ range r, Rf l m * Rf l m') = if m = m' then 1 else 0) :
    ∀ l, l < r → ∀ l', l' < r → (∑ m ∈ range r, Rf l m * Rf l' m) = if l = l' then 1 else 0 := by
  let M : Matrix (Fin r) (Fin r) R := Matrix.of fun i j => Rf i.val j.val
  have hM : ∀ i j, M i j = Rf i.val j.val := fun _ _ => rfl
  have h1 : M.transpose * M = 1 := by
    ext i j
    rw [Matrix.mul_apply, Matrix.one_apply]
    simp only [Matrix.transpose_apply, hM]
    rw [Fin.sum_univ_eq_sum_range (fun l => Rf l i.val * Rf l j.val) r, h i.val i.isLt j.val j.isLt]
    simp [Fin.ext_iff]
  have h2 : M * M.transpose = 1 := mul_eq_one_comm.mp h1
  intro l hl l' hl'
  have := congrFun (congrFun h2 ⟨l, hl⟩) ⟨l', hl'⟩
  rw [Matrix.mul_apply, Matrix.one_apply] at this
  simp only [Matrix.transpose_apply, hM] at this
  rw [Fin.sum_univ_eq_sum_range (fun m => Rf l m * Rf l' m) r] at this
  rw [this]
  simp [Fin.ext_iff]

/-- Pythagoras for the truncation of a matrix `Up = U·diag(S)·Vh` seen through an isometry `W`:
    `Σ_w Σ_i (Σ_l W_wl Up_il − Σ_{m<r} Yh_wm U_im)² = Σ_{m≥r} S_m² + Σ_w Σ_{m<r} (Σ_l W_wl Vh_ml S_m − Yh_wm)²` -/
theorem tk_pythag_mat (s : List Nat) (kk : Nat) (W : List Nat → Nat → R)
    (hW : ∀ l, l < kk → ∀ l', l' < kk → boxSum s (fun w => W w l * W w l') = if l = l' then 1 else 0)
    (I : Nat) (Up : Nat → Nat → R) (B : SVDAns R) (r : Nat) (hr : r ≤ B.n)
    (hf : ∀ i, i < I → ∀ l, l < kk → Up i l = ∑ m ∈ range B.n, B.U i m * (B.S m * B.Vh m l 0))
    (hU : ∀ k l, k < B.n → l < B.n → (∑ i ∈ range I, B.U i k * B.U i l) = if k = l then 1 else 0)
    (hV : ∀ k l, k < B.n → l < B.n → (∑ j ∈ range kk, B.Vh k j 0 * B.Vh l j 0) = if k = l then 1 else 0)
    (Yh : List Nat → Nat → R) :
    boxSum s (fun w => ∑ i ∈ range I, ((∑ l ∈ range kk, W w l * Up i l) - ∑ m ∈ range r, Yh w m * B.U i m) ^ 2)
      = (∑ m ∈ Ico r B.n, B.S m ^ 2)
        + boxSum s (fun w => ∑ m ∈ range r, ((∑ l ∈ range kk, W w l * (B.Vh m l 0 * B.S m)) - Yh w m) ^ 2) := by
  have := pythag s kk W hW I 1 (fun l i _ => Up i l)
    { n := B.n, U := fun l m => B.Vh m l 0, S := B.S, Vh := fun m i _ => B.U i m } r hr
    (by intro l hl i hi b _
        show Up i l = ∑ m ∈ range B.n, B.Vh m l 0 * (B.S m * B.U i m)
        rw [hf i hi l hl]; apply Finset.sum_congr rfl; intro m _; ring)
    (by intro k l hk hl; exact hV k l hk hl)
    (by intro k l hk hl; simp only [Finset.sum_range_one]; exact hU k l hk hl)
    Yh
  simpa only [Finset.sum_range_one] using this

/-! ### one mode of the Tucker sweep -/

theorem tk_toMode_G (m : TkMode R) (i a b : Nat) :
    m.toMode.G i a b = ∑ j ∈ range m.core.n, m.U i j * m.core.G j a b := by
  simp [TkMode.toMode, Mode.lin, sumTo_eq]

/-- the mode unfolding of the core (`rows (a,b)`, columns = spatial index) has orthonormal columns -/
def tkModeOrtho (m : Mode R) : Prop :=
  ∀ l, l < m.n → ∀ l', l' < m.n → (∑ a ∈ range m.rl, ∑ b ∈ range m.rr, m.G l a b * m.G l' a b) = if l = l' then 1 else 0

/-- contract of `torch.linalg.qr` for the mode unfolding of the core of `m`: `Q·R =` unfolding, `QᵀQ = I` -/
structure TkQRok (m : TkMode R) (A : QRAns R) : Prop where
  factor : ∀ a, a < m.core.rl → ∀ j, j < m.core.n → ∀ b, b < m.core.rr →
    m.core.G j a b = ∑ l ∈ range A.k, A.Q (a * m.core.rr + b) l * A.Rm l j
  ortho : ∀ l, l < A.k → ∀ l', l' < A.k →
    (∑ row ∈ range (m.core.rl * m.core.rr), A.Q row l * A.Q row l') = if l = l' then 1 else 0

/-- contract of `torch.linalg.svd` for the factor of `g` (`rows × core.n`): `U·diag(S)·Vh = factor`, `UᵀU = I`, `Vh·Vhᵀ = I` -/
structure TkSVDok (g : TkMode R) (B : SVDAns R) : Prop where
  factor : ∀ i, i < g.rows → ∀ l, l < g.core.n → g.U i l = ∑ m ∈ range B.n, B.U i m * (B.S m * B.Vh m l 0)
  orthoU : ∀ k l, k < B.n → l < B.n → (∑ i ∈ range g.rows, B.U i k * B.U i l) = if k = l then 1 else 0
  orthoV : ∀ k l, k < B.n → l < B.n → (∑ j ∈ range g.core.n, B.Vh k j 0 * B.Vh l j 0) = if k = l then 1 else 0

/-- contract of `torch.linalg.qr(Us[mu])` in `factor_orthogonalize` (the factor is `rows × core.n` with `core.n ≤ rows`, so `Q` has
    `core.n` columns and `R` is square) -/
structure TkFQok (t : TkMode R) (Af : QRAns R) : Prop where
  factor : ∀ i, i < t.rows → ∀ k, k < t.core.n → t.U i k = ∑ l ∈ range Af.k, Af.Q i l * Af.Rm l k
  ortho : ∀ l, l < Af.k → ∀ l', l' < Af.k → (∑ i ∈ range t.rows, Af.Q i l * Af.Q i l') = if l = l' then 1 else 0
  square : Af.k = t.core.n

/-- contract of the QR of the transposed right unfolding of `Rf ×₂ core` in `right_orthogonalize` -/
structure TkRQok (t : TkMode R) (Af Aq : QRAns R) : Prop where
  factor : ∀ l, l < Af.k → ∀ a, a < t.core.rl → ∀ b, b < t.core.rr →
    tkCore3 t Af l a b = ∑ c ∈ range Aq.k, Aq.Q (l * t.core.rr + b) c * Aq.Rm c a
  ortho : ∀ c, c < Aq.k → ∀ c', c' < Aq.k →
    (∑ row ∈ range (Af.k * t.core.rr), Aq.Q row c * Aq.Q row c') = if c = c' then 1 else 0

/-- the gauge step leaves the mode (core with factor applied) unchanged -/
theorem tkGauge_G (m : TkMode R) (A : QRAns R) (h : TkQRok m A) (i a b : Nat) (ha : a < m.core.rl) (hb : b < m.core.rr) :
    (tkGauge m A).toMode.G i a b = m.toMode.G i a b := by
  rw [tk_toMode_G, tk_toMode_G]
  simp only [tkGauge, sumTo_eq]
  have e : ∀ j ∈ range m.core.n, m.U i j * m.core.G j a b
      = ∑ l ∈ range A.k, (m.U i j * A.Rm l j) * A.Q (a * m.core.rr + b) l := by
    intro j hj
    rw [h.factor a ha j (Finset.mem_range.mp hj) b hb, Finset.mul_sum]
    apply Finset.sum_congr rfl; intro l _; ring
  rw [Finset.sum_congr rfl e, Finset.sum_comm]
  apply Finset.sum_congr rfl; intro l _
  rw [Finset.sum_mul]

/-- … and makes the core's mode unfolding orthonormal -/
theorem tkGauge_modeOrtho (m : TkMode R) (A : QRAns R) (h : TkQRok m A) : tkModeOrtho (tkGauge m A).core := by
  intro l hl l' hl'
  simp only [tkGauge] at hl hl' ⊢
  rw [← h.ortho l hl l' hl', ← sum_range_mul m.core.rl m.core.rr (fun a b => A.Q (a * m.core.rr + b) l * A.Q (a * m.core.rr + b) l')]
  apply Finset.sum_congr rfl; intro row hrow
  by_cases hn : m.core.rr = 0
  · simp [hn] at hrow
  · have : row / m.core.rr * m.core.rr + row % m.core.rr = row := by rw [Nat.mul_comm]; exact Nat.div_add_mod row m.core.rr
    rw [this]

/-- `right = U_rᵀ·Us[mu]` is `diag(S_r)·Vh_r` (cf. `C05.truncation_right_factor`) -/
theorem tkRight_eq (g : TkMode R) (B : SVDAns R) (h : TkSVDok g B) (k l : Nat) (hk : k < B.n) (hl : l < g.core.n) :
    tkRight g B k l = B.S k * B.Vh k l 0 := by
  simp only [tkRight, sumTo_eq]
  have e : ∀ i ∈ range g.rows, B.U i k * g.U i l = ∑ m ∈ range B.n, (B.U i k * B.U i m) * (B.S m * B.Vh m l 0) := by
    intro i hi
    rw [h.factor i (Finset.mem_range.mp hi) l hl, Finset.mul_sum]
    apply Finset.sum_congr rfl; intro m _; ring
  rw [Finset.sum_congr rfl e, Finset.sum_comm]
  have e2 : ∀ m ∈ range B.n, (∑ i ∈ range g.rows, B.U i k * B.U i m * (B.S m * B.Vh m l 0)) = (if k = m then 1 else 0) * (B.S m * B.Vh m l 0) := by
    intro m hm
    rw [← Finset.sum_mul, h.orthoU k m hk (Finset.mem_range.mp hm)]
  rw [Finset.sum_congr rfl e2, Finset.sum_eq_single k]
  · simp
  · intro m _ hm; simp [Ne.symm hm]
  · intro hh; exact absurd (Finset.mem_range.mpr hk) hh

/-- the interface through an orthonormal core: `W[(b::x), l] = Σ_a X[x,a]·G[l,a,b]` is an isometry in `l` -/
theorem tk_W_iso (s : List Nat) (X : List Nat → Nat → R) (c : Mode R)
    (hX : ∀ a, a < c.rl → ∀ a', a' < c.rl → boxSum s (fun x => X x a * X x a') = if a = a' then 1 else 0)
    (hc : tkModeOrtho c) (l : Nat) (hl : l < c.n) (l' : Nat) (hl' : l' < c.n) :
    boxSum (c.rr :: s) (fun w => (∑ a ∈ range c.rl, X w.tail a * c.G l a (w.headD 0)) * (∑ a ∈ range c.rl, X w.tail a * c.G l' a (w.headD 0)))
      = if l = l' then 1 else 0 := by
  rw [boxSum_cons, ← hc l hl l' hl', Finset.sum_comm]
  apply Finset.sum_congr rfl; intro b _
  simp only [List.tail_cons, List.headD_cons]
  exact boxSum_orth_pair s c.rl X hX (fun a => c.G l a b) (fun a => c.G l' a b)

theorem tk_trunc_pythag (s : List Nat) (X : List Nat → Nat → R) (g : TkMode R)
    (hX : ∀ a, a < g.core.rl → ∀ a', a' < g.core.rl → boxSum s (fun x => X x a * X x a') = if a = a' then 1 else 0)
    (hg : tkModeOrtho g.core) (B : SVDAns R) (hB : TkSVDok g B) (r : Nat) (hr : r ≤ B.n)
    (Yh : Nat → List Nat → Nat → R) :
    (∑ i ∈ range g.rows, boxSum s (fun x => ∑ b ∈ range g.core.rr,
        ((∑ a ∈ range g.core.rl, X x a * g.toMode.G i a b) - ∑ m ∈ range r, Yh b x m * B.U i m) ^ 2))
      = (∑ m ∈ Ico r B.n, B.S m ^ 2)
        + ∑ b ∈ range g.core.rr, boxSum s (fun x => ∑ m ∈ range r,
            ((∑ a ∈ range g.core.rl, X x a * (tkTrunc g B r).core.G m a b) - Yh b x m) ^ 2) := by
  have key := tk_pythag_mat (g.core.rr :: s) g.core.n
    (fun w l => ∑ a ∈ range g.core.rl, X w.tail a * g.core.G l a (w.headD 0))
    (fun l hl l' hl' => tk_W_iso s X g.core hX hg l hl l' hl')
    g.rows g.U B r hr hB.factor hB.orthoU hB.orthoV (fun w m => Yh (w.headD 0) w.tail m)
  rw [boxSum_cons, boxSum_cons] at key
  simp only [List.tail_cons, List.headD_cons] at key
  -- left-hand side
  have eL : (∑ i ∈ range g.rows, boxSum s (fun x => ∑ b ∈ range g.core.rr,
        ((∑ a ∈ range g.core.rl, X x a * g.toMode.G i a b) - ∑ m ∈ range r, Yh b x m * B.U i m) ^ 2))
      = ∑ b ∈ range g.core.rr, boxSum s (fun x => ∑ i ∈ range g.rows,
          ((∑ l ∈ range g.core.n, (∑ a ∈ range g.core.rl, X x a * g.core.G l a b) * g.U i l) - ∑ m ∈ range r, Yh b x m * B.U i m) ^ 2) := by
    have e1 : ∀ i ∈ range g.rows, boxSum s (fun x => ∑ b ∈ range g.core.rr,
          ((∑ a ∈ range g.core.rl, X x a * g.toMode.G i a b) - ∑ m ∈ range r, Yh b x m * B.U i m) ^ 2)
        = ∑ b ∈ range g.core.rr, boxSum s (fun x =>
          ((∑ l ∈ range g.core.n, (∑ a ∈ range g.core.rl, X x a * g.core.G l a b) * g.U i l) - ∑ m ∈ range r, Yh b x m * B.U i m) ^ 2) := by
      intro i _
      rw [boxSum_sum]
      apply Finset.sum_congr rfl; intro b _
      apply boxSum_congr; intro x
      congr 2
      have : ∀ a ∈ range g.core.rl, X x a * g.toMode.G i a b = ∑ l ∈ range g.core.n, (X x a * g.core.G l a b) * g.U i l := by
        intro a _
        rw [tk_toMode_G, Finset.mul_sum]; apply Finset.sum_congr rfl; intro l _; ring
      rw [Finset.sum_congr rfl this, Finset.sum_comm]
      apply Finset.sum_congr rfl; intro l _
      rw [Finset.sum_mul]
    rw [Finset.sum_congr rfl e1, Finset.sum_comm]
    apply Finset.sum_congr rfl; intro b _
    rw [boxSum_sum]
  rw [eL, key]
  congr 1
  apply Finset.sum_congr rfl; intro b _
  apply boxSum_congr; intro x
  apply Finset.sum_congr rfl; intro m hm
  congr 2
  have hm' : m < B.n := by have := Finset.mem_range.mp hm; omega
  have : ∀ a ∈ range g.core.rl, X x a * (tkTrunc g B r).core.G m a b
      = ∑ l ∈ range g.core.n, (X x a * g.core.G l a b) * (B.Vh m l 0 * B.S m) := by
    intro a _
    simp only [tkTrunc, sumTo_eq]
    rw [Finset.mul_sum]; apply Finset.sum_congr rfl; intro l hl
    rw [tkRight_eq g B hB m l hm' (Finset.mem_range.mp hl)]; ring
  rw [Finset.sum_congr rfl this, Finset.sum_comm]
  apply Finset.sum_congr rfl; intro l _
  rw [Finset.sum_mul]

/-- rows `l·rr + b` of a matrix, summed as a double sum -/
theorem tk_sum_rows (p q : Nat) (f : Nat → R) :
    (∑ row ∈ range (p * q), f row) = ∑ l ∈ range p, ∑ b ∈ range q, f (l * q + b) := by
  rw [← sum_range_mul p q (fun l b => f (l * q + b))]
  apply Finset.sum_congr rfl; intro row hrow
  by_cases hn : q = 0
  · simp [hn] at hrow
  · have : row / q * q + row % q = row := by rw [Nat.mul_comm]; exact Nat.div_add_mod row q
    rw [this]

/-- the re-gauging `right_orthogonalize(mu)` seen from the left interface: with `Rf` square orthogonal, `Rf ×₂ C2 = Qq·Lq` and `Qq`
    orthonormal, the distance of `v·C2` to anything of the form `Rfᵀ·(f·Qq)` is the distance of `v·Lqᵀ` to `f` -/
theorem tk_regauge_iso (r rl rr k2 : Nat) (Rf : Nat → Nat → R) (C2 : Nat → Nat → Nat → R) (Qq Lq : Nat → Nat → R)
    (hR : ∀ m, m < r → ∀ m', m' < r → (∑ l ∈ range r, Rf l m * Rf l m') = if m = m' then 1 else 0)
    (hf : ∀ l, l < r → ∀ a, a < rl → ∀ b, b < rr → (∑ m ∈ range r, Rf l m * C2 m a b) = ∑ c ∈ range k2, Qq (l * rr + b) c * Lq c a)
    (hQ : ∀ c, c < k2 → ∀ c', c' < k2 → (∑ row ∈ range (r * rr), Qq row c * Qq row c') = if c = c' then 1 else 0)
    (v f : Nat → R) :
    (∑ b ∈ range rr, ∑ m ∈ range r,
        ((∑ a ∈ range rl, v a * C2 m a b) - ∑ l ∈ range r, Rf l m * ∑ c ∈ range k2, f c * Qq (l * rr + b) c) ^ 2)
      = ∑ c ∈ range k2, ((∑ a ∈ range rl, v a * Lq c a) - f c) ^ 2 := by
  have hRR := tk_sq_orth r Rf hR
  -- step 1
  have s1 : ∀ m, m < r → ∀ a, a < rl → ∀ b, b < rr → C2 m a b = ∑ l ∈ range r, Rf l m * ∑ c ∈ range k2, Qq (l * rr + b) c * Lq c a := by
    intro m hm a ha b hb
    have e : ∀ l ∈ range r, Rf l m * ∑ c ∈ range k2, Qq (l * rr + b) c * Lq c a = ∑ m' ∈ range r, (Rf l m * Rf l m') * C2 m' a b := by
      intro l hl
      rw [← hf l (Finset.mem_range.mp hl) a ha b hb, Finset.mul_sum]
      apply Finset.sum_congr rfl; intro m' _; ring
    rw [Finset.sum_congr rfl e, Finset.sum_comm]
    have e2 : ∀ m' ∈ range r, (∑ l ∈ range r, Rf l m * Rf l m' * C2 m' a b) = (if m = m' then 1 else 0) * C2 m' a b := by
      intro m' hm'
      rw [← Finset.sum_mul, hR m hm m' (Finset.mem_range.mp hm')]
    rw [Finset.sum_congr rfl e2, Finset.sum_eq_single m]
    · simp
    · intro m' _ hne; simp [Ne.symm hne]
    · intro hh; exact absurd (Finset.mem_range.mpr hm) hh
  -- step 2/3: the difference in the basis `Rf`
  let D : Nat → R := fun c => (∑ a ∈ range rl, v a * Lq c a) - f c
  have s3 : ∀ b ∈ range rr, ∀ m ∈ range r,
      ((∑ a ∈ range rl, v a * C2 m a b) - ∑ l ∈ range r, Rf l m * ∑ c ∈ range k2, f c * Qq (l * rr + b) c)
        = ∑ l ∈ range r, (∑ c ∈ range k2, D c * Qq (l * rr + b) c) * Rf l m := by
    intro b hb m hm
    have e1 : (∑ a ∈ range rl, v a * C2 m a b) = ∑ l ∈ range r, Rf l m * ∑ c ∈ range k2, (∑ a ∈ range rl, v a * Lq c a) * Qq (l * rr + b) c := by
      have : ∀ a ∈ range rl, v a * C2 m a b = ∑ l ∈ range r, Rf l m * ∑ c ∈ range k2, (v a * Lq c a) * Qq (l * rr + b) c := by
        intro a ha
        rw [s1 m (Finset.mem_range.mp hm) a (Finset.mem_range.mp ha) b (Finset.mem_range.mp hb), Finset.mul_sum]
        apply Finset.sum_congr rfl; intro l _
        rw [Finset.mul_sum, Finset.mul_sum, Finset.mul_sum]
        apply Finset.sum_congr rfl; intro c _; ring
      rw [Finset.sum_congr rfl this, Finset.sum_comm]
      apply Finset.sum_congr rfl; intro l _
      rw [← Finset.mul_sum, Finset.sum_comm]
      congr 1
      apply Finset.sum_congr rfl; intro c _
      rw [Finset.sum_mul]
    rw [e1, ← Finset.sum_sub_distrib]
    apply Finset.sum_congr rfl; intro l _
    rw [← mul_sub, ← Finset.sum_sub_distrib, mul_comm]
    congr 1
    apply Finset.sum_congr rfl; intro c _
    simp only [D]; ring
  rw [Finset.sum_congr rfl (fun b hb => Finset.sum_congr rfl (fun m hm => by rw [s3 b hb m hm]))]
  -- step 4: `Rf` is an isometry
  have s4 : ∀ b ∈ range rr, (∑ m ∈ range r, (∑ l ∈ range r, (∑ c ∈ range k2, D c * Qq (l * rr + b) c) * Rf l m) ^ 2)
      = ∑ l ∈ range r, (∑ c ∈ range k2, D c * Qq (l * rr + b) c) ^ 2 := by
    intro b _
    have := rowiso r r 1 (fun l => ∑ c ∈ range k2, D c * Qq (l * rr + b) c) (fun l m _ => Rf l m)
      (by intro k l hk hl; simp only [Finset.sum_range_one]; exact hRR k hk l hl)
    simpa only [Finset.sum_range_one] using this
  rw [Finset.sum_congr rfl s4, Finset.sum_comm]
  -- step 5: `Qq` is an isometry
  exact rowiso k2 r rr D (fun c l b => Qq (l * rr + b) c)
    (by intro c c' hc hc'; rw [← hQ c hc c' hc', tk_sum_rows])

/-- the factor has orthonormal columns -/
def tkColOrtho (t : TkMode R) : Prop :=
  ∀ k, k < t.core.n → ∀ k', k' < t.core.n → (∑ i ∈ range t.rows, t.U i k * t.U i k') = if k = k' then 1 else 0

/-- the `R` of the QR of a factor with orthonormal columns has orthonormal columns -/
theorem tk_Rf_cols (t : TkMode R) (Af : QRAns R) (hU : tkColOrtho t) (hF : TkFQok t Af) :
    ∀ m, m < t.core.n → ∀ m', m' < t.core.n → (∑ l ∈ range t.core.n, Af.Rm l m * Af.Rm l m') = if m = m' then 1 else 0 := by
  intro m hm m' hm'
  rw [← hU m hm m' hm']
  have e : ∀ i ∈ range t.rows, t.U i m * t.U i m'
      = ∑ l ∈ range Af.k, ∑ l' ∈ range Af.k, (Af.Rm l m * Af.Rm l' m') * (Af.Q i l * Af.Q i l') := by
    intro i hi
    rw [hF.factor i (Finset.mem_range.mp hi) m hm, hF.factor i (Finset.mem_range.mp hi) m' hm', Finset.sum_mul_sum]
    apply Finset.sum_congr rfl; intro l _; apply Finset.sum_congr rfl; intro l' _; ring
  rw [Finset.sum_congr rfl e, Finset.sum_comm, ← hF.square]
  apply Finset.sum_congr rfl; intro l hl
  rw [Finset.sum_comm]
  have e2 : ∀ l' ∈ range Af.k, (∑ i ∈ range t.rows, Af.Rm l m * Af.Rm l' m' * (Af.Q i l * Af.Q i l'))
      = (Af.Rm l m * Af.Rm l' m') * (if l = l' then 1 else 0) := by
    intro l' hl'
    rw [← Finset.mul_sum, hF.ortho l (Finset.mem_range.mp hl) l' (Finset.mem_range.mp hl')]
  rw [Finset.sum_congr rfl e2, Finset.sum_eq_single l]
  · simp
  · intro l' _ hne; simp [Ne.symm hne]
  · intro hh; exact absurd hl hh

/-- `Qf = U·Rfᵀ`: the new factor spans the same columns as the old one -/
theorem tk_Qf_eq (t : TkMode R) (Af : QRAns R) (hU : tkColOrtho t) (hF : TkFQok t Af) (i l : Nat) (hi : i < t.rows) (hl : l < t.core.n) :
    Af.Q i l = ∑ m ∈ range t.core.n, t.U i m * Af.Rm l m := by
  have hRR := tk_sq_orth t.core.n Af.Rm (tk_Rf_cols t Af hU hF)
  have e : ∀ m ∈ range t.core.n, t.U i m * Af.Rm l m = ∑ l' ∈ range t.core.n, Af.Q i l' * (Af.Rm l' m * Af.Rm l m) := by
    intro m hm
    rw [hF.factor i hi m (Finset.mem_range.mp hm), hF.square, Finset.sum_mul]
    apply Finset.sum_congr rfl; intro l' _; ring
  rw [Finset.sum_congr rfl e, Finset.sum_comm]
  have e2 : ∀ l' ∈ range t.core.n, (∑ m ∈ range t.core.n, Af.Q i l' * (Af.Rm l' m * Af.Rm l m)) = Af.Q i l' * (if l' = l then 1 else 0) := by
    intro l' hl'
    rw [← Finset.mul_sum, hRR l' (Finset.mem_range.mp hl') l hl]
  rw [Finset.sum_congr rfl e2, Finset.sum_eq_single l]
  · simp
  · intro l' _ hne; simp [hne]
  · intro hh; exact absurd (Finset.mem_range.mpr hl) hh

/-- coefficients of a tensor `Σ_c f_c · (new mode mu)[·, c, b]` in the basis of the OLD factor's columns -/
def tkYh (Af Aq : QRAns R) (rr n : Nat) (f : Nat → R) (b m : Nat) : R :=
  ∑ l ∈ range n, Af.Rm l m * ∑ c ∈ range Aq.k, f c * Aq.Q (l * rr + b) c

/-- anything built on the re-gauged mode `mu` lies in the span of the old factor's columns -/
theorem tk_regauge_span (p t : TkMode R) (Af Aq : QRAns R) (hU : tkColOrtho t) (hF : TkFQok t Af) (f : Nat → R)
    (i b : Nat) (hi : i < t.rows) :
    (∑ c ∈ range Aq.k, f c * (tkRegauge p t Af Aq).2.toMode.G i c b)
      = ∑ m ∈ range t.core.n, tkYh Af Aq t.core.rr t.core.n f b m * t.U i m := by
  have e : ∀ c ∈ range Aq.k, f c * (tkRegauge p t Af Aq).2.toMode.G i c b
      = ∑ m ∈ range t.core.n, ∑ l ∈ range t.core.n, (Af.Rm l m * (f c * Aq.Q (l * t.core.rr + b) c)) * t.U i m := by
    intro c _
    rw [tk_toMode_G]
    simp only [tkRegauge]
    rw [hF.square, Finset.mul_sum, Finset.sum_comm]
    apply Finset.sum_congr rfl; intro l hl
    rw [tk_Qf_eq t Af hU hF i l hi (Finset.mem_range.mp hl), Finset.sum_mul, Finset.mul_sum]
    apply Finset.sum_congr rfl; intro m _; ring
  rw [Finset.sum_congr rfl e, Finset.sum_comm]
  apply Finset.sum_congr rfl; intro m _
  simp only [tkYh]
  rw [Finset.sum_comm, Finset.sum_mul]
  apply Finset.sum_congr rfl; intro l _
  rw [Finset.mul_sum, Finset.sum_mul]

/-- … and its distance to `v·core` is measured on the bond to mode `mu-1` -/
theorem tk_regauge_dist (t : TkMode R) (Af Aq : QRAns R) (hU : tkColOrtho t) (hF : TkFQok t Af) (hQ : TkRQok t Af Aq) (v f : Nat → R) :
    (∑ b ∈ range t.core.rr, ∑ m ∈ range t.core.n,
        ((∑ a ∈ range t.core.rl, v a * t.core.G m a b) - tkYh Af Aq t.core.rr t.core.n f b m) ^ 2)
      = ∑ c ∈ range Aq.k, ((∑ a ∈ range t.core.rl, v a * Aq.Rm c a) - f c) ^ 2 := by
  simp only [tkYh]
  exact tk_regauge_iso t.core.n t.core.rl t.core.rr Aq.k Af.Rm (fun m a b => t.core.G m a b) Aq.Q Aq.Rm
    (tk_Rf_cols t Af hU hF)
    (by intro l hl a ha b hb
        have := hQ.factor l (by rw [hF.square]; exact hl) a ha b hb
        simpa only [tkCore3, sumTo_eq] using this)
    (by intro c hc c' hc'; have := hQ.ortho c hc c' hc'; rwa [hF.square] at this)
    v f

theorem tkTrunc_colOrtho (g : TkMode R) (B : SVDAns R) (hB : TkSVDok g B) (r : Nat) (hr : r ≤ B.n) : tkColOrtho (tkTrunc g B r) := by
  intro k hk k' hk'
  simp only [tkTrunc] at hk hk' ⊢
  exact hB.orthoU k k' (by omega) (by omega)

/-- **one full iteration (`mu > 0`), Pythagoras**: for ANY later approximation `Fl` of the part left of mode `mu`, the squared distance
    splits into the discarded tail of the factor's singular values and the distance measured on the bond to mode `mu-1` -/
theorem tk_step_pythag (s : List Nat) (X : List Nat → Nat → R) (p cur : TkMode R) (A : TkAns R) (r : Nat)
    (hX : ∀ a, a < cur.core.rl → ∀ a', a' < cur.core.rl → boxSum s (fun x => X x a * X x a') = if a = a' then 1 else 0)
    (hqr : TkQRok cur A.qr) (hsvd : TkSVDok (tkGauge cur A.qr) A.svd) (hr : r ≤ A.svd.n)
    (hfq : TkFQok (tkTrunc (tkGauge cur A.qr) A.svd r) A.fq) (hrq : TkRQok (tkTrunc (tkGauge cur A.qr) A.svd r) A.fq A.rq)
    (Fl : List Nat → Nat → R) :
    (∑ i ∈ range cur.rows, boxSum s (fun x => ∑ b ∈ range cur.core.rr,
        ((∑ a ∈ range cur.core.rl, X x a * cur.toMode.G i a b)
          - ∑ c ∈ range A.rq.k, Fl x c * (tkRegauge p (tkTrunc (tkGauge cur A.qr) A.svd r) A.fq A.rq).2.toMode.G i c b) ^ 2))
      = (∑ m ∈ Ico r A.svd.n, A.svd.S m ^ 2)
        + boxSum s (fun x => ∑ c ∈ range A.rq.k, ((∑ a ∈ range cur.core.rl, X x a * A.rq.Rm c a) - Fl x c) ^ 2) := by
  have hcol := tkTrunc_colOrtho (tkGauge cur A.qr) A.svd hsvd r hr
  have h1 := tk_trunc_pythag s X (tkGauge cur A.qr) hX (tkGauge_modeOrtho cur A.qr hqr) A.svd hsvd r hr
    (fun b x m => tkYh A.fq A.rq cur.core.rr r (Fl x) b m)
  have eL : (∑ i ∈ range cur.rows, boxSum s (fun x => ∑ b ∈ range cur.core.rr,
        ((∑ a ∈ range cur.core.rl, X x a * cur.toMode.G i a b)
          - ∑ c ∈ range A.rq.k, Fl x c * (tkRegauge p (tkTrunc (tkGauge cur A.qr) A.svd r) A.fq A.rq).2.toMode.G i c b) ^ 2))
      = ∑ i ∈ range (tkGauge cur A.qr).rows, boxSum s (fun x => ∑ b ∈ range (tkGauge cur A.qr).core.rr,
        ((∑ a ∈ range (tkGauge cur A.qr).core.rl, X x a * (tkGauge cur A.qr).toMode.G i a b)
          - ∑ m ∈ range r, tkYh A.fq A.rq cur.core.rr r (Fl x) b m * A.svd.U i m) ^ 2) := by
    show (∑ i ∈ range cur.rows, _) = ∑ i ∈ range cur.rows, boxSum s (fun x => ∑ b ∈ range cur.core.rr,
        ((∑ a ∈ range cur.core.rl, X x a * (tkGauge cur A.qr).toMode.G i a b)
          - ∑ m ∈ range r, tkYh A.fq A.rq cur.core.rr r (Fl x) b m * A.svd.U i m) ^ 2)
    apply Finset.sum_congr rfl; intro i hi
    apply boxSum_congr; intro x
    apply Finset.sum_congr rfl; intro b hb
    congr 2
    · apply Finset.sum_congr rfl; intro a ha
      rw [tkGauge_G cur A.qr hqr i a b (Finset.mem_range.mp ha) (Finset.mem_range.mp hb)]
    · exact tk_regauge_span p (tkTrunc (tkGauge cur A.qr) A.svd r) A.fq A.rq hcol hfq (Fl x) i b (Finset.mem_range.mp hi)
  rw [eL, h1]
  congr 1
  rw [← boxSum_sum]
  apply boxSum_congr; intro x
  exact tk_regauge_dist (tkTrunc (tkGauge cur A.qr) A.svd r) A.fq A.rq hcol hfq hrq (X x) (Fl x)

/-- **the last iteration (`mu = 0`, no re-gauging), error**: the squared distance between the mode and its truncation is the discarded tail -/
theorem tk_last_pythag (s : List Nat) (X : List Nat → Nat → R) (cur : TkMode R) (A : TkAns R) (r : Nat)
    (hX : ∀ a, a < cur.core.rl → ∀ a', a' < cur.core.rl → boxSum s (fun x => X x a * X x a') = if a = a' then 1 else 0)
    (hqr : TkQRok cur A.qr) (hsvd : TkSVDok (tkGauge cur A.qr) A.svd) (hr : r ≤ A.svd.n) :
    (∑ i ∈ range cur.rows, boxSum s (fun x => ∑ b ∈ range cur.core.rr,
        ((∑ a ∈ range cur.core.rl, X x a * cur.toMode.G i a b)
          - ∑ a ∈ range cur.core.rl, X x a * (tkTrunc (tkGauge cur A.qr) A.svd r).toMode.G i a b) ^ 2))
      = ∑ m ∈ Ico r A.svd.n, A.svd.S m ^ 2 := by
  have h1 := tk_trunc_pythag s X (tkGauge cur A.qr) hX (tkGauge_modeOrtho cur A.qr hqr) A.svd hsvd r hr
    (fun b x m => ∑ a ∈ range cur.core.rl, X x a * (tkTrunc (tkGauge cur A.qr) A.svd r).core.G m a b)
  have eL : (∑ i ∈ range cur.rows, boxSum s (fun x => ∑ b ∈ range cur.core.rr,
        ((∑ a ∈ range cur.core.rl, X x a * cur.toMode.G i a b)
          - ∑ a ∈ range cur.core.rl, X x a * (tkTrunc (tkGauge cur A.qr) A.svd r).toMode.G i a b) ^ 2))
      = ∑ i ∈ range (tkGauge cur A.qr).rows, boxSum s (fun x => ∑ b ∈ range (tkGauge cur A.qr).core.rr,
        ((∑ a ∈ range (tkGauge cur A.qr).core.rl, X x a * (tkGauge cur A.qr).toMode.G i a b)
          - ∑ m ∈ range r, (∑ a ∈ range cur.core.rl, X x a * (tkTrunc (tkGauge cur A.qr) A.svd r).core.G m a b) * A.svd.U i m) ^ 2) := by
    show (∑ i ∈ range cur.rows, _) = ∑ i ∈ range cur.rows, boxSum s (fun x => ∑ b ∈ range cur.core.rr,
        ((∑ a ∈ range cur.core.rl, X x a * (tkGauge cur A.qr).toMode.G i a b)
          - ∑ m ∈ range r, (∑ a ∈ range cur.core.rl, X x a * (tkTrunc (tkGauge cur A.qr) A.svd r).core.G m a b) * A.svd.U i m) ^ 2)
    apply Finset.sum_congr rfl; intro i hi
    apply boxSum_congr; intro x
    apply Finset.sum_congr rfl; intro b hb
    congr 2
    · apply Finset.sum_congr rfl; intro a ha
      rw [tkGauge_G cur A.qr hqr i a b (Finset.mem_range.mp ha) (Finset.mem_range.mp hb)]
    · have : ∀ a ∈ range cur.core.rl, X x a * (tkTrunc (tkGauge cur A.qr) A.svd r).toMode.G i a b
          = ∑ m ∈ range r, (X x a * (tkTrunc (tkGauge cur A.qr) A.svd r).core.G m a b) * A.svd.U i m := by
        intro a _
        rw [tk_toMode_G, Finset.mul_sum]
        show (∑ m ∈ range r, X x a * (A.svd.U i m * _)) = _
        apply Finset.sum_congr rfl; intro m _; ring
      rw [Finset.sum_congr rfl this, Finset.sum_comm]
      apply Finset.sum_congr rfl; intro m _
      rw [Finset.sum_mul]
  rw [eL, h1]
  have z : (∑ b ∈ range (tkGauge cur A.qr).core.rr, boxSum s (fun x => ∑ m ∈ range r,
      ((∑ a ∈ range (tkGauge cur A.qr).core.rl, X x a * (tkTrunc (tkGauge cur A.qr) A.svd r).core.G m a b)
        - ∑ a ∈ range cur.core.rl, X x a * (tkTrunc (tkGauge cur A.qr) A.svd r).core.G m a b) ^ 2)) = 0 := by
    apply Finset.sum_eq_zero; intro b _
    have : (fun x => ∑ m ∈ range r,
      ((∑ a ∈ range (tkGauge cur A.qr).core.rl, X x a * (tkTrunc (tkGauge cur A.qr) A.svd r).core.G m a b)
        - ∑ a ∈ range cur.core.rl, X x a * (tkTrunc (tkGauge cur A.qr) A.svd r).core.G m a b) ^ 2) = fun _ => (0 : R) := by
      funext x
      apply Finset.sum_eq_zero; intro m _
      show (_ - _) ^ 2 = 0
      have : (tkGauge cur A.qr).core.rl = cur.core.rl := rfl
      rw [this, sub_self]; ring
    rw [this, boxSum_zero]
  rw [z, add_zero]

/-- moving the bond matrix `L` into mode `mu-1` (`cores[mu-1] = left_unfolding(cores[mu-1]) @ L`) -/
theorem tk_openRev_step (p t : TkMode R) (Af Aq : QRAns R) (rest : List (Mode R)) (x : List Nat) (c : Nat) :
    openRev ((tkRegauge p t Af Aq).1.toMode :: rest) x c = ∑ a ∈ range p.core.rr, openRev (p.toMode :: rest) x a * Aq.Rm c a := by
  cases x with
  | nil => simp [openRev]
  | cons j js =>
    simp only [openRev]
    have hrl : (tkRegauge p t Af Aq).1.toMode.rl = p.toMode.rl := rfl
    rw [hrl]
    have e : ∀ a' ∈ range p.toMode.rl, openRev rest js a' * (tkRegauge p t Af Aq).1.toMode.G j a' c
        = ∑ a ∈ range p.core.rr, (openRev rest js a' * p.toMode.G j a' a) * Aq.Rm c a := by
      intro a' _
      rw [tk_toMode_G]
      simp only [tkRegauge, sumTo_eq]
      rw [Finset.mul_sum]
      have : ∀ jj ∈ range p.core.n, openRev rest js a' * (p.U j jj * ∑ a ∈ range p.core.rr, p.core.G jj a' a * Aq.Rm c a)
          = ∑ a ∈ range p.core.rr, openRev rest js a' * ((p.U j jj * p.core.G jj a' a) * Aq.Rm c a) := by
        intro jj _
        rw [Finset.mul_sum, Finset.mul_sum]; apply Finset.sum_congr rfl; intro a _; ring
      rw [Finset.sum_congr rfl this, Finset.sum_comm]
      apply Finset.sum_congr rfl; intro a _
      rw [tk_toMode_G, Finset.mul_sum, Finset.sum_mul]
      apply Finset.sum_congr rfl; intro jj _; ring
    rw [Finset.sum_congr rfl e, Finset.sum_comm]
    apply Finset.sum_congr rfl; intro a _
    rw [Finset.sum_mul]

section tksweep
variable {K : Type} [Field K] [LinearOrder K] [IsStrictOrderedRing K]

/-- sum of the discarded tails of all iterations -/
def tkSweepErr (thr eps : K) (nd : Nat) : List (TkMode K) → List (TkAns K × Nat) → K
  | [cur], (A, rmax) :: _ => ∑ m ∈ Ico (tkStepRank thr eps nd cur A rmax) A.svd.n, A.svd.S m ^ 2
  | cur :: p :: rest, (A, rmax) :: as =>
      (∑ m ∈ Ico (tkStepRank thr eps nd cur A rmax) A.svd.n, A.svd.S m ^ 2)
        + tkSweepErr thr eps nd ((tuckerStep thr eps nd p cur A rmax).1 :: rest) as
  | _, _ => 0

/-- every kernel answer meets its contract for the matrix it was computed from (the chain evolves along the sweep), and no
    iteration takes the absolute-zero special case of `truncated_svd` -/
def tkOK (thr eps : K) (nd : Nat) : List (TkMode K) → List (TkAns K × Nat) → Prop
  | [cur], (A, _) :: _ => TkQRok cur A.qr ∧ TkSVDok (tkGauge cur A.qr) A.svd ∧ thr ≤ A.svd.S 0 ∧ 1 ≤ A.svd.n
  | cur :: p :: rest, (A, rmax) :: as =>
      TkQRok cur A.qr ∧ TkSVDok (tkGauge cur A.qr) A.svd ∧ thr ≤ A.svd.S 0 ∧ 1 ≤ A.svd.n ∧
      TkFQok (tkStepCore thr eps nd cur A rmax) A.fq ∧ TkRQok (tkStepCore thr eps nd cur A rmax) A.fq A.rq ∧
      tkOK thr eps nd ((tuckerStep thr eps nd p cur A rmax).1 :: rest) as
  | _, _ => True

theorem tkStepCore_eq (thr eps : K) (nd : Nat) (cur : TkMode K) (A : TkAns K) (rmax : Nat) (h0 : thr ≤ A.svd.S 0) :
    tkStepCore thr eps nd cur A rmax = tkTrunc (tkGauge cur A.qr) A.svd (tkStepRank thr eps nd cur A rmax) := by
  simp [tkStepCore, h0]

theorem tkStepRank_le (thr eps : K) (nd : Nat) (cur : TkMode K) (A : TkAns K) (rmax : Nat) (h0 : thr ≤ A.svd.S 0) (h1 : 1 ≤ A.svd.n) :
    tkStepRank thr eps nd cur A rmax ≤ A.svd.n := stepRank_le thr _ A.svd rmax h0 h1

/-- **error of the Tucker truncation sweep = sum of the discarded tails** (Pythagoras over the sweep; open right bond) -/
theorem tk_sweep_error (thr eps : K) (nd : Nat) : ∀ (rest : List (TkMode K)) (cur : TkMode K) (as : List (TkAns K × Nat)),
    chainLO (rest.map TkMode.toMode) → cur.core.rl = topRank (rest.map TkMode.toMode) → tkOK thr eps nd (cur :: rest) as →
    boxSum (shapeRev ((cur :: rest).map TkMode.toMode)) (fun is => ∑ b ∈ range cur.core.rr,
        (openRev ((cur :: rest).map TkMode.toMode) is b
          - openRev ((tuckerSweepRev thr eps nd (cur :: rest) as).map TkMode.toMode) is b) ^ 2)
      = tkSweepErr thr eps nd (cur :: rest) as := by
  intro rest
  induction rest with
  | nil =>
    intro cur as hlo hrl hok
    cases as with
    | nil =>
      simp only [tuckerSweepRev, tkSweepErr, sub_self, ne_eq, OfNat.ofNat_ne_zero, not_false_eq_true, zero_pow, Finset.sum_const_zero]
      rw [boxSum_zero]
    | cons Ar as' =>
      obtain ⟨A, rmax⟩ := Ar
      obtain ⟨hqr, hsvd, h0, h1⟩ := hok
      have hr := tkStepRank_le thr eps nd cur A rmax h0 h1
      simp only [tuckerSweepRev, tkSweepErr, tkStepCore_eq thr eps nd cur A rmax h0]
      generalize tkStepRank thr eps nd cur A rmax = r at hr ⊢
      have hp := tk_last_pythag [] (fun x a => openRev ([] : List (Mode K)) x a) cur A r
        (by have := LO_iso ([] : List (Mode K)) trivial
            simp only [List.map_nil] at hrl
            rw [hrl]; exact this) hqr hsvd hr
      rw [← hp]
      show boxSum (cur.rows :: []) _ = _
      rw [boxSum_cons]
      apply Finset.sum_congr rfl; intro i _
      rfl
  | cons p rest ih =>
    intro cur as hlo hrl hok
    cases as with
    | nil =>
      simp only [tuckerSweepRev, tkSweepErr, sub_self, ne_eq, OfNat.ofNat_ne_zero, not_false_eq_true, zero_pow, Finset.sum_const_zero]
      rw [boxSum_zero]
    | cons Ar as' =>
      obtain ⟨A, rmax⟩ := Ar
      obtain ⟨hqr, hsvd, h0, h1, hfq, hrq, hok'⟩ := hok
      have hr := tkStepRank_le thr eps nd cur A rmax h0 h1
      simp only [tuckerSweepRev, tkSweepErr, tuckerStep, tkStepCore_eq thr eps nd cur A rmax h0] at hok' hfq hrq ⊢
      generalize tkStepRank thr eps nd cur A rmax = r at hok' hfq hrq hr ⊢
      have hcp : cur.core.rl = p.core.rr := hrl
      have ihh := ih (tkRegauge p (tkTrunc (tkGauge cur A.qr) A.svd r) A.fq A.rq).1 as' hlo.2.2
        (by have := hlo.1; simpa [tkRegauge, TkMode.toMode, Mode.lin] using this) hok'
      have hp := tk_step_pythag (shapeRev ((p :: rest).map TkMode.toMode)) (fun x a => openRev ((p :: rest).map TkMode.toMode) x a)
        p cur A r (by rw [hcp]; exact LO_iso ((p :: rest).map TkMode.toMode) hlo) hqr hsvd hr hfq hrq
        (fun x c => openRev ((tuckerSweepRev thr eps nd
          ((tkRegauge p (tkTrunc (tkGauge cur A.qr) A.svd r) A.fq A.rq).1 :: rest) as').map TkMode.toMode) x c)
      have hs0 : shapeRev ((cur :: p :: rest).map TkMode.toMode) = cur.rows :: shapeRev ((p :: rest).map TkMode.toMode) := rfl
      rw [hs0, boxSum_cons]
      have eL : ∀ i ∈ range cur.rows, boxSum (shapeRev ((p :: rest).map TkMode.toMode)) (fun is => ∑ b ∈ range cur.core.rr,
            (openRev ((cur :: p :: rest).map TkMode.toMode) (i :: is) b
              - openRev (((tkRegauge p (tkTrunc (tkGauge cur A.qr) A.svd r) A.fq A.rq).2 ::
                  tuckerSweepRev thr eps nd ((tkRegauge p (tkTrunc (tkGauge cur A.qr) A.svd r) A.fq A.rq).1 :: rest) as').map TkMode.toMode)
                  (i :: is) b) ^ 2)
          = boxSum (shapeRev ((p :: rest).map TkMode.toMode)) (fun x => ∑ b ∈ range cur.core.rr,
              ((∑ a ∈ range cur.core.rl, openRev ((p :: rest).map TkMode.toMode) x a * cur.toMode.G i a b)
                - ∑ c ∈ range A.rq.k, openRev ((tuckerSweepRev thr eps nd
                    ((tkRegauge p (tkTrunc (tkGauge cur A.qr) A.svd r) A.fq A.rq).1 :: rest) as').map TkMode.toMode) x c
                    * (tkRegauge p (tkTrunc (tkGauge cur A.qr) A.svd r) A.fq A.rq).2.toMode.G i c b) ^ 2) := by
        intro i _; rfl
      rw [Finset.sum_congr rfl eL, hp]
      congr 1
      rw [← ihh]
      have hs1 : shapeRev (((tkRegauge p (tkTrunc (tkGauge cur A.qr) A.svd r) A.fq A.rq).1 :: rest).map TkMode.toMode)
          = shapeRev ((p :: rest).map TkMode.toMode) := rfl
      rw [hs1]
      apply boxSum_congr; intro x
      show (∑ c ∈ range A.rq.k, _) = ∑ c ∈ range A.rq.k, _
      apply Finset.sum_congr rfl; intro c _
      congr 2
      rw [hcp]
      exact (tk_openRev_step p (tkTrunc (tkGauge cur A.qr) A.svd r) A.fq A.rq (rest.map TkMode.toMode) x c).symm

end tksweep

section tksweep2
variable {K : Type} [Field K] [LinearOrder K] [IsStrictOrderedRing K]

theorem tkStepCore_rows (thr eps : K) (nd : Nat) (cur : TkMode K) (A : TkAns K) (rmax : Nat) :
    (tkStepCore thr eps nd cur A rmax).rows = cur.rows := by
  unfold tkStepCore; split <;> rfl
theorem tkStepCore_rl (thr eps : K) (nd : Nat) (cur : TkMode K) (A : TkAns K) (rmax : Nat) :
    (tkStepCore thr eps nd cur A rmax).core.rl = cur.core.rl := by
  unfold tkStepCore; split <;> rfl
theorem tkStepCore_rr (thr eps : K) (nd : Nat) (cur : TkMode K) (A : TkAns K) (rmax : Nat) :
    (tkStepCore thr eps nd cur A rmax).core.rr = cur.core.rr := by
  unfold tkStepCore; split <;> rfl

theorem tk_topRank_sweep (thr eps : K) (nd : Nat) (l : List (TkMode K)) (as : List (TkAns K × Nat)) :
    topRank ((tuckerSweepRev thr eps nd l as).map TkMode.toMode) = topRank (l.map TkMode.toMode) := by
  match l, as with
  | [], _ => simp [tuckerSweepRev]
  | [_], [] => simp [tuckerSweepRev]
  | [cur], (A, rmax) :: _ =>
    simp only [tuckerSweepRev, List.map_cons, topRank]
    exact tkStepCore_rr thr eps nd cur A rmax
  | _ :: _ :: _, [] => simp [tuckerSweepRev]
  | cur :: p :: rest, (A, rmax) :: as' =>
    simp only [tuckerSweepRev, List.map_cons, topRank, tuckerStep]
    exact tkStepCore_rr thr eps nd cur A rmax

theorem tk_shapeRev_sweep (thr eps : K) (nd : Nat) : ∀ (as : List (TkAns K × Nat)) (l : List (TkMode K)),
    shapeRev ((tuckerSweepRev thr eps nd l as).map TkMode.toMode) = shapeRev (l.map TkMode.toMode) := by
  intro as
  induction as with
  | nil => intro l; cases l with
    | nil => simp [tuckerSweepRev]
    | cons a t => cases t <;> simp [tuckerSweepRev]
  | cons Ar as' ih =>
    intro l
    obtain ⟨A, rmax⟩ := Ar
    match l with
    | [] => simp [tuckerSweepRev]
    | [cur] =>
      simp only [tuckerSweepRev, shapeRev, List.map_cons, List.map_nil]
      congr 1
      exact tkStepCore_rows thr eps nd cur A rmax
    | cur :: p :: rest =>
      simp only [tuckerSweepRev, shapeRev, List.map_cons]
      have := ih ((tuckerStep thr eps nd p cur A rmax).1 :: rest)
      simp only [shapeRev, List.map_cons, List.map_map] at this ⊢
      rw [this]
      congr 1
      exact tkStepCore_rows thr eps nd cur A rmax

theorem tk_wfRev_sweep (thr eps : K) (nd : Nat) : ∀ (as : List (TkAns K × Nat)) (l : List (TkMode K)),
    wfRev (l.map TkMode.toMode) → wfRev ((tuckerSweepRev thr eps nd l as).map TkMode.toMode) := by
  intro as
  induction as with
  | nil => intro l h; cases l with
    | nil => simpa [tuckerSweepRev] using h
    | cons a t => cases t <;> simpa [tuckerSweepRev] using h
  | cons Ar as' ih =>
    intro l h
    obtain ⟨A, rmax⟩ := Ar
    match l, h with
    | [], h => simpa [tuckerSweepRev] using h
    | [cur], h =>
      simp only [tuckerSweepRev, List.map_cons, List.map_nil, wfRev] at h ⊢
      refine ⟨?_, trivial⟩
      have : (tkStepCore thr eps nd cur A rmax).toMode.rl = (tkStepCore thr eps nd cur A rmax).core.rl := rfl
      rw [this, tkStepCore_rl]; exact h.1
    | cur :: p :: rest, ⟨h1, h2, h3⟩ =>
      simp only [tuckerSweepRev, List.map_cons]
      refine ⟨?_, ih _ ⟨?_, h3⟩⟩
      · rw [tk_topRank_sweep]; rfl
      · exact h2

end tksweep2

section tksweep3
variable {K : Type} [Field K] [LinearOrder K] [IsStrictOrderedRing K]

/-- open-bond form → dense form, for the input and the output of the sweep -/
theorem tk_bridge (thr eps : K) (nd : Nat) (ms : List (TkMode K)) (as : List (TkAns K × Nat)) (cur : TkMode K) (rest : List (TkMode K))
    (hrev : ms.reverse = cur :: rest) (hw : wfRev ((cur :: rest).map TkMode.toMode)) (hrr : cur.core.rr = 1)
    (is : List Nat) (his : is.length = (shapeRev ((cur :: rest).map TkMode.toMode)).length) :
    openRev ((cur :: rest).map TkMode.toMode) is 0 = dense (ms.map TkMode.toMode) is.reverse ∧
    openRev ((tuckerSweepRev thr eps nd (cur :: rest) as).map TkMode.toMode) is 0
      = dense (((tuckerSweepRev thr eps nd ms.reverse as).reverse).map TkMode.toMode) is.reverse := by
  have hlen : is.length = ((cur :: rest).map TkMode.toMode).length := by rw [his]; simp [shapeRev]
  have hms : ms.map TkMode.toMode = ((cur :: rest).map TkMode.toMode).reverse := by
    rw [← List.map_reverse, ← hrev, List.reverse_reverse]
  have ht : topRank ((cur :: rest).map TkMode.toMode) = 1 := hrr
  constructor
  · rw [hms]; exact openRev_eq_dense _ is (by simp) hw ht hlen
  · have hw2 := tk_wfRev_sweep thr eps nd as (cur :: rest) hw
    have ht2 : topRank ((tuckerSweepRev thr eps nd (cur :: rest) as).map TkMode.toMode) = 1 := by rw [tk_topRank_sweep]; exact ht
    have hsh := tk_shapeRev_sweep thr eps nd as (cur :: rest)
    have hlen2 : is.length = ((tuckerSweepRev thr eps nd (cur :: rest) as).map TkMode.toMode).length := by
      have := congrArg List.length hsh
      simp only [shapeRev, List.length_map] at this
      rw [List.length_map, this]; simpa using hlen
    have hne2 : (tuckerSweepRev thr eps nd (cur :: rest) as).map TkMode.toMode ≠ [] := by
      intro h; rw [h] at hlen2; rw [hlen2] at hlen; simp at hlen
    rw [hrev, List.map_reverse]
    exact openRev_eq_dense _ is hne2 hw2 ht2 hlen2

/-- **error of `round_tucker`'s sweep on the represented arrays**: `Σ_is (T[is] − round_tucker(T)[is])² = Σ_modes (discarded tail)` -/
theorem roundTucker_error_eq (thr eps : K) (ms : List (TkMode K)) (as : List (TkAns K × Nat)) (cur : TkMode K) (rest : List (TkMode K))
    (hrev : ms.reverse = cur :: rest) (hlo : chainLO (rest.map TkMode.toMode)) (hrl : cur.core.rl = topRank (rest.map TkMode.toMode))
    (hrr : cur.core.rr = 1) (hok : tkOK thr eps ms.length (cur :: rest) as) :
    boxSum (ms.map (·.rows)) (fun is => (dense (ms.map TkMode.toMode) is - dense ((roundTuckerSem thr eps ms as).map TkMode.toMode) is) ^ 2)
      = tkSweepErr thr eps ms.length (cur :: rest) as := by
  have hsw := tk_sweep_error thr eps ms.length rest cur as hlo hrl hok
  rw [hrr] at hsw
  simp only [Finset.sum_range_one] at hsw
  rw [← hsw, ← boxSum_reverse (ms.map (·.rows))]
  have hshape : (ms.map (·.rows)).reverse = shapeRev ((cur :: rest).map TkMode.toMode) := by
    rw [← List.map_reverse, hrev]; simp [shapeRev, TkMode.toMode, Mode.lin]
  rw [hshape]
  apply boxSum_congr_len; intro is his
  have hw : wfRev ((cur :: rest).map TkMode.toMode) := ⟨hrl, chainLO_wfRev _ hlo⟩
  obtain ⟨h1, h2⟩ := tk_bridge thr eps ms.length ms as cur rest hrev hw hrr is his
  rw [h1, h2]; rfl

end tksweep3

/-- the norm seen through the isometric interface and the orthonormal core is the Frobenius norm of the factor:
    `‖T‖² = ‖Us[mu]‖²` — the quantity `truncated_svd(eps=…)` scales its budget with -/
theorem tk_norm_fac (s : List Nat) (X : List Nat → Nat → R) (g : TkMode R)
    (hX : ∀ a, a < g.core.rl → ∀ a', a' < g.core.rl → boxSum s (fun x => X x a * X x a') = if a = a' then 1 else 0)
    (hg : tkModeOrtho g.core) :
    (∑ i ∈ range g.rows, boxSum s (fun x => ∑ b ∈ range g.core.rr, (∑ a ∈ range g.core.rl, X x a * g.toMode.G i a b) ^ 2))
      = ∑ i ∈ range g.rows, ∑ l ∈ range g.core.n, g.U i l ^ 2 := by
  apply Finset.sum_congr rfl; intro i _
  rw [boxSum_sum]
  have e : ∀ b ∈ range g.core.rr, boxSum s (fun x => (∑ a ∈ range g.core.rl, X x a * g.toMode.G i a b) ^ 2)
      = ∑ a ∈ range g.core.rl, g.toMode.G i a b ^ 2 := by
    intro b _
    have := boxSum_orth_pair s g.core.rl X hX (fun a => g.toMode.G i a b) (fun a => g.toMode.G i a b)
    simp only [← sq] at this
    exact this
  rw [Finset.sum_congr rfl e, Finset.sum_comm]
  have := rowiso g.core.n g.core.rl g.core.rr (fun l => g.U i l) (fun l a b => g.core.G l a b)
    (by intro k l hk hl; exact hg k hk l hl)
  rw [← this]
  apply Finset.sum_congr rfl; intro a _
  apply Finset.sum_congr rfl; intro b _
  rw [tk_toMode_G]

/-- norm bookkeeping of one full iteration: `‖T‖² = tail + ‖T'‖²` (the truncation is an orthogonal projection) -/
theorem tk_norm_step (s : List Nat) (X : List Nat → Nat → R) (p cur : TkMode R) (A : TkAns R) (r : Nat)
    (hX : ∀ a, a < cur.core.rl → ∀ a', a' < cur.core.rl → boxSum s (fun x => X x a * X x a') = if a = a' then 1 else 0)
    (hqr : TkQRok cur A.qr) (hsvd : TkSVDok (tkGauge cur A.qr) A.svd) (hr : r ≤ A.svd.n)
    (hfq : TkFQok (tkTrunc (tkGauge cur A.qr) A.svd r) A.fq) (hrq : TkRQok (tkTrunc (tkGauge cur A.qr) A.svd r) A.fq A.rq) :
    (∑ i ∈ range cur.rows, boxSum s (fun x => ∑ b ∈ range cur.core.rr, (∑ a ∈ range cur.core.rl, X x a * cur.toMode.G i a b) ^ 2))
      = (∑ m ∈ Ico r A.svd.n, A.svd.S m ^ 2)
        + boxSum s (fun x => ∑ c ∈ range A.rq.k, (∑ a ∈ range cur.core.rl, X x a * A.rq.Rm c a) ^ 2) := by
  have := tk_step_pythag s X p cur A r hX hqr hsvd hr hfq hrq (fun _ _ => 0)
  simpa only [zero_mul, Finset.sum_const_zero, sub_zero] using this

/-- the norm of the gauged mode is that of the mode -/
theorem tk_norm_gauge (s : List Nat) (X : List Nat → Nat → R) (cur : TkMode R) (A : QRAns R) (hqr : TkQRok cur A) :
    (∑ i ∈ range cur.rows, boxSum s (fun x => ∑ b ∈ range cur.core.rr, (∑ a ∈ range cur.core.rl, X x a * cur.toMode.G i a b) ^ 2))
      = ∑ i ∈ range (tkGauge cur A).rows, boxSum s (fun x => ∑ b ∈ range (tkGauge cur A).core.rr,
          (∑ a ∈ range (tkGauge cur A).core.rl, X x a * (tkGauge cur A).toMode.G i a b) ^ 2) := by
  show _ = ∑ i ∈ range cur.rows, boxSum s (fun x => ∑ b ∈ range cur.core.rr,
          (∑ a ∈ range cur.core.rl, X x a * (tkGauge cur A).toMode.G i a b) ^ 2)
  apply Finset.sum_congr rfl; intro i _
  apply boxSum_congr; intro x
  apply Finset.sum_congr rfl; intro b hb
  congr 1
  apply Finset.sum_congr rfl; intro a ha
  rw [tkGauge_G cur A hqr i a b (Finset.mem_range.mp ha) (Finset.mem_range.mp hb)]


section tksweep4
variable {K : Type} [Field K] [LinearOrder K] [IsStrictOrderedRing K]

/-- squared Frobenius norm of a reversed chain with open right bond -/
def tkNrm (l : List (Mode K)) (rr : Nat) : K :=
  boxSum (shapeRev l) (fun is => ∑ b ∈ range rr, openRev l is b ^ 2)

theorem tkNrm_nonneg (l : List (Mode K)) (rr : Nat) : 0 ≤ tkNrm l rr := by
  unfold tkNrm
  rw [boxSum_sum]
  apply Finset.sum_nonneg; intro b _
  exact boxSum_sq_nonneg _ _

/-- `rmax[mu]` never binds: at every iteration the least admissible rank is within the cap -/
def tkUncapped (thr eps : K) (nd : Nat) : List (TkMode K) → List (TkAns K × Nat) → Prop
  | [cur], (A, rmax) :: _ => leastRank A.svd.sq (tkBudget2 eps nd (tkGauge cur A.qr)) A.svd.sq.length 0 ≤ rmax
  | cur :: p :: rest, (A, rmax) :: as =>
      leastRank A.svd.sq (tkBudget2 eps nd (tkGauge cur A.qr)) A.svd.sq.length 0 ≤ rmax ∧
        tkUncapped thr eps nd ((tuckerStep thr eps nd p cur A rmax).1 :: rest) as
  | _, _ => True

/-- an uncapped truncation discards at most its budget -/
theorem tk_tail_le (thr d2 : K) (hd : 0 ≤ d2) (B : SVDAns K) (rmax : Nat) (h0 : thr ≤ B.S 0)
    (hcap : leastRank B.sq d2 B.sq.length 0 ≤ rmax) :
    (∑ l ∈ Ico (stepRank thr d2 B rmax) B.n, B.S l ^ 2) ≤ d2 := by
  rw [tail_as_tailSum]
  have hr : leastRank B.sq d2 B.sq.length 0 ≤ stepRank thr d2 B rmax := by
    simp only [stepRank, h0, if_true, rankSelect]; omega
  exact le_trans (tailSum_antitone B.sq (sq_nonneg_list B) _ _ hr) (leastRank_within B.sq d2 hd)

theorem tkBudget2_eq (eps : K) (nd : Nat) (g : TkMode K) :
    tkBudget2 eps nd g = eps ^ 2 / (nd : K) * ∑ i ∈ range g.rows, ∑ l ∈ range g.core.n, g.U i l ^ 2 := by
  simp only [tkBudget2, tkFacNormSq, sumTo_eq, ← sq]
  ring

/-- the budget of an iteration is `eps²/len(dim)` times the squared norm of the CURRENT tensor -/
theorem tk_budget_norm (eps : K) (nd : Nat) (rest : List (TkMode K)) (cur : TkMode K) (A : QRAns K)
    (hlo : chainLO (rest.map TkMode.toMode)) (hrl : cur.core.rl = topRank (rest.map TkMode.toMode)) (hqr : TkQRok cur A) :
    tkBudget2 eps nd (tkGauge cur A) = eps ^ 2 / (nd : K) * tkNrm ((cur :: rest).map TkMode.toMode) cur.core.rr := by
  rw [tkBudget2_eq]
  congr 1
  have hX : ∀ a, a < cur.core.rl → ∀ a', a' < cur.core.rl →
      boxSum (shapeRev (rest.map TkMode.toMode)) (fun x => openRev (rest.map TkMode.toMode) x a * openRev (rest.map TkMode.toMode) x a')
        = if a = a' then 1 else 0 := by rw [hrl]; exact LO_iso _ hlo
  rw [← tk_norm_fac (shapeRev (rest.map TkMode.toMode)) (fun x a => openRev (rest.map TkMode.toMode) x a) (tkGauge cur A) hX
    (tkGauge_modeOrtho cur A hqr), ← tk_norm_gauge _ _ cur A hqr]
  unfold tkNrm
  show _ = boxSum (cur.rows :: shapeRev (rest.map TkMode.toMode)) _
  rw [boxSum_cons]
  apply Finset.sum_congr rfl; intro i _
  rfl

/-- each uncapped iteration discards at most `eps²/len(dim)·‖T‖²` (norms only decrease along the sweep), so the whole sweep
    discards at most `(number of modes)·eps²/len(dim)·‖T‖²` -/
theorem tkSweepErr_le (thr eps : K) (nd : Nat) : ∀ (rest : List (TkMode K)) (cur : TkMode K) (as : List (TkAns K × Nat)),
    chainLO (rest.map TkMode.toMode) → cur.core.rl = topRank (rest.map TkMode.toMode) →
    tkOK thr eps nd (cur :: rest) as → tkUncapped thr eps nd (cur :: rest) as →
    tkSweepErr thr eps nd (cur :: rest) as
      ≤ ((rest.length + 1 : Nat) : K) * (eps ^ 2 / (nd : K) * tkNrm ((cur :: rest).map TkMode.toMode) cur.core.rr) := by
  have hc : 0 ≤ eps ^ 2 / (nd : K) := div_nonneg (sq_nonneg _) (Nat.cast_nonneg _)
  intro rest
  induction rest with
  | nil =>
    intro cur as hlo hrl hok hun
    cases as with
    | nil =>
      simp only [tkSweepErr]
      exact mul_nonneg (Nat.cast_nonneg _) (mul_nonneg hc (tkNrm_nonneg _ _))
    | cons Ar as' =>
      obtain ⟨A, rmax⟩ := Ar
      obtain ⟨hqr, hsvd, h0, h1⟩ := hok
      simp only [tkSweepErr, tkStepRank, List.length_nil, Nat.zero_add, Nat.cast_one, one_mul]
      have hb := tk_budget_norm eps nd [] cur A.qr hlo hrl hqr
      have hd : 0 ≤ tkBudget2 eps nd (tkGauge cur A.qr) := by rw [hb]; exact mul_nonneg hc (tkNrm_nonneg _ _)
      rw [← hb]
      exact tk_tail_le thr _ hd A.svd rmax h0 hun
  | cons p rest ih =>
    intro cur as hlo hrl hok hun
    cases as with
    | nil =>
      simp only [tkSweepErr]
      exact mul_nonneg (Nat.cast_nonneg _) (mul_nonneg hc (tkNrm_nonneg _ _))
    | cons Ar as' =>
      obtain ⟨A, rmax⟩ := Ar
      obtain ⟨hqr, hsvd, h0, h1, hfq, hrq, hok'⟩ := hok
      obtain ⟨hcap, hun'⟩ := hun
      have hr := tkStepRank_le thr eps nd cur A rmax h0 h1
      have hb := tk_budget_norm eps nd (p :: rest) cur A.qr hlo hrl hqr
      have hd : 0 ≤ tkBudget2 eps nd (tkGauge cur A.qr) := by rw [hb]; exact mul_nonneg hc (tkNrm_nonneg _ _)
      have htail : (∑ m ∈ Ico (tkStepRank thr eps nd cur A rmax) A.svd.n, A.svd.S m ^ 2)
          ≤ eps ^ 2 / (nd : K) * tkNrm ((cur :: p :: rest).map TkMode.toMode) cur.core.rr := by
        rw [← hb]; exact tk_tail_le thr _ hd A.svd rmax h0 hcap
      simp only [tkSweepErr]
      simp only [tuckerStep, tkStepCore_eq thr eps nd cur A rmax h0] at hok' hun' hfq hrq ⊢
      generalize tkStepRank thr eps nd cur A rmax = r at hok' hun' hfq hrq hr htail ⊢
      have hcp : cur.core.rl = p.core.rr := hrl
      have ihh := ih (tkRegauge p (tkTrunc (tkGauge cur A.qr) A.svd r) A.fq A.rq).1 as' hlo.2.2
        (by have := hlo.1; simpa [tkRegauge, TkMode.toMode, Mode.lin] using this) hok' hun'
      -- the norm decreases
      have hX : ∀ a, a < cur.core.rl → ∀ a', a' < cur.core.rl →
          boxSum (shapeRev ((p :: rest).map TkMode.toMode))
            (fun x => openRev ((p :: rest).map TkMode.toMode) x a * openRev ((p :: rest).map TkMode.toMode) x a')
            = if a = a' then 1 else 0 := by rw [hcp]; exact LO_iso _ hlo
      have hn := tk_norm_step (shapeRev ((p :: rest).map TkMode.toMode)) (fun x a => openRev ((p :: rest).map TkMode.toMode) x a)
        p cur A r hX hqr hsvd hr hfq hrq
      have hN0 : tkNrm ((cur :: p :: rest).map TkMode.toMode) cur.core.rr
          = ∑ i ∈ range cur.rows, boxSum (shapeRev ((p :: rest).map TkMode.toMode)) (fun x => ∑ b ∈ range cur.core.rr,
              (∑ a ∈ range cur.core.rl, openRev ((p :: rest).map TkMode.toMode) x a * cur.toMode.G i a b) ^ 2) := by
        unfold tkNrm
        show boxSum (cur.rows :: shapeRev ((p :: rest).map TkMode.toMode)) _ = _
        rw [boxSum_cons]
        apply Finset.sum_congr rfl; intro i _; rfl
      have hN1 : tkNrm (((tkRegauge p (tkTrunc (tkGauge cur A.qr) A.svd r) A.fq A.rq).1 :: rest).map TkMode.toMode)
            (tkRegauge p (tkTrunc (tkGauge cur A.qr) A.svd r) A.fq A.rq).1.core.rr
          = boxSum (shapeRev ((p :: rest).map TkMode.toMode)) (fun x => ∑ c ∈ range A.rq.k,
              (∑ a ∈ range cur.core.rl, openRev ((p :: rest).map TkMode.toMode) x a * A.rq.Rm c a) ^ 2) := by
        unfold tkNrm
        show boxSum (shapeRev ((p :: rest).map TkMode.toMode)) (fun is => ∑ c ∈ range A.rq.k, _) = _
        apply boxSum_congr; intro x
        apply Finset.sum_congr rfl; intro c _
        congr 1
        rw [hcp]
        exact tk_openRev_step p (tkTrunc (tkGauge cur A.qr) A.svd r) A.fq A.rq (rest.map TkMode.toMode) x c
      have hdec : tkNrm (((tkRegauge p (tkTrunc (tkGauge cur A.qr) A.svd r) A.fq A.rq).1 :: rest).map TkMode.toMode)
            (tkRegauge p (tkTrunc (tkGauge cur A.qr) A.svd r) A.fq A.rq).1.core.rr
          ≤ tkNrm ((cur :: p :: rest).map TkMode.toMode) cur.core.rr := by
        rw [hN0, hN1, hn]
        have : 0 ≤ ∑ m ∈ Ico r A.svd.n, A.svd.S m ^ 2 := Finset.sum_nonneg (fun m _ => sq_nonneg _)
        linarith
      have hlen : (((p :: rest).length + 1 : Nat) : K) = ((rest.length + 1 : Nat) : K) + 1 := by
        simp only [List.length_cons]; push_cast; ring
      rw [hlen]
      have h2 : ((rest.length + 1 : Nat) : K) * (eps ^ 2 / (nd : K) *
            tkNrm (((tkRegauge p (tkTrunc (tkGauge cur A.qr) A.svd r) A.fq A.rq).1 :: rest).map TkMode.toMode)
              (tkRegauge p (tkTrunc (tkGauge cur A.qr) A.svd r) A.fq A.rq).1.core.rr)
          ≤ ((rest.length + 1 : Nat) : K) * (eps ^ 2 / (nd : K) * tkNrm ((cur :: p :: rest).map TkMode.toMode) cur.core.rr) :=
        mul_le_mul_of_nonneg_left (mul_le_mul_of_nonneg_left hdec hc) (Nat.cast_nonneg _)
      linarith

end tksweep4

section tksweep5
variable {K : Type} [Field K] [LinearOrder K] [IsStrictOrderedRing K]

theorem tk_norm_dense (ms : List (TkMode K)) (cur : TkMode K) (rest : List (TkMode K))
    (hrev : ms.reverse = cur :: rest) (hw : wfRev ((cur :: rest).map TkMode.toMode)) (hrr : cur.core.rr = 1) :
    tkNrm ((cur :: rest).map TkMode.toMode) cur.core.rr = boxSum (ms.map (·.rows)) (fun is => dense (ms.map TkMode.toMode) is ^ 2) := by
  unfold tkNrm
  rw [hrr, ← boxSum_reverse (ms.map (·.rows))]
  have hshape : (ms.map (·.rows)).reverse = shapeRev ((cur :: rest).map TkMode.toMode) := by
    rw [← List.map_reverse, hrev]; simp [shapeRev, TkMode.toMode, Mode.lin]
  rw [hshape]
  apply boxSum_congr_len; intro is his
  simp only [Finset.sum_range_one]
  rw [(tk_bridge (0 : K) 0 0 ms [] cur rest hrev hw hrr is his).1]

/-- **`round_tucker` stays within `eps`** (`algorithm='svd'`, `dim='all'`, no iteration capped by `rmax`, no absolute-zero special case):
    `‖T − round_tucker(T)‖² ≤ eps²·‖T‖²` -/
theorem roundTucker_within_eps (thr eps : K) (ms : List (TkMode K)) (as : List (TkAns K × Nat)) (cur : TkMode K) (rest : List (TkMode K))
    (hrev : ms.reverse = cur :: rest) (hlo : chainLO (rest.map TkMode.toMode)) (hrl : cur.core.rl = topRank (rest.map TkMode.toMode))
    (hrr : cur.core.rr = 1) (hok : tkOK thr eps ms.length (cur :: rest) as) (hun : tkUncapped thr eps ms.length (cur :: rest) as) :
    boxSum (ms.map (·.rows)) (fun is => (dense (ms.map TkMode.toMode) is - dense ((roundTuckerSem thr eps ms as).map TkMode.toMode) is) ^ 2)
      ≤ eps ^ 2 * boxSum (ms.map (·.rows)) (fun is => dense (ms.map TkMode.toMode) is ^ 2) := by
  rw [roundTucker_error_eq thr eps ms as cur rest hrev hlo hrl hrr hok]
  have hw : wfRev ((cur :: rest).map TkMode.toMode) := ⟨hrl, chainLO_wfRev _ hlo⟩
  refine le_trans (tkSweepErr_le thr eps ms.length rest cur as hlo hrl hok hun) ?_
  rw [tk_norm_dense ms cur rest hrev hw hrr]
  have hlen : ms.length = rest.length + 1 := by
    have := congrArg List.length hrev; simpa using this
  rw [hlen]
  have hne : ((rest.length + 1 : Nat) : K) ≠ 0 := by exact_mod_cast (by omega : rest.length + 1 ≠ 0)
  rw [← mul_assoc, mul_div_assoc', mul_comm ((rest.length + 1 : Nat) : K), mul_div_assoc, div_self hne, mul_one]

end tksweep5

section tkranks
variable {K : Type} [Field K] [LinearOrder K] [IsStrictOrderedRing K]

/-- shapes of the "reduced" kernel answers: `qr` returns `k = min(rows, cols) ≤ cols` columns, `svd(full_matrices=False)`
    returns `n = min(rows, cols) ≤ cols` singular values -/
def tkShapes (thr eps : K) (nd : Nat) : List (TkMode K) → List (TkAns K × Nat) → Prop
  | [cur], (A, _) :: _ => A.svd.n ≤ A.qr.k ∧ A.qr.k ≤ cur.core.n
  | cur :: p :: rest, (A, rmax) :: as =>
      A.svd.n ≤ A.qr.k ∧ A.qr.k ≤ cur.core.n ∧ tkShapes thr eps nd ((tuckerStep thr eps nd p cur A rmax).1 :: rest) as
  | _, _ => True

/-- output mode by output mode: Tucker rank `≤` the old one and `≤ rmax[mu]` -/
def tkRankRel : List (TkMode K) → List (TkMode K) → List (TkAns K × Nat) → Prop
  | o :: os, c :: cs, (_, rmax) :: as => o.core.n ≤ c.core.n ∧ (1 ≤ rmax → o.core.n ≤ rmax) ∧ tkRankRel os cs as
  | [], [], _ => True
  | _, _, _ => False

theorem tkRankRel_head (os : List (TkMode K)) (c c' : TkMode K) (cs : List (TkMode K)) (as : List (TkAns K × Nat))
    (h : c'.core.n = c.core.n) (hr : tkRankRel os (c' :: cs) as) : tkRankRel os (c :: cs) as := by
  match os, as, hr with
  | o :: os', (A, rmax) :: as', hr => simp only [tkRankRel] at hr ⊢; rw [← h]; exact hr

theorem tkStepRank_bounds (thr eps : K) (nd : Nat) (cur : TkMode K) (A : TkAns K) (rmax : Nat) (h0 : thr ≤ A.svd.S 0) :
    1 ≤ rmax → tkStepRank thr eps nd cur A rmax ≤ rmax := by
  intro h
  simp only [tkStepRank, stepRank, h0, if_true]
  exact (rankSelect_bounds _ _ rmax).2.1 h

/-- **ranks of the sweep** (reversed chain, i.e. in processing order `mu = N-1, …, 0`): every new Tucker rank is at most the old one
    and at most `rmax[mu]` -/
theorem tk_sweep_rank (thr eps : K) (nd : Nat) : ∀ (as : List (TkAns K × Nat)) (l : List (TkMode K)),
    l.length ≤ as.length → tkOK thr eps nd l as → tkShapes thr eps nd l as → tkRankRel (tuckerSweepRev thr eps nd l as) l as := by
  intro as
  induction as with
  | nil =>
    intro l hl _ _
    have : l = [] := by cases l with
      | nil => rfl
      | cons _ _ => simp at hl
    subst this; simp [tuckerSweepRev, tkRankRel]
  | cons Ar as' ih =>
    intro l hl hok hsh
    obtain ⟨A, rmax⟩ := Ar
    match l, hl, hok, hsh with
    | [], _, _, _ => simp [tuckerSweepRev, tkRankRel]
    | [cur], _, ⟨hqr, hsvd, h0, h1⟩, ⟨s1, s2⟩ =>
      simp only [tuckerSweepRev, tkRankRel, tkStepCore_eq thr eps nd cur A rmax h0]
      have hr := tkStepRank_le thr eps nd cur A rmax h0 h1
      refine ⟨?_, ?_, trivial⟩
      · show tkStepRank thr eps nd cur A rmax ≤ cur.core.n; omega
      · exact tkStepRank_bounds thr eps nd cur A rmax h0
    | cur :: p :: rest, hl, ⟨hqr, hsvd, h0, h1, hfq, hrq, hok'⟩, ⟨s1, s2, hsh'⟩ =>
      simp only [tuckerSweepRev, tkRankRel]
      have hr := tkStepRank_le thr eps nd cur A rmax h0 h1
      have hk : (tuckerStep thr eps nd p cur A rmax).2.core.n = tkStepRank thr eps nd cur A rmax := by
        show A.fq.k = _
        rw [hfq.square, tkStepCore_eq thr eps nd cur A rmax h0]; rfl
      refine ⟨by rw [hk]; omega, by rw [hk]; exact tkStepRank_bounds thr eps nd cur A rmax h0, ?_⟩
      have := ih ((tuckerStep thr eps nd p cur A rmax).1 :: rest) (by simp at hl ⊢; omega) hok' hsh'
      exact tkRankRel_head _ p (tuckerStep thr eps nd p cur A rmax).1 rest as' rfl this

end tkranks

section tktriangle
variable {K : Type} [Field K] [LinearOrder K] [IsStrictOrderedRing K]

theorem tk_box_expand (s : List Nat) (u v : List Nat → K) (α β : K) :
    boxSum s (fun is => (β * u is - α * v is) ^ 2)
      = β ^ 2 * boxSum s (fun is => u is ^ 2) - 2 * α * β * boxSum s (fun is => u is * v is) + α ^ 2 * boxSum s (fun is => v is ^ 2) := by
  have e : (fun is => (β * u is - α * v is) ^ 2)
      = (fun is => β ^ 2 * u is ^ 2 + ((-(2 * α * β)) * (u is * v is) + α ^ 2 * v is ^ 2)) := by funext is; ring
  rw [e, boxSum_add, boxSum_add, boxSum_mul_left, boxSum_mul_left, boxSum_mul_left]; ring

/-- Cauchy–Schwarz in the homogeneous form needed without square roots: `‖u‖² ≤ α²N`, `‖v‖² ≤ β²N` ⟹ `⟨u,v⟩ ≤ αβN` -/
theorem tk_inner_le (s : List Nat) (u v : List Nat → K) (α β N : K) (hα : 0 ≤ α) (hβ : 0 ≤ β)
    (hu : boxSum s (fun is => u is ^ 2) ≤ α ^ 2 * N) (hv : boxSum s (fun is => v is ^ 2) ≤ β ^ 2 * N) :
    boxSum s (fun is => u is * v is) ≤ α * β * N := by
  have hU := boxSum_sq_nonneg s u
  have hV := boxSum_sq_nonneg s v
  -- a vector of zero norm is orthogonal to everything
  have zero_case : ∀ (u v : List Nat → K), boxSum s (fun is => u is ^ 2) ≤ 0 → boxSum s (fun is => u is * v is) ≤ 0 := by
    intro u v hu0
    by_contra hpos
    have hpos : 0 < boxSum s (fun is => u is * v is) := lt_of_not_ge hpos
    have hV' := boxSum_sq_nonneg s v
    have hU' := boxSum_sq_nonneg s u
    have hU0 : boxSum s (fun is => u is ^ 2) = 0 := le_antisymm hu0 hU'
    have hx := tk_box_expand s u v 1 ((boxSum s (fun is => v is ^ 2) + 1) / (2 * boxSum s (fun is => u is * v is)))
    have hnn := boxSum_sq_nonneg s (fun is => (boxSum s (fun is => v is ^ 2) + 1) / (2 * boxSum s (fun is => u is * v is)) * u is - 1 * v is)
    rw [hx, hU0] at hnn
    generalize boxSum s (fun is => u is * v is) = P at hpos hnn
    generalize boxSum s (fun is => v is ^ 2) = V at hV' hnn
    have h2P : (2 * P) ≠ 0 := ne_of_gt (by linarith)
    have : 2 * 1 * ((V + 1) / (2 * P)) * P = V + 1 := by field_simp
    rw [this] at hnn
    linarith
  rcases eq_or_lt_of_le hα with h | hαp
  · rw [← h] at hu ⊢
    have := zero_case u v (by simpa using hu)
    simpa using this
  rcases eq_or_lt_of_le hβ with h | hβp
  · rw [← h] at hv ⊢
    have := zero_case v u (by simpa using hv)
    have hc : boxSum s (fun is => v is * u is) = boxSum s (fun is => u is * v is) := by
      apply boxSum_congr; intro is; ring
    rw [hc] at this
    simpa using this
  have hx := tk_box_expand s u v α β
  have hnn := boxSum_sq_nonneg s (fun is => β * u is - α * v is)
  rw [hx] at hnn
  have hab : 0 < α * β := mul_pos hαp hβp
  have h1 : β ^ 2 * boxSum s (fun is => u is ^ 2) ≤ β ^ 2 * (α ^ 2 * N) := mul_le_mul_of_nonneg_left hu (sq_nonneg _)
  have h2 : α ^ 2 * boxSum s (fun is => v is ^ 2) ≤ α ^ 2 * (β ^ 2 * N) := mul_le_mul_of_nonneg_left hv (sq_nonneg _)
  have h3 : (α * β) * boxSum s (fun is => u is * v is) ≤ (α * β) * (α * β * N) := by nlinarith
  exact le_of_mul_le_mul_left h3 hab

/-- triangle inequality for Frobenius norms, homogeneous squared form -/
theorem tk_triangle (s : List Nat) (u v : List Nat → K) (α β N : K) (hα : 0 ≤ α) (hβ : 0 ≤ β)
    (hu : boxSum s (fun is => u is ^ 2) ≤ α ^ 2 * N) (hv : boxSum s (fun is => v is ^ 2) ≤ β ^ 2 * N) :
    boxSum s (fun is => (u is + v is) ^ 2) ≤ (α + β) ^ 2 * N := by
  have hp := tk_inner_le s u v α β N hα hβ hu hv
  have e : (fun is => (u is + v is) ^ 2) = (fun is => u is ^ 2 + (2 * (u is * v is) + v is ^ 2)) := by funext is; ring
  rw [e, boxSum_add, boxSum_add, boxSum_mul_left]
  nlinarith

/-- **two rounding stages compose within `eps`** (`Tensor.round`, tensor.py:2193-2208): if the first stage reached relative error
    `e1 ≤ eps` and the second stays within `(1+eps)/(1+e1) − 1` relative to ITS input, the total relative error is at most `eps` -/
theorem tk_round_combine (s : List Nat) (x y z : List Nat → K) (eps e1 : K) (h0 : 0 ≤ e1) (h1 : e1 ≤ eps)
    (hxy : boxSum s (fun is => (x is - y is) ^ 2) ≤ e1 ^ 2 * boxSum s (fun is => x is ^ 2))
    (hyz : boxSum s (fun is => (y is - z is) ^ 2) ≤ ((1 + eps) / (1 + e1) - 1) ^ 2 * boxSum s (fun is => y is ^ 2)) :
    boxSum s (fun is => (x is - z is) ^ 2) ≤ eps ^ 2 * boxSum s (fun is => x is ^ 2) := by
  set N := boxSum s (fun is => x is ^ 2) with hN
  set e2 := (1 + eps) / (1 + e1) - 1 with he2
  have hpos : 0 < 1 + e1 := by linarith
  have he2nn : 0 ≤ e2 := by
    rw [he2, sub_nonneg, le_div_iff₀ hpos]; linarith
  -- ‖y‖ ≤ (1+e1)‖x‖
  have hyx : boxSum s (fun is => (y is - x is) ^ 2) ≤ e1 ^ 2 * N := by
    have : (fun is => (y is - x is) ^ 2) = (fun is => (x is - y is) ^ 2) := by funext is; ring
    rw [this]; exact hxy
  have hy : boxSum s (fun is => y is ^ 2) ≤ (1 + e1) ^ 2 * N := by
    have := tk_triangle s x (fun is => y is - x is) 1 e1 N (by norm_num) h0 (by simp [hN]) hyx
    have e : (fun is => (x is + (y is - x is)) ^ 2) = (fun is => y is ^ 2) := by funext is; ring
    rwa [e] at this
  have hyz' : boxSum s (fun is => (y is - z is) ^ 2) ≤ (e2 * (1 + e1)) ^ 2 * N := by
    refine le_trans hyz ?_
    have := mul_le_mul_of_nonneg_left hy (sq_nonneg e2)
    calc e2 ^ 2 * boxSum s (fun is => y is ^ 2) ≤ e2 ^ 2 * ((1 + e1) ^ 2 * N) := this
      _ = (e2 * (1 + e1)) ^ 2 * N := by ring
  have := tk_triangle s (fun is => x is - y is) (fun is => y is - z is) e1 (e2 * (1 + e1)) N h0 (mul_nonneg he2nn hpos.le) hxy hyz'
  have e : (fun is => (x is - y is + (y is - z is)) ^ 2) = (fun is => (x is - z is) ^ 2) := by funext is; ring
  rw [e] at this
  have hs : e1 + e2 * (1 + e1) = eps := by
    rw [he2]; field_simp; ring
  rwa [hs] at this

end tktriangle

/-- a mode with the identity factor `torch.eye(shape[mu])` is the mode itself (inside the index box) -/
theorem tk_ofMode_G (m : Mode R) (i a b : Nat) (hi : i < m.n) : (TkMode.ofMode m).toMode.G i a b = m.G i a b := by
  rw [tk_toMode_G]
  simp only [TkMode.ofMode]
  rw [Finset.sum_eq_single i]
  · simp
  · intro j _ hne; simp [Ne.symm hne]
  · intro hh; exact absurd (Finset.mem_range.mpr hi) hh

theorem tk_ofMode_tail : ∀ (l : List (Mode R)) (is : List Nat) (a : Nat), inShape is (l.map (·.n)) →
    tail ((l.map TkMode.ofMode).map TkMode.toMode) is a = tail l is a := by
  intro l
  induction l with
  | nil => intro is a _; rfl
  | cons m ms ih =>
    intro is a h
    cases is with
    | nil => simp [inShape] at h
    | cons i is' =>
      obtain ⟨hi, hr⟩ := h
      simp only [List.map_cons, tail, sumTo_eq]
      have : (TkMode.ofMode m).toMode.rr = m.rr := rfl
      rw [this]
      apply Finset.sum_congr rfl; intro b _
      rw [tk_ofMode_G m i a b hi, ih is' b hr]

theorem tk_ofMode_dense (l : List (Mode R)) (is : List Nat) (h : inShape is (l.map (·.n))) :
    dense ((l.map TkMode.ofMode).map TkMode.toMode) is = dense l is := by
  cases l with
  | nil => rfl
  | cons m ms =>
    simp only [List.map_cons, dense, sumTo_eq]
    have : (TkMode.ofMode m).toMode.rl = m.rl := rfl
    rw [this]
    apply Finset.sum_congr rfl; intro a _
    exact tk_ofMode_tail (m :: ms) is a h

theorem tk_ofMode_LO (m : Mode R) (h : leftOrthoM m) : leftOrthoM (TkMode.ofMode m).toMode := by
  intro d hd d' hd'
  have := h d hd d' hd'
  rw [← this]
  show (∑ c ∈ range m.rl, ∑ i ∈ range m.n, _) = _
  apply Finset.sum_congr rfl; intro c _
  apply Finset.sum_congr rfl; intro i hi
  rw [tk_ofMode_G m i c d (Finset.mem_range.mp hi), tk_ofMode_G m i c d' (Finset.mem_range.mp hi)]

theorem tk_ofMode_topRank (l : List (Mode R)) : topRank ((l.map TkMode.ofMode).map TkMode.toMode) = topRank l := by
  cases l <;> rfl

theorem tk_ofMode_chainLO (l : List (Mode R)) (h : chainLO l) : chainLO ((l.map TkMode.ofMode).map TkMode.toMode) := by
  induction l with
  | nil => trivial
  | cons m rest ih =>
    obtain ⟨h1, h2, h3⟩ := h
    refine ⟨?_, tk_ofMode_LO m h2, ih h3⟩
    rw [tk_ofMode_topRank]; exact h1

section tke2e
variable {K : Type} [Field K] [LinearOrder K] [IsStrictOrderedRing K]

/-- **`round_tucker` end to end on a TT tensor without Tucker factors**: the orthogonalisation sweep `orthogonalize(-1)` (QR answers,
    contract `qrOK`), identity factors, then the truncation sweep (answers with contracts `tkOK`):
    `‖T − round_tucker(T)‖² ≤ eps²·‖T‖²`; the gauge hypotheses of `roundTucker_within_eps` are DERIVED from the QR contracts -/
theorem roundTucker_end_to_end (thr eps : K) (ms : List (Mode K)) (qrs : List (QRAns K)) (as : List (TkAns K × Nat))
    (cur : Mode K) (rest : List (Mode K))
    (hwf : wf 1 ms) (hout : outRank 1 ms = 1) (hlen : qrs.length + 1 = ms.length) (hqr : qrOK ms qrs)
    (hrev : (leftSweep ms qrs).reverse = cur :: rest)
    (hok : tkOK thr eps ms.length ((cur :: rest).map TkMode.ofMode) as)
    (hun : tkUncapped thr eps ms.length ((cur :: rest).map TkMode.ofMode) as) :
    boxSum (ms.map (·.n)) (fun is => (dense ms is
        - dense ((roundTuckerSem thr eps ((leftSweep ms qrs).map TkMode.ofMode) as).map TkMode.toMode) is) ^ 2)
      ≤ eps ^ 2 * boxSum (ms.map (·.n)) (fun is => dense ms is ^ 2) := by
  have hout_eq : leftSweep ms qrs = rest.reverse ++ [cur] := by
    have := congrArg List.reverse hrev; simpa using this
  have hhead : ∀ m ∈ ms.head?, m.rl = 1 := by
    intro m hm; cases ms with
    | nil => simp at hm
    | cons x xs => simp at hm; subst hm; exact hwf.1
  have hf := leftSweep_fwdLO qrs ms 1 hqr hlen hhead
  rw [hout_eq, List.dropLast_concat] at hf
  have hlo : chainLO rest := by
    have := fwdLO_reverse rest.reverse 1 hf
    rw [List.reverse_reverse] at this
    exact (chainLOP_one rest).mp this
  have hw := leftSweep_wf qrs ms 1 hwf
  rw [hout_eq] at hw
  obtain ⟨_, hcur⟩ := wf_snoc_inv rest.reverse cur 1 hw
  have hrl : cur.rl = topRank rest := by rw [hcur]; exact (wfRev_forward rest (chainLO_wfRev rest hlo)).2
  have hrr : cur.rr = 1 := by
    have := leftSweep_outRank qrs ms 1
    rw [hout_eq, outRank_snoc, hout] at this; exact this
  have hl : ((leftSweep ms qrs).map TkMode.ofMode).length = ms.length := by rw [List.length_map, leftSweep_length]
  have hrev' : ((leftSweep ms qrs).map TkMode.ofMode).reverse = TkMode.ofMode cur :: rest.map TkMode.ofMode := by
    rw [← List.map_reverse, hrev]; rfl
  have key := roundTucker_within_eps thr eps ((leftSweep ms qrs).map TkMode.ofMode) as (TkMode.ofMode cur) (rest.map TkMode.ofMode)
    hrev' (tk_ofMode_chainLO rest hlo) (by rw [tk_ofMode_topRank]; exact hrl) hrr
    (by rw [hl]; exact hok) (by rw [hl]; exact hun)
  have hsh : ((leftSweep ms qrs).map TkMode.ofMode).map (·.rows) = ms.map (·.n) := by
    rw [List.map_map, ← leftSweep_shape qrs ms]; rfl
  rw [hsh] at key
  have hd : ∀ is, inShape is (ms.map (·.n)) → dense (((leftSweep ms qrs).map TkMode.ofMode).map TkMode.toMode) is = dense ms is := by
    intro is his
    rw [tk_ofMode_dense _ is (by rw [leftSweep_shape]; exact his), leftSweep_dense ms qrs is hqr his]
  have e1 : boxSum (ms.map (·.n)) (fun is => (dense ms is
        - dense ((roundTuckerSem thr eps ((leftSweep ms qrs).map TkMode.ofMode) as).map TkMode.toMode) is) ^ 2)
      = boxSum (ms.map (·.n)) (fun is => (dense (((leftSweep ms qrs).map TkMode.ofMode).map TkMode.toMode) is
        - dense ((roundTuckerSem thr eps ((leftSweep ms qrs).map TkMode.ofMode) as).map TkMode.toMode) is) ^ 2) := by
    apply boxSum_congr_box; intro is his; rw [hd is his]
  have e2 : boxSum (ms.map (·.n)) (fun is => dense ms is ^ 2)
      = boxSum (ms.map (·.n)) (fun is => dense (((leftSweep ms qrs).map TkMode.ofMode).map TkMode.toMode) is ^ 2) := by
    apply boxSum_congr_box; intro is his; rw [hd is his]
  rw [e1, e2]; exact key

end tke2e

end TN
