import TnVerif.Lemmas.Chain
/-! L6 (reversal): reversing the chain and transposing every matrix reverses the index list. -/
set_option linter.unusedSectionVars false
open Finset
namespace TN
variable {R : Type} [CommSemiring R]

/-- entry `[a,b]` of the matrix product `G_1(i_1) ⋯ G_k(i_k)` -/
def chainMat : List (Mode R) → List Nat → Nat → Nat → R
  | [], _, a, b => if a = b then 1 else 0
  | m :: ms, i :: is, a, b => ∑ c ∈ range m.rr, m.G i a c * chainMat ms is c b
  | _ :: _, [], _, _ => 0

/-- right bond size of the chain (`p` for the empty chain) -/
def outRank (p : Nat) : List (Mode R) → Nat
  | [] => p
  | m :: ms => outRank m.rr ms

theorem tail_eq_chainMat (ms : List (Mode R)) : ∀ (p : Nat) (is : List Nat) (a : Nat), wf p ms → a < p →
    is.length = ms.length →
    tail ms is a = ∑ b ∈ range (outRank p ms), chainMat ms is a b := by
  induction ms with
  | nil =>
    intro p is a _ ha _
    simp only [tail, outRank, chainMat]
    rw [Finset.sum_eq_single a]
    · simp
    · intro b _ hne; simp [Ne.symm hne]
    · intro h; exact absurd (Finset.mem_range.mpr ha) h
  | cons m ms ih =>
    intro p is a hw ha hi
    cases is with
    | nil => simp at hi
    | cons i is =>
      simp only [tail, sumTo_eq, outRank, chainMat]
      rw [Finset.sum_comm]
      apply Finset.sum_congr rfl; intro c hc
      rw [ih m.rr is c hw.2 (Finset.mem_range.mp hc) (by simpa using hi), Finset.mul_sum]

theorem chainMat_single (m : Mode R) (i a b : Nat) (hb : b < m.rr) : chainMat [m] [i] a b = m.G i a b := by
  simp only [chainMat]
  rw [Finset.sum_eq_single b]
  · simp
  · intro c _ hne; simp [hne]
  · intro h; exact absurd (Finset.mem_range.mpr hb) h

theorem chainMat_snoc (ms : List (Mode R)) (m : Mode R) (i : Nat) : ∀ (p : Nat) (is : List Nat) (a b : Nat),
    wf p ms → a < p → b < m.rr → is.length = ms.length →
    chainMat (ms ++ [m]) (is ++ [i]) a b = ∑ c ∈ range (outRank p ms), chainMat ms is a c * m.G i c b := by
  induction ms with
  | nil =>
    intro p is a b _ ha hb hi
    have : is = [] := List.length_eq_zero_iff.mp hi
    subst this
    simp only [List.nil_append, outRank]
    rw [chainMat_single m i a b hb, Finset.sum_eq_single a]
    · simp [chainMat]
    · intro c _ hne; simp [chainMat, Ne.symm hne]
    · intro h; exact absurd (Finset.mem_range.mpr ha) h
  | cons x xs ih =>
    intro p is a b hw ha hb hi
    cases is with
    | nil => simp at hi
    | cons j js =>
      simp only [List.cons_append, chainMat, outRank, Finset.sum_mul]
      rw [Finset.sum_comm (s := range (outRank x.rr xs))]
      apply Finset.sum_congr rfl; intro c hc
      rw [ih x.rr js c b hw.2 (Finset.mem_range.mp hc) hb (by simpa using hi), Finset.mul_sum]
      apply Finset.sum_congr rfl; intro d _; ring

/-- reversed chain with transposed matrices -/
def revT (ms : List (Mode R)) : List (Mode R) := (ms.map Mode.transp).reverse

theorem wf_snoc (ms : List (Mode R)) (m : Mode R) : ∀ p, wf p ms → m.rl = outRank p ms → wf p (ms ++ [m]) := by
  induction ms with
  | nil => intro p _ h; exact ⟨h, trivial⟩
  | cons x xs ih => intro p hw h; exact ⟨hw.1, ih _ hw.2 h⟩

theorem outRank_snoc (ms : List (Mode R)) (m : Mode R) (p : Nat) : outRank p (ms ++ [m]) = m.rr := by
  induction ms generalizing p with
  | nil => rfl
  | cons x xs ih => exact ih _

/-- the reversed, transposed chain is well formed from the original's right bond -/
theorem wf_revT (ms : List (Mode R)) : ∀ p, wf p ms → wf (outRank p ms) (revT ms) ∧ outRank (outRank p ms) (revT ms) = p := by
  induction ms with
  | nil => intro p _; exact ⟨trivial, rfl⟩
  | cons m ms ih =>
    intro p hw
    obtain ⟨h1, h2⟩ := ih m.rr hw.2
    simp only [revT, List.map_cons, List.reverse_cons, outRank] at *
    refine ⟨wf_snoc _ _ _ h1 (by simp [Mode.transp, h2]), ?_⟩
    rw [outRank_snoc]; simp [Mode.transp, hw.1]

/-- **L6**: matrix product of the reversed, transposed chain at the reversed index list is the
    transpose of the original product -/
theorem chainMat_revT (ms : List (Mode R)) : ∀ (p : Nat) (is : List Nat) (a b : Nat), wf p ms → a < p →
    b < outRank p ms → is.length = ms.length →
    chainMat (revT ms) is.reverse b a = chainMat ms is a b := by
  induction ms with
  | nil => intro p is a b _ _ _ _; simp [revT, chainMat, eq_comm]
  | cons m ms ih =>
    intro p is a b hw ha hb hi
    cases is with
    | nil => simp at hi
    | cons i is =>
      obtain ⟨w1, w2⟩ := wf_revT ms m.rr hw.2
      simp only [revT, List.map_cons, List.reverse_cons, outRank] at *
      rw [chainMat_snoc _ _ _ (outRank m.rr ms) is.reverse b a w1 hb (by simp [Mode.transp, hw.1, ha]) (by simpa using hi)]
      rw [w2]
      simp only [chainMat, Mode.transp]
      apply Finset.sum_congr rfl; intro c hc
      rw [ih m.rr is c b hw.2 (Finset.mem_range.mp hc) hb (by simpa using hi)]
      ring

theorem head_rl_revT (ms : List (Mode R)) (p : Nat) (hw : wf p ms) (hne : ms ≠ []) :
    ∃ x xs, revT ms = x :: xs ∧ x.rl = outRank p ms := by
  have hw' := (wf_revT ms p hw).1
  cases h : revT ms with
  | nil => simp [revT] at h; exact absurd h hne
  | cons x xs => rw [h] at hw'; exact ⟨x, xs, rfl, hw'.1⟩

/-- dense value of the reversed chain = dense value at the reversed index list -/
theorem dense_revT (ms : List (Mode R)) (is : List Nat) (hw : ∀ m ∈ ms.head?, wf m.rl ms) (hi : is.length = ms.length) :
    dense (revT ms) is.reverse = dense ms is := by
  cases ms with
  | nil => simp [revT, dense]
  | cons m ms =>
    have hw' : wf m.rl (m :: ms) := hw m (by simp)
    obtain ⟨x, xs, hx, hrl⟩ := head_rl_revT (m :: ms) m.rl hw' (by simp)
    obtain ⟨w1, w2⟩ := wf_revT (m :: ms) m.rl hw'
    rw [hx] at w1 w2 ⊢
    simp only [dense, sumTo_eq, hrl]
    have hlen : is.reverse.length = (x :: xs).length := by
      rw [← hx]; simp [revT, hi]
    have e1 : ∀ a ∈ range (outRank m.rl (m :: ms)), tail (x :: xs) is.reverse a =
        ∑ b ∈ range m.rl, chainMat (x :: xs) is.reverse a b := by
      intro a ha
      rw [tail_eq_chainMat (x :: xs) _ is.reverse a w1 (Finset.mem_range.mp ha) hlen, w2]
    have e2 : ∀ a ∈ range m.rl, tail (m :: ms) is a = ∑ b ∈ range (outRank m.rl (m :: ms)), chainMat (m :: ms) is a b := by
      intro a ha
      exact tail_eq_chainMat (m :: ms) _ is a hw' (Finset.mem_range.mp ha) hi
    rw [Finset.sum_congr rfl e1, Finset.sum_congr rfl e2, Finset.sum_comm]
    apply Finset.sum_congr rfl; intro a ha
    apply Finset.sum_congr rfl; intro b hb
    rw [← hx]
    exact chainMat_revT (m :: ms) m.rl is a b hw' (Finset.mem_range.mp ha) (Finset.mem_range.mp hb) hi

end TN
