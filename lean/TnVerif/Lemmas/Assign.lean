import TnVerif.Lemmas.Scalar
import TnVerif.Lemmas.Format
import TnVerif.Model.Assign
/-! Semantic lemmas for assignment (C11): restriction to a region, embedding in zeros, ones on a region. -/
set_option linter.unusedSectionVars false
set_option linter.unusedSimpArgs false
open Finset
namespace TN
variable {R : Type} [CommRing R]

/-- is the whole index inside the selected region -/
def allMem : List Sel → List Nat → Bool
  | [], _ => true
  | s :: ss, i :: is => s.mem i && allMem ss is
  | _ :: _, [] => false

/-- position inside the value of a selected index -/
def posIdx : List Sel → List Nat → List Nat
  | s :: ss, i :: is => s.pos i :: posIdx ss is
  | _, _ => []

def noFac (t : Tensor R) : Prop := ∀ m ∈ t, m.U = Option.none

/-! ### restriction -/
theorem restrict_G (s : Sel) (c : Core R) (i a b : Nat) :
    (TMode.mk (c.restrict s) Option.none).toMode.G i a b = if s.mem i then (TMode.mk c Option.none).toMode.G i a b else 0 := by
  cases c with
  | tt r0 n r1 f => simp [Core.restrict, TMode.toMode_G]
  | cp n r f => by_cases h : s.mem i <;> simp [Core.restrict, TMode.toMode_G, h]

@[simp] theorem restrict_rl (s : Sel) (c : Core R) : (c.restrict s).rl = c.rl := by cases c <;> rfl
@[simp] theorem restrict_rr (s : Sel) (c : Core R) : (c.restrict s).rr = c.rr := by cases c <;> rfl
@[simp] theorem restrict_spatial (s : Sel) (c : Core R) : (c.restrict s).spatial = c.spatial := by cases c <;> rfl

theorem tail_restrictT (t : Tensor R) : ∀ (sels : List Sel) (is : List Nat) (a : Nat), noFac t →
    sels.length = t.length → is.length = t.length →
    tail (restrictT sels t).modes is a = (if allMem sels is then 1 else 0) * tail t.modes is a := by
  induction t with
  | nil => intro sels is a _ hs _; cases sels <;> simp_all [restrictT, Tensor.modes, tail, allMem]
  | cons m ms ih =>
    intro sels is a hn hs hi
    cases sels with
    | nil => simp at hs
    | cons s ss =>
      cases is with
      | nil => simp at hi
      | cons i is =>
        have hm : m.U = Option.none := hn m List.mem_cons_self
        obtain ⟨c, U⟩ := m
        simp only at hm; subst hm
        have := fun b => ih ss is b (fun x hx => hn x (List.mem_cons_of_mem _ hx)) (by simpa using hs) (by simpa using hi)
        simp only [restrictT, Tensor.modes, List.map_cons, tail, sumTo_eq, allMem, TMode.toMode_rr, restrict_rr] at this ⊢
        simp only [restrict_G, this]
        by_cases h1 : s.mem i
        · simp only [h1, if_true, Bool.true_and, Finset.mul_sum]
          apply Finset.sum_congr rfl; intro b _; ring
        · simp [h1]

/-! ### embedding -/
theorem embed_G (s : Sel) (n : Nat) (c : Core R) (i a b : Nat) :
    (TMode.mk (c.embed s n) Option.none).toMode.G i a b = if s.mem i then (TMode.mk c Option.none).toMode.G (s.pos i) a b else 0 := by
  cases c with
  | tt r0 n' r1 f => simp [Core.embed, TMode.toMode_G]
  | cp n' r f => by_cases h : s.mem i <;> simp [Core.embed, TMode.toMode_G, h]

@[simp] theorem embed_rl (s : Sel) (n : Nat) (c : Core R) : (c.embed s n).rl = c.rl := by cases c <;> rfl
@[simp] theorem embed_rr (s : Sel) (n : Nat) (c : Core R) : (c.embed s n).rr = c.rr := by cases c <;> rfl
@[simp] theorem embed_spatial (s : Sel) (n : Nat) (c : Core R) : (c.embed s n).spatial = n := by cases c <;> rfl

theorem tail_embedT (v : Tensor R) : ∀ (sels : List Sel) (ns : List Nat) (is : List Nat) (a : Nat), noFac v →
    sels.length = v.length → ns.length = v.length → is.length = v.length →
    tail (embedT sels ns v).modes is a = (if allMem sels is then 1 else 0) * tail v.modes (posIdx sels is) a := by
  induction v with
  | nil => intro sels ns is a _ hs _ _; cases sels <;> simp_all [embedT, Tensor.modes, tail, allMem]
  | cons m ms ih =>
    intro sels ns is a hn hs hns hi
    cases sels with
    | nil => simp at hs
    | cons s ss =>
      cases ns with
      | nil => simp at hns
      | cons n ns =>
        cases is with
        | nil => simp at hi
        | cons i is =>
          have hm : m.U = Option.none := hn m List.mem_cons_self
          obtain ⟨c, U⟩ := m
          simp only at hm; subst hm
          have := fun b => ih ss ns is b (fun x hx => hn x (List.mem_cons_of_mem _ hx)) (by simpa using hs) (by simpa using hns) (by simpa using hi)
          simp only [embedT, Tensor.modes, List.map_cons, tail, sumTo_eq, allMem, posIdx, TMode.toMode_rr, embed_rr] at this ⊢
          simp only [embed_G, this]
          by_cases h1 : s.mem i
          · simp only [h1, if_true, Bool.true_and, Finset.mul_sum]
            apply Finset.sum_congr rfl; intro b _; ring
          · simp [h1]

/-! ### ones on the region -/
theorem tail_scalarT (t : Tensor R) : ∀ (c : R) (first : Bool) (sels : List Sel) (is : List Nat), 
    sels.length = t.length → is.length = t.length →
    tail (scalarT c first sels t).modes is 0 = (if allMem sels is then 1 else 0) * (if first ∧ t ≠ [] then c else 1) := by
  induction t with
  | nil => intro c first sels is hs _; cases sels <;> simp_all [scalarT, Tensor.modes, tail, allMem]
  | cons m ms ih =>
    intro c first sels is hs hi
    cases sels with
    | nil => simp at hs
    | cons s ss =>
      cases is with
      | nil => simp at hi
      | cons i is =>
        have := ih c false ss is (by simpa using hs) (by simpa using hi)
        simp only [Bool.false_eq_true, false_and, if_false, mul_one] at this
        have hrr : (scalarCore (R := R) s m.n (if first then c else 1) m.core.isCP).rr = 1 := by
          unfold scalarCore; split <;> rfl
        have hG : (TMode.mk (scalarCore (R := R) s m.n (if first then c else 1) m.core.isCP) Option.none).toMode.G i 0 0 =
            if s.mem i then (if first then c else 1) else 0 := by
          unfold scalarCore; split <;> simp [TMode.toMode_G]
        simp only [scalarT, Tensor.modes, List.map_cons, tail, sumTo_eq, allMem, TMode.toMode_rr, hrr,
          Finset.sum_range_one, hG] at this ⊢
        rw [this]
        by_cases h1 : s.mem i <;> by_cases h2 : allMem ss is <;> cases first <;> simp [h1, h2]

/-! ### well-formedness and shapes of the helper tensors -/
theorem WFfrom_restrictT (t : Tensor R) : ∀ (sels : List Sel) (p : Nat), sels.length = t.length → Tensor.WFfrom p t →
    Tensor.WFfrom p (restrictT sels t) := by
  induction t with
  | nil => intro sels p _ _; cases sels <;> trivial
  | cons m ms ih =>
    intro sels p hs h
    cases sels with
    | nil => simp at hs
    | cons s ss => exact ⟨by simpa [restrictT] using h.1, trivial, by simpa [restrictT] using ih ss _ (by simpa using hs) h.2.2⟩

theorem shape_restrictT (t : Tensor R) : ∀ (sels : List Sel), sels.length = t.length → noFac t →
    (restrictT sels t).shape = t.shape := by
  induction t with
  | nil => intro sels _ _; cases sels <;> rfl
  | cons m ms ih =>
    intro sels hs hn
    cases sels with
    | nil => simp at hs
    | cons s ss =>
      have hm : m.U = Option.none := hn m List.mem_cons_self
      obtain ⟨c, U⟩ := m
      simp only at hm; subst hm
      simp only [restrictT, Tensor.shape, List.map_cons, TMode.n_none, restrict_spatial, List.cons.injEq, true_and]
      exact ih ss (by simpa using hs) (fun x hx => hn x (List.mem_cons_of_mem _ hx))

theorem WFfrom_embedT (v : Tensor R) : ∀ (sels : List Sel) (ns : List Nat) (p : Nat), sels.length = v.length → ns.length = v.length →
    Tensor.WFfrom p v → Tensor.WFfrom p (embedT sels ns v) := by
  induction v with
  | nil => intro sels ns p _ _ _; cases sels <;> cases ns <;> trivial
  | cons m ms ih =>
    intro sels ns p hs hns h
    cases sels with
    | nil => simp at hs
    | cons s ss =>
      cases ns with
      | nil => simp at hns
      | cons n ns =>
        exact ⟨by simpa [embedT] using h.1, trivial, by simpa [embedT] using ih ss ns _ (by simpa using hs) (by simpa using hns) h.2.2⟩

theorem shape_embedT (v : Tensor R) : ∀ (sels : List Sel) (ns : List Nat), sels.length = v.length → ns.length = v.length →
    (embedT sels ns v).shape = ns := by
  induction v with
  | nil => intro sels ns hs hns; cases sels <;> cases ns <;> simp_all [embedT, Tensor.shape]
  | cons m ms ih =>
    intro sels ns hs hns
    cases sels with
    | nil => simp at hs
    | cons s ss =>
      cases ns with
      | nil => simp at hns
      | cons n ns =>
        simp only [embedT, Tensor.shape, List.map_cons, TMode.n_none, embed_spatial, List.cons.injEq, true_and]
        exact ih ss ns (by simpa using hs) (by simpa using hns)

theorem scalarCore_dims (s : Sel) (n : Nat) (c : R) (b : Bool) :
    (scalarCore s n c b).rl = 1 ∧ (scalarCore s n c b).rr = 1 ∧ (scalarCore s n c b).spatial = n := by
  unfold scalarCore; split <;> exact ⟨rfl, rfl, rfl⟩

theorem WFfrom_scalarT (t : Tensor R) : ∀ (c : R) (first : Bool) (sels : List Sel), sels.length = t.length →
    Tensor.WFfrom 1 (scalarT c first sels t) := by
  induction t with
  | nil => intro c first sels _; cases sels <;> trivial
  | cons m ms ih =>
    intro c first sels hs
    cases sels with
    | nil => simp at hs
    | cons s ss =>
      refine ⟨(scalarCore_dims _ _ _ _).1, trivial, ?_⟩
      simp only [scalarT, (scalarCore_dims _ _ _ _).2.1]
      exact ih c false ss (by simpa using hs)

theorem shape_scalarT (t : Tensor R) : ∀ (c : R) (first : Bool) (sels : List Sel), sels.length = t.length →
    (scalarT c first sels t).shape = t.shape := by
  induction t with
  | nil => intro c first sels _; cases sels <;> rfl
  | cons m ms ih =>
    intro c first sels hs
    cases sels with
    | nil => simp at hs
    | cons s ss =>
      simp only [scalarT, Tensor.shape, List.map_cons, TMode.n_none, (scalarCore_dims _ _ _ _).2.2, List.cons.injEq, true_and]
      exact ih c false ss (by simpa using hs)

/-- the restriction of a factor-free tensor to the region -/
theorem dense_restrictT (t : Tensor R) (sels : List Sel) (is : List Nat) (hn : noFac t) (hs : sels.length = t.length)
    (hi : is.length = t.length) :
    dense (restrictT sels t).modes is = (if allMem sels is then 1 else 0) * dense t.modes is := by
  cases t with
  | nil => cases sels <;> simp_all [restrictT, Tensor.modes, dense, allMem]
  | cons m ms =>
    cases sels with
    | nil => simp at hs
    | cons s ss =>
      have h := fun a => tail_restrictT (m :: ms) (s :: ss) is a hn hs hi
      simp only [restrictT, Tensor.modes, List.map_cons, dense, sumTo_eq, TMode.toMode_rl, restrict_rl] at h ⊢
      simp only [h, Finset.mul_sum]

theorem dense_embedT (v : Tensor R) (sels : List Sel) (ns is : List Nat) (hn : noFac v) (hs : sels.length = v.length)
    (hns : ns.length = v.length) (hi : is.length = v.length) :
    dense (embedT sels ns v).modes is = (if allMem sels is then 1 else 0) * dense v.modes (posIdx sels is) := by
  cases v with
  | nil => cases sels <;> simp_all [embedT, Tensor.modes, dense, allMem]
  | cons m ms =>
    cases sels with
    | nil => simp at hs
    | cons s ss =>
      cases ns with
      | nil => simp at hns
      | cons n ns =>
        have h := fun a => tail_embedT (m :: ms) (s :: ss) (n :: ns) is a hn hs hns hi
        simp only [embedT, Tensor.modes, List.map_cons, dense, sumTo_eq, TMode.toMode_rl, embed_rl] at h ⊢
        simp only [h, Finset.mul_sum]

theorem dense_scalarT (t : Tensor R) (c : R) (sels : List Sel) (is : List Nat) (hne : t ≠ []) (hs : sels.length = t.length)
    (hi : is.length = t.length) :
    dense (scalarT c true sels t).modes is = (if allMem sels is then 1 else 0) * c := by
  have h := tail_scalarT t c true sels is hs hi
  cases t with
  | nil => exact absurd rfl hne
  | cons m ms =>
    cases sels with
    | nil => simp at hs
    | cons s ss =>
      simp only [scalarT, Tensor.modes, List.map_cons, dense, sumTo_eq, TMode.toMode_rl, (scalarCore_dims _ _ _ _).1,
        Finset.sum_range_one] at h ⊢
      rw [h]; simp

end TN
