import TnVerif.Lemmas.Tools
/-! The left-to-right interface sweep of `tn.dot` computes the Frobenius inner product (L7). -/
set_option linter.unusedSectionVars false
set_option linter.unusedSimpArgs false
open Finset
namespace TN
variable {R : Type} [CommSemiring R]

section reorder
variable {A B C D E : Finset Nat}
theorem rot3 (f : Nat → Nat → Nat → R) :
    (∑ a ∈ A, ∑ b ∈ B, ∑ c ∈ C, f a b c) = ∑ c ∈ C, ∑ a ∈ A, ∑ b ∈ B, f a b c := by
  rw [show (∑ a ∈ A, ∑ b ∈ B, ∑ c ∈ C, f a b c) = ∑ a ∈ A, ∑ c ∈ C, ∑ b ∈ B, f a b c from
    Finset.sum_congr rfl (fun a _ => Finset.sum_comm)]
  exact Finset.sum_comm
theorem rot4 (f : Nat → Nat → Nat → Nat → R) :
    (∑ a ∈ A, ∑ b ∈ B, ∑ c ∈ C, ∑ d ∈ D, f a b c d) = ∑ d ∈ D, ∑ a ∈ A, ∑ b ∈ B, ∑ c ∈ C, f a b c d := by
  rw [show (∑ a ∈ A, ∑ b ∈ B, ∑ c ∈ C, ∑ d ∈ D, f a b c d) = ∑ a ∈ A, ∑ d ∈ D, ∑ b ∈ B, ∑ c ∈ C, f a b c d from
    Finset.sum_congr rfl (fun a _ => rot3 (f a))]
  exact Finset.sum_comm
theorem rot5 (f : Nat → Nat → Nat → Nat → Nat → R) :
    (∑ a ∈ A, ∑ b ∈ B, ∑ c ∈ C, ∑ d ∈ D, ∑ e ∈ E, f a b c d e) =
      ∑ e ∈ E, ∑ a ∈ A, ∑ b ∈ B, ∑ c ∈ C, ∑ d ∈ D, f a b c d e := by
  rw [show (∑ a ∈ A, ∑ b ∈ B, ∑ c ∈ C, ∑ d ∈ D, ∑ e ∈ E, f a b c d e) =
      ∑ a ∈ A, ∑ e ∈ E, ∑ b ∈ B, ∑ c ∈ C, ∑ d ∈ D, f a b c d e from
    Finset.sum_congr rfl (fun a _ => rot4 (f a))]
  exact Finset.sum_comm
/-- reversal of five nested sums -/
theorem rev5 (f : Nat → Nat → Nat → Nat → Nat → R) :
    (∑ a ∈ A, ∑ b ∈ B, ∑ c ∈ C, ∑ d ∈ D, ∑ e ∈ E, f a b c d e) =
      ∑ e ∈ E, ∑ d ∈ D, ∑ c ∈ C, ∑ b ∈ B, ∑ a ∈ A, f a b c d e := by
  rw [rot5]
  apply Finset.sum_congr rfl; intro e _
  rw [rot4]
  apply Finset.sum_congr rfl; intro d _
  rw [rot3]
  apply Finset.sum_congr rfl; intro c _
  exact Finset.sum_comm
end reorder

/-- the sweep invariant: the running matrix contracted with the right interface of what remains -/
theorem dotGo_spec (ms : List (Mode R)) : ∀ (ms' : List (Mode R)) (L : Nat → Nat → R) (rl' rl : Nat),
    wf rl ms → wf rl' ms' → compat ms ms' →
    dotGo L rl' rl ms ms' = ∑ b' ∈ range rl', ∑ b ∈ range rl, L b' b * iface ms ms' b b' := by
  induction ms with
  | nil =>
    intro ms' L rl' rl _ _ hc
    cases ms' with
    | nil => simp [dotGo, iface, sumTo_eq]
    | cons _ _ => simp [compat] at hc
  | cons m ms ih =>
    intro ms' L rl' rl hw hw' hc
    cases ms' with
    | nil => simp [compat] at hc
    | cons m' ms' =>
      obtain ⟨h1, h2⟩ := hw
      obtain ⟨g1, g2⟩ := hw'
      obtain ⟨hn, hc'⟩ := hc
      simp only [dotGo]
      rw [ih ms' _ _ _ h2 g2 hc']
      simp only [dotStep, iface, sumTo_eq, h1, g1, ← hn, Finset.sum_mul, Finset.mul_sum]
      -- both sides are the same 5-fold sum
      rw [rev5 (A := range m'.rr) (B := range m.rr) (C := range m.n) (D := range rl') (E := range rl)]
      rw [Finset.sum_comm]
      apply Finset.sum_congr rfl; intro b' _
      apply Finset.sum_congr rfl; intro b _
      apply Finset.sum_congr rfl; intro i _
      apply Finset.sum_congr rfl; intro c _
      apply Finset.sum_congr rfl; intro c' _
      ring

end TN
