import TnVerif.Lemmas.Format
import TnVerif.Model.Index
/-! Semantic lemmas for the indexing state machine (C03). -/
set_option linter.unusedSectionVars false
set_option linter.unusedSimpArgs false
open Finset
namespace TN
variable {R : Type} [CommSemiring R]

/-- the matrix a pending integer factor stands for (a vector is a diagonal matrix) -/
def PInt.M : PInt R → Nat → Nat → R
  | .vec _ v => fun a b => if a = b then v a else 0
  | .mat _ _ f => f
def PInt.rl : PInt R → Nat | .vec n _ => n | .mat r _ _ => r
def PInt.rr : PInt R → Nat | .vec n _ => n | .mat _ c _ => c

/-- `get_key(counter, int)` is the matrix `G_n(k)` -/
theorem getInt_spec (m : TMode R) (k : Nat) :
    (getInt m k).rl = m.core.rl ∧ (getInt m k).rr = m.core.rr ∧ ∀ a b, (getInt m k).M a b = m.toMode.G k a b := by
  have h1 := TMode.decomp_rl m
  have h2 := TMode.decomp_rr m
  simp only [TMode.toMode_G, getInt]
  cases hd : m.decomp with
  | tt r0 s r1 f => rw [hd] at h1 h2; exact ⟨h1, h2, fun a b => rfl⟩
  | cp s r f => rw [hd] at h1 h2; exact ⟨h1, h2, fun a b => rfl⟩

/-- product of two pending integer factors -/
theorem comb_spec (q p : PInt R) (h : q.rr = p.rl) :
    (q.comb p).rl = q.rl ∧ (q.comb p).rr = p.rr ∧
    ∀ a b, a < q.rl → b < p.rr → (q.comb p).M a b = ∑ k ∈ range q.rr, q.M a k * p.M k b := by
  cases q with
  | vec n f =>
    cases p with
    | vec n' g =>
      simp only [PInt.rr, PInt.rl] at h
      refine ⟨rfl, h, ?_⟩
      intro a b ha _
      simp only [PInt.comb, PInt.M, PInt.rr]
      rw [Finset.sum_eq_single a]
      · by_cases hab : a = b <;> simp [hab]
      · intro k _ hk; simp [Ne.symm hk]
      · intro hh; exact absurd (Finset.mem_range.mpr ha) hh
    | mat r c g =>
      simp only [PInt.rr, PInt.rl] at h
      refine ⟨h.symm, rfl, ?_⟩
      intro a b ha _
      simp only [PInt.comb, PInt.M, PInt.rr]
      rw [Finset.sum_eq_single a]
      · simp
      · intro k _ hk; simp [Ne.symm hk]
      · intro hh; exact absurd (Finset.mem_range.mpr (by simpa [PInt.rl] using ha)) hh
  | mat r c f =>
    cases p with
    | vec n' g =>
      simp only [PInt.rr, PInt.rl] at h
      refine ⟨rfl, h, ?_⟩
      intro a b _ hb
      simp only [PInt.comb, PInt.M, PInt.rr]
      rw [Finset.sum_eq_single b]
      · simp
      · intro k _ hk; simp [hk]
      · intro hh; exact absurd (Finset.mem_range.mpr (by simpa [PInt.rr, h] using hb)) hh
    | mat r' c' g =>
      refine ⟨rfl, rfl, ?_⟩
      intro a b _ _
      simp [PInt.comb, PInt.M, PInt.rr, sumTo_eq]

/-- `join_cores`: pending factor times the next core -/
theorem joinCores_spec (p : PInt R) (c : Core R) (h : p.rr = c.rl) :
    (joinCores p c).rl = p.rl ∧ (joinCores p c).rr = c.rr ∧ (joinCores p c).spatial = c.spatial ∧
    ∀ a j b, a < p.rl → b < c.rr → (joinCores p c).get a j b = ∑ k ∈ range p.rr, p.M a k * c.get k j b := by
  cases p with
  | vec n v =>
    cases c with
    | cp s r f =>
      simp only [PInt.rr, Core.cp_rl] at h
      refine ⟨h.symm, rfl, rfl, ?_⟩
      intro a j b ha _
      simp only [joinCores, Core.cp_get, PInt.M, PInt.rr]
      rw [Finset.sum_eq_single a]
      · by_cases hab : a = b <;> simp [hab]
      · intro k _ hk; simp [Ne.symm hk]
      · intro hh; exact absurd (Finset.mem_range.mpr ha) hh
    | tt r0 s r1 f =>
      simp only [PInt.rr, Core.tt_rl] at h
      refine ⟨h.symm, rfl, rfl, ?_⟩
      intro a j b ha _
      simp only [joinCores, Core.tt_get, PInt.M, PInt.rr]
      rw [Finset.sum_eq_single a]
      · simp
      · intro k _ hk; simp [Ne.symm hk]
      · intro hh; exact absurd (Finset.mem_range.mpr (by simpa [PInt.rl] using ha)) hh
  | mat r c' M =>
    cases c with
    | cp s r' f =>
      simp only [PInt.rr, Core.cp_rl] at h
      refine ⟨rfl, h, rfl, ?_⟩
      intro a j b _ hb
      simp only [Core.cp_rr] at hb
      simp only [joinCores, Core.tt_get, Core.cp_get, PInt.M, PInt.rr]
      rw [Finset.sum_eq_single b]
      · simp
      · intro k _ hk; simp [hk]
      · intro hh; exact absurd (Finset.mem_range.mpr (by omega)) hh
    | tt r0 s r1 f =>
      refine ⟨rfl, rfl, rfl, ?_⟩
      intro a j b _ _
      simp [joinCores, PInt.M, PInt.rr, sumTo_eq]

/-- row sums of a pending factor: what remains of it when no further core follows -/
def PInt.rowsum (q : PInt R) (k : Nat) : R := ∑ b ∈ range q.rr, q.M k b

theorem rowsum_vec (n : Nat) (v : Nat → R) (k : Nat) (hk : k < n) : (PInt.vec n v).rowsum k = v k := by
  simp only [PInt.rowsum, PInt.rr, PInt.M]
  rw [Finset.sum_eq_single k]
  · simp
  · intro b _ hb; simp [Ne.symm hb]
  · intro hh; exact absurd (Finset.mem_range.mpr hk) hh

/-- trailing integer factor absorbed into the last core: equal row sums -/
theorem absorbLast_spec (c : Core R) (q : PInt R) (h : q.rl = c.rr) :
    (absorbLast c q).rl = c.rl ∧ (absorbLast c q).spatial = c.spatial ∧
    ∀ a j, a < c.rl → (∑ b ∈ range (absorbLast c q).rr, (absorbLast c q).get a j b) =
      ∑ k ∈ range c.rr, c.get a j k * q.rowsum k := by
  cases c with
  | cp s r f =>
    cases q with
    | vec n v =>
      simp only [PInt.rl, Core.cp_rr] at h
      refine ⟨rfl, rfl, ?_⟩
      intro a j ha
      simp only [Core.cp_rl] at ha
      simp only [absorbLast, Core.cp_rr, Core.cp_get]
      rw [Finset.sum_eq_single a, Finset.sum_eq_single a]
      · simp [rowsum_vec n v a (by omega)]
      · intro k _ hk; simp [Ne.symm hk]
      · intro hh; exact absurd (Finset.mem_range.mpr ha) hh
      · intro k _ hk; simp [Ne.symm hk]
      · intro hh; exact absurd (Finset.mem_range.mpr ha) hh
    | mat r' c' M =>
      refine ⟨rfl, rfl, ?_⟩
      intro a j ha
      simp only [Core.cp_rl] at ha
      simp only [absorbLast, Core.cp_rr, Core.tt_rr, Core.cp_get, Core.tt_get, PInt.rowsum, PInt.rr, PInt.M]
      have : (∑ k ∈ range r, (if a = k then f j a else 0) * ∑ b ∈ range c', M k b) = f j a * ∑ b ∈ range c', M a b := by
        rw [Finset.sum_eq_single a]
        · simp
        · intro k _ hk; simp [Ne.symm hk]
        · intro hh; exact absurd (Finset.mem_range.mpr ha) hh
      rw [this, Finset.mul_sum]
  | tt r0 s r1 f =>
    cases q with
    | vec n v =>
      simp only [PInt.rl, Core.tt_rr] at h
      refine ⟨rfl, rfl, ?_⟩
      intro a j ha
      simp only [Core.tt_rl] at ha
      simp only [absorbLast, Core.cp_rr, Core.tt_rr, Core.cp_get, Core.tt_get, sumTo_eq]
      rw [Finset.sum_eq_single a]
      · simp only [if_true]
        apply Finset.sum_congr rfl; intro k hk
        rw [rowsum_vec n v k (by have := Finset.mem_range.mp hk; omega)]
      · intro k _ hk; simp [Ne.symm hk]
      · intro hh; exact absurd (Finset.mem_range.mpr ha) hh
    | mat r' c' M =>
      refine ⟨rfl, rfl, ?_⟩
      intro a j _
      simp only [absorbLast, Core.tt_rr, Core.tt_get, sumTo_eq, PInt.rowsum, PInt.rr, PInt.M, Finset.mul_sum]
      rw [Finset.sum_comm]

/-- `get_key(counter, index array)` -/
theorem getArr_spec (m : TMode R) (l : List Nat) :
    (getArr m l).rl = m.core.rl ∧ (getArr m l).rr = m.core.rr ∧ (getArr m l).spatial = l.length ∧
    ∀ a p b, (getArr m l).get a p b = m.toMode.G (l.getD p 0) a b := by
  have h1 := TMode.decomp_rl m
  have h2 := TMode.decomp_rr m
  simp only [TMode.toMode_G, getArr]
  cases hd : m.decomp with
  | tt r0 s r1 f => rw [hd] at h1 h2; exact ⟨h1, h2, rfl, fun a p b => rfl⟩
  | cp s r f => rw [hd] at h1 h2; exact ⟨h1, h2, rfl, fun a p b => rfl⟩

/-- two successive index arrays: position-wise matrix product -/
theorem combArr_spec (c1 c2 : Core R) (h : c1.rr = c2.rl) :
    (combArr c1 c2).rl = c1.rl ∧ (combArr c1 c2).rr = c2.rr ∧ (combArr c1 c2).spatial = c1.spatial ∧
    ∀ a p b, a < c1.rl → b < c2.rr → (combArr c1 c2).get a p b = ∑ k ∈ range c1.rr, c1.get a p k * c2.get k p b := by
  cases c1 with
  | cp s r f =>
    cases c2 with
    | cp s' r' g =>
      simp only [Core.cp_rr, Core.cp_rl] at h
      refine ⟨rfl, h, rfl, ?_⟩
      intro a p b ha _
      simp only [Core.cp_rl] at ha
      simp only [combArr, Core.cp_get, Core.cp_rr]
      rw [Finset.sum_eq_single a]
      · by_cases hab : a = b <;> simp [hab]
      · intro k _ hk; simp [Ne.symm hk]
      · intro hh; exact absurd (Finset.mem_range.mpr ha) hh
    | tt r0 s' r1 g =>
      simp only [Core.cp_rr, Core.tt_rl] at h
      refine ⟨rfl, rfl, rfl, ?_⟩
      intro a p b ha _
      simp only [Core.cp_rl] at ha
      simp only [combArr, Core.cp_get, Core.tt_get, Core.cp_rr]
      rw [Finset.sum_eq_single a]
      · simp
      · intro k _ hk; simp [Ne.symm hk]
      · intro hh; exact absurd (Finset.mem_range.mpr ha) hh
  | tt r0 s r1 f =>
    cases c2 with
    | cp s' r' g =>
      simp only [Core.tt_rr, Core.cp_rl] at h
      refine ⟨rfl, h, rfl, ?_⟩
      intro a p b _ hb
      simp only [Core.cp_rr] at hb
      simp only [combArr, Core.cp_get, Core.tt_get, Core.tt_rr]
      rw [Finset.sum_eq_single b]
      · simp
      · intro k _ hk; simp [hk]
      · intro hh; exact absurd (Finset.mem_range.mpr (by omega)) hh
    | tt r0' s' r1' g =>
      refine ⟨rfl, rfl, rfl, ?_⟩
      intro a p b _ _
      simp [combArr, sumTo_eq]

/-- the mode a slice entry emits has the selected matrices -/
theorem slice_spec (m : TMode R) (a0 st cnt : Nat) :
    (m.slice a0 st cnt).core.rl = m.core.rl ∧ (m.slice a0 st cnt).core.rr = m.core.rr ∧ (m.slice a0 st cnt).n = cnt ∧
    ((m.slice a0 st cnt).ok ↔ m.ok) ∧
    ∀ j a b, (m.slice a0 st cnt).toMode.G j a b = m.toMode.G (a0 + j * st) a b := by
  obtain ⟨c, U⟩ := m
  cases U with
  | none => cases c <;> exact ⟨rfl, rfl, rfl, Iff.rfl, fun _ _ _ => rfl⟩
  | some U =>
    refine ⟨rfl, rfl, rfl, Iff.rfl, ?_⟩
    intro j a b
    simp [TMode.slice, TMode.toMode_G, Fac.apply_get, Fac.slice]

/-- a pending factor joined into a mode multiplies its matrices from the left -/
theorem joinMode_spec (p : PInt R) (m : TMode R) (h : p.rr = m.core.rl) :
    (joinOpt (some p) m).core.rl = p.rl ∧ (joinOpt (some p) m).core.rr = m.core.rr ∧ (joinOpt (some p) m).n = m.n ∧
    ((joinOpt (some p) m).ok ↔ m.ok) ∧
    ∀ i a b, a < p.rl → b < m.core.rr →
      (joinOpt (some p) m).toMode.G i a b = ∑ k ∈ range p.rr, p.M a k * m.toMode.G i k b := by
  obtain ⟨c, U⟩ := m
  obtain ⟨j1, j2, j3, j4⟩ := joinCores_spec p c h
  cases U with
  | none =>
    refine ⟨j1, j2, by simpa [joinOpt, TMode.n] using j3, by simp [joinOpt, TMode.ok], ?_⟩
    intro i a b ha hb
    simpa [joinOpt, TMode.toMode_G] using j4 a i b ha hb
  | some U =>
    refine ⟨j1, j2, rfl, by simp [joinOpt, TMode.ok, j3], ?_⟩
    intro i a b ha hb
    simp only [joinOpt, TMode.toMode_G, TMode.decomp_some, Fac.apply_get, j3, fun j => j4 a j b ha hb, Finset.mul_sum]
    rw [Finset.sum_comm]
    apply Finset.sum_congr rfl; intro k _
    apply Finset.sum_congr rfl; intro j _; ring

/-- a trailing factor absorbed into the last mode: equal row sums -/
theorem absorbMode_spec (m : TMode R) (q : PInt R) (h : q.rl = m.core.rr) :
    (absorbLast m.core q).rl = m.core.rl ∧ (TMode.mk (absorbLast m.core q) m.U).n = m.n ∧
    ((TMode.mk (absorbLast m.core q) m.U).ok ↔ m.ok) ∧
    ∀ i a, a < m.core.rl →
      (∑ b ∈ range (absorbLast m.core q).rr, (TMode.mk (absorbLast m.core q) m.U).toMode.G i a b) =
        ∑ k ∈ range m.core.rr, m.toMode.G i a k * q.rowsum k := by
  obtain ⟨c, U⟩ := m
  obtain ⟨a1, a2, a3⟩ := absorbLast_spec c q h
  cases U with
  | none =>
    refine ⟨a1, by simpa [TMode.n] using a2, by simp [TMode.ok], ?_⟩
    intro i a ha
    simpa [TMode.toMode_G] using a3 a i ha
  | some U =>
    refine ⟨a1, rfl, by simp [TMode.ok, a2], ?_⟩
    intro i a ha
    simp only [TMode.toMode_G, TMode.decomp_some, Fac.apply_get, a2]
    rw [Finset.sum_comm]
    have e1 : ∀ x, (∑ y ∈ range (absorbLast c q).rr, U.f i x * (absorbLast c q).get a x y) =
        U.f i x * ∑ k ∈ range c.rr, c.get a x k * q.rowsum k := by
      intro x; rw [← Finset.mul_sum, a3 a x ha]
    simp only [e1, Finset.mul_sum, Finset.sum_mul]
    rw [Finset.sum_comm]
    apply Finset.sum_congr rfl; intro k _
    apply Finset.sum_congr rfl; intro j _; ring

/-! ### specification of the key as a re-indexing of the chain, and the main invariant -/

/-- position-wise matrix product along a run of index arrays -/
def runMat : List (List Nat) → List (Mode R) → Nat → Nat → Nat → R
  | [], _, _, a, b => if a = b then 1 else 0
  | l :: ls, m :: ms, p, a, b => ∑ k ∈ range m.rr, m.G (l.getD p 0) a k * runMat ls ms p k b
  | _ :: _, [], _, _, _ => 0

/-- right bond after a run -/
def runRR : List (List Nat) → List (Mode R) → Nat → Nat
  | [], _, r => r
  | _ :: ls, m :: ms, _ => runRR ls ms m.rr
  | _ :: _, [], r => r

/-- the tail of the original chain read through the (grouped) key -/
def S : List GItem → List (Mode R) → List Nat → Nat → R
  | [], _, _, _ => 1
  | .int k :: ks, m :: ms, out, a => ∑ b ∈ range m.rr, m.G k a b * S ks ms out b
  | .slice a0 st _ :: ks, m :: ms, j :: out, a => ∑ b ∈ range m.rr, m.G (a0 + j * st) a b * S ks ms out b
  | .none :: ks, ms, _ :: out, a => S ks ms out a
  | .run (l :: ls) :: ks, m :: ms, p :: out, a =>
      ∑ b ∈ range (runRR ls ms m.rr), runMat (l :: ls) (m :: ms) p a b * S ks (ms.drop ls.length) out b
  | _, _, _, _ => 0

/-- value of a processed suffix as a vector over its left bond -/
def V (r : List (TMode R) × Option (PInt R)) (out : List Nat) (a : Nat) : R :=
  match r with
  | ([], Option.none) => 1
  | ([], some q) => q.rowsum a
  | (l, _) => tail (Tensor.modes l) out a

/-- matrix of an optional pending factor (`none` = identity) -/
def pM : Option (PInt R) → Nat → Nat → R
  | Option.none => fun a b => if a = b then 1 else 0
  | some p => p.M
def rowdim : Option (PInt R) → Nat → Nat
  | Option.none, rin => rin
  | some p, _ => p.rl

theorem joinOpt_spec (p : Option (PInt R)) (m : TMode R) (h : ∀ q, p = some q → q.rr = m.core.rl) :
    (joinOpt p m).core.rl = rowdim p m.core.rl ∧ (joinOpt p m).core.rr = m.core.rr ∧
    ∀ i a b, a < rowdim p m.core.rl → b < m.core.rr →
      (joinOpt p m).toMode.G i a b = ∑ k ∈ range m.core.rl, pM p a k * m.toMode.G i k b := by
  cases p with
  | none =>
    refine ⟨rfl, rfl, ?_⟩
    intro i a b ha _
    simp only [joinOpt, pM, rowdim] at *
    rw [Finset.sum_eq_single a]
    · simp
    · intro k _ hk; simp [Ne.symm hk]
    · intro hh; exact absurd (Finset.mem_range.mpr ha) hh
  | some q =>
    have hq := h q rfl
    obtain ⟨j1, j2, _, _, j5⟩ := joinMode_spec q m hq
    refine ⟨j1, j2, ?_⟩
    intro i a b ha hb
    rw [j5 i a b ha hb, hq]; rfl

/-- value of a suffix with one more mode emitted in front -/
theorem V_emitJoin (p : Option (PInt R)) (m : TMode R) (r : List (TMode R) × Option (PInt R))
    (h : ∀ q, p = some q → q.rr = m.core.rl) (hr : ∀ q, r = ([], some q) → q.rl = m.core.rr)
    (j : Nat) (out : List Nat) (a : Nat) (ha : a < rowdim p m.core.rl) :
    V (emitJoin p m r) (j :: out) a =
      ∑ c ∈ range m.core.rl, pM p a c * ∑ b ∈ range m.core.rr, m.toMode.G j c b * V r out b := by
  obtain ⟨e1, e2, e3⟩ := joinOpt_spec p m h
  have key : ∀ (X : Nat → R), (∑ b ∈ range m.core.rr, (joinOpt p m).toMode.G j a b * X b) =
      ∑ c ∈ range m.core.rl, pM p a c * ∑ b ∈ range m.core.rr, m.toMode.G j c b * X b := by
    intro X
    have : ∀ b ∈ range m.core.rr, (joinOpt p m).toMode.G j a b * X b =
        ∑ c ∈ range m.core.rl, pM p a c * (m.toMode.G j c b * X b) := by
      intro b hb
      rw [e3 j a b ha (Finset.mem_range.mp hb), Finset.sum_mul]
      apply Finset.sum_congr rfl; intro c _; ring
    rw [Finset.sum_congr rfl this, Finset.sum_comm]
    apply Finset.sum_congr rfl; intro c _
    rw [Finset.mul_sum]
  obtain ⟨l, q⟩ := r
  cases l with
  | nil =>
    cases q with
    | none =>
      simp only [emitJoin, V, Tensor.modes, List.map_cons, List.map_nil, tail, sumTo_eq, TMode.toMode_rr, e2]
      exact key (fun _ => 1)
    | some q =>
      have hq := hr q rfl
      obtain ⟨a1, _, _, a4⟩ := absorbMode_spec (joinOpt p m) q (by rw [hq, e2])
      simp only [emitJoin, V, Tensor.modes, List.map_cons, List.map_nil, tail, sumTo_eq, TMode.toMode_rr, mul_one]
      have := a4 j a (by rw [e1]; exact ha)
      simp only [e2] at this
      rw [this]
      exact key (fun b => q.rowsum b)
  | cons x xs =>
    simp only [emitJoin, V, Tensor.modes, List.map_cons, tail, sumTo_eq, TMode.toMode_rr, e2]
    exact key (fun b => tail (x.toMode :: List.map TMode.toMode xs) out b)

theorem modes_drop (t : Tensor R) (n : Nat) : Tensor.modes (t.drop n) = (Tensor.modes t).drop n := by
  simp [Tensor.modes, List.map_drop]

/-- the index core of a run is the position-wise product of the selected matrices -/
theorem runCore_spec (ls : List (List Nat)) : ∀ (c : Core R) (rest : Tensor R) (c' : Core R) (rest' : Tensor R),
    Tensor.WFfrom c.rr rest → runCore c ls rest = .ok (c', rest') →
    c'.rl = c.rl ∧ c'.spatial = c.spatial ∧ rest' = rest.drop ls.length ∧ Tensor.WFfrom c'.rr rest' ∧
    c'.rr = runRR ls (Tensor.modes rest) c.rr ∧
    outRank c'.rr (Tensor.modes rest') = outRank c.rr (Tensor.modes rest) ∧
    ∀ a p b, a < c.rl → b < c'.rr →
      c'.get a p b = ∑ k ∈ range c.rr, c.get a p k * runMat ls (Tensor.modes rest) p k b := by
  induction ls with
  | nil =>
    intro c rest c' rest' hw h
    simp only [runCore, Except.ok.injEq, Prod.mk.injEq] at h
    obtain ⟨h1, h2⟩ := h
    subst h1; subst h2
    refine ⟨rfl, rfl, rfl, hw, rfl, rfl, ?_⟩
    intro a p b _ hb
    simp only [runMat]
    rw [Finset.sum_eq_single b]
    · simp
    · intro k _ hk; simp [hk]
    · intro hh; exact absurd (Finset.mem_range.mpr hb) hh
  | cons l ls ih =>
    intro c rest c' rest' hw h
    cases rest with
    | nil => simp [runCore] at h
    | cons m rest =>
      simp only [runCore] at h
      split at h
      · simp at h
      · obtain ⟨w1, w2, w3⟩ := hw
        obtain ⟨g1, g2, g3, g4⟩ := getArr_spec m l
        obtain ⟨k1, k2, k3, k4⟩ := combArr_spec c (getArr m l) (by rw [g1, w1])
        have := ih (combArr c (getArr m l)) rest c' rest' (by rw [k2, g2]; exact w3) h
        obtain ⟨i1, i2, i3, i4, i5, i6, i7⟩ := this
        refine ⟨by rw [i1, k1], by rw [i2, k3], by simpa using i3, i4, ?_, ?_, ?_⟩
        · rw [i5, k2, g2]; rfl
        · rw [i6, k2, g2]; rfl
        · intro a p b ha hb
          rw [i7 a p b (by rw [k1]; exact ha) hb, k2, g2]
          simp only [Tensor.modes, List.map_cons, runMat, TMode.toMode_rr]
          have : ∀ k ∈ range m.core.rr, (combArr c (getArr m l)).get a p k * runMat ls (List.map TMode.toMode rest) p k b =
              ∑ e ∈ range c.rr, c.get a p e * (m.toMode.G (l.getD p 0) e k * runMat ls (List.map TMode.toMode rest) p k b) := by
            intro k hk
            rw [k4 a p k ha (by rw [g2]; exact Finset.mem_range.mp hk), Finset.sum_mul]
            apply Finset.sum_congr rfl; intro e _
            rw [g4]; ring
          rw [Finset.sum_congr rfl this, Finset.sum_comm]
          apply Finset.sum_congr rfl; intro e _
          rw [Finset.mul_sum]

/-- **main invariant of the indexing state machine**: the processed suffix, multiplied from the left
    by the pending integer factor, is the original chain read through the key -/
theorem goKey_spec (lastRR : Nat) (ks : List GItem) : ∀ (ms : Tensor R) (d : Bool) (p : Option (PInt R)) (rin : Nat)
    (r : List (TMode R) × Option (PInt R)),
    Tensor.WFfrom rin ms → outRank rin (Tensor.modes ms) = lastRR → (∀ q, p = some q → q.rr = rin) →
    goKey lastRR d p ks ms = .ok r →
    (∀ q, r = ([], some q) → q.rl = rowdim p rin) ∧ (∀ m l, r.1 = m :: l → m.core.rl = rowdim p rin) ∧
    ∀ out a, a < rowdim p rin → V r out a = ∑ c ∈ range rin, pM p a c * S ks (Tensor.modes ms) out c := by
  induction ks with
  | nil =>
    intro ms d p rin r _ _ hp h
    simp only [goKey, Except.ok.injEq] at h
    subst h
    refine ⟨?_, ?_, ?_⟩
    · intro q hq; simp only [Prod.mk.injEq, true_and] at hq; subst hq; rfl
    · intro m l hl; simp at hl
    · intro out a ha
      cases p with
      | none =>
        simp only [V, S, pM, rowdim, mul_one] at *
        rw [Finset.sum_eq_single a]
        · simp
        · intro k _ hk; simp [Ne.symm hk]
        · intro hh; exact absurd (Finset.mem_range.mpr ha) hh
      | some q => simp [V, S, pM, PInt.rowsum, hp q rfl]
  | cons k ks ih =>
    intro ms d p rin r hw ho hp h
    cases k with
    | int k =>
      cases ms with
      | nil => simp [goKey] at h
      | cons m rest =>
        obtain ⟨w1, w2, w3⟩ := hw
        obtain ⟨g1, g2, g3⟩ := getInt_spec m k
        simp only [goKey] at h
        -- the new pending factor
        have hcomb : (PInt.combOpt p (getInt m k)).rl = rowdim p rin ∧ (PInt.combOpt p (getInt m k)).rr = m.core.rr ∧
            ∀ a b, a < rowdim p rin → b < m.core.rr →
              (PInt.combOpt p (getInt m k)).M a b = ∑ e ∈ range rin, pM p a e * m.toMode.G k e b := by
          cases p with
          | none =>
            refine ⟨by simp [PInt.combOpt, rowdim, g1, w1], by simp [PInt.combOpt, g2], ?_⟩
            intro a b ha _
            simp only [PInt.combOpt, pM, rowdim, g3] at *
            rw [Finset.sum_eq_single a]
            · simp
            · intro e _ he; simp [Ne.symm he]
            · intro hh; exact absurd (Finset.mem_range.mpr ha) hh
          | some q =>
            have hq := hp q rfl
            obtain ⟨c1, c2, c3⟩ := comb_spec q (getInt m k) (by rw [hq, g1, w1])
            refine ⟨c1, by simp only [PInt.combOpt]; rw [c2, g2], ?_⟩
            intro a b ha hb
            simp only [PInt.combOpt, pM, rowdim] at *
            rw [c3 a b ha (by rw [g2]; exact hb), hq]
            apply Finset.sum_congr rfl; intro e _; rw [g3]
        obtain ⟨hc1, hc2, hc3⟩ := hcomb
        have := ih rest d (some (PInt.combOpt p (getInt m k))) m.core.rr r w3 ho
          (by intro q hq; simp only [Option.some.injEq] at hq; subst hq; exact hc2) h
        obtain ⟨i1, i2, i3⟩ := this
        simp only [rowdim] at i1 i2 i3
        refine ⟨by intro q hq; rw [i1 q hq, hc1], by intro x l hl; rw [i2 x l hl, hc1], ?_⟩
        intro out a ha
        rw [i3 out a (by rw [hc1]; exact ha)]
        simp only [Tensor.modes, List.map_cons, S, TMode.toMode_rr]
        show (∑ c ∈ range m.core.rr, (PInt.combOpt p (getInt m k)).M a c * S ks (List.map TMode.toMode rest) out c) = _
        have : ∀ c ∈ range m.core.rr, (PInt.combOpt p (getInt m k)).M a c * S ks (List.map TMode.toMode rest) out c =
            ∑ e ∈ range rin, pM p a e * (m.toMode.G k e c * S ks (List.map TMode.toMode rest) out c) := by
          intro c hc
          rw [hc3 a c ha (Finset.mem_range.mp hc), Finset.sum_mul]
          apply Finset.sum_congr rfl; intro e _; ring
        rw [Finset.sum_congr rfl this, Finset.sum_comm]
        apply Finset.sum_congr rfl; intro e _
        rw [Finset.mul_sum]
    | slice a0 st cnt =>
      cases ms with
      | nil => simp [goKey] at h
      | cons m rest =>
        obtain ⟨w1, w2, w3⟩ := hw
        simp only [goKey, bind, Except.bind] at h
        split at h
        · simp at h
        · rename_i r' hr'
          simp only [pure, Except.pure, Except.ok.injEq] at h
          subst h
          obtain ⟨s1, s2, s3, s4, s5⟩ := slice_spec m a0 st cnt
          obtain ⟨i1, i2, i3⟩ := ih rest d Option.none m.core.rr r' w3 ho (by intro q hq; simp at hq) hr'
          simp only [rowdim] at i1 i2 i3
          have hp' : ∀ q, p = some q → q.rr = (m.slice a0 st cnt).core.rl := by
            intro q hq; rw [s1, w1]; exact hp q hq
          have hr2 : ∀ q, r' = ([], some q) → q.rl = (m.slice a0 st cnt).core.rr := by
            intro q hq; rw [s2]; exact i1 q hq
          obtain ⟨e1, _, _⟩ := joinOpt_spec p (m.slice a0 st cnt) hp'
          refine ⟨?_, ?_, ?_⟩
          · intro q hq
            obtain ⟨l, q'⟩ := r'
            cases l <;> cases q' <;> simp [emitJoin] at hq
          · intro x l hl
            obtain ⟨l', q'⟩ := r'
            have : x = joinOpt p (m.slice a0 st cnt) ∨ x.core.rl = (joinOpt p (m.slice a0 st cnt)).core.rl := by
              cases l' with
              | nil =>
                cases q' with
                | none => left; simp [emitJoin] at hl; exact hl.1.symm
                | some q' =>
                  right
                  simp [emitJoin] at hl
                  rw [← hl.1]
                  exact (absorbMode_spec (joinOpt p (m.slice a0 st cnt)) q' (by
                    rw [(joinOpt_spec p _ hp').2.1]; exact hr2 q' rfl)).1
              | cons y ys => left; simp [emitJoin] at hl; exact hl.1.symm
            rcases this with h | h
            · rw [h, e1, s1, w1]
            · rw [h, e1, s1, w1]
          · intro out a ha
            cases out with
            | nil =>
              have : V (emitJoin p (m.slice a0 st cnt) r') [] a = 0 := by
                obtain ⟨l', q'⟩ := r'
                cases l' <;> cases q' <;> simp [emitJoin, V, Tensor.modes, tail]
              rw [this]; simp [S, Tensor.modes]
            | cons j out =>
              rw [V_emitJoin p _ r' hp' hr2 j out a (by rw [s1, w1]; exact ha), s1, s2, w1]
              simp only [Tensor.modes, List.map_cons, S, TMode.toMode_rr]
              apply Finset.sum_congr rfl; intro c _
              congr 1
              apply Finset.sum_congr rfl; intro b hb
              rw [s5, i3 out b (Finset.mem_range.mp hb)]
              simp only [pM, Tensor.modes]
              rw [Finset.sum_eq_single b]
              · simp
              · intro e _ he; simp [Ne.symm he]
              · intro hh; exact absurd hb hh
    | none =>
      have hnr : nextRank ms lastRR = rin := by
        cases ms with
        | nil => simpa [nextRank, Tensor.modes, outRank] using ho.symm
        | cons m rest => exact hw.1
      simp only [goKey, bind, Except.bind] at h
      split at h
      · simp at h
      · rename_i r' hr'
        simp only [pure, Except.pure, Except.ok.injEq] at h
        subst h
        rw [hnr]
        obtain ⟨i1, i2, i3⟩ := ih ms d Option.none rin r' hw ho (by intro q hq; simp at hq) hr'
        simp only [rowdim] at i1 i2 i3
        have hp' : ∀ q, p = some q → q.rr = (eyeCore (R := R) rin).core.rl := by
          intro q hq; exact hp q hq
        have hr2 : ∀ q, r' = ([], some q) → q.rl = (eyeCore (R := R) rin).core.rr := by
          intro q hq; exact i1 q hq
        obtain ⟨e1, e2, _⟩ := joinOpt_spec p (eyeCore (R := R) rin) hp'
        refine ⟨?_, ?_, ?_⟩
        · intro q hq
          obtain ⟨l, q'⟩ := r'
          cases l <;> cases q' <;> simp [emitJoin] at hq
        · intro x l hl
          obtain ⟨l', q'⟩ := r'
          have : x.core.rl = (joinOpt p (eyeCore (R := R) rin)).core.rl := by
            cases l' with
            | nil =>
              cases q' with
              | none => simp [emitJoin] at hl; rw [← hl.1]
              | some q' =>
                simp [emitJoin] at hl
                rw [← hl.1]
                exact (absorbMode_spec (joinOpt p (eyeCore (R := R) rin)) q' (by rw [e2]; exact hr2 q' rfl)).1
            | cons y ys => simp [emitJoin] at hl; rw [← hl.1]
          rw [this, e1]; rfl
        · intro out a ha
          cases out with
          | nil =>
            have : V (emitJoin p (eyeCore (R := R) rin) r') [] a = 0 := by
              obtain ⟨l', q'⟩ := r'
              cases l' <;> cases q' <;> simp [emitJoin, V, Tensor.modes, tail]
            rw [this]; simp [S]
          | cons j out =>
            rw [V_emitJoin p _ r' hp' hr2 j out a ha]
            simp only [S]
            have hc : (eyeCore (R := R) rin).core.rl = rin := rfl
            have hc2 : (eyeCore (R := R) rin).core.rr = rin := rfl
            rw [hc, hc2]
            apply Finset.sum_congr rfl; intro c hc'
            congr 1
            have hG : ∀ b, (eyeCore (R := R) rin).toMode.G j c b = if c = b then 1 else 0 := fun b => rfl
            simp only [hG]
            rw [Finset.sum_eq_single c]
            · simp only [if_true, one_mul]
              rw [i3 out c (Finset.mem_range.mp hc')]
              simp only [pM]
              rw [Finset.sum_eq_single c]
              · simp
              · intro e _ he; simp [Ne.symm he]
              · intro hh; exact absurd hc' hh
            · intro b _ hb; simp [Ne.symm hb]
            · intro hh; exact absurd hc' hh
    | run ls =>
      cases ls with
      | nil => cases ms <;> simp [goKey] at h
      | cons l ls =>
        cases ms with
        | nil => simp [goKey] at h
        | cons m rest =>
          obtain ⟨w1, w2, w3⟩ := hw
          simp only [goKey] at h
          split at h
          · simp at h
          · simp only [bind, Except.bind] at h
            split at h
            · simp at h
            · rename_i cr hcr
              obtain ⟨c, rest'⟩ := cr
              simp only at h
              split at h
              · simp at h
              · rename_i r' hr'
                simp only [pure, Except.pure, Except.ok.injEq] at h
                subst h
                obtain ⟨g1, g2, g3, g4⟩ := getArr_spec m l
                obtain ⟨k1, k2, k3, k4, k5, k6, k7⟩ := runCore_spec ls (getArr m l) rest c rest' (by rw [g2]; exact w3) hcr
                have ho' : outRank c.rr (Tensor.modes rest') = lastRR := by
                  rw [k6, g2]; exact ho
                obtain ⟨i1, i2, i3⟩ := ih rest' true Option.none c.rr r' k4 ho' (by intro q hq; simp at hq) hr'
                simp only [rowdim] at i1 i2 i3
                have hcl : c.rl = rin := by rw [k1, g1, w1]
                have hp' : ∀ q, p = some q → q.rr = (TMode.mk c Option.none).core.rl := by
                  intro q hq; show q.rr = c.rl; rw [hcl]; exact hp q hq
                have hr2 : ∀ q, r' = ([], some q) → q.rl = (TMode.mk c Option.none).core.rr := by
                  intro q hq; exact i1 q hq
                obtain ⟨e1, e2, _⟩ := joinOpt_spec p (TMode.mk c Option.none) hp'
                refine ⟨?_, ?_, ?_⟩
                · intro q hq
                  obtain ⟨l0, q'⟩ := r'
                  cases l0 <;> cases q' <;> simp [emitJoin] at hq
                · intro x l0 hl
                  obtain ⟨l', q'⟩ := r'
                  have : x.core.rl = (joinOpt p (TMode.mk c Option.none)).core.rl := by
                    cases l' with
                    | nil =>
                      cases q' with
                      | none => simp [emitJoin] at hl; rw [← hl.1]
                      | some q' =>
                        simp [emitJoin] at hl
                        rw [← hl.1]
                        exact (absorbMode_spec (joinOpt p (TMode.mk c Option.none)) q' (by rw [e2]; exact hr2 q' rfl)).1
                    | cons y ys => simp [emitJoin] at hl; rw [← hl.1]
                  rw [this, e1]; show rowdim p c.rl = _; rw [hcl]
                · intro out a ha
                  cases out with
                  | nil =>
                    have : V (emitJoin p (TMode.mk c Option.none) r') [] a = 0 := by
                      obtain ⟨l', q'⟩ := r'
                      cases l' <;> cases q' <;> simp [emitJoin, V, Tensor.modes, tail]
                    rw [this]; simp [S, Tensor.modes]
                  | cons j out =>
                    rw [V_emitJoin p _ r' hp' hr2 j out a (by show a < rowdim p c.rl; rw [hcl]; exact ha)]
                    show (∑ e ∈ range c.rl, pM p a e * ∑ b ∈ range c.rr, c.get e j b * V r' out b) = _
                    rw [hcl]
                    simp only [Tensor.modes, List.map_cons, S, TMode.toMode_rr]
                    apply Finset.sum_congr rfl; intro e he
                    congr 1
                    have k5' : runRR ls (List.map TMode.toMode rest) m.core.rr = c.rr := by rw [k5, g2]; rfl
                    rw [k5']
                    apply Finset.sum_congr rfl; intro b hb
                    have hb' := Finset.mem_range.mp hb
                    rw [k7 e j b (by rw [g1, w1]; exact Finset.mem_range.mp he) hb', i3 out b hb', g2]
                    have hS : (∑ x ∈ range c.rr, pM Option.none b x * S ks (Tensor.modes rest') out x) = S ks (Tensor.modes rest') out b := by
                      simp only [pM]
                      rw [Finset.sum_eq_single b]
                      · simp
                      · intro x _ hx; simp [Ne.symm hx]
                      · intro hh; exact absurd hb hh
                    rw [hS, k3, modes_drop]
                    simp only [runMat, Tensor.modes, TMode.toMode_rr]
                    congr 1
                    apply Finset.sum_congr rfl; intro x _
                    rw [g4]

end TN
