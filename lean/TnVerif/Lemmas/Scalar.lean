import TnVerif.Lemmas.WF
/-! Scalar multiplication (all cores × ρ, first × sign) and the constant tensor of scalar addition. -/
set_option linter.unusedSectionVars false
set_option linter.unusedSimpArgs false
open Finset
namespace TN
variable {R : Type} [CommSemiring R]

theorem Core.scale_get (c : R) (k : Core R) (a j b : Nat) : (k.scale c).get a j b = c * k.get a j b := by
  cases k with
  | tt => rfl
  | cp s r f => by_cases h : a = b <;> simp [Core.scale, h]
@[simp] theorem Core.scale_rl (c : R) (k : Core R) : (k.scale c).rl = k.rl := by cases k <;> rfl
@[simp] theorem Core.scale_rr (c : R) (k : Core R) : (k.scale c).rr = k.rr := by cases k <;> rfl
@[simp] theorem Core.scale_spatial (c : R) (k : Core R) : (k.scale c).spatial = k.spatial := by cases k <;> rfl

theorem toMode_scale (c : R) (m : TMode R) : (m.scale c).toMode = Mode.scale c m.toMode := by
  obtain ⟨k, U⟩ := m
  cases U with
  | none =>
    apply Mode.ext' <;> simp [TMode.scale, Mode.scale, TMode.toMode_G, Core.scale_get, TMode.n]
  | some U =>
    apply Mode.ext'
    · simp [TMode.scale, Mode.scale]
    · simp [TMode.scale, Mode.scale]
    · simp [TMode.scale, Mode.scale, TMode.n]
    · intro i a b
      simp only [TMode.scale, Mode.scale, TMode.toMode_G, TMode.decomp_some, Fac.apply_get, Core.scale_get,
        Core.scale_spatial, Finset.mul_sum]
      apply Finset.sum_congr rfl; intro j _; ring

theorem scale_ok (c : R) (m : TMode R) (h : m.ok) : (m.scale c).ok := by
  obtain ⟨k, U⟩ := m; cases U <;> simp_all [TMode.ok, TMode.scale]

theorem tail_scale_head (c : R) (m : Mode R) (ms : List (Mode R)) (is : List Nat) (a : Nat) :
    tail (m.scale c :: ms) is a = c * tail (m :: ms) is a := by
  cases is with
  | nil => simp [tail]
  | cons i is =>
    simp only [tail, Mode.scale, sumTo_eq, Finset.mul_sum]
    apply Finset.sum_congr rfl; intro b _; ring

theorem tail_map_scale (c : R) (ms : List (Mode R)) : ∀ (is : List Nat) (a : Nat), is.length = ms.length →
    tail (ms.map (Mode.scale c)) is a = c ^ ms.length * tail ms is a := by
  induction ms with
  | nil => intro is a _; simp [tail]
  | cons m ms ih =>
    intro is a hi
    cases is with
    | nil => simp at hi
    | cons i is =>
      simp only [List.map_cons, tail, Mode.scale, sumTo_eq, List.length_cons, Finset.mul_sum]
      apply Finset.sum_congr rfl; intro b _
      rw [ih is b (by simpa using hi)]; ring

theorem dense_scalarMul (ρ sgn : R) (t : Tensor R) (idx : List Nat) (hne : t ≠ []) (hi : idx.length = t.length) :
    dense (t.scalarMul ρ sgn).modes idx = sgn * ρ ^ t.length * dense t.modes idx := by
  cases t with
  | nil => exact absurd rfl hne
  | cons m ms =>
    cases idx with
    | nil => simp at hi
    | cons i is =>
      have hms : Tensor.modes (ms.map (TMode.scale ρ)) = (Tensor.modes ms).map (Mode.scale ρ) := by
        simp [Tensor.modes, List.map_map, Function.comp_def, toMode_scale]
      simp only [Tensor.scalarMul, Tensor.modes, List.map_cons, toMode_scale, dense, sumTo_eq, Mode.scale, tail,
        List.length_cons, Finset.mul_sum]
      apply Finset.sum_congr rfl; intro a _
      apply Finset.sum_congr rfl; intro b _
      have := hms; simp only [Tensor.modes] at this
      rw [this, tail_map_scale ρ _ is b (by simpa [Tensor.modes] using hi)]
      simp only [List.length_map]; ring

theorem WFfrom_map_scale (c : R) (t : Tensor R) : ∀ p, Tensor.WFfrom p t → Tensor.WFfrom p (t.map (TMode.scale c)) := by
  induction t with
  | nil => intro p h; exact h
  | cons m ms ih =>
    intro p h
    obtain ⟨h1, h2, h3⟩ := h
    exact ⟨by simpa [TMode.scale] using h1, scale_ok c m h2, by simpa [TMode.scale] using ih _ h3⟩

theorem WF_scalarMul (ρ sgn : R) (t : Tensor R) (h : t.WF) : (t.scalarMul ρ sgn).WF := by
  cases t with
  | nil => exact h
  | cons m ms =>
    obtain ⟨_, h2, h3⟩ := h
    refine ⟨rfl, scale_ok _ _ (scale_ok _ _ h2), ?_⟩
    simpa [TMode.scale] using WFfrom_map_scale ρ ms _ h3

theorem shape_scalarMul (ρ sgn : R) (t : Tensor R) : (t.scalarMul ρ sgn).shape = t.shape := by
  cases t with
  | nil => rfl
  | cons m ms =>
    have hn : ∀ (c : R) (x : TMode R), (x.scale c).n = x.n := by
      intro c x; obtain ⟨k, U⟩ := x; cases U <;> simp [TMode.scale, TMode.n]
    simp [Tensor.scalarMul, Tensor.shape, hn, List.map_map, Function.comp_def]

/-! ### the constant tensor -/
def onesT (ss : List Nat) : Tensor R := ss.map (fun s => { core := .tt 1 s 1 (fun _ _ _ => 1), U := none })

theorem tail_onesT (ss : List Nat) : ∀ (is : List Nat), is.length = ss.length → tail (onesT (R := R) ss).modes is 0 = 1 := by
  induction ss with
  | nil => intro is _; simp [onesT, Tensor.modes, tail]
  | cons s ss ih =>
    intro is hi
    cases is with
    | nil => simp at hi
    | cons i is =>
      have := ih is (by simpa using hi)
      simp only [onesT, Tensor.modes, List.map_cons, List.map_map] at this ⊢
      simp [tail, sumTo_eq, TMode.toMode_G, this]

theorem dense_constLike (c : R) (ss : List Nat) (idx : List Nat) (hne : ss ≠ []) (hi : idx.length = ss.length) :
    dense (Tensor.constLike c ss).modes idx = c := by
  cases ss with
  | nil => exact absurd rfl hne
  | cons s ss =>
    cases idx with
    | nil => simp at hi
    | cons i is =>
      have := tail_onesT (R := R) ss is (by simpa using hi)
      simp only [onesT, Tensor.modes, List.map_map] at this
      simp [Tensor.constLike, Tensor.modes, dense, tail, sumTo_eq, TMode.toMode_G, List.map_map, this]

theorem WFfrom_onesT (ss : List Nat) : Tensor.WFfrom 1 (onesT (R := R) ss) := by
  induction ss with
  | nil => trivial
  | cons s ss ih => exact ⟨rfl, trivial, ih⟩

theorem WF_constLike (c : R) (ss : List Nat) (hne : ss ≠ []) : (Tensor.constLike c ss).WF := by
  cases ss with
  | nil => exact absurd rfl hne
  | cons s ss => exact ⟨rfl, trivial, WFfrom_onesT ss⟩

theorem shape_constLike (c : R) (ss : List Nat) : (Tensor.constLike c ss).shape = ss := by
  cases ss with
  | nil => rfl
  | cons s ss => simp [Tensor.constLike, Tensor.shape, TMode.n, List.map_map, Function.comp_def]

end TN
