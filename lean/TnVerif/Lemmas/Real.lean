import Mathlib.Analysis.SpecialFunctions.Pow.Real
/-! Discharge of the numerical-kernel contracts that need ℝ (DESIGN §2.4): `ROOTok`. -/
namespace TN

/-- `ROOTok ρ c N` for the real numbers: `ρ = |c|^(1/N)`, `sgn = sign c` satisfy `sgn · ρ^N = c`
    — what `Tensor.__mul__` relies on when it spreads a scalar over the `N` cores. -/
theorem rootok_real (c : ℝ) (N : ℕ) (hN : N ≠ 0) :
    (SignType.sign c : ℝ) * ((|c|) ^ ((N : ℝ)⁻¹)) ^ N = c := by
  rw [Real.rpow_inv_natCast_pow (abs_nonneg c) hN]
  exact sign_mul_abs c

end TN
