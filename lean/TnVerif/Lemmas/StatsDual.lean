import TnVerif.Lemmas.Stats
import TnVerif.Lemmas.Dual
import Mathlib.Algebra.Field.Basic
import Mathlib.Tactic.FieldSimp
import Mathlib.Tactic.Ring
/-!
  The statistics of metrics.py over scalars that are **not** a field (C07).

  `tn.mean` / `tn.var` divide, but only by natural numbers (mode sizes, `numel`); the weighted variants divide a
  marginal vector by its sum.  `Dual K` (dual numbers over a field, Model/Dual.lean) is a commutative ring with the
  quotient-rule division `(v + dε)/(w + eε) = v/w + (d·w − v·e)/w² ε`; it is not a field (ε is nilpotent), so
  the `Field` lemmas of Lemmas/Stats.lean do not apply.  This file

  * isolates the three facts about `/` that the un-weighted statistics use (`sdual_NatDivLaws`: dividing by a natural
    number is multiplying by `1/n`, `1/(n·m) = 1/n · 1/m`, `1/1 = 1`), proves them for every field and for
    `Dual K` **with the `Div` instance of Model/Dual.lean** (the one the compiled driver computes with), and re-proves
    the scalar lemmas of Lemmas/Stats.lean (`natR`, `cprod`, `numelR`) from them;
  * re-proves the lemmas on the rank-one tensor `pdf` of normalised marginals over any commutative ring with any
    division (no law of `/` is used at all: the code and the dense formula divide the same things);
  * gives the value / tangent components of the dual-number expressions.
-/
set_option linter.unusedSectionVars false
set_option linter.unusedSimpArgs false
open Finset
namespace TN
variable {R : Type}

/-! ### the laws of `/` used by `tn.mean`, `tn.var` -/

/-- what the un-weighted statistics need from `/`: they divide only by natural numbers -/
structure sdual_NatDivLaws (R : Type) [CommRing R] [Div R] : Prop where
  /-- dividing by a natural number is multiplying by its reciprocal -/
  div_nat : ∀ (x : R) (n : Nat), x / (n : R) = x * (1 / (n : R))
  /-- reciprocals of natural numbers multiply -/
  one_div_mul : ∀ n m : Nat, (1 : R) / ((n * m : Nat) : R) = 1 / (n : R) * (1 / (m : R))
  /-- `1/1 = 1` -/
  one_div_one : (1 : R) / ((1 : Nat) : R) = 1

/-- every field satisfies them (with its own division) -/
theorem sdual_natDivLaws_field (K : Type) [Field K] : sdual_NatDivLaws K where
  div_nat x n := by rw [one_div, div_eq_mul_inv]
  one_div_mul n m := by rw [Nat.cast_mul, one_div, one_div, one_div, mul_inv]
  one_div_one := by simp

section natdiv
variable [CommRing R] [Div R]

/-- `natR n` (a Python `int` used as a float, built as `1 + … + 1`) is the natural number `n` of the ring -/
theorem sdual_natR_eq (n : Nat) : (natR n : R) = (n : R) := by
  induction n with
  | zero => simp [natR]
  | succ n ih => simp [natR, ih]

/-- the product of the `1.0 / shape[d]` of the listed modes is `1 / (product of their sizes)` -/
theorem sdual_cprod_inv (h : sdual_NatDivLaws R) : ∀ (dims : List Bool) (ns : List Nat),
    cprod (fun n => (1 / natR n : R) * 1) dims ns = 1 / ((cntOver dims ns : Nat) : R) := by
  intro dims
  induction dims with
  | nil => intro ns; simp only [cprod, cntOver]; exact h.one_div_one.symm
  | cons b ds ih =>
    intro ns
    cases ns with
    | nil => cases b <;> simp only [cprod, cntOver] <;> exact h.one_div_one.symm
    | cons n ns =>
      cases b with
      | false => simp only [cprod, cntOver]; exact ih ns
      | true =>
        simp only [cprod, cntOver]
        rw [ih ns, sdual_natR_eq, h.one_div_mul, mul_one]

/-- `t.numel()` taken in the scalars is the natural number `Π shape` -/
theorem sdual_numelR_eq (t : Tensor R) : t.numelR = ((t.shape.prod : Nat) : R) := by
  unfold Tensor.numelR
  have : ∀ (l : List Nat) (a : R), l.foldl (fun acc s => acc * natR s) a = a * ((l.prod : Nat) : R) := by
    intro l
    induction l with
    | nil => intro a; simp
    | cons s l ih => intro a; rw [List.foldl_cons, ih, sdual_natR_eq, List.prod_cons, Nat.cast_mul]; ring
  rw [this]; ring

/-! ### the rank-one tensor of normalised marginals, any division -/

/-- product of the normalised marginal weights at an index (`none`: no weight on that mode); `/` is whatever
    division the scalars carry (for dual numbers: the quotient rule, so tangents on the marginals are propagated too) -/
def sdual_margW : List (Option (Nat × (Nat → R))) → List Nat → R
  | some (len, w) :: ws, j :: js => (w j / ∑ k ∈ range len, w k) * sdual_margW ws js
  | Option.none :: ws, _ :: js => sdual_margW ws js
  | _, _ => 1

/-- every marginal vector has the length of its mode (otherwise `t * pdf` broadcasts or raises) -/
def sdual_margsFit : List Nat → List (Option (Nat × (Nat → R))) → Prop
  | sh :: shs, some (len, _) :: ws => len = sh ∧ sdual_margsFit shs ws
  | _ :: shs, Option.none :: ws => sdual_margsFit shs ws
  | _, _ => True

theorem sdual_WFfrom_pdfT : ∀ (shs : List Nat) (ws : List (Option (Nat × (Nat → R)))), Tensor.WFfrom 1 (pdfT shs ws) := by
  intro shs
  induction shs with
  | nil => intro ws; cases ws <;> trivial
  | cons sh shs ih =>
    intro ws
    cases ws with
    | nil => exact ⟨rfl, trivial, ih []⟩
    | cons w ws =>
      cases w with
      | none => exact ⟨rfl, trivial, ih ws⟩
      | some q => obtain ⟨len, w⟩ := q; exact ⟨rfl, trivial, ih ws⟩

theorem sdual_WF_pdfT (shs : List Nat) (ws : List (Option (Nat × (Nat → R)))) (hne : shs ≠ []) : (pdfT shs ws).WF := by
  cases shs with
  | nil => exact absurd rfl hne
  | cons sh shs =>
    have := sdual_WFfrom_pdfT (sh :: shs) ws
    cases ws with
    | nil => exact this
    | cons w ws =>
      cases w with
      | none => exact this
      | some q => obtain ⟨len, w⟩ := q; exact this

theorem sdual_shape_pdfT : ∀ (shs : List Nat) (ws : List (Option (Nat × (Nat → R)))), sdual_margsFit shs ws →
    (pdfT shs ws).shape = shs := by
  intro shs
  induction shs with
  | nil => intro ws _; cases ws <;> rfl
  | cons sh shs ih =>
    intro ws h
    cases ws with
    | nil =>
      have := ih [] (by cases shs <;> trivial)
      simp only [Tensor.shape] at this
      simp [pdfT, pdfMode, Tensor.shape, TMode.n, this]
    | cons w ws =>
      cases w with
      | none =>
        have := ih ws h
        simp only [Tensor.shape] at this
        simp [pdfT, pdfMode, Tensor.shape, TMode.n, this]
      | some q =>
        obtain ⟨len, w⟩ := q
        obtain ⟨h1, h2⟩ := h
        have := ih ws h2
        simp only [Tensor.shape] at this
        simp [pdfT, pdfMode, Tensor.shape, TMode.n, this, h1]

theorem sdual_tail_pdfT : ∀ (shs : List Nat) (ws : List (Option (Nat × (Nat → R)))) (js : List Nat), js.length = shs.length →
    tail (pdfT shs ws).modes js 0 = sdual_margW ws js := by
  intro shs
  induction shs with
  | nil => intro ws js h; cases ws <;> cases js <;> simp_all [pdfT, Tensor.modes, tail, sdual_margW]
  | cons sh shs ih =>
    intro ws js h
    cases js with
    | nil => simp at h
    | cons j js =>
      have h' : js.length = shs.length := by simpa using h
      cases ws with
      | nil =>
        have := ih [] js h'
        simp only [Tensor.modes] at this
        simp [pdfT, pdfMode, Tensor.modes, tail, sumTo_eq, TMode.toMode_G, this, sdual_margW]
      | cons w ws =>
        have := ih ws js h'
        simp only [Tensor.modes] at this
        cases w with
        | none => simp [pdfT, pdfMode, Tensor.modes, tail, sumTo_eq, TMode.toMode_G, this, sdual_margW]
        | some q =>
          obtain ⟨len, w⟩ := q
          simp [pdfT, pdfMode, Tensor.modes, tail, sumTo_eq, TMode.toMode_G, this, sdual_margW, normW]

theorem sdual_dense_pdfT (shs : List Nat) (ws : List (Option (Nat × (Nat → R)))) (js : List Nat) (hne : shs ≠ [])
    (h : js.length = shs.length) : dense (pdfT shs ws).modes js = sdual_margW ws js := by
  have ht := sdual_tail_pdfT shs ws js h
  cases shs with
  | nil => exact absurd rfl hne
  | cons sh shs =>
    cases ws with
    | nil => simpa [pdfT, pdfMode, Tensor.modes, dense, sumTo_eq] using ht
    | cons w ws =>
      cases w with
      | none => simpa [pdfT, pdfMode, Tensor.modes, dense, sumTo_eq] using ht
      | some q => obtain ⟨len, w⟩ := q; simpa [pdfT, pdfMode, Tensor.modes, dense, sumTo_eq] using ht

/-- the `pdf` of `tn.var(t, marginals)` is the `pdf` of `tn.mean` when every mode has a marginal -/
theorem sdual_pdfT_all : ∀ (shs : List Nat) (margs : List (Nat × (Nat → R))), margs.length = shs.length →
    pdfT shs (margs.map some) = margs.map fun p => pdfMode 0 (some p) := by
  intro shs
  induction shs with
  | nil => intro margs h; cases margs with
    | nil => rfl
    | cons _ _ => simp at h
  | cons sh shs ih =>
    intro margs h
    cases margs with
    | nil => simp at h
    | cons p ps =>
      obtain ⟨len, w⟩ := p
      simp only [List.map_cons, pdfT, pdfMode, List.cons.injEq, true_and]
      exact ih ps (by simpa using h)

end natdiv

/-! ### dual numbers over a field -/
namespace Dual
variable {K : Type} [Field K]

/-- the division of Model/Dual.lean, spelled out (quotient rule) -/
theorem sdual_div_def (x y : Dual K) : x / y = ⟨x.v / y.v, (x.d * y.v - x.v * y.d) / (y.v * y.v)⟩ := rfl

@[simp] theorem sdual_natCast_v (n : Nat) : ((n : Nat) : Dual K).v = (n : K) := by
  induction n with
  | zero => simp
  | succ n ih => rw [Nat.cast_succ, add_v, ih, one_v, Nat.cast_succ]

@[simp] theorem sdual_natCast_d (n : Nat) : ((n : Nat) : Dual K).d = 0 := by
  induction n with
  | zero => simp
  | succ n ih => rw [Nat.cast_succ, add_d, ih, one_d, add_zero]

/-- a natural number is a constant: no tangent -/
theorem sdual_natCast_eq (n : Nat) : ((n : Nat) : Dual K) = Dual.const (n : K) := by
  ext <;> simp [Dual.const]

/-- **dividing a dual number by a natural number divides the value and the tangent** (also for `n = 0`, where
    Lean's `x / 0 = 0` applies to both components) -/
theorem sdual_div_nat (x : Dual K) (n : Nat) : x / (n : Dual K) = ⟨x.v / (n : K), x.d / (n : K)⟩ := by
  rw [sdual_div_def]
  ext
  · simp
  · simp only [sdual_natCast_v, sdual_natCast_d, mul_zero, sub_zero]
    by_cases h : (n : K) = 0
    · simp [h]
    · field_simp

theorem sdual_div_nat_v (x : Dual K) (n : Nat) : (x / (n : Dual K)).v = x.v / (n : K) := by rw [sdual_div_nat]
theorem sdual_div_nat_d (x : Dual K) (n : Nat) : (x / (n : Dual K)).d = x.d / (n : K) := by rw [sdual_div_nat]

/-- the reciprocal of a natural number is the constant `1/n` -/
theorem sdual_one_div_nat (n : Nat) : (1 : Dual K) / (n : Dual K) = Dual.const (1 / (n : K)) := by
  rw [sdual_div_nat]; ext <;> simp [Dual.const]

/-- dual numbers over a field, **with the quotient-rule division of Model/Dual.lean**, satisfy the laws the
    un-weighted statistics use -/
theorem sdual_natDivLaws : sdual_NatDivLaws (Dual K) where
  div_nat x n := by
    rw [sdual_one_div_nat, sdual_div_nat]
    ext <;> simp [Dual.const, div_eq_mul_inv]
  one_div_mul n m := by
    rw [sdual_one_div_nat, sdual_one_div_nat, sdual_one_div_nat]
    ext <;> simp [Dual.const, Nat.cast_mul, mul_comm]
  one_div_one := by
    rw [sdual_one_div_nat]; ext <;> simp [Dual.const]

end Dual

/-! ### sums of dual numbers are taken componentwise (any commutative ring) -/
namespace Dual
section sums
variable {S : Type} [CommRing S]

theorem sdual_sumTo_v (n : Nat) (g : Nat → Dual S) : (sumTo n g).v = sumTo n (fun i => (g i).v) := by
  induction n with
  | zero => rfl
  | succ n ih => simp only [sumTo, add_v, ih]

theorem sdual_sumTo_d (n : Nat) (g : Nat → Dual S) : (sumTo n g).d = sumTo n (fun i => (g i).d) := by
  induction n with
  | zero => rfl
  | succ n ih => simp only [sumTo, add_d, ih]

theorem sdual_finsum_v (n : Nat) (g : Nat → Dual S) : (∑ i ∈ range n, g i).v = ∑ i ∈ range n, (g i).v := by
  rw [← sumTo_eq, sdual_sumTo_v, sumTo_eq]

theorem sdual_finsum_d (n : Nat) (g : Nat → Dual S) : (∑ i ∈ range n, g i).d = ∑ i ∈ range n, (g i).d := by
  rw [← sumTo_eq, sdual_sumTo_d, sumTo_eq]

/-- the value of a sum over the index box is the sum of the values -/
theorem sdual_boxSum_v : ∀ (ns : List Nat) (f : List Nat → Dual S), (boxSum ns f).v = boxSum ns (fun is => (f is).v) := by
  intro ns
  induction ns with
  | nil => intro f; rfl
  | cons n ns ih =>
    intro f
    simp only [boxSum, sdual_sumTo_v]
    congr 1; funext i; exact ih _

/-- **the tangent of a sum over the index box is the sum of the tangents** -/
theorem sdual_boxSum_d : ∀ (ns : List Nat) (f : List Nat → Dual S), (boxSum ns f).d = boxSum ns (fun is => (f is).d) := by
  intro ns
  induction ns with
  | nil => intro f; rfl
  | cons n ns ih =>
    intro f
    simp only [boxSum, sdual_sumTo_d]
    congr 1; funext i; exact ih _

theorem sdual_sumOver_v : ∀ (dims : List Bool) (ns : List Nat) (f : List Nat → Dual S) (is : List Nat),
    (sumOver dims ns f is).v = sumOver dims ns (fun js => (f js).v) is := by
  intro dims
  induction dims with
  | nil => intro ns f is; simp [sumOver]
  | cons b ds ih =>
    intro ns f is
    cases ns with
    | nil => cases b <;> simp [sumOver]
    | cons n ns =>
      cases is with
      | nil => cases b <;> simp [sumOver]
      | cons i is =>
        cases b with
        | false => simp only [sumOver]; exact ih ns _ is
        | true =>
          simp only [sumOver, sdual_finsum_v]
          apply Finset.sum_congr rfl; intro j _
          exact ih ns _ is

/-- the tangent of a sum over a subset of the modes is the sum of the tangents over those modes -/
theorem sdual_sumOver_d : ∀ (dims : List Bool) (ns : List Nat) (f : List Nat → Dual S) (is : List Nat),
    (sumOver dims ns f is).d = sumOver dims ns (fun js => (f js).d) is := by
  intro dims
  induction dims with
  | nil => intro ns f is; simp [sumOver]
  | cons b ds ih =>
    intro ns f is
    cases ns with
    | nil => cases b <;> simp [sumOver]
    | cons n ns =>
      cases is with
      | nil => cases b <;> simp [sumOver]
      | cons i is =>
        cases b with
        | false => simp only [sumOver]; exact ih ns _ is
        | true =>
          simp only [sumOver, sdual_finsum_d]
          apply Finset.sum_congr rfl; intro j _
          exact ih ns _ is

end sums
end Dual

/-! ### marginal vectors that are constants (no tangent): the usual case -/
namespace Dual
section constmarg
variable {K : Type} [Field K]

theorem sdual_const_mul (a b : K) : (Dual.const a : Dual K) * Dual.const b = Dual.const (a * b) := by
  ext <;> simp [Dual.const]

theorem sdual_const_div (a b : K) : (Dual.const a : Dual K) / Dual.const b = Dual.const (a / b) := by
  rw [sdual_div_def]; ext <;> simp [Dual.const]

theorem sdual_const_finsum (n : Nat) (w : Nat → K) : (∑ k ∈ range n, (Dual.const (w k) : Dual K)) = Dual.const (∑ k ∈ range n, w k) := by
  ext
  · rw [sdual_finsum_v]; rfl
  · rw [sdual_finsum_d]; simp [Dual.const]

/-- marginal vectors given as plain numbers, read as dual numbers without tangent -/
def sdual_constMargs (margs : List (Option (Nat × (Nat → K)))) : List (Option (Nat × (Nat → Dual K))) :=
  margs.map (Option.map fun p => (p.1, fun i => Dual.const (p.2 i)))

/-- the normalised weights of constant marginals are the constants `margW` (Lemmas/Stats.lean) -/
theorem sdual_margW_const : ∀ (margs : List (Option (Nat × (Nat → K)))) (js : List Nat),
    sdual_margW (sdual_constMargs margs) js = Dual.const (margW margs js) := by
  intro margs
  induction margs with
  | nil => intro js; cases js <;> (ext <;> simp [sdual_constMargs, sdual_margW, margW, Dual.const])
  | cons w ws ih =>
    intro js
    cases js with
    | nil => cases w <;> (ext <;> simp [sdual_constMargs, sdual_margW, margW, Dual.const])
    | cons j js =>
      have ih' := ih js
      simp only [sdual_constMargs] at ih'
      cases w with
      | none => simpa [sdual_constMargs, sdual_margW, margW] using ih'
      | some q =>
        obtain ⟨len, w⟩ := q
        simp only [sdual_constMargs, List.map_cons, Option.map_some, sdual_margW, margW, ih']
        rw [sdual_const_finsum, sdual_const_div, sdual_const_mul]

theorem sdual_margsFit_const : ∀ (shs : List Nat) (margs : List (Option (Nat × (Nat → K)))),
    margsFit shs margs → sdual_margsFit shs (sdual_constMargs margs) := by
  intro shs
  induction shs with
  | nil => intro margs _; cases margs <;> simp [sdual_constMargs, sdual_margsFit]
  | cons sh shs ih =>
    intro margs h
    cases margs with
    | nil => simp [sdual_constMargs, sdual_margsFit]
    | cons w ws =>
      cases w with
      | none => exact ih ws h
      | some q => obtain ⟨len, w⟩ := q; exact ⟨h.1, ih ws h.2⟩

theorem sdual_constMargs_some (margs : List (Nat × (Nat → K))) :
    sdual_constMargs (margs.map some) = (margs.map fun p => ((p.1, fun i => Dual.const (p.2 i)) : Nat × (Nat → Dual K))).map some := by
  simp [sdual_constMargs, List.map_map, Function.comp_def]

end constmarg
end Dual

/-- a smooth scalar head (`sqrt(clamp(·, 0))` in `tn.norm`, `tn.dist`, `tn.std`) with derivative function `f'`,
    applied to a dual number: the chain rule `f(v + dε) = f(v) + f'(v)·d ε` -/
def Dual.sdual_head {S : Type} [Mul S] (f f' : S → S) (x : Dual S) : Dual S := ⟨f x.v, f' x.v * x.d⟩

end TN
