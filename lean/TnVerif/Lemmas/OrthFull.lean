import TnVerif.Lemmas.Ortho
import TnVerif.Lemmas.OrthSweep
import TnVerif.Lemmas.AcceptedTT
import TnVerif.Model.OrthFull
/-! The general `orthogonalize(mu)` on TT-Tucker chains: step lemmas with Tucker factors present, the two sweeps,
    the gauge they establish (cores AND factors). -/
set_option linter.unusedSectionVars false
set_option linter.unusedVariables false
set_option linter.unusedSimpArgs false
open Finset
namespace TN
variable {R : Type} [CommSemiring R]

/-! ### kernel contracts -/

/-- `QᵀQ = I` (orthonormal columns) -/
def orthfull_QtQ (q : Mat R) : Prop :=
  ∀ d, d < q.cols → ∀ d', d' < q.cols → (∑ i ∈ range q.rows, q.f i d * q.f i d') = if d = d' then 1 else 0

/-- `QQᵀ = I` (orthonormal rows) -/
def orthfull_QQt (q : Mat R) : Prop :=
  ∀ d, d < q.rows → ∀ d', d' < q.rows → (∑ c ∈ range q.cols, q.f d c * q.f d' c) = if d = d' then 1 else 0

/-- contract of the QR inside `factor_orthogonalize`: a QR was recorded iff the mode has a factor `U` (`I × S`, `S` the
    core's spatial size), and then `Q_U · R_U = U` with matching dimensions -/
def orthfull_facOK (A : OrthAns R) (m : TMode R) : Prop :=
  match A.fac, m.U with
  | some (q, r), some U => q.rows = U.rows ∧ q.cols = r.rows ∧ r.cols = U.cols ∧ U.cols = m.core.spatial ∧
      ∀ i, i < U.rows → ∀ j, j < U.cols → U.f i j = ∑ c ∈ range q.cols, q.f i c * r.f c j
  | Option.none, Option.none => True
  | _, _ => False

/-- contract of one `left_orthogonalize`: factor contract, both cores are TT cores, and `Q·R =` left unfolding of the
    core as it is after the factor step -/
def orthfull_leftOK (A : OrthAns R) (m n : TMode R) : Prop :=
  orthfull_facOK A m ∧
  match (A.facStep m).core, n.core with
  | .tt r0 s r1 f, .tt _ _ _ _ => A.Q.rows = r0 * s ∧ A.Q.cols = A.Rm.rows ∧ A.Rm.cols = r1 ∧
      ∀ a, a < r0 → ∀ i, i < s → ∀ b, b < r1 → f a i b = ∑ c ∈ range A.Q.cols, A.Q.f (a * s + i) c * A.Rm.f c b
  | _, _ => False

/-- contract of one `right_orthogonalize` on (mode `i-1` = `p`, mode `i` = `m`): `L·Q =` right unfolding of the core
    after the factor step (`Q` is `k × s·r1`, `L` is `r0 × k`), and the bond between the two cores matches -/
def orthfull_rightOK (A : OrthAns R) (p m : TMode R) : Prop :=
  orthfull_facOK A m ∧
  match p.core, (A.facStep m).core with
  | .tt _ _ r1' _, .tt r0 s r1 f => r1' = r0 ∧ A.Q.cols = s * r1 ∧ A.Rm.cols = A.Q.rows ∧ A.Rm.rows = r0 ∧
      ∀ a, a < r0 → ∀ i, i < s → ∀ b, b < r1 → f a i b = ∑ c ∈ range A.Rm.cols, A.Rm.f a c * A.Q.f c (i * r1 + b)
  | _, _ => False

/-- every left step's answers meet their contract for the cores they were computed from (the chain evolves) -/
def orthfull_okL : List (OrthAns R) → Tensor R → Prop
  | A :: as, m :: n :: rest => orthfull_leftOK A m n ∧ orthfull_okL as ((orthLeftStep A m n).2 :: rest)
  | _, _ => True

/-- the same for the right steps (answers by position; the step at `p` sees mode `m` as the later steps left it) -/
def orthfull_okR : List (OrthAns R) → Tensor R → Prop
  | A :: as, p :: m :: rest => orthfull_okR as (m :: rest) ∧ ∀ m' ∈ (orthRightPart as (m :: rest)).head?, orthfull_rightOK A p m'
  | _, _ => True

/-! ### single modes -/

theorem orthfull_G_some (c : Core R) (U : Fac R) (i a b : Nat) :
    (TMode.mk c (some U)).toMode.G i a b = ∑ j ∈ range c.spatial, U.f i j * c.get a j b := by
  simp only [TMode.toMode_G, TMode.decomp_some, Fac.apply_get]

/-- a matrix split off to the right of a core survives the Tucker factor -/
theorem orthfull_lift_r (U : Option (Fac R)) (c c' : Core R) (K : Nat) (M : Nat → Nat → R) (i a b : Nat)
    (hs : c'.spatial = c.spatial) (hi : i < (TMode.mk c U).n)
    (h : ∀ j, j < c.spatial → c.get a j b = ∑ k ∈ range K, c'.get a j k * M k b) :
    (TMode.mk c U).toMode.G i a b = ∑ k ∈ range K, (TMode.mk c' U).toMode.G i a k * M k b := by
  cases U with
  | none => exact h i hi
  | some U =>
    simp only [orthfull_G_some, hs]
    rw [Finset.sum_congr rfl (fun j hj => by rw [h j (Finset.mem_range.mp hj), Finset.mul_sum])]
    rw [Finset.sum_comm]
    apply Finset.sum_congr rfl; intro k _
    rw [Finset.sum_mul]
    apply Finset.sum_congr rfl; intro j _; ring

/-- a matrix split off to the left of a core survives the Tucker factor -/
theorem orthfull_lift_l (U : Option (Fac R)) (c c' : Core R) (K : Nat) (M : Nat → Nat → R) (i a b : Nat)
    (hs : c'.spatial = c.spatial) (hi : i < (TMode.mk c U).n)
    (h : ∀ j, j < c.spatial → c.get a j b = ∑ k ∈ range K, M a k * c'.get k j b) :
    (TMode.mk c U).toMode.G i a b = ∑ k ∈ range K, M a k * (TMode.mk c' U).toMode.G i k b := by
  cases U with
  | none => exact h i hi
  | some U =>
    simp only [orthfull_G_some, hs]
    rw [Finset.sum_congr rfl (fun j hj => by rw [h j (Finset.mem_range.mp hj), Finset.mul_sum])]
    rw [Finset.sum_comm]
    apply Finset.sum_congr rfl; intro k _
    rw [Finset.mul_sum]
    apply Finset.sum_congr rfl; intro j _; ring

/-! ### the factor step -/

theorem orthfull_facStep_rl (A : OrthAns R) (m : TMode R) : (A.facStep m).core.rl = m.core.rl := by
  obtain ⟨fac, Q, Rm⟩ := A; obtain ⟨c, U⟩ := m
  cases fac <;> cases U <;> simp [OrthAns.facStep, TMode.factorOrth]

theorem orthfull_facStep_rr (A : OrthAns R) (m : TMode R) : (A.facStep m).core.rr = m.core.rr := by
  obtain ⟨fac, Q, Rm⟩ := A; obtain ⟨c, U⟩ := m
  cases fac <;> cases U <;> simp [OrthAns.facStep, TMode.factorOrth]

theorem orthfull_facStep_n (A : OrthAns R) (m : TMode R) (h : orthfull_facOK A m) : (A.facStep m).n = m.n := by
  obtain ⟨fac, Q, Rm⟩ := A; obtain ⟨c, U⟩ := m
  cases fac <;> cases U <;> simp_all [OrthAns.facStep, TMode.factorOrth, orthfull_facOK, TMode.n]

/-- `factor_orthogonalize` does not change the semantic mode: `U = Q_U R_U`, `Q_U` stays, `R_U` goes into the core -/
theorem orthfull_facStep_G (A : OrthAns R) (m : TMode R) (h : orthfull_facOK A m) (i a b : Nat) (hi : i < m.n) :
    (A.facStep m).toMode.G i a b = m.toMode.G i a b := by
  obtain ⟨fac, Q, Rm⟩ := A; obtain ⟨c, U⟩ := m
  cases fac with
  | none => rfl
  | some qr =>
    obtain ⟨q, r⟩ := qr
    cases U with
    | none => rfl
    | some U =>
      obtain ⟨h1, h2, h3, h4, h5⟩ := h
      simp only [OrthAns.facStep, TMode.factorOrth, orthfull_G_some, Core.lin_get, Core.lin_spatial]
      simp only [TMode.n_some] at hi
      have : ∀ j ∈ range c.spatial, U.f i j * c.get a j b = ∑ k ∈ range q.cols, q.f i k * (r.f k j * c.get a j b) := by
        intro j hj
        rw [h5 i hi j (by rw [h4]; exact Finset.mem_range.mp hj), Finset.sum_mul]
        apply Finset.sum_congr rfl; intro k _; ring
      rw [Finset.sum_congr rfl this, Finset.sum_comm, h2]
      apply Finset.sum_congr rfl; intro k _
      rw [Finset.mul_sum]

theorem orthfull_tail_head_congr (x y : Mode R) (rest : List (Mode R)) (i : Nat) (is : List Nat) (a : Nat) (hrr : x.rr = y.rr)
    (h : ∀ b, x.G i a b = y.G i a b) : tail (x :: rest) (i :: is) a = tail (y :: rest) (i :: is) a := by
  simp only [tail, hrr, h]

/-! ### pair steps with factors present -/

theorem orthfull_leftPair_tail (Q Rm : Mat R) (r0 s r1 r0' s' r1' : Nat) (f g : Nat → Nat → Nat → R) (U1 U2 : Option (Fac R))
    (rest : List (Mode R)) (hRc : Rm.cols = r1)
    (hQR : ∀ a, a < r0 → ∀ i, i < s → ∀ b, b < r1 → f a i b = ∑ c ∈ range Q.cols, Q.f (a * s + i) c * Rm.f c b)
    (i j : Nat) (is : List Nat) (a : Nat) (ha : a < r0) (hi : i < (TMode.mk (.tt r0 s r1 f) U1).n)
    (hj : j < (TMode.mk (.tt r0' s' r1' g) U2).n) :
    tail ((leftOrthPair Q Rm ⟨.tt r0 s r1 f, U1⟩ ⟨.tt r0' s' r1' g, U2⟩).1.toMode ::
          (leftOrthPair Q Rm ⟨.tt r0 s r1 f, U1⟩ ⟨.tt r0' s' r1' g, U2⟩).2.toMode :: rest) (i :: j :: is) a =
    tail ((TMode.mk (.tt r0 s r1 f) U1).toMode :: (TMode.mk (.tt r0' s' r1' g) U2).toMode :: rest) (i :: j :: is) a := by
  apply tail_bond _ _ _ _ Rm.f rest i j is a
  · rfl
  · intro b hb
    exact orthfull_lift_r U1 (.tt r0 s r1 f) (.tt r0 s Q.cols (fun a i b => Q.f (a * s + i) b)) Q.cols Rm.f i a b rfl hi
      (fun l hl => hQR a ha l hl b hb)
  · intro c b _ _
    exact orthfull_lift_l U2 (.tt Rm.rows s' r1' (fun a j b => sumTo Rm.cols fun c => Rm.f a c * g c j b)) (.tt r0' s' r1' g) r1 Rm.f j c b rfl hj
      (fun l _ => by simp only [Core.tt_get, sumTo_eq, hRc])

theorem orthfull_rightPair_tail (Q L : Mat R) (r0' s' r0 s r1 : Nat) (g f : Nat → Nat → Nat → R) (U1 U2 : Option (Fac R))
    (rest : List (Mode R)) (hLr : L.rows = r0)
    (hLQ : ∀ a, a < r0 → ∀ i, i < s → ∀ b, b < r1 → f a i b = ∑ c ∈ range L.cols, L.f a c * Q.f c (i * r1 + b))
    (j i : Nat) (is : List Nat) (a : Nat) (hj : j < (TMode.mk (.tt r0' s' r0 g) U1).n)
    (hi : i < (TMode.mk (.tt r0 s r1 f) U2).n) :
    tail ((rightOrthPair Q L ⟨.tt r0' s' r0 g, U1⟩ ⟨.tt r0 s r1 f, U2⟩).1.toMode ::
          (rightOrthPair Q L ⟨.tt r0' s' r0 g, U1⟩ ⟨.tt r0 s r1 f, U2⟩).2.toMode :: rest) (j :: i :: is) a =
    tail ((TMode.mk (.tt r0' s' r0 g) U1).toMode :: (TMode.mk (.tt r0 s r1 f) U2).toMode :: rest) (j :: i :: is) a := by
  symm
  apply tail_bond _ _ _ _ L.f rest j i is a
  · rfl
  · intro b _
    exact orthfull_lift_r U1 (.tt r0' s' L.cols (fun a j b => sumTo L.rows fun c => g a j c * L.f c b)) (.tt r0' s' r0 g) r0 L.f j a b rfl hj
      (fun l _ => by simp only [Core.tt_get, sumTo_eq, hLr])
  · intro c b hc hb
    exact orthfull_lift_l U2 (.tt r0 s r1 f) (.tt Q.rows s r1 (fun a i b => Q.f a (i * r1 + b))) L.cols L.f i c b rfl hi
      (fun l hl => hLQ c hc l hl b hb)


/-! ### explicit form of the two steps under their contracts -/

theorem orthfull_leftStep_form (A : OrthAns R) (m n : TMode R) (h : orthfull_leftOK A m n) :
    ∃ r0 s r1 f U1 r0' s' r1' g U2, A.facStep m = ⟨.tt r0 s r1 f, U1⟩ ∧ n = ⟨.tt r0' s' r1' g, U2⟩ ∧
      A.Q.rows = r0 * s ∧ A.Q.cols = A.Rm.rows ∧ A.Rm.cols = r1 ∧
      (∀ a, a < r0 → ∀ i, i < s → ∀ b, b < r1 → f a i b = ∑ c ∈ range A.Q.cols, A.Q.f (a * s + i) c * A.Rm.f c b) ∧
      orthLeftStep A m n = (⟨.tt r0 s A.Q.cols (fun a i b => A.Q.f (a * s + i) b), U1⟩,
                            ⟨.tt A.Rm.rows s' r1' (fun a j b => sumTo A.Rm.cols fun c => A.Rm.f a c * g c j b), U2⟩) := by
  obtain ⟨hf, hc⟩ := h
  unfold orthLeftStep
  generalize A.facStep m = m1 at hc ⊢
  obtain ⟨c1, U1⟩ := m1; obtain ⟨c2, U2⟩ := n
  cases c1 with
  | cp => simp at hc
  | tt r0 s r1 f =>
    cases c2 with
    | cp => simp at hc
    | tt r0' s' r1' g =>
      obtain ⟨h1, h2, h3, h4⟩ := hc
      exact ⟨r0, s, r1, f, U1, r0', s', r1', g, U2, rfl, rfl, h1, h2, h3, h4, rfl⟩

theorem orthfull_rightStep_form (A : OrthAns R) (p m : TMode R) (h : orthfull_rightOK A p m) :
    ∃ r0' s' g U1 r0 s r1 f U2, p = ⟨.tt r0' s' r0 g, U1⟩ ∧ A.facStep m = ⟨.tt r0 s r1 f, U2⟩ ∧
      A.Q.cols = s * r1 ∧ A.Rm.cols = A.Q.rows ∧ A.Rm.rows = r0 ∧
      (∀ a, a < r0 → ∀ i, i < s → ∀ b, b < r1 → f a i b = ∑ c ∈ range A.Rm.cols, A.Rm.f a c * A.Q.f c (i * r1 + b)) ∧
      orthRightStep A p m = (⟨.tt r0' s' A.Rm.cols (fun a j b => sumTo A.Rm.rows fun c => g a j c * A.Rm.f c b), U1⟩,
                             ⟨.tt A.Q.rows s r1 (fun a i b => A.Q.f a (i * r1 + b)), U2⟩) := by
  obtain ⟨hf, hc⟩ := h
  unfold orthRightStep
  generalize A.facStep m = m1 at hc ⊢
  obtain ⟨c1, U1⟩ := p; obtain ⟨c2, U2⟩ := m1
  cases c1 with
  | cp => simp at hc
  | tt r0' s' r1' g =>
    cases c2 with
    | cp => simp at hc
    | tt r0 s r1 f =>
      obtain ⟨h0, h1, h2, h3, h4⟩ := hc
      subst h0
      exact ⟨r0', s', g, U1, _, s, r1, f, U2, rfl, rfl, h1, h2, h3, h4, rfl⟩

/-- one `left_orthogonalize` (factor step + core step) leaves every tail unchanged -/
theorem orthfull_leftStep_tail (A : OrthAns R) (m n : TMode R) (rest : List (Mode R)) (h : orthfull_leftOK A m n)
    (i j : Nat) (is : List Nat) (a : Nat) (ha : a < m.core.rl) (hi : i < m.n) (hj : j < n.n) :
    tail ((orthLeftStep A m n).1.toMode :: (orthLeftStep A m n).2.toMode :: rest) (i :: j :: is) a =
    tail (m.toMode :: n.toMode :: rest) (i :: j :: is) a := by
  have hf := h.1
  have e1 : tail (m.toMode :: n.toMode :: rest) (i :: j :: is) a = tail ((A.facStep m).toMode :: n.toMode :: rest) (i :: j :: is) a := by
    simp only [tail, TMode.toMode_rr, orthfull_facStep_rr, fun b c => orthfull_facStep_G A m hf i b c hi]
  have hrl := orthfull_facStep_rl A m
  have hn := orthfull_facStep_n A m hf
  obtain ⟨r0, s, r1, f, U1, r0', s', r1', g, U2, em, en, h1, h2, h3, h4, e⟩ := orthfull_leftStep_form A m n h
  rw [e1, em, e]
  rw [em] at hrl hn
  rw [← hrl] at ha; rw [← hn] at hi
  subst en
  exact orthfull_leftPair_tail A.Q A.Rm r0 s r1 r0' s' r1' f g U1 U2 rest h3 h4 i j is a ha hi hj

/-- one `right_orthogonalize` leaves every tail unchanged -/
theorem orthfull_rightStep_tail (A : OrthAns R) (p m : TMode R) (rest : List (Mode R)) (h : orthfull_rightOK A p m)
    (j i : Nat) (is : List Nat) (a : Nat) (hj : j < p.n) (hi : i < m.n) :
    tail ((orthRightStep A p m).1.toMode :: (orthRightStep A p m).2.toMode :: rest) (j :: i :: is) a =
    tail (p.toMode :: m.toMode :: rest) (j :: i :: is) a := by
  have hf := h.1
  have e1 : tail (p.toMode :: m.toMode :: rest) (j :: i :: is) a = tail (p.toMode :: (A.facStep m).toMode :: rest) (j :: i :: is) a := by
    simp only [tail, TMode.toMode_rr, orthfull_facStep_rr, fun b c => orthfull_facStep_G A m hf i b c hi]
  have hn := orthfull_facStep_n A m hf
  obtain ⟨r0', s', g, U1, r0, s, r1, f, U2, ep, em, h1, h2, h3, h4, e⟩ := orthfull_rightStep_form A p m h
  rw [e1, em, e]
  rw [em] at hn
  rw [← hn] at hi
  subst ep
  exact orthfull_rightPair_tail A.Q A.Rm r0' s' r0 s r1 g f U1 U2 rest h3 h4 j i is a hj hi

/-! ### shapes and bonds along the sweeps -/

theorem orthfull_leftStep_n1 (A : OrthAns R) (m n : TMode R) (h : orthfull_leftOK A m n) : (orthLeftStep A m n).1.n = m.n := by
  have hn := orthfull_facStep_n A m h.1
  obtain ⟨r0, s, r1, f, U1, r0', s', r1', g, U2, em, en, h1, h2, h3, h4, e⟩ := orthfull_leftStep_form A m n h
  rw [e, ← hn, em]; cases U1 <;> rfl

theorem orthfull_leftStep_n2 (A : OrthAns R) (m n : TMode R) (h : orthfull_leftOK A m n) : (orthLeftStep A m n).2.n = n.n := by
  obtain ⟨r0, s, r1, f, U1, r0', s', r1', g, U2, em, en, h1, h2, h3, h4, e⟩ := orthfull_leftStep_form A m n h
  rw [e, en]; cases U2 <;> rfl

theorem orthfull_leftStep_rl1 (A : OrthAns R) (m n : TMode R) (h : orthfull_leftOK A m n) : (orthLeftStep A m n).1.core.rl = m.core.rl := by
  have hrl := orthfull_facStep_rl A m
  obtain ⟨r0, s, r1, f, U1, r0', s', r1', g, U2, em, en, h1, h2, h3, h4, e⟩ := orthfull_leftStep_form A m n h
  rw [e, ← hrl, em]; rfl

theorem orthfull_leftStep_bond (A : OrthAns R) (m n : TMode R) (h : orthfull_leftOK A m n) :
    (orthLeftStep A m n).1.core.rr = (orthLeftStep A m n).2.core.rl := by
  obtain ⟨r0, s, r1, f, U1, r0', s', r1', g, U2, em, en, h1, h2, h3, h4, e⟩ := orthfull_leftStep_form A m n h
  rw [e]; exact h2

theorem orthfull_rightStep_n1 (A : OrthAns R) (p m : TMode R) (h : orthfull_rightOK A p m) : (orthRightStep A p m).1.n = p.n := by
  obtain ⟨r0', s', g, U1, r0, s, r1, f, U2, ep, em, h1, h2, h3, h4, e⟩ := orthfull_rightStep_form A p m h
  rw [e, ep]; cases U1 <;> rfl

theorem orthfull_rightStep_n2 (A : OrthAns R) (p m : TMode R) (h : orthfull_rightOK A p m) : (orthRightStep A p m).2.n = m.n := by
  have hn := orthfull_facStep_n A m h.1
  obtain ⟨r0', s', g, U1, r0, s, r1, f, U2, ep, em, h1, h2, h3, h4, e⟩ := orthfull_rightStep_form A p m h
  rw [e, ← hn, em]; cases U2 <;> rfl

theorem orthfull_rightStep_rl1 (A : OrthAns R) (p m : TMode R) (h : orthfull_rightOK A p m) : (orthRightStep A p m).1.core.rl = p.core.rl := by
  obtain ⟨r0', s', g, U1, r0, s, r1, f, U2, ep, em, h1, h2, h3, h4, e⟩ := orthfull_rightStep_form A p m h
  rw [e, ep]; rfl

theorem orthLeftPart_nil (t : Tensor R) : orthLeftPart [] t = t := by
  cases t with
  | nil => rfl
  | cons m t => cases t <;> rfl

theorem orthRightPart_nil (t : Tensor R) : orthRightPart [] t = t := by
  cases t with
  | nil => rfl
  | cons m t => cases t <;> rfl

theorem orthLeftPart_shape : ∀ (as : List (OrthAns R)) (t : Tensor R), orthfull_okL as t → (orthLeftPart as t).shape = t.shape := by
  intro as
  induction as with
  | nil => intro t _; rw [orthLeftPart_nil]
  | cons A as ih =>
    intro t hok
    match t, hok with
    | [], _ => rfl
    | [_], _ => rfl
    | m :: n :: rest, ⟨hst, hok'⟩ =>
      have := ih _ hok'
      simp only [orthLeftPart, Tensor.shape, List.map_cons] at this ⊢
      rw [this, orthfull_leftStep_n1 A m n hst, orthfull_leftStep_n2 A m n hst]

theorem orthLeftPart_head_rl : ∀ (as : List (OrthAns R)) (t : Tensor R), orthfull_okL as t →
    (orthLeftPart as t).head?.map (·.core.rl) = t.head?.map (·.core.rl) := by
  intro as t hok
  match as, t, hok with
  | [], t, _ => rw [orthLeftPart_nil]
  | _ :: _, [], _ => rfl
  | _ :: _, [_], _ => rfl
  | A :: as, m :: n :: rest, ⟨hst, _⟩ => simp [orthLeftPart, orthfull_leftStep_rl1 A m n hst]

theorem orthRightPart_shape : ∀ (as : List (OrthAns R)) (t : Tensor R), orthfull_okR as t → (orthRightPart as t).shape = t.shape := by
  intro as
  induction as with
  | nil => intro t _; rw [orthRightPart_nil]
  | cons A as ih =>
    intro t hok
    match t, hok with
    | [], _ => rfl
    | [_], _ => rfl
    | p :: m :: rest, ⟨hok', hst⟩ =>
      have := ih _ hok'
      simp only [orthRightPart]
      cases hrp : orthRightPart as (m :: rest) with
      | nil => rw [hrp] at this; simp [Tensor.shape] at this
      | cons m' rest' =>
        rw [hrp] at this hst
        have hs := hst m' (by simp)
        simp only [Tensor.shape, List.map_cons, List.cons.injEq] at this ⊢
        rw [orthfull_rightStep_n1 A p m' hs, orthfull_rightStep_n2 A p m' hs]
        exact ⟨rfl, this.1, this.2⟩

theorem orthRightPart_head_rl : ∀ (as : List (OrthAns R)) (t : Tensor R), orthfull_okR as t →
    (orthRightPart as t).head?.map (·.core.rl) = t.head?.map (·.core.rl) := by
  intro as t hok
  match as, t, hok with
  | [], t, _ => rw [orthRightPart_nil]
  | _ :: _, [], _ => rfl
  | _ :: _, [_], _ => rfl
  | A :: as, p :: m :: rest, ⟨hok', hst⟩ =>
    simp only [orthRightPart]
    cases hrp : orthRightPart as (m :: rest) with
    | nil => rfl
    | cons m' rest' =>
      rw [hrp] at hst
      simp [orthfull_rightStep_rl1 A p m' (hst m' (by simp))]


/-! ### the two sweeps leave the tensor unchanged -/

theorem orthLeftPart_tail : ∀ (as : List (OrthAns R)) (t : Tensor R) (is : List Nat) (a : Nat), orthfull_okL as t →
    inShape is t.shape → (∀ m ∈ t.head?, a < m.core.rl) → tail (orthLeftPart as t).modes is a = tail t.modes is a := by
  intro as
  induction as with
  | nil => intro t is a _ _ _; rw [orthLeftPart_nil]
  | cons A as ih =>
    intro t is a hok hin ha
    match t, is, hok, hin with
    | [], _, _, _ => rfl
    | [_], _, _, _ => rfl
    | m :: n :: rest, [], _, hin => simp [inShape, Tensor.shape] at hin
    | m :: n :: rest, [_], _, hin => simp [inShape, Tensor.shape] at hin
    | m :: n :: rest, i :: j :: is', ⟨hst, hok'⟩, ⟨hi, hj, hrest⟩ =>
      have ha' : a < m.core.rl := ha m (by simp)
      simp only [orthLeftPart, Tensor.modes, List.map_cons]
      rw [← orthfull_leftStep_tail A m n (rest.map TMode.toMode) hst i j is' a ha' hi hj]
      simp only [tail, sumTo_eq]
      apply Finset.sum_congr rfl; intro b hb'
      have hb'' : b < (orthLeftStep A m n).2.core.rl := by
        rw [← orthfull_leftStep_bond A m n hst]; exact Finset.mem_range.mp hb'
      have := ih ((orthLeftStep A m n).2 :: rest) (j :: is') b hok'
        (by simp only [Tensor.shape, List.map_cons, inShape, orthfull_leftStep_n2 A m n hst]; exact ⟨hj, hrest⟩)
        (by intro x hx; simp at hx; subst hx; exact hb'')
      simp only [Tensor.modes, List.map_cons, tail, sumTo_eq] at this
      rw [this]

theorem orthRightPart_tail : ∀ (as : List (OrthAns R)) (t : Tensor R) (is : List Nat) (a : Nat), orthfull_okR as t →
    inShape is t.shape → tail (orthRightPart as t).modes is a = tail t.modes is a := by
  intro as
  induction as with
  | nil => intro t is a _ _; rw [orthRightPart_nil]
  | cons A as ih =>
    intro t is a hok hin
    match t, is, hok, hin with
    | [], _, _, _ => rfl
    | [_], _, _, _ => rfl
    | p :: m :: rest, [], _, hin => simp [inShape, Tensor.shape] at hin
    | p :: m :: rest, [_], _, hin => simp [inShape, Tensor.shape] at hin
    | p :: m :: rest, j :: i :: is', ⟨hok', hst⟩, ⟨hj, hi, hrest⟩ =>
      have hsh := orthRightPart_shape as (m :: rest) hok'
      have hih := fun b => ih (m :: rest) (i :: is') b hok' (by simp only [Tensor.shape, List.map_cons, inShape]; exact ⟨hi, hrest⟩)
      simp only [orthRightPart]
      cases hrp : orthRightPart as (m :: rest) with
      | nil => rw [hrp] at hsh; simp [Tensor.shape] at hsh
      | cons m' rest' =>
        rw [hrp] at hsh hst hih
        have hs := hst m' (by simp)
        have hn : m'.n = m.n := by simp only [Tensor.shape, List.map_cons, List.cons.injEq] at hsh; exact hsh.1
        simp only [Tensor.modes, List.map_cons] at hih ⊢
        rw [orthfull_rightStep_tail A p m' (rest'.map TMode.toMode) hs j i is' a hj (hn ▸ hi)]
        have e : ∀ (X Y : List (Mode R)), (∀ b, tail X (i :: is') b = tail Y (i :: is') b) →
            tail (p.toMode :: X) (j :: i :: is') a = tail (p.toMode :: Y) (j :: i :: is') a := by
          intro X Y hXY
          have t1 : ∀ Z : List (Mode R), tail (p.toMode :: Z) (j :: i :: is') a =
              sumTo p.toMode.rr (fun b => p.toMode.G j a b * tail Z (i :: is') b) := fun Z => rfl
          rw [t1, t1]; simp only [hXY]
        exact e _ _ hih


theorem orthfull_dense_congr (ms ms' : List (Mode R)) (is : List Nat) (hrl : ms.head?.map (·.rl) = ms'.head?.map (·.rl))
    (h : ∀ a, (∀ m ∈ ms.head?, a < m.rl) → tail ms is a = tail ms' is a) : dense ms is = dense ms' is := by
  match ms, ms', hrl with
  | [], [], _ => rfl
  | [], _ :: _, hrl => simp at hrl
  | _ :: _, [], hrl => simp at hrl
  | m :: r, m' :: r', hrl =>
    simp only [List.head?_cons, Option.map_some, Option.some.injEq] at hrl
    simp only [dense, sumTo_eq, hrl]
    apply Finset.sum_congr rfl; intro a ha
    exact h a (by intro x hx; simp at hx; subst hx; rw [hrl]; exact Finset.mem_range.mp ha)

/-- the left part of `orthogonalize(mu)` leaves the dense array unchanged -/
theorem orthLeftPart_dense (as : List (OrthAns R)) (t : Tensor R) (is : List Nat) (hok : orthfull_okL as t)
    (hin : inShape is t.shape) : dense (orthLeftPart as t).modes is = dense t.modes is := by
  apply orthfull_dense_congr
  · have := orthLeftPart_head_rl as t hok
    simp only [Tensor.modes, List.head?_map, Option.map_map] at this ⊢
    exact this
  · intro a ha
    apply orthLeftPart_tail as t is a hok hin
    have h1 := orthLeftPart_head_rl as t hok
    cases t with
    | nil => intro m hm; simp at hm
    | cons x xs =>
      intro m hm
      have hmx : m = x := by simpa using hm.symm
      rw [hmx]
      cases hl : orthLeftPart as (x :: xs) with
      | nil => rw [hl] at h1; simp at h1
      | cons y ys =>
        rw [hl] at h1; simp at h1
        have := ha y.toMode (by rw [hl]; simp [Tensor.modes])
        simpa [TMode.toMode, h1] using this

/-- a tail of `pre ++ X` only depends on the tails of `X` -/
theorem orthfull_tail_append (X X' : List (Mode R)) : ∀ (pre : List (Mode R)) (is : List Nat) (a : Nat),
    (∀ b, tail X (is.drop pre.length) b = tail X' (is.drop pre.length) b) → tail (pre ++ X) is a = tail (pre ++ X') is a := by
  intro pre
  induction pre with
  | nil => intro is a h; simpa using h a
  | cons m pre ih =>
    intro is a h
    cases is with
    | nil => rfl
    | cons i is =>
      simp only [List.cons_append, tail]
      simp only [List.length_cons, List.drop_succ_cons] at h
      simp only [ih is _ h]

theorem orthfull_inShape_drop : ∀ (k : Nat) (is s : List Nat), inShape is s → inShape (is.drop k) (s.drop k) := by
  intro k
  induction k with
  | zero => intro is s h; simpa using h
  | succ k ih =>
    intro is s h
    match is, s, h with
    | [], [], _ => simp [inShape]
    | i :: is, n :: s, ⟨_, h2⟩ => simpa using ih is s h2


/-! ### the gauge: cores and Tucker factors -/

/-- the left unfolding (`r0·s × r1`) of the core has orthonormal columns -/
def orthfull_LOcore (c : Core R) : Prop :=
  ∀ d, d < c.rr → ∀ d', d' < c.rr →
    (∑ row ∈ range (c.rl * c.spatial), Core.leftUnf c row d * Core.leftUnf c row d') = if d = d' then 1 else 0

/-- the right unfolding (`r0 × s·r1`) of the core has orthonormal rows -/
def orthfull_ROcore (c : Core R) : Prop :=
  ∀ d, d < c.rl → ∀ d', d' < c.rl →
    (∑ col ∈ range (c.spatial * c.rr), Core.rightUnf c d col * Core.rightUnf c d' col) = if d = d' then 1 else 0

/-- the Tucker factor of the mode, if there is one, has orthonormal columns -/
def orthfull_facOrtho (m : TMode R) : Prop :=
  ∀ V, m.U = some V → ∀ d, d < V.cols → ∀ d', d' < V.cols → (∑ i ∈ range V.rows, V.f i d * V.f i d') = if d = d' then 1 else 0

/-- orthonormality part of the kernel contract of a left step: `Q_UᵀQ_U = I` (if a factor QR ran) and `QᵀQ = I` -/
def orthfull_orthoL (A : OrthAns R) : Prop := (∀ q r, A.fac = some (q, r) → orthfull_QtQ q) ∧ orthfull_QtQ A.Q

/-- … of a right step: `Q_UᵀQ_U = I` and `QQᵀ = I` (`Q` already transposed back) -/
def orthfull_orthoR (A : OrthAns R) : Prop := (∀ q r, A.fac = some (q, r) → orthfull_QtQ q) ∧ orthfull_QQt A.Q

theorem orthfull_facStep_ortho (A : OrthAns R) (m : TMode R) (h : orthfull_facOK A m)
    (ho : ∀ q r, A.fac = some (q, r) → orthfull_QtQ q) : orthfull_facOrtho (A.facStep m) := by
  obtain ⟨fac, Q, Rm⟩ := A; obtain ⟨c, U⟩ := m
  cases fac with
  | none =>
    cases U with
    | none => intro V hV; simp [OrthAns.facStep] at hV
    | some U => simp [orthfull_facOK] at h
  | some qr =>
    obtain ⟨q, r⟩ := qr
    cases U with
    | none => simp [orthfull_facOK] at h
    | some U =>
      intro V hV
      simp only [OrthAns.facStep, TMode.factorOrth, Option.some.injEq] at hV
      subst hV
      exact ho q r rfl

theorem orthfull_leftStep_gauge (A : OrthAns R) (m n : TMode R) (h : orthfull_leftOK A m n) (ho : orthfull_orthoL A) :
    orthfull_LOcore (orthLeftStep A m n).1.core ∧ orthfull_facOrtho (orthLeftStep A m n).1 := by
  have hfo := orthfull_facStep_ortho A m h.1 ho.1
  obtain ⟨r0, s, r1, f, U1, r0', s', r1', g, U2, em, en, h1, h2, h3, h4, e⟩ := orthfull_leftStep_form A m n h
  rw [e]; rw [em] at hfo
  refine ⟨?_, hfo⟩
  intro d hd d' hd'
  simp only [Core.rr, Core.rl, Core.spatial, Core.leftUnf, Nat.div_add_mod'] at hd hd' ⊢
  rw [← h1]; exact ho.2 d hd d' hd'

theorem orthfull_rightStep_gauge (A : OrthAns R) (p m : TMode R) (h : orthfull_rightOK A p m) (ho : orthfull_orthoR A) :
    orthfull_ROcore (orthRightStep A p m).2.core ∧ orthfull_facOrtho (orthRightStep A p m).2 := by
  have hfo := orthfull_facStep_ortho A m h.1 ho.1
  obtain ⟨r0', s', g, U1, r0, s, r1, f, U2, ep, em, h1, h2, h3, h4, e⟩ := orthfull_rightStep_form A p m h
  rw [e]; rw [em] at hfo
  refine ⟨?_, hfo⟩
  intro d hd d' hd'
  simp only [Core.rr, Core.rl, Core.spatial, Core.rightUnf, Nat.div_add_mod'] at hd hd' ⊢
  rw [← h1]; exact ho.2 d hd d' hd'

/-- after the left part every visited mode has a left-orthonormal core and an orthonormal factor -/
theorem orthLeftPart_gauge : ∀ (as : List (OrthAns R)) (t : Tensor R), orthfull_okL as t → (∀ A ∈ as, orthfull_orthoL A) →
    as.length < t.length → ∀ x ∈ (orthLeftPart as t).take as.length, orthfull_LOcore x.core ∧ orthfull_facOrtho x := by
  intro as
  induction as with
  | nil => intro t _ _ _ x hx; simp at hx
  | cons A as ih =>
    intro t hok ho hl x hx
    match t, hok, hl with
    | [], _, hl => simp at hl
    | [_], _, hl => simp at hl
    | m :: n :: rest, ⟨hst, hok'⟩, hl =>
      simp only [orthLeftPart, List.length_cons, List.take_succ_cons, List.mem_cons] at hx
      rcases hx with rfl | hx
      · exact orthfull_leftStep_gauge A m n hst (ho A (by simp))
      · exact ih _ hok' (fun B hB => ho B (by simp [hB])) (by simp at hl ⊢; omega) x hx

/-- after the right part every visited mode has a right-orthonormal core and an orthonormal factor -/
theorem orthRightPart_gauge : ∀ (as : List (OrthAns R)) (t : Tensor R), orthfull_okR as t → (∀ A ∈ as, orthfull_orthoR A) →
    as.length + 1 = t.length → ∀ x ∈ (orthRightPart as t).tail, orthfull_ROcore x.core ∧ orthfull_facOrtho x := by
  intro as
  induction as with
  | nil =>
    intro t _ _ hl x hx
    match t, hl with
    | [_], _ => simp [orthRightPart] at hx
  | cons A as ih =>
    intro t hok ho hl x hx
    match t, hok, hl with
    | [], _, hl => simp at hl
    | [_], _, hl => simp at hl
    | p :: m :: rest, ⟨hok', hst⟩, hl =>
      have hih := ih (m :: rest) hok' (fun B hB => ho B (by simp [hB])) (by simpa using hl)
      simp only [orthRightPart] at hx
      cases hrp : orthRightPart as (m :: rest) with
      | nil => rw [hrp] at hx; simp at hx
      | cons m' rest' =>
        rw [hrp] at hx hst hih
        simp only [List.tail_cons, List.mem_cons] at hx hih
        rcases hx with rfl | hx
        · exact orthfull_rightStep_gauge A p m' (hst m' (by simp)) (ho A (by simp))
        · exact hih x hx

theorem orthLeftPart_length (as : List (OrthAns R)) (t : Tensor R) (hok : orthfull_okL as t) : (orthLeftPart as t).length = t.length := by
  have := congrArg List.length (orthLeftPart_shape as t hok)
  simpa [Tensor.shape] using this


theorem orthfull_dense_append (pre X X' : Tensor R) (is : List Nat)
    (hrl : X'.head?.map (·.core.rl) = X.head?.map (·.core.rl))
    (h : ∀ b, tail X'.modes (is.drop pre.length) b = tail X.modes (is.drop pre.length) b) :
    dense (Tensor.modes (pre ++ X')) is = dense (Tensor.modes (pre ++ X)) is := by
  apply orthfull_dense_congr
  · cases pre with
    | nil =>
      simp only [Tensor.modes, List.nil_append, List.head?_map, Option.map_map] at hrl ⊢
      exact hrl
    | cons x xs => rfl
  · intro a _
    simp only [Tensor.modes, List.map_append]
    apply orthfull_tail_append
    simpa [Tensor.modes] using h

/-- **`orthogonalize(mu)` leaves the dense array unchanged** (model level, before the `_cp_to_tt` bridge) -/
theorem orthfull_dense (t1 : Tensor R) (mu : Nat) (asL asR : List (OrthAns R)) (is : List Nat) (hmu : mu < t1.length)
    (hL : orthfull_okL asL t1) (hR : orthfull_okR asR ((orthLeftPart asL t1).drop mu)) (hin : inShape is t1.shape) :
    dense (Tensor.modes ((orthLeftPart asL t1).take mu ++ orthRightPart asR ((orthLeftPart asL t1).drop mu))) is = dense t1.modes is := by
  rw [← orthLeftPart_dense asL t1 is hL hin]
  have hlen := orthLeftPart_length asL t1 hL
  have hsh := orthLeftPart_shape asL t1 hL
  generalize orthLeftPart asL t1 = t2 at hR hlen hsh ⊢
  conv_rhs => rw [← List.take_append_drop mu t2]
  apply orthfull_dense_append
  · exact orthRightPart_head_rl asR _ hR
  · intro b
    apply orthRightPart_tail asR _ _ b hR
    have hl : (List.take mu t2).length = mu := by rw [List.length_take]; omega
    rw [hl]
    have := orthfull_inShape_drop mu is t1.shape hin
    rw [← hsh] at this
    simpa [Tensor.shape, List.map_drop] using this


/-! ### a concrete instance of the hypotheses (3 modes, `mu = 1`, a `2 × 1` Tucker factor on mode 0) -/
def orthfull_exT : Tensor Int :=
  [⟨.tt 1 1 1 (fun _ _ _ => 2), some ⟨2, 1, fun i _ => if i = 0 then 3 else 0⟩⟩,
   ⟨.tt 1 1 1 (fun _ _ _ => 5), none⟩, ⟨.tt 1 1 1 (fun _ _ _ => 7), none⟩]
def orthfull_exL : List (OrthAns Int) :=
  [⟨some (⟨2, 1, fun i _ => if i = 0 then 1 else 0⟩, ⟨1, 1, fun _ _ => 3⟩), ⟨1, 1, fun _ _ => 1⟩, ⟨1, 1, fun _ _ => 6⟩⟩]
def orthfull_exR : List (OrthAns Int) := [⟨none, ⟨1, 1, fun _ _ => 1⟩, ⟨1, 1, fun _ _ => 7⟩⟩]

end TN
