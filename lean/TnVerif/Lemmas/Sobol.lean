import TnVerif.Model.Sobol
import TnVerif.Lemmas.Sum
import TnVerif.Lemmas.Dot
import TnVerif.Lemmas.Arith
import TnVerif.Lemmas.Tensor
import TnVerif.Lemmas.WF
import TnVerif.Lemmas.Scalar
import TnVerif.Lemmas.TTMatMul
import TnVerif.Lemmas.Squeeze
import Mathlib.Algebra.Field.Basic
import Mathlib.Tactic.FieldSimp
import Mathlib.Tactic.Ring
import TnVerif.Lemmas.Stats
import Mathlib.Algebra.Order.Field.Basic
import Mathlib.Algebra.Order.BigOperators.Ring.Finset
/-! Lemmas for C09 (Sobol indices): the executable pieces of `Model/Sobol.lean` against the dense arrays —
    re-materialisation is the identity, the tabulated `tn.dot` sweep equals `Tensor.dot`, `tn.mask` re-indexes the
    mask, the marginal weighting multiplies by the product of the weights, the empty-term indicator, the all-zero
    integer key. -/
set_option linter.unusedSectionVars false
set_option linter.unusedSimpArgs false
open Finset
namespace TN
variable {R : Type}

/-! ### `memo` is the identity -/

theorem sobol_dec2 (a b d2 : Nat) (hb : b < d2) : (a * d2 + b) / d2 = a ∧ (a * d2 + b) % d2 = b := by
  have hpos : 0 < d2 := by omega
  constructor
  · rw [Nat.add_comm, Nat.add_mul_div_right _ _ hpos, Nat.div_eq_of_lt hb]; simp
  · rw [Nat.add_comm, Nat.add_mul_mod_self_right, Nat.mod_eq_of_lt hb]

theorem sobol_lt2 (a b d1 d2 : Nat) (ha : a < d1) (hb : b < d2) : a * d2 + b < d1 * d2 := by
  have : (a + 1) * d2 ≤ d1 * d2 := Nat.mul_le_mul_right _ ha
  rw [Nat.add_mul] at this; omega

section
variable [Zero R]

theorem sobol_tab2_get (d1 d2 : Nat) (f : Nat → Nat → R) (a b : Nat) (ha : a < d1) (hb : b < d2) :
    (tab2 d1 d2 f).getD (a * d2 + b) 0 = f a b := by
  have hlt := sobol_lt2 a b d1 d2 ha hb
  obtain ⟨e1, e2⟩ := sobol_dec2 a b d2 hb
  simp [tab2, Array.getD, hlt, e1, e2]

theorem sobol_tab3_get (d1 d2 d3 : Nat) (f : Nat → Nat → Nat → R) (a j b : Nat) (ha : a < d1) (hj : j < d2) (hb : b < d3) :
    (tab3 d1 d2 d3 f).getD ((a * d2 + j) * d3 + b) 0 = f a j b := by
  have h1 := sobol_lt2 a j d1 d2 ha hj
  have hlt := sobol_lt2 (a * d2 + j) b (d1 * d2) d3 h1 hb
  obtain ⟨e1, e2⟩ := sobol_dec2 (a * d2 + j) b d3 hb
  obtain ⟨e3, e4⟩ := sobol_dec2 a j d2 hj
  have e5 : ((a * d2 + j) * d3 + b) / (d2 * d3) = a := by
    rw [Nat.mul_comm d2 d3, ← Nat.div_div_eq_div_mul, e1, e3]
  simp [tab3, Array.getD, hlt, e1, e2, e4, e5]

theorem sobol_memo_core (c : Core R) : c.memo = c := by
  cases c with
  | tt r0 s r1 f =>
    simp only [Core.memo, Core.tt.injEq, true_and]
    funext a j b
    split
    · rename_i h; exact sobol_tab3_get r0 s r1 f a j b h.1 h.2.1 h.2.2
    · rfl
  | cp s r f =>
    simp only [Core.memo, Core.cp.injEq, true_and]
    funext a b
    split
    · rename_i h; exact sobol_tab2_get s r f a b h.1 h.2
    · rfl

theorem sobol_memo_fac (U : Fac R) : U.memo = U := by
  obtain ⟨rows, cols, f⟩ := U
  simp only [Fac.memo, Fac.mk.injEq, true_and]
  funext a b
  split
  · rename_i h; exact sobol_tab2_get rows cols f a b h.1 h.2
  · rfl

/-- re-materialisation is the identity -/
theorem sobol_memo_eq (t : Tensor R) : t.memo = t := by
  induction t with
  | nil => rfl
  | cons m ms ih =>
    simp only [Tensor.memo, List.map_cons] at ih ⊢
    rw [ih]
    obtain ⟨c, U⟩ := m
    cases U with
    | none => simp [TMode.memo, sobol_memo_core]
    | some U => simp [TMode.memo, sobol_memo_core, sobol_memo_fac]
end

/-! ### the tabulated sweep of `tn.dot` -/

section
variable [CommSemiring R]

theorem sobol_dotStepA_get (L : FlatArr R) (m m' : Mode R) (c' c : Nat) (hc : c < m.rr) :
    (sobolDotStepA L m m').get (c' * m.rr + c) = dotStep (fun b' b => L.get (b' * m.rl + b)) m m' c' c := by
  obtain ⟨e1, e2⟩ := sobol_dec2 c' c m.rr hc
  simp only [sobolDotStepA, FlatArr.get_tab, e1, e2]

theorem sobol_dotGoA_eq (ms : List (Mode R)) : ∀ (ms' : List (Mode R)) (L : FlatArr R) (rl' rl : Nat),
    wf rl ms → wf rl' ms' → compat ms ms' →
    sobolDotGoA L rl' rl ms ms' = dotGo (fun b' b => L.get (b' * rl + b)) rl' rl ms ms' := by
  induction ms with
  | nil =>
    intro ms' L rl' rl _ _ hc
    cases ms' with
    | nil => rfl
    | cons _ _ => simp [compat] at hc
  | cons m ms ih =>
    intro ms' L rl' rl hw hw' hc
    cases ms' with
    | nil => simp [compat] at hc
    | cons m' ms' =>
      obtain ⟨h1, h2⟩ := hw
      obtain ⟨g1, g2⟩ := hw'
      obtain ⟨hn, hc'⟩ := hc
      simp only [sobolDotGoA, dotGo]
      rw [ih ms' _ _ _ h2 g2 hc', dotGo_spec ms ms' _ _ _ h2 g2 hc', dotGo_spec ms ms' _ _ _ h2 g2 hc']
      apply Finset.sum_congr rfl; intro c' _
      apply Finset.sum_congr rfl; intro c hcr
      rw [sobol_dotStepA_get L m m' c' c (Finset.mem_range.mp hcr), h1]

end

section
variable [CommSemiring R]

/-! ### `tn.mask` -/
theorem sobol_gather_rl (rows : Nat) (φ : Nat → Nat) (m : TMode R) : (m.sobolGather rows φ).core.rl = m.core.rl := by
  obtain ⟨c, U⟩ := m; cases U <;> cases c <;> rfl
theorem sobol_gather_rr (rows : Nat) (φ : Nat → Nat) (m : TMode R) : (m.sobolGather rows φ).core.rr = m.core.rr := by
  obtain ⟨c, U⟩ := m; cases U <;> cases c <;> rfl
theorem sobol_gather_n (rows : Nat) (φ : Nat → Nat) (m : TMode R) : (m.sobolGather rows φ).n = rows := by
  obtain ⟨c, U⟩ := m; cases U <;> cases c <;> rfl
theorem sobol_gather_ok (rows : Nat) (φ : Nat → Nat) (m : TMode R) (h : m.ok) : (m.sobolGather rows φ).ok := by
  obtain ⟨c, U⟩ := m
  cases U with
  | none => trivial
  | some U => exact h
theorem sobol_gather_G (rows : Nat) (φ : Nat → Nat) (m : TMode R) (i a b : Nat) :
    (m.sobolGather rows φ).toMode.G i a b = m.toMode.G (φ i) a b := by
  obtain ⟨c, U⟩ := m
  cases U with
  | none => cases c <;> rfl
  | some U => cases c <;> rfl

/-- the index the mask is read at -/
def sobolClampL : List Nat → List Nat → List Nat
  | s :: ss, i :: is => sobolClampIdx s i :: sobolClampL ss is
  | _, _ => []

theorem sobol_tail_maskSel (mk : Tensor R) : ∀ (shs is : List Nat) (a : Nat), shs.length = mk.length → is.length = mk.length →
    tail (Tensor.sobolMaskSel shs mk).modes is a = tail mk.modes (sobolClampL mk.shape is) a := by
  induction mk with
  | nil => intro shs is a _ _; cases shs <;> rfl
  | cons m ms ih =>
    intro shs is a hs hi
    cases shs with
    | nil => simp at hs
    | cons sh shs =>
      cases is with
      | nil => simp at hi
      | cons i is =>
        have ih' := fun b => ih shs is b (by simpa using hs) (by simpa using hi)
        simp only [Tensor.modes, Tensor.shape] at ih'
        simp only [Tensor.sobolMaskSel, Tensor.modes, List.map_cons, Tensor.shape, sobolClampL, tail, TMode.toMode_rr,
          sobol_gather_rr, sobol_gather_G, ih']

theorem sobol_dense_maskSel (mk : Tensor R) (shs is : List Nat) (hs : shs.length = mk.length) (hi : is.length = mk.length) :
    (Tensor.sobolMaskSel shs mk).dense is = mk.dense (sobolClampL mk.shape is) := by
  cases mk with
  | nil => cases shs <;> rfl
  | cons m ms =>
    cases shs with
    | nil => simp at hs
    | cons sh shs =>
      have h := fun a => sobol_tail_maskSel (m :: ms) (sh :: shs) is a hs hi
      simp only [Tensor.sobolMaskSel, Tensor.modes, List.map_cons] at h
      simp only [Tensor.dense, Tensor.sobolMaskSel, Tensor.modes, List.map_cons, dense, TMode.toMode_rl, sobol_gather_rl, h]

theorem sobol_WFfrom_maskSel (mk : Tensor R) : ∀ (shs : List Nat) (p : Nat), shs.length = mk.length →
    Tensor.WFfrom p mk → Tensor.WFfrom p (Tensor.sobolMaskSel shs mk) := by
  induction mk with
  | nil => intro shs p _ _; cases shs <;> trivial
  | cons m ms ih =>
    intro shs p hs h
    cases shs with
    | nil => simp at hs
    | cons sh shs =>
      obtain ⟨h1, h2, h3⟩ := h
      refine ⟨by rw [sobol_gather_rl]; exact h1, sobol_gather_ok _ _ m h2, ?_⟩
      rw [sobol_gather_rr]; exact ih shs _ (by simpa using hs) h3

theorem sobol_WF_maskSel (mk : Tensor R) (shs : List Nat) (hs : shs.length = mk.length) (h : mk.WF) :
    (Tensor.sobolMaskSel shs mk).WF := by
  cases mk with
  | nil => exact absurd h (by simp [Tensor.WF])
  | cons m ms =>
    cases shs with
    | nil => simp at hs
    | cons sh shs =>
      have := sobol_WFfrom_maskSel (m :: ms) (sh :: shs) _ hs h
      simp only [Tensor.sobolMaskSel, Tensor.WF] at this ⊢
      rw [sobol_gather_rl]; exact this

theorem sobol_shape_maskSel (mk : Tensor R) : ∀ (shs : List Nat), shs.length = mk.length →
    (Tensor.sobolMaskSel shs mk).shape = shs := by
  induction mk with
  | nil => intro shs hs; cases shs with
    | nil => rfl
    | cons _ _ => simp at hs
  | cons m ms ih =>
    intro shs hs
    cases shs with
    | nil => simp at hs
    | cons sh shs =>
      simp only [Tensor.sobolMaskSel, Tensor.shape, List.map_cons, sobol_gather_n, List.cons.injEq, true_and]
      exact ih shs (by simpa using hs)

end

section
variable [CommSemiring R]

/-- `Tensor.sobolDotA` is `Tensor.dot` -/
theorem sobol_dotA_eq (t u : Tensor R) (ht : t.WF) (hu : u.WF) (hs : t.shape = u.shape) : t.sobolDotA u = t.dot u := by
  cases t with
  | nil => exact absurd ht (by simp [Tensor.WF])
  | cons x xs =>
    cases u with
    | nil => exact absurd hu (by simp [Tensor.WF])
    | cons y ys =>
      have hc := compat_modes _ _ hs
      have hwt := wf_modes _ _ ht
      have hwu := wf_modes _ _ hu
      simp only [Tensor.sobolDotA, Tensor.dot, Tensor.modes, List.map_cons] at hc hwt hwu ⊢
      exact (sobol_dotGoA_eq _ _ _ _ _ hwt hwu hc).trans (by rw [FlatArr.get_tab]; rfl)

/-! ### the marginal weighting of `am` -/
/-- weight of row `i` : 1 for the expectation row, `w (i-1)` for the centred rows -/
def sobolRowW (w : Nat → R) (i : Nat) : R := if i = 0 then 1 else w (i - 1)

theorem sobol_wrows_rl (w : Nat → R) (m : TMode R) : (m.sobolWrows w).core.rl = m.core.rl := by
  obtain ⟨c, U⟩ := m; cases U <;> cases c <;> rfl
theorem sobol_wrows_rr (w : Nat → R) (m : TMode R) : (m.sobolWrows w).core.rr = m.core.rr := by
  obtain ⟨c, U⟩ := m; cases U <;> cases c <;> rfl
theorem sobol_wrows_n (w : Nat → R) (m : TMode R) : (m.sobolWrows w).n = m.n := by
  obtain ⟨c, U⟩ := m; cases U <;> cases c <;> rfl
theorem sobol_wrows_ok (w : Nat → R) (m : TMode R) (h : m.ok) : (m.sobolWrows w).ok := by
  obtain ⟨c, U⟩ := m
  cases U with
  | none => trivial
  | some U => exact h
theorem sobol_wrows_G (w : Nat → R) (m : TMode R) (i a b : Nat) :
    (m.sobolWrows w).toMode.G i a b = sobolRowW w i * m.toMode.G i a b := by
  obtain ⟨c, U⟩ := m
  cases U with
  | none =>
    cases c with
    | tt r0 s r1 f =>
      simp only [TMode.sobolWrows, Core.sobolWrows, TMode.toMode_G, TMode.decomp_none, Core.tt_get, sobolRowW]
      split <;> simp [mul_comm]
    | cp s r f =>
      simp only [TMode.sobolWrows, Core.sobolWrows, TMode.toMode_G, TMode.decomp_none, Core.get, sobolRowW]
      split <;> split <;> simp [mul_comm]
  | some U =>
    simp only [TMode.sobolWrows, TMode.toMode_G, TMode.decomp_some, Fac.apply_get, Fac.sobolWrows, sobolRowW]
    by_cases hi : i = 0
    · simp [hi]
    · simp only [hi, if_false, Finset.mul_sum]
      apply Finset.sum_congr rfl; intro j _; ring

/-- product of the row weights along an index -/
def sobolExtW : List (Nat → R) → List Nat → R
  | w :: ws, j :: js => sobolRowW w j * sobolExtW ws js
  | _, _ => 1

/-- the per-mode row weighting `sobolWeight` performs, with the normalised weights given as a list -/
def sobolWrowsAll : List (Nat → R) → Tensor R → Tensor R
  | w :: ws, m :: ms => m.sobolWrows w :: sobolWrowsAll ws ms
  | _, _ => []

theorem sobol_tail_wrowsAll (t : Tensor R) : ∀ (ws : List (Nat → R)) (is : List Nat) (a : Nat), ws.length = t.length →
    is.length = t.length → tail (sobolWrowsAll ws t).modes is a = sobolExtW ws is * tail t.modes is a := by
  induction t with
  | nil =>
    intro ws is a hw _
    cases ws with
    | nil => simp [sobolWrowsAll, Tensor.modes, tail, sobolExtW]
    | cons _ _ => simp at hw
  | cons m ms ih =>
    intro ws is a hw hi
    cases ws with
    | nil => simp at hw
    | cons w ws =>
      cases is with
      | nil => simp at hi
      | cons i is =>
        have ih' := fun b => ih ws is b (by simpa using hw) (by simpa using hi)
        simp only [Tensor.modes] at ih'
        simp only [sobolWrowsAll, Tensor.modes, List.map_cons, tail, sumTo_eq, TMode.toMode_rr, sobol_wrows_rr, sobol_wrows_G,
          ih', sobolExtW, Finset.mul_sum]
        apply Finset.sum_congr rfl; intro b _; ring

theorem sobol_dense_wrowsAll (t : Tensor R) (ws : List (Nat → R)) (is : List Nat) (hw : ws.length = t.length)
    (hi : is.length = t.length) : (sobolWrowsAll ws t).dense is = sobolExtW ws is * t.dense is := by
  cases t with
  | nil =>
    cases ws with
    | nil => simp [sobolWrowsAll, Tensor.dense, Tensor.modes, dense, sobolExtW]
    | cons _ _ => simp at hw
  | cons m ms =>
    cases ws with
    | nil => simp at hw
    | cons w ws =>
      have h := fun a => sobol_tail_wrowsAll (m :: ms) (w :: ws) is a hw hi
      simp only [sobolWrowsAll, Tensor.modes, List.map_cons] at h
      simp only [Tensor.dense, sobolWrowsAll, Tensor.modes, List.map_cons, dense, sumTo_eq, TMode.toMode_rl, sobol_wrows_rl, h,
        Finset.mul_sum]

theorem sobol_WFfrom_wrowsAll (t : Tensor R) : ∀ (ws : List (Nat → R)) (p : Nat), ws.length = t.length →
    Tensor.WFfrom p t → Tensor.WFfrom p (sobolWrowsAll ws t) := by
  induction t with
  | nil => intro ws p _ _; cases ws <;> trivial
  | cons m ms ih =>
    intro ws p hw h
    cases ws with
    | nil => simp at hw
    | cons w ws =>
      obtain ⟨h1, h2, h3⟩ := h
      refine ⟨by rw [sobol_wrows_rl]; exact h1, sobol_wrows_ok _ m h2, ?_⟩
      rw [sobol_wrows_rr]; exact ih ws _ (by simpa using hw) h3

theorem sobol_WF_wrowsAll (t : Tensor R) (ws : List (Nat → R)) (hw : ws.length = t.length) (h : t.WF) :
    (sobolWrowsAll ws t).WF := by
  cases t with
  | nil => exact absurd h (by simp [Tensor.WF])
  | cons m ms =>
    cases ws with
    | nil => simp at hw
    | cons w ws =>
      have := sobol_WFfrom_wrowsAll (m :: ms) (w :: ws) _ hw h
      simp only [sobolWrowsAll, Tensor.WF] at this ⊢
      rw [sobol_wrows_rl]; exact this

theorem sobol_shape_wrowsAll (t : Tensor R) : ∀ (ws : List (Nat → R)), ws.length = t.length →
    (sobolWrowsAll ws t).shape = t.shape := by
  induction t with
  | nil => intro ws _; cases ws <;> rfl
  | cons m ms ih =>
    intro ws hw
    cases ws with
    | nil => simp at hw
    | cons w ws =>
      simp only [sobolWrowsAll, Tensor.shape, List.map_cons, sobol_wrows_n, List.cons.injEq, true_and]
      exact ih ws (by simpa using hw)

/-! ### the indicator of the empty tuple -/
/-- `Π_n [i_n = 0]` -/
def sobolZeroInd : List Nat → R
  | [] => 1
  | i :: is => (if i = 0 then 1 else 0) * sobolZeroInd is

theorem sobolZeroInd_eq : ∀ (is : List Nat), sobolZeroInd (R := R) is = if is = List.replicate is.length 0 then 1 else 0 := by
  intro is
  induction is with
  | nil => simp [sobolZeroInd]
  | cons i is ih =>
    simp only [sobolZeroInd, ih, List.length_cons, List.replicate_succ, List.cons.injEq]
    by_cases h : i = 0 <;> simp [h]

theorem sobol_tail_emptyT : ∀ (shape is : List Nat), is.length = shape.length →
    tail (sobolEmptyT (R := R) shape).modes is 0 = sobolZeroInd is := by
  intro shape
  induction shape with
  | nil => intro is h; cases is with
    | nil => simp [sobolEmptyT, Tensor.modes, tail, sobolZeroInd]
    | cons _ _ => simp at h
  | cons s ss ih =>
    intro is h
    cases is with
    | nil => simp at h
    | cons i is =>
      have ih' := ih is (by simpa using h)
      simp only [sobolEmptyT, Tensor.modes, List.map_map] at ih'
      simp only [sobolEmptyT, Tensor.modes, List.map_cons, List.map_map, tail, sumTo_eq, TMode.toMode_rr, Core.tt_rr,
        Finset.sum_range_one, TMode.toMode_G, TMode.decomp_none, Core.tt_get, ih', sobolZeroInd]

theorem sobol_dense_emptyT (shape is : List Nat) (hne : shape ≠ []) (h : is.length = shape.length) :
    (sobolEmptyT (R := R) shape).dense is = sobolZeroInd is := by
  cases shape with
  | nil => exact absurd rfl hne
  | cons s ss =>
    have := sobol_tail_emptyT (R := R) (s :: ss) is h
    simp only [sobolEmptyT, Tensor.modes, List.map_cons] at this
    simp only [Tensor.dense, sobolEmptyT, Tensor.modes, List.map_cons, dense, sumTo_eq, TMode.toMode_rl, Core.tt_rl,
      Finset.sum_range_one, this]

theorem sobol_WFfrom_emptyT : ∀ (shape : List Nat), Tensor.WFfrom 1 (sobolEmptyT (R := R) shape) := by
  intro shape
  induction shape with
  | nil => trivial
  | cons s ss ih => exact ⟨rfl, trivial, ih⟩

theorem sobol_WF_emptyT (shape : List Nat) (hne : shape ≠ []) : (sobolEmptyT (R := R) shape).WF := by
  cases shape with
  | nil => exact absurd rfl hne
  | cons s ss => exact sobol_WFfrom_emptyT (s :: ss)

theorem sobol_shape_emptyT (shape : List Nat) : (sobolEmptyT (R := R) shape).shape = shape := by
  induction shape with
  | nil => rfl
  | cons s ss ih =>
    simp only [sobolEmptyT, Tensor.shape, List.map_cons, List.map_map] at ih ⊢
    rw [ih]; rfl

end

/-! ### the key `(0,)*N`, well-formedness of `anova_decomposition`, the `None` marginals -/
section
variable [CommSemiring R]

theorem sobol_normInt_zero (n : Nat) (h : 0 < n) : normInt 0 n = .ok 0 := by
  unfold normInt
  have : (0 : Int) < (n : Int) := by exact_mod_cast h
  simp [this]; omega

/-- bounds normalisation of the key `(0,) * N` on a shape without empty modes -/
theorem sobol_normKey_zero : ∀ (ns : List Nat), (∀ n ∈ ns, 0 < n) →
    normKey (squeezeKey (ns.map fun _ => true)) ns = .ok (sqItems (ns.map fun _ => true) ns) := by
  intro ns
  induction ns with
  | nil => intro _; simp [squeezeKey, normKey, sqItems]
  | cons n ns ih =>
    intro h
    have h0 := sobol_normInt_zero n (h n (by simp))
    have := ih (fun k hk => h k (by simp [hk]))
    simp only [squeezeKey] at this
    simp only [squeezeKey, List.map_cons, if_true, normKey, h0, this, sqItems, bind, Except.bind, pure, Except.pure]

end

section
variable [Field R]

theorem sobol_anova_rl (wn : Nat → R) (m : TMode R) : (m.anova wn).core.rl = m.core.rl := by
  obtain ⟨c, U⟩ := m; cases U <;> rfl
theorem sobol_anova_rr (wn : Nat → R) (m : TMode R) : (m.anova wn).core.rr = m.core.rr := by
  obtain ⟨c, U⟩ := m; cases U <;> rfl
theorem sobol_anova_ok (wn : Nat → R) (m : TMode R) (h : m.ok) : (m.anova wn).ok := by
  obtain ⟨c, U⟩ := m
  cases U with
  | none => simp [TMode.anova, TMode.ok, TMode.n]
  | some U => exact h

theorem sobol_WFfrom_anova (t : Tensor R) : ∀ (ws : List (Nat → R)) (p : Nat), ws.length = t.length →
    Tensor.WFfrom p t → Tensor.WFfrom p (t.anova ws) := by
  induction t with
  | nil => intro ws p _ _; cases ws <;> trivial
  | cons m ms ih =>
    intro ws p hw h
    cases ws with
    | nil => simp at hw
    | cons w ws =>
      obtain ⟨h1, h2, h3⟩ := h
      refine ⟨by rw [sobol_anova_rl]; exact h1, sobol_anova_ok _ m h2, ?_⟩
      rw [sobol_anova_rr]; exact ih ws _ (by simpa using hw) h3

/-- `anova_decomposition` returns a well-formed tensor -/
theorem sobol_WF_anova (t : Tensor R) (ws : List (Nat → R)) (hw : ws.length = t.length) (h : t.WF) : (t.anova ws).WF := by
  cases t with
  | nil => exact absurd h (by simp [Tensor.WF])
  | cons m ms =>
    cases ws with
    | nil => simp at hw
    | cons w ws =>
      have := sobol_WFfrom_anova (m :: ms) (w :: ws) _ hw h
      simp only [Tensor.anova, Tensor.WF] at this ⊢
      rw [sobol_anova_rl]; exact this

theorem sobol_sumTo_const (I : Nat) (c : R) : sumTo I (fun _ => c) = natR I * c := by
  induction I with
  | zero => simp [sumTo, natR]
  | succ n ih => simp only [sumTo, natR, ih]; ring

/-- the uniform marginal `ones / I` that `anova_decomposition` substitutes for `None` and the vector `ones` the loop of
    `sobol` substitutes normalise to the same weights (also when `I` is zero in the field: both are then 0) -/
theorem sobol_normW_none (I : Nat) : normW I (sobolMargA (R := R) I Option.none) = normW I (sobolMargS Option.none) := by
  funext i
  simp only [normW, sobolMargA, sobolMargS, sobol_sumTo_const]
  by_cases h : (natR I : R) = 0
  · simp [h]
  · field_simp

theorem sobol_normW_opt (I : Nat) (o : Option (Nat → R)) : normW I (sobolMargA I o) = normW I (sobolMargS o) := by
  cases o with
  | none => exact sobol_normW_none I
  | some w => rfl

end

/-! ### box sums: one index, order, grouping by support -/
section
variable [CommRing R]

/-- a box sum that picks one index of the box -/
theorem sobol_boxSum_single : ∀ (s k : List Nat) (g : List Nat → R), inShape k s →
    boxSum s (fun j => if j = k then g j else 0) = g k := by
  intro s
  induction s with
  | nil =>
    intro k g hk
    cases k with
    | nil => simp [boxSum]
    | cons _ _ => simp [inShape] at hk
  | cons n ns ih =>
    intro k g hk
    cases k with
    | nil => simp [inShape] at hk
    | cons k0 ks =>
      obtain ⟨h0, h1⟩ := hk
      simp only [boxSum, sumTo_eq, List.cons.injEq]
      rw [Finset.sum_eq_single k0]
      · simp only [true_and]
        exact ih ks (fun js => g (k0 :: js)) h1
      · intro i _ hi
        simp only [hi, false_and, if_false]
        rw [boxSum_const]; simp
      · intro hh; exact absurd (Finset.mem_range.mpr h0) hh

/-- removing one index of the box from a box sum -/
theorem sobol_boxSum_remove (s k : List Nat) (g : List Nat → R) (hk : inShape k s) :
    boxSum s (fun j => if j = k then 0 else g j) = boxSum s g - g k := by
  have e : (fun j => if j = k then 0 else g j) = (fun j => g j + (-1) * (if j = k then g j else 0)) := by
    funext j; by_cases h : j = k <;> simp [h]
  rw [e, boxSum_add, boxSum_mul_left, sobol_boxSum_single s k g hk]; ring

theorem sobol_inShape_zero : ∀ (ns : List Nat), inShape (List.replicate ns.length 0) (ns.map (· + 1)) := by
  intro ns
  induction ns with
  | nil => trivial
  | cons n ns ih => exact ⟨Nat.succ_pos n, ih⟩

end

section
variable [CommRing R] [LinearOrder R] [IsStrictOrderedRing R]

theorem sobol_boxSum_nonneg_in : ∀ (ns : List Nat) (f : List Nat → R), (∀ is, inShape is ns → 0 ≤ f is) → 0 ≤ boxSum ns f := by
  intro ns
  induction ns with
  | nil => intro f h; exact h [] trivial
  | cons n ns ih =>
    intro f h
    simp only [boxSum, sumTo_eq]
    exact Finset.sum_nonneg (fun i hi => ih _ (fun is his => h (i :: is) ⟨Finset.mem_range.mp hi, his⟩))

theorem sobol_boxSum_le_in (ns : List Nat) (f g : List Nat → R) (h : ∀ is, inShape is ns → f is ≤ g is) :
    boxSum ns f ≤ boxSum ns g := by
  have := sobol_boxSum_nonneg_in ns (fun is => g is + (-1) * f is) (fun is his => by have := h is his; linarith)
  rw [boxSum_add, boxSum_mul_left] at this
  linarith

end
end TN

namespace TN
variable {R : Type}
section fiber
variable [CommSemiring R]

/-- support pattern of an extended index: `0` = the variable is integrated out, `1` = it is present -/
def sobolSuppL (j : List Nat) : List Nat := j.map fun i => if i = 0 then 0 else 1

theorem sobolSuppL_cons (i : Nat) (js : List Nat) : sobolSuppL (i :: js) = (if i = 0 then 0 else 1) :: sobolSuppL js := rfl

theorem sobol_boxSum_ite_const (s : List Nat) (p : Prop) [Decidable p] (f : List Nat → R) :
    boxSum s (fun j => if p then f j else 0) = if p then boxSum s f else 0 := by
  by_cases h : p
  · simp [h]
  · simp only [h, if_false]; rw [boxSum_const]; simp

/-- **grouping the extended box by support**: a sum over the extended index box is the sum over the `2^N` support
    patterns of the sums over the indices with that support -/
theorem sobol_boxSum_fiber : ∀ (ns : List Nat) (h g : List Nat → R),
    boxSum (ns.map (· + 1)) (fun j => h (sobolSuppL j) * g j)
      = boxSum (List.replicate ns.length 2)
          (fun u => h u * boxSum (ns.map (· + 1)) (fun j => if sobolSuppL j = u then g j else 0)) := by
  intro ns
  induction ns with
  | nil => intro h g; simp [boxSum, sobolSuppL]
  | cons n ns ih =>
    intro h g
    simp only [List.map_cons, List.length_cons, List.replicate_succ, boxSum, sumTo_eq, sobolSuppL_cons]
    -- left: induction hypothesis per value of the first index
    have eL : ∀ i ∈ range (n + 1),
        boxSum (ns.map (· + 1)) (fun js => h ((if i = 0 then 0 else 1) :: sobolSuppL js) * g (i :: js))
          = boxSum (List.replicate ns.length 2) (fun u' => h ((if i = 0 then 0 else 1) :: u') *
              boxSum (ns.map (· + 1)) (fun js => if sobolSuppL js = u' then g (i :: js) else 0)) := by
      intro i _
      exact ih (fun u' => h ((if i = 0 then 0 else 1) :: u')) (fun js => g (i :: js))
    rw [Finset.sum_congr rfl eL]
    -- right: split the condition on the head
    symm
    calc _ = ∑ b ∈ range 2, ∑ i ∈ range (n + 1), (if (if i = 0 then 0 else 1) = b then
              boxSum (List.replicate ns.length 2) (fun u' => h (b :: u') *
                boxSum (ns.map (· + 1)) (fun js => if sobolSuppL js = u' then g (i :: js) else 0)) else 0) := by
          apply Finset.sum_congr rfl; intro b _
          have e1 : ∀ i ∈ range (n + 1), (if (if i = 0 then 0 else 1) = b then
              boxSum (List.replicate ns.length 2) (fun u' => h (b :: u') *
                boxSum (ns.map (· + 1)) (fun js => if sobolSuppL js = u' then g (i :: js) else 0)) else 0)
              = boxSum (List.replicate ns.length 2) (fun u' => if (if i = 0 then 0 else 1) = b then h (b :: u') *
                boxSum (ns.map (· + 1)) (fun js => if sobolSuppL js = u' then g (i :: js) else 0) else 0) :=
            fun i _ => (sobol_boxSum_ite_const _ _ _).symm
          rw [Finset.sum_congr rfl e1, ← boxSum_sum]
          apply boxSum_congr; intro u'
          rw [Finset.mul_sum]
          apply Finset.sum_congr rfl; intro i _
          by_cases hb : (if i = 0 then 0 else 1) = b
          · simp only [hb, if_true, List.cons.injEq, true_and]
          · simp only [hb, if_false, List.cons.injEq, false_and]
            rw [boxSum_const]; simp
      _ = _ := by
          rw [Finset.sum_comm]
          apply Finset.sum_congr rfl; intro i _
          rw [Finset.sum_ite_eq]
          have : (if i = 0 then 0 else 1) ∈ range 2 := by split <;> simp
          rw [if_pos this]

end fiber
/-! ### the weight automata as masks of `sobol` -/
section
variable [CommSemiring R]

theorem sobol_natCast'_eq (n : Nat) : (natCast' n : R) = (n : R) := by
  induction n with
  | zero => simp [natCast']
  | succ n ih => simp [natCast', ih]

theorem sobol_weightT_rest (ns n : Nat) (mid last : TMode R) (hm : mid.core.rl = 2 ∧ mid.core.rr = 2 ∧ mid.ok ∧ mid.n = ns)
    (hl : last.core.rl = 2 ∧ last.ok ∧ last.n = ns) :
    Tensor.WFfrom 2 (List.replicate n mid ++ [last]) ∧
      Tensor.shape (List.replicate n mid ++ [last]) = List.replicate (n + 1) ns ∧
      (List.replicate n mid ++ [last]).getLast? = some last := by
  induction n with
  | zero => exact ⟨⟨hl.1, hl.2.1, trivial⟩, by simp [Tensor.shape, hl.2.2], by simp⟩
  | succ n ih =>
    obtain ⟨i1, i2, i3⟩ := ih
    refine ⟨⟨hm.1, hm.2.2.1, by rw [hm.2.1]; exact i1⟩, ?_, ?_⟩
    · simp only [List.replicate_succ, List.cons_append, Tensor.shape, List.map_cons, hm.2.2.2] at i2 ⊢
      rw [i2]
    · simp

/-- `tn.weight(N, nsymbols)` is a well-formed tensor of shape `nsymbols^N` with a closed trailing bond -/
theorem sobol_weightT_spec (ns N : Nat) (hN : 0 < N) :
    (weightT (R := R) ns N).WF ∧ (weightT (R := R) ns N).shape = List.replicate N ns ∧
      (weightT (R := R) ns N).sobolOpenBond = false := by
  match N, hN with
  | 1, _ => exact ⟨⟨rfl, trivial, trivial⟩, rfl, rfl⟩
  | n + 2, _ =>
    obtain ⟨i1, i2, i3⟩ := sobol_weightT_rest (R := R) ns n
      { core := .tt 2 ns 2 (fun a s b => if a = 1 ∧ b = 0 then natCast' s else if a = b then 1 else 0), U := Option.none }
      { core := .tt 2 ns 1 (fun a s _ => if a = 1 then natCast' s else 1), U := Option.none }
      ⟨rfl, rfl, trivial, rfl⟩ ⟨rfl, trivial, rfl⟩
    refine ⟨⟨rfl, trivial, i1⟩, ?_, ?_⟩
    · simp only [weightT, Tensor.shape, List.map_cons] at i2 ⊢
      rw [i2]; rfl
    · simp only [weightT, Tensor.sobolOpenBond]
      rw [← List.cons_append, List.getLast?_concat]; rfl

end
end TN

namespace TN
variable {R : Type}
section
variable [CommSemiring R]

theorem sobol_getLast?_cons {α : Type} (a : α) (l : List α) (m : α) (h : l.getLast? = some m) :
    (a :: l).getLast? = some m := by
  cases l with
  | nil => simp at h
  | cons b l => rw [List.getLast?_cons_cons]; exact h

theorem sobol_weightMask_go_last (W : List Nat) (r : Nat) : ∀ rest : List Nat, rest ≠ [] →
    ∃ m, (weightMask.go (R := R) W r rest).getLast? = some m ∧ m.core.isCP = false ∧ m.core.rr = 1 := by
  intro rest
  induction rest with
  | nil => intro h; exact absurd rfl h
  | cons x xs ih =>
    intro _
    cases xs with
    | nil => exact ⟨_, rfl, rfl, rfl⟩
    | cons y ys =>
      obtain ⟨m, h1, h2, h3⟩ := ih (by simp)
      refine ⟨m, ?_, h2, h3⟩
      simp only [weightMask.go] at h1 ⊢
      exact sobol_getLast?_cons _ _ _ h1

/-- `tn.weight_mask` has a closed trailing bond -/
theorem sobol_weightMask_closed (W : List Nat) (r : Nat) (nss : List Nat) :
    (weightMask (R := R) W r nss).sobolOpenBond = false := by
  cases nss with
  | nil => rfl
  | cons ns rest =>
    cases rest with
    | nil => rfl
    | cons y ys =>
      obtain ⟨m, h1, h2, h3⟩ := sobol_weightMask_go_last (R := R) W r (y :: ys) (by simp)
      simp only [weightMask, Tensor.sobolOpenBond]
      rw [sobol_getLast?_cons _ _ _ h1]
      simp [h2, h3]

end
end TN
