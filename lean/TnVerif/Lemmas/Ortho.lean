import TnVerif.Lemmas.Tools
import TnVerif.Lemmas.Dot
import TnVerif.Model.Ortho
/-! L4 (bond change): a matrix sitting on a bond may be multiplied into either neighbour. -/
set_option linter.unusedSectionVars false
set_option linter.unusedSimpArgs false
open Finset
namespace TN
variable {R : Type} [CommSemiring R]

/-- **L4** at the head of a chain: `(X'·M) :: Y :: rest` and `X' :: (M·Y) :: rest` have the same tail -/
theorem tail_bond (X X' Y Y' : Mode R) (M : Nat → Nat → R) (rest : List (Mode R)) (i j : Nat) (is : List Nat) (a : Nat)
    (hb : Y'.rr = Y.rr)
    (hX : ∀ b, b < X.rr → X.G i a b = ∑ c ∈ range X'.rr, X'.G i a c * M c b)
    (hY : ∀ c b, c < X'.rr → b < Y.rr → Y'.G j c b = ∑ c2 ∈ range X.rr, M c c2 * Y.G j c2 b) :
    tail (X' :: Y' :: rest) (i :: j :: is) a = tail (X :: Y :: rest) (i :: j :: is) a := by
  simp only [tail, sumTo_eq, hb]
  have e1 : ∀ c ∈ range X'.rr, X'.G i a c * ∑ b ∈ range Y.rr, Y'.G j c b * tail rest is b =
      ∑ c2 ∈ range X.rr, ∑ b ∈ range Y.rr, X'.G i a c * (M c c2 * (Y.G j c2 b * tail rest is b)) := by
    intro c hc
    have : ∀ b ∈ range Y.rr, Y'.G j c b * tail rest is b = ∑ c2 ∈ range X.rr, M c c2 * (Y.G j c2 b * tail rest is b) := by
      intro b hb'
      rw [hY c b (Finset.mem_range.mp hc) (Finset.mem_range.mp hb'), Finset.sum_mul]
      apply Finset.sum_congr rfl; intro c2 _; ring
    rw [Finset.sum_congr rfl this, Finset.sum_comm, Finset.mul_sum]
    apply Finset.sum_congr rfl; intro c2 _
    rw [Finset.mul_sum]
  have e2 : ∀ c2 ∈ range X.rr, X.G i a c2 * ∑ b ∈ range Y.rr, Y.G j c2 b * tail rest is b =
      ∑ c ∈ range X'.rr, ∑ b ∈ range Y.rr, X'.G i a c * (M c c2 * (Y.G j c2 b * tail rest is b)) := by
    intro c2 hc2
    rw [hX c2 (Finset.mem_range.mp hc2), Finset.sum_mul]
    apply Finset.sum_congr rfl; intro c _
    rw [Finset.mul_sum]
    apply Finset.sum_congr rfl; intro b _; ring
  rw [Finset.sum_congr rfl e1, Finset.sum_congr rfl e2, Finset.sum_comm]

/-- the tail of `m :: ms` only depends on the tails of `ms` on `m`'s right bond -/
theorem tail_cons_congr (m : Mode R) (ms ms' : List (Mode R)) (is : List Nat) (a : Nat)
    (h : ∀ (js : List Nat) (b : Nat), b < m.rr → tail ms js b = tail ms' js b) :
    tail (m :: ms) is a = tail (m :: ms') is a := by
  cases is with
  | nil => simp [tail]
  | cons i is =>
    simp only [tail, sumTo_eq]
    apply Finset.sum_congr rfl; intro b hb
    rw [h is b (Finset.mem_range.mp hb)]

end TN
