import TnVerif.Model.Round
import Mathlib.Algebra.Order.Field.Basic
import Mathlib.Tactic.Linarith
/-! Rank selection of `truncated_svd`: the least-rank scan and its bounds (shared by C04 and C05). -/
set_option linter.unusedSectionVars false
namespace TN
variable {K : Type} [Field K] [LinearOrder K] [IsStrictOrderedRing K]

theorem leastRank_spec (S : List K) (d2 : K) : ∀ (fuel r : Nat),
    (r ≤ leastRank S d2 fuel r) ∧ (leastRank S d2 fuel r ≤ r + fuel) ∧
    (∀ k, r ≤ k → k < leastRank S d2 fuel r → ¬ tailSum S k ≤ d2) ∧
    (leastRank S d2 fuel r < r + fuel → tailSum S (leastRank S d2 fuel r) ≤ d2) := by
  intro fuel
  induction fuel with
  | zero => intro r; simp [leastRank]; intro k h1 h2; omega
  | succ fuel ih =>
    intro r
    simp only [leastRank]
    split
    · rename_i h
      refine ⟨le_refl _, by omega, ?_, fun _ => h⟩
      intro k h1 h2; omega
    · rename_i h
      obtain ⟨i1, i2, i3, i4⟩ := ih (r + 1)
      refine ⟨by omega, by omega, ?_, ?_⟩
      · intro k h1 h2
        by_cases hk : k = r
        · subst hk; exact h
        · exact i3 k (by omega) h2
      · intro hlt; exact i4 (by omega)

theorem tailSum_length (S : List K) : ∀ r, S.length ≤ r → tailSum S r = 0 := by
  induction S with
  | nil => intro r _; cases r <;> rfl
  | cons x xs ih =>
    intro r h
    cases r with
    | zero => simp at h
    | succ r => simpa [tailSum] using ih r (by simpa using h)

/-- **minimality**: below the selected (uncapped) rank the discarded tail exceeds the budget;
    at it, the tail is within the budget (for a non-negative budget). -/
theorem leastRank_minimal (S : List K) (d2 : K) (hd : 0 ≤ d2) :
    tailSum S (leastRank S d2 S.length 0) ≤ d2 ∧ ∀ k, k < leastRank S d2 S.length 0 → ¬ tailSum S k ≤ d2 := by
  obtain ⟨_, h2, h3, h4⟩ := leastRank_spec S d2 S.length 0
  constructor
  · by_cases h : leastRank S d2 S.length 0 < 0 + S.length
    · exact h4 h
    · have : leastRank S d2 S.length 0 = S.length := by omega
      rw [this, tailSum_length S S.length (le_refl _)]; exact hd
  · intro k hk; exact h3 k (Nat.zero_le _) hk

/-- **ranks**: at least 1, at most `rmax` (when `rmax ≥ 1`), at most the number of singular values
    (when there is one) — so rounding never raises a rank above what the SVD has. -/
theorem rankSelect_bounds (S : List K) (d2 : K) (rmax : Nat) :
    1 ≤ rankSelect S d2 rmax ∧ (1 ≤ rmax → rankSelect S d2 rmax ≤ rmax) ∧ (1 ≤ S.length → rankSelect S d2 rmax ≤ S.length) := by
  obtain ⟨_, h2, _, _⟩ := leastRank_spec S d2 S.length 0
  unfold rankSelect
  refine ⟨by omega, fun h => by omega, fun h => ?_⟩
  have : leastRank S d2 S.length 0 ≤ S.length := by omega
  omega

/-- uncapped and with at least one non-discardable value the selected rank is exactly the least one -/
theorem rankSelect_uncapped (S : List K) (d2 : K) (rmax : Nat) (h1 : 1 ≤ leastRank S d2 S.length 0)
    (h2 : leastRank S d2 S.length 0 ≤ rmax) : rankSelect S d2 rmax = leastRank S d2 S.length 0 := by
  unfold rankSelect; omega

end TN
