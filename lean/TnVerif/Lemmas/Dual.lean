import TnVerif.Model.Dual
import Mathlib.Algebra.Ring.Defs
import Mathlib.Tactic.Ring
/-! `Dual R` is a commutative ring: every ring-generic theorem of this development holds verbatim for
    dual numbers, i.e. for values *and* first-order tangents. -/
namespace TN
namespace Dual
variable {R : Type} [CommRing R]

@[ext] theorem ext' {x y : Dual R} (h1 : x.v = y.v) (h2 : x.d = y.d) : x = y := by
  cases x; cases y; simp_all

@[simp] theorem add_v (x y : Dual R) : (x + y).v = x.v + y.v := rfl
@[simp] theorem add_d (x y : Dual R) : (x + y).d = x.d + y.d := rfl
@[simp] theorem mul_v (x y : Dual R) : (x * y).v = x.v * y.v := rfl
@[simp] theorem mul_d (x y : Dual R) : (x * y).d = x.v * y.d + x.d * y.v := rfl
@[simp] theorem zero_v : (0 : Dual R).v = 0 := rfl
@[simp] theorem zero_d : (0 : Dual R).d = 0 := rfl
@[simp] theorem one_v : (1 : Dual R).v = 1 := rfl
@[simp] theorem one_d : (1 : Dual R).d = 0 := rfl
@[simp] theorem neg_v (x : Dual R) : (-x).v = -x.v := rfl
@[simp] theorem neg_d (x : Dual R) : (-x).d = -x.d := rfl
@[simp] theorem sub_v (x y : Dual R) : (x - y).v = x.v - y.v := rfl
@[simp] theorem sub_d (x y : Dual R) : (x - y).d = x.d - y.d := rfl

instance : CommRing (Dual R) where
  add := (· + ·)
  mul := (· * ·)
  zero := 0
  one := 1
  neg := (- ·)
  sub := (· - ·)
  sub_eq_add_neg := by intros; ext <;> simp <;> ring
  add_assoc := by intros; ext <;> simp <;> ring
  zero_add := by intros; ext <;> simp
  add_zero := by intros; ext <;> simp
  add_comm := by intros; ext <;> simp <;> ring
  left_distrib := by intros; ext <;> simp <;> ring
  right_distrib := by intros; ext <;> simp <;> ring
  zero_mul := by intros; ext <;> simp
  mul_zero := by intros; ext <;> simp
  mul_assoc := by intros; ext <;> simp <;> ring
  one_mul := by intros; ext <;> simp
  mul_one := by intros; ext <;> simp
  mul_comm := by intros; ext <;> simp <;> ring
  neg_add_cancel := by intros; ext <;> simp
  nsmul := nsmulRec
  zsmul := zsmulRec

end Dual
end TN
