import TnVerif.Lemmas.Index
/-! The key as a re-indexing: `S` is the tail of the original chain at the source index. -/
set_option linter.unusedSectionVars false
set_option linter.unusedSimpArgs false
open Finset
namespace TN
variable {R : Type} [CommSemiring R]

/-- source index in the original array of an output index, read through the (grouped) key:
    an integer contributes itself, a slice `start + j·step`, `None` nothing, a run the zipped entries -/
def srcIdx : List GItem → List Nat → List Nat
  | [], _ => []
  | .int k :: ks, out => k :: srcIdx ks out
  | .slice a0 st _ :: ks, j :: out => (a0 + j * st) :: srcIdx ks out
  | .none :: ks, _ :: out => srcIdx ks out
  | .run ls :: ks, p :: out => ls.map (fun l => l.getD p 0) ++ srcIdx ks out
  | _, _ => []

/-- shape of the result -/
def outShape : List GItem → List Nat
  | [] => []
  | .int _ :: ks => outShape ks
  | .slice _ _ c :: ks => c :: outShape ks
  | .none :: ks => 1 :: outShape ks
  | .run ls :: ks => (ls.head?.map List.length).getD 0 :: outShape ks

/-- the key consumes exactly `nm` modes and produces `no` output modes -/
def fits : List GItem → Nat → Nat → Prop
  | [], 0, 0 => True
  | .int _ :: ks, nm + 1, no => fits ks nm no
  | .slice _ _ _ :: ks, nm + 1, no + 1 => fits ks nm no
  | .none :: ks, nm, no + 1 => fits ks nm no
  | .run (l :: ls) :: ks, nm + 1, no + 1 => ls.length ≤ nm ∧ fits ks (nm - ls.length) no
  | _, _, _ => False

omit [CommSemiring R] in
theorem wf_drop_run (ls : List (List Nat)) : ∀ (ms : List (Mode R)) (rin : Nat), wf rin ms → ls.length ≤ ms.length →
    wf (runRR ls ms rin) (ms.drop ls.length) := by
  induction ls with
  | nil => intro ms rin h _; simpa [runRR] using h
  | cons l ls ih =>
    intro ms rin h hl
    cases ms with
    | nil => simp at hl
    | cons m ms => simpa [runRR] using ih ms m.rr h.2 (by simpa using hl)

theorem tail_run (ls : List (List Nat)) : ∀ (ms : List (Mode R)) (p : Nat) (suf : List Nat) (rin a : Nat),
    wf rin ms → ls.length ≤ ms.length → a < rin →
    tail ms (ls.map (fun l => l.getD p 0) ++ suf) a =
      ∑ b ∈ range (runRR ls ms rin), runMat ls ms p a b * tail (ms.drop ls.length) suf b := by
  induction ls with
  | nil =>
    intro ms p suf rin a _ _ ha
    simp only [List.map_nil, List.nil_append, runRR, runMat, List.length_nil, List.drop_zero]
    rw [Finset.sum_eq_single a]
    · simp
    · intro b _ hb; simp [Ne.symm hb]
    · intro hh; exact absurd (Finset.mem_range.mpr ha) hh
  | cons l ls ih =>
    intro ms p suf rin a hw hl ha
    cases ms with
    | nil => simp at hl
    | cons m ms =>
      simp only [List.map_cons, List.cons_append, tail, sumTo_eq, runRR, runMat, List.length_cons, List.drop_succ_cons]
      have : ∀ k ∈ range m.rr, m.G (l.getD p 0) a k * tail ms (ls.map (fun l => l.getD p 0) ++ suf) k =
          ∑ b ∈ range (runRR ls ms m.rr), m.G (l.getD p 0) a k * (runMat ls ms p k b * tail (ms.drop ls.length) suf b) := by
        intro k hk
        rw [ih ms p suf m.rr k hw.2 (by simpa using hl) (Finset.mem_range.mp hk), Finset.mul_sum]
      rw [Finset.sum_congr rfl this, Finset.sum_comm]
      apply Finset.sum_congr rfl; intro b _
      rw [Finset.sum_mul]
      apply Finset.sum_congr rfl; intro k _; ring

/-- `S` is the tail of the original chain at the source index -/
theorem S_eq_tail (ks : List GItem) : ∀ (ms : List (Mode R)) (out : List Nat) (rin a : Nat),
    wf rin ms → fits ks ms.length out.length → a < rin →
    S ks ms out a = tail ms (srcIdx ks out) a := by
  induction ks with
  | nil =>
    intro ms out rin a _ hf _
    cases ms with
    | nil => simp [S, srcIdx, tail]
    | cons _ _ => simp [fits] at hf
  | cons k ks ih =>
    intro ms out rin a hw hf ha
    cases k with
    | int k =>
      cases ms with
      | nil => simp [fits] at hf
      | cons m ms =>
        simp only [S, srcIdx, tail, sumTo_eq]
        apply Finset.sum_congr rfl; intro b hb
        rw [ih ms out m.rr b hw.2 (by simpa [fits] using hf) (Finset.mem_range.mp hb)]
    | slice a0 st c =>
      cases ms with
      | nil => cases out <;> simp [fits] at hf
      | cons m ms =>
        cases out with
        | nil => simp [fits] at hf
        | cons j out =>
          simp only [S, srcIdx, tail, sumTo_eq]
          apply Finset.sum_congr rfl; intro b hb
          rw [ih ms out m.rr b hw.2 (by simpa [fits] using hf) (Finset.mem_range.mp hb)]
    | none =>
      cases out with
      | nil => cases ms <;> simp [fits] at hf
      | cons j out =>
        simp only [S, srcIdx]
        exact ih ms out rin a hw (by cases ms <;> simpa [fits] using hf) ha
    | run ls =>
      cases ls with
      | nil => cases ms <;> cases out <;> simp [fits] at hf
      | cons l ls =>
        cases ms with
        | nil => cases out <;> simp [fits] at hf
        | cons m ms =>
          cases out with
          | nil => simp [fits] at hf
          | cons p out =>
            simp only [fits, List.length_cons] at hf
            obtain ⟨hl, hf'⟩ := hf
            simp only [S, srcIdx]
            rw [tail_run (l :: ls) (m :: ms) p (srcIdx ks out) rin a hw (by simpa using hl) ha]
            simp only [runRR, List.length_cons, List.drop_succ_cons]
            apply Finset.sum_congr rfl; intro b hb
            congr 1
            exact ih (ms.drop ls.length) out (runRR ls ms m.rr) b (wf_drop_run ls ms m.rr hw.2 hl)
              (by simpa [List.length_drop] using hf') (Finset.mem_range.mp hb)

end TN
