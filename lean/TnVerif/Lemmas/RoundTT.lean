import TnVerif.Model.RoundTT
import TnVerif.Lemmas.Chain
import Mathlib.Algebra.BigOperators.Intervals
import Mathlib.Tactic.Ring
import Mathlib.Tactic.Linarith
import Mathlib.Tactic.Positivity
import Mathlib.Algebra.Order.Field.Basic
/-! Error of the `round_tt` sweep: per-step Pythagoras and the assembly over the sweep. -/
set_option linter.unusedSectionVars false
set_option linter.unusedVariables false
open Finset
namespace TN
variable {R : Type} [CommRing R]

theorem boxSum_cons (n : Nat) (ns : List Nat) (f : List Nat → R) :
    boxSum (n :: ns) f = ∑ i ∈ range n, boxSum ns (fun is => f (i :: is)) := by
  simp only [boxSum, sumTo_eq]

theorem boxSum_zero (s : List Nat) : boxSum s (fun _ => (0 : R)) = 0 := by
  have := boxSum_mul_left s (0 : R) (fun _ => 0); simpa using this

theorem boxSum_sub (s : List Nat) (f g : List Nat → R) :
    boxSum s (fun is => f is - g is) = boxSum s f - boxSum s g := by
  have h1 := boxSum_add s f (fun is => (-1 : R) * g is)
  rw [boxSum_mul_left] at h1
  have : (fun is => f is - g is) = (fun is => f is + (-1 : R) * g is) := by funext is; ring
  rw [this, h1]; ring

theorem boxSum_mul_right (s : List Nat) (c : R) (f : List Nat → R) :
    boxSum s (fun is => f is * c) = boxSum s f * c := by
  have : (fun is => f is * c) = (fun is => c * f is) := by funext is; ring
  rw [this, boxSum_mul_left]; ring

/-- rows of `V` orthonormal over the column set `(i, b)`: `Σ_{i,b} (Σ_l C_l V_l(i,b))² = Σ_l C_l²` -/
theorem rowiso (n nI nB : Nat) (C : Nat → R) (V : Nat → Nat → Nat → R)
    (hV : ∀ k l, k < n → l < n → (∑ i ∈ range nI, ∑ b ∈ range nB, V k i b * V l i b) = if k = l then 1 else 0) :
    (∑ i ∈ range nI, ∑ b ∈ range nB, (∑ l ∈ range n, C l * V l i b) ^ 2) = ∑ l ∈ range n, C l ^ 2 := by
  have e1 : ∀ i ∈ range nI, ∀ b ∈ range nB, (∑ l ∈ range n, C l * V l i b) ^ 2
      = ∑ l ∈ range n, ∑ l' ∈ range n, (C l * C l') * (V l i b * V l' i b) := by
    intro i _ b _
    rw [sq, Finset.sum_mul_sum]
    apply Finset.sum_congr rfl; intro l _; apply Finset.sum_congr rfl; intro l' _; ring
  rw [Finset.sum_congr rfl (fun i hi => Finset.sum_congr rfl (e1 i hi))]
  have e2 : (∑ i ∈ range nI, ∑ b ∈ range nB, ∑ l ∈ range n, ∑ l' ∈ range n, (C l * C l') * (V l i b * V l' i b))
      = ∑ l ∈ range n, ∑ l' ∈ range n, (C l * C l') * (∑ i ∈ range nI, ∑ b ∈ range nB, V l i b * V l' i b) := by
    calc _ = ∑ i ∈ range nI, ∑ l ∈ range n, ∑ b ∈ range nB, ∑ l' ∈ range n, (C l * C l') * (V l i b * V l' i b) := by
            apply Finset.sum_congr rfl; intro i _; rw [Finset.sum_comm]
      _ = ∑ l ∈ range n, ∑ i ∈ range nI, ∑ b ∈ range nB, ∑ l' ∈ range n, (C l * C l') * (V l i b * V l' i b) := by
            rw [Finset.sum_comm]
      _ = ∑ l ∈ range n, ∑ i ∈ range nI, ∑ l' ∈ range n, ∑ b ∈ range nB, (C l * C l') * (V l i b * V l' i b) := by
            apply Finset.sum_congr rfl; intro l _; apply Finset.sum_congr rfl; intro i _; rw [Finset.sum_comm]
      _ = ∑ l ∈ range n, ∑ l' ∈ range n, ∑ i ∈ range nI, ∑ b ∈ range nB, (C l * C l') * (V l i b * V l' i b) := by
            apply Finset.sum_congr rfl; intro l _; rw [Finset.sum_comm]
      _ = _ := by
            apply Finset.sum_congr rfl; intro l _; apply Finset.sum_congr rfl; intro l' _
            rw [Finset.mul_sum]; apply Finset.sum_congr rfl; intro i _; rw [Finset.mul_sum]
  rw [e2]
  apply Finset.sum_congr rfl; intro l hl
  rw [Finset.sum_eq_single l]
  · rw [hV l l (Finset.mem_range.mp hl) (Finset.mem_range.mp hl)]; simp [sq]
  · intro l' hl' hne
    rw [hV l l' (Finset.mem_range.mp hl) (Finset.mem_range.mp hl')]; simp [Ne.symm hne]
  · intro h; exact absurd hl h

/-- `Σ_x (Σ_a X_a u_a)(Σ_a' X_a' u'_a') = Σ_a u_a u'_a` when the `X_a` are orthonormal under `boxSum` -/
theorem boxSum_orth_pair (s : List Nat) (p : Nat) (X : List Nat → Nat → R)
    (hX : ∀ a, a < p → ∀ a', a' < p → boxSum s (fun x => X x a * X x a') = if a = a' then 1 else 0)
    (u u' : Nat → R) :
    boxSum s (fun x => (∑ a ∈ range p, X x a * u a) * (∑ a ∈ range p, X x a * u' a)) = ∑ a ∈ range p, u a * u' a := by
  have e : (fun x => (∑ a ∈ range p, X x a * u a) * (∑ a ∈ range p, X x a * u' a))
      = (fun x => ∑ a ∈ range p, ∑ a' ∈ range p, (u a * u' a') * (X x a * X x a')) := by
    funext x; rw [Finset.sum_mul_sum]
    apply Finset.sum_congr rfl; intro a _; apply Finset.sum_congr rfl; intro a' _; ring
  rw [e, boxSum_sum]
  apply Finset.sum_congr rfl; intro a ha
  rw [boxSum_sum, Finset.sum_eq_single a]
  · rw [boxSum_mul_left, hX a (Finset.mem_range.mp ha) a (Finset.mem_range.mp ha)]; simp
  · intro a' ha' hne
    rw [boxSum_mul_left, hX a (Finset.mem_range.mp ha) a' (Finset.mem_range.mp ha')]; simp [Ne.symm hne]
  · intro h; exact absurd ha h

/-- **one truncation step, Pythagoras**: with `X` orthonormal (the interface of the left-orthogonal cores to the left),
    `M = U·diag(S)·Vh` the kernel's SVD of the current unfolding and `Yh` ANY later approximation of the
    left part `Y = X·U_r·S_r`, the squared error splits into the discarded tail and the later error. -/
theorem pythag (s : List Nat) (p : Nat) (X : List Nat → Nat → R)
    (hX : ∀ a, a < p → ∀ a', a' < p → boxSum s (fun x => X x a * X x a') = if a = a' then 1 else 0)
    (nI nB : Nat) (M : Nat → Nat → Nat → R) (A : SVDAns R) (r : Nat) (hr : r ≤ A.n)
    (hf : ∀ a, a < p → ∀ i, i < nI → ∀ b, b < nB → M a i b = ∑ l ∈ range A.n, A.U a l * (A.S l * A.Vh l i b))
    (hU : ∀ k l, k < A.n → l < A.n → (∑ a ∈ range p, A.U a k * A.U a l) = if k = l then 1 else 0)
    (hV : ∀ k l, k < A.n → l < A.n → (∑ i ∈ range nI, ∑ b ∈ range nB, A.Vh k i b * A.Vh l i b) = if k = l then 1 else 0)
    (Yh : List Nat → Nat → R) :
    boxSum s (fun x => ∑ i ∈ range nI, ∑ b ∈ range nB,
        ((∑ a ∈ range p, X x a * M a i b) - ∑ k ∈ range r, Yh x k * A.Vh k i b) ^ 2)
      = (∑ l ∈ Ico r A.n, A.S l ^ 2)
        + boxSum s (fun x => ∑ k ∈ range r, ((∑ a ∈ range p, X x a * (A.U a k * A.S k)) - Yh x k) ^ 2) := by
  -- coefficients in the basis of the rows of Vh
  let W : List Nat → Nat → R := fun x l => ∑ a ∈ range p, X x a * A.U a l
  let C : List Nat → Nat → R := fun x l => W x l * A.S l - (if l < r then Yh x l else 0)
  have ea : ∀ x, ∀ i ∈ range nI, ∀ b ∈ range nB,
      ((∑ a ∈ range p, X x a * M a i b) - ∑ k ∈ range r, Yh x k * A.Vh k i b) = ∑ l ∈ range A.n, C x l * A.Vh l i b := by
    intro x i hi b hb
    have h1 : (∑ a ∈ range p, X x a * M a i b) = ∑ l ∈ range A.n, (W x l * A.S l) * A.Vh l i b := by
      have : ∀ a ∈ range p, X x a * M a i b = ∑ l ∈ range A.n, (X x a * A.U a l) * (A.S l * A.Vh l i b) := by
        intro a ha
        rw [hf a (Finset.mem_range.mp ha) i (Finset.mem_range.mp hi) b (Finset.mem_range.mp hb), Finset.mul_sum]
        apply Finset.sum_congr rfl; intro l _; ring
      rw [Finset.sum_congr rfl this, Finset.sum_comm]
      apply Finset.sum_congr rfl; intro l _
      simp only [W]; rw [Finset.sum_mul, Finset.sum_mul]
      apply Finset.sum_congr rfl; intro a _; ring
    have h2 : (∑ k ∈ range r, Yh x k * A.Vh k i b) = ∑ l ∈ range A.n, (if l < r then Yh x l else 0) * A.Vh l i b := by
      rw [← Finset.sum_range_add_sum_Ico (fun l => (if l < r then Yh x l else 0) * A.Vh l i b) hr]
      have z : (∑ l ∈ Ico r A.n, (if l < r then Yh x l else 0) * A.Vh l i b) = 0 := by
        apply Finset.sum_eq_zero; intro l hl
        have : ¬ l < r := by have := (Finset.mem_Ico.mp hl).1; omega
        simp [this]
      rw [z, add_zero]
      apply Finset.sum_congr rfl; intro l hl; simp [Finset.mem_range.mp hl]
    rw [h1, h2, ← Finset.sum_sub_distrib]
    apply Finset.sum_congr rfl; intro l _; simp only [C]; ring
  have eb : (fun x => ∑ i ∈ range nI, ∑ b ∈ range nB,
        ((∑ a ∈ range p, X x a * M a i b) - ∑ k ∈ range r, Yh x k * A.Vh k i b) ^ 2)
      = (fun x => (∑ k ∈ range r, ((∑ a ∈ range p, X x a * (A.U a k * A.S k)) - Yh x k) ^ 2)
          + ∑ t ∈ range (A.n - r), A.S (r + t) ^ 2 * (W x (r + t) * W x (r + t))) := by
    funext x
    rw [Finset.sum_congr rfl (fun i hi => Finset.sum_congr rfl (fun b hb => by rw [ea x i hi b hb]))]
    rw [rowiso A.n nI nB (C x) A.Vh hV, ← Finset.sum_range_add_sum_Ico _ hr, Finset.sum_Ico_eq_sum_range]
    congr 1
    · apply Finset.sum_congr rfl; intro k hk
      simp only [C, W, Finset.mem_range.mp hk, if_true]
      congr 1; congr 1
      rw [Finset.sum_mul]; apply Finset.sum_congr rfl; intro a _; ring
    · apply Finset.sum_congr rfl; intro t _
      have : ¬ (r + t < r) := by omega
      simp only [C, this, if_false]; ring
  rw [eb, boxSum_add, add_comm]
  congr 1
  rw [boxSum_sum, Finset.sum_Ico_eq_sum_range]
  apply Finset.sum_congr rfl; intro t ht
  rw [boxSum_mul_left]
  have hl : r + t < A.n := by have := Finset.mem_range.mp ht; omega
  have := boxSum_orth_pair s p X hX (fun a => A.U a (r + t)) (fun a => A.U a (r + t))
  simp only [W]
  rw [this, hU (r + t) (r + t) hl hl]; simp

/-! ### the reversed chain with an open right bond -/

/-- right bond of the reversed chain's rightmost (= first listed) mode; 1 for the empty chain (the left boundary) -/
def topRank : List (Mode R) → Nat
  | [] => 1
  | m :: _ => m.rr

/-- entry `[0, b]` of `G_1(i_1) ⋯ G_k(i_k)` for the reversed chain `[G_k, …, G_1]` and reversed indices -/
def openRev : List (Mode R) → List Nat → Nat → R
  | [], [], b => if b = 0 then 1 else 0
  | m :: rest, i :: is, b => ∑ a ∈ range m.rl, openRev rest is a * m.G i a b
  | _, _, _ => 0

def leftOrthoM (m : Mode R) : Prop :=
  ∀ d, d < m.rr → ∀ d', d' < m.rr → (∑ c ∈ range m.rl, ∑ i ∈ range m.n, m.G i c d * m.G i c d') = if d = d' then 1 else 0

/-- reversed chain of left-orthonormal modes with matching ranks and left boundary rank 1 -/
def chainLO : List (Mode R) → Prop
  | [] => True
  | m :: rest => m.rl = topRank rest ∧ leftOrthoM m ∧ chainLO rest

def shapeRev (l : List (Mode R)) : List Nat := l.map (·.n)

/-- the interface of a left-orthonormal chain is an isometry -/
theorem LO_iso (rest : List (Mode R)) : chainLO rest → ∀ a, a < topRank rest → ∀ a', a' < topRank rest →
    boxSum (shapeRev rest) (fun is => openRev rest is a * openRev rest is a') = if a = a' then 1 else 0 := by
  induction rest with
  | nil =>
    intro _ a ha a' ha'
    simp only [topRank] at ha ha'
    have : a = 0 := by omega
    have : a' = 0 := by omega
    subst_vars; simp [shapeRev, boxSum, openRev]
  | cons m rest ih =>
    intro ⟨hl, ho, hc⟩ a ha a' ha'
    simp only [topRank] at ha ha'
    simp only [shapeRev, List.map_cons, boxSum, sumTo_eq, openRev]
    have ih' := ih hc
    have e : ∀ i ∈ range m.n, boxSum (List.map (fun x => x.n) rest)
          (fun is => (∑ c ∈ range m.rl, openRev rest is c * m.G i c a) * (∑ c ∈ range m.rl, openRev rest is c * m.G i c a'))
        = ∑ c ∈ range m.rl, m.G i c a * m.G i c a' := by
      intro i _
      rw [hl]
      exact boxSum_orth_pair (shapeRev rest) (topRank rest) (fun is c => openRev rest is c) ih' (fun c => m.G i c a) (fun c => m.G i c a')
    rw [Finset.sum_congr rfl e, Finset.sum_comm]
    exact ho a ha a' ha'

/-- kernel contract of `torch.linalg.svd` for the right unfolding of `cur` -/
structure SVDokM (cur : Mode R) (A : SVDAns R) : Prop where
  factor : ∀ a, a < cur.rl → ∀ i, i < cur.n → ∀ b, b < cur.rr → cur.G i a b = ∑ l ∈ range A.n, A.U a l * (A.S l * A.Vh l i b)
  orthoU : ∀ k l, k < A.n → l < A.n → (∑ a ∈ range cur.rl, A.U a k * A.U a l) = if k = l then 1 else 0
  orthoV : ∀ k l, k < A.n → l < A.n → (∑ i ∈ range cur.n, ∑ b ∈ range cur.rr, A.Vh k i b * A.Vh l i b) = if k = l then 1 else 0


/-! ### assembly over the sweep -/
section sweep
variable {K : Type} [Field K] [LinearOrder K] [IsStrictOrderedRing K]

/-- sum of the discarded tails of all steps -/
def sweepErr (thr d2 : K) : List (Mode K) → List (SVDAns K × Nat) → K
  | cur :: p :: rest, (A, rmax) :: as =>
      (∑ l ∈ Ico (stepRank thr d2 A rmax) A.n, A.S l ^ 2)
        + sweepErr thr d2 ((roundStep p cur (stepAns thr A) (stepRank thr d2 A rmax)).1 :: rest) as
  | _, _ => 0

/-- every kernel answer meets its contract for the matrix it was computed from, and no step takes the
    absolute-zero special case -/
def ansOK (thr d2 : K) : List (Mode K) → List (SVDAns K × Nat) → Prop
  | cur :: p :: rest, (A, rmax) :: as =>
      SVDokM cur A ∧ thr ≤ A.S 0 ∧ 1 ≤ A.n ∧
        ansOK thr d2 ((roundStep p cur (stepAns thr A) (stepRank thr d2 A rmax)).1 :: rest) as
  | _, _ => True

theorem stepRank_le (thr d2 : K) (A : SVDAns K) (rmax : Nat) (h0 : thr ≤ A.S 0) (h1 : 1 ≤ A.n) :
    stepRank thr d2 A rmax ≤ A.n := by
  simp only [stepRank, h0, if_true]
  have hlen : A.sq.length = A.n := by simp [SVDAns.sq]
  have : leastRank A.sq d2 A.sq.length 0 ≤ A.sq.length := by
    have h : ∀ (S : List K) (fuel r : Nat), leastRank S d2 fuel r ≤ r + fuel := by
      intro S fuel
      induction fuel with
      | zero => intro r; simp [leastRank]
      | succ f ih => intro r; simp only [leastRank]; split
                     · omega
                     · have := ih (r + 1); omega
    have := h A.sq A.sq.length 0; omega
  unfold rankSelect; omega

theorem openRev_step (p cur : Mode K) (A : SVDAns K) (r : Nat) (rest : List (Mode K)) (hc : cur.rl = p.rr) (x : List Nat) (k : Nat) :
    openRev ((roundStep p cur A r).1 :: rest) x k = ∑ a ∈ range cur.rl, openRev (p :: rest) x a * (A.U a k * A.S k) := by
  cases x with
  | nil => simp [openRev]
  | cons j js =>
    simp only [openRev, roundStep, sumTo_eq, hc]
    have e : ∀ c ∈ range p.rl, openRev rest js c * (∑ a ∈ range p.rr, p.G j c a * (A.U a k * A.S k))
        = ∑ a ∈ range p.rr, (openRev rest js c * p.G j c a) * (A.U a k * A.S k) := by
      intro c _; rw [Finset.mul_sum]; apply Finset.sum_congr rfl; intro a _; ring
    rw [Finset.sum_congr rfl e, Finset.sum_comm]
    apply Finset.sum_congr rfl; intro a _; rw [Finset.sum_mul]

/-- **error of the truncation sweep = sum of the discarded tails** (Pythagoras over the sweep) -/
theorem sweep_error (thr d2 : K) : ∀ (rest : List (Mode K)) (cur : Mode K) (as : List (SVDAns K × Nat)),
    chainLO rest → cur.rl = topRank rest → ansOK thr d2 (cur :: rest) as →
    boxSum (shapeRev (cur :: rest)) (fun is => ∑ b ∈ range cur.rr,
        (openRev (cur :: rest) is b - openRev (sweepRev thr d2 (cur :: rest) as) is b) ^ 2)
      = sweepErr thr d2 (cur :: rest) as := by
  intro rest
  induction rest with
  | nil =>
    intro cur as _ _ _
    have : sweepRev thr d2 [cur] as = [cur] := by cases as <;> simp [sweepRev]
    rw [this]
    simp only [sub_self, ne_eq, OfNat.ofNat_ne_zero, not_false_eq_true, zero_pow, Finset.sum_const_zero]
    rw [boxSum_zero]; cases as <;> simp [sweepErr]
  | cons p rest ih =>
    intro cur as hlo hrl hok
    cases as with
    | nil =>
      simp only [sweepRev, sweepErr, sub_self, ne_eq, OfNat.ofNat_ne_zero, not_false_eq_true, zero_pow, Finset.sum_const_zero]
      rw [boxSum_zero]
    | cons Ar as' =>
      obtain ⟨A, rmax⟩ := Ar
      obtain ⟨hsvd, h0, h1, hok'⟩ := hok
      have hr := stepRank_le thr d2 A rmax h0 h1
      have hA : stepAns thr A = A := by simp [stepAns, h0]
      simp only [sweepRev, sweepErr, hA] at hok' ⊢
      generalize hrdef : stepRank thr d2 A rmax = r at hok' hr ⊢
      have hcp : cur.rl = p.rr := by simpa [topRank] using hrl
      have ihh := ih (roundStep p cur A r).1 as' hlo.2.2 (by simpa [roundStep] using hlo.1) hok'
      -- left-hand side: bring the sum over the last index inside the box sum
      have hs0 : shapeRev (cur :: p :: rest) = cur.n :: shapeRev (p :: rest) := rfl
      rw [hs0, boxSum_cons, ← boxSum_sum]
      have hpy := pythag (shapeRev (p :: rest)) cur.rl (fun x a => openRev (p :: rest) x a)
        (by rw [hcp]; exact LO_iso (p :: rest) hlo) cur.n cur.rr (fun a i b => cur.G i a b) A r hr
        hsvd.factor hsvd.orthoU hsvd.orthoV (fun x k => openRev (sweepRev thr d2 ((roundStep p cur A r).1 :: rest) as') x k)
      have e1 : (fun is => ∑ x ∈ range cur.n, ∑ b ∈ range cur.rr,
            (openRev (cur :: p :: rest) (x :: is) b
              - openRev ((roundStep p cur A r).2 :: sweepRev thr d2 ((roundStep p cur A r).1 :: rest) as') (x :: is) b) ^ 2)
          = (fun x => ∑ i ∈ range cur.n, ∑ b ∈ range cur.rr,
              ((∑ a ∈ range cur.rl, openRev (p :: rest) x a * cur.G i a b)
                - ∑ k ∈ range r, openRev (sweepRev thr d2 ((roundStep p cur A r).1 :: rest) as') x k * A.Vh k i b) ^ 2) := by
        funext is; rfl
      rw [e1, hpy]
      congr 1
      have e2 : (fun x => ∑ k ∈ range r, ((∑ a ∈ range cur.rl, openRev (p :: rest) x a * (A.U a k * A.S k))
              - openRev (sweepRev thr d2 ((roundStep p cur A r).1 :: rest) as') x k) ^ 2)
          = (fun is => ∑ b ∈ range (roundStep p cur A r).1.rr,
              (openRev ((roundStep p cur A r).1 :: rest) is b - openRev (sweepRev thr d2 ((roundStep p cur A r).1 :: rest) as') is b) ^ 2) := by
        funext x
        show _ = ∑ b ∈ range r, _
        apply Finset.sum_congr rfl; intro k _
        rw [openRev_step p cur A r rest hcp x k]
      rw [e2]
      exact ihh


/-- the discarded tail as a finite sum: `tailSum S r = Σ_{r ≤ l < |S|} S_l` -/
theorem tailSum_eq_sumIco (S : List K) : ∀ r, tailSum S r = ∑ l ∈ Ico r S.length, S.getD l 0 := by
  induction S with
  | nil => intro r; cases r <;> simp [tailSum]
  | cons x xs ih =>
    intro r
    cases r with
    | zero =>
      rw [tailSum, ih 0]
      simp only [List.length_cons, Nat.Ico_zero_eq_range]
      rw [Finset.sum_range_succ']
      simp [add_comm]
    | succ r =>
      rw [tailSum, ih r, List.length_cons, ← Finset.sum_Ico_add' _ r xs.length 1]
      apply Finset.sum_congr rfl; intro l _; simp

theorem tailSum_succ_le (S : List K) (hS : ∀ x ∈ S, 0 ≤ x) : ∀ r, tailSum S (r + 1) ≤ tailSum S r := by
  induction S with
  | nil => intro r; cases r <;> simp [tailSum]
  | cons x xs ih =>
    intro r
    have hx : 0 ≤ x := hS x (by simp)
    have ih' := ih (fun y hy => hS y (by simp [hy]))
    cases r with
    | zero => simp only [tailSum]; linarith
    | succ r => simp only [tailSum]; exact ih' r

theorem tailSum_antitone (S : List K) (hS : ∀ x ∈ S, 0 ≤ x) (r r' : Nat) (h : r ≤ r') : tailSum S r' ≤ tailSum S r := by
  induction r', h using Nat.le_induction with
  | base => exact le_refl _
  | succ k _ ih => exact le_trans (tailSum_succ_le S hS k) ih

theorem sq_nonneg_list (A : SVDAns K) : ∀ x ∈ A.sq, 0 ≤ x := by
  intro x hx
  simp only [SVDAns.sq, List.mem_map] at hx
  obtain ⟨l, _, rfl⟩ := hx
  exact mul_self_nonneg _

theorem tail_as_tailSum (A : SVDAns K) (r : Nat) : (∑ l ∈ Ico r A.n, A.S l ^ 2) = tailSum A.sq r := by
  rw [tailSum_eq_sumIco]
  have hlen : A.sq.length = A.n := by simp [SVDAns.sq]
  rw [hlen]
  apply Finset.sum_congr rfl; intro l hl
  have hl' := (Finset.mem_Ico.mp hl).2
  simp [SVDAns.sq, hl', sq]

/-- `rmax` never binds: at every step the least admissible rank is within the cap -/
def uncapped (thr d2 : K) : List (Mode K) → List (SVDAns K × Nat) → Prop
  | cur :: p :: rest, (A, rmax) :: as =>
      leastRank A.sq d2 A.sq.length 0 ≤ rmax ∧
        uncapped thr d2 ((roundStep p cur (stepAns thr A) (stepRank thr d2 A rmax)).1 :: rest) as
  | _, _ => True

/-- the least-rank scan stops within the budget (restated here; `C04.leastRank_minimal`) -/
theorem leastRank_within (S : List K) (d2 : K) (hd : 0 ≤ d2) : tailSum S (leastRank S d2 S.length 0) ≤ d2 := by
  have key : ∀ (fuel r : Nat), leastRank S d2 fuel r ≤ r + fuel ∧
      (leastRank S d2 fuel r < r + fuel → tailSum S (leastRank S d2 fuel r) ≤ d2) := by
    intro fuel
    induction fuel with
    | zero => intro r; simp [leastRank]
    | succ f ih =>
      intro r; simp only [leastRank]; split
      · rename_i h; exact ⟨by omega, fun _ => h⟩
      · obtain ⟨i1, i2⟩ := ih (r + 1); exact ⟨by omega, fun hlt => i2 (by omega)⟩
  have tl : ∀ (T : List K) (r : Nat), T.length ≤ r → tailSum T r = 0 := by
    intro T
    induction T with
    | nil => intro r _; cases r <;> rfl
    | cons x xs ih =>
      intro r h
      cases r with
      | zero => simp at h
      | succ r => simpa [tailSum] using ih r (by simpa using h)
  obtain ⟨h1, h2⟩ := key S.length 0
  by_cases h : leastRank S d2 S.length 0 < 0 + S.length
  · exact h2 h
  · have : leastRank S d2 S.length 0 = S.length := by omega
    rw [this, tl S S.length (le_refl _)]; exact hd

/-- each uncapped step discards at most `δ²`, so the whole sweep discards at most `(number of steps)·δ²` -/
theorem sweepErr_le (thr d2 : K) (hd : 0 ≤ d2) : ∀ (rest : List (Mode K)) (cur : Mode K) (as : List (SVDAns K × Nat)),
    ansOK thr d2 (cur :: rest) as → uncapped thr d2 (cur :: rest) as →
    sweepErr thr d2 (cur :: rest) as ≤ (rest.length : K) * d2 := by
  intro rest
  induction rest with
  | nil => intro cur as _ _; cases as <;> simp [sweepErr]
  | cons p rest ih =>
    intro cur as hok hun
    cases as with
    | nil => simp only [sweepErr]; positivity
    | cons Ar as' =>
      obtain ⟨A, rmax⟩ := Ar
      obtain ⟨_, h0, h1, hok'⟩ := hok
      obtain ⟨hcap, hun'⟩ := hun
      simp only [sweepErr]
      have ihh := ih _ as' hok' hun'
      have hstep : (∑ l ∈ Ico (stepRank thr d2 A rmax) A.n, A.S l ^ 2) ≤ d2 := by
        rw [tail_as_tailSum]
        have hr : leastRank A.sq d2 A.sq.length 0 ≤ stepRank thr d2 A rmax := by
          simp only [stepRank, h0, if_true, rankSelect]; omega
        exact le_trans (tailSum_antitone A.sq (sq_nonneg_list A) _ _ hr) (leastRank_within A.sq d2 hd)
      have : ((p :: rest).length : K) = (rest.length : K) + 1 := by simp
      rw [this]; nlinarith

/-- `‖T‖² = ‖last core‖²` when the cores to its left are left-orthonormal -/
theorem norm_eq_last (rest : List (Mode K)) (cur : Mode K) (hlo : chainLO rest) (hrl : cur.rl = topRank rest) :
    boxSum (shapeRev (cur :: rest)) (fun is => ∑ b ∈ range cur.rr, openRev (cur :: rest) is b ^ 2)
      = ∑ i ∈ range cur.n, ∑ b ∈ range cur.rr, ∑ a ∈ range cur.rl, cur.G i a b ^ 2 := by
  have hs0 : shapeRev (cur :: rest) = cur.n :: shapeRev rest := rfl
  rw [hs0, boxSum_cons]
  apply Finset.sum_congr rfl; intro i _
  rw [boxSum_sum]
  apply Finset.sum_congr rfl; intro b _
  have e : (fun is => openRev (cur :: rest) (i :: is) b ^ 2)
      = (fun is => (∑ a ∈ range cur.rl, openRev rest is a * cur.G i a b) * (∑ a ∈ range cur.rl, openRev rest is a * cur.G i a b)) := by
    funext is; simp only [openRev, sq]
  rw [e, hrl, boxSum_orth_pair (shapeRev rest) (topRank rest) (fun is a => openRev rest is a) (LO_iso rest hlo)]
  apply Finset.sum_congr rfl; intro a _; ring

end sweep
end TN
