import TnVerif.Lemmas.OrthSweep
import TnVerif.Lemmas.RoundTucker
import TnVerif.Lemmas.FullRank
import TnVerif.Lemmas.Stats
/-! Composition lemmas for the constructor paths `Tensor(x, ranks_tt=…)`, `Tensor(x, ranks_tucker=…)`, `Tensor(x, eps=…)`
    (tensor.py:401-408, 436-440): `_full_rank_tt` → orthogonalisation sweep → truncation sweep.  Nothing new is modelled here; the
    lemmas glue `fullRankTT` (Model/Format), `leftSweep` (Model/OrthSweep), `sweepRev` (Model/RoundTT) and `roundTuckerSem`
    (Model/RoundTucker) together. -/
set_option linter.unusedSectionVars false
set_option linter.unusedVariables false
set_option linter.unusedSimpArgs false
open Finset
namespace TN

section chain
variable {R : Type} [CommRing R]

/-- the chain `_full_rank_tt` emits: bonds match, the right boundary rank is 1, the mode sizes are the array's shape -/
theorem fixedrank_fullRankLoop_chain : ∀ (rest : List Nat) (sPrev : Nat) (st : Resh R) (q : Nat), (∀ s ∈ rest, 0 < s) →
    wf (st.rows / sPrev) (Tensor.modes (fullRankLoop sPrev st rest)) ∧
    outRank q (Tensor.modes (fullRankLoop sPrev st rest)) = 1 ∧
    (Tensor.modes (fullRankLoop sPrev st rest)).map (·.n) = sPrev :: rest := by
  intro rest
  induction rest with
  | nil =>
    intro sPrev st q _
    simp [fullRankLoop, Tensor.modes, wf, outRank, TMode.toMode, TMode.n, Core.rl, Core.rr, Core.spatial]
  | cons s rest ih =>
    intro sPrev st q hpos
    have hs : 0 < s := hpos s (by simp)
    have hrest : ∀ y ∈ rest, 0 < y := fun y hy => hpos y (by simp [hy])
    simp only [fullRankLoop]
    split
    · obtain ⟨w, o, n⟩ := ih s (st.fold s) st.rows hrest
      have e : (st.fold s).rows / s = st.rows := by simp [Resh.fold, Nat.mul_div_cancel _ hs]
      rw [e] at w
      refine ⟨⟨rfl, w⟩, ?_, ?_⟩
      · simpa [Tensor.modes, outRank, TMode.toMode, Core.rr] using o
      · simpa [Tensor.modes, TMode.toMode, TMode.n, Core.spatial] using n
    · obtain ⟨w, o, n⟩ := ih s (st.eyeFold s) st.cols hrest
      have e : (st.eyeFold s).rows / s = st.cols := by simp [Resh.eyeFold, Nat.mul_div_cancel _ hs]
      rw [e] at w
      refine ⟨⟨rfl, w⟩, ?_, ?_⟩
      · simpa [Tensor.modes, outRank, TMode.toMode, Core.rr] using o
      · simpa [Tensor.modes, TMode.toMode, TMode.n, Core.spatial] using n

/-- the exact TT of a dense array as a chain: boundary ranks 1, matching bonds, the array's shape -/
theorem fixedrank_fullRankTT_chain (shape : List Nat) (x : Nat → R) (hne : shape ≠ []) (hpos : ∀ s ∈ shape, 0 < s) :
    wf 1 (Tensor.modes (fullRankTT shape x)) ∧ outRank 1 (Tensor.modes (fullRankTT shape x)) = 1 ∧
    (Tensor.modes (fullRankTT shape x)).map (·.n) = shape ∧ (Tensor.modes (fullRankTT shape x)).length = shape.length := by
  cases shape with
  | nil => exact absurd rfl hne
  | cons s rest =>
    have hs : 0 < s := hpos s (by simp)
    obtain ⟨w, o, n⟩ := fixedrank_fullRankLoop_chain rest s (Resh.ofArray s rest.prod x) 1 (fun y hy => hpos y (by simp [hy]))
    have e : (Resh.ofArray s rest.prod x).rows / s = 1 := by simp [Resh.ofArray, Nat.div_self hs]
    rw [e] at w
    simp only [fullRankTT]
    refine ⟨w, o, n, ?_⟩
    have := congrArg List.length n
    simpa using this

/-- **the gauge `orthogonalize(N-1)` establishes**, derived from the QR contracts: in the state entering a truncation sweep every core
    but the last is left-orthonormal, the bonds match and the right boundary rank is 1 -/
theorem fixedrank_gauge (ms : List (Mode R)) (qrs : List (QRAns R)) (cur : Mode R) (rest : List (Mode R))
    (hwf : wf 1 ms) (hout : outRank 1 ms = 1) (hlen : qrs.length + 1 = ms.length) (hqr : qrOK ms qrs)
    (hrev : (leftSweep ms qrs).reverse = cur :: rest) :
    chainLO rest ∧ cur.rl = topRank rest ∧ cur.rr = 1 := by
  have hout_eq : leftSweep ms qrs = rest.reverse ++ [cur] := by
    have := congrArg List.reverse hrev; simpa using this
  have hhead : ∀ m ∈ ms.head?, m.rl = 1 := by
    intro m hm; cases ms with
    | nil => simp at hm
    | cons x xs => simp at hm; subst hm; exact hwf.1
  have hf := leftSweep_fwdLO qrs ms 1 hqr hlen hhead
  rw [hout_eq, List.dropLast_concat] at hf
  have hlo : chainLO rest := by
    have := fwdLO_reverse rest.reverse 1 hf
    rw [List.reverse_reverse] at this
    exact (chainLOP_one rest).mp this
  have hw := leftSweep_wf qrs ms 1 hwf
  rw [hout_eq] at hw
  obtain ⟨_, hcur⟩ := wf_snoc_inv rest.reverse cur 1 hw
  have hrl : cur.rl = topRank rest := by rw [hcur]; exact (wfRev_forward rest (chainLO_wfRev rest hlo)).2
  have hrr : cur.rr = 1 := by
    have := leftSweep_outRank qrs ms 1
    rw [hout_eq, outRank_snoc, hout] at this; exact this
  exact ⟨hlo, hrl, hrr⟩

end chain

section sweep
variable {K : Type} [Field K] [LinearOrder K] [IsStrictOrderedRing K]

/-- TT bonds of the truncation sweep's output, in processing order (`mu = N-1, …, 1`; reversed chain): the bond between the output
    cores `mu-1` and `mu` is at most `rmax[mu-1]` (when `rmax[mu-1] ≥ 1`, which `truncated_svd` asserts) -/
def fixedrank_bondsLE : List (Mode K) → List (SVDAns K × Nat) → Prop
  | m :: p :: out, (_, rmax) :: as => (1 ≤ rmax → m.rl ≤ rmax ∧ p.rr ≤ rmax) ∧ fixedrank_bondsLE (p :: out) as
  | _, _ => True

theorem fixedrank_stepRank_le_rmax (thr d2 : K) (A : SVDAns K) (rmax : Nat) (h : 1 ≤ rmax) : stepRank thr d2 A rmax ≤ rmax := by
  unfold stepRank
  split
  · exact (rankSelect_bounds _ _ rmax).2.1 h
  · exact h

theorem fixedrank_sweepRev_head (thr d2 : K) (x : Mode K) (rest : List (Mode K)) (as : List (SVDAns K × Nat)) :
    ∃ p out, sweepRev thr d2 (x :: rest) as = p :: out ∧ p.rr = x.rr := by
  match rest, as with
  | [], _ => exact ⟨x, [], by simp [sweepRev], rfl⟩
  | q :: rest', [] => exact ⟨x, q :: rest', by simp [sweepRev], rfl⟩
  | q :: rest', (A, rmax) :: as' =>
    exact ⟨(roundStep q x (stepAns thr A) (stepRank thr d2 A rmax)).2,
      sweepRev thr d2 ((roundStep q x (stepAns thr A) (stepRank thr d2 A rmax)).1 :: rest') as', rfl, rfl⟩

/-- **every TT rank produced by the sweep is within the request** (no contract needed: the rank is `max(1, min(rmax, ·))`, and `1`
    in the zero special case) -/
theorem fixedrank_sweep_bonds (thr d2 : K) : ∀ (as : List (SVDAns K × Nat)) (l : List (Mode K)),
    fixedrank_bondsLE (sweepRev thr d2 l as) as := by
  intro as
  induction as with
  | nil => intro l; unfold fixedrank_bondsLE; split <;> trivial
  | cons Ar as' ih =>
    intro l
    obtain ⟨A, rmax⟩ := Ar
    match l with
    | [] => simp [sweepRev, fixedrank_bondsLE]
    | [_] => simp [sweepRev, fixedrank_bondsLE]
    | cur :: p :: rest =>
      simp only [sweepRev]
      have ihh := ih ((roundStep p cur (stepAns thr A) (stepRank thr d2 A rmax)).1 :: rest)
      obtain ⟨p', out, he, hp⟩ := fixedrank_sweepRev_head thr d2 (roundStep p cur (stepAns thr A) (stepRank thr d2 A rmax)).1 rest as'
      rw [he] at ihh ⊢
      refine ⟨fun h1 => ?_, ihh⟩
      have := fixedrank_stepRank_le_rmax thr d2 A rmax h1
      exact ⟨by simpa [roundStep] using this, by rw [hp]; simpa [roundStep] using this⟩

/-- the truncation sweep keeps the chain well formed with boundary ranks 1 and keeps the mode sizes -/
theorem fixedrank_roundTTsem_chain (thr d2 : K) (ms : List (Mode K)) (as : List (SVDAns K × Nat)) (cur : Mode K) (rest : List (Mode K))
    (hrev : ms.reverse = cur :: rest) (hlo : chainLO rest) (hrl : cur.rl = topRank rest) (hrr : cur.rr = 1) :
    wf 1 (roundTTsem thr d2 ms as) ∧ outRank 1 (roundTTsem thr d2 ms as) = 1 ∧
    (roundTTsem thr d2 ms as).map (·.n) = ms.map (·.n) := by
  have hw : wfRev (cur :: rest) := ⟨hrl, chainLO_wfRev rest hlo⟩
  have hw2 := wfRev_sweepRev thr d2 as (cur :: rest) hw
  obtain ⟨w1, w2⟩ := wfRev_forward _ hw2
  have ht2 : topRank (sweepRev thr d2 (cur :: rest) as) = 1 := by rw [topRank_sweepRev]; simpa [topRank] using hrr
  unfold roundTTsem
  rw [hrev]
  refine ⟨w1, by rw [w2, ht2], ?_⟩
  have hsh := shapeRev_sweepRev thr d2 as (cur :: rest)
  simp only [shapeRev] at hsh
  rw [List.map_reverse, hsh, ← hrev, List.map_reverse, List.reverse_reverse]

/-- the error bound of an uncapped-or-exhausted sweep: if at every step EITHER `rmax` does not bind OR every singular value from index
    `rmax` on is zero, every step discards at most `δ²` -/
def fixedrank_capOK (thr d2 : K) : List (Mode K) → List (SVDAns K × Nat) → Prop
  | cur :: p :: rest, (A, rmax) :: as =>
      (leastRank A.sq d2 A.sq.length 0 ≤ rmax ∨ ∀ l, rmax ≤ l → l < A.n → A.S l = 0) ∧
        fixedrank_capOK thr d2 ((roundStep p cur (stepAns thr A) (stepRank thr d2 A rmax)).1 :: rest) as
  | _, _ => True

theorem fixedrank_tail_zero (A : SVDAns K) (r : Nat) (h : ∀ l, r ≤ l → l < A.n → A.S l = 0) :
    (∑ l ∈ Ico r A.n, A.S l ^ 2) = 0 := by
  apply Finset.sum_eq_zero; intro l hl
  obtain ⟨h1, h2⟩ := Finset.mem_Ico.mp hl
  rw [h l h1 h2]; ring

theorem fixedrank_sweepErr_le (thr d2 : K) (hd : 0 ≤ d2) : ∀ (rest : List (Mode K)) (cur : Mode K) (as : List (SVDAns K × Nat)),
    ansOK thr d2 (cur :: rest) as → fixedrank_capOK thr d2 (cur :: rest) as →
    sweepErr thr d2 (cur :: rest) as ≤ (rest.length : K) * d2 := by
  intro rest
  induction rest with
  | nil => intro cur as _ _; cases as <;> simp [sweepErr]
  | cons p rest ih =>
    intro cur as hok hun
    cases as with
    | nil => simp only [sweepErr]; positivity
    | cons Ar as' =>
      obtain ⟨A, rmax⟩ := Ar
      obtain ⟨_, h0, h1, hok'⟩ := hok
      obtain ⟨hcap, hun'⟩ := hun
      simp only [sweepErr]
      have ihh := ih _ as' hok' hun'
      have hstep : (∑ l ∈ Ico (stepRank thr d2 A rmax) A.n, A.S l ^ 2) ≤ d2 := by
        rcases hcap with hcap | hz
        · rw [tail_as_tailSum]
          have hr : leastRank A.sq d2 A.sq.length 0 ≤ stepRank thr d2 A rmax := by
            simp only [stepRank, h0, if_true, rankSelect]; omega
          exact le_trans (tailSum_antitone A.sq (sq_nonneg_list A) _ _ hr) (leastRank_within A.sq d2 hd)
        · by_cases hc : leastRank A.sq d2 A.sq.length 0 ≤ rmax
          · rw [tail_as_tailSum]
            have hr : leastRank A.sq d2 A.sq.length 0 ≤ stepRank thr d2 A rmax := by
              simp only [stepRank, h0, if_true, rankSelect]; omega
            exact le_trans (tailSum_antitone A.sq (sq_nonneg_list A) _ _ hr) (leastRank_within A.sq d2 hd)
          · have hr : rmax ≤ stepRank thr d2 A rmax := by
              simp only [stepRank, h0, if_true, rankSelect]; omega
            rw [fixedrank_tail_zero A _ (fun l hl hl' => hz l (by omega) hl')]; exact hd
      have : ((p :: rest).length : K) = (rest.length : K) + 1 := by simp
      rw [this]; nlinarith

/-- with a zero budget and `capOK` the sweep discards nothing -/
theorem fixedrank_sweepErr_zero (thr : K) (rest : List (Mode K)) (cur : Mode K) (as : List (SVDAns K × Nat))
    (hok : ansOK thr 0 (cur :: rest) as) (hc : fixedrank_capOK thr 0 (cur :: rest) as) :
    sweepErr thr 0 (cur :: rest) as = 0 := by
  have h := fixedrank_sweepErr_le thr 0 (le_refl _) rest cur as hok hc
  rw [mul_zero] at h
  have h2 : ∀ (l : List (Mode K)) (as : List (SVDAns K × Nat)), 0 ≤ sweepErr thr (0 : K) l as := by
    intro l as
    induction as generalizing l with
    | nil => cases l with
      | nil => simp [sweepErr]
      | cons a t => cases t <;> simp [sweepErr]
    | cons Ar as' ih =>
      obtain ⟨A, rmax⟩ := Ar
      match l with
      | [] => simp [sweepErr]
      | [_] => simp [sweepErr]
      | c :: p :: r =>
        simp only [sweepErr]
        exact add_nonneg (Finset.sum_nonneg (fun l _ => sq_nonneg _)) (ih _)
  exact le_antisymm h (h2 _ _)


/-! ### the constructor paths as compositions -/

/-- the state after `_full_rank_tt` and `orthogonalize(N-1)`: the gauge, the shape, and the array it still represents -/
theorem fixedrank_entering (shape : List Nat) (x : Nat → K) (qrs : List (QRAns K)) (cur : Mode K) (rest : List (Mode K))
    (hne : shape ≠ []) (hpos : ∀ s ∈ shape, 0 < s) (hlen : qrs.length + 1 = shape.length)
    (hqr : qrOK (Tensor.modes (fullRankTT shape x)) qrs)
    (hrev : (leftSweep (Tensor.modes (fullRankTT shape x)) qrs).reverse = cur :: rest) :
    chainLO rest ∧ cur.rl = topRank rest ∧ cur.rr = 1 ∧
    (leftSweep (Tensor.modes (fullRankTT shape x)) qrs).map (·.n) = shape ∧
    ∀ is, inShape is shape → dense (leftSweep (Tensor.modes (fullRankTT shape x)) qrs) is = x (flat is shape) := by
  obtain ⟨hwf, hout, hsh, hl⟩ := fixedrank_fullRankTT_chain shape x hne hpos
  obtain ⟨hlo, hrl, hrr⟩ := fixedrank_gauge _ qrs cur rest hwf hout (by rw [hl]; exact hlen) hqr hrev
  refine ⟨hlo, hrl, hrr, by rw [leftSweep_shape, hsh], ?_⟩
  intro is his
  rw [leftSweep_dense _ qrs is hqr (by rw [hsh]; exact his), dense_fullRankTT shape x is his hne]

/-- **`Tensor(x, ranks_tt=r)`: exact error identity** — `_full_rank_tt`, orthogonalisation sweep, truncation sweep:
    `‖x − result‖² = Σ_steps (discarded tail of that step's SVD)` -/
theorem fixedrank_tt_error_eq (thr d2 : K) (shape : List Nat) (x : Nat → K) (qrs : List (QRAns K)) (svds : List (SVDAns K × Nat))
    (cur : Mode K) (rest : List (Mode K))
    (hne : shape ≠ []) (hpos : ∀ s ∈ shape, 0 < s) (hlen : qrs.length + 1 = shape.length)
    (hqr : qrOK (Tensor.modes (fullRankTT shape x)) qrs)
    (hrev : (leftSweep (Tensor.modes (fullRankTT shape x)) qrs).reverse = cur :: rest)
    (hok : ansOK thr d2 (cur :: rest) svds) :
    boxSum shape (fun is => (x (flat is shape)
        - dense (roundTTsem thr d2 (leftSweep (Tensor.modes (fullRankTT shape x)) qrs) svds) is) ^ 2)
      = sweepErr thr d2 (cur :: rest) svds := by
  obtain ⟨hlo, hrl, hrr, hsh, hd⟩ := fixedrank_entering shape x qrs cur rest hne hpos hlen hqr hrev
  have key := roundTT_error_eq thr d2 _ svds cur rest hrev hlo hrl hrr hok
  rw [hsh] at key
  rw [← key]
  apply boxSum_congr_box; intro is his; rw [hd is his]

/-- the result of `Tensor(x, ranks_tt=r)` is a well-formed chain with boundary ranks 1 and the shape of `x` -/
theorem fixedrank_tt_chain (thr d2 : K) (shape : List Nat) (x : Nat → K) (qrs : List (QRAns K)) (svds : List (SVDAns K × Nat))
    (cur : Mode K) (rest : List (Mode K))
    (hne : shape ≠ []) (hpos : ∀ s ∈ shape, 0 < s) (hlen : qrs.length + 1 = shape.length)
    (hqr : qrOK (Tensor.modes (fullRankTT shape x)) qrs)
    (hrev : (leftSweep (Tensor.modes (fullRankTT shape x)) qrs).reverse = cur :: rest) :
    wf 1 (roundTTsem thr d2 (leftSweep (Tensor.modes (fullRankTT shape x)) qrs) svds) ∧
    outRank 1 (roundTTsem thr d2 (leftSweep (Tensor.modes (fullRankTT shape x)) qrs) svds) = 1 ∧
    (roundTTsem thr d2 (leftSweep (Tensor.modes (fullRankTT shape x)) qrs) svds).map (·.n) = shape := by
  obtain ⟨hlo, hrl, hrr, hsh, _⟩ := fixedrank_entering shape x qrs cur rest hne hpos hlen hqr hrev
  obtain ⟨a, b, c⟩ := fixedrank_roundTTsem_chain thr d2 _ svds cur rest hrev hlo hrl hrr
  exact ⟨a, b, by rw [c, hsh]⟩

/-- the squared norm of `x` is the squared norm of the last core in the state entering the sweep -/
theorem fixedrank_norm (shape : List Nat) (x : Nat → K) (qrs : List (QRAns K)) (cur : Mode K) (rest : List (Mode K))
    (hne : shape ≠ []) (hpos : ∀ s ∈ shape, 0 < s) (hlen : qrs.length + 1 = shape.length)
    (hqr : qrOK (Tensor.modes (fullRankTT shape x)) qrs)
    (hrev : (leftSweep (Tensor.modes (fullRankTT shape x)) qrs).reverse = cur :: rest) :
    boxSum shape (fun is => x (flat is shape) ^ 2) = lastNormSq cur := by
  obtain ⟨hlo, hrl, hrr, hsh, hd⟩ := fixedrank_entering shape x qrs cur rest hne hpos hlen hqr hrev
  have key := normsq_dense_eq_last _ cur rest hrev hlo hrl hrr
  rw [hsh] at key
  rw [← key]
  apply boxSum_congr_box; intro is his; rw [hd is his]

/-- **within the tolerance**, under `capOK` (at every step `rmax` does not bind, or the singular values from index `rmax` on vanish) -/
theorem fixedrank_tt_within (thr eps : K) (shape : List Nat) (x : Nat → K) (qrs : List (QRAns K)) (svds : List (SVDAns K × Nat))
    (cur : Mode K) (rest : List (Mode K))
    (hne : shape ≠ []) (hpos : ∀ s ∈ shape, 0 < s) (hlen : qrs.length + 1 = shape.length)
    (hqr : qrOK (Tensor.modes (fullRankTT shape x)) qrs)
    (hrev : (leftSweep (Tensor.modes (fullRankTT shape x)) qrs).reverse = cur :: rest)
    (hok : ansOK thr (budget2 eps cur rest.length) (cur :: rest) svds)
    (hcap : fixedrank_capOK thr (budget2 eps cur rest.length) (cur :: rest) svds) :
    boxSum shape (fun is => (x (flat is shape)
        - dense (roundTTsem thr (budget2 eps cur rest.length) (leftSweep (Tensor.modes (fullRankTT shape x)) qrs) svds) is) ^ 2)
      ≤ eps ^ 2 * boxSum shape (fun is => x (flat is shape) ^ 2) := by
  rw [fixedrank_tt_error_eq thr _ shape x qrs svds cur rest hne hpos hlen hqr hrev hok,
    fixedrank_norm shape x qrs cur rest hne hpos hlen hqr hrev]
  have hnn : 0 ≤ lastNormSq cur := by
    rw [← fixedrank_norm shape x qrs cur rest hne hpos hlen hqr hrev]; exact boxSum_sq_nonneg _ _
  have hd : 0 ≤ budget2 eps cur rest.length := by
    unfold budget2; apply div_nonneg
    · exact mul_nonneg (mul_self_nonneg eps) hnn
    · positivity
  refine le_trans (fixedrank_sweepErr_le thr _ hd rest cur svds hok hcap) ?_
  unfold budget2
  rcases Nat.eq_zero_or_pos rest.length with h0 | hpos'
  · rw [h0]; simp only [Nat.cast_zero, zero_mul]; exact mul_nonneg (sq_nonneg _) hnn
  · have hm : max 1 rest.length = rest.length := by omega
    rw [hm]
    have hne' : (rest.length : K) ≠ 0 := by exact_mod_cast (by omega : rest.length ≠ 0)
    rw [mul_div_assoc', mul_comm, mul_div_assoc, div_self hne']
    rw [sq]; linarith

/-- zero total tail ⇒ entrywise equality inside the index box -/
theorem fixedrank_eq_of_err_zero (shape : List Nat) (f g : List Nat → K)
    (h : boxSum shape (fun is => (f is - g is) ^ 2) = 0) : ∀ is, inShape is shape → g is = f is := by
  intro is his
  have := (boxSum_eq_zero_iff shape (fun is => (f is - g is) ^ 2) (fun is => sq_nonneg _)).mp h is his
  have h2 : f is - g is = 0 := by simpa using this
  exact (sub_eq_zero.mp h2).symm

/-- **`Tensor(x, ranks_tucker=r)`: exact error identity** — `_full_rank_tt`, `orthogonalize(-1)`, identity factors, Tucker sweep -/
theorem fixedrank_tucker_error_eq (thr eps : K) (shape : List Nat) (x : Nat → K) (qrs : List (QRAns K)) (as : List (TkAns K × Nat))
    (cur : Mode K) (rest : List (Mode K))
    (hne : shape ≠ []) (hpos : ∀ s ∈ shape, 0 < s) (hlen : qrs.length + 1 = shape.length)
    (hqr : qrOK (Tensor.modes (fullRankTT shape x)) qrs)
    (hrev : (leftSweep (Tensor.modes (fullRankTT shape x)) qrs).reverse = cur :: rest)
    (hok : tkOK thr eps shape.length ((cur :: rest).map TkMode.ofMode) as) :
    boxSum shape (fun is => (x (flat is shape)
        - dense ((roundTuckerSem thr eps ((leftSweep (Tensor.modes (fullRankTT shape x)) qrs).map TkMode.ofMode) as).map TkMode.toMode) is) ^ 2)
      = tkSweepErr thr eps shape.length ((cur :: rest).map TkMode.ofMode) as := by
  obtain ⟨hlo, hrl, hrr, hsh, hd⟩ := fixedrank_entering shape x qrs cur rest hne hpos hlen hqr hrev
  obtain ⟨_, _, _, hl0⟩ := fixedrank_fullRankTT_chain shape x hne hpos
  set sw := leftSweep (Tensor.modes (fullRankTT shape x)) qrs with hsw
  have hl : (sw.map TkMode.ofMode).length = shape.length := by rw [List.length_map, hsw, leftSweep_length, hl0]
  have hrev' : (sw.map TkMode.ofMode).reverse = TkMode.ofMode cur :: rest.map TkMode.ofMode := by
    rw [← List.map_reverse, hrev]; rfl
  have key := roundTucker_error_eq thr eps (sw.map TkMode.ofMode) as (TkMode.ofMode cur) (rest.map TkMode.ofMode)
    hrev' (tk_ofMode_chainLO rest hlo) (by rw [tk_ofMode_topRank]; exact hrl) hrr (by rw [hl]; exact hok)
  have hshr : (sw.map TkMode.ofMode).map (·.rows) = shape := by
    rw [List.map_map, ← hsh]; rfl
  rw [hshr, hl] at key
  rw [List.map_cons, ← key]
  apply boxSum_congr_box; intro is his
  rw [tk_ofMode_dense sw is (by rw [hsh]; exact his), hd is his]

/-- **`Tensor(x, eps=e)`, branch `reached < eps`** (tensor.py:436-440 → `round`, tensor.py:2194-2208): `_full_rank_tt`, `round_tt(eps)`
    (result `y`), `reached` = the measured relative error of `y`, then `round_tucker((1+eps)/(1+reached) − 1)` on `y` (its own
    `orthogonalize(-1)` with QR answers `qrs2`, identity factors, Tucker sweep).  Total error within `eps`. -/
theorem fixedrank_construct_eps (thr eps reached : K) (shape : List Nat) (x : Nat → K)
    (qrs1 : List (QRAns K)) (svds : List (SVDAns K × Nat)) (cur1 : Mode K) (rest1 : List (Mode K))
    (qrs2 : List (QRAns K)) (as : List (TkAns K × Nat)) (cur2 : Mode K) (rest2 : List (Mode K))
    (hne : shape ≠ []) (hpos : ∀ s ∈ shape, 0 < s) (hlen1 : qrs1.length + 1 = shape.length)
    (hqr1 : qrOK (Tensor.modes (fullRankTT shape x)) qrs1)
    (hrev1 : (leftSweep (Tensor.modes (fullRankTT shape x)) qrs1).reverse = cur1 :: rest1)
    (hlen2 : qrs2.length + 1 = shape.length)
    (hqr2 : qrOK (roundTTsem thr (budget2 eps cur1 rest1.length) (leftSweep (Tensor.modes (fullRankTT shape x)) qrs1) svds) qrs2)
    (hrev2 : (leftSweep (roundTTsem thr (budget2 eps cur1 rest1.length) (leftSweep (Tensor.modes (fullRankTT shape x)) qrs1) svds) qrs2).reverse
      = cur2 :: rest2)
    (h0 : 0 ≤ reached) (h1 : reached ≤ eps)
    (hreach : boxSum shape (fun is => (x (flat is shape)
        - dense (roundTTsem thr (budget2 eps cur1 rest1.length) (leftSweep (Tensor.modes (fullRankTT shape x)) qrs1) svds) is) ^ 2)
      ≤ reached ^ 2 * boxSum shape (fun is => x (flat is shape) ^ 2))
    (hok : tkOK thr ((1 + eps) / (1 + reached) - 1) shape.length ((cur2 :: rest2).map TkMode.ofMode) as)
    (hun : tkUncapped thr ((1 + eps) / (1 + reached) - 1) shape.length ((cur2 :: rest2).map TkMode.ofMode) as) :
    boxSum shape (fun is => (x (flat is shape)
        - dense ((roundTuckerSem thr ((1 + eps) / (1 + reached) - 1)
            ((leftSweep (roundTTsem thr (budget2 eps cur1 rest1.length) (leftSweep (Tensor.modes (fullRankTT shape x)) qrs1) svds) qrs2).map
              TkMode.ofMode) as).map TkMode.toMode) is) ^ 2)
      ≤ eps ^ 2 * boxSum shape (fun is => x (flat is shape) ^ 2) := by
  obtain ⟨hwf, hout, hsh⟩ := fixedrank_tt_chain thr (budget2 eps cur1 rest1.length) shape x qrs1 svds cur1 rest1 hne hpos hlen1 hqr1 hrev1
  set y := roundTTsem thr (budget2 eps cur1 rest1.length) (leftSweep (Tensor.modes (fullRankTT shape x)) qrs1) svds with hy
  have hly : y.length = shape.length := by have := congrArg List.length hsh; simpa using this
  obtain ⟨hlo, hrl, hrr⟩ := fixedrank_gauge y qrs2 cur2 rest2 hwf hout (by rw [hly]; exact hlen2) hqr2 hrev2
  set sw := leftSweep y qrs2 with hsw
  have hswn : sw.map (·.n) = shape := by rw [hsw, leftSweep_shape, hsh]
  have hl : (sw.map TkMode.ofMode).length = shape.length := by rw [List.length_map, hsw, leftSweep_length, hly]
  have hrev' : (sw.map TkMode.ofMode).reverse = TkMode.ofMode cur2 :: rest2.map TkMode.ofMode := by
    rw [← List.map_reverse, hrev2]; rfl
  have hshr : (sw.map TkMode.ofMode).map (·.rows) = shape := by
    rw [List.map_map, ← hswn]; rfl
  have hd : ∀ is, inShape is shape → dense ((sw.map TkMode.ofMode).map TkMode.toMode) is = dense y is := by
    intro is his
    rw [tk_ofMode_dense sw is (by rw [hswn]; exact his), hsw, leftSweep_dense y qrs2 is hqr2 (by rw [hsh]; exact his)]
  have k2 := roundTucker_within_eps thr ((1 + eps) / (1 + reached) - 1) (sw.map TkMode.ofMode) as (TkMode.ofMode cur2)
    (rest2.map TkMode.ofMode) hrev' (tk_ofMode_chainLO rest2 hlo) (by rw [tk_ofMode_topRank]; exact hrl) hrr
    (by rw [hl]; exact hok) (by rw [hl]; exact hun)
  rw [hshr] at k2
  have hreach' : boxSum shape (fun is => (x (flat is shape) - dense ((sw.map TkMode.ofMode).map TkMode.toMode) is) ^ 2)
      ≤ reached ^ 2 * boxSum shape (fun is => x (flat is shape) ^ 2) := by
    refine le_of_eq_of_le ?_ hreach
    apply boxSum_congr_box; intro is his; rw [hd is his]
  exact tk_round_combine shape (fun is => x (flat is shape)) (dense ((sw.map TkMode.ofMode).map TkMode.toMode)) _ eps reached h0 h1
    hreach' k2


/-- an uncapped sweep is in particular `capOK` -/
theorem fixedrank_capOK_of_uncapped (thr d2 : K) : ∀ (as : List (SVDAns K × Nat)) (l : List (Mode K)),
    uncapped thr d2 l as → fixedrank_capOK thr d2 l as := by
  intro as
  induction as with
  | nil => intro l _; cases l with
    | nil => trivial
    | cons a t => cases t <;> trivial
  | cons Ar as' ih =>
    intro l h
    obtain ⟨A, rmax⟩ := Ar
    match l, h with
    | [], _ => trivial
    | [_], _ => trivial
    | cur :: p :: rest, ⟨h1, h2⟩ => exact ⟨Or.inl h1, ih _ h2⟩

end sweep
end TN
