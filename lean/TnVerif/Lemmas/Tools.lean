import TnVerif.Lemmas.Format
import TnVerif.Model.Tools
/-! L1 at the code level: a matrix applied along the spatial index of a mode acts on the dense array. -/
set_option linter.unusedSectionVars false
set_option linter.unusedSimpArgs false
open Finset
namespace TN
variable {R : Type} [CommSemiring R]

theorem Core.lin_get (rows : Nat) (L : Nat → Nat → R) (c : Core R) (a i b : Nat) :
    (c.lin rows L).get a i b = ∑ j ∈ range c.spatial, L i j * c.get a j b := by
  cases c with
  | tt r0 s r1 f => simp [Core.lin, sumTo_eq]
  | cp s r f => by_cases h : a = b <;> simp [Core.lin, sumTo_eq, h]
@[simp] theorem Core.lin_rl (rows : Nat) (L : Nat → Nat → R) (c : Core R) : (c.lin rows L).rl = c.rl := by cases c <;> rfl
@[simp] theorem Core.lin_rr (rows : Nat) (L : Nat → Nat → R) (c : Core R) : (c.lin rows L).rr = c.rr := by cases c <;> rfl
@[simp] theorem Core.lin_spatial (rows : Nat) (L : Nat → Nat → R) (c : Core R) : (c.lin rows L).spatial = rows := by cases c <;> rfl

/-- the code-level routine realises `Mode.lin` -/
theorem toMode_spatialLin (rows : Nat) (L : Nat → Nat → R) (m : TMode R) :
    (m.spatialLin rows L).toMode = Mode.lin rows L m.toMode := by
  obtain ⟨c, U⟩ := m
  cases U with
  | none =>
    apply Mode.ext'
    · simp [TMode.spatialLin, Mode.lin]
    · simp [TMode.spatialLin, Mode.lin]
    · simp [TMode.spatialLin, Mode.lin, TMode.n]
    · intro i a b
      simp [TMode.spatialLin, Mode.lin, TMode.toMode_G, Core.lin_get, sumTo_eq, TMode.n]
  | some U =>
    apply Mode.ext'
    · simp [TMode.spatialLin, Mode.lin]
    · simp [TMode.spatialLin, Mode.lin]
    · simp [TMode.spatialLin, Mode.lin, TMode.n, Fac.lmul]
    · intro i a b
      simp only [TMode.spatialLin, Mode.lin, TMode.toMode_G, TMode.decomp_some, Fac.apply_get, Fac.lmul, sumTo_eq,
        TMode.toMode_n, TMode.n_some, Finset.sum_mul, Finset.mul_sum]
      rw [Finset.sum_comm]
      apply Finset.sum_congr rfl; intro j _
      apply Finset.sum_congr rfl; intro s _; ring

theorem spatialLin_ok (rows : Nat) (L : Nat → Nat → R) (m : TMode R) (h : m.ok) : (m.spatialLin rows L).ok := by
  obtain ⟨c, U⟩ := m
  cases U with
  | none => trivial
  | some U => exact h

/-- the action of per-mode (optional) matrices on a dense array: `none` leaves the index untouched -/
def applyMaps : List (Option (Nat × (Nat → Nat → R))) → List Nat → (List Nat → R) → List Nat → R
  | some (_, L) :: ls, n :: ns, f, i :: is => ∑ j ∈ range n, L i j * applyMaps ls ns (fun js => f (j :: js)) is
  | Option.none :: ls, _ :: ns, f, i :: is => applyMaps ls ns (fun js => f (i :: js)) is
  | _, _, f, is => f is

theorem applyMaps_linear (ls : List (Option (Nat × (Nat → Nat → R)))) : ∀ (ns : List Nat) (is : List Nat) (k : Nat)
    (c : Nat → R) (g : Nat → List Nat → R),
    applyMaps ls ns (fun js => ∑ b ∈ range k, c b * g b js) is = ∑ b ∈ range k, c b * applyMaps ls ns (g b) is := by
  induction ls with
  | nil => intro ns is k c g; simp [applyMaps]
  | cons l ls ih =>
    intro ns is k c g
    cases ns with
    | nil => cases l <;> simp [applyMaps]
    | cons n ns =>
      cases is with
      | nil => cases l <;> simp [applyMaps]
      | cons i is =>
        cases l with
        | none => simp only [applyMaps]; exact ih ns is k c (fun b js => g b (i :: js))
        | some p =>
          obtain ⟨rows, L⟩ := p
          simp only [applyMaps]
          have : ∀ j ∈ range n, L i j * applyMaps ls ns (fun js => ∑ b ∈ range k, c b * g b (j :: js)) is =
              ∑ b ∈ range k, c b * (L i j * applyMaps ls ns (fun js => g b (j :: js)) is) := by
            intro j _
            rw [ih ns is k c (fun b js => g b (j :: js)), Finset.mul_sum]
            apply Finset.sum_congr rfl; intro b _; ring
          rw [Finset.sum_congr rfl this, Finset.sum_comm]
          apply Finset.sum_congr rfl; intro b _
          rw [Finset.mul_sum]

theorem tail_linModes (t : Tensor R) : ∀ (ls : List (Option (Nat × (Nat → Nat → R)))) (is : List Nat) (a : Nat),
    ls.length = t.length → is.length = t.length →
    tail (t.linModes ls).modes is a = applyMaps ls t.shape (fun js => tail t.modes js a) is := by
  induction t with
  | nil => intro ls is a hl hi; cases ls <;> cases is <;> simp_all [Tensor.linModes, applyMaps, Tensor.shape]
  | cons m ms ih =>
    intro ls is a hl hi
    cases ls with
    | nil => simp at hl
    | cons l ls =>
      cases is with
      | nil => simp at hi
      | cons i is =>
        have hl' : ls.length = ms.length := by simpa using hl
        have hi' : is.length = ms.length := by simpa using hi
        have ih' := fun b => ih ls is b hl' hi'
        simp only [Tensor.modes, Tensor.shape] at ih'
        cases l with
        | none =>
          simp only [Tensor.linModes, Tensor.modes, List.map_cons, tail, sumTo_eq, applyMaps, Tensor.shape, ih']
          exact (applyMaps_linear ls _ is m.toMode.rr (fun b => m.toMode.G i a b)
            (fun b js => tail (List.map TMode.toMode ms) js b)).symm
        | some p =>
          obtain ⟨rows, L⟩ := p
          simp only [Tensor.linModes, Tensor.modes, List.map_cons, toMode_spatialLin, tail, sumTo_eq, applyMaps, Tensor.shape,
            Mode.lin, ih', Finset.sum_mul]
          rw [Finset.sum_comm]
          apply Finset.sum_congr rfl; intro j _
          have := applyMaps_linear ls (List.map TMode.n ms) is m.toMode.rr (fun b => m.toMode.G j a b)
            (fun b js => tail (List.map TMode.toMode ms) js b)
          rw [this, Finset.mul_sum]
          apply Finset.sum_congr rfl; intro b _; ring

/-- **L1, code level**: matrices applied to modes act on the dense array mode by mode -/
theorem dense_linModes (t : Tensor R) (ls : List (Option (Nat × (Nat → Nat → R)))) (is : List Nat)
    (hl : ls.length = t.length) (hi : is.length = t.length) :
    dense (t.linModes ls).modes is = applyMaps ls t.shape (fun js => dense t.modes js) is := by
  cases t with
  | nil => cases ls <;> cases is <;> simp_all [Tensor.linModes, applyMaps, Tensor.shape, Tensor.modes, dense]
  | cons m ms =>
    have h := fun a => tail_linModes (m :: ms) ls is a hl hi
    have hrl : ∀ (x : Tensor R), (Tensor.linModes ls (m :: ms)) = x → ∃ y ys, x = y :: ys ∧ y.core.rl = m.core.rl := by
      intro x hx
      cases ls with
      | nil => simp at hl
      | cons l ls =>
        cases l with
        | none => exact ⟨m, _, hx.symm, rfl⟩
        | some p =>
          obtain ⟨rows, L⟩ := p
          refine ⟨m.spatialLin rows L, _, hx.symm, ?_⟩
          have := congrArg Mode.rl (toMode_spatialLin rows L m)
          simpa [Mode.lin] using this
    obtain ⟨y, ys, hy, hyrl⟩ := hrl _ rfl
    rw [hy] at h ⊢
    simp only [Tensor.modes, List.map_cons, dense, sumTo_eq, TMode.toMode_rl, hyrl] at h ⊢
    simp only [h]
    have := applyMaps_linear ls (Tensor.shape (m :: ms)) is m.core.rl (fun _ => 1)
      (fun a js => tail (m.toMode :: List.map TMode.toMode ms) js a)
    simp only [one_mul] at this
    exact this.symm

end TN

namespace TN
variable {R : Type} [CommSemiring R]
open Finset

/-- per-mode optional index maps (selection matrices) -/
def selMaps (rows : List Nat) (φs : List (Option (Nat → Nat))) : List (Option (Nat × (Nat → Nat → R))) :=
  List.zipWith (fun r φ => φ.map fun g => (r, sel g)) rows φs

def selIdx : List (Option (Nat → Nat)) → List Nat → List Nat
  | some g :: φs, i :: is => g i :: selIdx φs is
  | Option.none :: φs, i :: is => i :: selIdx φs is
  | _, is => is

/-- selected source indices are inside the source shape -/
def selOK : List (Option (Nat → Nat)) → List Nat → List Nat → Prop
  | some g :: φs, n :: ns, i :: is => g i < n ∧ selOK φs ns is
  | Option.none :: φs, _ :: ns, _ :: is => selOK φs ns is
  | [], _, _ => True
  | _, _, _ => False

/-- selection matrices re-index the dense array (slicing, flip, repeat, gather) -/
theorem applyMaps_sel (φs : List (Option (Nat → Nat))) : ∀ (rows ns is : List Nat) (f : List Nat → R),
    rows.length = φs.length → selOK φs ns is →
    applyMaps (selMaps (R := R) rows φs) ns f is = f (selIdx φs is) := by
  induction φs with
  | nil => intro rows ns is f hr _; cases rows <;> simp_all [selMaps, applyMaps, selIdx]
  | cons φ φs ih =>
    intro rows ns is f hr hok
    cases rows with
    | nil => simp at hr
    | cons r rows =>
      cases ns with
      | nil => cases φ <;> cases is <;> simp [selOK] at hok
      | cons n ns =>
        cases is with
        | nil => cases φ <;> simp [selOK] at hok
        | cons i is =>
          cases φ with
          | none =>
            simp only [selMaps, List.zipWith_cons_cons, Option.map_none, applyMaps, selIdx]
            exact ih rows ns is (fun js => f (i :: js)) (by simpa using hr) hok
          | some g =>
            obtain ⟨h1, h2⟩ := hok
            simp only [selMaps, List.zipWith_cons_cons, Option.map_some, applyMaps, selIdx, sel]
            rw [Finset.sum_eq_single (g i)]
            · simp only [if_true, one_mul]
              exact ih rows ns is (fun js => f (g i :: js)) (by simpa using hr) h2
            · intro j _ hj; simp [hj]
            · intro hh; exact absurd (Finset.mem_range.mpr h1) hh

end TN
