import TnVerif.Lemmas.IndexSpec
import TnVerif.Lemmas.Stats
import TnVerif.Model.Stats
/-! `tn.squeeze(result, dims)` after a keepdim sum: the key `0` at the summed modes, `:` elsewhere, run through
    `_process_key`, bounds normalisation and the `__getitem__` state machine — it always succeeds, deletes exactly
    the flagged modes, and yields a scalar iff every mode is flagged. -/
set_option linter.unusedSectionVars false
set_option linter.unusedSimpArgs false
open Finset
namespace TN
variable {R : Type}

/-- the key of `squeezeKey dims` after bounds normalisation against `ns` -/
def sqItems : List Bool → List Nat → List Item
  | true :: ds, _ :: ns => .int 0 :: sqItems ds ns
  | false :: ds, n :: ns => .slice 0 1 n :: sqItems ds ns
  | _, _ => []

/-- … and after grouping (there are no index arrays) -/
def sqG : List Bool → List Nat → List GItem
  | true :: ds, _ :: ns => .int 0 :: sqG ds ns
  | false :: ds, n :: ns => .slice 0 1 n :: sqG ds ns
  | _, _ => []

/-- flagged modes have size one (what `tn.squeeze` asserts, tools.py:29) -/
def flaggedOne : List Bool → List Nat → Prop
  | true :: ds, n :: ns => n = 1 ∧ flaggedOne ds ns
  | false :: ds, _ :: ns => flaggedOne ds ns
  | _, _ => True

theorem squeezeKey_length (dims : List Bool) : (squeezeKey dims).length = dims.length := by simp [squeezeKey]

theorem squeezeKey_noNone (dims : List Bool) : (squeezeKey dims).filter RawItem.isNone = [] := by
  induction dims with
  | nil => rfl
  | cons b ds ih =>
    cases b <;> simpa [squeezeKey, RawItem.isNone, sliceAll] using ih

theorem squeezeKey_noEllipsis (dims : List Bool) : (squeezeKey dims).any RawItem.isEllipsis = false := by
  induction dims with
  | nil => rfl
  | cons b ds ih =>
    cases b <;> simp [squeezeKey, RawItem.isEllipsis, sliceAll]

theorem expand_squeeze (N : Nat) (key : List RawItem) (c : Nat) (dims : List Bool) :
    processKey.expand N key c (squeezeKey dims) = squeezeKey dims := by
  induction dims with
  | nil => rfl
  | cons b ds ih =>
    cases b
    · simp only [squeezeKey, List.map_cons, sliceAll] at ih ⊢
      simp [processKey.expand, ih]
    · simp only [squeezeKey, List.map_cons] at ih ⊢
      simp [processKey.expand, ih]

/-- `_process_key` leaves the squeeze key alone -/
theorem processKey_squeeze (dims : List Bool) : processKey dims.length (squeezeKey dims) = .ok (squeezeKey dims) := by
  unfold processKey
  simp only [squeezeKey_noNone, List.length_nil, expand_squeeze, squeezeKey_noEllipsis, squeezeKey_length,
    Nat.sub_zero, Nat.lt_irrefl, Nat.sub_self, List.replicate_zero, List.append_nil]
  simp

theorem normSlice_all (n : Nat) : normSlice Option.none Option.none Option.none n = .ok (0, 1, n) := by
  unfold normSlice
  by_cases h : 0 < n
  · simp [h]
  · have : n = 0 := by omega
    simp [this]

/-- bounds normalisation of the squeeze key -/
theorem normKey_squeeze : ∀ (dims : List Bool) (ns : List Nat), dims.length = ns.length → flaggedOne dims ns →
    normKey (squeezeKey dims) ns = .ok (sqItems dims ns) := by
  intro dims
  induction dims with
  | nil => intro ns _ _; simp [squeezeKey, normKey, sqItems]
  | cons b ds ih =>
    intro ns hl hf
    cases ns with
    | nil => simp at hl
    | cons n ns =>
      have hl' : ds.length = ns.length := by simpa using hl
      cases b with
      | false =>
        have := ih ns hl' hf
        simp only [squeezeKey, sliceAll] at this
        simp only [squeezeKey, List.map_cons, sliceAll, Bool.false_eq_true, if_false, normKey, normSlice_all, this, sqItems,
          bind, Except.bind, pure, Except.pure]
      | true =>
        obtain ⟨h1, hf'⟩ := hf
        subst h1
        have := ih ns hl' hf'
        simp only [squeezeKey] at this
        have h0 : normInt 0 1 = .ok 0 := by decide
        simp only [squeezeKey, List.map_cons, if_true, normKey, h0, this, sqItems, bind, Except.bind, pure, Except.pure]

theorem groupKey_sq : ∀ (dims : List Bool) (ns : List Nat), groupKey (sqItems dims ns) = sqG dims ns := by
  intro dims
  induction dims with
  | nil => intro ns; simp [sqItems, sqG, groupKey]
  | cons b ds ih =>
    intro ns
    cases ns with
    | nil => cases b <;> simp [sqItems, sqG, groupKey]
    | cons n ns => cases b <;> simp [sqItems, sqG, groupKey, ih ns]

/-- the number of modes that stay -/
def keepCount : List Bool → Nat
  | true :: ds => keepCount ds
  | false :: ds => keepCount ds + 1
  | [] => 0

theorem keepShape_length : ∀ (dims : List Bool) (ns : List Nat), dims.length = ns.length →
    (keepShape dims ns).length = keepCount dims := by
  intro dims
  induction dims with
  | nil => intro ns _; simp [keepShape, keepCount]
  | cons b ds ih =>
    intro ns hl
    cases ns with
    | nil => simp at hl
    | cons n ns => cases b <;> simp [keepShape, keepCount, ih ns (by simpa using hl)]

theorem fits_sq : ∀ (dims : List Bool) (ns : List Nat), dims.length = ns.length →
    fits (sqG dims ns) dims.length (keepCount dims) := by
  intro dims
  induction dims with
  | nil => intro ns _; simp [sqG, fits, keepCount]
  | cons b ds ih =>
    intro ns hl
    cases ns with
    | nil => simp at hl
    | cons n ns => cases b <;> simp [sqG, fits, keepCount, ih ns (by simpa using hl)]

theorem srcIdx_sq : ∀ (dims : List Bool) (ns : List Nat) (out : List Nat), dims.length = ns.length →
    out.length = keepCount dims → srcIdx (sqG dims ns) out = fillIdx dims out := by
  intro dims
  induction dims with
  | nil => intro ns out _ _; simp [sqG, srcIdx, fillIdx]
  | cons b ds ih =>
    intro ns out hl ho
    cases ns with
    | nil => simp at hl
    | cons n ns =>
      have hl' : ds.length = ns.length := by simpa using hl
      cases b with
      | true => simp only [sqG, srcIdx, fillIdx, keepCount] at ho ⊢; rw [ih ns out hl' ho]
      | false =>
        cases out with
        | nil => simp [keepCount] at ho
        | cons j out =>
          simp only [sqG, srcIdx, fillIdx, keepCount, List.length_cons, Nat.add_right_cancel_iff] at ho ⊢
          rw [ih ns out hl' ho]; simp

/-! ### the state machine on the squeeze key: never fails, deletes exactly the flagged modes -/
section machine
variable [Zero R] [One R] [Add R] [Mul R]

theorem joinCores_spatial (p : PInt R) (c : Core R) : (joinCores p c).spatial = c.spatial := by
  cases p <;> cases c <;> rfl

theorem absorbLast_spatial (c : Core R) (q : PInt R) : (absorbLast c q).spatial = c.spatial := by
  cases q <;> cases c <;> rfl

theorem joinOpt_n (p : Option (PInt R)) (m : TMode R) : (joinOpt p m).n = m.n := by
  cases p with
  | none => rfl
  | some q =>
    obtain ⟨c, U⟩ := m
    cases U <;> simp [joinOpt, TMode.n, joinCores_spatial]

theorem slice_n (a s c : Nat) (m : TMode R) : (m.slice a s c).n = c := by
  obtain ⟨k, U⟩ := m
  cases U with
  | none => cases k <;> rfl
  | some U => rfl

theorem emitJoin_shape (p : Option (PInt R)) (m : TMode R) (r : List (TMode R) × Option (PInt R)) :
    Tensor.shape (emitJoin p m r).1 = m.n :: Tensor.shape r.1 := by
  obtain ⟨l, q⟩ := r
  have hj := joinOpt_n p m
  cases l with
  | nil =>
    cases q with
    | none => simp [emitJoin, Tensor.shape, hj]
    | some q =>
      simp only [emitJoin, Tensor.shape, List.map_cons, List.map_nil, List.cons.injEq, and_true]
      rw [← hj]
      generalize joinOpt p m = m'
      obtain ⟨c, U⟩ := m'
      cases U <;> simp [TMode.n, absorbLast_spatial]
  | cons x xs => simp [emitJoin, Tensor.shape, hj]

theorem emitJoin_ne (p : Option (PInt R)) (m : TMode R) (r : List (TMode R) × Option (PInt R)) :
    (emitJoin p m r).1 ≠ [] := by
  obtain ⟨l, q⟩ := r
  cases l with
  | nil => cases q <;> simp [emitJoin]
  | cons x xs => simp [emitJoin]

/-- on the squeeze key the state machine succeeds; the emitted modes have the shape with the flagged modes
    deleted; nothing is emitted only if every mode was flagged, and then a pending factor is returned as soon as
    there was one before or at least one mode was consumed -/
theorem goKey_sq (lastRR : Nat) : ∀ (dims : List Bool) (ms : Tensor R) (d : Bool) (p : Option (PInt R)),
    dims.length = ms.length →
    ∃ r, goKey lastRR d p (sqG dims ms.shape) ms = .ok r ∧ Tensor.shape r.1 = keepShape dims ms.shape ∧
      (r.1 = [] → (p.isSome ∨ dims ≠ []) → r.2.isSome) := by
  intro dims
  induction dims with
  | nil =>
    intro ms d p hl
    refine ⟨([], p), by simp [sqG, goKey], by simp [keepShape, Tensor.shape], ?_⟩
    intro _ h; simpa using h
  | cons b ds ih =>
    intro ms d p hl
    cases ms with
    | nil => simp at hl
    | cons m rest =>
      have hl' : ds.length = rest.length := by simpa using hl
      cases b with
      | true =>
        obtain ⟨r, h1, h2, h3⟩ := ih rest d (some (PInt.combOpt p (getInt m 0))) hl'
        refine ⟨r, ?_, ?_, ?_⟩
        · simpa [sqG, Tensor.shape, goKey] using h1
        · simpa [keepShape, Tensor.shape] using h2
        · intro hr _; exact h3 hr (Or.inl rfl)
      | false =>
        obtain ⟨r, h1, h2, _⟩ := ih rest d Option.none hl'
        refine ⟨emitJoin p (m.slice 0 1 m.n) r, ?_, ?_, ?_⟩
        · simp only [Tensor.shape, List.map_cons, sqG, goKey] at h1 ⊢
          simp [h1, bind, Except.bind, pure, Except.pure]
        · rw [emitJoin_shape, slice_n, h2]; simp [keepShape, Tensor.shape]
        · intro hr; exact absurd hr (emitJoin_ne _ _ _)

end machine


/-! ### `linModes` (tensor-times-matrix) keeps well-formedness; shape after a keepdim sum -/
section lin
variable [CommSemiring R]

theorem spatialLin_rl_sq (rows : Nat) (L : Nat → Nat → R) (m : TMode R) : (m.spatialLin rows L).core.rl = m.core.rl := by
  obtain ⟨c, U⟩ := m; cases U <;> simp [TMode.spatialLin]
theorem spatialLin_rr_sq (rows : Nat) (L : Nat → Nat → R) (m : TMode R) : (m.spatialLin rows L).core.rr = m.core.rr := by
  obtain ⟨c, U⟩ := m; cases U <;> simp [TMode.spatialLin]
theorem spatialLin_n_sq (rows : Nat) (L : Nat → Nat → R) (m : TMode R) : (m.spatialLin rows L).n = rows := by
  obtain ⟨c, U⟩ := m; cases U <;> simp [TMode.spatialLin, TMode.n, Fac.lmul]

theorem WFfrom_linModes_sq (t : Tensor R) : ∀ (ls : List (Option (Nat × (Nat → Nat → R)))) (p : Nat),
    Tensor.WFfrom p t → Tensor.WFfrom p (t.linModes ls) := by
  induction t with
  | nil => intro ls p h; cases ls with
    | nil => exact h
    | cons l ls => cases l <;> exact h
  | cons m ms ih =>
    intro ls p h
    obtain ⟨h1, h2, h3⟩ := h
    cases ls with
    | nil => exact ⟨h1, h2, h3⟩
    | cons l ls =>
      cases l with
      | none => exact ⟨h1, h2, ih ls _ h3⟩
      | some q =>
        obtain ⟨rows, L⟩ := q
        refine ⟨by rw [spatialLin_rl_sq]; exact h1, spatialLin_ok rows L m h2, ?_⟩
        rw [spatialLin_rr_sq]; exact ih ls _ h3

theorem WF_linModes_sq (t : Tensor R) (ls : List (Option (Nat × (Nat → Nat → R)))) (h : t.WF) : (t.linModes ls).WF := by
  cases t with
  | nil => exact absurd h (by simp [Tensor.WF])
  | cons m ms =>
    have := WFfrom_linModes_sq (m :: ms) ls _ h
    cases ls with
    | nil => exact h
    | cons l ls =>
      cases l with
      | none => exact this
      | some q =>
        obtain ⟨rows, L⟩ := q
        simp only [Tensor.linModes, Tensor.WF] at this ⊢
        rw [spatialLin_rl_sq]; exact this

/-- the shape with the flagged modes set to one -/
def oneShape : List Bool → List Nat → List Nat
  | true :: ds, _ :: ns => 1 :: oneShape ds ns
  | false :: ds, n :: ns => n :: oneShape ds ns
  | _, ns => ns

/-- one-row maps on the flagged modes: those modes get size one, the others keep theirs -/
theorem shape_linModes_row (g : Nat → Nat → Nat → R) (t : Tensor R) : ∀ (dims : List Bool),
    (t.linModes (List.zipWith (fun b (m : TMode R) => if b then some (1, g m.n) else Option.none) dims t)).shape
      = oneShape dims t.shape := by
  induction t with
  | nil => intro dims; cases dims with
    | nil => rfl
    | cons b bs => cases b <;> rfl
  | cons m ms ih =>
    intro dims
    cases dims with
    | nil => rfl
    | cons b bs =>
      cases b with
      | false =>
        simp only [List.zipWith_cons_cons, Bool.false_eq_true, if_false, Tensor.linModes, Tensor.shape, List.map_cons, oneShape]
        congr 1; exact ih bs
      | true =>
        simp only [List.zipWith_cons_cons, if_true, Tensor.linModes, Tensor.shape, List.map_cons, oneShape, spatialLin_n_sq]
        congr 1; exact ih bs

theorem length_linModes (t : Tensor R) : ∀ (ls : List (Option (Nat × (Nat → Nat → R)))), (t.linModes ls).length = t.length := by
  induction t with
  | nil => intro ls; cases ls with
    | nil => rfl
    | cons l ls => cases l <;> rfl
  | cons m ms ih =>
    intro ls
    cases ls with
    | nil => rfl
    | cons l ls =>
      cases l with
      | none => simp [Tensor.linModes, ih ls]
      | some q => obtain ⟨rows, L⟩ := q; simp [Tensor.linModes, ih ls]

theorem flaggedOne_oneShape : ∀ (dims : List Bool) (ns : List Nat), flaggedOne dims (oneShape dims ns) := by
  intro dims
  induction dims with
  | nil => intro ns; simp [flaggedOne]
  | cons b ds ih =>
    intro ns
    cases ns with
    | nil => cases b <;> simp [oneShape, flaggedOne]
    | cons n ns => cases b <;> simp [oneShape, flaggedOne, ih ns]

theorem keepShape_oneShape : ∀ (dims : List Bool) (ns : List Nat), keepShape dims (oneShape dims ns) = keepShape dims ns := by
  intro dims
  induction dims with
  | nil => intro ns; simp [keepShape]
  | cons b ds ih =>
    intro ns
    cases ns with
    | nil => cases b <;> simp [oneShape, keepShape]
    | cons n ns => cases b <;> simp [oneShape, keepShape, ih ns]

end lin

theorem fillIdx_length : ∀ (dims : List Bool) (out : List Nat), out.length = keepCount dims →
    (fillIdx dims out).length = dims.length := by
  intro dims
  induction dims with
  | nil => intro out _; simp [fillIdx]
  | cons b ds ih =>
    intro out h
    cases b with
    | true => simp [fillIdx, ih out (by simpa [keepCount] using h)]
    | false =>
      cases out with
      | nil => simp [keepCount] at h
      | cons j out => simp [fillIdx, ih out (by simpa [keepCount] using h)]

section finish
variable [Zero R] [One R] [Add R] [Mul R]

/-- what `__getitem__` returns for the final state of its state machine -/
def finishKey (r : List (TMode R) × Option (PInt R)) : Tensor R ⊕ R :=
  match r with
  | ([], some p) => .inr p.total
  | (l, _) => .inl l

/-- `Tensor.getitem` once the key has been processed and normalised: the state machine, then `finishKey` -/
theorem getitem_unfold (u : Tensor R) (key key1 : List RawItem) (items : List Item)
    (hp : processKey u.length key = .ok key1) (hn : normKey key1 u.shape = .ok items) :
    ∃ lastRR, ∀ r, goKey lastRR false Option.none (groupKey items) u = .ok r → u.getitem key = .ok (finishKey r) := by
  refine ⟨(match u.getLast? with | some m => m.core.rr | Option.none => 1), fun r hr => ?_⟩
  simp only [Tensor.getitem, hp, hn, bind, Except.bind]
  split
  · rename_i e he
    have := he.symm.trans hr
    cases this
  · rename_i v hv
    have := hv.symm.trans hr
    cases this
    obtain ⟨l, q⟩ := r
    cases l <;> cases q <;> rfl

end finish

theorem allDims_all (t : Tensor R) : (allDims t).all id = true := by
  induction t with
  | nil => rfl
  | cons m ms ih => simp [allDims]

theorem allDims_length (t : Tensor R) : (allDims t).length = t.length := by simp [allDims]

theorem allDims_eq (t : Tensor R) : allDims t = t.shape.map fun _ => true := by
  simp [allDims, Tensor.shape, List.map_map, Function.comp_def]

/-! ### the modes the state machine emits for the squeeze key form a well-formed chain -/
section wfres
variable [CommSemiring R]

theorem combOpt_spec (p : Option (PInt R)) (m : TMode R) (k rin : Nat) (hm : m.core.rl = rin)
    (hp : ∀ q, p = some q → q.rr = rin) :
    (PInt.combOpt p (getInt m k)).rr = m.core.rr ∧ (PInt.combOpt p (getInt m k)).rl = rowdim p rin := by
  obtain ⟨g1, g2, _⟩ := getInt_spec m k
  cases p with
  | none => exact ⟨g2, by simp [PInt.combOpt, rowdim, g1, hm]⟩
  | some q =>
    obtain ⟨c1, c2, _⟩ := comb_spec q (getInt m k) (by rw [hp q rfl, g1, hm])
    exact ⟨by simp [PInt.combOpt, c2, g2], by simp [PInt.combOpt, rowdim, c1]⟩

theorem emitJoin_wf (p : Option (PInt R)) (m : TMode R) (r : List (TMode R) × Option (PInt R)) (rin : Nat)
    (hm : m.core.rl = rin) (hok : m.ok) (hp : ∀ q, p = some q → q.rr = rin)
    (hr : Tensor.WFfrom m.core.rr r.1) (hq : ∀ q, r = ([], some q) → q.rl = m.core.rr) :
    Tensor.WFfrom (rowdim p rin) (emitJoin p m r).1 := by
  -- the joined mode
  have hj : (joinOpt p m).core.rl = rowdim p rin ∧ (joinOpt p m).core.rr = m.core.rr ∧ (joinOpt p m).ok := by
    cases p with
    | none => exact ⟨hm, rfl, hok⟩
    | some q =>
      obtain ⟨j1, j2, _, j4, _⟩ := joinMode_spec q m (by rw [hp q rfl, hm])
      exact ⟨j1, j2, j4.mpr hok⟩
  obtain ⟨h1, h2, h3⟩ := hj
  obtain ⟨l, q⟩ := r
  cases l with
  | nil =>
    cases q with
    | none => exact ⟨h1, h3, trivial⟩
    | some q =>
      obtain ⟨a1, _, a3, _⟩ := absorbMode_spec (joinOpt p m) q (by rw [hq q rfl, h2])
      exact ⟨by simp only [emitJoin]; rw [a1, h1], a3.mpr h3, trivial⟩
  | cons x xs =>
    refine ⟨h1, h3, ?_⟩
    simp only at hr
    rw [h2]; exact hr

theorem goKey_sq_wf (lastRR : Nat) : ∀ (dims : List Bool) (ms : Tensor R) (d : Bool) (p : Option (PInt R)) (rin : Nat)
    (r : List (TMode R) × Option (PInt R)),
    dims.length = ms.length → Tensor.WFfrom rin ms → (∀ q, p = some q → q.rr = rin) →
    goKey lastRR d p (sqG dims ms.shape) ms = .ok r →
    Tensor.WFfrom (rowdim p rin) r.1 ∧ (∀ q, r = ([], some q) → q.rl = rowdim p rin) := by
  intro dims
  induction dims with
  | nil =>
    intro ms d p rin r _ _ _ h
    simp only [sqG, goKey, Except.ok.injEq] at h
    subst h
    refine ⟨trivial, ?_⟩
    intro q hq
    simp only [Prod.mk.injEq, true_and] at hq
    subst hq; rfl
  | cons b ds ih =>
    intro ms d p rin r hl hw hp h
    cases ms with
    | nil => simp at hl
    | cons m rest =>
      have hl' : ds.length = rest.length := by simpa using hl
      obtain ⟨w1, w2, w3⟩ := hw
      cases b with
      | true =>
        simp only [Tensor.shape, List.map_cons, sqG, goKey] at h
        obtain ⟨c1, c2⟩ := combOpt_spec p m 0 rin w1 hp
        have := ih rest d (some (PInt.combOpt p (getInt m 0))) m.core.rr r hl' w3
          (by intro q hq; simp only [Option.some.injEq] at hq; subst hq; exact c1) h
        simp only [rowdim, c2] at this
        exact this
      | false =>
        simp only [Tensor.shape, List.map_cons, sqG, goKey, bind, Except.bind, pure, Except.pure] at h
        split at h
        · cases h
        · rename_i r' hr'
          simp only [Except.ok.injEq] at h
          subst h
          obtain ⟨i1, i2⟩ := ih rest d Option.none m.core.rr r' hl' w3 (by intro q hq; cases hq) hr'
          simp only [rowdim] at i1 i2
          obtain ⟨s1, s2, _, s4, _⟩ := slice_spec m 0 1 m.n
          refine ⟨emitJoin_wf p _ r' rin (by rw [s1, w1]) (s4.mpr w2) hp (by rw [s2]; exact i1) (by rw [s2]; exact i2), ?_⟩
          intro q hq
          exact absurd (congrArg Prod.fst hq) (emitJoin_ne _ _ _)

end wfres

theorem keepShape_eq_nil : ∀ (dims : List Bool) (ns : List Nat), dims.length = ns.length →
    (keepShape dims ns = [] ↔ dims.all id = true) := by
  intro dims
  induction dims with
  | nil => intro ns _; simp [keepShape]
  | cons b ds ih =>
    intro ns hl
    cases ns with
    | nil => simp at hl
    | cons n ns => cases b <;> simp [keepShape, ih ns (by simpa using hl)]

end TN
