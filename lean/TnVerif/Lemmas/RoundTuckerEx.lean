import TnVerif.Lemmas.RoundTucker
import Mathlib.Tactic.IntervalCases
import Mathlib.Tactic.NormNum
/-! A concrete input meeting every hypothesis of the `round_tucker` theorems (non-vacuity): the 2×2 array `diag(3,1)` as a two-core TT
    chain with identity Tucker factors, `eps = 0`, `rmax = 7`, together with the exact answers of the four kernels for both iterations. -/
set_option linter.unusedSimpArgs false
set_option linter.unusedSectionVars false
set_option linter.unusedVariables false
set_option linter.unnecessarySeqFocus false
open Finset
namespace TN
variable {K : Type} [Field K] [LinearOrder K] [IsStrictOrderedRing K]

def tkExI : Nat → Nat → K := fun a b => if a = b then 1 else 0
def tkExD : Nat → Nat → K := fun a b => if a = b then (if a = 0 then 3 else 1) else 0
/-- the two TT cores of `diag(3,1)` as handed to `round_tucker` -/
def tkExM0 : Mode K := { rl := 1, rr := 2, n := 2, G := fun i _ b => if i = b then 1 else 0 }
def tkExM1 : Mode K := { rl := 2, rr := 1, n := 2, G := fun i a _ => tkExD i a }
/-- the QR answer of `orthogonalize(-1)` (the first core is already orthonormal: `Q = I`, `R = I`) -/
def tkExQ : QRAns K := { k := 2, Q := tkExI, Rm := tkExI }
/-- the state entering the loop: the orthogonalised cores with identity factors -/
def tkExP : TkMode K := TkMode.ofMode (orthStep tkExM0 tkExM1 tkExQ).1
def tkExCur : TkMode K := TkMode.ofMode (orthStep tkExM0 tkExM1 tkExQ).2
def tkExA : TkAns K :=
  { qr := { k := 2, Q := tkExI, Rm := tkExD },
    svd := { n := 2, U := tkExI, S := fun l => if l = 0 then 3 else 1, Vh := fun l j _ => tkExI l j },
    fq := { k := 2, Q := tkExI, Rm := tkExI },
    rq := { k := 2, Q := tkExI, Rm := tkExD } }

theorem tkExRank (d2 : K) (h : d2 = 0) : stepRank (0 : K) d2 (tkExA (K := K)).svd 7 = 2 := by
  subst h
  simp [stepRank, tkExA, rankSelect, leastRank, tailSum, SVDAns.sq, List.range, List.range.loop]
  norm_num


theorem tkExStepRank (c : TkMode K) : tkStepRank (0 : K) 0 2 c tkExA 7 = 2 := by
  unfold tkStepRank
  exact tkExRank _ (by simp [tkBudget2])

theorem tkExCore (c : TkMode K) : tkStepCore (0 : K) 0 2 c tkExA 7 = tkTrunc (tkGauge c tkExA.qr) tkExA.svd 2 := by
  rw [tkStepCore_eq _ _ _ _ _ _ (by simp [tkExA]), tkExStepRank]

theorem tkExQR1 : TkQRok (tkExCur (K := K)) tkExA.qr := by
  refine ⟨?_, ?_⟩
  · intro a ha j hj b hb
    simp only [tkExCur, TkMode.ofMode, orthStep, tkExM0, tkExM1, tkExQ, sumTo_eq] at ha hj hb
    interval_cases a <;> interval_cases j <;> interval_cases b <;> simp [tkExCur, TkMode.ofMode, tkExA, tkExI, tkExD, Finset.sum_range_succ, orthStep, tkExM0, tkExM1, tkExQ, sumTo_eq]
  · intro l hl l' hl'
    simp only [tkExA] at hl hl'
    interval_cases l <;> interval_cases l' <;> simp [tkExCur, TkMode.ofMode, tkExA, tkExI, Finset.sum_range_succ, orthStep, tkExM0, tkExM1, tkExQ, sumTo_eq]

theorem tkExSVD (c : TkMode K) (hr : c.rows = 2) (hn : c.core.n = 2) (hU : ∀ i j, i < 2 → j < 2 → c.U i j = tkExI i j) :
    TkSVDok (tkGauge c tkExA.qr) tkExA.svd := by
  refine ⟨?_, ?_, ?_⟩
  · intro i hi l hl
    simp only [tkGauge, hr, tkExA] at hi hl
    simp only [tkGauge, sumTo_eq, hn]
    interval_cases i <;> interval_cases l <;> simp [tkExA, tkExI, tkExD, Finset.sum_range_succ, hU]
  · intro k l hk hl
    simp only [tkExA] at hk hl
    simp only [tkGauge, hr]
    interval_cases k <;> interval_cases l <;> simp [tkExA, tkExI, Finset.sum_range_succ]
  · intro k l hk hl
    simp only [tkExA] at hk hl
    simp only [tkGauge]
    interval_cases k <;> interval_cases l <;> simp [tkExA, tkExI, Finset.sum_range_succ]


theorem tkExFQ : TkFQok (tkTrunc (tkGauge (tkExCur (K := K)) tkExA.qr) tkExA.svd 2) tkExA.fq := by
  refine ⟨?_, ?_, rfl⟩
  · intro i hi k hk
    simp only [tkTrunc, tkGauge, tkExCur, TkMode.ofMode, orthStep, tkExM0, tkExM1, tkExQ, sumTo_eq] at hi hk
    interval_cases i <;> interval_cases k <;> simp [tkTrunc, tkExA, tkExI, Finset.sum_range_succ]
  · intro l hl l' hl'
    simp only [tkExA] at hl hl'
    interval_cases l <;> interval_cases l' <;> simp [tkTrunc, tkGauge, tkExCur, TkMode.ofMode, tkExA, tkExI, Finset.sum_range_succ, orthStep, tkExM0, tkExM1, tkExQ, sumTo_eq]

theorem tkExRQ : TkRQok (tkTrunc (tkGauge (tkExCur (K := K)) tkExA.qr) tkExA.svd 2) tkExA.fq tkExA.rq := by
  refine ⟨?_, ?_⟩
  · intro l hl a ha b hb
    simp only [tkTrunc, tkGauge, tkExCur, TkMode.ofMode, tkExA, orthStep, tkExM0, tkExM1, tkExQ, sumTo_eq] at hl ha hb
    interval_cases l <;> interval_cases a <;> interval_cases b <;>
      simp [tkCore3, tkTrunc, tkGauge, tkRight, tkExCur, TkMode.ofMode, tkExA, tkExI, tkExD, sumTo_eq, Finset.sum_range_succ, orthStep, tkExM0, tkExM1, tkExQ, sumTo_eq]
  · intro c hc c' hc'
    simp only [tkExA] at hc hc'
    interval_cases c <;> interval_cases c' <;> simp [tkTrunc, tkGauge, tkExCur, TkMode.ofMode, tkExA, tkExI, Finset.sum_range_succ, orthStep, tkExM0, tkExM1, tkExQ, sumTo_eq]

/-- mode `0` after the first iteration -/
def tkExP' : TkMode K := (tkRegauge tkExP (tkTrunc (tkGauge (tkExCur (K := K)) tkExA.qr) tkExA.svd 2) tkExA.fq tkExA.rq).1

theorem tkExQR2 : TkQRok (tkExP' (K := K)) tkExA.qr := by
  refine ⟨?_, ?_⟩
  · intro a ha j hj b hb
    simp only [tkExP', tkRegauge, tkExP, TkMode.ofMode, tkExA, orthStep, tkExM0, tkExM1, tkExQ, sumTo_eq] at ha hj hb
    interval_cases a <;> interval_cases j <;> interval_cases b <;>
      simp [tkExP', tkRegauge, tkExP, TkMode.ofMode, tkExA, tkExI, tkExD, sumTo_eq, Finset.sum_range_succ, orthStep, tkExM0, tkExM1, tkExQ, sumTo_eq]
  · intro l hl l' hl'
    simp only [tkExA] at hl hl'
    interval_cases l <;> interval_cases l' <;> simp [tkExP', tkRegauge, tkExP, TkMode.ofMode, tkExA, tkExI, Finset.sum_range_succ, orthStep, tkExM0, tkExM1, tkExQ, sumTo_eq]

theorem tkExOK : tkOK (0 : K) 0 2 [tkExCur, tkExP] [(tkExA, 7), (tkExA, 7)] := by
  have hU1 : ∀ i j, i < 2 → j < 2 → (tkExCur (K := K)).U i j = tkExI i j := by intro i j _ _; rfl
  have hU2 : ∀ i j, i < 2 → j < 2 → (tkExP' (K := K)).U i j = tkExI i j := by intro i j _ _; rfl
  refine ⟨tkExQR1, tkExSVD tkExCur rfl rfl hU1, by simp [tkExA], by simp [tkExA], ?_, ?_, ?_⟩
  · rw [tkExCore]; exact tkExFQ
  · rw [tkExCore]; exact tkExRQ
  · simp only [tuckerStep]
    rw [tkExCore]
    exact ⟨tkExQR2, tkExSVD tkExP' rfl rfl hU2, by simp [tkExA], by simp [tkExA]⟩

theorem tkExUncapped : tkUncapped (0 : K) 0 2 [tkExCur, tkExP] [(tkExA, 7), (tkExA, 7)] := by
  have hb : ∀ d2 : K, leastRank (tkExA (K := K)).svd.sq d2 (tkExA (K := K)).svd.sq.length 0 ≤ 7 := by
    intro d2
    have h := (leastRank_spec (tkExA (K := K)).svd.sq d2 (tkExA (K := K)).svd.sq.length 0).2.1
    have : (tkExA (K := K)).svd.sq.length = 2 := by simp [SVDAns.sq, tkExA]
    omega
  exact ⟨hb _, hb _⟩

theorem tkExShapes : tkShapes (0 : K) 0 2 [tkExCur, tkExP] [(tkExA, 7), (tkExA, 7)] := by
  refine ⟨by simp [tkExA], by simp [tkExA, tkExCur, TkMode.ofMode, orthStep, tkExM0, tkExM1, tkExQ, sumTo_eq], ?_⟩
  simp only [tuckerStep]
  exact ⟨by simp [tkExA], by simp [tkExA, tkRegauge, tkExP, TkMode.ofMode, orthStep, tkExM0, tkExM1, tkExQ, sumTo_eq]⟩

theorem tkExLO : chainLO ([tkExP (K := K)].map TkMode.toMode) := by
  refine ⟨rfl, ?_, trivial⟩
  intro d hd d' hd'
  simp only [tkExP, TkMode.ofMode, TkMode.toMode, Mode.lin, orthStep, tkExM0, tkExM1, tkExQ, sumTo_eq] at hd hd' ⊢
  interval_cases d <;> interval_cases d' <;> simp [sumTo_eq, Finset.sum_range_succ, tkExI]

theorem tkExQROK : qrOK [tkExM0 (K := K), tkExM1] [tkExQ] := by
  refine ⟨⟨?_, ?_⟩, rfl, trivial⟩
  · intro a ha i hi b hb
    simp only [tkExM0] at ha hi hb
    interval_cases a <;> interval_cases i <;> interval_cases b <;> simp [tkExM0, tkExQ, tkExI, Finset.sum_range_succ]
  · intro d hd d' hd'
    simp only [tkExQ] at hd hd'
    interval_cases d <;> interval_cases d' <;> simp [tkExM0, tkExQ, tkExI, Finset.sum_range_succ]

theorem tkExRev : (leftSweep [tkExM0 (K := K), tkExM1] [tkExQ]).reverse
    = (orthStep tkExM0 tkExM1 tkExQ).2 :: [(orthStep tkExM0 tkExM1 tkExQ).1] := rfl

end TN
