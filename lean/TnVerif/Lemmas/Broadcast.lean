import TnVerif.Lemmas.Tensor
/-! `Tensor.repeat`, `_broadcast`, scalar scaling, constant tensors; preservation of `WF` and shapes. -/
set_option linter.unusedSectionVars false
set_option linter.unusedSimpArgs false
open Finset
namespace TN
variable {R : Type} [CommSemiring R]

/-! ### repeat -/
theorem repeatN_rl (k : Nat) (m : TMode R) : (m.repeatN k).core.rl = m.core.rl := by
  obtain ⟨c, U⟩ := m
  cases U with
  | some U => rfl
  | none => cases c <;> rfl
theorem repeatN_rr (k : Nat) (m : TMode R) : (m.repeatN k).core.rr = m.core.rr := by
  obtain ⟨c, U⟩ := m
  cases U with
  | some U => rfl
  | none => cases c <;> rfl
theorem repeatN_n (k : Nat) (m : TMode R) : (m.repeatN k).n = m.n * k := by
  obtain ⟨c, U⟩ := m
  cases U with
  | some U => rfl
  | none => cases c <;> rfl
theorem repeatN_ok (k : Nat) (m : TMode R) (h : m.ok) : (m.repeatN k).ok := by
  obtain ⟨c, U⟩ := m
  cases U with
  | some U => exact h
  | none => cases c <;> trivial

theorem repeatN_G (k : Nat) (m : TMode R) (i a b : Nat) :
    (m.repeatN k).toMode.G i a b = m.toMode.G (i % m.n) a b := by
  obtain ⟨c, U⟩ := m
  cases U with
  | some U =>
    simp only [TMode.repeatN, TMode.toMode_G, TMode.decomp_some, Fac.apply_get, TMode.n_some]
  | none =>
    cases c <;> simp [TMode.repeatN, TMode.toMode_G]

def modIdx : List Nat → List Nat → List Nat
  | i :: is, s :: ss => i % s :: modIdx is ss
  | _, _ => []

theorem tail_repeatT (t : Tensor R) : ∀ (ks is : List Nat) (a : Nat), ks.length = t.length → is.length = t.length →
    tail (Tensor.repeatT ks t).modes is a = tail t.modes (modIdx is t.shape) a := by
  induction t with
  | nil => intro ks is a _ _; cases ks <;> simp [Tensor.repeatT, Tensor.modes, tail]
  | cons m ms ih =>
    intro ks is a hk hi
    cases ks with
    | nil => simp at hk
    | cons k ks =>
      cases is with
      | nil => simp at hi
      | cons i is =>
        simp only [Tensor.repeatT, Tensor.modes, List.map_cons, Tensor.shape, modIdx, tail, TMode.toMode_rr, repeatN_rr]
        congr 1; funext b
        rw [repeatN_G]
        have := ih ks is b (by simpa using hk) (by simpa using hi)
        simp only [Tensor.modes, Tensor.shape] at this
        rw [this]

theorem dense_repeatT (t : Tensor R) (ks is : List Nat) (hk : ks.length = t.length) (hi : is.length = t.length) :
    dense (Tensor.repeatT ks t).modes is = dense t.modes (modIdx is t.shape) := by
  have h := tail_repeatT t ks is
  cases t with
  | nil => cases ks <;> simp [Tensor.repeatT, Tensor.modes, dense]
  | cons m ms =>
    cases ks with
    | nil => simp at hk
    | cons k ks =>
      simp only [Tensor.repeatT, Tensor.modes, List.map_cons, dense, TMode.toMode_rl, repeatN_rl] at h ⊢
      congr 1; funext a
      exact h a hk hi

theorem WFfrom_repeatT (t : Tensor R) : ∀ (ks : List Nat) (p : Nat), ks.length = t.length → Tensor.WFfrom p t →
    Tensor.WFfrom p (Tensor.repeatT ks t) := by
  induction t with
  | nil => intro ks p _ _; cases ks <;> trivial
  | cons m ms ih =>
    intro ks p hk h
    cases ks with
    | nil => simp at hk
    | cons k ks =>
      obtain ⟨h1, h2, h3⟩ := h
      refine ⟨by rw [repeatN_rl]; exact h1, repeatN_ok k m h2, ?_⟩
      rw [repeatN_rr]
      exact ih ks _ (by simpa using hk) h3

theorem WF_repeatT (t : Tensor R) (ks : List Nat) (hk : ks.length = t.length) (h : t.WF) :
    (Tensor.repeatT ks t).WF := by
  cases t with
  | nil => exact absurd h (by simp [Tensor.WF])
  | cons m ms =>
    cases ks with
    | nil => simp at hk
    | cons k ks =>
      have := WFfrom_repeatT (m :: ms) (k :: ks) _ hk h
      simp only [Tensor.WF, Tensor.repeatT] at this ⊢
      rw [repeatN_rl]; exact this

theorem shape_repeatT (t : Tensor R) : ∀ (ks : List Nat), ks.length = t.length →
    (Tensor.repeatT ks t).shape = List.zipWith (· * ·) t.shape ks := by
  induction t with
  | nil => intro ks _; cases ks <;> rfl
  | cons m ms ih =>
    intro ks hk
    cases ks with
    | nil => simp at hk
    | cons k ks =>
      simp only [Tensor.repeatT, Tensor.shape, List.map_cons, List.zipWith_cons_cons, repeatN_n, List.cons.injEq, true_and]
      exact ih ks (by simpa using hk)

/-! ### broadcast -/
def bshape : List Nat → List Nat → List Nat
  | a :: as, b :: bs => (if a = 1 then b else a) :: bshape as bs
  | _, _ => []

theorem bc_shapes (s1 s2 : List Nat) (h : bcOK s1 s2 = true) :
    List.zipWith (· * ·) s1 (List.zipWith bcRep s1 s2) = bshape s1 s2 ∧
    List.zipWith (· * ·) s2 (List.zipWith bcRep s2 s1) = bshape s1 s2 := by
  induction s1 generalizing s2 with
  | nil => cases s2 <;> simp_all [bcOK, bshape]
  | cons a as ih =>
    cases s2 with
    | nil => simp [bcOK] at h
    | cons b bs =>
      simp only [bcOK, Bool.and_eq_true, Bool.or_eq_true, beq_iff_eq] at h
      obtain ⟨h1, h2⟩ := h
      obtain ⟨ih1, ih2⟩ := ih bs h2
      simp only [List.zipWith_cons_cons, bshape, ih1, ih2, List.cons.injEq, and_true, bcRep]
      constructor
      · by_cases hab : a = b
        · subst hab; simp
        · by_cases ha : a = 1
          · subst ha; simp [hab]
          · simp [hab, ha]
      · by_cases hab : a = b
        · subst hab; by_cases ha : a = 1 <;> simp [ha]
        · have hba : ¬ b = a := fun h => hab h.symm
          by_cases hb : b = 1
          · subst hb; simp [hab, hba]
          · have ha : a = 1 := by rcases h1 with (h|h)|h <;> simp_all
            subst ha; simp [hba, hb]

theorem bcOK_length (s1 s2 : List Nat) (h : bcOK s1 s2 = true) : s1.length = s2.length := by
  induction s1 generalizing s2 with
  | nil => cases s2 <;> simp_all [bcOK]
  | cons a as ih =>
    cases s2 with
    | nil => simp [bcOK] at h
    | cons b bs =>
      simp only [bcOK, Bool.and_eq_true] at h
      simp [ih bs h.2]

omit [CommSemiring R] in
theorem shape_length (t : Tensor R) : t.shape.length = t.length := by simp [Tensor.shape]

omit [CommSemiring R] in
theorem broadcast_of_eq [Zero R] [One R] [Add R] [Mul R] (a b : Tensor R) (h : a.shape = b.shape) : broadcast a b = (a, b) := by
  unfold broadcast; rw [if_pos h]

/-- index list inside a shape -/
def inShape : List Nat → List Nat → Prop
  | [], [] => True
  | i :: is, s :: ss => i < s ∧ inShape is ss
  | _, _ => False

theorem modIdx_inShape (idx s : List Nat) (h : inShape idx s) : modIdx idx s = idx := by
  induction idx generalizing s with
  | nil => cases s <;> simp [modIdx]
  | cons i is ih =>
    cases s with
    | nil => simp [inShape] at h
    | cons a as => simp [modIdx, Nat.mod_eq_of_lt h.1, ih as h.2]

theorem inShape_length (idx s : List Nat) (h : inShape idx s) : idx.length = s.length := by
  induction idx generalizing s with
  | nil => cases s <;> simp_all [inShape]
  | cons i is ih =>
    cases s with
    | nil => simp [inShape] at h
    | cons a as => simp [ih as h.2]

theorem bshape_self (s : List Nat) : bshape s s = s := by
  induction s with
  | nil => rfl
  | cons a as ih => simp [bshape, ih]

/-- both results of `_broadcast` are well-formed, have the broadcast shape, and decompress to the
    operand read at the index taken modulo the operand's own shape -/
theorem broadcast_spec (t u : Tensor R) (ht : t.WF) (hu : u.WF) (hb : bcOK t.shape u.shape = true) :
    (broadcast t u).1.WF ∧ (broadcast t u).2.WF ∧
    (broadcast t u).1.shape = bshape t.shape u.shape ∧ (broadcast t u).2.shape = bshape t.shape u.shape ∧
    ∀ idx : List Nat, inShape idx (bshape t.shape u.shape) →
      dense (broadcast t u).1.modes idx = dense t.modes (modIdx idx t.shape) ∧
      dense (broadcast t u).2.modes idx = dense u.modes (modIdx idx u.shape) := by
  have hlen : t.length = u.length := by
    have := bcOK_length _ _ hb; simpa [shape_length] using this
  have hl1 : (List.zipWith bcRep t.shape u.shape).length = t.length := by simp [shape_length, hlen]
  have hl2 : (List.zipWith bcRep u.shape t.shape).length = u.length := by simp [shape_length, hlen]
  obtain ⟨b1, b2⟩ := bc_shapes _ _ hb
  unfold broadcast
  by_cases hs : t.shape = u.shape
  · rw [if_pos hs]
    refine ⟨ht, hu, ?_, ?_, ?_⟩
    · rw [← hs, bshape_self]
    · rw [← hs, bshape_self]
    · intro idx hi
      rw [← hs, bshape_self] at hi
      rw [← hs, modIdx_inShape _ _ hi]
      exact ⟨rfl, rfl⟩
  · rw [if_neg hs]
    refine ⟨WF_repeatT _ _ hl1 ht, WF_repeatT _ _ hl2 hu, ?_, ?_, ?_⟩
    · rw [shape_repeatT _ _ hl1, b1]
    · rw [shape_repeatT _ _ hl2, b2]
    · intro idx hi
      have hi' : idx.length = t.length := by
        rw [inShape_length _ _ hi, ← b1, List.length_zipWith, List.length_zipWith]; simp [shape_length, hlen]
      exact ⟨dense_repeatT _ _ _ hl1 hi', dense_repeatT _ _ _ hl2 (by rw [hi', hlen])⟩

end TN
