import TnVerif.Lemmas.Assign
import TnVerif.Lemmas.SqueezeOps
/-! Assignment keys with integers (C11): what `normAKey` produces, and the `tn.unsqueeze(value, int_dims)` key of
    `_setitem` as a simple key. -/
set_option linter.unusedSectionVars false
set_option linter.unusedSimpArgs false
namespace TN
variable {R : Type}

/-- an assignment key that `normAKey` accepts has no `None` and no index array: one selection per entry, every entry
    consumes a mode, and an integer entry selects exactly one position -/
theorem asgi_normAKey : ∀ (items : List Item) (sels : List Sel), normAKey items = .ok sels →
    sels.length = items.length ∧ gk_consI items = items.length ∧ ∀ s ∈ sels, s.isInt = true → s.count = 1 := by
  intro items
  induction items with
  | nil => intro sels h; simp only [normAKey, Except.ok.injEq] at h; subst h; simp [gk_consI]
  | cons x xs ih =>
    intro sels h
    cases x with
    | none => simp [normAKey] at h
    | arr l => simp [normAKey] at h
    | int k =>
      simp only [normAKey, bind, Except.bind] at h
      split at h
      · cases h
      · rename_i r hr
        simp only [pure, Except.pure, Except.ok.injEq] at h; subst h
        obtain ⟨i1, i2, i3⟩ := ih r hr
        refine ⟨by simp [i1], by simp [gk_consI, i2], ?_⟩
        intro s hs hi
        rcases List.mem_cons.mp hs with rfl | hm
        · rfl
        · exact i3 s hm hi
    | slice a st c =>
      simp only [normAKey, bind, Except.bind] at h
      split at h
      · cases h
      · rename_i r hr
        simp only [pure, Except.pure, Except.ok.injEq] at h; subst h
        obtain ⟨i1, i2, i3⟩ := ih r hr
        refine ⟨by simp [i1], by simp [gk_consI, i2], ?_⟩
        intro s hs hi
        rcases List.mem_cons.mp hs with rfl | hm
        · cases hi
        · exact i3 s hm hi

/-- the key `tn.unsqueeze(value, int_dims)` builds: `None` at the integer positions, `:` elsewhere -/
theorem asgi_unsqueezeKey (sels : List Sel) : unsqueezeKey sels = skRaw (uqSK (sels.map (·.isInt))) := by
  rw [sqops_skRaw_uq]
  induction sels with
  | nil => rfl
  | cons s ss ih => simp only [unsqueezeKey, List.map_cons, ih]

theorem asgi_skCons (sels : List Sel) : skCons (uqSK (sels.map (·.isInt))) = (selShape sels).length := by
  induction sels with
  | nil => rfl
  | cons s ss ih =>
    cases hs : s.isInt
    · simp only [uqSK, List.map_cons, hs, Bool.false_eq_true, if_false, skCons, selShape, List.length_cons] at ih ⊢
      rw [ih]
    · simp only [uqSK, List.map_cons, hs, if_true, skCons, selShape] at ih ⊢
      rw [ih]

/-- the unsqueezed value has the full selection shape (an integer position selects one entry) -/
theorem asgi_insOnes : ∀ (sels : List Sel), (∀ s ∈ sels, s.isInt = true → s.count = 1) →
    sqops_insOnes (sels.map (·.isInt)) (selShape sels) = sels.map (·.count) := by
  intro sels
  induction sels with
  | nil => intro _; rfl
  | cons s ss ih =>
    intro h
    have ih' := ih (fun x hx => h x (List.mem_cons_of_mem _ hx))
    cases hs : s.isInt
    · simp only [List.map_cons, hs, selShape, Bool.false_eq_true, if_false, sqops_insOnes, ih']
    · simp only [List.map_cons, hs, selShape, if_true, sqops_insOnes, ih', h s List.mem_cons_self hs]

theorem asgi_posIdx_length : ∀ (sels : List Sel) (idx : List Nat), sels.length = idx.length →
    (posIdx sels idx).length = sels.length := by
  intro sels
  induction sels with
  | nil => intro idx _; rfl
  | cons s ss ih =>
    intro idx h
    cases idx with
    | nil => simp at h
    | cons i is => simp [posIdx, ih is (by simpa using h)]

theorem asgi_keepShape_noInt : ∀ (sels : List Sel) (out : List Nat), sels.any (·.isInt) = false →
    sels.length = out.length → keepShape (sels.map (·.isInt)) out = out := by
  intro sels
  induction sels with
  | nil => intro out _ h; simp [keepShape, List.length_eq_zero_iff.mp h.symm]
  | cons s ss ih =>
    intro out h hl
    simp only [List.any_cons, Bool.or_eq_false_iff] at h
    cases out with
    | nil => simp at hl
    | cons j out => simp only [List.map_cons, h.1, keepShape, ih out h.2 (by simpa using hl)]

/-- `int_dims` of `_setitem` (tensor.py:1590-1608): the positions of the integer entries of the key, in order -/
def asgi_intDims (sels : List Sel) : List Nat :=
  (List.range sels.length).filter fun k => (sels[k]?.map (·.isInt)).getD false

theorem asgi_intDims_lt (sels : List Sel) : ∀ k ∈ asgi_intDims sels, k < sels.length := by
  intro k hk
  simp only [asgi_intDims, List.mem_filter, List.mem_range] at hk
  exact hk.1

theorem asgi_intDims_nodup (sels : List Sel) : (asgi_intDims sels).Nodup :=
  List.Nodup.filter _ List.nodup_range

/-- marking `int_dims` in a list of `len(key)` entries flags exactly the integer entries -/
theorem asgi_mark (sels : List Sel) : sqops_mark sels.length (asgi_intDims sels) = sels.map (·.isInt) := by
  apply List.ext_getElem?
  intro k
  by_cases hk : k < sels.length
  · rw [sqops_mark_get _ _ _ hk]
    simp only [asgi_intDims, List.mem_filter, List.mem_range, hk, true_and, List.getElem?_map,
      List.getElem?_eq_getElem hk, Option.map_some, Option.getD_some, Option.some.injEq]
    cases (sels[k]).isInt <;> simp
  · have hk' : sels.length ≤ k := Nat.le_of_not_lt hk
    rw [sqops_mark_get_ge _ _ _ hk']
    simp [hk']

theorem asgi_intDims_length (sels : List Sel) : (selShape sels).length + (asgi_intDims sels).length = sels.length := by
  have h1 := sqops_mark_count sels.length (asgi_intDims sels) (asgi_intDims_nodup sels) (asgi_intDims_lt sels)
  rw [asgi_mark] at h1
  have h2 := sqops_skCons_uq (sels.map (·.isInt))
  rw [asgi_skCons] at h2
  simp only [List.length_map] at h2
  omega

end TN
