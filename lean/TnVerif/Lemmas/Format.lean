import TnVerif.Lemmas.Congr
import TnVerif.Lemmas.Reverse
import TnVerif.Lemmas.WF
import TnVerif.Model.Format
/-! Re-expression lemmas for C01: Tucker decompression, whole-tensor CP→TT, transposition. -/
set_option linter.unusedSectionVars false
set_option linter.unusedSimpArgs false
open Finset
namespace TN
variable {R : Type} [CommSemiring R]

/-! ### absorbing Tucker factors -/
theorem toMode_decomp (m : TMode R) : (TMode.mk m.decomp none).toMode = m.toMode := by
  apply Mode.ext' <;> simp [TMode.toMode_G]

theorem modes_decompAll (t : Tensor R) : t.decompAll.modes = t.modes := by
  simp [Tensor.decompAll, Tensor.modes, List.map_map, Function.comp_def, toMode_decomp]

theorem modes_decompSome (t : Tensor R) : ∀ bs : List Bool, (Tensor.decompSome bs t).modes = t.modes := by
  induction t with
  | nil => intro bs; cases bs <;> rfl
  | cons m ms ih =>
    intro bs
    cases bs with
    | nil => rfl
    | cons b bs =>
      simp only [Tensor.decompSome, Tensor.modes, List.map_cons]
      have := ih bs; simp only [Tensor.modes] at this; rw [this]
      cases b <;> simp [toMode_decomp]

/-! ### boundary replacement -/
/-- the first mode may be replaced by any mode with the same column sums -/
theorem dense_head_replace (m m' : Mode R) (ms : List (Mode R)) (is : List Nat) (hr : m'.rr = m.rr)
    (h : ∀ i b, b < m.rr → (∑ a ∈ range m'.rl, m'.G i a b) = ∑ a ∈ range m.rl, m.G i a b) :
    dense (m' :: ms) is = dense (m :: ms) is := by
  cases is with
  | nil => simp [dense, tail, sumTo_eq]
  | cons i is =>
    simp only [dense, tail, sumTo_eq, hr]
    rw [Finset.sum_comm, Finset.sum_comm (s := range m.rl)]
    apply Finset.sum_congr rfl; intro b hb
    rw [← Finset.sum_mul, ← Finset.sum_mul, h i b (Finset.mem_range.mp hb)]

/-- the last mode may be replaced by any mode with the same row sums -/
theorem tail_last_replace (m m' : Mode R) (is : List Nat) (a : Nat) 
    (h : ∀ i, (∑ b ∈ range m'.rr, m'.G i a b) = ∑ b ∈ range m.rr, m.G i a b) :
    tail [m'] is a = tail [m] is a := by
  cases is with
  | nil => simp [tail]
  | cons i is => simp [tail, sumTo_eq, h i]

/-! ### whole-tensor `_cp_to_tt()` -/
theorem Core.toTT_get (c : Core R) (a j b : Nat) : c.toTT.get a j b = c.get a j b := by cases c <;> rfl
@[simp] theorem Core.toTT_rl (c : Core R) : c.toTT.rl = c.rl := by cases c <;> rfl
@[simp] theorem Core.toTT_rr (c : Core R) : c.toTT.rr = c.rr := by cases c <;> rfl
@[simp] theorem Core.toTT_spatial (c : Core R) : c.toTT.spatial = c.spatial := by cases c <;> rfl
@[simp] theorem Core.lift1_rr (c : Core R) : c.lift1.rr = c.rr := by cases c <;> rfl
@[simp] theorem Core.lift1_spatial (c : Core R) : c.lift1.spatial = c.spatial := by cases c <;> rfl
@[simp] theorem Core.liftLast_rl (c : Core R) : c.liftLast.rl = c.rl := by cases c <;> rfl
@[simp] theorem Core.liftLast_spatial (c : Core R) : c.liftLast.spatial = c.spatial := by cases c <;> rfl

theorem toMode_toTT (c : Core R) (U : Option (Fac R)) : (TMode.mk c.toTT U).toMode = (TMode.mk c U).toMode := by
  cases U with
  | none => apply Mode.ext' <;> simp [TMode.toMode_G, Core.toTT_get, TMode.n]
  | some U => apply Mode.ext' <;> simp [TMode.toMode_G, Fac.apply_get, Core.toTT_get, TMode.n]

theorem lift1_colsum (c : Core R) (j b : Nat) (hb : b < c.rr) :
    (∑ a ∈ range c.lift1.rl, c.lift1.get a j b) = ∑ a ∈ range c.rl, c.get a j b := by
  cases c with
  | tt => rfl
  | cp s r f =>
    simp only [Core.lift1, Core.tt_rl, Core.tt_get, Core.cp_rl, Core.cp_get, Finset.sum_range_one]
    simp only [Core.cp_rr] at hb
    rw [Finset.sum_eq_single b] <;> simp_all

theorem liftLast_rowsum (c : Core R) (j a : Nat) (ha : a < c.rl) :
    (∑ b ∈ range c.liftLast.rr, c.liftLast.get a j b) = ∑ b ∈ range c.rr, c.get a j b := by
  cases c with
  | tt => rfl
  | cp s r f =>
    simp only [Core.liftLast, Core.tt_rr, Core.tt_get, Core.cp_rr, Core.cp_get, Finset.sum_range_one]
    simp only [Core.cp_rl] at ha
    rw [Finset.sum_eq_single a]
    · simp
    · intro b _ hne; simp [Ne.symm hne]
    · intro h; exact absurd (Finset.mem_range.mpr ha) h

theorem dense_lift1 (c : Core R) (U : Option (Fac R)) (ms : List (Mode R)) (is : List Nat) :
    dense ((TMode.mk c.lift1 U).toMode :: ms) is = dense ((TMode.mk c U).toMode :: ms) is := by
  apply dense_head_replace
  · simp
  · intro i b hb
    simp only [TMode.toMode_rr] at hb
    cases U with
    | none => simpa [TMode.toMode_G] using lift1_colsum c i b hb
    | some U =>
      simp only [TMode.toMode_G, TMode.toMode_rl, TMode.decomp_some, Fac.apply_get, Core.lift1_spatial]
      rw [Finset.sum_comm, Finset.sum_comm (s := range c.rl)]
      apply Finset.sum_congr rfl; intro j _
      rw [← Finset.mul_sum, ← Finset.mul_sum, lift1_colsum c j b hb]

theorem tail_liftLast (c : Core R) (U : Option (Fac R)) (is : List Nat) (a : Nat) (ha : a < c.rl) :
    tail [(TMode.mk c.liftLast U).toMode] is a = tail [(TMode.mk c U).toMode] is a := by
  apply tail_last_replace
  intro i
  cases U with
  | none => simpa [TMode.toMode_G] using liftLast_rowsum c i a ha
  | some U =>
    simp only [TMode.toMode_G, TMode.toMode_rr, TMode.decomp_some, Fac.apply_get, Core.liftLast_spatial]
    rw [Finset.sum_comm, Finset.sum_comm (s := range c.rr)]
    apply Finset.sum_congr rfl; intro j _
    rw [← Finset.mul_sum, ← Finset.mul_sum, liftLast_rowsum c j a ha]

theorem tail_cpToTT_go (ms : Tensor R) : ∀ (p : Nat) (is : List Nat) (a : Nat), Tensor.WFfrom p ms → a < p →
    tail (cpToTTAll.go ms).modes is a = tail ms.modes is a := by
  induction ms with
  | nil => intros; rfl
  | cons x xs ih =>
    intro p is a hw ha
    obtain ⟨h1, h2, h3⟩ := hw
    cases xs with
    | nil =>
      obtain ⟨c, U⟩ := x
      simp only [cpToTTAll.go, Tensor.modes, List.map_cons, List.map_nil]
      exact tail_liftLast c U is a (by simpa [h1] using ha)
    | cons y ys =>
      obtain ⟨c, U⟩ := x
      simp only [cpToTTAll.go, Tensor.modes, List.map_cons, toMode_toTT] at ih ⊢
      cases is with
      | nil => simp [tail]
      | cons i is =>
        simp only [tail, sumTo_eq]
        apply Finset.sum_congr rfl; intro b hb
        rw [ih _ is b h3 (by simpa using Finset.mem_range.mp hb)]

theorem dense_sumCols (c : Core R) (U : Option (Fac R)) (is : List Nat) :
    dense [(TMode.mk c.sumCols U).toMode] is = dense [(TMode.mk c U).toMode] is := by
  cases c with
  | tt => rfl
  | cp s r f =>
    cases is with
    | nil => simp [dense, tail, sumTo_eq]
    | cons i is =>
      cases U with
      | none =>
        simp only [Core.sumCols, dense, tail, sumTo_eq, TMode.toMode_rl, TMode.toMode_rr, TMode.toMode_G, TMode.decomp_none,
          Core.tt_rl, Core.tt_rr, Core.cp_rl, Core.cp_rr, Core.tt_get, Core.cp_get, Finset.sum_range_one, mul_one]
        apply Finset.sum_congr rfl; intro a ha
        rw [Finset.sum_eq_single a]
        · simp
        · intro b _ hb; simp [Ne.symm hb]
        · intro hh; exact absurd ha hh
      | some U =>
        simp only [Core.sumCols, dense, tail, sumTo_eq, TMode.toMode_rl, TMode.toMode_rr, TMode.toMode_G, TMode.decomp_some,
          Fac.apply, Core.tt_rl, Core.tt_rr, Core.cp_rl, Core.cp_rr, Core.tt_get, Core.cp_get, Finset.sum_range_one, mul_one,
          Finset.mul_sum]
        have hR : ∀ a ∈ range r, (∑ b ∈ range r, if a = b then ∑ j ∈ range s, U.f i j * f j a else 0) =
            ∑ j ∈ range s, U.f i j * f j a := by
          intro a ha
          rw [Finset.sum_eq_single a]
          · simp
          · intro b _ hb; simp [Ne.symm hb]
          · intro hh; exact absurd ha hh
        rw [Finset.sum_congr rfl hR, Finset.sum_comm]

/-- whole-tensor CP→TT conversion does not change the tensor -/
theorem dense_cpToTTAll (t : Tensor R) (ht : t.WF) (is : List Nat) :
    dense (cpToTTAll t).modes is = dense t.modes is := by
  cases t with
  | nil => rfl
  | cons m ms =>
    obtain ⟨c, U⟩ := m
    obtain ⟨_, h2, h3⟩ := ht
    cases ms with
    | nil => simpa [cpToTTAll, Tensor.modes] using dense_sumCols c U is
    | cons y ys =>
      simp only [cpToTTAll, Tensor.modes, List.map_cons]
      rw [dense_lift1]
      cases is with
      | nil => simp [dense, tail]
      | cons i is =>
        simp only [dense, tail, sumTo_eq]
        apply Finset.sum_congr rfl; intro a _
        apply Finset.sum_congr rfl; intro b hb
        have := tail_cpToTT_go (y :: ys) _ is b h3 (by simpa using Finset.mem_range.mp hb)
        simp only [Tensor.modes, List.map_cons] at this
        rw [this]

end TN

namespace TN
variable {R : Type} [CommSemiring R]
open Finset

/-! ### transposition -/
theorem toMode_rev (c : Core R) (U : Option (Fac R)) : (TMode.mk c.rev U).toMode = (TMode.mk c U).toMode.transp := by
  cases c with
  | tt r0 s r1 f =>
    cases U with
    | none => apply Mode.ext' <;> simp [Core.rev, Mode.transp, TMode.toMode_G, TMode.n]
    | some U => apply Mode.ext' <;> simp [Core.rev, Mode.transp, TMode.toMode_G, TMode.n, Fac.apply]
  | cp s r f =>
    cases U with
    | none =>
      apply Mode.ext' <;> simp [Core.rev, Mode.transp, TMode.toMode_G, TMode.n]
      intro i a b; by_cases h : a = b <;> simp [h, eq_comm]
    | some U =>
      apply Mode.ext' <;> simp [Core.rev, Mode.transp, TMode.toMode_G, TMode.n, Fac.apply]
      intro i a b; by_cases h : a = b
      · subst h; simp
      · simp [h, Ne.symm h]

end TN
