import TnVerif.Lemmas.Chain
/-! L0 (congruence): chains with equal dimensions whose matrices agree *inside their ranges*
    have the same `tail`/`dense` inside the range.  Out-of-range entries are never read. -/
set_option linter.unusedSectionVars false
open Finset
namespace TN
variable {R : Type} [CommSemiring R]

/-- two modes with the same bond sizes whose matrices agree on `a < rl`, `b < rr` -/
def Mode.Eqv (m m' : Mode R) : Prop :=
  m.rl = m'.rl ∧ m.rr = m'.rr ∧ ∀ i a b, a < m.rl → b < m.rr → m.G i a b = m'.G i a b

def ChainEqv : List (Mode R) → List (Mode R) → Prop
  | [], [] => True
  | m :: ms, m' :: ms' => m.Eqv m' ∧ ChainEqv ms ms'
  | _, _ => False

theorem Mode.Eqv.refl (m : Mode R) : m.Eqv m := ⟨rfl, rfl, fun _ _ _ _ _ => rfl⟩

theorem ChainEqv.refl (ms : List (Mode R)) : ChainEqv ms ms := by
  induction ms with
  | nil => trivial
  | cons m ms ih => exact ⟨Mode.Eqv.refl m, ih⟩

theorem tail_congr (ms ms' : List (Mode R)) : ∀ (p : Nat) (is : List Nat) (a : Nat),
    ChainEqv ms ms' → wf p ms → a < p → tail ms is a = tail ms' is a := by
  induction ms generalizing ms' with
  | nil => intro p is a h _ _; cases ms' with
    | nil => rfl
    | cons _ _ => exact absurd h (by simp [ChainEqv])
  | cons m ms ih =>
    intro p is a h hw ha
    cases ms' with
    | nil => exact absurd h (by simp [ChainEqv])
    | cons m' ms' =>
      obtain ⟨⟨e1, e2, eG⟩, hrest⟩ := h
      obtain ⟨hl, hw'⟩ := hw
      cases is with
      | nil => simp [tail]
      | cons i is =>
        simp only [tail, sumTo_eq, ← e2]
        apply Finset.sum_congr rfl
        intro b hb
        have hb' := Finset.mem_range.mp hb
        rw [eG i a b (by omega) hb', ih ms' m.rr is b hrest hw' hb']

theorem dense_congr (ms ms' : List (Mode R)) (is : List Nat) (h : ChainEqv ms ms')
    (hw : ∀ m ∈ ms.head?, wf m.rl ms) : dense ms is = dense ms' is := by
  cases ms with
  | nil => cases ms' with
    | nil => rfl
    | cons _ _ => exact absurd h (by simp [ChainEqv])
  | cons m ms =>
    cases ms' with
    | nil => exact absurd h (by simp [ChainEqv])
    | cons m' ms' =>
      have hw' := hw m (by simp)
      simp only [dense, sumTo_eq, ← h.1.1]
      apply Finset.sum_congr rfl
      intro a ha
      exact tail_congr _ _ m.rl is a h hw' (Finset.mem_range.mp ha)

end TN
