import TnVerif.Lemmas.Broadcast
import TnVerif.Model.Accepted
import TnVerif.Model.Eval
import Mathlib.Data.Nat.Cast.Basic
import Mathlib.Algebra.BigOperators.Group.Finset.Basic
/-! Lemmas for `accepted_inputs` (automata.py:84-129): the right-product chains are partial sums of
    the dense array, the counts `left · fiber` are sums over all completions of a prefix, and the
    depth-first enumeration produces the lexicographic listing with multiplicities. -/
set_option linter.unusedSectionVars false
set_option linter.unusedSimpArgs false
open Finset
namespace TN

/-! ### the specification -/

/-- all indices of the box with the given mode sizes, in lexicographic order -/
def lexBox : List Nat → List (List Nat)
  | [] => [[]]
  | n :: ns => (List.range n).flatMap fun i => (lexBox ns).map (i :: ·)

/-- the lexicographic listing of the box in which every index `idx` is repeated `v idx` times -/
def acceptedSpec (shape : List Nat) (v : List Nat → Nat) : List (List Nat) :=
  (lexBox shape).flatMap fun idx => List.replicate (v idx) idx

/-- `lexBox` is the row-major enumeration `allIdx` the dense evaluator of the driver uses -/
theorem lexBox_eq_allIdx (s : List Nat) : lexBox s = allIdx s := by
  induction s with
  | nil => rfl
  | cons n ns ih => simp [lexBox, allIdx, ih]

theorem acceptedSpec_nil (v : List Nat → Nat) : acceptedSpec [] v = List.replicate (v []) [] := by
  simp [acceptedSpec, lexBox]

theorem acceptedSpec_cons (n : Nat) (ns : List Nat) (v : List Nat → Nat) :
    acceptedSpec (n :: ns) v =
      (List.range n).flatMap fun i => (acceptedSpec ns (fun is => v (i :: is))).map (i :: ·) := by
  simp only [acceptedSpec, lexBox, List.flatMap_assoc, List.flatMap_map, List.map_flatMap, List.map_replicate]

theorem sumTo_nat_eq (n : Nat) (f : Nat → Nat) : sumTo n f = ((List.range n).map f).sum := by
  induction n with
  | zero => simp [sumTo]
  | succ n ih => simp [sumTo, ih, List.range_succ]

theorem length_acceptedSpec (shape : List Nat) (v : List Nat → Nat) :
    (acceptedSpec shape v).length = boxSum shape v := by
  induction shape generalizing v with
  | nil => simp [acceptedSpec_nil, boxSum]
  | cons n ns ih =>
    rw [acceptedSpec_cons]
    simp only [List.length_flatMap, List.length_map, ih, boxSum, sumTo_nat_eq]

theorem padRows_self (w : Nat) (L : List (List Nat)) : padRows L.length w L = L := by
  apply List.ext_getElem
  · simp [padRows]
  · intro i h1 h2
    simp [padRows, List.getD_eq_getElem?_getD, h2]

theorem padRows_nil (p : Nat) : padRows p 0 [] = List.replicate p [] := by
  apply List.ext_getElem
  · simp [padRows]
  · intro i h1 h2
    simp [padRows]

theorem padRows_zero (w : Nat) (L : List (List Nat)) : padRows 0 w L = [] := by simp [padRows]

variable {R : Type} [CommSemiring R]

/-! ### sums over the box -/

theorem boxSum_congr_inShape (s : List Nat) (f g : List Nat → R) (h : ∀ is, inShape is s → f is = g is) :
    boxSum s f = boxSum s g := by
  induction s generalizing f g with
  | nil => simp only [boxSum]; exact h [] trivial
  | cons n ns ih =>
    simp only [boxSum, sumTo_eq]
    apply Finset.sum_congr rfl; intro i hi
    apply ih
    intro is his
    exact h (i :: is) ⟨Finset.mem_range.mp hi, his⟩

theorem cast_sumTo (n : Nat) (f : Nat → Nat) : ((sumTo n f : Nat) : R) = sumTo n (fun i => (f i : R)) := by
  induction n with
  | zero => simp [sumTo]
  | succ n ih => simp [sumTo, ih]

theorem cast_boxSum (s : List Nat) (w : List Nat → Nat) :
    ((boxSum s w : Nat) : R) = boxSum s (fun is => (w is : R)) := by
  induction s generalizing w with
  | nil => simp [boxSum]
  | cons n ns ih => simp only [boxSum, cast_sumTo, ih]

omit [CommSemiring R] in
/-- tabulation is the identity -/
theorem Vec.tab_get (n : Nat) (f : Nat → R) : (Vec.tab n f).get = f := by
  funext a
  unfold Vec.tab
  simp only
  split
  · simp
  · rfl

/-! ### reading a factor-free mode -/

theorem toMode_G_nofac (m : TMode R) (h : m.U = none) (i a b : Nat) : m.toMode.G i a b = m.core.get a i b := by
  obtain ⟨c, U⟩ := m
  simp only at h; subst h; rfl

theorem n_nofac (m : TMode R) (h : m.U = none) : m.n = m.core.spatial := by
  obtain ⟨c, U⟩ := m
  simp only at h; subst h; rfl

/-- no mode carries a Tucker factor -/
def NoFac (t : Tensor R) : Prop := ∀ m ∈ t, m.U = none

/-! ### the right-product chains -/

/-- `rights[mu]` for the cores `cores[mu:]` -/
def rightVec (t : Tensor R) : Vec R := (rightsList t).headD Vec.ones

theorem rightVec_nil : rightVec ([] : Tensor R) = Vec.ones := rfl
theorem rightVec_cons (m : TMode R) (ms : Tensor R) : rightVec (m :: ms) = m.core.rightStep (rightVec ms) := rfl
theorem rightsList_tail_cons (m : TMode R) (ms : Tensor R) : (rightsList (m :: ms)).tail = rightsList ms := rfl
theorem rightsList_eq (t : Tensor R) : rightsList t = rightVec t :: (rightsList t).tail := by
  cases t <;> rfl

/-- `rights[mu][a]` is the sum over all completions of the chain `cores[mu:]` entered at bond index `a` -/
theorem rightVec_eq (t : Tensor R) (h : NoFac t) (a : Nat) :
    (rightVec t).get a = boxSum t.shape (fun is => tail t.modes is a) := by
  induction t generalizing a with
  | nil => simp [rightVec_nil, Vec.ones, Tensor.shape, Tensor.modes, boxSum, tail]
  | cons m ms ih =>
    have hm : m.U = none := h m (by simp)
    have hms : NoFac ms := fun x hx => h x (by simp [hx])
    simp only [rightVec_cons, Core.rightStep, Vec.tab_get, Core.sumMat, Tensor.shape, Tensor.modes, List.map_cons, boxSum, tail,
      sumTo_eq, TMode.toMode_rr, n_nofac m hm]
    simp only [ih hms, toMode_G_nofac m hm, Finset.sum_mul]
    rw [Finset.sum_comm]
    apply Finset.sum_congr rfl; intro i _
    rw [show (fun is => ∑ b ∈ range m.core.rr, m.core.get a i b * tail (List.map TMode.toMode ms) is b) =
        (fun is => ∑ b ∈ range m.core.rr, m.core.get a i b * tail (Tensor.modes ms) is b) from rfl, boxSum_sum]
    apply Finset.sum_congr rfl; intro b _
    rw [boxSum_mul_left]; rfl

/-- the value of the remaining chain entered with the row vector `left` -/
def resid (p : Nat) (left : Vec R) (t : Tensor R) (is : List Nat) : R :=
  ∑ a ∈ range p, left.get a * tail t.modes is a

/-- **key lemma**: `left · fiber[:, i]` is the sum, over all completions, of the value of the chain at
    (prefix, `i`, completion) -/
theorem left_fiber_eq (m : TMode R) (ms : Tensor R) (hm : m.U = none) (h : NoFac ms) (left : Vec R) (i : Nat) :
    sumTo m.core.rl (fun a => left.get a * m.core.fiber (rightVec ms) a i) =
      boxSum ms.shape (fun is => resid m.core.rl left (m :: ms) (i :: is)) := by
  simp only [Core.fiber, sumTo_eq, resid, Tensor.modes, List.map_cons, tail, TMode.toMode_rr, toMode_G_nofac m hm]
  rw [show (fun is => ∑ a ∈ range m.core.rl, left.get a *
          ∑ b ∈ range m.core.rr, m.core.get a i b * tail (List.map TMode.toMode ms) is b) =
      (fun is => ∑ a ∈ range m.core.rl, ∑ b ∈ range m.core.rr,
          (left.get a * m.core.get a i b) * tail (Tensor.modes ms) is b) from by
    funext is
    apply Finset.sum_congr rfl; intro a _
    rw [Finset.mul_sum]
    apply Finset.sum_congr rfl; intro b _
    simp only [Tensor.modes]; ring]
  rw [boxSum_sum]
  apply Finset.sum_congr rfl; intro a _
  rw [boxSum_sum, Finset.mul_sum]
  apply Finset.sum_congr rfl; intro b _
  rw [boxSum_mul_left, rightVec_eq ms h b]; ring

/-- the chain after the choice of symbol `i`, entered with `left @ core[:, i, :]`, has the value of the
    chain before the choice at `i :: is` -/
theorem resid_leftStep (m : TMode R) (ms : Tensor R) (hm : m.U = none) (left : Vec R) (i : Nat) (is : List Nat) :
    resid m.core.rr (m.core.leftStep left i) ms is = resid m.core.rl left (m :: ms) (i :: is) := by
  simp only [resid, Core.leftStep, Vec.tab_get, sumTo_eq, Tensor.modes, List.map_cons, tail, TMode.toMode_rr, toMode_G_nofac m hm,
    Finset.sum_mul, Finset.mul_sum]
  rw [Finset.sum_comm]
  apply Finset.sum_congr rfl; intro a _
  apply Finset.sum_congr rfl; intro b _
  ring

/-! ### the enumeration -/

omit [CommSemiring R] in
theorem shape_cons (m : TMode R) (ms : Tensor R) : Tensor.shape (m :: ms) = m.n :: Tensor.shape ms := rfl

/-- the hypothesis under which the recursion is analysed: the chain `t` (no factors, bonds matching,
    entered at a bond of size `p` with the row vector `left`) takes the natural values `w` on its box -/
def NatValued (p : Nat) (left : Vec R) (t : Tensor R) (w : List Nat → Nat) : Prop :=
  NoFac t ∧ Tensor.WFfrom p t ∧ ∀ is, inShape is t.shape → resid p left t is = (w is : R)

/-- the count of symbol `i` is the sum of the values over all completions -/
theorem perPoint_eq (toNat : R → Nat) (htn : ∀ n : Nat, toNat (n : R) = n) (m : TMode R) (ms : Tensor R)
    (p : Nat) (left : Vec R) (w : List Nat → Nat) (h : NatValued p left (m :: ms) w) (i : Nat) (hi : i < m.core.spatial) :
    perPoint toNat m.core left (rightVec ms) i = boxSum (Tensor.shape ms) (fun is => w (i :: is)) := by
  obtain ⟨hnf, ⟨hrl, _, _⟩, hres⟩ := h
  have hm : m.U = none := hnf m (by simp)
  have hms : NoFac ms := fun x hx => hnf x (by simp [hx])
  unfold perPoint
  rw [left_fiber_eq m ms hm hms left i,
    boxSum_congr_inShape _ _ (fun is => ((w (i :: is) : Nat) : R)) (by
      intro is his
      rw [hrl]; apply hres
      rw [shape_cons, n_nofac m hm]; exact ⟨hi, his⟩),
    ← cast_boxSum, htn]

/-- after the choice of symbol `i` the remaining chain takes the values `w (i :: ·)` -/
theorem natValued_step (m : TMode R) (ms : Tensor R) (p : Nat) (left : Vec R) (w : List Nat → Nat)
    (h : NatValued p left (m :: ms) w) (i : Nat) (hi : i < m.core.spatial) :
    NatValued m.core.rr (m.core.leftStep left i) ms (fun is => w (i :: is)) := by
  obtain ⟨hnf, ⟨hrl, _, hwf'⟩, hres⟩ := h
  have hm : m.U = none := hnf m (by simp)
  refine ⟨fun x hx => hnf x (by simp [hx]), hwf', ?_⟩
  intro is his
  rw [resid_leftStep m ms hm, hrl]; apply hres
  rw [shape_cons, n_nofac m hm]; exact ⟨hi, his⟩

/-- one level of the recursion, given the statement for the next level -/
theorem acceptedList_step (toNat : R → Nat) (htn : ∀ n : Nat, toNat (n : R) = n) (m : TMode R) (ms : Tensor R)
    (ih : ∀ (p : Nat) (left : Vec R) (w : List Nat → Nat), NatValued p left ms w →
      padRows (boxSum (Tensor.shape ms) w) ms.length (acceptedList toNat ms (rightsList ms).tail left) =
        acceptedSpec (Tensor.shape ms) w)
    (p : Nat) (left : Vec R) (w : List Nat → Nat) (h : NatValued p left (m :: ms) w) :
    acceptedList toNat (m :: ms) (rightsList (m :: ms)).tail left = acceptedSpec (Tensor.shape (m :: ms)) w := by
  have hm : m.U = none := h.1 m (by simp)
  rw [rightsList_tail_cons, rightsList_eq ms]
  simp only [acceptedList, shape_cons, acceptedSpec_cons, n_nofac m hm]
  apply List.flatMap_congr
  intro i hi
  have hi' := List.mem_range.mp hi
  have hsub := ih m.core.rr (m.core.leftStep left i) (fun is => w (i :: is)) (natValued_step m ms p left w h i hi')
  simp only [perPoint_eq toNat htn m ms p left w h i hi']
  split
  · rename_i h0
    have : (acceptedSpec (Tensor.shape ms) fun is => w (i :: is)) = [] :=
      List.eq_nil_of_length_eq_zero (by rw [length_acceptedSpec]; exact h0)
    simp [this]
  · rw [hsub]

/-- **the recursion enumerates**: if the chain `cores[mu:]`, entered with `left`, takes the natural
    values `w` on its box, the rows filled in by the recursion (laid out in the `Σ w` rows reserved for
    it) are the lexicographic listing of the box with multiplicities `w` -/
theorem acceptedList_spec (toNat : R → Nat) (htn : ∀ n : Nat, toNat (n : R) = n) (t : Tensor R) :
    ∀ (p : Nat) (left : Vec R) (w : List Nat → Nat), NatValued p left t w →
    padRows (boxSum t.shape w) t.length (acceptedList toNat t (rightsList t).tail left) = acceptedSpec t.shape w := by
  induction t with
  | nil =>
    intro p left w _
    simp [acceptedList, Tensor.shape, boxSum, acceptedSpec_nil, padRows_nil]
  | cons m ms ih =>
    intro p left w h
    rw [acceptedList_step toNat htn m ms ih p left w h, ← length_acceptedSpec, padRows_self]

/-- below the last level the recursion itself (not only its padded block) is the listing -/
theorem acceptedList_cons_spec (toNat : R → Nat) (htn : ∀ n : Nat, toNat (n : R) = n) (m : TMode R) (ms : Tensor R)
    (p : Nat) (left : Vec R) (w : List Nat → Nat) (h : NatValued p left (m :: ms) w) :
    acceptedList toNat (m :: ms) (rightsList (m :: ms)).tail left = acceptedSpec (Tensor.shape (m :: ms)) w :=
  acceptedList_step toNat htn m ms (acceptedList_spec toNat htn ms) p left w h

/-- the recursion never fills in more rows than the sum of the values -/
theorem length_acceptedList_le (toNat : R → Nat) (htn : ∀ n : Nat, toNat (n : R) = n) (t : Tensor R)
    (p : Nat) (left : Vec R) (w : List Nat → Nat) (h : NatValued p left t w) :
    (acceptedList toNat t (rightsList t).tail left).length ≤ boxSum t.shape w := by
  cases t with
  | nil => simp [acceptedList]
  | cons m ms => rw [acceptedList_cons_spec toNat htn m ms p left w h, length_acceptedSpec]

/-! ### the number of rows: `tn.sum(t)` -/

theorem sumAllGo_eq (ms : Tensor R) : ∀ (rows cols : Nat) (M : Nat → Nat → R),
    sumAllGo ms rows cols M = ∑ a ∈ range rows, ∑ b ∈ range cols, M a b * (rightVec ms).get b := by
  induction ms with
  | nil => intro rows cols M; simp [sumAllGo, sumTo_eq, rightVec_nil, Vec.ones]
  | cons m ms ih =>
    intro rows cols M
    simp only [sumAllGo, ih, rightVec_cons, Core.rightStep, Vec.tab_get, sumTo_eq]
    apply Finset.sum_congr rfl; intro a _
    simp only [Finset.sum_mul, Finset.mul_sum]
    rw [Finset.sum_comm]
    apply Finset.sum_congr rfl; intro k _
    apply Finset.sum_congr rfl; intro b _
    ring

/-- `tn.sum(t)` of a factor-free tensor is the sum of all entries of the dense array -/
theorem sumAllTT_eq (t : Tensor R) (h : NoFac t) (hne : t ≠ []) : sumAllTT t = boxSum t.shape t.dense := by
  cases t with
  | nil => exact absurd rfl hne
  | cons m ms =>
    have e : sumAllTT (m :: ms) = ∑ a ∈ range m.core.rl, (rightVec (m :: ms)).get a := by
      simp only [sumAllTT, sumAllGo_eq, rightVec_cons, Core.rightStep, Vec.tab_get, sumTo_eq]
    rw [e]
    simp only [rightVec_eq (m :: ms) h]
    rw [← boxSum_sum]
    apply boxSum_congr; intro is
    simp only [Tensor.dense, dense, Tensor.modes, List.map_cons, sumTo_eq, TMode.toMode_rl]

/-! ### `t.tt()` of a pure-TT tensor is the tensor itself -/

omit [CommSemiring R] in
theorem isPureTT_cons [Zero R] (m : TMode R) (ms : Tensor R) :
    Tensor.isPureTT (m :: ms) = true ↔ (m.U = none ∧ m.core.isCP = false) ∧ Tensor.isPureTT ms = true := by
  simp [Tensor.isPureTT, Option.isNone_iff_eq_none]

theorem noFac_of_pure (t : Tensor R) (h : t.isPureTT = true) : NoFac t := by
  induction t with
  | nil => intro m hm; simp at hm
  | cons x xs ih =>
    rw [isPureTT_cons] at h
    intro m hm
    rcases List.mem_cons.mp hm with rfl | hm'
    · exact h.1.1
    · exact ih h.2 m hm'

theorem decompAll_of_pure (t : Tensor R) (h : t.isPureTT = true) : t.decompAll = t := by
  induction t with
  | nil => rfl
  | cons x xs ih =>
    rw [isPureTT_cons] at h
    obtain ⟨c, U⟩ := x
    obtain ⟨⟨hU, _⟩, hxs⟩ := h
    simp only at hU; subst hU
    have := ih hxs
    simp only [Tensor.decompAll, List.map_cons] at this ⊢
    rw [this]; rfl

theorem cpToTT_go_of_pure (t : Tensor R) (h : t.isPureTT = true) : cpToTTAll.go t = t := by
  induction t with
  | nil => rfl
  | cons x xs ih =>
    rw [isPureTT_cons] at h
    obtain ⟨c, U⟩ := x
    obtain ⟨⟨_, hc⟩, hxs⟩ := h
    cases c with
    | cp => simp [Core.isCP] at hc
    | tt r0 s r1 f =>
      cases xs with
      | nil => simp [cpToTTAll.go, Core.liftLast]
      | cons y ys => simp [cpToTTAll.go, Core.toTT, ih hxs]

/-- line 94, `t = t.tt()`, does nothing on a tensor that is already in pure TT format -/
theorem tt_of_pure (t : Tensor R) (h : t.isPureTT = true) : t.tt = t := by
  unfold Tensor.tt
  rw [decompAll_of_pure t h]
  cases t with
  | nil => rfl
  | cons x xs =>
    rw [isPureTT_cons] at h
    obtain ⟨c, U⟩ := x
    obtain ⟨⟨_, hc⟩, hxs⟩ := h
    cases c with
    | cp => simp [Core.isCP] at hc
    | tt r0 s r1 f =>
      cases xs with
      | nil => simp [cpToTTAll, Core.sumCols]
      | cons y ys => simp [cpToTTAll, Core.lift1, cpToTT_go_of_pure _ hxs]

/-! ### consequences of the specification: membership, multiplicity, order -/

theorem mem_lexBox (s : List Nat) : ∀ idx : List Nat, idx ∈ lexBox s ↔ inShape idx s := by
  induction s with
  | nil => intro idx; cases idx <;> simp [lexBox, inShape]
  | cons n ns ih =>
    intro idx
    cases idx with
    | nil => simp [lexBox, inShape]
    | cons i is =>
      simp only [lexBox, List.mem_flatMap, List.mem_range, List.mem_map, List.cons.injEq, inShape]
      constructor
      · rintro ⟨a, ha, b, hb, rfl, rfl⟩
        exact ⟨ha, (ih _).mp hb⟩
      · rintro ⟨h1, h2⟩
        exact ⟨i, h1, is, (ih _).mpr h2, rfl, rfl⟩

theorem lexBox_sorted (s : List Nat) : (lexBox s).Pairwise (fun a b => a < b) := by
  induction s with
  | nil => simp [lexBox]
  | cons n ns ih =>
    simp only [lexBox]
    rw [List.pairwise_flatMap]
    constructor
    · intro i _
      rw [List.pairwise_map]
      exact ih.imp (fun h => List.cons_lt_cons_iff.mpr (Or.inr ⟨rfl, h⟩))
    · apply List.pairwise_lt_range.imp
      intro i j hij x hx y hy
      obtain ⟨a, _, rfl⟩ := List.mem_map.mp hx
      obtain ⟨b, _, rfl⟩ := List.mem_map.mp hy
      exact List.cons_lt_cons_iff.mpr (Or.inl hij)

theorem acceptedSpec_sorted (s : List Nat) (v : List Nat → Nat) :
    (acceptedSpec s v).Pairwise (fun a b => a < b ∨ a = b) := by
  unfold acceptedSpec
  rw [List.pairwise_flatMap]
  constructor
  · intro a _
    rw [List.pairwise_replicate]; exact Or.inr (Or.inr rfl)
  · apply (lexBox_sorted s).imp
    intro a b hab x hx y hy
    rw [List.eq_of_mem_replicate hx, List.eq_of_mem_replicate hy]
    exact Or.inl hab

theorem mem_acceptedSpec (s : List Nat) (v : List Nat → Nat) (idx : List Nat) :
    idx ∈ acceptedSpec s v ↔ inShape idx s ∧ v idx ≠ 0 := by
  simp only [acceptedSpec, List.mem_flatMap, List.mem_replicate, mem_lexBox]
  constructor
  · rintro ⟨a, ha, hv, rfl⟩; exact ⟨ha, hv⟩
  · rintro ⟨h1, h2⟩; exact ⟨idx, h1, h2, rfl⟩

theorem count_acceptedSpec (s : List Nat) : ∀ (v : List Nat → Nat) (idx : List Nat), inShape idx s →
    (acceptedSpec s v).count idx = v idx := by
  induction s with
  | nil =>
    intro v idx h
    cases idx with
    | nil => simp [acceptedSpec_nil]
    | cons _ _ => simp [inShape] at h
  | cons n ns ih =>
    intro v idx h
    cases idx with
    | nil => simp [inShape] at h
    | cons i0 is0 =>
      obtain ⟨h1, h2⟩ := h
      rw [acceptedSpec_cons, List.count_flatMap, ← sumTo_nat_eq, sumTo_eq, Finset.sum_eq_single i0]
      · simp only [Function.comp]
        rw [List.count_map_of_injective _ _ (List.cons_injective), ih _ _ h2]
      · intro i _ hne
        simp only [Function.comp]
        apply List.count_eq_zero.mpr
        intro hm
        obtain ⟨a, _, ha⟩ := List.mem_map.mp hm
        simp only [List.cons.injEq] at ha
        exact hne ha.1
      · intro hn; exact absurd (Finset.mem_range.mpr h1) hn

end TN
