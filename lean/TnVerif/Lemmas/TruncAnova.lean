import TnVerif.Lemmas.Tools
import TnVerif.Lemmas.Broadcast
import TnVerif.Lemmas.Chain
import TnVerif.Lemmas.Accepted
import TnVerif.Lemmas.PartialSet
import TnVerif.Lemmas.Squeeze
import TnVerif.Model.TruncAnova
import Mathlib.Algebra.Field.Basic
import Mathlib.Tactic.FieldSimp
import Mathlib.Tactic.Ring
/-!
Dense-array facts behind `truncate_anova` (anova.py:67-96) and the ANOVA terms.

For weights `ws` (already normalised), mode sizes `ns` and a function `f` on the box, the **term of the subset
`S`** (a 0/1 list: entry `≠ 0` = the variable belongs to the subset) at the point `x` is the entry of the
extended array `applyMaps (anovaOps ws ns) ns f` at the index that has `x_n + 1` on the modes of `S` and `0`
elsewhere (`anovaTerm`).  This file shows, for any number of modes and sizes over a field:

* it equals the inclusion–exclusion formula `Σ_{T ⊆ S} (−1)^{|S|−|T|} E[f | x_T]` (`anovaTerm_eq_proj`);
* it does not depend on the variables outside `S`, is centred along every variable of `S`, the term of `∅` is the
  mean, the terms sum to `f`, distinct terms are orthogonal under the product measure, and the term operators
  are orthogonal idempotents (`anovaTerm_idem`);
* `undo_anova_decomposition` on the dense array is the sum over all subsets (`applyMaps_undoL`).
-/
set_option linter.unusedSectionVars false
set_option linter.unusedSimpArgs false
open Finset
namespace TN
variable {R : Type} [Field R]

/-! ### definitions -/

/-- the ANOVA operator (`anovaL`) of every mode, for already normalised weights -/
def anovaOps : List (Nat → R) → List Nat → List (Option (Nat × (Nat → Nat → R)))
  | w :: ws, n :: ns => some (n + 1, anovaL n w) :: anovaOps ws ns
  | _, _ => []

/-- the marginals as the code normalises them: `marginals[n] / torch.sum(marginals[n])` (anova.py:38) -/
def anovaNormWs (ws : List (Nat → R)) (ns : List Nat) : List (Nat → R) :=
  List.zipWith (fun w n => normW n w) ws ns

/-- index of the term of subset `S` (0/1 list) at the point `x` in the extended array:
    `0` on the modes outside `S`, `x_n + 1` on the modes of `S` -/
def anovaExtIdx : List Nat → List Nat → List Nat
  | b :: S, x :: xs => (if b = 0 then 0 else x + 1) :: anovaExtIdx S xs
  | _, _ => []

/-- the ANOVA term of the subset `S` of the function `f` at `x`: an entry of the extended array -/
def anovaTerm (ws : List (Nat → R)) (ns : List Nat) (f : List Nat → R) (S x : List Nat) : R :=
  applyMaps (anovaOps ws ns) ns f (anovaExtIdx S x)

/-- the product measure `Π_n w_n(x_n)` -/
def anovaProdW : List (Nat → R) → List Nat → R
  | w :: ws, x :: xs => w x * anovaProdW ws xs
  | _, _ => 1

/-- every weight vector sums to 1 over its mode (and there is one per mode) -/
def anovaNormalized : List (Nat → R) → List Nat → Prop
  | w :: ws, n :: ns => (∑ i ∈ range n, w i) = 1 ∧ anovaNormalized ws ns
  | [], [] => True
  | _, _ => False

/-- `E[f | x_T]` under the product measure: the variables outside `T` (entries `0` of the 0/1 list `T`) are
    integrated out against their weights, those of `T` are fixed to their value in `x` -/
def anovaCondExp : List (Nat → R) → List Nat → List Nat → (List Nat → R) → List Nat → R
  | w :: ws, n :: ns, b :: T, f, x :: xs =>
      if b = 0 then ∑ j ∈ range n, w j * anovaCondExp ws ns T (fun js => f (j :: js)) xs
      else anovaCondExp ws ns T (fun js => f (x :: js)) xs
  | _, _, _, f, _ => f []

/-- Möbius coefficient of the subset lattice: `(−1)^{|S|−|T|}` if `T ⊆ S`, else `0` (0/1 lists) -/
def anovaMoebius : List Nat → List Nat → R
  | b :: S, t :: T =>
      (if t = 0 then (if b = 0 then 1 else -1) else (if b = 0 then 0 else 1)) * anovaMoebius S T
  | _, _ => 1

/-- the brute-force ANOVA term: `f_S(x) = Σ_{T ⊆ S} (−1)^{|S|−|T|} E[f | x_T]` -/
def anovaProj (ws : List (Nat → R)) (ns : List Nat) (f : List Nat → R) (S x : List Nat) : R :=
  boxSum (List.replicate S.length 2) fun T => anovaMoebius S T * anovaCondExp ws ns T f x

/-- the mask entry the term of subset `S` is multiplied with: its 0/1 label clamped to the mask's sizes
    (`idx[idx >= mask.shape[n]] = mask.shape[n] - 1`, tools.py:365) -/
def anovaClamp : List Nat → List Nat → List Nat
  | m :: ms, b :: S => min (if b = 0 then 0 else 1) (m - 1) :: anovaClamp ms S
  | _, _ => []

/-! ### one mode -/

theorem anovaL_apply_zero (n : Nat) (w g : Nat → R) :
    (∑ j ∈ range n, anovaL n w 0 j * g j) = ∑ j ∈ range n, w j * g j := by
  simp [anovaL]

theorem anovaL_apply_succ (n : Nat) (w g : Nat → R) (x : Nat) (hx : x < n) :
    (∑ j ∈ range n, anovaL n w (x + 1) j * g j) = g x - ∑ j ∈ range n, w j * g j := by
  simp only [anovaL, Nat.add_one_ne_zero, if_false, add_mul, Finset.sum_add_distrib, neg_mul, Finset.sum_neg_distrib,
    Nat.add_right_cancel_iff]
  rw [Finset.sum_eq_single x]
  · simp; ring
  · intro j _ hj; simp [hj]
  · intro hh; exact absurd (Finset.mem_range.mpr hx) hh

/-- rows `1..n` of the operator have zero weighted mean -/
theorem anovaL_weighted_zero (n : Nat) (w : Nat → R) (hw : (∑ i ∈ range n, w i) = 1) (j : Nat) (hj : j < n) :
    (∑ i ∈ range n, w i * anovaL n w (i + 1) j) = 0 := by
  simp only [anovaL, Nat.add_one_ne_zero, if_false, mul_add, Finset.sum_add_distrib, mul_neg, Finset.sum_neg_distrib,
    Nat.add_right_cancel_iff]
  rw [Finset.sum_eq_single j]
  · rw [← Finset.sum_mul, hw]; simp
  · intro i _ hi
    have : ¬ j = i := fun h => hi h.symm
    simp [this]
  · intro hh; exact absurd (Finset.mem_range.mpr hj) hh

/-! ### the recursion of `anovaTerm` -/

theorem anovaTerm_cons (w : Nat → R) (ws : List (Nat → R)) (n : Nat) (ns : List Nat) (f : List Nat → R)
    (b : Nat) (S : List Nat) (x : Nat) (xs : List Nat) :
    anovaTerm (w :: ws) (n :: ns) f (b :: S) (x :: xs) =
      ∑ j ∈ range n, anovaL n w (if b = 0 then 0 else x + 1) j * anovaTerm ws ns (fun js => f (j :: js)) S xs := by
  simp only [anovaTerm, anovaOps, anovaExtIdx, applyMaps]

theorem anovaTerm_cons_zero (w : Nat → R) (ws : List (Nat → R)) (n : Nat) (ns : List Nat) (f : List Nat → R)
    (S : List Nat) (x : Nat) (xs : List Nat) :
    anovaTerm (w :: ws) (n :: ns) f (0 :: S) (x :: xs) =
      ∑ j ∈ range n, w j * anovaTerm ws ns (fun js => f (j :: js)) S xs := by
  rw [anovaTerm_cons]; simp only [if_true]; exact anovaL_apply_zero n w _

theorem anovaTerm_cons_succ (w : Nat → R) (ws : List (Nat → R)) (n : Nat) (ns : List Nat) (f : List Nat → R)
    (b : Nat) (hb : b ≠ 0) (S : List Nat) (x : Nat) (hx : x < n) (xs : List Nat) :
    anovaTerm (w :: ws) (n :: ns) f (b :: S) (x :: xs) =
      anovaTerm ws ns (fun js => f (x :: js)) S xs - ∑ j ∈ range n, w j * anovaTerm ws ns (fun js => f (j :: js)) S xs := by
  rw [anovaTerm_cons]; simp only [hb, if_false]
  exact anovaL_apply_succ n w (fun j => anovaTerm ws ns (fun js => f (j :: js)) S xs) x hx

theorem anovaTerm_nil (f : List Nat → R) : anovaTerm ([] : List (Nat → R)) [] f [] [] = f [] := by
  simp [anovaTerm, anovaOps, anovaExtIdx, applyMaps]

/-- the term is linear in the function -/
theorem anovaTerm_linear (ws : List (Nat → R)) (ns : List Nat) (S x : List Nat) (k : Nat) (c : Nat → R)
    (g : Nat → List Nat → R) :
    anovaTerm ws ns (fun js => ∑ b ∈ range k, c b * g b js) S x = ∑ b ∈ range k, c b * anovaTerm ws ns (g b) S x :=
  applyMaps_linear _ ns _ k c g

theorem anovaTerm_smul (ws : List (Nat → R)) (ns : List Nat) (S x : List Nat) (c : R) (g : List Nat → R) :
    anovaTerm ws ns (fun js => c * g js) S x = c * anovaTerm ws ns g S x := by
  have := anovaTerm_linear ws ns S x 1 (fun _ => c) (fun _ => g)
  simpa using this

/-- the term only looks at the function inside the box -/
theorem anovaTerm_congr_in : ∀ (ws : List (Nat → R)) (ns : List Nat) (f g : List Nat → R) (S x : List Nat),
    ws.length = ns.length → S.length = ns.length → x.length = ns.length →
    (∀ y, inShape y ns → f y = g y) → anovaTerm ws ns f S x = anovaTerm ws ns g S x := by
  intro ws
  induction ws with
  | nil =>
    intro ns f g S x hw hS hx h
    have hn : ns = [] := List.length_eq_zero_iff.mp hw.symm
    subst hn
    have : S = [] := List.length_eq_zero_iff.mp hS
    subst this
    have : x = [] := List.length_eq_zero_iff.mp hx
    subst this
    rw [anovaTerm_nil, anovaTerm_nil]; exact h [] trivial
  | cons w ws ih =>
    intro ns f g S x hw hS hx h
    cases ns with
    | nil => simp at hw
    | cons n ns =>
      cases S with
      | nil => simp at hS
      | cons b S =>
        cases x with
        | nil => simp at hx
        | cons x0 xs =>
          rw [anovaTerm_cons, anovaTerm_cons]
          apply Finset.sum_congr rfl; intro j hj
          rw [ih ns (fun js => f (j :: js)) (fun js => g (j :: js)) S xs (by simpa using hw) (by simpa using hS)
            (by simpa using hx) (fun y hy => h (j :: y) ⟨Finset.mem_range.mp hj, hy⟩)]

/-! ### the laws of the terms -/

/-- **a term depends only on its own variables**: two points that agree on the modes of `S` give the same value -/
theorem anovaExtIdx_agree : ∀ (S x x' : List Nat), x.length = x'.length →
    (∀ k, S.getD k 0 ≠ 0 → x.getD k 0 = x'.getD k 0) → anovaExtIdx S x = anovaExtIdx S x' := by
  intro S
  induction S with
  | nil => intro x x' _ _; simp [anovaExtIdx]
  | cons b S ih =>
    intro x x' hl h
    cases x with
    | nil =>
      cases x' with
      | nil => rfl
      | cons _ _ => simp at hl
    | cons x0 xs =>
      cases x' with
      | nil => simp at hl
      | cons y0 ys =>
        simp only [anovaExtIdx]
        rw [ih xs ys (by simpa using hl) (fun k hk => by simpa using h (k + 1) (by simpa using hk))]
        by_cases hb : b = 0
        · simp [hb]
        · have := h 0 (by simpa using hb)
          simp only [List.getD_cons_zero] at this
          simp [hb, this]

/-- **centred**: the weighted mean of a term along one of its own variables (position `pre.length`) vanishes -/
theorem anovaTerm_centered_at : ∀ (pre : List Nat) (ws : List (Nat → R)) (ns : List Nat) (f : List Nat → R)
    (S post : List Nat), S.getD pre.length 0 ≠ 0 →
    (∑ i ∈ range (ns.getD pre.length 0), (ws.getD pre.length (fun _ => 0)) i) = 1 →
    (∑ i ∈ range (ns.getD pre.length 0),
      (ws.getD pre.length (fun _ => 0)) i * anovaTerm ws ns f S (pre ++ i :: post)) = 0 := by
  intro pre
  induction pre with
  | nil =>
    intro ws ns f S post hS hw
    cases S with
    | nil => simp at hS
    | cons b S =>
      cases ws with
      | nil => simp at hw
      | cons w ws =>
        cases ns with
        | nil => simp at hw
        | cons n ns =>
          simp only [List.length_nil, List.getD_cons_zero, List.nil_append] at hS hw ⊢
          have e : ∀ i ∈ range n, w i * anovaTerm (w :: ws) (n :: ns) f (b :: S) (i :: post) =
              ∑ j ∈ range n, (w i * anovaL n w (i + 1) j) * anovaTerm ws ns (fun js => f (j :: js)) S post := by
            intro i _
            rw [anovaTerm_cons, Finset.mul_sum]; simp only [hS, if_false]
            apply Finset.sum_congr rfl; intro j _; ring
          rw [Finset.sum_congr rfl e, Finset.sum_comm]
          apply Finset.sum_eq_zero; intro j hj
          rw [← Finset.sum_mul, anovaL_weighted_zero n w hw j (Finset.mem_range.mp hj), zero_mul]
  | cons p pre ih =>
    intro ws ns f S post hS hw
    cases S with
    | nil => simp at hS
    | cons b S =>
      cases ws with
      | nil => simp at hw
      | cons w ws =>
        cases ns with
        | nil => simp at hw
        | cons n ns =>
          simp only [List.length_cons, List.getD_cons_succ, List.cons_append] at hS hw ⊢
          have e : ∀ i ∈ range (ns.getD pre.length 0),
              (ws.getD pre.length (fun _ => 0)) i * anovaTerm (w :: ws) (n :: ns) f (b :: S) (p :: (pre ++ i :: post)) =
              ∑ j ∈ range n, anovaL n w (if b = 0 then 0 else p + 1) j *
                ((ws.getD pre.length (fun _ => 0)) i * anovaTerm ws ns (fun js => f (j :: js)) S (pre ++ i :: post)) := by
            intro i _
            rw [anovaTerm_cons, Finset.mul_sum]
            apply Finset.sum_congr rfl; intro j _; ring
          rw [Finset.sum_congr rfl e, Finset.sum_comm]
          apply Finset.sum_eq_zero; intro j _
          rw [← Finset.mul_sum, ih ws ns (fun js => f (j :: js)) S post hS hw, mul_zero]

/-- **the empty term is the mean** under the product measure -/
theorem anovaTerm_empty : ∀ (ws : List (Nat → R)) (ns : List Nat) (f : List Nat → R) (x : List Nat),
    ws.length = ns.length → x.length = ns.length →
    anovaTerm ws ns f (List.replicate ns.length 0) x = boxSum ns (fun y => anovaProdW ws y * f y) := by
  intro ws
  induction ws with
  | nil =>
    intro ns f x hw hx
    have hn : ns = [] := List.length_eq_zero_iff.mp hw.symm
    subst hn
    have : x = [] := List.length_eq_zero_iff.mp hx
    subst this
    simp [anovaTerm_nil, boxSum, anovaProdW]
  | cons w ws ih =>
    intro ns f x hw hx
    cases ns with
    | nil => simp at hw
    | cons n ns =>
      cases x with
      | nil => simp at hx
      | cons x0 xs =>
        simp only [List.length_cons, List.replicate_succ]
        rw [anovaTerm_cons_zero]
        simp only [boxSum, sumTo_eq, anovaProdW]
        apply Finset.sum_congr rfl; intro j _
        rw [ih ns (fun js => f (j :: js)) xs (by simpa using hw) (by simpa using hx), ← boxSum_mul_left]
        apply boxSum_congr; intro is; ring

/-- **the terms sum to the function** (no condition on the weights) -/
theorem anovaTerm_sum_all : ∀ (ws : List (Nat → R)) (ns : List Nat) (f : List Nat → R) (x : List Nat),
    ws.length = ns.length → inShape x ns →
    boxSum (List.replicate ns.length 2) (fun S => anovaTerm ws ns f S x) = f x := by
  intro ws
  induction ws with
  | nil =>
    intro ns f x hw hx
    have hn : ns = [] := List.length_eq_zero_iff.mp hw.symm
    subst hn
    cases x with
    | nil => simp [boxSum, anovaTerm_nil]
    | cons _ _ => simp [inShape] at hx
  | cons w ws ih =>
    intro ns f x hw hx
    cases ns with
    | nil => simp at hw
    | cons n ns =>
      cases x with
      | nil => simp [inShape] at hx
      | cons x0 xs =>
        obtain ⟨hx0, hxs⟩ := hx
        simp only [List.length_cons, List.replicate_succ, boxSum, sumTo, zero_add]
        have e1 : (fun S => anovaTerm (w :: ws) (n :: ns) f (1 :: S) (x0 :: xs)) =
            fun S => anovaTerm ws ns (fun js => f (x0 :: js)) S xs +
              (-1) * anovaTerm (w :: ws) (n :: ns) f (0 :: S) (x0 :: xs) := by
          funext S
          rw [anovaTerm_cons_succ w ws n ns f 1 (by decide) S x0 hx0 xs, anovaTerm_cons_zero]; ring
        rw [e1, boxSum_add, boxSum_mul_left, ih ns (fun js => f (x0 :: js)) xs (by simpa using hw) hxs]
        ring


/-! ### the projection (inclusion–exclusion) formula -/

theorem anovaProj_nil (ws : List (Nat → R)) (ns : List Nat) (f : List Nat → R) (x : List Nat) :
    anovaProj ws ns f [] x = f [] := by
  cases ws <;> cases ns <;> cases x <;> simp [anovaProj, boxSum, anovaMoebius, anovaCondExp]

theorem anovaProj_cons_zero (w : Nat → R) (ws : List (Nat → R)) (n : Nat) (ns : List Nat) (f : List Nat → R)
    (S : List Nat) (x : Nat) (xs : List Nat) :
    anovaProj (w :: ws) (n :: ns) f (0 :: S) (x :: xs) =
      ∑ j ∈ range n, w j * anovaProj ws ns (fun js => f (j :: js)) S xs := by
  simp only [anovaProj, List.length_cons, List.replicate_succ, boxSum, sumTo, zero_add, anovaMoebius, anovaCondExp,
    if_true, Nat.one_ne_zero, if_false, one_mul, zero_mul]
  have hz : boxSum (List.replicate S.length 2) (fun _ => (0 : R)) = 0 := by
    have := boxSum_mul_left (List.replicate S.length 2) (0 : R) (fun _ => 0); simpa using this
  rw [hz, add_zero]
  have e : (fun T => anovaMoebius (R := R) S T * ∑ j ∈ range n, w j * anovaCondExp ws ns T (fun js => f (j :: js)) xs) =
      fun T => ∑ j ∈ range n, w j * (anovaMoebius S T * anovaCondExp ws ns T (fun js => f (j :: js)) xs) := by
    funext T; rw [Finset.mul_sum]; apply Finset.sum_congr rfl; intro j _; ring
  rw [e, boxSum_sum]
  apply Finset.sum_congr rfl; intro j _
  rw [boxSum_mul_left]

theorem anovaProj_cons_succ (w : Nat → R) (ws : List (Nat → R)) (n : Nat) (ns : List Nat) (f : List Nat → R)
    (b : Nat) (hb : b ≠ 0) (S : List Nat) (x : Nat) (xs : List Nat) :
    anovaProj (w :: ws) (n :: ns) f (b :: S) (x :: xs) =
      anovaProj ws ns (fun js => f (x :: js)) S xs - ∑ j ∈ range n, w j * anovaProj ws ns (fun js => f (j :: js)) S xs := by
  simp only [anovaProj, List.length_cons, List.replicate_succ, boxSum, sumTo, zero_add, anovaMoebius, anovaCondExp,
    if_true, Nat.one_ne_zero, if_false, one_mul, hb]
  have e : (fun T => -1 * anovaMoebius (R := R) S T * ∑ j ∈ range n, w j * anovaCondExp ws ns T (fun js => f (j :: js)) xs) =
      fun T => (-1 : R) * ∑ j ∈ range n, w j * (anovaMoebius S T * anovaCondExp ws ns T (fun js => f (j :: js)) xs) := by
    funext T; rw [Finset.mul_sum, Finset.mul_sum]; apply Finset.sum_congr rfl; intro j _; ring
  rw [e, boxSum_mul_left, boxSum_sum]
  have e2 : ∀ j ∈ range n, boxSum (List.replicate S.length 2)
      (fun T => w j * (anovaMoebius S T * anovaCondExp ws ns T (fun js => f (j :: js)) xs)) =
      w j * boxSum (List.replicate S.length 2) (fun T => anovaMoebius S T * anovaCondExp ws ns T (fun js => f (j :: js)) xs) := by
    intro j _; rw [boxSum_mul_left]
  rw [Finset.sum_congr rfl e2]; ring

/-- **the extended array holds the brute-force terms**: the entry of the ANOVA-extended array at the index of
    subset `S` and point `x` equals `Σ_{T ⊆ S} (−1)^{|S|−|T|} E[f | x_T]` -/
theorem anovaTerm_eq_proj : ∀ (ws : List (Nat → R)) (ns : List Nat) (f : List Nat → R) (S x : List Nat),
    ws.length = ns.length → S.length = ns.length → inShape x ns →
    anovaTerm ws ns f S x = anovaProj ws ns f S x := by
  intro ws
  induction ws with
  | nil =>
    intro ns f S x hw hS hx
    have hn : ns = [] := List.length_eq_zero_iff.mp hw.symm
    subst hn
    have : S = [] := List.length_eq_zero_iff.mp hS
    subst this
    cases x with
    | nil => rw [anovaTerm_nil, anovaProj_nil]
    | cons _ _ => simp [inShape] at hx
  | cons w ws ih =>
    intro ns f S x hw hS hx
    cases ns with
    | nil => simp at hw
    | cons n ns =>
      cases S with
      | nil => simp at hS
      | cons b S =>
        cases x with
        | nil => simp [inShape] at hx
        | cons x0 xs =>
          obtain ⟨hx0, hxs⟩ := hx
          have hw' : ws.length = ns.length := by simpa using hw
          have hS' : S.length = ns.length := by simpa using hS
          by_cases hb : b = 0
          · subst hb
            rw [anovaTerm_cons_zero, anovaProj_cons_zero]
            apply Finset.sum_congr rfl; intro j _
            rw [ih ns _ S xs hw' hS' hxs]
          · rw [anovaTerm_cons_succ w ws n ns f b hb S x0 hx0 xs, anovaProj_cons_succ w ws n ns f b hb S x0 xs,
              ih ns _ S xs hw' hS' hxs]
            congr 1
            apply Finset.sum_congr rfl; intro j _
            rw [ih ns _ S xs hw' hS' hxs]

open Classical in
/-- the coefficient really is `(−1)^{|S|−|T|}` on `T ⊆ S` and `0` otherwise (0/1 lists of equal length) -/
theorem anovaMoebius_eq : ∀ (S T : List Nat), S.length = T.length → (∀ b ∈ S, b < 2) → (∀ t ∈ T, t < 2) →
    anovaMoebius (R := R) S T =
      if (∀ k, T.getD k 0 ≤ S.getD k 0) then (-1) ^ (S.sum - T.sum) else 0 := by
  intro S
  induction S with
  | nil =>
    intro T hl _ _
    have : T = [] := List.length_eq_zero_iff.mp hl.symm
    subst this
    simp [anovaMoebius]
  | cons b S ih =>
    intro T hl hS hT
    cases T with
    | nil => simp at hl
    | cons t T =>
      have hb : b < 2 := hS b (by simp)
      have ht : t < 2 := hT t (by simp)
      have hsum : T.sum ≤ S.sum ∨ ¬ (∀ k, T.getD k 0 ≤ S.getD k 0) := by
        by_cases h : ∀ k, T.getD k 0 ≤ S.getD k 0
        · left
          clear ih hS hT
          induction S generalizing T with
          | nil =>
            have : T = [] := List.length_eq_zero_iff.mp (by simpa using hl.symm)
            subst this; simp
          | cons s S ihs =>
            cases T with
            | nil => simp
            | cons u T =>
              have h0 := h 0
              simp only [List.getD_cons_zero] at h0
              have := ihs T (by simpa using hl) (fun k => by simpa using h (k + 1))
              simp only [List.sum_cons]; omega
        · right; exact h
      rw [anovaMoebius, ih T (by simpa using hl) (fun x hx => hS x (by simp [hx])) (fun x hx => hT x (by simp [hx]))]
      have hall : (∀ k, (t :: T).getD k 0 ≤ (b :: S).getD k 0) ↔ (t ≤ b ∧ ∀ k, T.getD k 0 ≤ S.getD k 0) := by
        constructor
        · intro h; exact ⟨by simpa using h 0, fun k => by simpa using h (k + 1)⟩
        · rintro ⟨h0, h1⟩ k
          cases k with
          | zero => simpa using h0
          | succ k => simpa using h1 k
      by_cases hsub : ∀ k, T.getD k 0 ≤ S.getD k 0
      · have hle : T.sum ≤ S.sum := by
          cases hsum with
          | inl h => exact h
          | inr h => exact absurd hsub h
        rw [if_pos hsub]
        have hb' : b = 0 ∨ b = 1 := by omega
        have ht' : t = 0 ∨ t = 1 := by omega
        rcases hb' with rfl | rfl <;> rcases ht' with rfl | rfl
        · rw [if_pos (hall.mpr ⟨Nat.le_refl _, hsub⟩)]; simp
        · rw [if_neg (fun h => absurd (hall.mp h).1 (by decide))]; simp
        · rw [if_pos (hall.mpr ⟨by decide, hsub⟩)]
          simp only [List.sum_cons]
          rw [show 1 + S.sum - (0 + T.sum) = (S.sum - T.sum) + 1 by omega, pow_succ]; simp
        · rw [if_pos (hall.mpr ⟨Nat.le_refl _, hsub⟩)]
          simp only [List.sum_cons]
          rw [show 1 + S.sum - (1 + T.sum) = S.sum - T.sum by omega]; simp
      · rw [if_neg hsub, mul_zero, if_neg (fun h => hsub (hall.mp h).2)]

/-! ### `undo_anova_decomposition` on the dense array: the sum over all subsets -/

theorem applyMaps_undoL : ∀ (ks ns : List Nat) (g : List Nat → R) (x : List Nat), ks.length = ns.length →
    inShape x ns →
    applyMaps (ks.map fun k => some (k, undoL (R := R))) (ns.map (· + 1)) g x =
      boxSum (List.replicate ns.length 2) (fun S => g (anovaExtIdx S x)) := by
  intro ks
  induction ks with
  | nil =>
    intro ns g x hk hx
    have hn : ns = [] := List.length_eq_zero_iff.mp hk.symm
    subst hn
    cases x with
    | nil => simp [applyMaps, boxSum, anovaExtIdx]
    | cons _ _ => simp [inShape] at hx
  | cons k ks ih =>
    intro ns g x hk hx
    cases ns with
    | nil => simp at hk
    | cons n ns =>
      cases x with
      | nil => simp [inShape] at hx
      | cons x0 xs =>
        obtain ⟨hx0, hxs⟩ := hx
        simp only [List.map_cons, applyMaps, List.length_cons, List.replicate_succ, boxSum, sumTo, zero_add,
          anovaExtIdx, if_true, Nat.one_ne_zero, if_false]
        have e : ∀ r ∈ range (n + 1), undoL (R := R) x0 r *
            applyMaps (ks.map fun k => some (k, undoL (R := R))) (ns.map (· + 1)) (fun js => g (r :: js)) xs =
            undoL (R := R) x0 r * boxSum (List.replicate ns.length 2) (fun S => g (r :: anovaExtIdx S xs)) := by
          intro r _
          rw [ih ns (fun js => g (r :: js)) xs (by simpa using hk) hxs]
        rw [Finset.sum_congr rfl e]
        simp only [undoL, add_mul, Finset.sum_add_distrib]
        rw [Finset.sum_eq_single (x0 + 1), Finset.sum_eq_single 0]
        · simp; ring
        · intro r _ hr; simp [hr]
        · intro hh; exact absurd (Finset.mem_range.mpr (by omega)) hh
        · intro r _ hr; simp [hr]
        · intro hh; exact absurd (Finset.mem_range.mpr (by omega)) hh

/-! ### the labels `tn.mask` reads off the extended tensor -/

theorem clampLabels_anova : ∀ (ns ms S x : List Nat), ms.length = ns.length → S.length = ns.length → inShape x ns →
    clampLabels (anovaIdxs ns) ms (anovaExtIdx S x) = anovaClamp ms S := by
  intro ns
  induction ns with
  | nil =>
    intro ms S x hm hS _
    have : ms = [] := List.length_eq_zero_iff.mp hm
    subst this
    simp [anovaIdxs, clampLabels, anovaClamp]
  | cons n ns ih =>
    intro ms S x hm hS hx
    cases ms with
    | nil => simp at hm
    | cons m ms =>
      cases S with
      | nil => simp at hS
      | cons b S =>
        cases x with
        | nil => simp [inShape] at hx
        | cons x0 xs =>
          obtain ⟨hx0, hxs⟩ := hx
          have := ih ms S xs (by simpa using hm) (by simpa using hS) hxs
          simp only [anovaIdxs] at this
          simp only [anovaIdxs, List.map_cons, anovaExtIdx, clampLabels, anovaClamp, this, List.cons.injEq, and_true]
          by_cases hb : b = 0
          · simp [hb]
          · simp only [hb, if_false, List.getD_cons_succ]
            rw [List.getD_eq_getElem?_getD, List.getElem?_replicate_of_lt hx0]
            simp

/-- on a mask over the 2-symbol box the clamping does nothing -/
theorem anovaClamp_two : ∀ (S : List Nat), (∀ b ∈ S, b < 2) → anovaClamp (List.replicate S.length 2) S = S := by
  intro S
  induction S with
  | nil => intro _; simp [anovaClamp]
  | cons b S ih =>
    intro h
    have hb : b < 2 := h b (by simp)
    simp only [List.length_cons, List.replicate_succ, anovaClamp, ih (fun x hx => h x (by simp [hx])),
      List.cons.injEq, and_true]
    by_cases h0 : b = 0
    · simp [h0]
    · simp only [h0, if_false]; omega

/-- an index of the 2-symbol box is a 0/1 list of the right length -/
theorem anova_inShape_two (S : List Nat) (N : Nat) : inShape S (List.replicate N 2) ↔ S.length = N ∧ ∀ b ∈ S, b < 2 := by
  induction S generalizing N with
  | nil => cases N <;> simp [inShape, List.replicate_succ]
  | cons b S ih =>
    cases N with
    | zero => simp [inShape]
    | succ N =>
      simp only [List.replicate_succ, inShape, ih N, List.length_cons, Nat.add_right_cancel_iff, List.mem_cons,
        forall_eq_or_imp]
      tauto


/-! ### orthogonality of distinct terms -/

theorem anovaNormalized_length : ∀ (ws : List (Nat → R)) (ns : List Nat), anovaNormalized ws ns → ws.length = ns.length := by
  intro ws
  induction ws with
  | nil => intro ns h; cases ns with
    | nil => rfl
    | cons _ _ => simp [anovaNormalized] at h
  | cons w ws ih => intro ns h; cases ns with
    | nil => simp [anovaNormalized] at h
    | cons n ns => simp [ih ns h.2]

/-- one mode: a row of the "absent" kind against a row of the "present" kind has zero weighted sum -/
theorem anovaL_cross_zero (n : Nat) (w : Nat → R) (hw : (∑ i ∈ range n, w i) = 1) (b b' : Nat)
    (hbb : (b == 0) ≠ (b' == 0)) (j j' : Nat) (hj : j < n) (hj' : j' < n) :
    (∑ x0 ∈ range n, w x0 * anovaL n w (if b = 0 then 0 else x0 + 1) j * anovaL n w (if b' = 0 then 0 else x0 + 1) j') = 0 := by
  by_cases hb : b = 0
  · by_cases hb' : b' = 0
    · simp [hb, hb'] at hbb
    · simp only [hb, hb', if_true, if_false]
      have e : ∀ x0 ∈ range n, w x0 * anovaL n w 0 j * anovaL n w (x0 + 1) j' = anovaL n w 0 j * (w x0 * anovaL n w (x0 + 1) j') := by
        intro x0 _; ring
      rw [Finset.sum_congr rfl e, ← Finset.mul_sum, anovaL_weighted_zero n w hw j' hj', mul_zero]
  · by_cases hb' : b' = 0
    · simp only [hb, hb', if_true, if_false]
      have e : ∀ x0 ∈ range n, w x0 * anovaL n w (x0 + 1) j * anovaL n w 0 j' = anovaL n w 0 j' * (w x0 * anovaL n w (x0 + 1) j) := by
        intro x0 _; ring
      rw [Finset.sum_congr rfl e, ← Finset.mul_sum, anovaL_weighted_zero n w hw j hj, mul_zero]
    · simp [hb, hb'] at hbb

/-- **distinct terms are orthogonal** under the product measure (even terms of two different functions) -/
theorem anovaTerm_orthogonal : ∀ (ws : List (Nat → R)) (ns : List Nat) (f g : List Nat → R) (S S' : List Nat),
    anovaNormalized ws ns → S.length = ns.length → S'.length = ns.length →
    S.map (· == 0) ≠ S'.map (· == 0) →
    boxSum ns (fun x => anovaProdW ws x * (anovaTerm ws ns f S x * anovaTerm ws ns g S' x)) = 0 := by
  intro ws
  induction ws with
  | nil =>
    intro ns f g S S' hN hS hS' hne
    cases ns with
    | cons _ _ => simp [anovaNormalized] at hN
    | nil =>
      have : S = [] := List.length_eq_zero_iff.mp hS
      subst this
      have : S' = [] := List.length_eq_zero_iff.mp hS'
      subst this
      exact absurd rfl hne
  | cons w ws ih =>
    intro ns f g S S' hN hS hS' hne
    cases ns with
    | nil => simp [anovaNormalized] at hN
    | cons n ns =>
      cases S with
      | nil => simp at hS
      | cons b S1 =>
        cases S' with
        | nil => simp at hS'
        | cons b' S1' =>
          obtain ⟨hw, hN'⟩ := hN
          have hS1 : S1.length = ns.length := by simpa using hS
          have hS1' : S1'.length = ns.length := by simpa using hS'
          -- the cross moments of the slices
          let Q : Nat → Nat → R := fun j j' => boxSum ns (fun xs => anovaProdW ws xs *
            (anovaTerm ws ns (fun js => f (j :: js)) S1 xs * anovaTerm ws ns (fun js => g (j' :: js)) S1' xs))
          have e : ∀ x0, boxSum ns (fun xs => anovaProdW (w :: ws) (x0 :: xs) *
              (anovaTerm (w :: ws) (n :: ns) f (b :: S1) (x0 :: xs) * anovaTerm (w :: ws) (n :: ns) g (b' :: S1') (x0 :: xs))) =
              ∑ j ∈ range n, ∑ j' ∈ range n,
                (w x0 * anovaL n w (if b = 0 then 0 else x0 + 1) j * anovaL n w (if b' = 0 then 0 else x0 + 1) j') * Q j j' := by
            intro x0
            have e1 : (fun xs => anovaProdW (w :: ws) (x0 :: xs) *
                (anovaTerm (w :: ws) (n :: ns) f (b :: S1) (x0 :: xs) * anovaTerm (w :: ws) (n :: ns) g (b' :: S1') (x0 :: xs))) =
                fun xs => ∑ j ∈ range n, ∑ j' ∈ range n,
                  (w x0 * anovaL n w (if b = 0 then 0 else x0 + 1) j * anovaL n w (if b' = 0 then 0 else x0 + 1) j') *
                    (anovaProdW ws xs * (anovaTerm ws ns (fun js => f (j :: js)) S1 xs *
                      anovaTerm ws ns (fun js => g (j' :: js)) S1' xs)) := by
              funext xs
              rw [anovaTerm_cons, anovaTerm_cons, Finset.sum_mul_sum, Finset.mul_sum]
              apply Finset.sum_congr rfl; intro j _
              rw [Finset.mul_sum]
              apply Finset.sum_congr rfl; intro j' _
              simp only [anovaProdW]; ring
            rw [e1, boxSum_sum]
            apply Finset.sum_congr rfl; intro j _
            rw [boxSum_sum]
            apply Finset.sum_congr rfl; intro j' _
            rw [boxSum_mul_left]
          simp only [boxSum, sumTo_eq]
          rw [Finset.sum_congr rfl (fun x0 _ => e x0)]
          by_cases hbb : (b == 0) = (b' == 0)
          · -- same membership of the head variable: the slices are orthogonal by induction
            have hne' : S1.map (· == 0) ≠ S1'.map (· == 0) := by
              intro h; apply hne; simp only [List.map_cons, hbb, h]
            apply Finset.sum_eq_zero; intro x0 _
            apply Finset.sum_eq_zero; intro j _
            apply Finset.sum_eq_zero; intro j' _
            have : Q j j' = 0 := ih ns _ _ S1 S1' hN' hS1 hS1' hne'
            rw [this, mul_zero]
          · rw [Finset.sum_comm]
            apply Finset.sum_eq_zero; intro j hj
            rw [Finset.sum_comm]
            apply Finset.sum_eq_zero; intro j' hj'
            rw [← Finset.sum_mul, anovaL_cross_zero n w hw b b' hbb j j' (Finset.mem_range.mp hj) (Finset.mem_range.mp hj'),
              zero_mul]

/-! ### the term operators are orthogonal idempotents -/

theorem anovaL_idem (n : Nat) (w : Nat → R) (hw : (∑ i ∈ range n, w i) = 1) (b b' : Nat) (x0 k : Nat)
    (hx0 : x0 < n) (hk : k < n) :
    (∑ j ∈ range n, anovaL n w (if b' = 0 then 0 else x0 + 1) j * anovaL n w (if b = 0 then 0 else j + 1) k) =
      if (b == 0) = (b' == 0) then anovaL n w (if b = 0 then 0 else x0 + 1) k else 0 := by
  by_cases hb' : b' = 0
  · simp only [hb', if_true]
    rw [anovaL_apply_zero]
    by_cases hb : b = 0
    · simp only [hb, if_true, beq_self_eq_true]
      rw [← Finset.sum_mul, hw, one_mul]
    · simp only [hb, if_false]
      rw [anovaL_weighted_zero n w hw k hk]
      simp [hb]
  · simp only [hb', if_false]
    rw [anovaL_apply_succ n w (fun j => anovaL n w (if b = 0 then 0 else j + 1) k) x0 hx0]
    by_cases hb : b = 0
    · simp only [hb, if_true]
      rw [← Finset.sum_mul, hw, one_mul, sub_self]
      simp [hb']
    · simp only [hb, if_false]
      rw [anovaL_weighted_zero n w hw k hk, sub_zero]
      simp [hb, hb']

/-- **taking the term of `S'` of the term of `S`** gives the term of `S` back if `S' = S` and zero otherwise -/
theorem anovaTerm_idem : ∀ (ws : List (Nat → R)) (ns : List Nat) (f : List Nat → R) (S S' x : List Nat),
    anovaNormalized ws ns → S.length = ns.length → S'.length = ns.length → inShape x ns →
    anovaTerm ws ns (fun y => anovaTerm ws ns f S y) S' x =
      if S.map (· == 0) = S'.map (· == 0) then anovaTerm ws ns f S x else 0 := by
  intro ws
  induction ws with
  | nil =>
    intro ns f S S' x hN hS hS' hx
    cases ns with
    | cons _ _ => simp [anovaNormalized] at hN
    | nil =>
      have : S = [] := List.length_eq_zero_iff.mp hS
      subst this
      have : S' = [] := List.length_eq_zero_iff.mp hS'
      subst this
      cases x with
      | nil => simp [anovaTerm_nil]
      | cons _ _ => simp [inShape] at hx
  | cons w ws ih =>
    intro ns f S S' x hN hS hS' hx
    cases ns with
    | nil => simp [anovaNormalized] at hN
    | cons n ns =>
      cases S with
      | nil => simp at hS
      | cons b S1 =>
        cases S' with
        | nil => simp at hS'
        | cons b' S1' =>
          cases x with
          | nil => simp [inShape] at hx
          | cons x0 xs =>
            obtain ⟨hw, hN'⟩ := hN
            obtain ⟨hx0, hxs⟩ := hx
            have hS1 : S1.length = ns.length := by simpa using hS
            have hS1' : S1'.length = ns.length := by simpa using hS'
            rw [anovaTerm_cons]
            have e : ∀ j ∈ range n, anovaL n w (if b' = 0 then 0 else x0 + 1) j *
                anovaTerm ws ns (fun js => anovaTerm (w :: ws) (n :: ns) f (b :: S1) (j :: js)) S1' xs =
                ∑ k ∈ range n, (anovaL n w (if b' = 0 then 0 else x0 + 1) j * anovaL n w (if b = 0 then 0 else j + 1) k) *
                  (if S1.map (· == 0) = S1'.map (· == 0) then anovaTerm ws ns (fun js => f (k :: js)) S1 xs else 0) := by
              intro j _
              have e1 : (fun js => anovaTerm (w :: ws) (n :: ns) f (b :: S1) (j :: js)) =
                  fun js => ∑ k ∈ range n, anovaL n w (if b = 0 then 0 else j + 1) k *
                    (fun k js => anovaTerm ws ns (fun ls => f (k :: ls)) S1 js) k js := by
                funext js; rw [anovaTerm_cons]
              rw [e1, anovaTerm_linear, Finset.mul_sum]
              apply Finset.sum_congr rfl; intro k _
              rw [ih ns (fun ls => f (k :: ls)) S1 S1' xs hN' hS1 hS1' hxs]; ring
            rw [Finset.sum_congr rfl e, Finset.sum_comm]
            have e2 : ∀ k ∈ range n, (∑ j ∈ range n,
                (anovaL n w (if b' = 0 then 0 else x0 + 1) j * anovaL n w (if b = 0 then 0 else j + 1) k) *
                  (if S1.map (· == 0) = S1'.map (· == 0) then anovaTerm ws ns (fun js => f (k :: js)) S1 xs else 0)) =
                (if (b == 0) = (b' == 0) then anovaL n w (if b = 0 then 0 else x0 + 1) k else 0) *
                  (if S1.map (· == 0) = S1'.map (· == 0) then anovaTerm ws ns (fun js => f (k :: js)) S1 xs else 0) := by
              intro k hk
              rw [← Finset.sum_mul, anovaL_idem n w hw b b' x0 k hx0 (Finset.mem_range.mp hk)]
            rw [Finset.sum_congr rfl e2]
            simp only [List.map_cons, List.cons.injEq]
            by_cases h1 : (b == 0) = (b' == 0)
            · by_cases h2 : S1.map (· == 0) = S1'.map (· == 0)
              · simp only [h1, h2, and_self, if_true]
                rw [anovaTerm_cons]
              · simp [h1, h2]
            · simp [h1]

/-! ### sums over the box of subsets -/

theorem anova_boxSum_zero (s : List Nat) : boxSum s (fun _ => (0 : R)) = 0 := by
  have := boxSum_mul_left s (0 : R) (fun _ => 0); simpa using this

/-- a box sum whose summand vanishes at every index of the box but one -/
theorem anova_boxSum_single : ∀ (ns S' : List Nat) (F : List Nat → R), inShape S' ns →
    (∀ S, inShape S ns → S ≠ S' → F S = 0) → boxSum ns F = F S' := by
  intro ns
  induction ns with
  | nil =>
    intro S' F h _
    cases S' with
    | nil => rfl
    | cons _ _ => simp [inShape] at h
  | cons n ns ih =>
    intro S' F h hF
    cases S' with
    | nil => simp [inShape] at h
    | cons s0 S1 =>
      obtain ⟨h0, h1⟩ := h
      simp only [boxSum, sumTo_eq]
      rw [Finset.sum_eq_single s0]
      · exact ih S1 (fun js => F (s0 :: js)) h1 (fun S hS hne => hF (s0 :: S) ⟨h0, hS⟩ (by simpa using hne))
      · intro i hi hne
        rw [boxSum_congr_inShape ns _ (fun _ => 0)
          (fun S hS => hF (i :: S) ⟨Finset.mem_range.mp hi, hS⟩ (by simp [hne])), anova_boxSum_zero]
      · intro hh; exact absurd (Finset.mem_range.mpr h0) hh

/-- for 0/1 lists, equal subsets means equal lists -/
theorem anovaBits_eq : ∀ (S S' : List Nat), (∀ b ∈ S, b < 2) → (∀ b ∈ S', b < 2) →
    S.map (· == 0) = S'.map (· == 0) → S = S' := by
  intro S
  induction S with
  | nil => intro S' _ _ h; cases S' with
    | nil => rfl
    | cons _ _ => simp at h
  | cons b S ih =>
    intro S' hS hS' h
    cases S' with
    | nil => simp at h
    | cons b' S' =>
      simp only [List.map_cons, List.cons.injEq] at h
      have hb : b < 2 := hS b (by simp)
      have hb' : b' < 2 := hS' b' (by simp)
      rw [ih S' (fun x hx => hS x (by simp [hx])) (fun x hx => hS' x (by simp [hx])) h.2]
      have : b = b' := by
        have h1 := h.1
        by_cases h0 : b = 0
        · subst h0; simp at h1; omega
        · have : ¬ b' = 0 := by intro h0'; subst h0'; simp [h0] at h1
          omega
      rw [this]

/-- the term is linear over a box sum of functions -/
theorem anovaTerm_boxSum (ws : List (Nat → R)) (ns : List Nat) (S' x : List Nat) : ∀ (bs : List Nat)
    (c : List Nat → R) (g : List Nat → List Nat → R),
    anovaTerm ws ns (fun y => boxSum bs (fun S => c S * g S y)) S' x =
      boxSum bs (fun S => c S * anovaTerm ws ns (g S) S' x) := by
  intro bs
  induction bs with
  | nil => intro c g; simp only [boxSum]; exact anovaTerm_smul ws ns S' x (c []) (g [])
  | cons m bs ih =>
    intro c g
    simp only [boxSum, sumTo_eq]
    have e : (fun y => ∑ i ∈ range m, boxSum bs (fun S => c (i :: S) * g (i :: S) y)) =
        fun y => ∑ i ∈ range m, (fun _ => (1 : R)) i * (fun i y => boxSum bs (fun S => c (i :: S) * g (i :: S) y)) i y := by
      funext y; simp
    rw [e, anovaTerm_linear]
    apply Finset.sum_congr rfl; intro i _
    rw [one_mul]
    exact ih (fun S => c (i :: S)) (fun S => g (i :: S))


/-! ### marginals as the code normalises them -/

/-- every marginal has a non-zero sum (there is one per mode): what the division
    `marginals[n] / torch.sum(marginals[n])` needs -/
def anovaMargOK : List (Nat → R) → List Nat → Prop
  | w :: ws, n :: ns => sumTo n w ≠ 0 ∧ anovaMargOK ws ns
  | [], [] => True
  | _, _ => False

theorem anovaMargOK_length : ∀ (ws : List (Nat → R)) (ns : List Nat), anovaMargOK ws ns → ws.length = ns.length := by
  intro ws
  induction ws with
  | nil => intro ns h; cases ns with
    | nil => rfl
    | cons _ _ => simp [anovaMargOK] at h
  | cons w ws ih => intro ns h; cases ns with
    | nil => simp [anovaMargOK] at h
    | cons n ns => simp [ih ns h.2]

theorem anovaNormalized_normWs : ∀ (ws : List (Nat → R)) (ns : List Nat), anovaMargOK ws ns →
    anovaNormalized (anovaNormWs ws ns) ns := by
  intro ws
  induction ws with
  | nil => intro ns h; cases ns with
    | nil => simp [anovaNormWs, anovaNormalized]
    | cons _ _ => simp [anovaMargOK] at h
  | cons w ws ih =>
    intro ns h
    cases ns with
    | nil => simp [anovaMargOK] at h
    | cons n ns =>
      obtain ⟨h1, h2⟩ := h
      refine ⟨?_, ih ns h2⟩
      simp only [normW, div_eq_mul_inv]
      rw [← Finset.sum_mul, ← sumTo_eq, mul_inv_cancel₀ h1]

theorem anovaNormWs_length (ws : List (Nat → R)) (ns : List Nat) (h : ws.length = ns.length) :
    (anovaNormWs ws ns).length = ns.length := by simp [anovaNormWs, h]

theorem anovaNormWs_getD : ∀ (ws : List (Nat → R)) (ns : List Nat) (k : Nat), k < ws.length → k < ns.length →
    (anovaNormWs ws ns).getD k (fun _ => 0) = normW (ns.getD k 0) (ws.getD k (fun _ => 0)) := by
  intro ws
  induction ws with
  | nil => intro ns k h _; simp at h
  | cons w ws ih =>
    intro ns k h h'
    cases ns with
    | nil => simp at h'
    | cons n ns =>
      cases k with
      | zero => simp [anovaNormWs]
      | succ k =>
        have := ih ns k (by simpa using h) (by simpa using h')
        simpa [anovaNormWs] using this

theorem anovaExtIdx_zero : ∀ (N : Nat) (x : List Nat), x.length = N →
    anovaExtIdx (List.replicate N 0) x = List.replicate N 0 := by
  intro N
  induction N with
  | zero => intro x _; simp [anovaExtIdx]
  | succ N ih =>
    intro x h
    cases x with
    | nil => simp at h
    | cons x0 xs => simp [List.replicate_succ, anovaExtIdx, ih xs (by simpa using h)]

/-! ### `keepdim=False`: which modes are dropped, and the indexing `t[0 at the dropped modes, : elsewhere]` -/

theorem trunc_foldl_add_eq_zero : ∀ (l : List Nat) (a : Nat), l.foldl (· + ·) a = 0 ↔ a = 0 ∧ ∀ x ∈ l, x = 0 := by
  intro l
  induction l with
  | nil => intro a; simp
  | cons y l ih =>
    intro a
    simp only [List.foldl_cons, ih, List.mem_cons, forall_eq_or_imp]
    constructor
    · rintro ⟨h1, h2⟩; exact ⟨by omega, by omega, h2⟩
    · rintro ⟨h1, h2, h3⟩; exact ⟨by omega, h3⟩

theorem droppedModes_colSums_length (N : Nat) (rows : List (List Nat)) :
    (droppedModes (colSums N rows)).length = N := by simp [droppedModes, colSums]

/-- a mode is dropped iff no row of the matrix of accepted strings has a non-zero entry in its column -/
theorem droppedModes_colSums_getD (N : Nat) (rows : List (List Nat)) (k : Nat) :
    (droppedModes (colSums N rows)).getD k false = true ↔ k < N ∧ ∀ r ∈ rows, r.getD k 0 = 0 := by
  by_cases hk : k < N
  · rw [List.getD_eq_getElem?_getD, List.getElem?_eq_getElem (by rw [droppedModes_colSums_length]; exact hk)]
    simp only [droppedModes, colSums, List.getElem_map, List.getElem_range, Option.getD_some, beq_iff_eq,
      trunc_foldl_add_eq_zero, true_and, List.mem_map, forall_exists_index, and_imp, forall_apply_eq_imp_iff₂, hk]
  · rw [List.getD_eq_getElem?_getD, List.getElem?_eq_none (by rw [droppedModes_colSums_length]; omega)]
    simp [hk]

/-- the modes indexed by an integer are not empty -/
def truncFlaggedPos : List Bool → List Nat → Prop
  | true :: ds, n :: ns => 0 < n ∧ truncFlaggedPos ds ns
  | false :: ds, _ :: ns => truncFlaggedPos ds ns
  | _, _ => True

theorem truncFlaggedPos_of_pos : ∀ (dims : List Bool) (ns : List Nat), (∀ n ∈ ns, 0 < n) → truncFlaggedPos dims ns := by
  intro dims
  induction dims with
  | nil => intro ns _; simp [truncFlaggedPos]
  | cons b ds ih =>
    intro ns h
    cases ns with
    | nil => cases b <;> simp [truncFlaggedPos]
    | cons n ns =>
      cases b with
      | true => exact ⟨h n (by simp), ih ns (fun m hm => h m (by simp [hm]))⟩
      | false => exact ih ns (fun m hm => h m (by simp [hm]))

/-- bounds normalisation of the key `0 at the flagged modes, : elsewhere` when the flagged modes are not empty -/
theorem truncAnova_normKey : ∀ (dims : List Bool) (ns : List Nat), dims.length = ns.length → truncFlaggedPos dims ns →
    normKey (squeezeKey dims) ns = .ok (sqItems dims ns) := by
  intro dims
  induction dims with
  | nil => intro ns _ _; simp [squeezeKey, normKey, sqItems]
  | cons b ds ih =>
    intro ns hl hf
    cases ns with
    | nil => simp at hl
    | cons n ns =>
      have hl' : ds.length = ns.length := by simpa using hl
      cases b with
      | false =>
        have := ih ns hl' hf
        simp only [squeezeKey, sliceAll] at this
        simp only [squeezeKey, List.map_cons, sliceAll, Bool.false_eq_true, if_false, normKey, normSlice_all, this, sqItems,
          bind, Except.bind, pure, Except.pure]
      | true =>
        obtain ⟨h1, hf'⟩ := hf
        have := ih ns hl' hf'
        simp only [squeezeKey] at this
        have h0 : normInt 0 n = .ok 0 := by
          unfold normInt
          simp [h1]
        simp only [squeezeKey, List.map_cons, if_true, normKey, h0, this, sqItems, bind, Except.bind, pure, Except.pure]

end TN
