import TnVerif.Lemmas.Sum
/-! L0–L8 of DESIGN §2.1: semantic lemmas about mode chains, for any number of modes, any ranks,
    any sizes, any commutative semiring. -/
open Finset
namespace TN
variable {R : Type} [CommSemiring R]

def addT (xs ys : List (Mode R)) : List (Mode R) := List.zipWith Mode.add xs ys
def mulT (xs ys : List (Mode R)) : List (Mode R) := List.zipWith Mode.kron xs ys

/-- L2: block-diagonal chains add -/
theorem tail_add (xs ys : List (Mode R)) :
    ∀ (is : List Nat) (p q : Nat), wf p xs → wf q ys → compat xs ys → ∀ a,
    tail (addT xs ys) is a = if a < p then tail xs is a else tail ys is (a - p) := by
  induction xs generalizing ys with
  | nil =>
    intro is p q _ _ hc a
    cases ys with
    | nil => simp [addT, tail]
    | cons y ys => simp [compat] at hc
  | cons x xs ih =>
    intro is p q hx hy hc a
    cases ys with
    | nil => simp [compat] at hc
    | cons y ys =>
      obtain ⟨hxl, hxw⟩ := hx
      obtain ⟨hyl, hyw⟩ := hy
      obtain ⟨_, hc'⟩ := hc
      cases is with
      | nil => simp [addT, tail]
      | cons i is =>
        have ih' := ih ys is x.rr y.rr hxw hyw hc'
        simp only [addT, List.zipWith_cons_cons, tail, sumTo_eq] at ih' ⊢
        simp only [Mode.add]
        subst hxl
        by_cases ha : a < x.rl
        · simp only [ha, if_true]
          have : ∀ b, (if b < x.rr then x.G i a b else 0) * tail (List.zipWith Mode.add xs ys) is b
              = if b < x.rr then x.G i a b * tail xs is b else 0 * tail ys is (b - x.rr) := by
            intro b; rw [ih' b]; split <;> simp
          simp only [this]
          rw [sum_blk x.rr y.rr (fun b => x.G i a b * tail xs is b) (fun b => 0 * tail ys is b)]; simp
        · simp only [ha, if_false]
          have : ∀ b, (if b < x.rr then 0 else y.G i (a - x.rl) (b - x.rr)) * tail (List.zipWith Mode.add xs ys) is b
              = if b < x.rr then 0 * tail xs is b else y.G i (a - x.rl) (b - x.rr) * tail ys is (b - x.rr) := by
            intro b; rw [ih' b]; split <;> simp
          simp only [this]
          rw [sum_blk x.rr y.rr (fun b => 0 * tail xs is b) (fun b => y.G i (a - x.rl) b * tail ys is b)]; simp

theorem dense_add (x : Mode R) (xs : List (Mode R)) (y : Mode R) (ys : List (Mode R)) (is : List Nat)
    (hx : wf x.rl (x :: xs)) (hy : wf y.rl (y :: ys)) (hc : compat (x :: xs) (y :: ys)) :
    dense (addT (x :: xs) (y :: ys)) is = dense (x :: xs) is + dense (y :: ys) is := by
  have h := tail_add (x :: xs) (y :: ys) is x.rl y.rl hx hy hc
  simp only [dense, addT, List.zipWith_cons_cons, sumTo_eq] at h ⊢
  simp only [h]
  have : (Mode.add x y).rl = x.rl + y.rl := rfl
  rw [this, sum_blk x.rl y.rl (fun a => tail (x :: xs) is a) (fun a => tail (y :: ys) is a)]

/-- L3: slice-wise Kronecker chains multiply -/
theorem tail_mul (xs ys : List (Mode R)) :
    ∀ (is : List Nat) (p q : Nat), wf p xs → wf q ys → compat xs ys → ∀ a,
    tail (mulT xs ys) is a = tail xs is (a / q) * tail ys is (a % q) := by
  induction xs generalizing ys with
  | nil =>
    intro is p q _ _ hc a
    cases ys with
    | nil => simp [mulT, tail]
    | cons y ys => simp [compat] at hc
  | cons x xs ih =>
    intro is p q hx hy hc a
    cases ys with
    | nil => simp [compat] at hc
    | cons y ys =>
      obtain ⟨hxl, hxw⟩ := hx
      obtain ⟨hyl, hyw⟩ := hy
      obtain ⟨_, hc'⟩ := hc
      cases is with
      | nil => simp [mulT, tail]
      | cons i is =>
        have ih' := ih ys is x.rr y.rr hxw hyw hc'
        simp only [mulT, List.zipWith_cons_cons, tail, sumTo_eq] at ih' ⊢
        simp only [Mode.kron, ih']
        subst hyl
        rw [sum_range_mul x.rr y.rr (fun b1 b2 => x.G i (a / y.rl) b1 * y.G i (a % y.rl) b2 * (tail xs is b1 * tail ys is b2))]
        rw [Finset.sum_mul_sum]
        apply Finset.sum_congr rfl; intro b1 _
        apply Finset.sum_congr rfl; intro b2 _
        ring

theorem dense_mul (x : Mode R) (xs : List (Mode R)) (y : Mode R) (ys : List (Mode R)) (is : List Nat)
    (hx : wf x.rl (x :: xs)) (hy : wf y.rl (y :: ys)) (hc : compat (x :: xs) (y :: ys)) :
    dense (mulT (x :: xs) (y :: ys)) is = dense (x :: xs) is * dense (y :: ys) is := by
  have h := tail_mul (x :: xs) (y :: ys) is x.rl y.rl hx hy hc
  simp only [dense, mulT, List.zipWith_cons_cons, sumTo_eq] at h ⊢
  simp only [h]
  have : (Mode.kron x y).rl = x.rl * y.rl := rfl
  rw [this, sum_range_mul x.rl y.rl (fun a a' => tail (x :: xs) is a * tail (y :: ys) is a'), Finset.sum_mul_sum]
theorem boxSum_add (s : List Nat) (f g : List Nat → R) :
    boxSum s (fun is => f is + g is) = boxSum s f + boxSum s g := by
  induction s generalizing f g with
  | nil => simp [boxSum]
  | cons n ns ih => simp only [boxSum, sumTo_eq, ih, Finset.sum_add_distrib]

theorem boxSum_mul_left (s : List Nat) (c : R) (f : List Nat → R) :
    boxSum s (fun is => c * f is) = c * boxSum s f := by
  induction s generalizing f with
  | nil => simp [boxSum]
  | cons n ns ih => simp only [boxSum, sumTo_eq, ih, Finset.mul_sum]

theorem boxSum_sum (s : List Nat) (k : Nat) (f : Nat → List Nat → R) :
    boxSum s (fun is => ∑ x ∈ range k, f x is) = ∑ x ∈ range k, boxSum s (f x) := by
  induction k with
  | zero =>
    simp only [range_zero, sum_empty]
    have := boxSum_mul_left s (0:R) (fun _ => 0); simpa using this
  | succ k ih => simp only [Finset.sum_range_succ, boxSum_add, ih]

/-- Frobenius inner product of two chains = interface recursion (what `dot` computes) -/
theorem boxSum_tail_mul (ms ms' : List (Mode R)) (hc : compat ms ms') (a a' : Nat) :
    boxSum (ms.map (·.n)) (fun is => tail ms is a * tail ms' is a') = iface ms ms' a a' := by
  induction ms generalizing ms' a a' with
  | nil =>
    cases ms' with
    | nil => simp [boxSum, tail, iface]
    | cons _ _ => simp [compat] at hc
  | cons m ms ih =>
    cases ms' with
    | nil => simp [compat] at hc
    | cons m' ms' =>
      obtain ⟨hn, hc'⟩ := hc
      simp only [List.map_cons, boxSum, tail, iface, sumTo_eq]
      apply Finset.sum_congr rfl; intro i _
      rw [show (fun is => (∑ b ∈ range m.rr, m.G i a b * tail ms is b) *
              (∑ b' ∈ range m'.rr, m'.G i a' b' * tail ms' is b')) =
            (fun is => ∑ b ∈ range m.rr, ∑ b' ∈ range m'.rr,
              (m.G i a b * m'.G i a' b') * (tail ms is b * tail ms' is b')) from by
          funext is; rw [Finset.sum_mul_sum]
          apply Finset.sum_congr rfl; intro b _
          apply Finset.sum_congr rfl; intro b' _; ring]
      rw [boxSum_sum]
      apply Finset.sum_congr rfl; intro b _
      rw [boxSum_sum]
      apply Finset.sum_congr rfl; intro b' _
      rw [boxSum_mul_left, ih ms' hc' b b']
/-- right-orthonormal mode: Σ_i Σ_b G i a b * G i a' b = δ a a' (for a,a' < rl) -/
def Mode.rightOrtho (m : Mode R) : Prop :=
  ∀ a < m.rl, ∀ a' < m.rl, (∑ i ∈ range m.n, ∑ b ∈ range m.rr, m.G i a b * m.G i a' b) = if a = a' then 1 else 0

def chainRO (p : Nat) : List (Mode R) → Prop
  | [] => p = 1
  | m :: ms => m.rl = p ∧ m.rightOrtho ∧ chainRO m.rr ms

omit [CommSemiring R] in
theorem compat_self (ms : List (Mode R)) : compat ms ms := by
  induction ms with
  | nil => trivial
  | cons m ms ih => exact ⟨rfl, ih⟩

/-- isometry: a right-orthonormal chain with boundary rank 1 has identity interface -/
theorem iface_ortho (ms : List (Mode R)) : ∀ p, chainRO p ms → ∀ a < p, ∀ a' < p,
    iface ms ms a a' = if a = a' then 1 else 0 := by
  induction ms with
  | nil =>
    intro p hp a ha a' ha'
    simp only [chainRO] at hp; subst hp
    have : a = 0 := by omega
    have : a' = 0 := by omega
    subst_vars; simp [iface]
  | cons m ms ih =>
    intro p ⟨hl, ho, hr⟩ a ha a' ha'
    subst hl
    simp only [iface, sumTo_eq]
    have ih' := ih m.rr hr
    -- replace iface ms ms b b' by δ b b' inside the range
    have : ∀ i ∈ range m.n, (∑ b ∈ range m.rr, ∑ b' ∈ range m.rr, m.G i a b * m.G i a' b' * iface ms ms b b')
        = ∑ b ∈ range m.rr, m.G i a b * m.G i a' b := by
      intro i _
      apply Finset.sum_congr rfl; intro b hb
      have hb' := Finset.mem_range.mp hb
      rw [Finset.sum_eq_single b]
      · rw [ih' b hb' b hb']; simp
      · intro b' hb2 hne
        rw [ih' b hb' b' (Finset.mem_range.mp hb2)]; simp [Ne.symm hne]
      · intro h; exact absurd hb h
    rw [Finset.sum_congr rfl this]
    exact ho a ha a' ha'

/-- L1: applying a linear map along the head mode -/
theorem tail_lin_head (m : Mode R) (ms : List (Mode R)) (rows : Nat) (L : Nat → Nat → R)
    (i : Nat) (is : List Nat) (a : Nat) :
    tail (m.lin rows L :: ms) (i :: is) a = ∑ j ∈ range m.n, L i j * tail (m :: ms) (j :: is) a := by
  simp only [tail, Mode.lin, sumTo_eq, Finset.sum_mul, Finset.mul_sum]
  rw [Finset.sum_comm]
  apply Finset.sum_congr rfl; intro j _
  apply Finset.sum_congr rfl; intro b _; ring
theorem boxSum_congr (s : List Nat) (f g : List Nat → R) (h : ∀ is, f is = g is) : boxSum s f = boxSum s g := by
  have : f = g := funext h
  rw [this]

/-- multi-mode L1 (Tucker-operator lemma): works for every subset of modes at once -/
theorem tail_linAll (Ls : List (Nat × (Nat → Nat → R))) (ms : List (Mode R)) (hl : Ls.length = ms.length) :
    ∀ (is : List Nat), is.length = ms.length → ∀ a,
    tail (linAll Ls ms) is a = boxSum (ms.map (·.n)) (fun js => wprod Ls is js * tail ms js a) := by
  induction ms generalizing Ls with
  | nil =>
    intro is _ a
    cases Ls <;> simp [linAll, tail, boxSum, wprod]
  | cons m ms ih =>
    intro is hi a
    cases Ls with
    | nil => simp at hl
    | cons Lh Ls =>
      obtain ⟨rows, L⟩ := Lh
      cases is with
      | nil => simp at hi
      | cons i is =>
        have hl' : Ls.length = ms.length := by simpa using hl
        have hi' : is.length = ms.length := by simpa using hi
        have ih' := ih Ls hl' is hi'
        simp only [linAll, tail, Mode.lin, sumTo_eq, List.map_cons, boxSum, wprod]
        -- LHS: Σ_b (Σ_j L i j * G j a b) * tail (linAll Ls ms) is b
        simp only [ih', Finset.sum_mul]
        rw [Finset.sum_comm]
        apply Finset.sum_congr rfl; intro j _
        -- goal: Σ_b L i j * G j a b * boxSum … = boxSum (fun js => L i j * wprod * Σ_b G j a b * tail ms js b)
        rw [show (fun js => L i j * wprod Ls is js * ∑ b ∈ range m.rr, m.G j a b * tail ms js b)
              = (fun js => ∑ b ∈ range m.rr, (L i j * m.G j a b) * (wprod Ls is js * tail ms js b)) from by
            funext js; rw [Finset.mul_sum]; apply Finset.sum_congr rfl; intro b _; ring]
        rw [boxSum_sum]
        apply Finset.sum_congr rfl; intro b _
        rw [boxSum_mul_left]
/-- selection lemma: a product of Kronecker deltas under the box sum evaluates the function -/
theorem boxSum_sel (φs : List (Nat × (Nat → Nat))) :
    ∀ (is ss : List Nat) (f : List Nat → R), inBox φs is ss →
    boxSum ss (fun js => wprod (selAll φs) is js * f js) = f (mapIdx φs is) := by
  induction φs with
  | nil =>
    intro is ss f h
    cases is <;> cases ss <;> simp_all [inBox, boxSum, selAll, wprod, mapIdx]
  | cons p φs ih =>
    obtain ⟨rows, φ⟩ := p
    intro is ss f h
    cases is with
    | nil => simp [inBox] at h
    | cons i is =>
      cases ss with
      | nil => simp [inBox] at h
      | cons s ss =>
        obtain ⟨hlt, hrest⟩ := h
        simp only [boxSum, sumTo_eq, selAll, wprod, mapIdx, sel]
        rw [Finset.sum_eq_single (φ i)]
        · simp only [if_true, one_mul]
          exact ih is ss (fun js => f (φ i :: js)) hrest
        · intro j _ hne
          have : ∀ js : List Nat, ((if j = φ i then (1:R) else 0) * wprod (selAll φs) is js) * f (j :: js) = 0 := by
            intro js; simp [hne]
          rw [boxSum_congr ss _ (fun _ => 0) this]
          have := boxSum_mul_left ss (0:R) (fun _ => (0:R)); simpa using this
        · intro hn; exact absurd (Finset.mem_range.mpr hlt) hn

/-- corollary: gathering along every mode (slice, flip, repeat, index map) = re-indexing the dense array -/
theorem tail_gather (φs : List (Nat × (Nat → Nat))) (ms : List (Mode R)) (is : List Nat)
    (hl : (selAll (R := R) φs).length = ms.length) (hi : is.length = ms.length)
    (hb : inBox φs is (ms.map (·.n))) (a : Nat) :
    tail (linAll (selAll φs) ms) is a = tail ms (mapIdx φs is) a := by
  rw [tail_linAll _ _ hl is hi a]
  exact boxSum_sel (R := R) φs is _ (fun js => tail ms js a) hb
end TN
