import TnVerif.Model.TTMatrix
import Mathlib.LinearAlgebra.Matrix.Kronecker
import Mathlib.LinearAlgebra.Matrix.NonsingularInverse
/-!
# C19 — TT matrices act like the dense matrices they compress

* the index interleaving of the constructor is undone by `torch()` for every factorisation into any
  number of factors;
* the Kronecker routines accept exactly the all-ranks-1, square-block matrices;
* for Kronecker products (Mathlib's `⊗ₖ`): the determinant formula `det A^n · det B^m` the code uses,
  the block-wise inverse, and the block-wise Cholesky factor reproduce the dense results.
-/
namespace TN.C19
open TN Matrix
open scoped Kronecker

/-- **round trip of the index maps**: `torch()` reads back exactly what the constructor stored, for
    any number of factors (entries `j_k < o_k`) -/
theorem split_pair (is js os : List Nat) (h1 : is.length = os.length) (h2 : js.length = os.length)
    (hj : ∀ k, k < os.length → js.getD k 0 < os.getD k 0) :
    splitIdx (pairIdx is js os) os = (is, js) := by
  induction os generalizing is js with
  | nil =>
    cases is <;> cases js <;> simp_all [pairIdx, splitIdx]
  | cons o os ih =>
    cases is with
    | nil => simp at h1
    | cons i is =>
      cases js with
      | nil => simp at h2
      | cons j js =>
        have hj0 : j < o := by simpa using hj 0 (by simp)
        have := ih is js (by simpa using h1) (by simpa using h2) (fun k hk => by simpa using hj (k + 1) (by simpa using hk))
        simp only [pairIdx, splitIdx, this]
        have ho : 0 < o := by omega
        rw [Nat.mul_comm, Nat.mul_add_div ho, Nat.div_eq_of_lt hj0, Nat.mul_add_mod, Nat.mod_eq_of_lt hj0]
        simp

/-- **precondition of the Kronecker routines** (the test that commit 48c7831 un-inverted) -/
theorem kronOK_iff (ranks indims outdims : List Nat) :
    kronOK ranks indims outdims = true ↔ (∀ r ∈ ranks, r = 1) ∧ indims = outdims := by
  simp [kronOK, List.all_eq_true]

/-- a matrix of TT rank > 1 is rejected -/
theorem kron_rejects_rank (ranks indims outdims : List Nat) (r : Nat) (hr : r ∈ ranks) (h1 : r ≠ 1) :
    kronOK ranks indims outdims = false := by
  rw [Bool.eq_false_iff]; intro h
  exact h1 (((kronOK_iff _ _ _).mp h).1 r hr)

/-- non-square blocks are rejected -/
theorem kron_rejects_nonsquare (ranks indims outdims : List Nat) (h : indims ≠ outdims) :
    kronOK ranks indims outdims = false := by
  rw [Bool.eq_false_iff]; intro hk
  exact h ((kronOK_iff _ _ _).mp hk).2

section kron
variable {m n : Type} [Fintype m] [Fintype n] [DecidableEq m] [DecidableEq n] {K : Type} [CommRing K]

/-- **determinant**: `det *= det(block_k) ** (rows / size_k)` is the determinant of the Kronecker product -/
theorem det_two_blocks (A : Matrix m m K) (B : Matrix n n K) :
    det (A ⊗ₖ B) = det A ^ Fintype.card n * det B ^ Fintype.card m := det_kronecker A B

/-- **inverse**: the Kronecker product of the block inverses -/
theorem inv_two_blocks (A : Matrix m m K) (B : Matrix n n K) : (A ⊗ₖ B)⁻¹ = A⁻¹ ⊗ₖ B⁻¹ := inv_kronecker A B

/-- **Cholesky**: if `L_A L_Aᵀ = A` and `L_B L_Bᵀ = B` then `L_A ⊗ L_B` is a Cholesky-type factor of `A ⊗ B` -/
theorem cholesky_two_blocks (A LA : Matrix m m K) (B LB : Matrix n n K) (hA : LA * LAᵀ = A) (hB : LB * LBᵀ = B) :
    (LA ⊗ₖ LB) * (LA ⊗ₖ LB)ᵀ = A ⊗ₖ B := by
  rw [← hA, ← hB, mul_kronecker_mul, kroneckerMap_transpose]

/-- three blocks, right-nested: the code's product of powers -/
theorem det_three_blocks {p : Type} [Fintype p] [DecidableEq p] (A : Matrix m m K) (B : Matrix n n K) (C : Matrix p p K) :
    det (A ⊗ₖ (B ⊗ₖ C)) =
      det A ^ (Fintype.card n * Fintype.card p) * (det B ^ (Fintype.card p * Fintype.card m) * det C ^ (Fintype.card n * Fintype.card m)) := by
  rw [det_kronecker, det_kronecker, Fintype.card_prod, mul_pow, ← pow_mul, ← pow_mul]
end kron

end TN.C19
