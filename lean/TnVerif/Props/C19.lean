import TnVerif.Model.TTMatrix
import TnVerif.Lemmas.TTMatMul
import TnVerif.Lemmas.KronDet
import Mathlib.LinearAlgebra.Matrix.Kronecker
import Mathlib.LinearAlgebra.Matrix.NonsingularInverse
/-!
# C19 — TT matrices act like the dense matrices they compress

* the index interleaving of the constructor is undone by `torch()` for every factorisation into any
  number of factors;
* the Kronecker routines accept exactly the all-ranks-1, square-block matrices;
* for Kronecker products (Mathlib's `⊗ₖ`): the determinant formula `det A^n · det B^m` the code uses,
  the block-wise inverse, and the block-wise Cholesky factor reproduce the dense results.
-/
namespace TN.C19
open TN Matrix
open scoped Kronecker

/-- **round trip of the index maps**: `torch()` reads back exactly what the constructor stored, for
    any number of factors (entries `j_k < o_k`) -/
theorem split_pair (is js os : List Nat) (h1 : is.length = os.length) (h2 : js.length = os.length)
    (hj : ∀ k, k < os.length → js.getD k 0 < os.getD k 0) :
    splitIdx (pairIdx is js os) os = (is, js) := by
  induction os generalizing is js with
  | nil =>
    cases is <;> cases js <;> simp_all [pairIdx, splitIdx]
  | cons o os ih =>
    cases is with
    | nil => simp at h1
    | cons i is =>
      cases js with
      | nil => simp at h2
      | cons j js =>
        have hj0 : j < o := by simpa using hj 0 (by simp)
        have := ih is js (by simpa using h1) (by simpa using h2) (fun k hk => by simpa using hj (k + 1) (by simpa using hk))
        simp only [pairIdx, splitIdx, this]
        have ho : 0 < o := by omega
        rw [Nat.mul_comm, Nat.mul_add_div ho, Nat.div_eq_of_lt hj0, Nat.mul_add_mod, Nat.mod_eq_of_lt hj0]
        simp

/-- **precondition of the Kronecker routines** (the test that commit 48c7831 un-inverted) -/
theorem kronOK_iff (ranks indims outdims : List Nat) :
    kronOK ranks indims outdims = true ↔ (∀ r ∈ ranks, r = 1) ∧ indims = outdims := by
  simp [kronOK, List.all_eq_true]

/-- a matrix of TT rank > 1 is rejected -/
theorem kron_rejects_rank (ranks indims outdims : List Nat) (r : Nat) (hr : r ∈ ranks) (h1 : r ≠ 1) :
    kronOK ranks indims outdims = false := by
  rw [Bool.eq_false_iff]; intro h
  exact h1 (((kronOK_iff _ _ _).mp h).1 r hr)

/-- non-square blocks are rejected -/
theorem kron_rejects_nonsquare (ranks indims outdims : List Nat) (h : indims ≠ outdims) :
    kronOK ranks indims outdims = false := by
  rw [Bool.eq_false_iff]; intro hk
  exact h ((kronOK_iff _ _ _).mp hk).2

section kron
variable {m n : Type} [Fintype m] [Fintype n] [DecidableEq m] [DecidableEq n] {K : Type} [CommRing K]

/-- **determinant**: `det *= det(block_k) ** (rows / size_k)` is the determinant of the Kronecker product -/
theorem det_two_blocks (A : Matrix m m K) (B : Matrix n n K) :
    det (A ⊗ₖ B) = det A ^ Fintype.card n * det B ^ Fintype.card m := det_kronecker A B

/-- **inverse**: the Kronecker product of the block inverses -/
theorem inv_two_blocks (A : Matrix m m K) (B : Matrix n n K) : (A ⊗ₖ B)⁻¹ = A⁻¹ ⊗ₖ B⁻¹ := inv_kronecker A B

/-- **Cholesky**: if `L_A L_Aᵀ = A` and `L_B L_Bᵀ = B` then `L_A ⊗ L_B` is a Cholesky-type factor of `A ⊗ B` -/
theorem cholesky_two_blocks (A LA : Matrix m m K) (B LB : Matrix n n K) (hA : LA * LAᵀ = A) (hB : LB * LBᵀ = B) :
    (LA ⊗ₖ LB) * (LA ⊗ₖ LB)ᵀ = A ⊗ₖ B := by
  rw [← hA, ← hB, mul_kronecker_mul, kroneckerMap_transpose]

/-- three blocks, right-nested: the code's product of powers -/
theorem det_three_blocks {p : Type} [Fintype p] [DecidableEq p] (A : Matrix m m K) (B : Matrix n n K) (C : Matrix p p K) :
    det (A ⊗ₖ (B ⊗ₖ C)) =
      det A ^ (Fintype.card n * Fintype.card p) * (det B ^ (Fintype.card p * Fintype.card m) * det C ^ (Fintype.card n * Fintype.card m)) := by
  rw [det_kronecker, det_kronecker, Fintype.card_prod, mul_pow, ← pow_mul, ← pow_mul]
end kron

/-! ### contractions against the decompressed matrix -/
section contractions
variable {R : Type} [CommSemiring R]

/-- **trace**: the left-to-right sweep `factor = einsum('i,iaaj->j', factor, core)` of `TTMatrix.trace()`
    returns the trace of the decompressed matrix, `Σ_{is} M[is, is]`, for any number of cores, any sizes
    and any TT ranks (square blocks, as the einsum `iaaj` requires; boundary ranks 1) -/
theorem trace_eq (m : TTMat R) (hwf : m.WF) (hsq : ∀ c ∈ m, c.inD = c.outD) :
    m.trace = boxSum m.inDims (fun is => m.entry is is) := by
  obtain ⟨hne, hch⟩ := hwf
  cases m with
  | nil => exact absurd rfl hne
  | cons c cs =>
    have h := traceGo_spec (c :: cs) 1 (FlatArr.tab 1 fun _ => 1) hch hsq
    simp only [TTMat.trace, h, Finset.sum_range_one, FlatArr.get_tab, one_mul]
    apply boxSum_congr; intro is
    exact (TTMat.entry_eq c cs is is hch.1).symm

example : (TTMat.WF ([⟨1, 2, 2, 3, fun a i j b => (a + i + 2 * j + b : Nat)⟩, ⟨3, 2, 2, 1, fun a i j b => (a * i + j + b : Nat)⟩] : TTMat Nat))
    ∧ ∀ c ∈ ([⟨1, 2, 2, 3, fun a i j b => (a + i + 2 * j + b : Nat)⟩, ⟨3, 2, 2, 1, fun a i j b => (a * i + j + b : Nat)⟩] : TTMat Nat),
        c.inD = c.outD := by
  simp [TTMat.WF, TTMat.chain]

/-- **tt_multiply, batch**: for a batch of `nb` row vectors `x` (flat, `nb × rows`), the flat result of
    `tt_multiply` at batch item `k` and column multi-index `js` is `Σ_{is} x[k, is] · M[is, js]` with `M` the
    decompressed matrix: `tt_multiply(ttm, x) = x @ ttm.torch()`.  Any number of cores ≥ 1, any sizes, any
    TT ranks (boundary ranks 1); the dimension hypotheses are the ones under which the `reshape(…, -1, …)`
    calls of the code are defined. -/
theorem tt_multiply_eq (m : TTMat R) (hwf : m.WF) (hpos : ∀ c ∈ m, 0 < c.inD ∧ 0 < c.rl)
    (nb : Nat) (x : Nat → R) (k : Nat) (hk : k < nb) (js : List Nat) (hjs : inShape js m.outDims) :
    m.multiply nb x (k * m.outDims.prod + flat js m.outDims) =
      boxSum m.inDims (fun is => x (k * m.inDims.prod + flat is m.inDims) * m.entry is js) := by
  obtain ⟨hne, hch⟩ := hwf
  cases m with
  | nil => exact absurd rfl hne
  | cons c cs => exact ttMultiply_spec c cs hch hpos nb x k hk js hjs

/-- **tt_multiply, one vector** (`x` reshaped to `1 × rows`): the result at column multi-index `js` is
    `Σ_{is} x[is] · M[is, js]` -/
theorem tt_multiply_vec (m : TTMat R) (hwf : m.WF) (hpos : ∀ c ∈ m, 0 < c.inD ∧ 0 < c.rl)
    (x : Nat → R) (js : List Nat) (hjs : inShape js m.outDims) :
    m.multiply 1 x (flat js m.outDims) = boxSum m.inDims (fun is => x (flat is m.inDims) * m.entry is js) := by
  have h := tt_multiply_eq m hwf hpos 1 x 0 (by omega) js hjs
  simpa using h

example : (TTMat.WF ([⟨1, 2, 3, 2, fun a i j b => (a + i + 2 * j + b : Nat)⟩, ⟨2, 3, 1, 1, fun a i j b => (a * i + j + b : Nat)⟩] : TTMat Nat))
    ∧ (∀ c ∈ ([⟨1, 2, 3, 2, fun a i j b => (a + i + 2 * j + b : Nat)⟩, ⟨2, 3, 1, 1, fun a i j b => (a * i + j + b : Nat)⟩] : TTMat Nat),
        0 < c.inD ∧ 0 < c.rl)
    ∧ inShape [2, 0] (TTMat.outDims ([⟨1, 2, 3, 2, fun a i j b => (a + i + 2 * j + b : Nat)⟩, ⟨2, 3, 1, 1, fun a i j b => (a * i + j + b : Nat)⟩] : TTMat Nat)) := by
  simp [TTMat.WF, TTMat.chain, TTMat.outDims, inShape]

/-- **cp_multiply, batch**: the flat result of `cp_multiply` at batch item `k`, column multi-index `js` is
    `Σ_{is} x[k, is] · M[is, js]` with `M` the decompressed CP matrix.  Any number of cores ≥ 1, any sizes,
    any common CP rank `rk ≥ 1`. -/
theorem cp_multiply_eq (rk : Nat) (hrk : 0 < rk) (m : CPMat R) (hwf : m.WF rk) (hpos : ∀ c ∈ m, 0 < c.inD)
    (nb : Nat) (x : Nat → R) (k : Nat) (hk : k < nb) (js : List Nat) (hjs : inShape js m.outDims) :
    m.multiply nb x (k * m.outDims.prod + flat js m.outDims) =
      boxSum m.inDims (fun is => x (k * m.inDims.prod + flat is m.inDims) * m.entry is js) := by
  obtain ⟨hne, hall⟩ := hwf
  cases m with
  | nil => exact absurd rfl hne
  | cons c cs => exact cpMultiply_spec rk hrk c cs (fun c' hc' => ⟨hall c' hc', hpos c' hc'⟩) nb x k hk js hjs

/-- **cp_multiply, one vector** -/
theorem cp_multiply_vec (rk : Nat) (hrk : 0 < rk) (m : CPMat R) (hwf : m.WF rk) (hpos : ∀ c ∈ m, 0 < c.inD)
    (x : Nat → R) (js : List Nat) (hjs : inShape js m.outDims) :
    m.multiply 1 x (flat js m.outDims) = boxSum m.inDims (fun is => x (flat is m.inDims) * m.entry is js) := by
  have h := cp_multiply_eq rk hrk m hwf hpos 1 x 0 (by omega) js hjs
  simpa using h

example : (CPMat.WF 2 ([⟨2, 3, 2, fun i j r => (i + 2 * j + r : Nat)⟩, ⟨3, 1, 2, fun i j r => (i * r + j : Nat)⟩] : CPMat Nat))
    ∧ (∀ c ∈ ([⟨2, 3, 2, fun i j r => (i + 2 * j + r : Nat)⟩, ⟨3, 1, 2, fun i j r => (i * r + j : Nat)⟩] : CPMat Nat), 0 < c.inD)
    ∧ inShape [2, 0] (CPMat.outDims ([⟨2, 3, 2, fun i j r => (i + 2 * j + r : Nat)⟩, ⟨3, 1, 2, fun i j r => (i * r + j : Nat)⟩] : CPMat Nat)) := by
  simp [CPMat.WF, CPMat.outDims, inShape]

/-! the same three statements against the dense matrix `torch()` returns (flat row / column positions) -/

/-- **trace, dense form**: `ttm.trace() = Σ_p M[p, p]` for `M = ttm.torch()` -/
theorem trace_eq_dense (m : TTMat R) (hwf : m.WF) (hsq : ∀ c ∈ m, c.inD = c.outD) :
    m.trace = ∑ p ∈ Finset.range m.inDims.prod, m.torch p p := by
  have ho : m.outDims = m.inDims := by
    simp only [TTMat.outDims, TTMat.inDims]
    exact List.map_congr_left (fun c hc => (hsq c hc).symm)
  rw [trace_eq m hwf hsq, boxSum_eq_sum_range]
  simp only [TTMat.torch, ho]

/-- **trace, left boundary rank > 1**: `einsum('i,iaaj->j', ones(1), core)` broadcasts the initial factor over
    the first core's left rank, so the sweep still returns the trace of the decompression (which sums the
    left boundary rank) when only the right boundary rank is 1 -/
theorem trace_eq_leftrank (c : Core4 R) (cs : TTMat R) (hch : TTMat.chain c.rl (c :: cs))
    (hsq : ∀ c' ∈ c :: cs, c'.inD = c'.outD) :
    TTMat.trace (c :: cs) = boxSum (TTMat.inDims (c :: cs)) (fun is => TTMat.entry (c :: cs) is is) := by
  have h := traceGo_spec (c :: cs) c.rl (FlatArr.tab 1 fun _ => 1) hch hsq
  simp only [TTMat.trace, h, FlatArr.get_tab, one_mul]
  rw [← boxSum_sum]
  apply boxSum_congr; intro is
  exact (TTMat.entry_eq_sum c cs is is).symm

/-- **tt_multiply, dense form**: `tt_multiply(ttm, x)[k, q] = Σ_p x[k, p] · M[p, q]` for `M = ttm.torch()`,
    i.e. `tt_multiply(ttm, x) = x @ ttm.torch()` entry by entry on the flat row-major data -/
theorem tt_multiply_dense (m : TTMat R) (hwf : m.WF) (hpos : ∀ c ∈ m, 0 < c.inD ∧ 0 < c.rl)
    (nb : Nat) (x : Nat → R) (k : Nat) (hk : k < nb) (q : Nat) (hq : q < m.outDims.prod) :
    m.multiply nb x (k * m.outDims.prod + q) =
      ∑ p ∈ Finset.range m.inDims.prod, x (k * m.inDims.prod + p) * m.torch p q := by
  obtain ⟨hin, hfl⟩ := unflat_spec m.outDims q hq
  have h := tt_multiply_eq m hwf hpos nb x k hk (unflat m.outDims q) hin
  rw [hfl] at h
  rw [h, boxSum_eq_sum_range]
  apply Finset.sum_congr rfl; intro p hp
  rw [(unflat_spec m.inDims p (Finset.mem_range.mp hp)).2]
  rfl

/-- **cp_multiply, dense form**: `cp_multiply(cpm, x) = x @ cpm.torch()` entry by entry -/
theorem cp_multiply_dense (rk : Nat) (hrk : 0 < rk) (m : CPMat R) (hwf : m.WF rk) (hpos : ∀ c ∈ m, 0 < c.inD)
    (nb : Nat) (x : Nat → R) (k : Nat) (hk : k < nb) (q : Nat) (hq : q < m.outDims.prod) :
    m.multiply nb x (k * m.outDims.prod + q) =
      ∑ p ∈ Finset.range m.inDims.prod, x (k * m.inDims.prod + p) * m.torch p q := by
  obtain ⟨hin, hfl⟩ := unflat_spec m.outDims q hq
  have h := cp_multiply_eq rk hrk m hwf hpos nb x k hk (unflat m.outDims q) hin
  rw [hfl] at h
  rw [h, boxSum_eq_sum_range]
  apply Finset.sum_congr rfl; intro p hp
  rw [(unflat_spec m.inDims p (Finset.mem_range.mp hp)).2]
  rfl

/-- the index maps of `torch()`'s final reshape are mutually inverse on the box -/
theorem unflat_flat_roundtrip (is ss : List Nat) (h : inShape is ss) : unflat ss (flat is ss) = is :=
  unflat_flat is ss h

end contractions

/-! ### determinant of any number of Kronecker blocks -/
section kronN
variable {K : Type} [CommRing K]

/-- **determinant, N blocks**: the loop of `TTMatrix.determinant`, `det *= det(block_k) ** (rows / n_k)` over all
    blocks, returns the determinant of the Kronecker product `A_0 ⊗ (A_1 ⊗ (… ⊗ A_{d-1}))`, for any number of
    square blocks of any sizes (generalises `det_two_blocks` / `det_three_blocks`) -/
theorem det_n_blocks (ns : List Nat) (bs : Blocks K ns) :
    kronDet (blockDets ns bs) = det (kronAll ns bs) := by
  have h := prod_blockDets ns bs 1
  simp only [kronDet, blockDets_fst, foldl_mul_pow, one_mul, pow_one] at h ⊢
  exact h

example : kronDet (blockDets [2, 1] ((!![1, 2; 3, 4] : Matrix (Fin 2) (Fin 2) ℤ), ((!![5] : Matrix (Fin 1) (Fin 1) ℤ), ()))) = -50 := by
  simp [kronDet, blockDets, powNat, Matrix.det_fin_two]

/-- **the Kronecker product is what an all-ranks-1 TT matrix decompresses to**: entry `(I, J)` of
    `A_0 ⊗ A_1 ⊗ …` with `A_k = cores[k][0, :, :, 0]` is `ttm.torch()` at the multi-indices `I`, `J` -/
theorem kron_entry (m : TTMat K) (hne : m ≠ []) (h : ∀ c ∈ m, c.rl = 1 ∧ c.rr = 1 ∧ c.inD = c.outD)
    (I J : KIdx m.inDims) :
    kronAll m.inDims (blocksOf m) I J = m.entry (KIdx.toList _ I) (KIdx.toList _ J) := by
  rw [kronAll_blocksOf m h I J]
  cases m with
  | nil => exact absurd rfl hne
  | cons c cs => exact (TTMat.entry_eq c cs _ _ (h c List.mem_cons_self).1).symm

/-- **`determinant()` of a Kronecker TT matrix**: for all ranks 1 and square blocks (what
    `_check_kron_properties` accepts), the loop's result is the determinant of the decompressed matrix -/
theorem determinant_eq (m : TTMat K) (hne : m ≠ []) (h : ∀ c ∈ m, c.rl = 1 ∧ c.rr = 1 ∧ c.inD = c.outD) :
    kronDet (blockDets m.inDims (blocksOf m)) =
      det (Matrix.of fun (I J : KIdx m.inDims) => m.entry (KIdx.toList _ I) (KIdx.toList _ J)) := by
  rw [det_n_blocks]
  congr 1
  ext I J
  exact kron_entry m hne h I J

example : (([⟨1, 2, 2, 1, fun _ i j _ => (i + 2 * j : ℤ)⟩, ⟨1, 3, 3, 1, fun _ i j _ => (i * j + 1 : ℤ)⟩] : TTMat ℤ) ≠ [])
    ∧ ∀ c ∈ ([⟨1, 2, 2, 1, fun _ i j _ => (i + 2 * j : ℤ)⟩, ⟨1, 3, 3, 1, fun _ i j _ => (i * j + 1 : ℤ)⟩] : TTMat ℤ),
        c.rl = 1 ∧ c.rr = 1 ∧ c.inD = c.outD := by
  simp

/-- **inverse, N blocks**: `inv()` inverts every block; the Kronecker product of the block inverses is the
    inverse of the Kronecker product, for any number of blocks -/
theorem inv_n_blocks (ns : List Nat) (bs : Blocks K ns) :
    kronAll ns (Blocks.map (fun _ A => A⁻¹) ns bs) = (kronAll ns bs)⁻¹ := (kronAll_inv ns bs).symm

/-- **Cholesky, N blocks**: if every `L_k` satisfies `L_k L_kᵀ = A_k` then the Kronecker product of the `L_k`
    is a Cholesky-type factor of the Kronecker product of the `A_k` (lower-triangularity of the product is
    not stated here) -/
theorem cholesky_n_blocks (ns : List Nat) (Ls As : Blocks K ns) (h : Blocks.cholRel ns Ls As) :
    kronAll ns Ls * (kronAll ns Ls)ᵀ = kronAll ns As := kronAll_chol ns Ls As h

end kronN

-- NOT YET PROVED (C19, remaining clauses)
-- * construction round trip: `TTMatrix(M, ranks, input_dims, output_dims).torch() = M` for sufficient ranks
--   (needs the TT-SVD of `tn.Tensor(tensor, ranks_tt=ranks)`; only the index interleaving `split_pair` is proved)
--   and the analogous statement for `CPMatrix` (ALS, no exact statement possible beyond the index maps).
-- * the batch form of `TTMatrix` (5-way cores `b × r × i × o × r'`): `trace` with `eq = "bi,biaaj->bj"`;
--   `tt_multiply` itself only accepts non-batch matrices (its einsum `lior` is 4-way).
-- * `slog_determinant`: `sign = Π sign(det A_k)^(rows/n_k)`, `logdet = Σ (rows/n_k)·log|det A_k|` equal
--   sign / log|·| of `det (kronAll ns bs)` (follows from `det_n_blocks` over an ordered field with `log`).
-- * `cholesky`: lower-triangularity (hence uniqueness) of the Kronecker product of lower-triangular factors
--   in the row-major order of `KIdx`; `cholesky_n_blocks` gives only `L Lᵀ = A`.

end TN.C19
