import TnVerif.Lemmas.Tools
import TnVerif.Lemmas.Broadcast
import TnVerif.Model.Anova
import Mathlib.Algebra.Field.Basic
import Mathlib.Tactic.FieldSimp
/-!
# C10 — ANOVA decomposition: terms sum to the function, are centred

`anova_decomposition` applies to every mode the `(I+1) × I` operator `A = [wᵀ; I − 1wᵀ]`
(row 0: weighted mean, row i+1: value minus weighted mean); `undo` applies `B` with `B·A = I`.
Any number of modes, sizes, ranks, formats; weights over a field.
-/
namespace TN.C10
open TN Finset
variable {R : Type} [Field R]

/-- the operator really is "mean" / "minus mean": row 0 integrates against the weights, row `i+1`
    evaluates at `i` and subtracts that integral -/
theorem anovaL_row (I : Nat) (wn g : Nat → R) (r : Nat) :
    (∑ j ∈ range I, anovaL I wn r j * g j) =
      if r = 0 then ∑ j ∈ range I, wn j * g j
      else (if r - 1 < I then g (r - 1) else 0) - ∑ j ∈ range I, wn j * g j := by
  by_cases hr : r = 0
  · simp [anovaL, hr]
  · simp only [anovaL, hr, if_false, add_mul, Finset.sum_add_distrib, neg_mul, Finset.sum_neg_distrib]
    have : (∑ j ∈ range I, (if j + 1 = r then (1 : R) else 0) * g j) = if r - 1 < I then g (r - 1) else 0 := by
      by_cases h : r - 1 < I
      · rw [Finset.sum_eq_single (r - 1)]
        · have : r - 1 + 1 = r := by omega
          simp [this, h]
        · intro j _ hj; have : ¬ j + 1 = r := by omega
          simp [this]
        · intro hh; exact absurd (Finset.mem_range.mpr h) hh
      · simp only [h, if_false]
        apply Finset.sum_eq_zero; intro j hj
        have := Finset.mem_range.mp hj
        have : ¬ j + 1 = r := by omega
        simp [this]
    rw [this]; ring

/-- `B · A = I` : undoing the decomposition on one mode is the identity (no condition on the weights) -/
theorem undo_anova_matrix (I : Nat) (wn : Nat → R) (i j : Nat) (hi : i < I) :
    (∑ r ∈ range (I + 1), undoL (R := R) i r * anovaL I wn r j) = if i = j then 1 else 0 := by
  simp only [undoL, add_mul, Finset.sum_add_distrib]
  rw [Finset.sum_eq_single (i + 1), Finset.sum_eq_single 0]
  · simp only [if_true, one_mul, anovaL]
    have : ¬ i + 1 = 0 := by omega
    simp only [this, if_false, if_true]
    by_cases hij : i = j
    · subst hij; simp
    · have : ¬ j + 1 = i + 1 := by omega
      have hji : ¬ j = i := fun h => hij h.symm
      simp [hij, hji]
  · intro r _ hr; simp [hr]
  · intro hh; exact absurd (Finset.mem_range.mpr (by omega)) hh
  · intro r _ hr; simp [hr]
  · intro hh; exact absurd (Finset.mem_range.mpr (by omega)) hh

/-- **centred terms**: the rows `1..I` of the operator have zero weighted mean when the weights sum to 1,
    so every ANOVA term has zero mean (under the marginals) along each of its own variables -/
theorem anova_centered (I : Nat) (wn : Nat → R) (hw : (∑ i ∈ range I, wn i) = 1) (j : Nat) (hj : j < I) :
    (∑ i ∈ range I, wn i * anovaL I wn (i + 1) j) = 0 := by
  have h0 : ∀ i, ¬ i + 1 = 0 := fun i => by omega
  simp only [anovaL, h0, if_false, mul_add, Finset.sum_add_distrib, mul_neg, Finset.sum_neg_distrib]
  rw [Finset.sum_eq_single j]
  · rw [← Finset.sum_mul, hw]; simp
  · intro i _ hi
    have : ¬ j = i := fun h => hi h.symm
    simp [this]
  · intro hh; exact absurd (Finset.mem_range.mpr hj) hh

/-- normalised weights sum to 1 (whenever the marginal does not sum to 0): supplying marginals that do
    not sum to 1 is the same as supplying their normalised version -/
theorem normW_sum (I : Nat) (w : Nat → R) (h : sumTo I w ≠ 0) : (∑ i ∈ range I, normW I w i) = 1 := by
  simp only [normW, div_eq_mul_inv]
  rw [← Finset.sum_mul, ← sumTo_eq, mul_inv_cancel₀ h]

/-- scaling a marginal vector does not change the decomposition -/
theorem normW_scale (I : Nat) (w : Nat → R) (c : R) (hc : c ≠ 0) (i : Nat) :
    normW I (fun k => c * w k) i = normW I w i := by
  simp only [normW, sumTo_eq, ← Finset.mul_sum]
  by_cases h : (∑ k ∈ range I, w k) = 0
  · simp [h]
  · field_simp

/-- the code-level routine realises the operator on the semantic mode -/
theorem toMode_anova (wn : Nat → R) (m : TMode R) :
    (m.anova wn).toMode = Mode.lin (m.n + 1) (anovaL m.n wn) m.toMode := by
  obtain ⟨c, U⟩ := m
  cases U with
  | some U =>
    have := toMode_spatialLin (U.rows + 1) (anovaL U.rows wn) (TMode.mk c (some U))
    simpa [TMode.anova, TMode.spatialLin, TMode.n] using this
  | none =>
    apply Mode.ext'
    · simp [TMode.anova, Mode.lin]
    · simp [TMode.anova, Mode.lin]
    · simp [TMode.anova, Mode.lin, TMode.n]
    · intro i a b
      simp [TMode.anova, Mode.lin, TMode.toMode_G, Fac.apply_get, sumTo_eq, TMode.n]

/-- **the extended tensor**: `anova_decomposition` applies the operator mode by mode to the dense array —
    index 0 along a mode integrates it out against the marginal, index `i+1` evaluates at `i` and
    subtracts that integral (combine with `anovaL_row`) -/
theorem anova_dense (t : Tensor R) : ∀ (ws : List (Nat → R)) (idx : List Nat), ws.length = t.length → idx.length = t.length →
    (t.anova ws).dense idx =
      applyMaps (List.zipWith (fun w (m : TMode R) => some (m.n + 1, anovaL m.n (normW m.n w))) ws t) t.shape t.dense idx := by
  intro ws idx hw hi
  have hm : (t.anova ws).modes = (t.linModes (List.zipWith (fun w (m : TMode R) => some (m.n + 1, anovaL m.n (normW m.n w))) ws t)).modes := by
    clear hi idx
    induction t generalizing ws with
    | nil => cases ws <;> rfl
    | cons m ms ih =>
      cases ws with
      | nil => simp at hw
      | cons w ws =>
        simp only [Tensor.anova, Tensor.modes, List.map_cons, List.zipWith_cons_cons, Tensor.linModes, toMode_anova,
          toMode_spatialLin, List.cons.injEq, true_and]
        exact ih ws (by simpa using hw)
  unfold Tensor.dense
  rw [hm]
  exact dense_linModes t _ idx (by simp [hw]) hi


/-! ### tensor level: `undo_anova_decomposition ∘ anova_decomposition = id` -/

/-- mode-by-mode left inverses -/
def LeftInv : List (Option (Nat × (Nat → Nat → R))) → List (Option (Nat × (Nat → Nat → R))) → List Nat → Prop
  | some (_, B) :: Bs, some (_, A) :: As, n :: ns =>
      (∀ i, i < n → ∀ j, j < n → (∑ r ∈ range (n + 1), B i r * A r j) = if i = j then 1 else 0) ∧ LeftInv Bs As ns
  | [], [], [] => True
  | _, _, _ => False

theorem applyMaps_leftInv : ∀ (Bs As : List (Option (Nat × (Nat → Nat → R)))) (ns : List Nat) (f : List Nat → R) (is : List Nat),
    LeftInv Bs As ns → inShape is ns →
    applyMaps Bs (ns.map (· + 1)) (applyMaps As ns f) is = f is := by
  intro Bs
  induction Bs with
  | nil =>
    intro As ns f is h hi
    cases As with
    | nil => cases ns with
      | nil => cases is with
        | nil => simp [applyMaps]
        | cons _ _ => simp [inShape] at hi
      | cons _ _ => simp [LeftInv] at h
    | cons _ _ => simp [LeftInv] at h
  | cons Bo Bs ih =>
    intro As ns f is h hi
    cases Bo with
    | none => simp [LeftInv] at h
    | some Bp =>
      obtain ⟨rb, B⟩ := Bp
      cases As with
      | nil => simp [LeftInv] at h
      | cons Ao As =>
        cases Ao with
        | none => simp [LeftInv] at h
        | some Ap =>
          obtain ⟨ra, A⟩ := Ap
          cases ns with
          | nil => simp [LeftInv] at h
          | cons n ns =>
            cases is with
            | nil => simp [inShape] at hi
            | cons i is =>
              obtain ⟨hinv, hrest⟩ := h
              obtain ⟨hi0, hi'⟩ := hi
              simp only [List.map_cons, applyMaps]
              have e : ∀ r ∈ range (n + 1),
                  B i r * applyMaps Bs (ns.map (· + 1)) (fun js => ∑ j ∈ range n, A r j * applyMaps As ns (fun ks => f (j :: ks)) js) is
                    = ∑ j ∈ range n, (B i r * A r j) * f (j :: is) := by
                intro r _
                rw [applyMaps_linear Bs (ns.map (· + 1)) is n (fun j => A r j) (fun j js => applyMaps As ns (fun ks => f (j :: ks)) js),
                  Finset.mul_sum]
                apply Finset.sum_congr rfl; intro j _
                rw [ih As ns (fun ks => f (j :: ks)) is hrest hi']; ring
              rw [Finset.sum_congr rfl e, Finset.sum_comm]
              have e2 : ∀ j ∈ range n, (∑ r ∈ range (n + 1), B i r * A r j * f (j :: is)) = (if i = j then 1 else 0) * f (j :: is) := by
                intro j hj; rw [← Finset.sum_mul, hinv i hi0 j (Finset.mem_range.mp hj)]
              rw [Finset.sum_congr rfl e2, Finset.sum_eq_single i]
              · simp
              · intro j _ hne; simp [Ne.symm hne]
              · intro hh; exact absurd (Finset.mem_range.mpr hi0) hh

theorem applyMaps_congr_len : ∀ (ls : List (Option (Nat × (Nat → Nat → R)))) (ns is : List Nat) (f g : List Nat → R),
    ls.length = ns.length → is.length = ns.length → (∀ js, js.length = ns.length → f js = g js) →
    applyMaps ls ns f is = applyMaps ls ns g is := by
  intro ls
  induction ls with
  | nil =>
    intro ns is f g hl hi h
    have hn : ns = [] := List.length_eq_zero_iff.mp hl.symm
    subst hn
    have : is = [] := List.length_eq_zero_iff.mp hi
    subst this
    simpa [applyMaps] using h [] rfl
  | cons l ls ih =>
    intro ns is f g hl hi h
    cases ns with
    | nil => simp at hl
    | cons n ns =>
      cases is with
      | nil => simp at hi
      | cons i is =>
        cases l with
        | none =>
          simp only [applyMaps]
          exact ih ns is _ _ (by simpa using hl) (by simpa using hi) (fun js hj => h (i :: js) (by simp [hj]))
        | some p =>
          obtain ⟨rows, L⟩ := p
          simp only [applyMaps]
          apply Finset.sum_congr rfl; intro j _
          rw [ih ns is _ _ (by simpa using hl) (by simpa using hi) (fun js hj => h (j :: js) (by simp [hj]))]

theorem anova_n (wn : Nat → R) (m : TMode R) : (m.anova wn).n = m.n + 1 := by
  obtain ⟨c, U⟩ := m
  cases U <;> simp [TMode.anova, TMode.n, Fac.lmul]

theorem anova_shape (t : Tensor R) : ∀ (ws : List (Nat → R)), ws.length = t.length → (t.anova ws).shape = t.shape.map (· + 1) := by
  induction t with
  | nil => intro ws _; cases ws <;> rfl
  | cons m ms ih =>
    intro ws hw
    cases ws with
    | nil => simp at hw
    | cons w ws =>
      simp only [Tensor.anova, Tensor.shape, List.map_cons, anova_n, List.cons.injEq, true_and]
      exact ih ws (by simpa using hw)

theorem undoAnova_linModes (a : Tensor R) : a.undoAnova = a.linModes (a.map fun m => some (m.n - 1, undoL)) := by
  induction a with
  | nil => rfl
  | cons m ms ih => simp only [Tensor.undoAnova, List.map_cons, Tensor.linModes] at ih ⊢; rw [ih]; rfl

theorem leftInv_anova (t : Tensor R) : ∀ (ws : List (Nat → R)), ws.length = t.length →
    LeftInv ((t.anova ws).map fun m => some (m.n - 1, undoL))
      (List.zipWith (fun w (m : TMode R) => some (m.n + 1, anovaL m.n (normW m.n w))) ws t) t.shape := by
  induction t with
  | nil => intro ws _; cases ws <;> simp [Tensor.anova, LeftInv, Tensor.shape]
  | cons m ms ih =>
    intro ws hw
    cases ws with
    | nil => simp at hw
    | cons w ws =>
      simp only [Tensor.anova, List.map_cons, List.zipWith_cons_cons, Tensor.shape, LeftInv]
      exact ⟨fun i hi j _ => undo_anova_matrix m.n _ i j hi, ih ws (by simpa using hw)⟩

/-- **`undo_anova_decomposition(anova_decomposition(t)) = t`** on the dense arrays, for every format, any marginals -/
theorem undo_anova_dense (t : Tensor R) (ws : List (Nat → R)) (idx : List Nat) (hw : ws.length = t.length)
    (hidx : inShape idx t.shape) : ((t.anova ws).undoAnova).dense idx = t.dense idx := by
  have hlen : ∀ (is ss : List Nat), inShape is ss → is.length = ss.length := by
    intro is
    induction is with
    | nil => intro ss h; cases ss with
      | nil => rfl
      | cons _ _ => simp [inShape] at h
    | cons i is ih => intro ss h; cases ss with
      | nil => simp [inShape] at h
      | cons s ss => simp [ih ss h.2]
  have hil : idx.length = t.length := by rw [hlen idx t.shape hidx]; simp [Tensor.shape]
  have hal : (t.anova ws).length = t.length := by
    have := congrArg List.length (anova_shape t ws hw); simpa [Tensor.shape] using this
  rw [undoAnova_linModes]
  unfold Tensor.dense
  rw [dense_linModes (t.anova ws) _ idx (by simp) (by rw [hal, hil]), anova_shape t ws hw]
  rw [applyMaps_congr_len _ (t.shape.map (· + 1)) idx (fun js => dense (t.anova ws).modes js)
    (applyMaps (List.zipWith (fun w (m : TMode R) => some (m.n + 1, anovaL m.n (normW m.n w))) ws t) t.shape t.dense)
    (by simp [hal, Tensor.shape]) (by simp [hil, Tensor.shape])
    (fun js hj => anova_dense t ws js hw (by simpa [Tensor.shape] using hj))]
  exact applyMaps_leftInv _ _ t.shape t.dense idx (leftInv_anova t ws hw) hidx

end TN.C10
