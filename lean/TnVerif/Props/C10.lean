import TnVerif.Lemmas.Tools
import TnVerif.Lemmas.Broadcast
import TnVerif.Model.Anova
import TnVerif.Lemmas.TruncAnova
import TnVerif.Props.C06
import TnVerif.Props.C20
import Mathlib.Algebra.Field.Basic
import Mathlib.Tactic.FieldSimp
/-!
# C10 — ANOVA decomposition: terms sum to the function, are centred

`anova_decomposition` applies to every mode the `(I+1) × I` operator `A = [wᵀ; I − 1wᵀ]`
(row 0: weighted mean, row i+1: value minus weighted mean); `undo` applies `B` with `B·A = I`.
Any number of modes, sizes, ranks, formats; weights over a field.
-/
namespace TN.C10
open TN Finset
variable {R : Type} [Field R]

/-- the operator really is "mean" / "minus mean": row 0 integrates against the weights, row `i+1`
    evaluates at `i` and subtracts that integral -/
theorem anovaL_row (I : Nat) (wn g : Nat → R) (r : Nat) :
    (∑ j ∈ range I, anovaL I wn r j * g j) =
      if r = 0 then ∑ j ∈ range I, wn j * g j
      else (if r - 1 < I then g (r - 1) else 0) - ∑ j ∈ range I, wn j * g j := by
  by_cases hr : r = 0
  · simp [anovaL, hr]
  · simp only [anovaL, hr, if_false, add_mul, Finset.sum_add_distrib, neg_mul, Finset.sum_neg_distrib]
    have : (∑ j ∈ range I, (if j + 1 = r then (1 : R) else 0) * g j) = if r - 1 < I then g (r - 1) else 0 := by
      by_cases h : r - 1 < I
      · rw [Finset.sum_eq_single (r - 1)]
        · have : r - 1 + 1 = r := by omega
          simp [this, h]
        · intro j _ hj; have : ¬ j + 1 = r := by omega
          simp [this]
        · intro hh; exact absurd (Finset.mem_range.mpr h) hh
      · simp only [h, if_false]
        apply Finset.sum_eq_zero; intro j hj
        have := Finset.mem_range.mp hj
        have : ¬ j + 1 = r := by omega
        simp [this]
    rw [this]; ring

/-- `B · A = I` : undoing the decomposition on one mode is the identity (no condition on the weights) -/
theorem undo_anova_matrix (I : Nat) (wn : Nat → R) (i j : Nat) (hi : i < I) :
    (∑ r ∈ range (I + 1), undoL (R := R) i r * anovaL I wn r j) = if i = j then 1 else 0 := by
  simp only [undoL, add_mul, Finset.sum_add_distrib]
  rw [Finset.sum_eq_single (i + 1), Finset.sum_eq_single 0]
  · simp only [if_true, one_mul, anovaL]
    have : ¬ i + 1 = 0 := by omega
    simp only [this, if_false, if_true]
    by_cases hij : i = j
    · subst hij; simp
    · have : ¬ j + 1 = i + 1 := by omega
      have hji : ¬ j = i := fun h => hij h.symm
      simp [hij, hji]
  · intro r _ hr; simp [hr]
  · intro hh; exact absurd (Finset.mem_range.mpr (by omega)) hh
  · intro r _ hr; simp [hr]
  · intro hh; exact absurd (Finset.mem_range.mpr (by omega)) hh

/-- **centred terms**: the rows `1..I` of the operator have zero weighted mean when the weights sum to 1,
    so every ANOVA term has zero mean (under the marginals) along each of its own variables -/
theorem anova_centered (I : Nat) (wn : Nat → R) (hw : (∑ i ∈ range I, wn i) = 1) (j : Nat) (hj : j < I) :
    (∑ i ∈ range I, wn i * anovaL I wn (i + 1) j) = 0 := by
  have h0 : ∀ i, ¬ i + 1 = 0 := fun i => by omega
  simp only [anovaL, h0, if_false, mul_add, Finset.sum_add_distrib, mul_neg, Finset.sum_neg_distrib]
  rw [Finset.sum_eq_single j]
  · rw [← Finset.sum_mul, hw]; simp
  · intro i _ hi
    have : ¬ j = i := fun h => hi h.symm
    simp [this]
  · intro hh; exact absurd (Finset.mem_range.mpr hj) hh

/-- normalised weights sum to 1 (whenever the marginal does not sum to 0): supplying marginals that do
    not sum to 1 is the same as supplying their normalised version -/
theorem normW_sum (I : Nat) (w : Nat → R) (h : sumTo I w ≠ 0) : (∑ i ∈ range I, normW I w i) = 1 := by
  simp only [normW, div_eq_mul_inv]
  rw [← Finset.sum_mul, ← sumTo_eq, mul_inv_cancel₀ h]

/-- scaling a marginal vector does not change the decomposition -/
theorem normW_scale (I : Nat) (w : Nat → R) (c : R) (hc : c ≠ 0) (i : Nat) :
    normW I (fun k => c * w k) i = normW I w i := by
  simp only [normW, sumTo_eq, ← Finset.mul_sum]
  by_cases h : (∑ k ∈ range I, w k) = 0
  · simp [h]
  · field_simp

/-- the code-level routine realises the operator on the semantic mode -/
theorem toMode_anova (wn : Nat → R) (m : TMode R) :
    (m.anova wn).toMode = Mode.lin (m.n + 1) (anovaL m.n wn) m.toMode := by
  obtain ⟨c, U⟩ := m
  cases U with
  | some U =>
    have := toMode_spatialLin (U.rows + 1) (anovaL U.rows wn) (TMode.mk c (some U))
    simpa [TMode.anova, TMode.spatialLin, TMode.n] using this
  | none =>
    apply Mode.ext'
    · simp [TMode.anova, Mode.lin]
    · simp [TMode.anova, Mode.lin]
    · simp [TMode.anova, Mode.lin, TMode.n]
    · intro i a b
      simp [TMode.anova, Mode.lin, TMode.toMode_G, Fac.apply_get, sumTo_eq, TMode.n]

/-- **the extended tensor**: `anova_decomposition` applies the operator mode by mode to the dense array —
    index 0 along a mode integrates it out against the marginal, index `i+1` evaluates at `i` and
    subtracts that integral (combine with `anovaL_row`) -/
theorem anova_dense (t : Tensor R) : ∀ (ws : List (Nat → R)) (idx : List Nat), ws.length = t.length → idx.length = t.length →
    (t.anova ws).dense idx =
      applyMaps (List.zipWith (fun w (m : TMode R) => some (m.n + 1, anovaL m.n (normW m.n w))) ws t) t.shape t.dense idx := by
  intro ws idx hw hi
  have hm : (t.anova ws).modes = (t.linModes (List.zipWith (fun w (m : TMode R) => some (m.n + 1, anovaL m.n (normW m.n w))) ws t)).modes := by
    clear hi idx
    induction t generalizing ws with
    | nil => cases ws <;> rfl
    | cons m ms ih =>
      cases ws with
      | nil => simp at hw
      | cons w ws =>
        simp only [Tensor.anova, Tensor.modes, List.map_cons, List.zipWith_cons_cons, Tensor.linModes, toMode_anova,
          toMode_spatialLin, List.cons.injEq, true_and]
        exact ih ws (by simpa using hw)
  unfold Tensor.dense
  rw [hm]
  exact dense_linModes t _ idx (by simp [hw]) hi


/-! ### tensor level: `undo_anova_decomposition ∘ anova_decomposition = id` -/

/-- mode-by-mode left inverses -/
def LeftInv : List (Option (Nat × (Nat → Nat → R))) → List (Option (Nat × (Nat → Nat → R))) → List Nat → Prop
  | some (_, B) :: Bs, some (_, A) :: As, n :: ns =>
      (∀ i, i < n → ∀ j, j < n → (∑ r ∈ range (n + 1), B i r * A r j) = if i = j then 1 else 0) ∧ LeftInv Bs As ns
  | [], [], [] => True
  | _, _, _ => False

theorem applyMaps_leftInv : ∀ (Bs As : List (Option (Nat × (Nat → Nat → R)))) (ns : List Nat) (f : List Nat → R) (is : List Nat),
    LeftInv Bs As ns → inShape is ns →
    applyMaps Bs (ns.map (· + 1)) (applyMaps As ns f) is = f is := by
  intro Bs
  induction Bs with
  | nil =>
    intro As ns f is h hi
    cases As with
    | nil => cases ns with
      | nil => cases is with
        | nil => simp [applyMaps]
        | cons _ _ => simp [inShape] at hi
      | cons _ _ => simp [LeftInv] at h
    | cons _ _ => simp [LeftInv] at h
  | cons Bo Bs ih =>
    intro As ns f is h hi
    cases Bo with
    | none => simp [LeftInv] at h
    | some Bp =>
      obtain ⟨rb, B⟩ := Bp
      cases As with
      | nil => simp [LeftInv] at h
      | cons Ao As =>
        cases Ao with
        | none => simp [LeftInv] at h
        | some Ap =>
          obtain ⟨ra, A⟩ := Ap
          cases ns with
          | nil => simp [LeftInv] at h
          | cons n ns =>
            cases is with
            | nil => simp [inShape] at hi
            | cons i is =>
              obtain ⟨hinv, hrest⟩ := h
              obtain ⟨hi0, hi'⟩ := hi
              simp only [List.map_cons, applyMaps]
              have e : ∀ r ∈ range (n + 1),
                  B i r * applyMaps Bs (ns.map (· + 1)) (fun js => ∑ j ∈ range n, A r j * applyMaps As ns (fun ks => f (j :: ks)) js) is
                    = ∑ j ∈ range n, (B i r * A r j) * f (j :: is) := by
                intro r _
                rw [applyMaps_linear Bs (ns.map (· + 1)) is n (fun j => A r j) (fun j js => applyMaps As ns (fun ks => f (j :: ks)) js),
                  Finset.mul_sum]
                apply Finset.sum_congr rfl; intro j _
                rw [ih As ns (fun ks => f (j :: ks)) is hrest hi']; ring
              rw [Finset.sum_congr rfl e, Finset.sum_comm]
              have e2 : ∀ j ∈ range n, (∑ r ∈ range (n + 1), B i r * A r j * f (j :: is)) = (if i = j then 1 else 0) * f (j :: is) := by
                intro j hj; rw [← Finset.sum_mul, hinv i hi0 j (Finset.mem_range.mp hj)]
              rw [Finset.sum_congr rfl e2, Finset.sum_eq_single i]
              · simp
              · intro j _ hne; simp [Ne.symm hne]
              · intro hh; exact absurd (Finset.mem_range.mpr hi0) hh

theorem applyMaps_congr_len : ∀ (ls : List (Option (Nat × (Nat → Nat → R)))) (ns is : List Nat) (f g : List Nat → R),
    ls.length = ns.length → is.length = ns.length → (∀ js, js.length = ns.length → f js = g js) →
    applyMaps ls ns f is = applyMaps ls ns g is := by
  intro ls
  induction ls with
  | nil =>
    intro ns is f g hl hi h
    have hn : ns = [] := List.length_eq_zero_iff.mp hl.symm
    subst hn
    have : is = [] := List.length_eq_zero_iff.mp hi
    subst this
    simpa [applyMaps] using h [] rfl
  | cons l ls ih =>
    intro ns is f g hl hi h
    cases ns with
    | nil => simp at hl
    | cons n ns =>
      cases is with
      | nil => simp at hi
      | cons i is =>
        cases l with
        | none =>
          simp only [applyMaps]
          exact ih ns is _ _ (by simpa using hl) (by simpa using hi) (fun js hj => h (i :: js) (by simp [hj]))
        | some p =>
          obtain ⟨rows, L⟩ := p
          simp only [applyMaps]
          apply Finset.sum_congr rfl; intro j _
          rw [ih ns is _ _ (by simpa using hl) (by simpa using hi) (fun js hj => h (j :: js) (by simp [hj]))]

theorem anova_n (wn : Nat → R) (m : TMode R) : (m.anova wn).n = m.n + 1 := by
  obtain ⟨c, U⟩ := m
  cases U <;> simp [TMode.anova, TMode.n, Fac.lmul]

theorem anova_shape (t : Tensor R) : ∀ (ws : List (Nat → R)), ws.length = t.length → (t.anova ws).shape = t.shape.map (· + 1) := by
  induction t with
  | nil => intro ws _; cases ws <;> rfl
  | cons m ms ih =>
    intro ws hw
    cases ws with
    | nil => simp at hw
    | cons w ws =>
      simp only [Tensor.anova, Tensor.shape, List.map_cons, anova_n, List.cons.injEq, true_and]
      exact ih ws (by simpa using hw)

theorem undoAnova_linModes (a : Tensor R) : a.undoAnova = a.linModes (a.map fun m => some (m.n - 1, undoL)) := by
  induction a with
  | nil => rfl
  | cons m ms ih => simp only [Tensor.undoAnova, List.map_cons, Tensor.linModes] at ih ⊢; rw [ih]; rfl

theorem leftInv_anova (t : Tensor R) : ∀ (ws : List (Nat → R)), ws.length = t.length →
    LeftInv ((t.anova ws).map fun m => some (m.n - 1, undoL))
      (List.zipWith (fun w (m : TMode R) => some (m.n + 1, anovaL m.n (normW m.n w))) ws t) t.shape := by
  induction t with
  | nil => intro ws _; cases ws <;> simp [Tensor.anova, LeftInv, Tensor.shape]
  | cons m ms ih =>
    intro ws hw
    cases ws with
    | nil => simp at hw
    | cons w ws =>
      simp only [Tensor.anova, List.map_cons, List.zipWith_cons_cons, Tensor.shape, LeftInv]
      exact ⟨fun i hi j _ => undo_anova_matrix m.n _ i j hi, ih ws (by simpa using hw)⟩

/-- **`undo_anova_decomposition(anova_decomposition(t)) = t`** on the dense arrays, for every format, any marginals -/
theorem undo_anova_dense (t : Tensor R) (ws : List (Nat → R)) (idx : List Nat) (hw : ws.length = t.length)
    (hidx : inShape idx t.shape) : ((t.anova ws).undoAnova).dense idx = t.dense idx := by
  have hlen : ∀ (is ss : List Nat), inShape is ss → is.length = ss.length := by
    intro is
    induction is with
    | nil => intro ss h; cases ss with
      | nil => rfl
      | cons _ _ => simp [inShape] at h
    | cons i is ih => intro ss h; cases ss with
      | nil => simp [inShape] at h
      | cons s ss => simp [ih ss h.2]
  have hil : idx.length = t.length := by rw [hlen idx t.shape hidx]; simp [Tensor.shape]
  have hal : (t.anova ws).length = t.length := by
    have := congrArg List.length (anova_shape t ws hw); simpa [Tensor.shape] using this
  rw [undoAnova_linModes]
  unfold Tensor.dense
  rw [dense_linModes (t.anova ws) _ idx (by simp) (by rw [hal, hil]), anova_shape t ws hw]
  rw [applyMaps_congr_len _ (t.shape.map (· + 1)) idx (fun js => dense (t.anova ws).modes js)
    (applyMaps (List.zipWith (fun w (m : TMode R) => some (m.n + 1, anovaL m.n (normW m.n w))) ws t) t.shape t.dense)
    (by simp [hal, Tensor.shape]) (by simp [hil, Tensor.shape])
    (fun js hj => anova_dense t ws js hw (by simpa [Tensor.shape] using hj))]
  exact applyMaps_leftInv _ _ t.shape t.dense idx (leftInv_anova t ws hw) hidx

/-! ## `truncate_anova`, the single terms, orthogonality (extension) -/

/-- `anova_decomposition` keeps the chain of bond sizes and the factor/core compatibility -/
theorem anova_WFfrom (t : Tensor R) : ∀ (ws : List (Nat → R)) (p : Nat), ws.length = t.length → Tensor.WFfrom p t →
    Tensor.WFfrom p (t.anova ws) := by
  induction t with
  | nil => intro ws p _ _; cases ws <;> trivial
  | cons m ms ih =>
    intro ws p hw h
    cases ws with
    | nil => simp at hw
    | cons w ws =>
      obtain ⟨h1, h2, h3⟩ := h
      obtain ⟨c, U⟩ := m
      cases U with
      | none =>
        refine ⟨h1, ?_, ih ws _ (by simpa using hw) h3⟩
        simp [TMode.anova, TMode.ok, TMode.n]
      | some U =>
        refine ⟨h1, ?_, ih ws _ (by simpa using hw) h3⟩
        simpa [TMode.anova, TMode.ok, Fac.lmul] using h2

/-- `anova_decomposition` returns a well-formed tensor -/
theorem anova_WF (t : Tensor R) (ws : List (Nat → R)) (hw : ws.length = t.length) (ht : t.WF) : (t.anova ws).WF := by
  cases t with
  | nil => exact absurd ht (by simp [Tensor.WF])
  | cons m ms =>
    cases ws with
    | nil => simp at hw
    | cons w ws =>
      have := anova_WFfrom (m :: ms) (w :: ws) _ hw ht
      obtain ⟨c, U⟩ := m
      cases U <;> exact this

/-- the per-mode operators of `anova_dense`, written with the normalised marginals `anovaNormWs` -/
theorem anovaOps_zipWith (t : Tensor R) : ∀ (ws : List (Nat → R)),
    List.zipWith (fun w (m : TMode R) => some (m.n + 1, anovaL m.n (normW m.n w))) ws t =
      anovaOps (anovaNormWs ws t.shape) t.shape := by
  induction t with
  | nil => intro ws; cases ws <;> simp [anovaOps, anovaNormWs, Tensor.shape]
  | cons m ms ih =>
    intro ws
    cases ws with
    | nil => simp [anovaOps, anovaNormWs]
    | cons w ws =>
      have := ih ws
      simp only [anovaNormWs, Tensor.shape] at this
      simp only [List.zipWith_cons_cons, Tensor.shape, List.map_cons, anovaNormWs, anovaOps, this]

/-- the index of a term in the extended array has one entry per mode -/
theorem anovaExtIdx_length : ∀ (S x : List Nat), S.length = x.length → (anovaExtIdx S x).length = x.length := by
  intro S
  induction S with
  | nil => intro x h; cases x with
    | nil => rfl
    | cons _ _ => simp at h
  | cons b S ih =>
    intro x h
    cases x with
    | nil => simp at h
    | cons x0 xs => simp [anovaExtIdx, ih xs (by simpa using h)]

/-- the entries of the ANOVA-extended tensor are the ANOVA terms of the dense array: at the index that has
    `x_n + 1` on the modes of the subset `S` and `0` elsewhere stands the term of `S` at `x` -/
theorem anova_dense_term (t : Tensor R) (ws : List (Nat → R)) (S x : List Nat) (hw : ws.length = t.length)
    (hS : S.length = t.length) (hx : x.length = t.length) :
    (t.anova ws).dense (anovaExtIdx S x) = anovaTerm (anovaNormWs ws t.shape) t.shape t.dense S x := by
  rw [anova_dense t ws _ hw (by rw [anovaExtIdx_length S x (by rw [hS, hx]), hx]), anovaOps_zipWith]
  rfl

/-- `undo_anova_decomposition` removes one slice from every mode -/
theorem undoAnova_shape (a : Tensor R) : a.undoAnova.shape = a.shape.map (· - 1) := by
  induction a with
  | nil => rfl
  | cons m ms ih =>
    simp only [Tensor.undoAnova, Tensor.shape, List.map_cons, List.map_map] at ih ⊢
    simp only [TMode.undoAnova, spatialLin_n_sq, Function.comp_def]

/-- the annotation `idxs` of the extended tensor has one label per slice (`[0] + [1] * I`) -/
theorem anovaIdxs_lengths (ns : List Nat) : (anovaIdxs ns).map List.length = ns.map (· + 1) := by
  simp [anovaIdxs, List.map_map, Function.comp_def]

/-- `truncate_anova(t, mask, keepdim=True, marginals)` in terms of the entries of the extended array: the result is
    a well-formed tensor of the shape of `t` whose entry at `x` is the sum over all subsets `S` of the mask's entry
    at `S` times the entry of the ANOVA-extended array at (`x_n + 1` on `S`, `0` elsewhere) -/
theorem truncate_anova_terms (t mask : Tensor R) (ws : List (Nat → R)) (ht : t.WF) (hm : mask.WF)
    (hw : ws.length = t.length) (hml : mask.length = t.length) (hpos : ∀ n ∈ mask.shape, 0 < n) :
    (t.truncateAnovaKeep mask ws).WF ∧ (t.truncateAnovaKeep mask ws).shape = t.shape ∧
    ∀ x, inShape x t.shape →
      (t.truncateAnovaKeep mask ws).dense x =
        boxSum (List.replicate t.length 2) (fun S =>
          mask.dense (anovaClamp mask.shape S) * anovaTerm (anovaNormWs ws t.shape) t.shape t.dense S x) := by
  have ha := anova_WF t ws hw ht
  have hsa := anova_shape t ws hw
  have hal : (t.anova ws).length = t.length := by
    have := congrArg List.length hsa; simpa [Tensor.shape] using this
  obtain ⟨w1, w2, w3⟩ := C20.maskWith_dense (t.anova ws) mask (anovaIdxs t.shape) ha hm
    (by simp [anovaIdxs, Tensor.shape, hml]) (by rw [anovaIdxs_lengths, hsa]) hpos
  set am := (t.anova ws).maskWith (anovaIdxs t.shape) mask with ham
  have hu : t.truncateAnovaKeep mask ws = am.linModes (am.map fun m => some (m.n - 1, undoL)) := by
    rw [← undoAnova_linModes]; rfl
  have haml : am.length = t.length := by
    have := congrArg List.length w2; simp only [Tensor.shape, List.length_map] at this; rw [this, hal]
  refine ⟨?_, ?_, ?_⟩
  · rw [hu]; exact WF_linModes_dv _ am w1
  · show am.undoAnova.shape = t.shape
    rw [undoAnova_shape, w2, hsa, List.map_map]
    simp [Function.comp_def]
  · intro x hx
    have hxl : x.length = t.length := by rw [inShape_length x t.shape hx, shape_length]
    rw [hu]
    unfold Tensor.dense
    rw [dense_linModes am _ x (by simp) (by rw [haml, hxl])]
    have hks : (am.map fun m => some (m.n - 1, undoL (R := R))) =
        ((am.shape.map (· - 1)).map fun k => some (k, undoL (R := R))) := by
      simp [Tensor.shape, List.map_map, Function.comp_def]
    rw [hks, w2, hsa, applyMaps_undoL _ t.shape _ x (by simp) hx, shape_length]
    apply boxSum_congr_inShape
    intro S hS
    have hSl : S.length = t.length := ((anova_inShape_two S t.length).mp hS).1
    have hel : (anovaExtIdx S x).length = (t.anova ws).length := by
      rw [anovaExtIdx_length S x (by rw [hSl, hxl]), hxl, hal]
    have := w3 (anovaExtIdx S x) hel
    simp only [Tensor.dense] at this
    rw [this]
    have h2 := anova_dense_term t ws S x hw hSl hxl
    simp only [Tensor.dense] at h2
    rw [h2, clampLabels_anova t.shape mask.shape S x (by rw [shape_length, shape_length, hml]) (by rw [shape_length, hSl]) hx]
    exact mul_comm _ _


/-- **the extended array holds the brute-force terms**: the entry of `anova_decomposition(t, marginals)` at the
    index of subset `S` and point `x` is `f_S(x) = Σ_{T ⊆ S} (−1)^{|S|−|T|} E[f | x_T]`, the inclusion–exclusion
    formula evaluated on the dense array `f` of `t` under the product of the normalised marginals -/
theorem anova_term_bruteforce (t : Tensor R) (ws : List (Nat → R)) (S x : List Nat) (hw : ws.length = t.length)
    (hS : S.length = t.length) (hx : inShape x t.shape) :
    (t.anova ws).dense (anovaExtIdx S x) = anovaProj (anovaNormWs ws t.shape) t.shape t.dense S x := by
  have hxl : x.length = t.length := by rw [inShape_length x t.shape hx, shape_length]
  rw [anova_dense_term t ws S x hw hS hxl,
    anovaTerm_eq_proj _ _ _ S x (by simp [anovaNormWs, shape_length, hw]) (by rw [shape_length, hS]) hx]

/-- **`truncate_anova(t, mask, keepdim=True, marginals)`**: the result is a well-formed tensor of the shape of `t`
    whose entry at `x` is the sum, over all subsets `S` of variables, of the mask's entry at `S` (its 0/1 labels,
    clamped to the mask's sizes) times the brute-force ANOVA term
    `f_S(x) = Σ_{T ⊆ S} (−1)^{|S|−|T|} E[f | x_T]` of the dense array `f` under the normalised marginals:
    truncating keeps exactly the terms the mask selects, with the mask's weights.
    Any number of modes, sizes, ranks, formats; any marginals; any mask values. -/
theorem truncate_anova_dense (t mask : Tensor R) (ws : List (Nat → R)) (ht : t.WF) (hm : mask.WF)
    (hw : ws.length = t.length) (hml : mask.length = t.length) (hpos : ∀ n ∈ mask.shape, 0 < n) :
    (t.truncateAnovaKeep mask ws).WF ∧ (t.truncateAnovaKeep mask ws).shape = t.shape ∧
    ∀ x, inShape x t.shape →
      (t.truncateAnovaKeep mask ws).dense x =
        boxSum (List.replicate t.length 2) (fun S =>
          mask.dense (anovaClamp mask.shape S) * anovaProj (anovaNormWs ws t.shape) t.shape t.dense S x) := by
  obtain ⟨h1, h2, h3⟩ := truncate_anova_terms t mask ws ht hm hw hml hpos
  refine ⟨h1, h2, fun x hx => ?_⟩
  rw [h3 x hx]
  apply boxSum_congr_inShape
  intro S hS
  have hSl : S.length = t.length := ((anova_inShape_two S t.length).mp hS).1
  rw [anovaTerm_eq_proj _ _ _ S x (by simp [anovaNormWs, shape_length, hw]) (by rw [shape_length, hSl]) hx]

/-- the same for a mask over the 2-symbol box (`tn.symbols`, `tn.only`, …): the weight of the term of `S` is the
    mask's entry at `S` -/
theorem truncate_anova_dense_box (t mask : Tensor R) (ws : List (Nat → R)) (ht : t.WF) (hm : mask.WF)
    (hw : ws.length = t.length) (hsh : mask.shape = List.replicate t.length 2) (x : List Nat) (hx : inShape x t.shape) :
    (t.truncateAnovaKeep mask ws).dense x =
      boxSum (List.replicate t.length 2) (fun S =>
        mask.dense S * anovaProj (anovaNormWs ws t.shape) t.shape t.dense S x) := by
  have hml : mask.length = t.length := by
    have := congrArg List.length hsh; simpa [Tensor.shape] using this
  rw [(truncate_anova_dense t mask ws ht hm hw hml (by rw [hsh]; intro n hn; rw [List.eq_of_mem_replicate hn]; decide)).2.2 x hx]
  apply boxSum_congr_inShape
  intro S hS
  obtain ⟨hSl, hSb⟩ := (anova_inShape_two S t.length).mp hS
  rw [hsh, ← hSl, anovaClamp_two S hSb]

/-! ### the laws of the single terms, at the level of the extended tensor -/

/-- **a term depends only on its own variables**: the entry of the extended tensor for the subset `S` is the same
    at two points that agree on the variables of `S` -/
theorem anova_term_depends_only (t : Tensor R) (ws : List (Nat → R)) (S x x' : List Nat) (hl : x.length = x'.length)
    (h : ∀ k, S.getD k 0 ≠ 0 → x.getD k 0 = x'.getD k 0) :
    (t.anova ws).dense (anovaExtIdx S x) = (t.anova ws).dense (anovaExtIdx S x') := by
  rw [anovaExtIdx_agree S x x' hl h]

/-- **a term has zero mean along each of its own variables**: for a variable (position `pre.length`) that belongs
    to `S`, the mean of the term over that variable, weighted by its normalised marginal, vanishes — whatever the
    other coordinates `pre`, `post` are -/
theorem anova_term_centered (t : Tensor R) (ws : List (Nat → R)) (S pre post : List Nat) (hw : ws.length = t.length)
    (hS : S.length = t.length) (hlen : pre.length + 1 + post.length = t.length) (hk : S.getD pre.length 0 ≠ 0)
    (hsum : sumTo (t.shape.getD pre.length 0) (ws.getD pre.length (fun _ => 0)) ≠ 0) :
    (∑ i ∈ range (t.shape.getD pre.length 0),
      normW (t.shape.getD pre.length 0) (ws.getD pre.length (fun _ => 0)) i *
        (t.anova ws).dense (anovaExtIdx S (pre ++ i :: post))) = 0 := by
  have hkl : pre.length < t.length := by omega
  have hg := anovaNormWs_getD ws t.shape pre.length (by omega) (by rw [shape_length]; exact hkl)
  have := anovaTerm_centered_at pre (anovaNormWs ws t.shape) t.shape t.dense S post hk
    (by rw [hg]; exact normW_sum _ _ hsum)
  rw [hg] at this
  refine Eq.trans ?_ this
  apply Finset.sum_congr rfl; intro i _
  rw [anova_dense_term t ws S (pre ++ i :: post) hw hS (by simp; omega)]

/-- **the empty term is the constant mean**: the entry of the extended tensor at the all-zero index is the mean of
    the dense array under the product of the normalised marginals -/
theorem anova_empty_term (t : Tensor R) (ws : List (Nat → R)) (hw : ws.length = t.length) :
    (t.anova ws).dense (List.replicate t.length 0) =
      boxSum t.shape (fun y => anovaProdW (anovaNormWs ws t.shape) y * t.dense y) := by
  have h1 := anova_dense_term t ws (List.replicate t.length 0) (List.replicate t.length 0) hw (by simp) (by simp)
  rw [anovaExtIdx_zero t.length _ (by simp)] at h1
  rw [h1]
  have := anovaTerm_empty (anovaNormWs ws t.shape) t.shape t.dense (List.replicate t.length 0)
    (anovaNormWs_length ws t.shape (by rw [shape_length, hw])) (by simp [shape_length])
  rw [shape_length] at this
  exact this

/-- **the terms sum to the function**: adding the entries of the extended tensor over all subsets gives the
    entry of `t` -/
theorem anova_terms_sum (t : Tensor R) (ws : List (Nat → R)) (x : List Nat) (hw : ws.length = t.length)
    (hx : inShape x t.shape) :
    boxSum (List.replicate t.length 2) (fun S => (t.anova ws).dense (anovaExtIdx S x)) = t.dense x := by
  have hxl : x.length = t.length := by rw [inShape_length x t.shape hx, shape_length]
  have := anovaTerm_sum_all (anovaNormWs ws t.shape) t.shape t.dense x
    (anovaNormWs_length ws t.shape (by rw [shape_length, hw])) hx
  rw [shape_length] at this
  rw [← this]
  apply boxSum_congr_inShape
  intro S hS
  exact anova_dense_term t ws S x hw ((anova_inShape_two S t.length).mp hS).1 hxl

/-- **distinct terms are orthogonal** under the product of the normalised marginals: for two different subsets
    (0/1 lists) `Σ_x W(x) · f_S(x) · f_S'(x) = 0` — any number of modes and sizes, any marginals with non-zero sums -/
theorem anova_terms_orthogonal (t : Tensor R) (ws : List (Nat → R)) (S S' : List Nat)
    (hok : anovaMargOK ws t.shape) (hS : inShape S (List.replicate t.length 2))
    (hS' : inShape S' (List.replicate t.length 2)) (hne : S ≠ S') :
    boxSum t.shape (fun x => anovaProdW (anovaNormWs ws t.shape) x *
      ((t.anova ws).dense (anovaExtIdx S x) * (t.anova ws).dense (anovaExtIdx S' x))) = 0 := by
  have hw : ws.length = t.length := by rw [anovaMargOK_length ws t.shape hok, shape_length]
  obtain ⟨hSl, hSb⟩ := (anova_inShape_two S t.length).mp hS
  obtain ⟨hSl', hSb'⟩ := (anova_inShape_two S' t.length).mp hS'
  rw [← anovaTerm_orthogonal (anovaNormWs ws t.shape) t.shape t.dense t.dense S S' (anovaNormalized_normWs ws t.shape hok)
    (by rw [shape_length, hSl]) (by rw [shape_length, hSl']) (fun h => hne (anovaBits_eq S S' hSb hSb' h))]
  apply boxSum_congr_inShape
  intro x hx
  have hxl : x.length = t.length := by rw [inShape_length x t.shape hx, shape_length]
  rw [anova_dense_term t ws S x hw hSl hxl, anova_dense_term t ws S' x hw hSl' hxl]

/-! ### truncation keeps exactly the selected terms -/

/-- **selecting every term returns the tensor**: with a mask over the 2-symbol box whose entries are all 1,
    `truncate_anova` reproduces `t` -/
theorem truncate_all (t mask : Tensor R) (ws : List (Nat → R)) (ht : t.WF) (hm : mask.WF)
    (hw : ws.length = t.length) (hsh : mask.shape = List.replicate t.length 2)
    (hone : ∀ S, inShape S mask.shape → mask.dense S = 1) (x : List Nat) (hx : inShape x t.shape) :
    (t.truncateAnovaKeep mask ws).dense x = t.dense x := by
  rw [truncate_anova_dense_box t mask ws ht hm hw hsh x hx, ← anova_terms_sum t ws x hw hx]
  apply boxSum_congr_inShape
  intro S hS
  rw [hone S (by rw [hsh]; exact hS), one_mul,
    anova_term_bruteforce t ws S x hw ((anova_inShape_two S t.length).mp hS).1 hx]

/-- **the ANOVA decomposition of the truncated tensor has exactly the selected terms**: its term of the subset `S'`
    is the mask's entry at `S'` times the term of `t` — for a 0/1 mask the selected terms are kept unchanged and
    all others vanish -/
theorem truncate_keeps_selected (t mask : Tensor R) (ws : List (Nat → R)) (ht : t.WF) (hm : mask.WF)
    (hok : anovaMargOK ws t.shape) (hsh : mask.shape = List.replicate t.length 2)
    (S' x : List Nat) (hS' : inShape S' (List.replicate t.length 2)) (hx : inShape x t.shape) :
    ((t.truncateAnovaKeep mask ws).anova ws).dense (anovaExtIdx S' x) =
      mask.dense S' * (t.anova ws).dense (anovaExtIdx S' x) := by
  have hw : ws.length = t.length := by rw [anovaMargOK_length ws t.shape hok, shape_length]
  have hml : mask.length = t.length := by
    have := congrArg List.length hsh; simpa [Tensor.shape] using this
  obtain ⟨u1, u2, u3⟩ := truncate_anova_terms t mask ws ht hm hw hml
    (by rw [hsh]; intro n hn; rw [List.eq_of_mem_replicate hn]; decide)
  set u := t.truncateAnovaKeep mask ws with hu
  have hul : u.length = t.length := by
    have := congrArg List.length u2; simpa [Tensor.shape] using this
  have hxl : x.length = t.length := by rw [inShape_length x t.shape hx, shape_length]
  obtain ⟨hSl', hSb'⟩ := (anova_inShape_two S' t.length).mp hS'
  have hWl := anovaNormWs_length ws t.shape (by rw [shape_length, hw])
  rw [anova_dense_term u ws S' x (by rw [hw, hul]) (by rw [hSl', hul]) (by rw [hxl, hul]), u2,
    anova_dense_term t ws S' x hw hSl' hxl]
  rw [anovaTerm_congr_in (anovaNormWs ws t.shape) t.shape u.dense
    (fun y => boxSum (List.replicate t.length 2) (fun S =>
      mask.dense (anovaClamp mask.shape S) * anovaTerm (anovaNormWs ws t.shape) t.shape t.dense S y)) S' x
    hWl (by rw [shape_length, hSl']) (by rw [shape_length, hxl]) u3]
  rw [anovaTerm_boxSum]
  rw [anova_boxSum_single (List.replicate t.length 2) S' _ hS']
  · rw [anovaTerm_idem _ _ _ S' S' x (anovaNormalized_normWs ws t.shape hok) (by rw [shape_length, hSl'])
      (by rw [shape_length, hSl']) hx, if_pos rfl, hsh, ← hSl', anovaClamp_two S' hSb']
  · intro S hS hne
    obtain ⟨hSl, hSb⟩ := (anova_inShape_two S t.length).mp hS
    rw [anovaTerm_idem _ _ _ S S' x (anovaNormalized_normWs ws t.shape hok) (by rw [shape_length, hSl])
      (by rw [shape_length, hSl']) hx, if_neg (fun h => hne (anovaBits_eq S S' hSb hSb' h)), mul_zero]

/-! ### `keepdim=False`: the modes no selected term involves are indexed away -/

/-- the indexing `u[0 at the flagged modes, : elsewhere]` (what `truncate_anova` does with `slices`): it never fails
    when the flagged modes are not empty; if every mode is flagged the result is the scalar entry at `(0,…,0)`,
    otherwise a well-formed tensor whose shape is that of `u` with the flagged modes deleted and whose entries are
    those of `u` with index `0` re-inserted at the deleted modes -/
theorem truncAnova_getitem (u : Tensor R) (hu : u.WF) (dims : List Bool) (hd : dims.length = u.length)
    (h1 : truncFlaggedPos dims u.shape) :
    (dims.all id = true → u.getitem (squeezeKey dims) = .ok (.inr (u.dense (List.replicate u.length 0)))) ∧
    (dims.all id = false → ∃ v : Tensor R, u.getitem (squeezeKey dims) = .ok (.inl v) ∧ v.WF ∧
      v.shape = keepShape dims u.shape ∧
      ∀ out, out.length = v.length → v.dense out = u.dense (fillIdx dims out)) := by
  have hp : processKey u.length (squeezeKey dims) = .ok (squeezeKey dims) := by
    rw [← hd]; exact processKey_squeeze dims
  have hsl : dims.length = u.shape.length := by rw [shape_length]; exact hd
  have hn : normKey (squeezeKey dims) u.shape = .ok (sqItems dims u.shape) := truncAnova_normKey dims u.shape hsl h1
  obtain ⟨lastRR, hfin⟩ := getitem_unfold u _ _ _ hp hn
  obtain ⟨r, hr1, hr2, hr3⟩ := goKey_sq (R := R) lastRR dims u false Option.none hd
  have hwfr : ∀ m l, r.1 = m :: l → Tensor.WF (m :: l) := by
    intro m l hml
    cases u with
    | nil => exact absurd hu (by simp [Tensor.WF])
    | cons m0 rest =>
      have := (goKey_sq_wf lastRR dims (m0 :: rest) false Option.none m0.core.rl r hd hu (by intro q hq; cases hq) hr1).1
      rw [hml] at this
      simp only [rowdim] at this
      exact ⟨rfl, this.2.1, this.2.2⟩
  rw [← groupKey_sq] at hr1
  have hg := hfin r hr1
  have hkl := keepShape_length dims u.shape hsl
  constructor
  · intro hall
    have hks := (keepShape_eq_nil dims u.shape hsl).mpr hall
    have hk : r.1 = [] := by rw [hks] at hr2; simpa [Tensor.shape] using hr2
    have hkc : keepCount dims = 0 := by rw [← hkl, hks]; rfl
    have hne : dims ≠ [] := by
      intro h; subst h
      cases u with
      | nil => simp [Tensor.WF] at hu
      | cons _ _ => simp at hd
    obtain ⟨l, q⟩ := r
    simp only at hk; subst hk
    have hq := hr3 rfl (Or.inr hne)
    cases q with
    | none => simp at hq
    | some q =>
      simp only [finishKey] at hg
      have hf : fits (groupKey (sqItems dims u.shape)) u.length 0 := by
        rw [groupKey_sq, ← hd, ← hkc]; exact fits_sq dims u.shape hsl
      have hx := C03.getitem_scalar u hu _ _ _ hp hn q.total hg hf
      rw [hg, hx, groupKey_sq, srcIdx_sq dims u.shape [] hsl (by simp [hkc]), fillIdx_all dims hall, hd]
  · intro hnot
    have hks : keepShape dims u.shape ≠ [] := by
      intro h; have := (keepShape_eq_nil dims u.shape hsl).mp h; rw [this] at hnot; cases hnot
    obtain ⟨l, q⟩ := r
    cases l with
    | nil => exact absurd hr2.symm hks
    | cons m l =>
      simp only [finishKey] at hg
      refine ⟨m :: l, hg, hwfr m l rfl, hr2, ?_⟩
      intro out ho
      have hol : out.length = keepCount dims := by
        rw [ho, ← hkl, ← hr2, shape_length]
      have hf : fits (groupKey (sqItems dims u.shape)) u.length out.length := by
        rw [groupKey_sq, ← hd, hol]; exact fits_sq dims u.shape hsl
      rw [C03.getitem_tensor u hu _ _ _ hp hn m l hg out hf, groupKey_sq, srcIdx_sq dims u.shape out hsl hol]

/-- with `keepdim=True` the routine returns the tensor of `truncate_anova_dense` as it is -/
theorem truncate_anova_keepdim (toNat : R → Nat) (t mask : Tensor R) (ws : List (Nat → R)) :
    t.truncateAnova toNat mask true ws = some (.inl (t.truncateAnovaKeep mask ws)) := by
  simp [Tensor.truncateAnova]

/-- **`truncate_anova(t, mask, keepdim=False, marginals)`** for a mask with non-negative integer entries `v`
    (in particular a 0/1 mask), `toNat` being the rounding inside `accepted_inputs`:
    * the modes that are dropped are exactly those that no selected subset (index of a non-zero mask entry)
      contains;
    * nothing raises; if every mode is dropped the result is the scalar entry `(0,…,0)` of the `keepdim=True`
      result, otherwise it is a well-formed tensor whose shape is that of `t` without the dropped modes and whose
      entries are those of the `keepdim=True` result, read at index `0` along the dropped modes. -/
theorem truncate_anova_squeeze (toNat : R → Nat) (htn : ∀ n : Nat, toNat (n : R) = n)
    (t mask : Tensor R) (ws : List (Nat → R)) (ht : t.WF) (hm : mask.WF) (hw : ws.length = t.length)
    (hml : mask.length = t.length) (hposm : ∀ n ∈ mask.shape, 0 < n) (hpost : ∀ n ∈ t.shape, 0 < n)
    (hb : mask.tt.boundaryOne = true) (v : List Nat → Nat)
    (hv : ∀ idx, inShape idx mask.shape → mask.dense idx = (v idx : R))
    (dims : List Bool) (hdims : dims = droppedModes (colSums t.length (acceptedSpec mask.shape v))) :
    (∀ k, dims.getD k false = true ↔
      k < t.length ∧ ∀ idx, inShape idx mask.shape → v idx ≠ 0 → idx.getD k 0 = 0) ∧
    (dims.all id = true → t.truncateAnova toNat mask false ws =
      some (.inr ((t.truncateAnovaKeep mask ws).dense (List.replicate t.length 0)))) ∧
    (dims.all id = false → ∃ r : Tensor R, t.truncateAnova toNat mask false ws = some (.inl r) ∧ r.WF ∧
      r.shape = keepShape dims t.shape ∧
      ∀ out, out.length = r.length → r.dense out = (t.truncateAnovaKeep mask ws).dense (fillIdx dims out)) := by
  obtain ⟨u1, u2, _⟩ := truncate_anova_terms t mask ws ht hm hw hml hposm
  have hul : (t.truncateAnovaKeep mask ws).length = t.length := by
    have := congrArg List.length u2; simpa [Tensor.shape] using this
  have hacc := C16.accepted_inputs_spec_any toNat htn mask hm hb v hv
  have hrun : t.truncateAnova toNat mask false ws =
      match (t.truncateAnovaKeep mask ws).getitem (squeezeKey dims) with
      | .ok r => some r
      | .error _ => Option.none := by
    simp only [Tensor.truncateAnova, Tensor.truncateAnovaSqueeze, Bool.false_eq_true, if_false, hacc, hul, hdims]
    rfl
  have hdl : dims.length = (t.truncateAnovaKeep mask ws).length := by
    rw [hdims, droppedModes_colSums_length, hul]
  obtain ⟨g1, g2⟩ := truncAnova_getitem (t.truncateAnovaKeep mask ws) u1 dims hdl
    (truncFlaggedPos_of_pos dims _ (by rw [u2]; exact hpost))
  refine ⟨?_, ?_, ?_⟩
  · intro k
    rw [hdims, droppedModes_colSums_getD]
    constructor
    · rintro ⟨h1, h2⟩
      exact ⟨h1, fun idx hi hvi => h2 idx ((mem_acceptedSpec _ _ idx).mpr ⟨hi, hvi⟩)⟩
    · rintro ⟨h1, h2⟩
      refine ⟨h1, fun r hr => ?_⟩
      obtain ⟨hi, hvi⟩ := (mem_acceptedSpec _ _ r).mp hr
      exact h2 r hi hvi
  · intro hall
    rw [hrun, g1 hall, hul]
  · intro hnot
    obtain ⟨r, h1, h2, h3, h4⟩ := g2 hnot
    exact ⟨r, by rw [hrun, h1], h2, by rw [h3, u2], h4⟩

/-- **the dropped modes are really constant**: for a mask over the 2-symbol box with non-negative integer entries,
    the `keepdim=True` result does not depend on a variable that no selected subset contains — so indexing it at `0`
    (what `keepdim=False` does) loses nothing -/
theorem truncate_anova_dropped_constant (t mask : Tensor R) (ws : List (Nat → R)) (ht : t.WF) (hm : mask.WF)
    (hw : ws.length = t.length) (hsh : mask.shape = List.replicate t.length 2) (v : List Nat → Nat)
    (hv : ∀ idx, inShape idx mask.shape → mask.dense idx = (v idx : R))
    (x x' : List Nat) (hx : inShape x t.shape) (hx' : inShape x' t.shape)
    (hagree : ∀ k, (∃ idx, inShape idx mask.shape ∧ v idx ≠ 0 ∧ idx.getD k 0 ≠ 0) → x.getD k 0 = x'.getD k 0) :
    (t.truncateAnovaKeep mask ws).dense x = (t.truncateAnovaKeep mask ws).dense x' := by
  have hml : mask.length = t.length := by
    have := congrArg List.length hsh; simpa [Tensor.shape] using this
  obtain ⟨_, _, u3⟩ := truncate_anova_terms t mask ws ht hm hw hml
    (by rw [hsh]; intro n hn; rw [List.eq_of_mem_replicate hn]; decide)
  have hxl : x.length = t.length := by rw [inShape_length x t.shape hx, shape_length]
  have hxl' : x'.length = t.length := by rw [inShape_length x' t.shape hx', shape_length]
  rw [u3 x hx, u3 x' hx']
  apply boxSum_congr_inShape
  intro S hS
  obtain ⟨hSl, hSb⟩ := (anova_inShape_two S t.length).mp hS
  rw [hsh, ← hSl, anovaClamp_two S hSb]
  by_cases h0 : v S = 0
  · rw [hv S (by rw [hsh]; exact hS), h0]; simp
  · congr 1
    unfold anovaTerm
    rw [anovaExtIdx_agree S x x' (by rw [hxl, hxl'])
      (fun k hk => hagree k ⟨S, by rw [hsh]; exact hS, h0, hk⟩)]


/-! ### non-vacuity: `C06.exQ` (shape `[2, 2]`, TT core with a Tucker factor, then a CP factor, over ℚ), the masks
    `only(x₀)` (entry 1 at the subset `{0}` only) and "all terms", marginals `(1, 2)` and `(3, 1)` -/
section nonvacuous

/-- the 0/1 mask over the 2-symbol box that selects the subset `{0}` only (`tn.only(x[0])` for two variables) -/
def exMask : Tensor ℚ :=
  [ { core := .tt 1 2 1 (fun _ j _ => if j = 1 then 1 else 0), U := Option.none },
    { core := .tt 1 2 1 (fun _ j _ => if j = 0 then 1 else 0), U := Option.none } ]
/-- its entries as naturals -/
def exMaskV : List Nat → Nat
  | [1, 0] => 1 | _ => 0
/-- the mask that selects every term -/
def exOnes : Tensor ℚ :=
  [ { core := .tt 1 2 1 (fun _ _ _ => 1), U := Option.none }, { core := .tt 1 2 1 (fun _ _ _ => 1), U := Option.none } ]
/-- marginals (not normalised) -/
def exWs : List (Nat → ℚ) := [fun i => (i : ℚ) + 1, fun i => 3 - 2 * (i : ℚ)]

theorem exMask_wf : exMask.WF := by simp [exMask, Tensor.WF, Tensor.WFfrom, TMode.ok, Core.rl, Core.rr]
theorem exOnes_wf : exOnes.WF := by simp [exOnes, Tensor.WF, Tensor.WFfrom, TMode.ok, Core.rl, Core.rr]
theorem exMask_shape : exMask.shape = List.replicate C06.exQ.length 2 := by
  simp [exMask, C06.exQ, Tensor.shape, TMode.n, Core.spatial, List.replicate]
theorem exOnes_shape : exOnes.shape = List.replicate C06.exQ.length 2 := by
  simp [exOnes, C06.exQ, Tensor.shape, TMode.n, Core.spatial, List.replicate]
theorem exWs_ok : anovaMargOK exWs C06.exQ.shape := by
  simp [anovaMargOK, exWs, C06.exQ, Tensor.shape, TMode.n, sumTo]; norm_num
theorem exMask_vals : ∀ idx, inShape idx exMask.shape → exMask.dense idx = (exMaskV idx : ℚ) := by
  intro idx h
  match idx, h with
  | [i, j], h =>
    simp only [exMask, Tensor.shape, List.map_cons, List.map_nil, TMode.n, Core.spatial, inShape] at h
    obtain ⟨hi, hj, _⟩ := h
    have h1 : i = 0 ∨ i = 1 := by omega
    have h2 : j = 0 ∨ j = 1 := by omega
    rcases h1 with rfl | rfl <;> rcases h2 with rfl | rfl <;>
      simp [exMask, exMaskV, Tensor.dense, Tensor.modes, TMode.toMode, TN.dense, tail, sumTo, TMode.decomp, Core.get,
        Core.rl, Core.rr]
theorem exOnes_vals : ∀ S, inShape S exOnes.shape → exOnes.dense S = 1 := by
  intro idx h
  match idx, h with
  | [i, j], h =>
    simp [exOnes, Tensor.dense, Tensor.modes, TMode.toMode, TN.dense, tail, sumTo, TMode.decomp, Core.get,
      Core.rl, Core.rr]

example := truncate_anova_dense C06.exQ exMask exWs C06.exQ_wf exMask_wf rfl rfl
  (by rw [exMask_shape]; intro n hn; rw [List.eq_of_mem_replicate hn]; decide)
example := truncate_anova_dense_box C06.exQ exMask exWs C06.exQ_wf exMask_wf rfl exMask_shape [1, 0]
  (by simp [C06.exQ, Tensor.shape, TMode.n, inShape])
example := anova_term_bruteforce C06.exQ exWs [1, 0] [1, 1] rfl rfl (by simp [C06.exQ, Tensor.shape, TMode.n, inShape])
example := anova_term_depends_only C06.exQ exWs [1, 0] [1, 0] [1, 1] rfl
  (by intro k hk; match k with
    | 0 => rfl
    | 1 => simp at hk
    | k + 2 => simp at hk)
example := anova_term_centered C06.exQ exWs [1, 0] [] [1] rfl rfl rfl (by simp)
  (by simp [exWs, C06.exQ, Tensor.shape, TMode.n, sumTo]; norm_num)
example := anova_empty_term C06.exQ exWs rfl
example := anova_terms_sum C06.exQ exWs [1, 1] rfl (by simp [C06.exQ, Tensor.shape, TMode.n, inShape])
example := anova_terms_orthogonal C06.exQ exWs [1, 0] [1, 1] exWs_ok (by simp [C06.exQ, inShape, List.replicate])
  (by simp [C06.exQ, inShape, List.replicate]) (by decide)
example := truncate_all C06.exQ exOnes exWs C06.exQ_wf exOnes_wf rfl exOnes_shape exOnes_vals [0, 1]
  (by simp [C06.exQ, Tensor.shape, TMode.n, inShape])
example := truncate_keeps_selected C06.exQ exMask exWs C06.exQ_wf exMask_wf exWs_ok exMask_shape [1, 0] [0, 1]
  (by simp [C06.exQ, inShape, List.replicate]) (by simp [C06.exQ, Tensor.shape, TMode.n, inShape])
example := truncate_anova_squeeze (fun q : ℚ => q.num.toNat) (by intro n; simp) C06.exQ exMask exWs C06.exQ_wf exMask_wf
  rfl rfl (by rw [exMask_shape]; intro n hn; rw [List.eq_of_mem_replicate hn]; decide) C06.exQ_pos
  (by rw [tt_of_pure _ (by rfl)]; rfl) exMaskV exMask_vals _ rfl
example := truncate_anova_dropped_constant C06.exQ exMask exWs C06.exQ_wf exMask_wf rfl exMask_shape exMaskV exMask_vals

end nonvacuous

end TN.C10
