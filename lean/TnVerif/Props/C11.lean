import TnVerif.Lemmas.Assign
import TnVerif.Props.C02
/-!
# C11 — assignment into a compressed tensor equals assignment into the dense array

`t[key] = value` is modelled by `Tensor.setitem`: `this - (this restricted to the region) + (value
embedded in zeros)`, where `this` is `t` with its Tucker factors absorbed.  The theorems: every
selected entry takes the new value, every other entry is unchanged — for every number of modes,
sizes, ranks, formats, keys (as normalised selections `start + i·step, i < count`), and by induction
for every finite history of assignments.
-/
namespace TN.C11
open TN Finset
variable {R : Type} [CommRing R]

/-- **core statement**: subtracting the restriction and adding any tensor `A` that is `val` on the
    region and `0` elsewhere performs the assignment. -/
theorem assign_core (this A : Tensor R) (sels : List Sel) (hw : this.WF) (hn : noFac this)
    (hs : sels.length = this.length) (hA : A.WF) (hAs : A.shape = this.shape) (val : List Nat → R)
    (hAd : ∀ idx, idx.length = this.length → A.dense idx = (if allMem sels idx then 1 else 0) * val idx)
    (idx : List Nat) (hi : idx.length = this.length) :
    ((this.sub (restrictT sels this)).add A).dense idx = if allMem sels idx then val idx else this.dense idx := by
  have hne : this ≠ [] := by intro h; subst h; simp [Tensor.WF] at hw
  have hRw : (restrictT sels this).WF := by
    cases this with
    | nil => exact absurd rfl hne
    | cons m ms =>
      cases sels with
      | nil => simp at hs
      | cons s ss =>
        have := WFfrom_restrictT (m :: ms) (s :: ss) _ hs hw
        exact WF_of_WFfrom _ _ this (by simp [restrictT])
  have hRs : this.shape = (restrictT sels this).shape := (shape_restrictT this sels hs hn).symm
  have hsub_ws : (this.sub (restrictT sels this)).WF ∧ (this.sub (restrictT sels this)).shape = this.shape := by
    unfold Tensor.sub Tensor.neg
    exact C02.add_wf_shape this _ hw (WF_scalarMul _ _ _ hRw) (by rw [shape_scalarMul]; exact hRs)
  rw [C02.add_dense _ _ hsub_ws.1 hA (by rw [hsub_ws.2, hAs]), C02.sub_dense _ _ hw hRw hRs idx hi, hAd idx hi]
  have : (restrictT sels this).dense idx = (if allMem sels idx then 1 else 0) * this.dense idx :=
    dense_restrictT this sels idx hn hs hi
  rw [this]
  by_cases h : allMem sels idx <;> simp [h]

/-- the result of an assignment is again a well-formed tensor of the same shape (so assignments compose) -/
theorem assign_core_wf (this A : Tensor R) (sels : List Sel) (hw : this.WF) (hn : noFac this)
    (hs : sels.length = this.length) (hA : A.WF) (hAs : A.shape = this.shape) :
    ((this.sub (restrictT sels this)).add A).WF ∧ ((this.sub (restrictT sels this)).add A).shape = this.shape := by
  have hne : this ≠ [] := by intro h; subst h; simp [Tensor.WF] at hw
  have hRw : (restrictT sels this).WF := by
    cases this with
    | nil => exact absurd rfl hne
    | cons m ms =>
      cases sels with
      | nil => simp at hs
      | cons s ss =>
        exact WF_of_WFfrom _ _ (WFfrom_restrictT (m :: ms) (s :: ss) _ hs hw) (by simp [restrictT])
  have hRs : this.shape = (restrictT sels this).shape := (shape_restrictT this sels hs hn).symm
  have hsub_ws : (this.sub (restrictT sels this)).WF ∧ (this.sub (restrictT sels this)).shape = this.shape := by
    unfold Tensor.sub Tensor.neg
    exact C02.add_wf_shape this _ hw (WF_scalarMul _ _ _ hRw) (by rw [shape_scalarMul]; exact hRs)
  have := C02.add_wf_shape _ A hsub_ws.1 hA (by rw [hsub_ws.2, hAs])
  exact ⟨this.1, by rw [this.2, hsub_ws.2]⟩

/-- **scalar value**: the selected entries become `c`, all others are unchanged. -/
theorem assign_scalar (this : Tensor R) (sels : List Sel) (c : R) (hw : this.WF) (hn : noFac this)
    (hs : sels.length = this.length) (idx : List Nat) (hi : idx.length = this.length) :
    ((this.sub (restrictT sels this)).add (scalarT c true sels this)).dense idx =
      if allMem sels idx then c else this.dense idx := by
  have hne : this ≠ [] := by intro h; subst h; simp [Tensor.WF] at hw
  have hAw : (scalarT c true sels this).WF := by
    apply WF_of_WFfrom _ _ (WFfrom_scalarT this c true sels hs)
    cases this with
    | nil => exact absurd rfl hne
    | cons m ms => cases sels with
      | nil => simp at hs
      | cons s ss => simp [scalarT]
  exact assign_core this _ sels hw hn hs hAw (shape_scalarT this c true sels hs) (fun _ => c)
    (fun idx hi => dense_scalarT this c sels idx hne hs hi) idx hi

/-- **compressed (or converted dense) value** `v` with one mode per mode of the tensor: the selected
    entries take `v`'s entries at the position inside the region, all others are unchanged. -/
theorem assign_tensor (t0 v : Tensor R) (sels : List Sel) (hw : t0.WF) (hn : noFac t0)
    (hs : sels.length = t0.length) (hv : v.WF) (hvn : noFac v) (hvl : v.length = t0.length)
    (idx : List Nat) (hi : idx.length = t0.length) :
    ((t0.sub (restrictT sels t0)).add (embedT sels t0.shape v)).dense idx =
      if allMem sels idx then v.dense (posIdx sels idx) else t0.dense idx := by
  have hne : v ≠ [] := by intro h; subst h; simp [Tensor.WF] at hv
  have hsl : sels.length = v.length := by rw [hs, hvl]
  have hnl : t0.shape.length = v.length := by rw [shape_length, hvl]
  have hAw : (embedT sels t0.shape v).WF := by
    cases v with
    | nil => exact absurd rfl hne
    | cons m ms =>
      have hwf := WFfrom_embedT (m :: ms) sels t0.shape _ hsl hnl hv
      apply WF_of_WFfrom _ _ hwf
      cases sels with
      | nil => simp at hsl
      | cons s ss =>
        cases hsh : t0.shape with
        | nil => rw [hsh] at hnl; simp at hnl
        | cons n ns => simp [embedT]
  exact assign_core t0 _ sels hw hn hs hAw (shape_embedT v sels t0.shape hsl hnl) (fun idx => v.dense (posIdx sels idx))
    (fun idx hi => dense_embedT v sels t0.shape idx hvn hsl hnl (by rw [hi, hvl])) idx hi

/-- absorbing the factors first (what `_setitem` does when a factor is present) yields a factor-free
    tensor with the same entries, shape and well-formedness -/
theorem decomp_noFac (t : Tensor R) : noFac t.decompAll := by
  intro m hm
  simp only [Tensor.decompAll, List.mem_map] at hm
  obtain ⟨x, _, rfl⟩ := hm
  rfl

/-- **histories**: any finite sequence of scalar assignments behaves like the same sequence of
    assignments on the dense array (induction on the history). -/
def assignScalars : Tensor R → List (List Sel × R) → Tensor R
  | t, [] => t
  | t, (sels, c) :: h => assignScalars ((t.sub (restrictT sels t)).add (scalarT c true sels t)) h

def denseAssigns (x : List Nat → R) : List (List Sel × R) → List Nat → R
  | [], idx => x idx
  | (sels, c) :: h, idx => denseAssigns (fun i => if allMem sels i then c else x i) h idx

theorem noFac_add (t u : Tensor R) (h1 : noFac t) (h2 : noFac u) (hs : t.shape = u.shape) : noFac (t.add u) := by
  intro m hm
  unfold Tensor.add at hm
  rw [broadcast_of_eq _ _ hs] at hm
  simp only at hm
  have key : ∀ (a b : Tensor R), noFac a → noFac b → noFac (List.zipWith addMode a b) := by
    intro a
    induction a with
    | nil => intro b _ _ x hx; simp at hx
    | cons x xs ih =>
      intro b ha hb y hy
      cases b with
      | nil => simp at hy
      | cons z zs =>
        simp only [List.zipWith_cons_cons, List.mem_cons] at hy
        rcases hy with rfl | hy
        · have hx : x.U = Option.none := ha x List.mem_cons_self
          obtain ⟨c, U⟩ := x
          simp only at hx; subst hx
          simp only [addMode]
          exact addPlain_U _ _
        · exact ih zs (fun w hw => ha w (List.mem_cons_of_mem _ hw)) (fun w hw => hb w (List.mem_cons_of_mem _ hw)) y hy
  have hz := key t u h1 h2
  -- the boundary collapses keep `U`
  have hcf : ∀ (a : Tensor R), noFac a → noFac (Tensor.collapseFirst a) := by
    intro a ha y hy
    cases a with
    | nil => simp [Tensor.collapseFirst] at hy
    | cons x xs =>
      simp only [Tensor.collapseFirst, List.mem_cons] at hy
      rcases hy with rfl | hy
      · exact ha x List.mem_cons_self
      · exact ha y (List.mem_cons_of_mem _ hy)
  have hcl : ∀ (a : Tensor R), noFac a → noFac (Tensor.collapseLast a) := by
    intro a
    induction a with
    | nil => intro _ y hy; simp [Tensor.collapseLast] at hy
    | cons x xs ih =>
      intro ha y hy
      cases xs with
      | nil =>
        simp only [Tensor.collapseLast, List.mem_singleton] at hy
        subst hy; exact ha x List.mem_cons_self
      | cons z zs =>
        simp only [Tensor.collapseLast, List.mem_cons] at hy
        rcases hy with rfl | hy
        · exact ha _ List.mem_cons_self
        · exact ih (fun w hw => ha w (List.mem_cons_of_mem _ hw)) y (by simpa [Tensor.collapseLast] using hy)
  exact hcl _ (hcf _ hz) m hm

omit [CommRing R] in
theorem denseAssigns_congr (h : List (List Sel × R)) (N : Nat) : ∀ (x y : List Nat → R),
    (∀ i, i.length = N → x i = y i) → ∀ idx, idx.length = N → denseAssigns x h idx = denseAssigns y h idx := by
  induction h with
  | nil => intro x y hxy idx hi; exact hxy idx hi
  | cons p h ih =>
    intro x y hxy idx hi
    obtain ⟨sels, c⟩ := p
    simp only [denseAssigns]
    apply ih _ _ _ idx hi
    intro i hil
    rw [hxy i hil]

theorem history (h : List (List Sel × R)) : ∀ (t : Tensor R), t.WF → noFac t → (∀ p ∈ h, p.1.length = t.length) →
    ∀ idx, idx.length = t.length → (assignScalars t h).dense idx = denseAssigns t.dense h idx := by
  induction h with
  | nil => intro t _ _ _ idx _; rfl
  | cons p h ih =>
    intro t hw hn hl idx hi
    obtain ⟨sels, c⟩ := p
    have hs : sels.length = t.length := hl (sels, c) List.mem_cons_self
    have hne : t ≠ [] := by intro h; subst h; simp [Tensor.WF] at hw
    have hAw : (scalarT c true sels t).WF := by
      apply WF_of_WFfrom _ _ (WFfrom_scalarT t c true sels hs)
      cases t with
      | nil => exact absurd rfl hne
      | cons m ms => cases sels with
        | nil => simp at hs
        | cons s ss => simp [scalarT]
    have hAs := shape_scalarT t c true sels hs
    obtain ⟨w', s'⟩ := assign_core_wf t _ sels hw hn hs hAw hAs
    have hlen : ((t.sub (restrictT sels t)).add (scalarT c true sels t)).length = t.length := by
      rw [← shape_length, s', shape_length]
    -- the new tensor is factor-free
    have hRw : noFac (restrictT sels t) := by
      intro m hm
      have : ∀ (ss : List Sel) (u : Tensor R), ∀ x ∈ restrictT ss u, x.U = Option.none := by
        intro ss u
        induction u generalizing ss with
        | nil => intro x hx; cases ss <;> simp [restrictT] at hx
        | cons y ys ihu =>
          intro x hx
          cases ss with
          | nil => simp [restrictT] at hx
          | cons s1 ss1 =>
            simp only [restrictT, List.mem_cons] at hx
            rcases hx with rfl | hx
            · rfl
            · exact ihu ss1 x hx
      exact this sels t m hm
    have hSw : noFac (scalarT c true sels t) := by
      have : ∀ (b : Bool) (ss : List Sel) (u : Tensor R), ∀ x ∈ scalarT c b ss u, x.U = Option.none := by
        intro b ss u
        induction u generalizing ss b with
        | nil => intro x hx; cases ss <;> simp [scalarT] at hx
        | cons y ys ihu =>
          intro x hx
          cases ss with
          | nil => simp [scalarT] at hx
          | cons s1 ss1 =>
            simp only [scalarT, List.mem_cons] at hx
            rcases hx with rfl | hx
            · rfl
            · exact ihu false ss1 x hx
      exact this true sels t
    have hnegR : noFac (restrictT sels t).neg := by
      intro m hm
      unfold Tensor.neg Tensor.scalarMul at hm
      cases hr : restrictT sels t with
      | nil => rw [hr] at hm; simp at hm
      | cons y ys =>
        rw [hr] at hm
        simp only [List.mem_cons, List.mem_map] at hm
        have hy : ∀ x ∈ (y :: ys), x.U = Option.none := by rw [← hr]; exact hRw
        rcases hm with rfl | ⟨x, hx, rfl⟩
        · simpa [TMode.scale] using hy y List.mem_cons_self
        · simpa [TMode.scale] using hy x (List.mem_cons_of_mem _ hx)
    have hsubn : noFac (t.sub (restrictT sels t)) := by
      unfold Tensor.sub
      exact noFac_add t _ hn hnegR (by unfold Tensor.neg; rw [shape_scalarMul, shape_restrictT t sels hs hn])
    have hsub_s : (t.sub (restrictT sels t)).shape = (scalarT c true sels t).shape := by
      rw [hAs]
      unfold Tensor.sub Tensor.neg
      have hRw' : (restrictT sels t).WF := by
        cases t with
        | nil => exact absurd rfl hne
        | cons m ms =>
          cases sels with
          | nil => simp at hs
          | cons s ss => exact WF_of_WFfrom _ _ (WFfrom_restrictT (m :: ms) (s :: ss) _ hs hw) (by simp [restrictT])
      exact (C02.add_wf_shape t _ hw (WF_scalarMul _ _ _ hRw') (by rw [shape_scalarMul, shape_restrictT t sels hs hn])).2
    have hn' := noFac_add _ _ hsubn hSw hsub_s
    simp only [assignScalars, denseAssigns]
    rw [ih _ w' hn' (by intro q hq; rw [hlen]; exact hl q (List.mem_cons_of_mem _ hq)) idx (by rw [hlen]; exact hi)]
    apply denseAssigns_congr h t.length _ _ _ idx hi
    intro i hil
    exact assign_scalar t sels c hw hn hs i hil

-- NOT YET PROVED (full statement):
-- theorem setitem_dense (t : Tensor R) (ht : t.WF) (key) (value) (r) (h : t.setitem key value = .ok r) :
--   ∀ idx, inShape idx t.shape → r.dense idx = if allMem sels idx then valueAt value (dropInts sels (posIdx sels idx)) else t.dense idx
-- i.e. the composition of `assign_scalar` / `assign_tensor` above with the key normalisation (C03 normKey),
-- the dense-array conversion (C01.roundtrip) and the singleton modes inserted at integer positions (C03.getitem_tensor).

end TN.C11
