import TnVerif.Lemmas.Assign
import TnVerif.Props.C02
import TnVerif.Props.C01
import TnVerif.Props.C03
import TnVerif.Lemmas.AssignInts
/-!
# C11 — assignment into a compressed tensor equals assignment into the dense array

`t[key] = value` is modelled by `Tensor.setitem`: `this - (this restricted to the region) + (value
embedded in zeros)`, where `this` is `t` with its Tucker factors absorbed.  The theorems: every
selected entry takes the new value, every other entry is unchanged — for every number of modes,
sizes, ranks, formats, keys (as normalised selections `start + i·step, i < count`), and by induction
for every finite history of assignments.
-/
namespace TN.C11
open TN Finset
variable {R : Type} [CommRing R]

/-- **core statement**: subtracting the restriction and adding any tensor `A` that is `val` on the
    region and `0` elsewhere performs the assignment. -/
theorem assign_core (this A : Tensor R) (sels : List Sel) (hw : this.WF) (hn : noFac this)
    (hs : sels.length = this.length) (hA : A.WF) (hAs : A.shape = this.shape) (val : List Nat → R)
    (hAd : ∀ idx, idx.length = this.length → A.dense idx = (if allMem sels idx then 1 else 0) * val idx)
    (idx : List Nat) (hi : idx.length = this.length) :
    ((this.sub (restrictT sels this)).add A).dense idx = if allMem sels idx then val idx else this.dense idx := by
  have hne : this ≠ [] := by intro h; subst h; simp [Tensor.WF] at hw
  have hRw : (restrictT sels this).WF := by
    cases this with
    | nil => exact absurd rfl hne
    | cons m ms =>
      cases sels with
      | nil => simp at hs
      | cons s ss =>
        have := WFfrom_restrictT (m :: ms) (s :: ss) _ hs hw
        exact WF_of_WFfrom _ _ this (by simp [restrictT])
  have hRs : this.shape = (restrictT sels this).shape := (shape_restrictT this sels hs hn).symm
  have hsub_ws : (this.sub (restrictT sels this)).WF ∧ (this.sub (restrictT sels this)).shape = this.shape := by
    unfold Tensor.sub Tensor.neg
    exact C02.add_wf_shape this _ hw (WF_scalarMul _ _ _ hRw) (by rw [shape_scalarMul]; exact hRs)
  rw [C02.add_dense _ _ hsub_ws.1 hA (by rw [hsub_ws.2, hAs]), C02.sub_dense _ _ hw hRw hRs idx hi, hAd idx hi]
  have : (restrictT sels this).dense idx = (if allMem sels idx then 1 else 0) * this.dense idx :=
    dense_restrictT this sels idx hn hs hi
  rw [this]
  by_cases h : allMem sels idx <;> simp [h]

/-- the result of an assignment is again a well-formed tensor of the same shape (so assignments compose) -/
theorem assign_core_wf (this A : Tensor R) (sels : List Sel) (hw : this.WF) (hn : noFac this)
    (hs : sels.length = this.length) (hA : A.WF) (hAs : A.shape = this.shape) :
    ((this.sub (restrictT sels this)).add A).WF ∧ ((this.sub (restrictT sels this)).add A).shape = this.shape := by
  have hne : this ≠ [] := by intro h; subst h; simp [Tensor.WF] at hw
  have hRw : (restrictT sels this).WF := by
    cases this with
    | nil => exact absurd rfl hne
    | cons m ms =>
      cases sels with
      | nil => simp at hs
      | cons s ss =>
        exact WF_of_WFfrom _ _ (WFfrom_restrictT (m :: ms) (s :: ss) _ hs hw) (by simp [restrictT])
  have hRs : this.shape = (restrictT sels this).shape := (shape_restrictT this sels hs hn).symm
  have hsub_ws : (this.sub (restrictT sels this)).WF ∧ (this.sub (restrictT sels this)).shape = this.shape := by
    unfold Tensor.sub Tensor.neg
    exact C02.add_wf_shape this _ hw (WF_scalarMul _ _ _ hRw) (by rw [shape_scalarMul]; exact hRs)
  have := C02.add_wf_shape _ A hsub_ws.1 hA (by rw [hsub_ws.2, hAs])
  exact ⟨this.1, by rw [this.2, hsub_ws.2]⟩

/-- **scalar value**: the selected entries become `c`, all others are unchanged. -/
theorem assign_scalar (this : Tensor R) (sels : List Sel) (c : R) (hw : this.WF) (hn : noFac this)
    (hs : sels.length = this.length) (idx : List Nat) (hi : idx.length = this.length) :
    ((this.sub (restrictT sels this)).add (scalarT c true sels this)).dense idx =
      if allMem sels idx then c else this.dense idx := by
  have hne : this ≠ [] := by intro h; subst h; simp [Tensor.WF] at hw
  have hAw : (scalarT c true sels this).WF := by
    apply WF_of_WFfrom _ _ (WFfrom_scalarT this c true sels hs)
    cases this with
    | nil => exact absurd rfl hne
    | cons m ms => cases sels with
      | nil => simp at hs
      | cons s ss => simp [scalarT]
  exact assign_core this _ sels hw hn hs hAw (shape_scalarT this c true sels hs) (fun _ => c)
    (fun idx hi => dense_scalarT this c sels idx hne hs hi) idx hi

/-- **compressed (or converted dense) value** `v` with one mode per mode of the tensor: the selected
    entries take `v`'s entries at the position inside the region, all others are unchanged. -/
theorem assign_tensor (t0 v : Tensor R) (sels : List Sel) (hw : t0.WF) (hn : noFac t0)
    (hs : sels.length = t0.length) (hv : v.WF) (hvn : noFac v) (hvl : v.length = t0.length)
    (idx : List Nat) (hi : idx.length = t0.length) :
    ((t0.sub (restrictT sels t0)).add (embedT sels t0.shape v)).dense idx =
      if allMem sels idx then v.dense (posIdx sels idx) else t0.dense idx := by
  have hne : v ≠ [] := by intro h; subst h; simp [Tensor.WF] at hv
  have hsl : sels.length = v.length := by rw [hs, hvl]
  have hnl : t0.shape.length = v.length := by rw [shape_length, hvl]
  have hAw : (embedT sels t0.shape v).WF := by
    cases v with
    | nil => exact absurd rfl hne
    | cons m ms =>
      have hwf := WFfrom_embedT (m :: ms) sels t0.shape _ hsl hnl hv
      apply WF_of_WFfrom _ _ hwf
      cases sels with
      | nil => simp at hsl
      | cons s ss =>
        cases hsh : t0.shape with
        | nil => rw [hsh] at hnl; simp at hnl
        | cons n ns => simp [embedT]
  exact assign_core t0 _ sels hw hn hs hAw (shape_embedT v sels t0.shape hsl hnl) (fun idx => v.dense (posIdx sels idx))
    (fun idx hi => dense_embedT v sels t0.shape idx hvn hsl hnl (by rw [hi, hvl])) idx hi

/-- absorbing the factors first (what `_setitem` does when a factor is present) yields a factor-free
    tensor with the same entries, shape and well-formedness -/
theorem decomp_noFac (t : Tensor R) : noFac t.decompAll := by
  intro m hm
  simp only [Tensor.decompAll, List.mem_map] at hm
  obtain ⟨x, _, rfl⟩ := hm
  rfl

/-- **histories**: any finite sequence of scalar assignments behaves like the same sequence of
    assignments on the dense array (induction on the history). -/
def assignScalars : Tensor R → List (List Sel × R) → Tensor R
  | t, [] => t
  | t, (sels, c) :: h => assignScalars ((t.sub (restrictT sels t)).add (scalarT c true sels t)) h

def denseAssigns (x : List Nat → R) : List (List Sel × R) → List Nat → R
  | [], idx => x idx
  | (sels, c) :: h, idx => denseAssigns (fun i => if allMem sels i then c else x i) h idx

theorem noFac_add (t u : Tensor R) (h1 : noFac t) (h2 : noFac u) (hs : t.shape = u.shape) : noFac (t.add u) := by
  intro m hm
  unfold Tensor.add at hm
  rw [broadcast_of_eq _ _ hs] at hm
  simp only at hm
  have key : ∀ (a b : Tensor R), noFac a → noFac b → noFac (List.zipWith addMode a b) := by
    intro a
    induction a with
    | nil => intro b _ _ x hx; simp at hx
    | cons x xs ih =>
      intro b ha hb y hy
      cases b with
      | nil => simp at hy
      | cons z zs =>
        simp only [List.zipWith_cons_cons, List.mem_cons] at hy
        rcases hy with rfl | hy
        · have hx : x.U = Option.none := ha x List.mem_cons_self
          obtain ⟨c, U⟩ := x
          simp only at hx; subst hx
          simp only [addMode]
          exact addPlain_U _ _
        · exact ih zs (fun w hw => ha w (List.mem_cons_of_mem _ hw)) (fun w hw => hb w (List.mem_cons_of_mem _ hw)) y hy
  have hz := key t u h1 h2
  -- the boundary collapses keep `U`
  have hcf : ∀ (a : Tensor R), noFac a → noFac (Tensor.collapseFirst a) := by
    intro a ha y hy
    cases a with
    | nil => simp [Tensor.collapseFirst] at hy
    | cons x xs =>
      simp only [Tensor.collapseFirst, List.mem_cons] at hy
      rcases hy with rfl | hy
      · exact ha x List.mem_cons_self
      · exact ha y (List.mem_cons_of_mem _ hy)
  have hcl : ∀ (a : Tensor R), noFac a → noFac (Tensor.collapseLast a) := by
    intro a
    induction a with
    | nil => intro _ y hy; simp [Tensor.collapseLast] at hy
    | cons x xs ih =>
      intro ha y hy
      cases xs with
      | nil =>
        simp only [Tensor.collapseLast, List.mem_singleton] at hy
        subst hy; exact ha x List.mem_cons_self
      | cons z zs =>
        simp only [Tensor.collapseLast, List.mem_cons] at hy
        rcases hy with rfl | hy
        · exact ha _ List.mem_cons_self
        · exact ih (fun w hw => ha w (List.mem_cons_of_mem _ hw)) y (by simpa [Tensor.collapseLast] using hy)
  exact hcl _ (hcf _ hz) m hm

omit [CommRing R] in
theorem denseAssigns_congr (h : List (List Sel × R)) (N : Nat) : ∀ (x y : List Nat → R),
    (∀ i, i.length = N → x i = y i) → ∀ idx, idx.length = N → denseAssigns x h idx = denseAssigns y h idx := by
  induction h with
  | nil => intro x y hxy idx hi; exact hxy idx hi
  | cons p h ih =>
    intro x y hxy idx hi
    obtain ⟨sels, c⟩ := p
    simp only [denseAssigns]
    apply ih _ _ _ idx hi
    intro i hil
    rw [hxy i hil]

theorem history (h : List (List Sel × R)) : ∀ (t : Tensor R), t.WF → noFac t → (∀ p ∈ h, p.1.length = t.length) →
    ∀ idx, idx.length = t.length → (assignScalars t h).dense idx = denseAssigns t.dense h idx := by
  induction h with
  | nil => intro t _ _ _ idx _; rfl
  | cons p h ih =>
    intro t hw hn hl idx hi
    obtain ⟨sels, c⟩ := p
    have hs : sels.length = t.length := hl (sels, c) List.mem_cons_self
    have hne : t ≠ [] := by intro h; subst h; simp [Tensor.WF] at hw
    have hAw : (scalarT c true sels t).WF := by
      apply WF_of_WFfrom _ _ (WFfrom_scalarT t c true sels hs)
      cases t with
      | nil => exact absurd rfl hne
      | cons m ms => cases sels with
        | nil => simp at hs
        | cons s ss => simp [scalarT]
    have hAs := shape_scalarT t c true sels hs
    obtain ⟨w', s'⟩ := assign_core_wf t _ sels hw hn hs hAw hAs
    have hlen : ((t.sub (restrictT sels t)).add (scalarT c true sels t)).length = t.length := by
      rw [← shape_length, s', shape_length]
    -- the new tensor is factor-free
    have hRw : noFac (restrictT sels t) := by
      intro m hm
      have : ∀ (ss : List Sel) (u : Tensor R), ∀ x ∈ restrictT ss u, x.U = Option.none := by
        intro ss u
        induction u generalizing ss with
        | nil => intro x hx; cases ss <;> simp [restrictT] at hx
        | cons y ys ihu =>
          intro x hx
          cases ss with
          | nil => simp [restrictT] at hx
          | cons s1 ss1 =>
            simp only [restrictT, List.mem_cons] at hx
            rcases hx with rfl | hx
            · rfl
            · exact ihu ss1 x hx
      exact this sels t m hm
    have hSw : noFac (scalarT c true sels t) := by
      have : ∀ (b : Bool) (ss : List Sel) (u : Tensor R), ∀ x ∈ scalarT c b ss u, x.U = Option.none := by
        intro b ss u
        induction u generalizing ss b with
        | nil => intro x hx; cases ss <;> simp [scalarT] at hx
        | cons y ys ihu =>
          intro x hx
          cases ss with
          | nil => simp [scalarT] at hx
          | cons s1 ss1 =>
            simp only [scalarT, List.mem_cons] at hx
            rcases hx with rfl | hx
            · rfl
            · exact ihu false ss1 x hx
      exact this true sels t
    have hnegR : noFac (restrictT sels t).neg := by
      intro m hm
      unfold Tensor.neg Tensor.scalarMul at hm
      cases hr : restrictT sels t with
      | nil => rw [hr] at hm; simp at hm
      | cons y ys =>
        rw [hr] at hm
        simp only [List.mem_cons, List.mem_map] at hm
        have hy : ∀ x ∈ (y :: ys), x.U = Option.none := by rw [← hr]; exact hRw
        rcases hm with rfl | ⟨x, hx, rfl⟩
        · simpa [TMode.scale] using hy y List.mem_cons_self
        · simpa [TMode.scale] using hy x (List.mem_cons_of_mem _ hx)
    have hsubn : noFac (t.sub (restrictT sels t)) := by
      unfold Tensor.sub
      exact noFac_add t _ hn hnegR (by unfold Tensor.neg; rw [shape_scalarMul, shape_restrictT t sels hs hn])
    have hsub_s : (t.sub (restrictT sels t)).shape = (scalarT c true sels t).shape := by
      rw [hAs]
      unfold Tensor.sub Tensor.neg
      have hRw' : (restrictT sels t).WF := by
        cases t with
        | nil => exact absurd rfl hne
        | cons m ms =>
          cases sels with
          | nil => simp at hs
          | cons s ss => exact WF_of_WFfrom _ _ (WFfrom_restrictT (m :: ms) (s :: ss) _ hs hw) (by simp [restrictT])
      exact (C02.add_wf_shape t _ hw (WF_scalarMul _ _ _ hRw') (by rw [shape_scalarMul, shape_restrictT t sels hs hn])).2
    have hn' := noFac_add _ _ hsubn hSw hsub_s
    simp only [assignScalars, denseAssigns]
    rw [ih _ w' hn' (by intro q hq; rw [hlen]; exact hl q (List.mem_cons_of_mem _ hq)) idx (by rw [hlen]; exact hi)]
    apply denseAssigns_congr h t.length _ _ _ idx hi
    intro i hil
    exact assign_scalar t sels c hw hn hs i hil

/-! ### the whole routine: `t[key] = c` through key processing, factor absorption and the empty-selection shortcut -/

theorem WF_decompAll (t : Tensor R) (ht : t.WF) : t.decompAll.WF := by
  cases t with
  | nil => exact ht
  | cons m ms =>
    have : ∀ (u : Tensor R) p, Tensor.WFfrom p u → Tensor.WFfrom p u.decompAll := by
      intro u; induction u with
      | nil => intro p h; exact h
      | cons x xs ih =>
        intro p h
        exact ⟨by simpa using h.1, trivial, by simpa [Tensor.decompAll] using ih _ h.2.2⟩
    have h := this (m :: ms) _ ht
    simpa [Tensor.WF, Tensor.decompAll] using h

/-- an empty selection along some mode selects nothing -/
theorem allMem_of_zero_count : ∀ (sels : List Sel) (idx : List Nat), (∃ s ∈ sels, s.count = 0) → sels.length = idx.length →
    allMem sels idx = false := by
  intro sels
  induction sels with
  | nil => intro idx ⟨s, hs, _⟩ _; simp at hs
  | cons s ss ih =>
    intro idx ⟨s0, hs0, hc⟩ hl
    cases idx with
    | nil => simp [allMem]
    | cons i is =>
      simp only [allMem]
      rcases List.mem_cons.mp hs0 with rfl | hmem
      · have : s0.mem i = false := by simp [Sel.mem, hc]
        simp [this]
      · rw [ih is ⟨s0, hmem, hc⟩ (by simpa using hl)]; simp

/-- **`t[key] = c`, the whole routine**: given what key processing produced (`processKey`, `normKey` — characterised in C03 —
    and `normAKey`), the routine succeeds and every selected entry becomes `c` while every other entry keeps its value, whatever
    the format of `t` (Tucker factors are absorbed first, an empty selection leaves `t` untouched) -/
theorem setitem_scalar (t : Tensor R) (ht : t.WF) (key key1 : List RawItem) (items : List Item) (sels : List Sel) (c : R)
    (h1 : processKey t.length key = .ok key1) (h2 : normKey key1 t.shape = .ok items) (h3 : normAKey items = .ok sels)
    (hl : sels.length = t.length) :
    ∃ r, t.setitem key (.scalar c) = .ok r ∧
      ∀ idx, idx.length = t.length → r.dense idx = if allMem sels idx then c else t.dense idx := by
  by_cases hz : (sels.map (·.count)).any (· == 0) = true
  · refine ⟨t, ?_, ?_⟩
    · simp [Tensor.setitem, h1, h2, h3, bind, Except.bind, hz, pure, Except.pure]
    · intro idx hi
      have : ∃ s ∈ sels, s.count = 0 := by
        simp only [List.any_map, List.any_eq_true, Function.comp, beq_iff_eq] at hz
        exact hz
      rw [allMem_of_zero_count sels idx this (by rw [hl, hi])]; simp
  · have hz' : (sels.map (·.count)).any (· == 0) = false := by simpa using hz
    by_cases hf : t.any (fun m => m.U.isSome) = true
    · refine ⟨(t.decompAll.sub (restrictT sels t.decompAll)).add (scalarT c true sels t.decompAll), ?_, ?_⟩
      · simp [Tensor.setitem, h1, h2, h3, bind, Except.bind, hz', hf, pure, Except.pure]
      · intro idx hi
        have hlen : t.decompAll.length = t.length := by simp [Tensor.decompAll]
        rw [assign_scalar t.decompAll sels c (WF_decompAll t ht) (decomp_noFac t) (by rw [hl, hlen]) idx (by rw [hi, hlen]),
          C01.decompress_dense]
    · have hf' : t.any (fun m => m.U.isSome) = false := by simpa using hf
      have hn : noFac t := by
        intro m hm
        have := List.any_eq_false.mp hf' m hm
        cases hU : m.U with
        | none => rfl
        | some U => simp [hU] at this
      refine ⟨(t.sub (restrictT sels t)).add (scalarT c true sels t), ?_, ?_⟩
      · simp [Tensor.setitem, h1, h2, h3, bind, Except.bind, hz', hf', pure, Except.pure]
      · intro idx hi
        exact assign_scalar t sels c ht hn hl idx hi

theorem shape_decompAll (t : Tensor R) : t.decompAll.shape = t.shape := by
  induction t with
  | nil => rfl
  | cons m ms ih =>
    simp only [Tensor.decompAll, Tensor.shape, List.map_cons] at ih ⊢
    rw [ih]
    congr 1
    obtain ⟨c, U⟩ := m
    cases U with
    | none => cases c <;> rfl
    | some U => cases c <;> rfl

theorem selShape_noInt : ∀ (sels : List Sel), sels.any (·.isInt) = false → selShape sels = sels.map (·.count) := by
  intro sels
  induction sels with
  | nil => intro _; rfl
  | cons s ss ih =>
    intro h
    simp only [List.any_cons, Bool.or_eq_false_iff] at h
    simp only [selShape, h.1, List.map_cons, ih h.2]
    simp

/-- **`t[key] = v` for a compressed value `v`** (key without integers: the value has one mode per mode of `t`): the selected entries take
    `v`'s entries at their position inside the region, all other entries keep their values, whatever the formats of `t` and `v` -/
theorem setitem_tensor (t v : Tensor R) (ht : t.WF) (hv : v.WF) (key key1 : List RawItem) (items : List Item) (sels : List Sel)
    (h1 : processKey t.length key = .ok key1) (h2 : normKey key1 t.shape = .ok items) (h3 : normAKey items = .ok sels)
    (hl : sels.length = t.length) (hni : sels.any (·.isInt) = false) (hvs : v.shape = selShape sels)
    (hnz : (sels.map (·.count)).any (· == 0) = false) :
    ∃ r, t.setitem key (.tensor v) = .ok r ∧
      ∀ idx, idx.length = t.length → r.dense idx = if allMem sels idx then v.dense (posIdx sels idx) else t.dense idx := by
  have hvl : v.length = t.length := by
    have := congrArg List.length hvs
    rw [selShape_noInt sels hni] at this
    simpa [Tensor.shape, hl] using this
  have hvd : ∀ idx, v.decompAll.dense idx = v.dense idx := fun idx => C01.decompress_dense v idx
  have hvdl : v.decompAll.length = t.length := by simp [Tensor.decompAll, hvl]
  by_cases hf : t.any (fun m => m.U.isSome) = true
  · refine ⟨(t.decompAll.sub (restrictT sels t.decompAll)).add (embedT sels t.shape v.decompAll), ?_, ?_⟩
    · simp [Tensor.setitem, h1, h2, h3, bind, Except.bind, hnz, hf, hni, hvs, pure, Except.pure]
    · intro idx hi
      have hlen : t.decompAll.length = t.length := by simp [Tensor.decompAll]
      have := assign_tensor t.decompAll v.decompAll sels (WF_decompAll t ht) (decomp_noFac t) (by rw [hl, hlen]) (WF_decompAll v hv)
        (decomp_noFac v) (by rw [hvdl, hlen]) idx (by rw [hi, hlen])
      rw [shape_decompAll] at this
      rw [this, hvd, C01.decompress_dense]
  · have hf' : t.any (fun m => m.U.isSome) = false := by simpa using hf
    have hn : noFac t := by
      intro m hm
      have := List.any_eq_false.mp hf' m hm
      cases hU : m.U with
      | none => rfl
      | some U => simp [hU] at this
    refine ⟨(t.sub (restrictT sels t)).add (embedT sels t.shape v.decompAll), ?_, ?_⟩
    · simp [Tensor.setitem, h1, h2, h3, bind, Except.bind, hnz, hf', hni, hvs, pure, Except.pure]
    · intro idx hi
      rw [assign_tensor t v.decompAll sels ht hn hl (WF_decompAll v hv) (decomp_noFac v) hvdl idx hi, hvd]

theorem WFfrom_fullRankLoop : ∀ (rest : List Nat) (sPrev : Nat) (st : Resh R), (∀ s ∈ rest, 0 < s) →
    Tensor.WFfrom (st.rows / sPrev) (fullRankLoop sPrev st rest) ∧ noFac (fullRankLoop sPrev st rest) ∧
      (fullRankLoop sPrev st rest).length = rest.length + 1 := by
  intro rest
  induction rest with
  | nil =>
    intro sPrev st _
    refine ⟨⟨rfl, trivial, trivial⟩, ?_, rfl⟩
    intro m hm; simp [fullRankLoop] at hm; subst hm; rfl
  | cons s rest ih =>
    intro sPrev st hpos
    have hs : 0 < s := hpos s (by simp)
    have hrest : ∀ x ∈ rest, 0 < x := fun x hx => hpos x (by simp [hx])
    simp only [fullRankLoop]
    split
    · obtain ⟨w, n, l⟩ := ih s (st.fold s) hrest
      have e : (st.fold s).rows / s = st.rows := by simp [Resh.fold, Nat.mul_div_cancel _ hs]
      rw [e] at w
      refine ⟨⟨rfl, trivial, w⟩, ?_, by simp [l]⟩
      intro m hm
      rcases List.mem_cons.mp hm with rfl | h
      · rfl
      · exact n m h
    · obtain ⟨w, n, l⟩ := ih s (st.eyeFold s) hrest
      have e : (st.eyeFold s).rows / s = st.cols := by simp [Resh.eyeFold, Nat.mul_div_cancel _ hs]
      rw [e] at w
      refine ⟨⟨rfl, trivial, w⟩, ?_, by simp [l]⟩
      intro m hm
      rcases List.mem_cons.mp hm with rfl | h
      · rfl
      · exact n m h

theorem fullRankTT_wf (shape : List Nat) (x : Nat → R) (hne : shape ≠ []) (hpos : ∀ s ∈ shape, 0 < s) :
    (fullRankTT shape x).WF ∧ noFac (fullRankTT shape x) ∧ (fullRankTT shape x).length = shape.length := by
  cases shape with
  | nil => exact absurd rfl hne
  | cons s rest =>
    obtain ⟨w, n, l⟩ := WFfrom_fullRankLoop rest s (Resh.ofArray s rest.prod x) (fun y hy => hpos y (by simp [hy]))
    simp only [fullRankTT]
    refine ⟨?_, n, by simpa using l⟩
    cases h : fullRankLoop s (Resh.ofArray s rest.prod x) rest with
    | nil => rw [h] at l; simp at l
    | cons m ms =>
      rw [h] at w
      simpa [Tensor.WF] using (show Tensor.WFfrom m.core.rl (m :: ms) from by rw [w.1]; exact w)

/-- **`t[key] = x` for a dense array `x`** (row-major entries over the selected box, integer entries of the key count as size-1 modes,
    non-empty selection): the selected entries take `x`'s entries at their position inside the region, the others keep their values -/
theorem setitem_dense (t : Tensor R) (ht : t.WF) (key key1 : List RawItem) (items : List Item) (sels : List Sel) (x : Nat → R)
    (h1 : processKey t.length key = .ok key1) (h2 : normKey key1 t.shape = .ok items) (h3 : normAKey items = .ok sels)
    (hl : sels.length = t.length)
    (hnz : (sels.map (·.count)).any (· == 0) = false) :
    ∃ r, t.setitem key (.dense (selShape sels) x) = .ok r ∧
      ∀ idx, idx.length = t.length →
        (allMem sels idx = true → inShape (posIdx sels idx) (sels.map (·.count)) →
          r.dense idx = x (flat (posIdx sels idx) (sels.map (·.count)))) ∧
        (allMem sels idx = false → r.dense idx = t.dense idx) := by
  have hne : t ≠ [] := by intro h; subst h; simp [Tensor.WF] at ht
  have hfull_ne : sels.map (·.count) ≠ [] := by
    intro h
    have : sels.length = 0 := by simpa using congrArg List.length h
    rw [hl] at this; exact hne (List.length_eq_zero_iff.mp this)
  have hpos : ∀ s ∈ sels.map (·.count), 0 < s := by
    intro s hs
    have := List.any_eq_false.mp hnz s hs
    simp at this; omega
  obtain ⟨vw, vn, vlen⟩ := fullRankTT_wf (sels.map (·.count)) x hfull_ne hpos
  have vl : (fullRankTT (sels.map (·.count)) x).length = t.length := by rw [vlen]; simp [hl]
  by_cases hf : t.any (fun m => m.U.isSome) = true
  · refine ⟨(t.decompAll.sub (restrictT sels t.decompAll)).add (embedT sels t.shape (fullRankTT (sels.map (·.count)) x)), ?_, ?_⟩
    · simp [Tensor.setitem, h1, h2, h3, bind, Except.bind, hnz, hf, pure, Except.pure]
    · intro idx hi
      have hlen : t.decompAll.length = t.length := by simp [Tensor.decompAll]
      have := assign_tensor t.decompAll _ sels (WF_decompAll t ht) (decomp_noFac t) (by rw [hl, hlen]) vw vn (by rw [vl, hlen])
        idx (by rw [hi, hlen])
      rw [shape_decompAll] at this
      refine ⟨fun hm hin => ?_, fun hm => ?_⟩
      · rw [this, hm, if_pos rfl, C01.roundtrip _ x hfull_ne _ hin]
      · rw [this, hm]; simp [C01.decompress_dense]
  · have hf' : t.any (fun m => m.U.isSome) = false := by simpa using hf
    have hn : noFac t := by
      intro m hm
      have := List.any_eq_false.mp hf' m hm
      cases hU : m.U with
      | none => rfl
      | some U => simp [hU] at this
    refine ⟨(t.sub (restrictT sels t)).add (embedT sels t.shape (fullRankTT (sels.map (·.count)) x)), ?_, ?_⟩
    · simp [Tensor.setitem, h1, h2, h3, bind, Except.bind, hnz, hf', pure, Except.pure]
    · intro idx hi
      have := assign_tensor t _ sels ht hn hl vw vn vl idx hi
      refine ⟨fun hm hin => ?_, fun hm => ?_⟩
      · rw [this, hm, if_pos rfl, C01.roundtrip _ x hfull_ne _ hin]
      · rw [this, hm]; simp

-- (the two statements formerly listed here as NOT YET PROVED are `setitem_tensor_ints` and `setitem_sels_length` below)

/-! ### keys with integers, and the error cases -/

omit [CommRing R] in
/-- **one selection per mode**: when `_process_key`, the bounds normalisation and the assignment-key check succeed, the key
    has exactly one entry per mode of `t` (the hypothesis `hl` of `setitem_scalar`, `setitem_tensor`, `setitem_dense`) -/
theorem setitem_sels_length (t : Tensor R) (key key1 : List RawItem) (items : List Item) (sels : List Sel)
    (h1 : processKey t.length key = .ok key1) (h2 : normKey key1 t.shape = .ok items) (h3 : normAKey items = .ok sels) :
    sels.length = t.length := by
  obtain ⟨a1, a2, _⟩ := asgi_normAKey items sels h3
  obtain ⟨c, _⟩ := C03.getitem_fits t key key1 items h1 h2
  omega

/-- **`t[key] = v` for a compressed value `v`, keys with integers included**: `v` has one mode per SLICE entry of the key
    (`v.shape = selShape sels`); the routine inserts a singleton mode at every integer position (`tn.unsqueeze(value,
    int_dims)`, i.e. `v[…, None, …]`) and then embeds.  Afterwards every selected entry holds `v`'s entry at its position
    inside the region with the integer positions dropped, and every other entry is unchanged — whatever the formats
    of `t` and `v`. -/
theorem setitem_tensor_ints (t v : Tensor R) (ht : t.WF) (hv : v.WF) (key key1 : List RawItem) (items : List Item)
    (sels : List Sel)
    (h1 : processKey t.length key = .ok key1) (h2 : normKey key1 t.shape = .ok items) (h3 : normAKey items = .ok sels)
    (hvs : v.shape = selShape sels) (hnz : (sels.map (·.count)).any (· == 0) = false) :
    ∃ r, t.setitem key (.tensor v) = .ok r ∧
      ∀ idx, idx.length = t.length → r.dense idx =
        if allMem sels idx then v.dense (keepShape (sels.map (·.isInt)) (posIdx sels idx)) else t.dense idx := by
  have hl := setitem_sels_length t key key1 items sels h1 h2 h3
  by_cases hni : sels.any (·.isInt) = false
  · obtain ⟨r, e, d⟩ := setitem_tensor t v ht hv key key1 items sels h1 h2 h3 hl hni hvs hnz
    refine ⟨r, e, ?_⟩
    intro idx hi
    rw [d idx hi, asgi_keepShape_noInt sels _ hni (by rw [asgi_posIdx_length sels idx (by rw [hl, hi])])]
  · have hni' : sels.any (·.isInt) = true := by simpa using hni
    obtain ⟨_, _, hcnt⟩ := asgi_normAKey items sels h3
    -- the unsqueezed value
    have hc : skCons (uqSK (sels.map (·.isInt))) = v.length := by
      rw [asgi_skCons, ← hvs, shape_length]
    obtain ⟨_, b⟩ := C03.getitem_simple v hv (uqSK (sels.map (·.isInt))) hc (sqops_skOK_uq _ _)
    rw [sqops_skShape_uq, hvs, asgi_insOnes sels hcnt] at b
    have hne : sels.map (·.count) ≠ [] := by
      intro h
      have : sels.length = 0 := by simpa using congrArg List.length h
      rw [hl] at this
      cases t with
      | nil => simp [Tensor.WF] at ht
      | cons _ _ => simp at this
    obtain ⟨v', e', w', sh', d'⟩ := b hne
    rw [← asgi_unsqueezeKey] at e'
    have hv'l : v'.length = t.length := by
      rw [← shape_length, sh', List.length_map, hl]
    have hvd : ∀ idx, v'.decompAll.dense idx = v'.dense idx := fun idx => C01.decompress_dense v' idx
    have hvdl : v'.decompAll.length = t.length := by simp [Tensor.decompAll, hv'l]
    have hfin : ∀ idx, idx.length = t.length → v'.dense (posIdx sels idx) =
        v.dense (keepShape (sels.map (·.isInt)) (posIdx sels idx)) := by
      intro idx hi
      rw [d' _ (by rw [asgi_posIdx_length sels idx (by rw [hl, hi]), hl, hv'l]), sqops_skSrc_uq]
    by_cases hf : t.any (fun m => m.U.isSome) = true
    · refine ⟨(t.decompAll.sub (restrictT sels t.decompAll)).add (embedT sels t.shape v'.decompAll), ?_, ?_⟩
      · simp [Tensor.setitem, h1, h2, h3, bind, Except.bind, hnz, hf, hni', hvs, e', pure, Except.pure]
      · intro idx hi
        have hlen : t.decompAll.length = t.length := by simp [Tensor.decompAll]
        have := assign_tensor t.decompAll v'.decompAll sels (WF_decompAll t ht) (decomp_noFac t) (by rw [hl, hlen])
          (WF_decompAll v' w') (decomp_noFac v') (by rw [hvdl, hlen]) idx (by rw [hi, hlen])
        rw [shape_decompAll] at this
        rw [this, hvd, C01.decompress_dense, hfin idx hi]
    · have hf' : t.any (fun m => m.U.isSome) = false := by simpa using hf
      have hn : noFac t := by
        intro m hm
        have := List.any_eq_false.mp hf' m hm
        cases hU : m.U with
        | none => rfl
        | some U => simp [hU] at this
      refine ⟨(t.sub (restrictT sels t)).add (embedT sels t.shape v'.decompAll), ?_, ?_⟩
      · simp [Tensor.setitem, h1, h2, h3, bind, Except.bind, hnz, hf', hni', hvs, e', pure, Except.pure]
      · intro idx hi
        rw [assign_tensor t v'.decompAll sels ht hn hl (WF_decompAll v' w') (decomp_noFac v') hvdl idx hi, hvd, hfin idx hi]

/-- an assignment that selects nothing (some slice of the key is empty) returns `t` itself, whatever the (shape-correct) value -/
theorem setitem_empty (t v : Tensor R) (key key1 : List RawItem) (items : List Item) (sels : List Sel)
    (h1 : processKey t.length key = .ok key1) (h2 : normKey key1 t.shape = .ok items) (h3 : normAKey items = .ok sels)
    (hvs : v.shape = selShape sels) (hz : (sels.map (·.count)).any (· == 0) = true) :
    t.setitem key (.tensor v) = .ok t := by
  simp [Tensor.setitem, h1, h2, h3, bind, Except.bind, hz, hvs, pure, Except.pure]

/-- **when does `t[key] = v` raise** (key accepted, `v` a compressed tensor): exactly when the shape of `v` differs from the
    selected shape (the sizes of the slice entries of the key; no broadcasting is allowed), and the error is the shape
    mismatch.  An error means that no new tensor is produced: `t` is left as it was. -/
theorem setitem_tensor_error_iff (t v : Tensor R) (ht : t.WF) (hv : v.WF) (key key1 : List RawItem) (items : List Item)
    (sels : List Sel)
    (h1 : processKey t.length key = .ok key1) (h2 : normKey key1 t.shape = .ok items) (h3 : normAKey items = .ok sels) :
    ((∃ e, t.setitem key (.tensor v) = .error e) ↔ v.shape ≠ selShape sels) ∧
    (v.shape ≠ selShape sels → t.setitem key (.tensor v) = .error .lenMismatch) := by
  have hmis : v.shape ≠ selShape sels → t.setitem key (.tensor v) = .error .lenMismatch := by
    intro hne
    simp [Tensor.setitem, h1, h2, h3, bind, Except.bind, hne, throw, throwThe, MonadExceptOf.throw]
  refine ⟨⟨?_, fun hne => ⟨_, hmis hne⟩⟩, hmis⟩
  intro ⟨e, he⟩ hvs
  by_cases hz : (sels.map (·.count)).any (· == 0) = true
  · rw [setitem_empty t v key key1 items sels h1 h2 h3 hvs hz] at he; cases he
  · obtain ⟨r, hr, _⟩ := setitem_tensor_ints t v ht hv key key1 items sels h1 h2 h3 hvs (by simpa using hz)
    rw [hr] at he; cases he

/-- **when does `t[key] = x` raise** (key accepted, `x` a dense array of shape `sh`): exactly when `sh` differs from the
    selected shape -/
theorem setitem_dense_error_iff (t : Tensor R) (ht : t.WF) (key key1 : List RawItem) (items : List Item) (sels : List Sel)
    (sh : List Nat) (x : Nat → R)
    (h1 : processKey t.length key = .ok key1) (h2 : normKey key1 t.shape = .ok items) (h3 : normAKey items = .ok sels) :
    ((∃ e, t.setitem key (.dense sh x) = .error e) ↔ sh ≠ selShape sels) ∧
    (sh ≠ selShape sels → t.setitem key (.dense sh x) = .error .lenMismatch) := by
  have hl := setitem_sels_length t key key1 items sels h1 h2 h3
  have hmis : sh ≠ selShape sels → t.setitem key (.dense sh x) = .error .lenMismatch := by
    intro hne
    simp [Tensor.setitem, h1, h2, h3, bind, Except.bind, hne, throw, throwThe, MonadExceptOf.throw]
  refine ⟨⟨?_, fun hne => ⟨_, hmis hne⟩⟩, hmis⟩
  intro ⟨e, he⟩ hvs
  subst hvs
  by_cases hz : (sels.map (·.count)).any (· == 0) = true
  · have : t.setitem key (.dense (selShape sels) x) = .ok t := by
      simp [Tensor.setitem, h1, h2, h3, bind, Except.bind, hz, pure, Except.pure]
    rw [this] at he; cases he
  · obtain ⟨r, hr, _⟩ := setitem_dense t ht key key1 items sels x h1 h2 h3 hl (by simpa using hz)
    rw [hr] at he; cases he

/-- a scalar assignment under an accepted key never raises -/
theorem setitem_scalar_ok (t : Tensor R) (ht : t.WF) (key key1 : List RawItem) (items : List Item) (sels : List Sel) (c : R)
    (h1 : processKey t.length key = .ok key1) (h2 : normKey key1 t.shape = .ok items) (h3 : normAKey items = .ok sels) :
    ∃ r, t.setitem key (.scalar c) = .ok r :=
  let ⟨r, hr, _⟩ := setitem_scalar t ht key key1 items sels c h1 h2 h3 (setitem_sels_length t key key1 items sels h1 h2 h3)
  ⟨r, hr⟩

omit [CommRing R] in
/-- **key errors**: whatever the value, an assignment raises the error of `_process_key` (second Ellipsis, too many entries),
    of the bounds normalisation (out-of-range integer, non-positive step) or of the assignment-key check (`None` or an
    index array in the key), and then produces no tensor -/
theorem setitem_key_error [Zero R] [One R] [Add R] [Mul R] [Neg R] (t : Tensor R) (key : List RawItem) (value : AValue R) (e : IdxErr) :
    (processKey t.length key = .error e → t.setitem key value = .error e) ∧
    (∀ key1, processKey t.length key = .ok key1 → normKey key1 t.shape = .error e → t.setitem key value = .error e) ∧
    (∀ key1 items, processKey t.length key = .ok key1 → normKey key1 t.shape = .ok items → normAKey items = .error e →
      t.setitem key value = .error e) := by
  refine ⟨?_, ?_, ?_⟩
  · intro h; simp [Tensor.setitem, h, bind, Except.bind]
  · intro key1 h1 h; simp [Tensor.setitem, h1, h, bind, Except.bind]
  · intro key1 items h1 h2 h; simp [Tensor.setitem, h1, h2, h, bind, Except.bind]

omit [CommRing R] in
/-- an assignment either raises or returns a tensor, never both: an error leaves no result behind -/
theorem setitem_error_no_result [Zero R] [One R] [Add R] [Mul R] [Neg R] (t : Tensor R) (key : List RawItem) (value : AValue R)
    (e : IdxErr) (h : t.setitem key value = .error e) : ¬ ∃ r, t.setitem key value = .ok r := by
  intro ⟨r, hr⟩; rw [h] at hr; cases hr

/-- the step `value = tn.unsqueeze(value, int_dims)` of `_setitem` (tensor.py:1633-1634), taken through the model of
    `tn.unsqueeze` (tools.py:37-53), is the indexing `value[…, None, …]` with `None` at the integer positions of the key
    that `Tensor.setitem` performs -/
theorem setitem_unsqueeze_tools (v : Tensor R) (sels : List Sel)
    (hvl : v.length = (selShape sels).length) :
    v.unsqueeze ((asgi_intDims sels).map Int.ofNat) = sqops_wrap (v.getitem (unsqueezeKey sels)) := by
  have hM : v.length + ((asgi_intDims sels).map Int.ofNat).length = sels.length := by
    rw [List.length_map, hvl]; exact asgi_intDims_length sels
  have hm := sqops_mapM_nat sels.length (asgi_intDims sels) (asgi_intDims_lt sels)
  unfold Tensor.unsqueeze
  simp only [hM, hm, sqops_uqKey_eq, asgi_mark, ← asgi_unsqueezeKey]

/-! ### the hypotheses are satisfiable -/
section nonvacuous
/-- a 2-mode tensor of shape (2, 3) with a Tucker factor, and a 1-mode value of shape (2) -/
def exA : Tensor ℚ :=
  [ { core := .tt 1 2 2 (fun _ j b => (j : ℚ) + b + 1), U := Option.none },
    { core := .tt 2 2 1 (fun a j _ => (a : ℚ) - j), U := some { rows := 3, cols := 2, f := fun i j => (i : ℚ) + 2 * j } } ]
def exV : Tensor ℚ := [ { core := .cp 2 2 (fun j a => (j : ℚ) * 3 - a), U := Option.none } ]
theorem exA_wf : exA.WF := ⟨rfl, trivial, rfl, rfl, trivial⟩
theorem exV_wf : exV.WF := ⟨rfl, trivial, trivial⟩
def exSels : List Sel := [⟨0, 1, 2, false⟩, ⟨2, 1, 1, true⟩]

/-- `exA[:, -1] = exV` -/
example := setitem_tensor_ints exA exV exA_wf exV_wf [sliceAll, .int (-1)] [sliceAll, .int (-1)] [.slice 0 1 2, .int 2] exSels
  rfl rfl rfl rfl rfl
example := setitem_sels_length exA [sliceAll, .int (-1)] [sliceAll, .int (-1)] [.slice 0 1 2, .int 2] exSels rfl rfl rfl
example := (setitem_tensor_error_iff exA exV exA_wf exV_wf [sliceAll, .int (-1)] [sliceAll, .int (-1)] [.slice 0 1 2, .int 2] exSels
  rfl rfl rfl).1
/-- `exA[0, :] = exV` raises: the selected shape is (3), the value has shape (2) -/
example : exA.setitem [.int 0] (.tensor exV) = .error .lenMismatch :=
  (setitem_tensor_error_iff exA exV exA_wf exV_wf [.int 0] [.int 0, sliceAll] [.int 0, .slice 0 1 3]
    [⟨0, 1, 1, true⟩, ⟨0, 1, 3, false⟩] rfl rfl rfl).2 (by decide)
example := setitem_dense_error_iff exA exA_wf [.int 0] [.int 0, sliceAll] [.int 0, .slice 0 1 3]
    [⟨0, 1, 1, true⟩, ⟨0, 1, 3, false⟩] [3] (fun _ => 1) rfl rfl rfl
example := setitem_unsqueeze_tools exV exSels rfl
end nonvacuous

end TN.C11
