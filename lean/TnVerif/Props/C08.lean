import TnVerif.Generated
import Mathlib.Algebra.BigOperators.Ring.Finset
import Mathlib.Algebra.BigOperators.Intervals
import Mathlib.Algebra.Order.Field.Basic
import Mathlib.Tactic.Ring
/-!
# C08 — cross-approximation: the interpolation step and the min/argmin bookkeeping

Proved here, for any sizes over any field: (i) the core produced by the right-to-left solve
`core = Q · Q[local]⁻¹` restricted to the chosen rows is the identity — which is why the result
reproduces the sampled function on the fibres through the chosen index sets; (ii) the running
minimum kept by `info["min"]`, `info["argmin"]` is a value actually attained at the recorded position
and is not above any evaluated value.  The contraction patterns of `cross.py` are re-extracted on
every run.  Recovery of representable targets for *every* seed depends on the pivots chosen by
maxvol in floating point and is not a theorem (see the known findings).
-/
namespace TN.C08
open TN Finset

section interp
variable {K : Type} [Field K]

/-- **interpolation on the chosen rows**: if `C · Q_loc = Q` (the least-squares solve is exact) where
    `Q_loc` consists of the rows `loc k` of `Q`, and `Q_loc` is invertible (`Q_loc · W = I`), then row
    `loc k` of `C` is the `k`-th unit vector -/
theorem solve_identity_on_pivots (n r : Nat) (Q C W : Nat → Nat → K) (loc : Nat → Nat)
    (hC : ∀ l c, l < n → c < r → (∑ m ∈ range r, C l m * Q (loc m) c) = Q l c)
    (hW : ∀ m j, m < r → j < r → (∑ c ∈ range r, Q (loc m) c * W c j) = if m = j then 1 else 0)
    (hloc : ∀ k, k < r → loc k < n) (k j : Nat) (hk : k < r) (hj : j < r) :
    C (loc k) j = if k = j then 1 else 0 := by
  -- (C Q_loc W)[loc k, j] computed in two ways
  have h1 : (∑ c ∈ range r, (∑ m ∈ range r, C (loc k) m * Q (loc m) c) * W c j) = ∑ c ∈ range r, Q (loc k) c * W c j := by
    apply Finset.sum_congr rfl; intro c hc
    rw [hC (loc k) c (hloc k hk) (Finset.mem_range.mp hc)]
  have h2 : (∑ c ∈ range r, (∑ m ∈ range r, C (loc k) m * Q (loc m) c) * W c j) =
      ∑ m ∈ range r, C (loc k) m * (∑ c ∈ range r, Q (loc m) c * W c j) := by
    simp only [Finset.sum_mul, Finset.mul_sum]
    rw [Finset.sum_comm]
    apply Finset.sum_congr rfl; intro m _
    apply Finset.sum_congr rfl; intro c _; ring
  rw [h2] at h1
  have h3 : (∑ m ∈ range r, C (loc k) m * (∑ c ∈ range r, Q (loc m) c * W c j)) = C (loc k) j := by
    have : ∀ m ∈ range r, C (loc k) m * (∑ c ∈ range r, Q (loc m) c * W c j) = if m = j then C (loc k) m else 0 := by
      intro m hm
      rw [hW m j (Finset.mem_range.mp hm) hj]; split <;> simp
    rw [Finset.sum_congr rfl this, Finset.sum_ite_eq' (range r) j]
    simp [hj]
  rw [h3] at h1
  rw [h1, hW k j hk hj]
end interp

section tracking
variable {P K : Type} [LinearOrder K]

/-- what `cross` keeps while evaluating the function: the smallest value seen and where it was seen -/
def trackMin : Option (P × K) → List (P × K) → Option (P × K)
  | best, [] => best
  | Option.none, x :: xs => trackMin (some x) xs
  | some b, x :: xs => trackMin (some (if x.2 < b.2 then x else b)) xs

theorem trackMin_spec (xs : List (P × K)) : ∀ (best : Option (P × K)),
    (∀ b, best = some b → ∃ r, trackMin best xs = some r ∧ r.2 ≤ b.2 ∧ (r = b ∨ r ∈ xs) ∧ ∀ x ∈ xs, r.2 ≤ x.2) ∧
    (best = Option.none → xs ≠ [] → ∃ r, trackMin best xs = some r ∧ r ∈ xs ∧ ∀ x ∈ xs, r.2 ≤ x.2) := by
  induction xs with
  | nil =>
    intro best
    refine ⟨fun b hb => ⟨b, by simp [trackMin, hb], le_refl _, Or.inl rfl, by simp⟩, fun _ h => absurd rfl h⟩
  | cons x xs ih =>
    intro best
    constructor
    · intro b hb
      subst hb
      simp only [trackMin]
      obtain ⟨r, hr, h1, h2, h3⟩ := (ih (some (if x.2 < b.2 then x else b))).1 _ rfl
      refine ⟨r, hr, ?_, ?_, ?_⟩
      · split at h1
        · rename_i hlt; exact le_trans h1 (le_of_lt hlt)
        · exact h1
      · rcases h2 with h2 | h2
        · split at h2
          · right; rw [h2]; exact List.mem_cons_self
          · left; exact h2
        · right; exact List.mem_cons_of_mem _ h2
      · intro y hy
        rcases List.mem_cons.mp hy with rfl | hy
        · split at h1
          · exact h1
          · rename_i hnlt; exact le_trans h1 (not_lt.mp hnlt)
        · exact h3 y hy
    · intro hb _
      subst hb
      simp only [trackMin]
      obtain ⟨r, hr, h1, h2, h3⟩ := (ih (some x)).1 x rfl
      refine ⟨r, hr, ?_, ?_⟩
      · rcases h2 with h2 | h2
        · rw [h2]; exact List.mem_cons_self
        · exact List.mem_cons_of_mem _ h2
      · intro y hy
        rcases List.mem_cons.mp hy with rfl | hy
        · exact h1
        · exact h3 y hy

/-- **the reported minimum is attained at the reported position and bounds every evaluated value** -/
theorem reported_min (xs : List (P × K)) (hne : xs ≠ []) :
    ∃ r, trackMin Option.none xs = some r ∧ r ∈ xs ∧ ∀ x ∈ xs, r.2 ≤ x.2 :=
  (trackMin_spec xs Option.none).2 rfl hne
end tracking

/-- the contraction patterns of `cross.py` the design was written against, re-extracted on every run -/
theorem einsums_from_source :
    Generated.einsum_cross_cross = ["ab,bac->ac", "ab,ab->ab", "abc,cb->ab", "ab,ba->ba"] ∧
    Generated.einsum_cross_cross_evaluate_function = ["ab,bcd,de->ace", "ab,cb,bd->acd"] ∧
    Generated.einsum_cross_init_interfaces = ["abc,cb->ab", "ab,ba->ba"] := ⟨rfl, rfl, rfl⟩

end TN.C08
