import TnVerif.Generated
import TnVerif.Model.Cross
import TnVerif.Lemmas.Sum
import TnVerif.Lemmas.Cross
import Mathlib.Algebra.BigOperators.Ring.Finset
import Mathlib.Algebra.BigOperators.Intervals
import Mathlib.Algebra.Order.Field.Basic
import Mathlib.Tactic.Ring
/-!
# C08 — cross-approximation: the interpolation step and the min/argmin bookkeeping

Proved here, for any sizes over any field: (i) the core produced by the right-to-left solve
`core = Q · Q[local]⁻¹` restricted to the chosen rows is the identity — which is why the result
reproduces the sampled function on the fibres through the chosen index sets; (ii) the running
minimum kept by `info["min"]`, `info["argmin"]` is a value actually attained at the recorded position
and is not above any evaluated value.  The contraction patterns of `cross.py` are re-extracted on
every run.  Recovery of representable targets for *every* seed depends on the pivots chosen by
maxvol in floating point and is not a theorem (see the known findings).
-/
namespace TN.C08
open TN Finset

section interp
variable {K : Type} [Field K]

/-- **interpolation on the chosen rows**: if `C · Q_loc = Q` (the least-squares solve is exact) where
    `Q_loc` consists of the rows `loc k` of `Q`, and `Q_loc` is invertible (`Q_loc · W = I`), then row
    `loc k` of `C` is the `k`-th unit vector -/
theorem solve_identity_on_pivots (n r : Nat) (Q C W : Nat → Nat → K) (loc : Nat → Nat)
    (hC : ∀ l c, l < n → c < r → (∑ m ∈ range r, C l m * Q (loc m) c) = Q l c)
    (hW : ∀ m j, m < r → j < r → (∑ c ∈ range r, Q (loc m) c * W c j) = if m = j then 1 else 0)
    (hloc : ∀ k, k < r → loc k < n) (k j : Nat) (hk : k < r) (hj : j < r) :
    C (loc k) j = if k = j then 1 else 0 := by
  -- (C Q_loc W)[loc k, j] computed in two ways
  have h1 : (∑ c ∈ range r, (∑ m ∈ range r, C (loc k) m * Q (loc m) c) * W c j) = ∑ c ∈ range r, Q (loc k) c * W c j := by
    apply Finset.sum_congr rfl; intro c hc
    rw [hC (loc k) c (hloc k hk) (Finset.mem_range.mp hc)]
  have h2 : (∑ c ∈ range r, (∑ m ∈ range r, C (loc k) m * Q (loc m) c) * W c j) =
      ∑ m ∈ range r, C (loc k) m * (∑ c ∈ range r, Q (loc m) c * W c j) := by
    simp only [Finset.sum_mul, Finset.mul_sum]
    rw [Finset.sum_comm]
    apply Finset.sum_congr rfl; intro m _
    apply Finset.sum_congr rfl; intro c _; ring
  rw [h2] at h1
  have h3 : (∑ m ∈ range r, C (loc k) m * (∑ c ∈ range r, Q (loc m) c * W c j)) = C (loc k) j := by
    have : ∀ m ∈ range r, C (loc k) m * (∑ c ∈ range r, Q (loc m) c * W c j) = if m = j then C (loc k) m else 0 := by
      intro m hm
      rw [hW m j (Finset.mem_range.mp hm) hj]; split <;> simp
    rw [Finset.sum_congr rfl this, Finset.sum_ite_eq' (range r) j]
    simp [hj]
  rw [h3] at h1
  rw [h1, hW k j hk hj]
end interp

section tracking
variable {P K : Type} [LinearOrder K]

/-- what `cross` keeps while evaluating the function: the smallest value seen and where it was seen -/
def trackMin : Option (P × K) → List (P × K) → Option (P × K)
  | best, [] => best
  | Option.none, x :: xs => trackMin (some x) xs
  | some b, x :: xs => trackMin (some (if x.2 < b.2 then x else b)) xs

theorem trackMin_spec (xs : List (P × K)) : ∀ (best : Option (P × K)),
    (∀ b, best = some b → ∃ r, trackMin best xs = some r ∧ r.2 ≤ b.2 ∧ (r = b ∨ r ∈ xs) ∧ ∀ x ∈ xs, r.2 ≤ x.2) ∧
    (best = Option.none → xs ≠ [] → ∃ r, trackMin best xs = some r ∧ r ∈ xs ∧ ∀ x ∈ xs, r.2 ≤ x.2) := by
  induction xs with
  | nil =>
    intro best
    refine ⟨fun b hb => ⟨b, by simp [trackMin, hb], le_refl _, Or.inl rfl, by simp⟩, fun _ h => absurd rfl h⟩
  | cons x xs ih =>
    intro best
    constructor
    · intro b hb
      subst hb
      simp only [trackMin]
      obtain ⟨r, hr, h1, h2, h3⟩ := (ih (some (if x.2 < b.2 then x else b))).1 _ rfl
      refine ⟨r, hr, ?_, ?_, ?_⟩
      · split at h1
        · rename_i hlt; exact le_trans h1 (le_of_lt hlt)
        · exact h1
      · rcases h2 with h2 | h2
        · split at h2
          · right; rw [h2]; exact List.mem_cons_self
          · left; exact h2
        · right; exact List.mem_cons_of_mem _ h2
      · intro y hy
        rcases List.mem_cons.mp hy with rfl | hy
        · split at h1
          · exact h1
          · rename_i hnlt; exact le_trans h1 (not_lt.mp hnlt)
        · exact h3 y hy
    · intro hb _
      subst hb
      simp only [trackMin]
      obtain ⟨r, hr, h1, h2, h3⟩ := (ih (some x)).1 x rfl
      refine ⟨r, hr, ?_, ?_⟩
      · rcases h2 with h2 | h2
        · rw [h2]; exact List.mem_cons_self
        · exact List.mem_cons_of_mem _ h2
      · intro y hy
        rcases List.mem_cons.mp hy with rfl | hy
        · exact h1
        · exact h3 y hy

/-- **the reported minimum is attained at the reported position and bounds every evaluated value** -/
theorem reported_min (xs : List (P × K)) (hne : xs ≠ []) :
    ∃ r, trackMin Option.none xs = some r ∧ r ∈ xs ∧ ∀ x ∈ xs, r.2 ≤ x.2 :=
  (trackMin_spec xs Option.none).2 rfl hne
end tracking

/-! ### the result interpolates the function on the fibres through the returned right index sets

After the right-to-left sweep (cross.py:423-451) core `j ≥ 1` restricted to its pivot columns is the identity
(`solve_identity_on_pivots`), the right index sets are nested (`rsetsOf`), and the first core holds the function values on
the fibres through `rsets[0]` (`cores[0] = evaluate_function(0)`, cross.py:453-455).  Hence the chain to the right of the first
core, evaluated at the `k`-th right index, is the `k`-th unit vector, and the tensor reproduces the first core there. -/
section sweep
variable {R : Type} [CommSemiring R]

/-- state after the right-to-left sweep: the cores `1 … N-1` (as chain modes, `G i a b = core[a, i, b]`), each with the flat
    pivot positions `loc` maxvol chose in its `I_j × R_{j+1}` unfolding.  `pivotOK p` says: ranks chain up (`m.rl = p`, last
    `rr = 1`), pivots lie in the unfolding, and the core restricted to its pivot columns is the identity. -/
def pivotOK (p : Nat) : List (Mode R × (Nat → Nat)) → Prop
  | [] => p = 1
  | (m, loc) :: rest =>
    m.rl = p ∧ (∀ k, k < p → loc k % m.rr < m.rr) ∧
      (∀ a k, a < p → k < p → m.G (loc k / m.rr) a (loc k % m.rr) = if a = k then 1 else 0) ∧ pivotOK m.rr rest

/-- the `(R_{j+1}, local_j)` levels of a chain, as `rsetsOf` consumes them -/
def levels (ch : List (Mode R × (Nat → Nat))) : List (Nat × (Nat → Nat)) := ch.map fun x => (x.1.rr, x.2)

/-- **nested-pivot lemma**: the product of the cores `j … N-1` at the `k`-th right index `rsets[j-1][k]` is the `k`-th unit vector -/
theorem tail_on_rsets : ∀ (ch : List (Mode R × (Nat → Nat))) (p : Nat), pivotOK p ch → ∀ a k, a < p → k < p →
    tail (ch.map (·.1)) (rsetsOf (levels ch) k) a = if a = k then 1 else 0 := by
  intro ch
  induction ch with
  | nil =>
    intro p hp a k ha hk
    simp only [pivotOK] at hp
    subst hp
    have : a = k := by omega
    simp [tail, this]
  | cons x rest ih =>
    obtain ⟨m, loc⟩ := x
    intro p hp a k ha hk
    obtain ⟨_, hin, hid, hrest⟩ := hp
    simp only [List.map_cons, levels, rsetsOf, tail, sumTo_eq]
    have hstep : ∀ b ∈ range m.rr, m.G (loc k / m.rr) a b * tail (rest.map (·.1)) (rsetsOf (levels rest) (loc k % m.rr)) b =
        if b = loc k % m.rr then m.G (loc k / m.rr) a b else 0 := by
      intro b hb
      rw [ih m.rr hrest b (loc k % m.rr) (Finset.mem_range.mp hb) (hin k hk)]
      split <;> simp
    have hlev : (List.map (fun x => (x.1.rr, x.2)) rest) = levels rest := rfl
    rw [hlev, Finset.sum_congr rfl hstep, Finset.sum_ite_eq' (range m.rr) (loc k % m.rr)]
    simp only [Finset.mem_range, hin k hk, if_true]
    exact hid a k ha hk

/-- **interpolation**: with a first core of left rank 1, the tensor at `(i₀, rsets[0][k])` equals the first core's entry
    `cores[0][0, i₀, k]`, for EVERY first-mode index `i₀` and every right index `k` -/
theorem cross_reproduces_first_core (m0 : Mode R) (ch : List (Mode R × (Nat → Nat))) (h0 : m0.rl = 1)
    (hp : pivotOK m0.rr ch) (i0 k : Nat) (hk : k < m0.rr) :
    dense (m0 :: ch.map (·.1)) (i0 :: rsetsOf (levels ch) k) = m0.G i0 0 k := by
  simp only [dense, h0, tail, sumTo_eq, Finset.sum_range_one]
  have hstep : ∀ b ∈ range m0.rr, m0.G i0 0 b * tail (ch.map (·.1)) (rsetsOf (levels ch) k) b =
      if b = k then m0.G i0 0 b else 0 := by
    intro b hb
    rw [tail_on_rsets ch m0.rr hp b k (Finset.mem_range.mp hb) hk]
    split <;> simp
  rw [Finset.sum_congr rfl hstep, Finset.sum_ite_eq' (range m0.rr) k]
  simp [hk]

/-- … and since the first core holds the function values on those fibres (`cores[0] = evaluate_function(0)`), the result
    reproduces the sampled function exactly on every first-mode fibre through the returned right index sets -/
theorem cross_interpolates (F : List Nat → R) (m0 : Mode R) (ch : List (Mode R × (Nat → Nat))) (h0 : m0.rl = 1)
    (hp : pivotOK m0.rr ch) (hF : ∀ i k, i < m0.n → k < m0.rr → m0.G i 0 k = F (i :: rsetsOf (levels ch) k))
    (i0 k : Nat) (hi : i0 < m0.n) (hk : k < m0.rr) :
    dense (m0 :: ch.map (·.1)) (i0 :: rsetsOf (levels ch) k) = F (i0 :: rsetsOf (levels ch) k) := by
  rw [cross_reproduces_first_core m0 ch h0 hp i0 k hk, hF i0 k hi hk]

/-- the hypotheses are satisfiable: two modes of size 2, ranks 1, pivot row 1 of the second core -/
example : pivotOK (R := Int) 1 [({ rl := 1, rr := 1, n := 2, G := fun i _ _ => if i = 1 then 1 else 5 }, fun _ => 1)] := by
  refine ⟨rfl, ?_, ?_, rfl⟩
  · intro k _; simp
  · intro a k ha hk
    have : a = k := by omega
    simp [this]
end sweep

section solve
variable {K : Type} [Field K]

/-- the identity-on-pivots clause of `pivotOK` is what the least-squares solve delivers: if the core is the reshaped solution
    (`core[a, i, b] = C[i·R_{j+1} + b, a]`, cross.py:434-435) of an exact solve against the invertible pivot rows -/
theorem pivot_identity_of_solve (m : Mode K) (Q C W : Nat → Nat → K) (loc : Nat → Nat)
    (hG : ∀ i a b, m.G i a b = C (i * m.rr + b) a)
    (hC : ∀ l c, l < m.n * m.rr → c < m.rl → (∑ q ∈ range m.rl, C l q * Q (loc q) c) = Q l c)
    (hW : ∀ q j, q < m.rl → j < m.rl → (∑ c ∈ range m.rl, Q (loc q) c * W c j) = if q = j then 1 else 0)
    (hloc : ∀ k, k < m.rl → loc k < m.n * m.rr) (a k : Nat) (ha : a < m.rl) (hk : k < m.rl) :
    m.G (loc k / m.rr) a (loc k % m.rr) = if a = k then 1 else 0 := by
  rw [hG, Nat.div_add_mod', solve_identity_on_pivots (m.n * m.rr) m.rl Q C W loc hC hW hloc k a hk ha]
  by_cases h : a = k
  · simp [h]
  · simp [h, Ne.symm h]
end solve

/-! ### the function is evaluated only at entries of the argument tensors at grid positions

`evaluate_function(j)` (cross.py:307-320) hands the user's function, for every fibre `(a, i, b)` and every argument tensor, the
number `Σ linterface[j][a, p] · core_j[p, i, q] · rinterface[j][q, b]`.  The interfaces are built incrementally from the pivots
(cross.py:406-411, 441-446).  The theorem says this number is the ENTRY of the argument tensor at the grid index
`lsets[j][a] ++ [i] ++ rsets[j][b]` — so (for `domain=` targets, whose argument tensors are the mesh-grid tensors) the function is
only ever evaluated at points of the given grid, and for `tensors=` targets at tuples of entries at one common grid position. -/
section evaluation
variable {R : Type} [CommRing R]

/-- **sampling positions are grid entries**: `pre` = the modes `j-1, …, 0` of an argument tensor (latest first) with the pivots
    of the left-to-right sweep, `m` = its mode `j`, `post` = its modes `j+1 … N-1`, each with the RESULT's rank `R_{l+1}` (the divisor `unravel_index` uses) and
    the pivots of the right-to-left sweep;
    `p` = the tensor's left boundary rank (1, or `R` when its first core is a CP factor) -/
theorem evaluate_at_grid (p : Nat) (pre : List (Mode R × (Nat → Nat))) (m : Mode R) (post : List (Mode R × Nat × (Nat → Nat)))
    (hw : wfRevP p (pre.map (·.1))) (hm : m.rl = topRankP p (pre.map (·.1))) (a i b : Nat) :
    evalPoint (linterface pre) m (rinterface post) a i b =
      dense ((pre.map (·.1)).reverse ++ m :: post.map (·.1))
        ((lsetsRev (llevels pre) a).reverse ++ i :: rsetsOf (rlevels post) b) := by
  obtain ⟨w1, w2⟩ := wfRevP_forward p _ hw
  have hlen : (lsetsRev (llevels pre) a).reverse.length = ((pre.map (·.1)).reverse).length := by
    simp [lsetsRev_length, llevels]
  -- right-hand side: the boundary rows of the tail of the whole chain, summed
  have hd : dense ((pre.map (·.1)).reverse ++ m :: post.map (·.1)) ((lsetsRev (llevels pre) a).reverse ++ i :: rsetsOf (rlevels post) b) =
      ∑ s ∈ range p, tail ((pre.map (·.1)).reverse ++ m :: post.map (·.1))
        ((lsetsRev (llevels pre) a).reverse ++ i :: rsetsOf (rlevels post) b) s := by
    cases hf : (pre.map (·.1)).reverse with
    | nil =>
      have hnil : pre.map (·.1) = [] := by simpa using hf
      have : m.rl = p := by rw [hm, hnil]; rfl
      simp [dense, this, sumTo_eq]
    | cons x xs =>
      rw [hf] at w1
      have : x.rl = p := w1.1
      simp [dense, this, sumTo_eq]
  have ht : ∀ s ∈ range p, tail ((pre.map (·.1)).reverse ++ m :: post.map (·.1))
        ((lsetsRev (llevels pre) a).reverse ++ i :: rsetsOf (rlevels post) b) s =
      ∑ c ∈ range m.rl, chainMat (pre.map (·.1)).reverse (lsetsRev (llevels pre) a).reverse s c *
        tail (m :: post.map (·.1)) (i :: rsetsOf (rlevels post) b) c := by
    intro s hs
    rw [tail_append _ _ p _ _ s w1 (Finset.mem_range.mp hs) hlen, w2, ← hm]
  rw [hd, Finset.sum_congr rfl ht, Finset.sum_comm]
  simp only [evalPoint, sumTo_eq, tail]
  apply Finset.sum_congr rfl; intro c hc
  have hc' : c < topRankP p (pre.map (·.1)) := by rw [← hm]; exact Finset.mem_range.mp hc
  rw [← Finset.sum_mul, ← linterface_eq_chainMat p pre hw a c hc', Finset.mul_sum]
  apply Finset.sum_congr rfl; intro q _
  rw [rinterface_eq_tail]
  ring

/-- the hypotheses are satisfiable with a non-trivial prefix: one earlier mode of ranks 1 → 2, current mode with left rank 2 -/
example : let m0 : Mode Int := { rl := 1, rr := 2, n := 3, G := fun i _ b => (i + b : Int) }
    let pre : List (Mode Int × (Nat → Nat)) := [(m0, fun (_ : Nat) => (0 : Nat))]
    wfRevP 1 (pre.map (·.1)) ∧ 2 = topRankP 1 (pre.map (·.1)) :=
  ⟨⟨rfl, trivial⟩, rfl⟩
end evaluation

/-- the contraction patterns of `cross.py` the design was written against, re-extracted on every run -/
theorem einsums_from_source :
    Generated.einsum_cross_cross = ["ab,bac->ac", "ab,ab->ab", "abc,cb->ab", "ab,ba->ba"] ∧
    Generated.einsum_cross_cross_evaluate_function = ["ab,bcd,de->ace", "ab,cb,bd->acd"] ∧
    Generated.einsum_cross_init_interfaces = ["abc,cb->ab", "ab,ba->ba"] := ⟨rfl, rfl, rfl⟩

end TN.C08
