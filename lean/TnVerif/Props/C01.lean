import TnVerif.Lemmas.FullRank
/-!
# C01 — lossless compression round-trip and format independence

For every number of modes, every mode size (including 1), every rank and every per-mode format.
Orthogonalisation and rounding at the default tolerance are covered by C13 (`Q·R = A` only) and
C04; here are construction, Tucker decompression, the cast to pure TT, cloning, transposition
and the accessors.
-/
namespace TN.C01
open TN
variable {R : Type} [CommSemiring R]

/-- **round-trip**: `Tensor(x).torch() = x` — the chain built by `_full_rank_tt` from a dense array
    (row-major entries `x`) decompresses to that array. -/
theorem roundtrip (shape : List Nat) (x : Nat → R) (hne : shape ≠ []) (idx : List Nat) (h : inShape idx shape) :
    (fullRankTT shape x).dense idx = x (flat idx shape) :=
  dense_fullRankTT shape x idx h hne

/-- the tensor built from a dense array reports that array's shape -/
theorem roundtrip_shape (shape : List Nat) (x : Nat → R) : (fullRankTT shape x).shape = shape := by
  cases shape with
  | nil => rfl
  | cons s rest =>
    simp only [fullRankTT]
    generalize Resh.ofArray s rest.prod x = st
    induction rest generalizing s st with
    | nil => simp [fullRankLoop, Tensor.shape, TMode.n]
    | cons s' rest ih =>
      simp only [fullRankLoop]
      split <;> simp only [Tensor.shape, List.map_cons, TMode.n_none, Core.tt_spatial, List.cons.injEq, true_and] <;> exact ih _ _

/-- absorbing all Tucker factors never changes the array -/
theorem decompress_dense (t : Tensor R) (idx : List Nat) : t.decompAll.dense idx = t.dense idx := by
  unfold Tensor.dense; rw [modes_decompAll]

/-- absorbing the Tucker factors of any subset of modes never changes the array -/
theorem decompress_some_dense (t : Tensor R) (bs : List Bool) (idx : List Nat) :
    (t.decompSome bs).dense idx = t.dense idx := by
  unfold Tensor.dense; rw [modes_decompSome]

/-- casting to pure TT (`t.tt()`) never changes the array -/
theorem tt_dense (t : Tensor R) (ht : t.WF) (idx : List Nat) : t.tt.dense idx = t.dense idx := by
  unfold Tensor.tt Tensor.dense
  have hw : t.decompAll.WF := by
    cases t with
    | nil => exact ht
    | cons m ms =>
      have : ∀ (u : Tensor R) p, Tensor.WFfrom p u → Tensor.WFfrom p u.decompAll := by
        intro u; induction u with
        | nil => intro p h; exact h
        | cons x xs ih =>
          intro p h
          exact ⟨by simpa using h.1, trivial, by simpa [Tensor.decompAll] using ih _ h.2.2⟩
      have h := this (m :: ms) _ ht
      simpa [Tensor.WF, Tensor.decompAll] using h
  rw [dense_cpToTTAll _ hw, modes_decompAll]

omit [CommSemiring R] in
/-- `clone()` never changes the array, the format or the ranks -/
theorem clone_eq (t : Tensor R) : t.clone = t := rfl

/-- `tn.transpose(t)` reverses the mode order: its entry at the reversed index is the original entry -/
theorem transpose_dense (t : Tensor R) (ht : t.WF) (idx : List Nat) (hi : idx.length = t.length) :
    t.transpose.dense idx.reverse = t.dense idx := by
  unfold Tensor.dense Tensor.transpose
  have hm : Tensor.modes ((t.map fun m => { m with core := m.core.rev }).reverse) = revT t.modes := by
    simp only [Tensor.modes, revT, List.map_reverse, List.map_map]
    congr 1
    apply List.map_congr_left
    intro m _
    obtain ⟨c, U⟩ := m
    exact toMode_rev c U
  rw [hm]
  apply dense_revT
  · intro m hm
    cases t with
    | nil => simp [Tensor.modes] at hm
    | cons x xs =>
      simp only [Tensor.modes, List.map_cons, List.head?_cons, Option.mem_def, Option.some.injEq] at hm
      subst hm
      exact wf_modes _ _ ht
  · simpa [Tensor.modes] using hi

/-- the reported shape is the shape of the chain the tensor decompresses through -/
theorem shape_eq (t : Tensor R) : t.shape = t.modes.map (·.n) := by
  simp [Tensor.shape, Tensor.modes, List.map_map, Function.comp_def]

/-- the reported TT ranks are the bond sizes of that chain -/
theorem ranksTT_eq (m : TMode R) (ms : Tensor R) :
    Tensor.ranksTT (m :: ms) = m.toMode.rl :: (Tensor.modes (m :: ms)).map (·.rr) := by
  simp [Tensor.ranksTT, Tensor.modes, List.map_map, Function.comp_def]

/-! non-vacuity -/
example : (fullRankTT [2, 1, 3] (fun k => (k : Int))).dense [1, 0, 2] = 5 := by
  rw [roundtrip [2, 1, 3] _ (by simp) [1, 0, 2] (by simp [inShape])]; rfl

end TN.C01
