import TnVerif.Lemmas.Arith
import TnVerif.Lemmas.Reverse
import TnVerif.Model.Automata
/-!
# C16 — weight automata accept exactly the strings they describe

For every number of symbols `N`, every alphabet size per position and every weight set: by induction on
the chain of shift-register cores.
-/
namespace TN.C16
open TN Finset
variable {R : Type} [CommSemiring R]

theorem natCast'_add (a b : Nat) : (natCast' (a + b) : R) = natCast' a + natCast' b := by
  induction b with
  | zero => simp [natCast']
  | succ b ih => rw [← Nat.add_assoc]; simp [natCast', ih, add_assoc]

theorem countW_ge (W : List Nat) (r k : Nat) (hW : ∀ w ∈ W, w < r) (hk : r ≤ k) : (countW W k : R) = 0 := by
  have : W.count k = 0 := List.count_eq_zero.mpr (fun h => by have := hW k h; omega)
  simp [countW, this, natCast']

/-- the shift-register suffix of `weight_mask`: from state `a`, the remaining symbols lead to an
    accepted total iff `a + Σ symbols ∈ W` (counted with multiplicity) -/
theorem tail_maskGo (W : List Nat) (r : Nat) (hW : ∀ w ∈ W, w < r) (rest : List Nat) : ∀ (is : List Nat) (a : Nat),
    rest ≠ [] → is.length = rest.length →
    tail (Tensor.modes (weightMask.go (R := R) W r rest)) is a = countW W (a + is.sum) := by
  induction rest with
  | nil => intro is a h; exact absurd rfl h
  | cons x xs ih =>
    intro is a _ hi
    cases is with
    | nil => simp at hi
    | cons i is =>
      cases xs with
      | nil =>
        have : is = [] := List.length_eq_zero_iff.mp (by simpa using hi)
        subst this
        simp [weightMask.go, Tensor.modes, tail, sumTo_eq, TMode.toMode_G]
      | cons y ys =>
        have ih' := fun b => ih is b (by simp) (by simpa using hi)
        simp only [weightMask.go, Tensor.modes, List.map_cons, tail, sumTo_eq, shiftCore, TMode.toMode_rr, Core.tt_rr,
          TMode.toMode_G, TMode.decomp_none, Core.tt_get, List.sum_cons] at ih' ⊢
        by_cases h : a + i < r
        · rw [Finset.sum_eq_single (a + i)]
          · simp only [if_true, one_mul]
            rw [ih' (a + i)]
            congr 1; omega
          · intro b _ hb; simp [hb]
          · intro hh; exact absurd (Finset.mem_range.mpr h) hh
        · rw [countW_ge W r _ hW (by omega)]
          apply Finset.sum_eq_zero
          intro b hb
          have := Finset.mem_range.mp hb
          have : ¬ b = a + i := by omega
          simp [this]

/-- **`weight_mask`**: the value at a string is the number of listed weights equal to the sum of its
    symbols — 1 iff the sum is a requested weight (for a duplicate-free list), 0 otherwise. -/
theorem weightMask_dense (W : List Nat) (r : Nat) (hW : ∀ w ∈ W, w < r) (nss : List Nat) (idx : List Nat)
    (hne : nss ≠ []) (hi : idx.length = nss.length) :
    (weightMask (R := R) W r nss).dense idx = countW W idx.sum := by
  cases nss with
  | nil => exact absurd rfl hne
  | cons ns rest =>
    cases idx with
    | nil => simp at hi
    | cons s is =>
      cases rest with
      | nil =>
        have : is = [] := List.length_eq_zero_iff.mp (by simpa using hi)
        subst this
        simp [weightMask, Tensor.dense, Tensor.modes, dense, tail, sumTo_eq, TMode.toMode_G]
      | cons y ys =>
        have ht := fun b => tail_maskGo (R := R) W r hW (y :: ys) is b (by simp) (by simpa using hi)
        simp only [weightMask, Tensor.dense, Tensor.modes, List.map_cons, dense, tail, sumTo_eq, TMode.toMode_rl,
          TMode.toMode_rr, Core.tt_rl, Core.tt_rr, TMode.toMode_G, TMode.decomp_none, Core.tt_get, Finset.sum_range_one,
          List.sum_cons] at ht ⊢
        by_cases h : s < r
        · rw [Finset.sum_eq_single s]
          · simp only [if_true, one_mul]
            rw [ht s]
          · intro b _ hb; simp [hb]
          · intro hh; exact absurd (Finset.mem_range.mpr h) hh
        · rw [countW_ge W r _ hW (by omega)]
          apply Finset.sum_eq_zero
          intro b hb
          have := Finset.mem_range.mp hb
          have : ¬ b = s := by omega
          simp [this]

/-- for a duplicate-free weight list the mask is 0/1-valued: 1 exactly on the requested weights -/
theorem countW_nodup (W : List Nat) (hn : W.Nodup) (k : Nat) : (countW W k : R) = if k ∈ W then 1 else 0 := by
  by_cases h : k ∈ W
  · simp [countW, List.count_eq_one_of_mem hn h, h, natCast']
  · simp [countW, List.count_eq_zero.mpr h, h, natCast']

/-! ### `weight` -/
theorem tail_weightRest (ns n : Nat) : ∀ (is : List Nat) (a : Nat), is.length = n + 1 → a < 2 →
    tail (Tensor.modes (List.replicate n
        ({ core := .tt 2 ns 2 (fun a s b => if a = 1 ∧ b = 0 then natCast' s else if a = b then 1 else 0), U := Option.none } : TMode R)
      ++ [{ core := .tt 2 ns 1 (fun a s _ => if a = 1 then natCast' s else 1), U := Option.none }])) is a =
      if a = 1 then natCast' is.sum else 1 := by
  induction n with
  | zero =>
    intro is a hi ha
    match is, hi with
    | [s], _ => simp [Tensor.modes, tail, sumTo_eq, TMode.toMode_G]
  | succ n ih =>
    intro is a hi ha
    cases is with
    | nil => simp at hi
    | cons i is =>
      have h0 := ih is 0 (by simpa using hi) (by omega)
      have h1 := ih is 1 (by simpa using hi) (by omega)
      simp only [List.replicate_succ, List.cons_append, Tensor.modes, List.map_cons, tail, sumTo_eq, TMode.toMode_rr,
        Core.tt_rr, TMode.toMode_G, TMode.decomp_none, Core.tt_get, List.sum_cons] at h0 h1 ⊢
      rw [Finset.sum_range_succ, Finset.sum_range_one]
      rw [h0, h1]
      have : a = 0 ∨ a = 1 := by omega
      rcases this with rfl | rfl
      · simp
      · simp [natCast'_add]

/-- **`weight`**: the value at a string is the sum of its symbols. -/
theorem weight_dense (ns N : Nat) (idx : List Nat) (hN : 0 < N) (hi : idx.length = N) :
    (weightT (R := R) ns N).dense idx = natCast' idx.sum := by
  match N, hN, idx, hi with
  | 1, _, [s], _ => simp [weightT, Tensor.dense, Tensor.modes, dense, tail, sumTo_eq, TMode.toMode_G]
  | n + 2, _, s :: is, hi =>
    have h0 := tail_weightRest (R := R) ns n is 0 (by simpa using hi) (by omega)
    have h1 := tail_weightRest (R := R) ns n is 1 (by simpa using hi) (by omega)
    simp only [weightT, Tensor.dense, Tensor.modes, List.map_cons, dense, tail, sumTo_eq, TMode.toMode_rl, TMode.toMode_rr,
      Core.tt_rl, Core.tt_rr, TMode.toMode_G, TMode.decomp_none, Core.tt_get, Finset.sum_range_one, List.sum_cons] at h0 h1 ⊢
    rw [Finset.sum_range_succ, Finset.sum_range_one]
    rw [h0, h1]
    simp [natCast'_add]

/-! ### `weight_one_hot` : the open trailing bond carries the one-hot vector of the sum -/
theorem chainMat_shift (r : Nat) (rest : List Nat) : ∀ (is : List Nat) (a b : Nat), is.length = rest.length → b < r →
    chainMat (Tensor.modes (rest.map (shiftCore (R := R) r))) is a b = if b = a + is.sum then 1 else 0 := by
  induction rest with
  | nil => intro is a b hi _; cases is <;> simp_all [Tensor.modes, chainMat, eq_comm]
  | cons x xs ih =>
    intro is a b hi hb
    cases is with
    | nil => simp at hi
    | cons i is =>
      have ih' := fun c => ih is c b (by simpa using hi) hb
      simp only [List.map_cons, Tensor.modes, chainMat, shiftCore, TMode.toMode_rr, Core.tt_rr, TMode.toMode_G,
        TMode.decomp_none, Core.tt_get, List.sum_cons] at ih' ⊢
      by_cases h : a + i < r
      · rw [Finset.sum_eq_single (a + i)]
        · simp only [if_true, one_mul]
          rw [ih' (a + i)]
          have : a + i + is.sum = a + (i + is.sum) := by omega
          rw [this]; rfl
        · intro c _ hc; simp [hc]
        · intro hh; exact absurd (Finset.mem_range.mpr h) hh
      · have hne : ¬ b = a + (i + is.sum) := by omega
        simp only [hne, if_false]
        apply Finset.sum_eq_zero
        intro c hc
        have := Finset.mem_range.mp hc
        have : ¬ c = a + i := by omega
        simp [this]

/-- **`weight_one_hot`**: entry `k` of the trailing bond is 1 iff the symbols sum to `k` (sums `≥ r`
    overflow and are dropped). -/
theorem oneHot_spec (r ns : Nat) (rest : List Nat) (s : Nat) (is : List Nat) (k : Nat) (hi : is.length = rest.length)
    (hk : k < r) :
    chainMat (Tensor.modes (weightOneHot (R := R) r (ns :: rest))) (s :: is) 0 k = if k = s + is.sum then 1 else 0 := by
  have h := fun c => chainMat_shift (R := R) r rest is c k hi hk
  simp only [weightOneHot, Tensor.modes, List.map_cons, chainMat, TMode.toMode_rr, Core.tt_rr, TMode.toMode_G,
    TMode.decomp_none, Core.tt_get] at h ⊢
  by_cases hs : s < r
  · rw [Finset.sum_eq_single s]
    · simp only [if_true, one_mul]
      rw [h s]
    · intro c _ hc; simp [hc]
    · intro hh; exact absurd (Finset.mem_range.mpr hs) hh
  · have hne : ¬ k = s + is.sum := by omega
    simp only [hne, if_false]
    apply Finset.sum_eq_zero
    intro c hc
    have := Finset.mem_range.mp hc
    have : ¬ c = s := by omega
    simp [this]

end TN.C16
