import TnVerif.Lemmas.Arith
import TnVerif.Lemmas.Reverse
import TnVerif.Model.Automata
import TnVerif.Lemmas.AcceptedArr
import TnVerif.Lemmas.AcceptedTT
import TnVerif.Lemmas.AcceptedSum
import TnVerif.Props.C01
/-!
# C16 — weight automata accept exactly the strings they describe

For every number of symbols `N`, every alphabet size per position and every weight set: by induction on
the chain of shift-register cores.
-/
namespace TN.C16
open TN Finset
variable {R : Type} [CommSemiring R]

theorem natCast'_add (a b : Nat) : (natCast' (a + b) : R) = natCast' a + natCast' b := by
  induction b with
  | zero => simp [natCast']
  | succ b ih => rw [← Nat.add_assoc]; simp [natCast', ih, add_assoc]

theorem countW_ge (W : List Nat) (r k : Nat) (hW : ∀ w ∈ W, w < r) (hk : r ≤ k) : (countW W k : R) = 0 := by
  have : W.count k = 0 := List.count_eq_zero.mpr (fun h => by have := hW k h; omega)
  simp [countW, this, natCast']

/-- the shift-register suffix of `weight_mask`: from state `a`, the remaining symbols lead to an
    accepted total iff `a + Σ symbols ∈ W` (counted with multiplicity) -/
theorem tail_maskGo (W : List Nat) (r : Nat) (hW : ∀ w ∈ W, w < r) (rest : List Nat) : ∀ (is : List Nat) (a : Nat),
    rest ≠ [] → is.length = rest.length →
    tail (Tensor.modes (weightMask.go (R := R) W r rest)) is a = countW W (a + is.sum) := by
  induction rest with
  | nil => intro is a h; exact absurd rfl h
  | cons x xs ih =>
    intro is a _ hi
    cases is with
    | nil => simp at hi
    | cons i is =>
      cases xs with
      | nil =>
        have : is = [] := List.length_eq_zero_iff.mp (by simpa using hi)
        subst this
        simp [weightMask.go, Tensor.modes, tail, sumTo_eq, TMode.toMode_G]
      | cons y ys =>
        have ih' := fun b => ih is b (by simp) (by simpa using hi)
        simp only [weightMask.go, Tensor.modes, List.map_cons, tail, sumTo_eq, shiftCore, TMode.toMode_rr, Core.tt_rr,
          TMode.toMode_G, TMode.decomp_none, Core.tt_get, List.sum_cons] at ih' ⊢
        by_cases h : a + i < r
        · rw [Finset.sum_eq_single (a + i)]
          · simp only [if_true, one_mul]
            rw [ih' (a + i)]
            congr 1; omega
          · intro b _ hb; simp [hb]
          · intro hh; exact absurd (Finset.mem_range.mpr h) hh
        · rw [countW_ge W r _ hW (by omega)]
          apply Finset.sum_eq_zero
          intro b hb
          have := Finset.mem_range.mp hb
          have : ¬ b = a + i := by omega
          simp [this]

/-- **`weight_mask`**: the value at a string is the number of listed weights equal to the sum of its
    symbols — 1 iff the sum is a requested weight (for a duplicate-free list), 0 otherwise. -/
theorem weightMask_dense (W : List Nat) (r : Nat) (hW : ∀ w ∈ W, w < r) (nss : List Nat) (idx : List Nat)
    (hne : nss ≠ []) (hi : idx.length = nss.length) :
    (weightMask (R := R) W r nss).dense idx = countW W idx.sum := by
  cases nss with
  | nil => exact absurd rfl hne
  | cons ns rest =>
    cases idx with
    | nil => simp at hi
    | cons s is =>
      cases rest with
      | nil =>
        have : is = [] := List.length_eq_zero_iff.mp (by simpa using hi)
        subst this
        simp [weightMask, Tensor.dense, Tensor.modes, dense, tail, sumTo_eq, TMode.toMode_G]
      | cons y ys =>
        have ht := fun b => tail_maskGo (R := R) W r hW (y :: ys) is b (by simp) (by simpa using hi)
        simp only [weightMask, Tensor.dense, Tensor.modes, List.map_cons, dense, tail, sumTo_eq, TMode.toMode_rl,
          TMode.toMode_rr, Core.tt_rl, Core.tt_rr, TMode.toMode_G, TMode.decomp_none, Core.tt_get, Finset.sum_range_one,
          List.sum_cons] at ht ⊢
        by_cases h : s < r
        · rw [Finset.sum_eq_single s]
          · simp only [if_true, one_mul]
            rw [ht s]
          · intro b _ hb; simp [hb]
          · intro hh; exact absurd (Finset.mem_range.mpr h) hh
        · rw [countW_ge W r _ hW (by omega)]
          apply Finset.sum_eq_zero
          intro b hb
          have := Finset.mem_range.mp hb
          have : ¬ b = s := by omega
          simp [this]

/-- for a duplicate-free weight list the mask is 0/1-valued: 1 exactly on the requested weights -/
theorem countW_nodup (W : List Nat) (hn : W.Nodup) (k : Nat) : (countW W k : R) = if k ∈ W then 1 else 0 := by
  by_cases h : k ∈ W
  · simp [countW, List.count_eq_one_of_mem hn h, h, natCast']
  · simp [countW, List.count_eq_zero.mpr h, h, natCast']

/-! ### `weight` -/
theorem tail_weightRest (ns n : Nat) : ∀ (is : List Nat) (a : Nat), is.length = n + 1 → a < 2 →
    tail (Tensor.modes (List.replicate n
        ({ core := .tt 2 ns 2 (fun a s b => if a = 1 ∧ b = 0 then natCast' s else if a = b then 1 else 0), U := Option.none } : TMode R)
      ++ [{ core := .tt 2 ns 1 (fun a s _ => if a = 1 then natCast' s else 1), U := Option.none }])) is a =
      if a = 1 then natCast' is.sum else 1 := by
  induction n with
  | zero =>
    intro is a hi ha
    match is, hi with
    | [s], _ => simp [Tensor.modes, tail, sumTo_eq, TMode.toMode_G]
  | succ n ih =>
    intro is a hi ha
    cases is with
    | nil => simp at hi
    | cons i is =>
      have h0 := ih is 0 (by simpa using hi) (by omega)
      have h1 := ih is 1 (by simpa using hi) (by omega)
      simp only [List.replicate_succ, List.cons_append, Tensor.modes, List.map_cons, tail, sumTo_eq, TMode.toMode_rr,
        Core.tt_rr, TMode.toMode_G, TMode.decomp_none, Core.tt_get, List.sum_cons] at h0 h1 ⊢
      rw [Finset.sum_range_succ, Finset.sum_range_one]
      rw [h0, h1]
      have : a = 0 ∨ a = 1 := by omega
      rcases this with rfl | rfl
      · simp
      · simp [natCast'_add]

/-- **`weight`**: the value at a string is the sum of its symbols. -/
theorem weight_dense (ns N : Nat) (idx : List Nat) (hN : 0 < N) (hi : idx.length = N) :
    (weightT (R := R) ns N).dense idx = natCast' idx.sum := by
  match N, hN, idx, hi with
  | 1, _, [s], _ => simp [weightT, Tensor.dense, Tensor.modes, dense, tail, sumTo_eq, TMode.toMode_G]
  | n + 2, _, s :: is, hi =>
    have h0 := tail_weightRest (R := R) ns n is 0 (by simpa using hi) (by omega)
    have h1 := tail_weightRest (R := R) ns n is 1 (by simpa using hi) (by omega)
    simp only [weightT, Tensor.dense, Tensor.modes, List.map_cons, dense, tail, sumTo_eq, TMode.toMode_rl, TMode.toMode_rr,
      Core.tt_rl, Core.tt_rr, TMode.toMode_G, TMode.decomp_none, Core.tt_get, Finset.sum_range_one, List.sum_cons] at h0 h1 ⊢
    rw [Finset.sum_range_succ, Finset.sum_range_one]
    rw [h0, h1]
    simp [natCast'_add]

/-! ### `weight_one_hot` : the open trailing bond carries the one-hot vector of the sum -/
theorem chainMat_shift (r : Nat) (rest : List Nat) : ∀ (is : List Nat) (a b : Nat), is.length = rest.length → b < r →
    chainMat (Tensor.modes (rest.map (shiftCore (R := R) r))) is a b = if b = a + is.sum then 1 else 0 := by
  induction rest with
  | nil => intro is a b hi _; cases is <;> simp_all [Tensor.modes, chainMat, eq_comm]
  | cons x xs ih =>
    intro is a b hi hb
    cases is with
    | nil => simp at hi
    | cons i is =>
      have ih' := fun c => ih is c b (by simpa using hi) hb
      simp only [List.map_cons, Tensor.modes, chainMat, shiftCore, TMode.toMode_rr, Core.tt_rr, TMode.toMode_G,
        TMode.decomp_none, Core.tt_get, List.sum_cons] at ih' ⊢
      by_cases h : a + i < r
      · rw [Finset.sum_eq_single (a + i)]
        · simp only [if_true, one_mul]
          rw [ih' (a + i)]
          have : a + i + is.sum = a + (i + is.sum) := by omega
          rw [this]; rfl
        · intro c _ hc; simp [hc]
        · intro hh; exact absurd (Finset.mem_range.mpr h) hh
      · have hne : ¬ b = a + (i + is.sum) := by omega
        simp only [hne, if_false]
        apply Finset.sum_eq_zero
        intro c hc
        have := Finset.mem_range.mp hc
        have : ¬ c = a + i := by omega
        simp [this]

/-- **`weight_one_hot`**: entry `k` of the trailing bond is 1 iff the symbols sum to `k` (sums `≥ r`
    overflow and are dropped). -/
theorem oneHot_spec (r ns : Nat) (rest : List Nat) (s : Nat) (is : List Nat) (k : Nat) (hi : is.length = rest.length)
    (hk : k < r) :
    chainMat (Tensor.modes (weightOneHot (R := R) r (ns :: rest))) (s :: is) 0 k = if k = s + is.sum then 1 else 0 := by
  have h := fun c => chainMat_shift (R := R) r rest is c k hi hk
  simp only [weightOneHot, Tensor.modes, List.map_cons, chainMat, TMode.toMode_rr, Core.tt_rr, TMode.toMode_G,
    TMode.decomp_none, Core.tt_get] at h ⊢
  by_cases hs : s < r
  · rw [Finset.sum_eq_single s]
    · simp only [if_true, one_mul]
      rw [h s]
    · intro c _ hc; simp [hc]
    · intro hh; exact absurd (Finset.mem_range.mpr hs) hh
  · have hne : ¬ k = s + is.sum := by omega
    simp only [hne, if_false]
    apply Finset.sum_eq_zero
    intro c hc
    have := Finset.mem_range.mp hc
    have : ¬ c = s := by omega
    simp [this]


/-! ### `accepted_inputs` : the depth-first listing of the accepted strings

`acceptedSpec shape v` is the specification, defined independently of the code: the indices of the box
in lexicographic order (`lexBox`), each index `idx` repeated `v idx` times.  `toNat` stands for the
rounding of the code (`.double().round()` … `.long()`, and Python's `round` of the total); all that is
assumed of it is that it returns `n` on the scalar `n`. -/

/-- **`accepted_inputs`, pure-TT input**: for a well-formed tensor in pure TT format with boundary
    ranks 1 whose entries are the natural numbers `v idx`, the returned matrix lists every index of the
    box, in lexicographic order, `v idx` times — i.e. exactly the indices with a non-zero entry, each
    repeated as many times as its value, in alphabetical order; no reserved row is left unfilled and
    nothing is written outside the rows reserved for it. -/
theorem accepted_inputs_spec (toNat : R → Nat) (htn : ∀ n : Nat, toNat (n : R) = n)
    (t : Tensor R) (ht : t.WF) (hp : t.isPureTT = true) (hb : t.boundaryOne = true)
    (v : List Nat → Nat) (hv : ∀ idx, inShape idx t.shape → t.dense idx = (v idx : R)) :
    t.acceptedInputs toNat = some (acceptedSpec t.shape v) := by
  have hnf := noFac_of_pure t hp
  cases t with
  | nil => exact absurd ht (by simp [Tensor.WF])
  | cons m ms =>
    have hsum : toNat (sumAllTT (m :: ms)) = boxSum (Tensor.shape (m :: ms)) v := by
      rw [sumAllTT_eq _ hnf (by simp), boxSum_congr_inShape _ _ (fun idx => ((v idx : Nat) : R)) hv, ← cast_boxSum, htn]
    have hlist := acceptedList_spec toNat htn (m :: ms) m.core.rl Vec.ones v ⟨hnf, ht, by
      intro is his
      rw [← hv is his]
      simp only [resid, Vec.ones, one_mul, Tensor.dense, dense, Tensor.modes, List.map_cons, sumTo_eq, TMode.toMode_rl]⟩
    simp only [Tensor.acceptedInputs, tt_of_pure _ hp, hb, if_true, hsum, hlist]

/-- **`accepted_inputs`, any format**: the same for a well-formed tensor in any format (CP / TT cores,
    with or without Tucker factors) whose pure-TT form `t.tt()` has boundary ranks 1. -/
theorem accepted_inputs_spec_any (toNat : R → Nat) (htn : ∀ n : Nat, toNat (n : R) = n)
    (t : Tensor R) (ht : t.WF) (hb : t.tt.boundaryOne = true)
    (v : List Nat → Nat) (hv : ∀ idx, inShape idx t.shape → t.dense idx = (v idx : R)) :
    t.acceptedInputs toNat = some (acceptedSpec t.shape v) := by
  have h1 : t.acceptedInputs toNat = t.tt.acceptedInputs toNat := by
    simp only [Tensor.acceptedInputs, tt_of_pure _ (tt_pure t)]
  rw [h1, ← tt_shape t]
  apply accepted_inputs_spec toNat htn t.tt (tt_WF t ht) (tt_pure t) hb v
  intro idx hidx
  rw [C01.tt_dense t ht idx]
  exact hv idx (by rw [← tt_shape t]; exact hidx)

/-- **the array-level run agrees**: under the same hypotheses the exact sequence of writes
    `Xs[bound + c[i] : bound + c[i+1], mu] = i` into the zero matrix of `round(tn.sum(t))` rows yields
    the same matrix. -/
theorem accepted_inputs_arr_spec (toNat : R → Nat) (htn : ∀ n : Nat, toNat (n : R) = n)
    (t : Tensor R) (ht : t.WF) (hb : t.tt.boundaryOne = true)
    (v : List Nat → Nat) (hv : ∀ idx, inShape idx t.shape → t.dense idx = (v idx : R)) :
    t.acceptedInputsArr toNat = some (acceptedSpec t.shape v) := by
  rw [← accepted_inputs_spec_any toNat htn t ht hb v hv]
  apply acceptedInputsArr_eq
  have hw := tt_WF t ht
  have hnf := noFac_of_pure _ (tt_pure t)
  cases htt : t.tt with
  | nil => rw [htt] at hw; exact absurd hw (by simp [Tensor.WF])
  | cons m ms =>
    rw [htt] at hw hnf
    apply noOverflow_of_natValued toNat htn (m :: ms) m.core.rl Vec.ones (fun idx => v idx)
    refine ⟨hnf, hw, ?_⟩
    intro is his
    have hd := C01.tt_dense t ht is
    rw [htt] at hd
    rw [← hv is (by rw [← tt_shape t, htt]; exact his), ← hd]
    simp only [resid, Vec.ones, one_mul, Tensor.dense, dense, Tensor.modes, List.map_cons, sumTo_eq, TMode.toMode_rl]

/-- **refinement** (no hypothesis on the values): whenever no call of the recursion fills in more rows
    than its caller reserved for it, the array-level model and the list-level model return the same
    matrix. -/
theorem accepted_inputs_arr_refines {S : Type} [Zero S] [One S] [Add S] [Mul S] (toNat : S → Nat) (t : Tensor S)
    (h : NoOverflow toNat t.tt (rightsList t.tt).tail Vec.ones) :
    t.acceptedInputsArr toNat = t.acceptedInputs toNat :=
  acceptedInputsArr_eq toNat t h

/-- **number of rows**: the matrix allocated by the code, with `round(tn.sum(t))` rows, has exactly as
    many rows as there are accepted strings counted with multiplicity, `Σ_idx v idx`. -/
theorem accepted_inputs_length (toNat : R → Nat) (htn : ∀ n : Nat, toNat (n : R) = n)
    (t : Tensor R) (ht : t.WF) (hb : t.tt.boundaryOne = true)
    (v : List Nat → Nat) (hv : ∀ idx, inShape idx t.shape → t.dense idx = (v idx : R)) :
    toNat (sumAllTT t.tt) = boxSum t.shape v ∧
    ∃ out, t.acceptedInputs toNat = some out ∧ out.length = boxSum t.shape v := by
  refine ⟨?_, _, accepted_inputs_spec_any toNat htn t ht hb v hv, length_acceptedSpec _ _⟩
  have hw := tt_WF t ht
  rw [sumAllTT_eq _ (noFac_of_pure _ (tt_pure t)) (by intro h; rw [h] at hw; exact hw), tt_shape,
    boxSum_congr_inShape _ _ (fun idx => ((v idx : Nat) : R)) (fun idx hidx => by rw [C01.tt_dense t ht idx]; exact hv idx hidx),
    ← cast_boxSum, htn]

/-- the scalar `sumAllTT` whose rounding is the number of allocated rows is exactly what the model of
    `tn.sum(t)` (all modes summed: `tn.ttm` with ones, then `tn.squeeze`) returns on a pure-TT tensor;
    by `accepted_inputs_length` it equals `Σ_idx t[idx]`. -/
theorem accepted_rows_eq_tn_sum (t : Tensor R) (hp : t.isPureTT = true) (hne : t ≠ []) :
    t.sum (List.replicate t.length true) = .ok (.inr (sumAllTT t)) :=
  sum_all_eq t hp hne

/-- **order**: the returned rows are sorted lexicographically (weakly: equal rows are adjacent). -/
theorem accepted_inputs_sorted (toNat : R → Nat) (htn : ∀ n : Nat, toNat (n : R) = n)
    (t : Tensor R) (ht : t.WF) (hb : t.tt.boundaryOne = true)
    (v : List Nat → Nat) (hv : ∀ idx, inShape idx t.shape → t.dense idx = (v idx : R)) :
    ∃ out, t.acceptedInputs toNat = some out ∧ out.Pairwise (fun a b => a < b ∨ a = b) :=
  ⟨_, accepted_inputs_spec_any toNat htn t ht hb v hv, acceptedSpec_sorted _ _⟩

/-- **membership and multiplicity**: a row `idx` occurs in the output iff it is an index of the box
    with a non-zero entry, and every index of the box occurs exactly `v idx` times. -/
theorem accepted_inputs_count (toNat : R → Nat) (htn : ∀ n : Nat, toNat (n : R) = n)
    (t : Tensor R) (ht : t.WF) (hb : t.tt.boundaryOne = true)
    (v : List Nat → Nat) (hv : ∀ idx, inShape idx t.shape → t.dense idx = (v idx : R)) :
    ∃ out, t.acceptedInputs toNat = some out ∧
      (∀ idx, idx ∈ out ↔ inShape idx t.shape ∧ v idx ≠ 0) ∧
      (∀ idx, inShape idx t.shape → out.count idx = v idx) :=
  ⟨_, accepted_inputs_spec_any toNat htn t ht hb v hv, mem_acceptedSpec _ _, count_acceptedSpec _ _⟩

/-! non-vacuity: a 2 × 3 tensor with entries `[[2, 0, 1], [0, 3, 0]]` in pure TT format over ℕ (rounding = identity) -/
def exT : Tensor Nat :=
  [ { core := .tt 1 2 2 (fun _ s b => if b = s then 1 else 0), U := none },
    { core := .tt 2 3 1 (fun a s _ => if a = 0 then (if s = 0 then 2 else if s = 2 then 1 else 0)
                                        else (if s = 1 then 3 else 0)), U := none } ]
def exV : List Nat → Nat
  | [0, 0] => 2 | [0, 2] => 1 | [1, 1] => 3 | _ => 0

/-- the hypotheses of `accepted_inputs_spec` hold for `exT` with the values `exV` -/
example : exT.WF ∧ exT.isPureTT = true ∧ exT.boundaryOne = true ∧
    (∀ idx, inShape idx exT.shape → exT.dense idx = (exV idx : Nat)) := by
  refine ⟨by simp [exT, Tensor.WF, Tensor.WFfrom, TMode.ok], by decide, by decide, ?_⟩
  intro idx h
  match idx, h with
  | [i, j], h =>
    simp only [exT, Tensor.shape, List.map_cons, List.map_nil, TMode.n, Core.spatial, inShape] at h
    obtain ⟨hi, hj, _⟩ := h
    have h1 : i = 0 ∨ i = 1 := by omega
    have h2 : j = 0 ∨ j = 1 ∨ j = 2 := by omega
    rcases h1 with rfl | rfl <;> rcases h2 with rfl | rfl | rfl <;> decide
/-- and both models compute the listing -/
example : exT.acceptedInputs id = some [[0,0],[0,0],[0,2],[1,1],[1,1],[1,1]] := by decide
example : exT.acceptedInputsArr id = some [[0,0],[0,0],[0,2],[1,1],[1,1],[1,1]] := by decide
example : acceptedSpec [2, 3] exV = [[0,0],[0,0],[0,2],[1,1],[1,1],[1,1]] := by decide
/-- the order used by `accepted_inputs_sorted` is the lexicographic order of lists -/
example : ([0, 2] : List Nat) < [1, 0] ∧ ([1, 0] : List Nat) < [1, 0, 0] ∧ ¬ ([1, 1] : List Nat) < [1, 0] := by decide

/-! the same array in CP format (rank 2): `accepted_inputs_spec_any` applies — `t.tt()` has boundary ranks 1 -/
def exCP : Tensor Nat :=
  [ { core := .cp 2 2 (fun s k => if s = k then 1 else 0), U := none },
    { core := .cp 3 2 (fun s k => if k = 0 then (if s = 0 then 2 else if s = 2 then 1 else 0)
                                    else (if s = 1 then 3 else 0)), U := none } ]
example : exCP.WF ∧ exCP.tt.boundaryOne = true ∧ exCP.isPureTT = false ∧
    (∀ idx, inShape idx exCP.shape → exCP.dense idx = (exV idx : Nat)) := by
  refine ⟨by simp [exCP, Tensor.WF, Tensor.WFfrom, TMode.ok, Core.rl], by decide, by decide, ?_⟩
  intro idx h
  match idx, h with
  | [i, j], h =>
    simp only [exCP, Tensor.shape, List.map_cons, List.map_nil, TMode.n, Core.spatial, inShape] at h
    obtain ⟨hi, hj, _⟩ := h
    have h1 : i = 0 ∨ i = 1 := by omega
    have h2 : j = 0 ∨ j = 1 ∨ j = 2 := by omega
    rcases h1 with rfl | rfl <;> rcases h2 with rfl | rfl | rfl <;> decide
example : exCP.acceptedInputs id = some [[0,0],[0,0],[0,2],[1,1],[1,1],[1,1]] := by decide

end TN.C16
