import TnVerif.Lemmas.Dot
import TnVerif.Props.C02
/-!
# C06 — norms, inner products and statistics equal their dense definitions

`boxSum shape f` is `Σ` of `f` over the whole index box.  All statements: any number of modes, sizes,
ranks, format mix, commutative (semi)ring.
-/
namespace TN.C06
open TN Finset
variable {R : Type}

section semiring
variable [CommSemiring R]

theorem shape_eq_modes_n (t : Tensor R) : t.shape = t.modes.map (·.n) := by
  simp [Tensor.shape, Tensor.modes, List.map_map, Function.comp_def]

/-- **inner product**: the interface sweep of `tn.dot` returns `Σ_idx t[idx]·u[idx]`. -/
theorem dot_eq (t u : Tensor R) (ht : t.WF) (hu : u.WF) (hs : t.shape = u.shape) :
    t.dot u = boxSum t.shape (fun idx => t.dense idx * u.dense idx) := by
  cases t with
  | nil => exact absurd ht (by simp [Tensor.WF])
  | cons x xs =>
    cases u with
    | nil => exact absurd hu (by simp [Tensor.WF])
    | cons y ys =>
      have hc := compat_modes _ _ hs
      have hwt := wf_modes _ _ ht
      have hwu := wf_modes _ _ hu
      simp only [Tensor.dot, Tensor.modes, List.map_cons] at hc hwt hwu ⊢
      have key := dotGo_spec _ _ (fun _ _ => (1 : R)) y.toMode.rl x.toMode.rl hwt hwu hc
      rw [key]
      simp only [one_mul]
      have e : ∀ b' ∈ range y.toMode.rl, ∀ b ∈ range x.toMode.rl,
          iface (x.toMode :: List.map TMode.toMode xs) (y.toMode :: List.map TMode.toMode ys) b b' =
          boxSum (Tensor.shape (x :: xs)) (fun is => tail (x.toMode :: List.map TMode.toMode xs) is b *
            tail (y.toMode :: List.map TMode.toMode ys) is b') := by
        intro b' _ b _
        rw [shape_eq_modes_n, ← boxSum_tail_mul _ _ hc]
        rfl
      rw [Finset.sum_congr rfl (fun b' hb' => Finset.sum_congr rfl (fun b hb => e b' hb' b hb))]
      simp only [Tensor.dense, Tensor.modes, List.map_cons, dense, sumTo_eq]
      rw [show (fun idx => (∑ a ∈ range x.toMode.rl, tail (x.toMode :: List.map TMode.toMode xs) idx a) *
            ∑ a ∈ range y.toMode.rl, tail (y.toMode :: List.map TMode.toMode ys) idx a) =
          (fun idx => ∑ b' ∈ range y.toMode.rl, ∑ b ∈ range x.toMode.rl,
            tail (x.toMode :: List.map TMode.toMode xs) idx b * tail (y.toMode :: List.map TMode.toMode ys) idx b') from by
        funext idx; rw [Finset.sum_mul_sum, Finset.sum_comm]]
      rw [boxSum_sum]
      apply Finset.sum_congr rfl; intro b' _
      rw [boxSum_sum]

/-- squared Frobenius norm -/
theorem normsq_eq (t : Tensor R) (ht : t.WF) : t.normsq = boxSum t.shape (fun idx => t.dense idx * t.dense idx) :=
  dot_eq t t ht ht rfl

/-- the inner product is symmetric -/
theorem dot_comm (t u : Tensor R) (ht : t.WF) (hu : u.WF) (hs : t.shape = u.shape) : t.dot u = u.dot t := by
  rw [dot_eq t u ht hu hs, dot_eq u t hu ht hs.symm, hs]
  congr 1; funext idx; ring

/-- **sums over modes (keepdim)**: a row of ones applied to each summed mode — the dense array is
    summed along exactly those modes (`applyMaps` with `onesL`), the others are untouched. -/
theorem sumKeep_dense (t : Tensor R) (dims : List Bool) (idx : List Nat) (hd : dims.length = t.length)
    (hi : idx.length = t.length) :
    (t.sumKeep dims).dense idx =
      applyMaps (List.zipWith (fun b (_ : TMode R) => if b then some (1, onesL) else Option.none) dims t) t.shape t.dense idx := by
  unfold Tensor.sumKeep Tensor.dense
  exact dense_linModes t _ idx (by simp [hd]) hi

end semiring

section ring
variable [CommRing R]

/-- **distance**: `‖t‖² + ‖u‖² − 2⟨t,u⟩` is the squared norm of the element-wise difference, whatever
    the sign of the inner product (the radicand `dist` clamps; commit c7b8be1) -/
theorem dist_sq (t u : Tensor R) (ht : t.WF) (hu : u.WF) (hs : t.shape = u.shape) :
    t.normsq + u.normsq - 2 * t.dot u =
      boxSum t.shape (fun idx => (t.dense idx - u.dense idx) * (t.dense idx - u.dense idx)) := by
  rw [normsq_eq t ht, normsq_eq u hu, dot_eq t u ht hu hs, ← hs]
  have h2 : (2 : R) * boxSum t.shape (fun idx => t.dense idx * u.dense idx) =
      boxSum t.shape (fun idx => 2 * (t.dense idx * u.dense idx)) := (boxSum_mul_left _ _ _).symm
  rw [h2]
  have hsub : ∀ (f g : List Nat → R), boxSum t.shape f - boxSum t.shape g = boxSum t.shape (fun i => f i + (-1) * g i) := by
    intro f g
    rw [boxSum_add, boxSum_mul_left]; ring
  rw [← boxSum_add, hsub]
  congr 1; funext idx; ring

end ring

end TN.C06
