import TnVerif.Lemmas.Dot
import TnVerif.Props.C02
import TnVerif.Props.C03
import TnVerif.Lemmas.Squeeze
/-!
# C06 — norms, inner products and statistics equal their dense definitions

`boxSum shape f` is `Σ` of `f` over the whole index box.  All statements: any number of modes, sizes,
ranks, format mix, commutative (semi)ring.
-/
namespace TN.C06
open TN Finset
variable {R : Type}

section semiring
variable [CommSemiring R]

theorem shape_eq_modes_n (t : Tensor R) : t.shape = t.modes.map (·.n) := by
  simp [Tensor.shape, Tensor.modes, List.map_map, Function.comp_def]

/-- **inner product**: the interface sweep of `tn.dot` returns `Σ_idx t[idx]·u[idx]`. -/
theorem dot_eq (t u : Tensor R) (ht : t.WF) (hu : u.WF) (hs : t.shape = u.shape) :
    t.dot u = boxSum t.shape (fun idx => t.dense idx * u.dense idx) := by
  cases t with
  | nil => exact absurd ht (by simp [Tensor.WF])
  | cons x xs =>
    cases u with
    | nil => exact absurd hu (by simp [Tensor.WF])
    | cons y ys =>
      have hc := compat_modes _ _ hs
      have hwt := wf_modes _ _ ht
      have hwu := wf_modes _ _ hu
      simp only [Tensor.dot, Tensor.modes, List.map_cons] at hc hwt hwu ⊢
      have key := dotGo_spec _ _ (fun _ _ => (1 : R)) y.toMode.rl x.toMode.rl hwt hwu hc
      rw [key]
      simp only [one_mul]
      have e : ∀ b' ∈ range y.toMode.rl, ∀ b ∈ range x.toMode.rl,
          iface (x.toMode :: List.map TMode.toMode xs) (y.toMode :: List.map TMode.toMode ys) b b' =
          boxSum (Tensor.shape (x :: xs)) (fun is => tail (x.toMode :: List.map TMode.toMode xs) is b *
            tail (y.toMode :: List.map TMode.toMode ys) is b') := by
        intro b' _ b _
        rw [shape_eq_modes_n, ← boxSum_tail_mul _ _ hc]
        rfl
      rw [Finset.sum_congr rfl (fun b' hb' => Finset.sum_congr rfl (fun b hb => e b' hb' b hb))]
      simp only [Tensor.dense, Tensor.modes, List.map_cons, dense, sumTo_eq]
      rw [show (fun idx => (∑ a ∈ range x.toMode.rl, tail (x.toMode :: List.map TMode.toMode xs) idx a) *
            ∑ a ∈ range y.toMode.rl, tail (y.toMode :: List.map TMode.toMode ys) idx a) =
          (fun idx => ∑ b' ∈ range y.toMode.rl, ∑ b ∈ range x.toMode.rl,
            tail (x.toMode :: List.map TMode.toMode xs) idx b * tail (y.toMode :: List.map TMode.toMode ys) idx b') from by
        funext idx; rw [Finset.sum_mul_sum, Finset.sum_comm]]
      rw [boxSum_sum]
      apply Finset.sum_congr rfl; intro b' _
      rw [boxSum_sum]

/-- squared Frobenius norm -/
theorem normsq_eq (t : Tensor R) (ht : t.WF) : t.normsq = boxSum t.shape (fun idx => t.dense idx * t.dense idx) :=
  dot_eq t t ht ht rfl

/-- the inner product is symmetric -/
theorem dot_comm (t u : Tensor R) (ht : t.WF) (hu : u.WF) (hs : t.shape = u.shape) : t.dot u = u.dot t := by
  rw [dot_eq t u ht hu hs, dot_eq u t hu ht hs.symm, hs]
  congr 1; funext idx; ring

/-- **sums over modes (keepdim)**: a row of ones applied to each summed mode — the dense array is
    summed along exactly those modes (`applyMaps` with `onesL`), the others are untouched. -/
theorem sumKeep_dense (t : Tensor R) (dims : List Bool) (idx : List Nat) (hd : dims.length = t.length)
    (hi : idx.length = t.length) :
    (t.sumKeep dims).dense idx =
      applyMaps (List.zipWith (fun b (_ : TMode R) => if b then some (1, onesL) else Option.none) dims t) t.shape t.dense idx := by
  unfold Tensor.sumKeep Tensor.dense
  exact dense_linModes t _ idx (by simp [hd]) hi

end semiring

section ring
variable [CommRing R]

/-- **distance**: `‖t‖² + ‖u‖² − 2⟨t,u⟩` is the squared norm of the element-wise difference, whatever
    the sign of the inner product (the radicand `dist` clamps; commit c7b8be1) -/
theorem dist_sq (t u : Tensor R) (ht : t.WF) (hu : u.WF) (hs : t.shape = u.shape) :
    t.normsq + u.normsq - 2 * t.dot u =
      boxSum t.shape (fun idx => (t.dense idx - u.dense idx) * (t.dense idx - u.dense idx)) := by
  rw [normsq_eq t ht, normsq_eq u hu, dot_eq t u ht hu hs, ← hs]
  have h2 : (2 : R) * boxSum t.shape (fun idx => t.dense idx * u.dense idx) =
      boxSum t.shape (fun idx => 2 * (t.dense idx * u.dense idx)) := (boxSum_mul_left _ _ _).symm
  rw [h2]
  have hsub : ∀ (f g : List Nat → R), boxSum t.shape f - boxSum t.shape g = boxSum t.shape (fun i => f i + (-1) * g i) := by
    intro f g
    rw [boxSum_add, boxSum_mul_left]; ring
  rw [← boxSum_add, hsub]
  congr 1; funext idx; ring

end ring

/-! ## sums and means over subsets of modes, variance, metric laws of `dist` (extension) -/

section squeeze
variable [CommSemiring R]

/-- **the squeeze step** (`tn.squeeze(result, dims)`, i.e. `result[0 at the listed modes, : elsewhere]`): for a
    well-formed tensor whose listed modes have size one the indexing never fails; if every mode is listed the
    result is the scalar entry at `(0,…,0)`, otherwise it is a well-formed tensor whose shape is the original shape with
    exactly the listed modes deleted and whose entries are the original entries (index `0` re-inserted at the
    deleted modes). -/
theorem getitem_squeeze (u : Tensor R) (hu : u.WF) (dims : List Bool) (hd : dims.length = u.length)
    (h1 : flaggedOne dims u.shape) :
    (dims.all id = true → u.getitem (squeezeKey dims) = .ok (.inr (u.dense (List.replicate u.length 0)))) ∧
    (dims.all id = false → ∃ v : Tensor R, u.getitem (squeezeKey dims) = .ok (.inl v) ∧ v.WF ∧
      v.shape = keepShape dims u.shape ∧
      ∀ out, out.length = v.length → v.dense out = u.dense (fillIdx dims out)) := by
  have hp : processKey u.length (squeezeKey dims) = .ok (squeezeKey dims) := by
    rw [← hd]; exact processKey_squeeze dims
  have hsl : dims.length = u.shape.length := by rw [shape_length]; exact hd
  have hn : normKey (squeezeKey dims) u.shape = .ok (sqItems dims u.shape) := normKey_squeeze dims u.shape hsl h1
  obtain ⟨lastRR, hfin⟩ := getitem_unfold u _ _ _ hp hn
  obtain ⟨r, hr1, hr2, hr3⟩ := goKey_sq (R := R) lastRR dims u false Option.none hd
  have hwfr : ∀ m l, r.1 = m :: l → Tensor.WF (m :: l) := by
    intro m l hml
    cases u with
    | nil => exact absurd hu (by simp [Tensor.WF])
    | cons m0 rest =>
      have := (goKey_sq_wf lastRR dims (m0 :: rest) false Option.none m0.core.rl r hd hu (by intro q hq; cases hq) hr1).1
      rw [hml] at this
      simp only [rowdim] at this
      exact ⟨rfl, this.2.1, this.2.2⟩
  rw [← groupKey_sq] at hr1
  have hg := hfin r hr1
  have hkl := keepShape_length dims u.shape hsl
  constructor
  · intro hall
    have hks := (keepShape_eq_nil dims u.shape hsl).mpr hall
    have hk : r.1 = [] := by rw [hks] at hr2; simpa [Tensor.shape] using hr2
    have hkc : keepCount dims = 0 := by rw [← hkl, hks]; rfl
    have hne : dims ≠ [] := by
      intro h; subst h
      cases u with
      | nil => simp [Tensor.WF] at hu
      | cons _ _ => simp at hd
    obtain ⟨l, q⟩ := r
    simp only at hk; subst hk
    have hq := hr3 rfl (Or.inr hne)
    cases q with
    | none => simp at hq
    | some q =>
      simp only [finishKey] at hg
      have hf : fits (groupKey (sqItems dims u.shape)) u.length 0 := by
        rw [groupKey_sq, ← hd, ← hkc]; exact fits_sq dims u.shape hsl
      have hx := C03.getitem_scalar u hu _ _ _ hp hn q.total hg hf
      rw [hg, hx, groupKey_sq, srcIdx_sq dims u.shape [] hsl (by simp [hkc]), fillIdx_all dims hall, hd]
  · intro hnot
    have hks : keepShape dims u.shape ≠ [] := by
      intro h; have := (keepShape_eq_nil dims u.shape hsl).mp h; rw [this] at hnot; cases hnot
    obtain ⟨l, q⟩ := r
    cases l with
    | nil => exact absurd hr2.symm hks
    | cons m l =>
      simp only [finishKey] at hg
      refine ⟨m :: l, hg, hwfr m l rfl, hr2, ?_⟩
      intro out ho
      have hol : out.length = keepCount dims := by
        rw [ho, ← hkl, ← hr2, shape_length]
      have hf : fits (groupKey (sqItems dims u.shape)) u.length out.length := by
        rw [groupKey_sq, ← hd, hol]; exact fits_sq dims u.shape hsl
      rw [C03.getitem_tensor u hu _ _ _ hp hn m l hg out hf, groupKey_sq, srcIdx_sq dims u.shape out hsl hol]

/-- a keepdim reduction (`tn.ttm` with one-row matrices on the listed modes) followed by `tn.squeeze` -/
theorem squeeze_rows (g : Nat → Nat → Nat → R) (t : Tensor R) (ht : t.WF) (dims : List Bool) (hd : dims.length = t.length)
    (k : Tensor R)
    (hk : k = t.linModes (List.zipWith (fun b (m : TMode R) => if b then some (1, g m.n) else Option.none) dims t)) :
    (dims.all id = true → k.getitem (squeezeKey dims) = .ok (.inr (k.dense (List.replicate t.length 0)))) ∧
    (dims.all id = false → ∃ v : Tensor R, k.getitem (squeezeKey dims) = .ok (.inl v) ∧ v.WF ∧
      v.shape = keepShape dims t.shape ∧
      ∀ out, out.length = v.length → (fillIdx dims out).length = t.length ∧ v.dense out = k.dense (fillIdx dims out)) := by
  have hkw : k.WF := by rw [hk]; exact WF_linModes_sq t _ ht
  have hkl : k.length = t.length := by rw [hk]; exact length_linModes t _
  have hks : k.shape = oneShape dims t.shape := by rw [hk]; exact shape_linModes_row g t dims
  obtain ⟨a, b⟩ := getitem_squeeze k hkw dims (by rw [hkl]; exact hd) (by rw [hks]; exact flaggedOne_oneShape dims t.shape)
  rw [hkl] at a
  refine ⟨a, ?_⟩
  intro hnot
  obtain ⟨v, h1, hw, h2, h3⟩ := b hnot
  rw [hks, keepShape_oneShape] at h2
  refine ⟨v, h1, hw, h2, fun out ho => ⟨?_, h3 out ho⟩⟩
  rw [fillIdx_length dims out, hd]
  rw [ho, ← shape_length, h2, keepShape_length dims t.shape (by rw [shape_length]; exact hd)]

/-- **sums over modes (keepdim), explicit form**: entry `idx` of `tn.sum(t, dims, keepdim=True)` is the sum of the
    dense array over exactly the listed modes, the other indices being those of `idx` -/
theorem sumKeep_sumOver (t : Tensor R) (dims : List Bool) (idx : List Nat) (hd : dims.length = t.length)
    (hi : idx.length = t.length) :
    (t.sumKeep dims).dense idx = sumOver dims t.shape t.dense idx := by
  rw [sumKeep_dense t dims idx hd hi]
  have hz := zipWith_modes (R := R) (fun b _ => if b then some (1, fun _ _ => (fun _ => (1 : R)) 0) else Option.none) dims t
  have hz' : List.zipWith (fun b (_ : TMode R) => if b then some (1, onesL (R := R)) else Option.none) dims t =
      List.zipWith (fun b n => if b then some (1, fun _ _ => (fun _ => (1 : R)) n) else Option.none) dims t.shape := hz
  rw [hz', applyMaps_const (fun _ => (1 : R)) dims t.shape t.dense idx (by rw [hi, shape_length]), cprod_one, one_mul]

/-- `tn.sum(t, dims, keepdim=True)` is well formed; its shape is the original one with the summed modes set to 1 -/
theorem sumKeep_wf_shape (t : Tensor R) (ht : t.WF) (dims : List Bool) :
    (t.sumKeep dims).WF ∧ (t.sumKeep dims).shape = oneShape dims t.shape :=
  ⟨WF_linModes_sq t _ ht, shape_linModes_row (fun _ => onesL) t dims⟩

/-- **`tn.sum(t)` over all modes** is the scalar `Σ_idx t[idx]` -/
theorem sum_all (t : Tensor R) (ht : t.WF) : t.sum (allDims t) = .ok (.inr (boxSum t.shape t.dense)) := by
  have hd := allDims_length t
  obtain ⟨a, _⟩ := squeeze_rows (fun _ => onesL) t ht (allDims t) hd (t.sumKeep (allDims t)) rfl
  unfold Tensor.sum
  rw [a (allDims_all t), sumKeep_sumOver t _ _ hd (by simp), allDims_eq, sumOver_all _ _ _ (by simp [shape_length])]

/-- **summing over a mode removes exactly that mode**: `tn.sum(t, dims)` for a proper subset of the modes never
    fails and returns a well-formed tensor whose shape is the shape of `t` with exactly the summed modes deleted; its entry at
    `out` is the dense array summed over the listed modes with the remaining indices taken from `out`. -/
theorem sum_removes_modes (t : Tensor R) (ht : t.WF) (dims : List Bool) (hd : dims.length = t.length)
    (hnot : dims.all id = false) :
    ∃ v : Tensor R, t.sum dims = .ok (.inl v) ∧ v.WF ∧ v.shape = keepShape dims t.shape ∧
      ∀ out, out.length = v.length → v.dense out = sumOver dims t.shape t.dense (fillIdx dims out) := by
  obtain ⟨_, b⟩ := squeeze_rows (fun _ => onesL) t ht dims hd (t.sumKeep dims) rfl
  obtain ⟨v, h1, hw, h2, h3⟩ := b hnot
  refine ⟨v, h1, hw, h2, fun out ho => ?_⟩
  obtain ⟨hl, hv⟩ := h3 out ho
  rw [hv, sumKeep_sumOver t dims _ hd hl]

end squeeze
section means
variable [Field R]

/-- the normalised `tn.ttm` of `tn.sum(…, _normalize=True)`: entry `idx` is the dense array averaged over exactly the
    listed modes (sum over those modes divided by the product of their sizes) -/
theorem meanRows_dense (t : Tensor R) (dims : List Bool) (idx : List Nat) (hd : dims.length = t.length)
    (hi : idx.length = t.length) :
    (t.meanRows dims).dense idx = sumOver dims t.shape t.dense idx / ((cntOver dims t.shape : Nat) : R) := by
  unfold Tensor.meanRows Tensor.ttm Tensor.dense
  rw [dense_linModes t _ idx (by simp [hd]) hi]
  have hz : List.zipWith (fun b (m : TMode R) => if b then some (1, meanL (R := R) m.n) else Option.none) dims t =
      List.zipWith (fun b n => if b then some (1, fun _ _ => (fun n => (1 / natR n : R) * 1) n) else Option.none) dims t.shape :=
    zipWith_modes (R := R) (fun b n => if b then some (1, fun _ _ => (fun n => (1 / natR n : R) * 1) n) else Option.none) dims t
  rw [hz, applyMaps_const (fun n => (1 / natR n : R) * 1) dims t.shape _ idx (by rw [hi, shape_length]), cprod_inv,
    inv_mul_eq_div]

/-- **`tn.mean(t, dims, keepdim=True)`** (no listed mode is empty): succeeds with a well-formed tensor whose shape is
    the original one with the averaged modes set to 1; entry `idx` is the dense array averaged over exactly the
    listed modes, the other indices being those of `idx` -/
theorem meanKeep_dense (t : Tensor R) (ht : t.WF) (dims : List Bool) (hd : dims.length = t.length)
    (hz : flaggedZero dims t.shape = false) :
    ∃ k : Tensor R, t.meanKeep dims = .ok k ∧ k.WF ∧ k.shape = oneShape dims t.shape ∧
      ∀ idx, idx.length = t.length →
        k.dense idx = sumOver dims t.shape t.dense idx / ((cntOver dims t.shape : Nat) : R) := by
  refine ⟨t.meanRows dims, by simp [Tensor.meanKeep, hz], WF_linModes_sq t _ ht, shape_linModes_row (fun n => meanL n) t dims, ?_⟩
  intro idx hi
  exact meanRows_dense t dims idx hd hi

/-- **an empty listed mode makes `tn.mean` raise** (`1.0 / t.shape[d]`, `ZeroDivisionError`), with or without keepdim -/
theorem mean_raises (t : Tensor R) (dims : List Bool) (hz : flaggedZero dims t.shape = true) :
    t.meanKeep dims = .error .zeroDivision ∧ t.mean dims = .error .zeroDivision := by
  have h : t.meanKeep dims = .error .zeroDivision := by simp [Tensor.meanKeep, hz]
  exact ⟨h, by simp [Tensor.mean, h, bind, Except.bind]⟩

/-- **`tn.mean(t)`** (all modes, no marginals, no empty mode) is the scalar `(Σ_idx t[idx]) / numel` -/
theorem mean_dense (t : Tensor R) (ht : t.WF) (hpos : ∀ n ∈ t.shape, 0 < n) :
    t.mean (allDims t) = .ok (.inr (boxSum t.shape t.dense / ((t.shape.prod : Nat) : R))) := by
  have hd := allDims_length t
  have hz := flaggedZero_pos (allDims t) t.shape hpos
  obtain ⟨a, _⟩ := squeeze_rows (fun n => meanL n) t ht (allDims t) hd (t.meanRows (allDims t)) rfl
  simp only [Tensor.mean, Tensor.meanKeep, hz, Bool.false_eq_true, if_false, bind, Except.bind]
  rw [a (allDims_all t)]
  simp only
  rw [meanRows_dense t (allDims t) (List.replicate t.length 0) hd (by simp), allDims_eq,
    sumOver_all _ _ _ (by simp [shape_length]), cntOver_all]

/-- **`tn.mean(t, dims)`** over a proper subset of the modes (none of them empty): never fails; the result is well
    formed, has the shape of `t` with exactly the averaged modes deleted, and its entries are the averages over
    those modes -/
theorem mean_subset_dense (t : Tensor R) (ht : t.WF) (dims : List Bool) (hd : dims.length = t.length)
    (hz : flaggedZero dims t.shape = false) (hnot : dims.all id = false) :
    ∃ v : Tensor R, t.mean dims = .ok (.inl v) ∧ v.WF ∧ v.shape = keepShape dims t.shape ∧
      ∀ out, out.length = v.length →
        v.dense out = sumOver dims t.shape t.dense (fillIdx dims out) / ((cntOver dims t.shape : Nat) : R) := by
  obtain ⟨_, b⟩ := squeeze_rows (fun n => meanL n) t ht dims hd (t.meanRows dims) rfl
  obtain ⟨v, h1, hw, h2, h3⟩ := b hnot
  refine ⟨v, ?_, hw, h2, fun out ho => ?_⟩
  · simp only [Tensor.mean, Tensor.meanKeep, hz, Bool.false_eq_true, if_false, bind, Except.bind]
    rw [h1]
  · obtain ⟨hl, hv⟩ := h3 out ho
    rw [hv, meanRows_dense t dims _ hd hl]

/-! ### marginals -/

/-- facts about `t * pdf` used by the weighted statistics -/
theorem mul_pdf (t : Tensor R) (ht : t.WF) (margs : List (Option (Nat × (Nat → R)))) (hm : margsFit t.shape margs) :
    (t.mul (pdfT t.shape margs)).WF ∧ (t.mul (pdfT t.shape margs)).shape = t.shape ∧
    (t.mul (pdfT t.shape margs)).length = t.length ∧
    ∀ js, js.length = t.length → (t.mul (pdfT t.shape margs)).dense js = t.dense js * margW margs js := by
  have hne : t.shape ≠ [] := by
    intro h; cases t with
    | nil => simp [Tensor.WF] at ht
    | cons _ _ => simp [Tensor.shape] at h
  have hpw := WF_pdfT t.shape margs hne
  have hps := shape_pdfT t.shape margs hm
  obtain ⟨w, s⟩ := C02.mul_wf_shape t _ ht hpw hps.symm
  refine ⟨w, s, by rw [← shape_length, s, shape_length], fun js hjs => ?_⟩
  rw [C02.mul_dense t _ ht hpw hps.symm]
  unfold Tensor.dense
  rw [dense_pdfT t.shape margs js hne (by rw [hjs, shape_length])]

/-- **`tn.mean(t, dims, marginals, keepdim=True)`**: the dense array times the product of the normalised marginal
    weights, summed over exactly the listed modes.  (`margW` divides by `Σ w`; for a marginal vector that sums to
    zero Lean's `x / 0 = 0` is not what PyTorch returns (`inf`/`nan`), so the marginal statements are meaningful
    for marginals with non-zero sum — for those `C10.normW_sum` says the weights of a mode sum to one.) -/
theorem meanMargKeep_dense (t : Tensor R) (ht : t.WF) (dims : List Bool) (margs : List (Option (Nat × (Nat → R))))
    (hm : margsFit t.shape margs) (idx : List Nat) (hd : dims.length = t.length) (hi : idx.length = t.length) :
    (t.meanMargKeep dims margs).dense idx = sumOver dims t.shape (fun js => t.dense js * margW margs js) idx := by
  obtain ⟨_, s, l, d⟩ := mul_pdf t ht margs hm
  unfold Tensor.meanMargKeep
  rw [sumKeep_sumOver _ dims idx (by rw [l]; exact hd) (by rw [l]; exact hi), s]
  exact sumOver_congr_len dims t.shape _ _ idx (by rw [hi, shape_length]) (fun js hjs => d js (by rw [hjs, shape_length]))

/-- **`tn.mean(t, marginals=…)`** over all modes is the scalar `Σ_idx t[idx] · Π_n w_n[idx_n] / Σ w_n`
    (modes without a marginal vector are summed unweighted) -/
theorem mean_marginals_dense (t : Tensor R) (ht : t.WF) (margs : List (Option (Nat × (Nat → R))))
    (hm : margsFit t.shape margs) :
    t.meanMarg (allDims t) margs = .ok (.inr (boxSum t.shape (fun js => t.dense js * margW margs js))) := by
  obtain ⟨w, s, l, d⟩ := mul_pdf t ht margs hm
  unfold Tensor.meanMarg
  have hall : allDims t = allDims (t.mul (pdfT t.shape margs)) := by
    rw [allDims_eq, allDims_eq, s]
  rw [hall, sum_all _ w, s]
  congr 2
  exact boxSum_congr_in_st t.shape _ _ (fun js hjs => d js (by rw [inShape_length js _ hjs, shape_length]))

/-- **`tn.mean(t, dims, marginals)`** over a proper subset of the modes: the result has exactly the listed modes
    deleted and holds the weighted sums over them -/
theorem mean_marginals_subset_dense (t : Tensor R) (ht : t.WF) (dims : List Bool) (margs : List (Option (Nat × (Nat → R))))
    (hm : margsFit t.shape margs) (hd : dims.length = t.length) (hnot : dims.all id = false) :
    ∃ v : Tensor R, t.meanMarg dims margs = .ok (.inl v) ∧ v.WF ∧ v.shape = keepShape dims t.shape ∧
      ∀ out, out.length = v.length →
        v.dense out = sumOver dims t.shape (fun js => t.dense js * margW margs js) (fillIdx dims out) := by
  obtain ⟨w, s, l, d⟩ := mul_pdf t ht margs hm
  obtain ⟨v, h1, hvw, h2, h3⟩ := sum_removes_modes _ w dims (by rw [l]; exact hd) hnot
  refine ⟨v, h1, hvw, by rw [h2, s], fun out ho => ?_⟩
  rw [h3 out ho, s]
  have hkl := keepShape_length dims t.shape (by rw [shape_length]; exact hd)
  have hfl : (fillIdx dims out).length = t.shape.length := by
    rw [fillIdx_length dims out (by rw [ho, ← shape_length, h2, s, hkl]), hd, shape_length]
  exact sumOver_congr_len dims t.shape _ _ _ hfl (fun js hjs => d js (by rw [hjs, shape_length]))

/-! ### variance -/

/-- **`tn.var(t)`** (no empty mode) never fails and equals `(1/numel) · Σ_idx (t[idx] − μ)²` with
    `μ = (Σ_idx t[idx]) / numel` the dense mean -/
theorem var_dense (t : Tensor R) (ht : t.WF) (hpos : ∀ n ∈ t.shape, 0 < n) :
    t.var = .ok (boxSum t.shape (fun idx =>
        (t.dense idx - boxSum t.shape t.dense / ((t.shape.prod : Nat) : R)) *
        (t.dense idx - boxSum t.shape t.dense / ((t.shape.prod : Nat) : R))) / ((t.shape.prod : Nat) : R)) := by
  unfold Tensor.var
  rw [mean_dense t ht hpos]
  simp only [bind, Except.bind, pure, Except.pure]
  obtain ⟨w, s⟩ := C02.scalarAdd_wf_shape (-1 * (boxSum t.shape t.dense / ((t.shape.prod : Nat) : R))) t ht
  rw [normsq_eq _ w, s, numelR_eq]
  congr 2
  apply boxSum_congr_in_st
  intro is his
  rw [C02.scalarAdd_dense _ t ht is (by rw [inShape_length is _ his, shape_length])]
  ring

/-- **`tn.var(t)` of a tensor with an empty mode raises** (`ZeroDivisionError` inside `tn.mean`) instead of
    returning `nan` like `torch.var` -/
theorem var_raises (t : Tensor R) (h0 : 0 ∈ t.shape) : t.var = .error .zeroDivision := by
  have hz : flaggedZero (allDims t) t.shape = true := by rw [allDims_eq]; exact flaggedZero_all t.shape h0
  simp [Tensor.var, (mean_raises t (allDims t) hz).2, bind, Except.bind]

/-- **`tn.var(t, marginals)`** never fails (one marginal vector per mode, each of its mode's length) and equals
    `Σ_idx W[idx] · (t[idx] − μ)²` with `W[idx] = Π_n w_n[idx_n] / Σ w_n` and `μ = Σ_idx W[idx] · t[idx]` -/
theorem var_marginals_dense (t : Tensor R) (ht : t.WF) (margs : List (Nat × (Nat → R))) (hl : margs.length = t.length)
    (hm : margsFit t.shape (margs.map some)) :
    t.varMarg margs = .ok (boxSum t.shape (fun idx =>
        (t.dense idx - boxSum t.shape (fun js => t.dense js * margW (margs.map some) js)) *
        (t.dense idx - boxSum t.shape (fun js => t.dense js * margW (margs.map some) js)) *
          margW (margs.map some) idx)) := by
  unfold Tensor.varMarg
  rw [if_neg (by simp [hl]), mean_marginals_dense t ht _ hm]
  simp only
  rw [← pdfT_all t.shape margs (by rw [hl, shape_length])]
  generalize boxSum t.shape (fun js => t.dense js * margW (margs.map some) js) = μ
  obtain ⟨w, s⟩ := C02.scalarAdd_wf_shape (-1 * μ) t ht
  have hm' : margsFit (t.scalarAdd (-1 * μ)).shape (margs.map some) := by rw [s]; exact hm
  obtain ⟨w2, s2, _, d2⟩ := mul_pdf _ w (margs.map some) hm'
  rw [s] at s2 d2
  have hlen : (t.scalarAdd (-1 * μ)).length = t.length := by rw [← shape_length, s, shape_length]
  rw [s] at w2
  rw [dot_eq _ _ w2 w (by rw [s2, s]), s2]
  congr 1
  apply boxSum_congr_in_st
  intro is his
  have hil : is.length = t.length := by rw [inShape_length is _ his, shape_length]
  rw [d2 is (by rw [hil, hlen]), C02.scalarAdd_dense _ t ht is hil]
  ring

end means

/-! ### `dist` is a metric (on the squared distance `‖t‖² + ‖u‖² − 2⟨t,u⟩` that `tn.dist` clamps and takes the root of) -/
section metric

/-- the squared distance is symmetric -/
theorem distsq_symm [CommRing R] (t u : Tensor R) (ht : t.WF) (hu : u.WF) (hs : t.shape = u.shape) :
    t.normsq + u.normsq - 2 * t.dot u = u.normsq + t.normsq - 2 * u.dot t := by
  rw [dot_comm t u ht hu hs]; ring


/-- **`dist` equals the norm of the difference**: the radicand `‖t‖² + ‖u‖² − 2⟨t,u⟩` is `‖t − u‖²` computed on the
    compressed difference, whatever the sign of the inner product -/
theorem distsq_eq_normsq_sub [CommRing R] (t u : Tensor R) (ht : t.WF) (hu : u.WF) (hs : t.shape = u.shape) :
    t.normsq + u.normsq - 2 * t.dot u = (t.sub u).normsq := by
  have hw : (t.sub u).WF ∧ (t.sub u).shape = t.shape := by
    unfold Tensor.sub Tensor.neg
    exact C02.add_wf_shape t _ ht (WF_scalarMul _ _ u hu) (by rw [shape_scalarMul]; exact hs)
  rw [dist_sq t u ht hu hs, normsq_eq _ hw.1, hw.2]
  apply boxSum_congr_in_st
  intro is his
  rw [C02.sub_dense t u ht hu hs is (by rw [inShape_length is _ his, shape_length])]

variable [CommRing R] [LinearOrder R] [IsStrictOrderedRing R]

/-- the radicand of `tn.dist` is never negative in exact arithmetic: the `clamp(0)` (metrics.py:131-133) is the identity -/
theorem distsq_nonneg (t u : Tensor R) (ht : t.WF) (hu : u.WF) (hs : t.shape = u.shape) :
    0 ≤ t.normsq + u.normsq - 2 * t.dot u := by
  rw [dist_sq t u ht hu hs]
  exact boxSum_nonneg _ _ (fun is => mul_self_nonneg _)

/-- **the distance is zero only for equal tensors**: `‖t‖² + ‖u‖² − 2⟨t,u⟩ = 0` iff the two dense arrays agree at
    every index inside the box `0 ≤ idx_n < shape_n` -/
theorem distsq_eq_zero_iff (t u : Tensor R) (ht : t.WF) (hu : u.WF) (hs : t.shape = u.shape) :
    t.normsq + u.normsq - 2 * t.dot u = 0 ↔ ∀ idx, inShape idx t.shape → t.dense idx = u.dense idx := by
  rw [dist_sq t u ht hu hs, boxSum_eq_zero_iff _ _ (fun is => mul_self_nonneg _)]
  constructor
  · intro h idx hi
    have := h idx hi
    exact sub_eq_zero.mp (mul_self_eq_zero.mp this)
  · intro h idx hi
    rw [h idx hi, sub_self, mul_zero]

end metric

/-! ### over ℝ: `tn.dist = sqrt(clamp(‖t‖² + ‖u‖² − 2⟨t,u⟩, 0))` itself (metrics.py:131-133) -/
section real

/-- `tn.dist(t, u)` is the Euclidean distance of the dense arrays -/
theorem dist_real (t u : Tensor ℝ) (ht : t.WF) (hu : u.WF) (hs : t.shape = u.shape) :
    Real.sqrt (max (t.normsq + u.normsq - 2 * t.dot u) 0) =
      Real.sqrt (boxSum t.shape (fun idx => (t.dense idx - u.dense idx) * (t.dense idx - u.dense idx))) := by
  rw [max_eq_left (distsq_nonneg t u ht hu hs), dist_sq t u ht hu hs]

/-- `tn.dist` is symmetric -/
theorem dist_real_symm (t u : Tensor ℝ) (ht : t.WF) (hu : u.WF) (hs : t.shape = u.shape) :
    Real.sqrt (max (t.normsq + u.normsq - 2 * t.dot u) 0) = Real.sqrt (max (u.normsq + t.normsq - 2 * u.dot t) 0) := by
  rw [distsq_symm t u ht hu hs]

/-- `tn.dist(t, u) = 0` iff the dense arrays agree at every index inside the box -/
theorem dist_real_eq_zero_iff (t u : Tensor ℝ) (ht : t.WF) (hu : u.WF) (hs : t.shape = u.shape) :
    Real.sqrt (max (t.normsq + u.normsq - 2 * t.dot u) 0) = 0 ↔ ∀ idx, inShape idx t.shape → t.dense idx = u.dense idx := by
  rw [max_eq_left (distsq_nonneg t u ht hu hs), Real.sqrt_eq_zero (distsq_nonneg t u ht hu hs)]
  exact distsq_eq_zero_iff t u ht hu hs

end real

/-! ### non-vacuity of the hypotheses (a mixed-format 2-mode tensor over ℚ; `C02.exT`, `C02.exU` over ℤ) -/
section nonvacuous

/-- TT core with a (wider-than-tall) Tucker factor, then a CP factor; shape `[2, 2]` -/
def exQ : Tensor ℚ :=
  [ { core := .tt 1 3 2 (fun _ j b => (j : ℚ) + b), U := some { rows := 2, cols := 3, f := fun i j => (i : ℚ) - j } },
    { core := .cp 2 2 (fun j k => (j : ℚ) * 2 + k), U := Option.none } ]

theorem exQ_wf : exQ.WF := by
  simp [exQ, Tensor.WF, Tensor.WFfrom, TMode.ok, Core.rl, Core.rr, Core.spatial]
theorem exT_wf : C02.exT.WF := by
  simp [C02.exT, Tensor.WF, Tensor.WFfrom, TMode.ok, Core.rl, Core.rr, Core.spatial]
theorem exU_wf : C02.exU.WF := by
  simp [C02.exU, Tensor.WF, Tensor.WFfrom, TMode.ok, Core.rl, Core.rr, Core.spatial]
theorem exTU_shape : C02.exT.shape = C02.exU.shape := by
  simp [C02.exT, C02.exU, Tensor.shape, TMode.n, Core.spatial]
theorem exQ_margs : margsFit exQ.shape [some (2, fun i => (i : ℚ) + 1), Option.none] := by
  simp [margsFit, exQ, Tensor.shape, TMode.n]
theorem exQ_margs2 : margsFit exQ.shape
    (([(2, fun i => (i : ℚ) + 1), (2, fun i => 3 - (i : ℚ))] : List (Nat × (Nat → ℚ))).map some) := by
  simp [margsFit, exQ, Tensor.shape, TMode.n]

example := sum_all exQ exQ_wf
example := sum_removes_modes exQ exQ_wf [true, false] rfl rfl
example := getitem_squeeze (exQ.sumKeep [false, true]) (sumKeep_wf_shape exQ exQ_wf _).1 [false, true] rfl
  (by rw [(sumKeep_wf_shape exQ exQ_wf _).2]; exact flaggedOne_oneShape _ _)
theorem exQ_pos : ∀ n ∈ exQ.shape, 0 < n := by simp [exQ, Tensor.shape, TMode.n]
example := meanKeep_dense exQ exQ_wf [false, true] rfl rfl
example := mean_dense exQ exQ_wf exQ_pos
example := mean_subset_dense exQ exQ_wf [false, true] rfl rfl rfl
example := mean_raises ([{ core := .tt 1 0 1 (fun _ _ _ => 0), U := Option.none }] : Tensor ℚ) [true] rfl
example := var_raises ([{ core := .tt 1 0 1 (fun _ _ _ => 0), U := Option.none }] : Tensor ℚ) (by simp [Tensor.shape, TMode.n, Core.spatial])
example := meanMargKeep_dense exQ exQ_wf [true, false] _ exQ_margs [0, 1] rfl rfl
example := mean_marginals_dense exQ exQ_wf _ exQ_margs
example := mean_marginals_subset_dense exQ exQ_wf [true, false] _ exQ_margs rfl rfl
example := var_dense exQ exQ_wf exQ_pos
example := var_marginals_dense exQ exQ_wf _ rfl exQ_margs2
example := distsq_symm C02.exT C02.exU exT_wf exU_wf exTU_shape
example := distsq_eq_normsq_sub C02.exT C02.exU exT_wf exU_wf exTU_shape
example := distsq_nonneg C02.exT C02.exU exT_wf exU_wf exTU_shape
example := distsq_eq_zero_iff C02.exT C02.exU exT_wf exU_wf exTU_shape

end nonvacuous

end TN.C06
