import TnVerif.Lemmas.Dual
import TnVerif.Props.C02
import TnVerif.Props.C03
import TnVerif.Props.C06
import TnVerif.Props.C12
import TnVerif.Props.C20
/-!
# C07 — gradients through compressed operations equal gradients through the dense arrays

Autograd propagates, through ring operations, exactly what dual-number arithmetic propagates.
`Dual R` is a commutative ring, so the theorems of C02 (any expression tree), C03 (indexing) and C06
(inner products, sums) hold *as already proved* with `R := Dual R`: the compressed and the dense
computation agree in the value **and in the tangent**, for every assignment of tangents to the
entries of every core and factor — i.e. the gradients with respect to every parameter agree.
-/
namespace TN.C07
open TN
variable {R : Type} [CommRing R]

/-- **any expression tree** over `{+,-,*,unary -, scalar ops}`: the tangent of every entry of the
    compressed result is the tangent of the element-wise expression on the dense arrays -/
theorem expr_tangent (s : List Nat) (e : C02.Expr (Dual R)) (h : C02.wfExpr s e) (idx : List Nat) (hi : idx.length = s.length) :
    ((C02.evalT e).dense idx).d = (C02.evalD e idx).d ∧ ((C02.evalT e).dense idx).v = (C02.evalD e idx).v := by
  have := (C02.expr_dense s e h).2.2 idx hi
  rw [this]; exact ⟨rfl, rfl⟩

/-- product rule through compressed multiplication -/
theorem mul_tangent (t u : Tensor (Dual R)) (ht : t.WF) (hu : u.WF) (hs : t.shape = u.shape) (idx : List Nat) :
    ((t.mul u).dense idx).d = (t.dense idx).v * (u.dense idx).d + (t.dense idx).d * (u.dense idx).v := by
  rw [C02.mul_dense t u ht hu hs]; rfl

/-- **inner products, norms² and everything built from them** -/
theorem dot_tangent (t u : Tensor (Dual R)) (ht : t.WF) (hu : u.WF) (hs : t.shape = u.shape) :
    (t.dot u).d = (boxSum t.shape (fun idx => t.dense idx * u.dense idx)).d := by
  rw [C06.dot_eq t u ht hu hs]

/-- **indexing and slicing** (tensor-valued result) -/
theorem getitem_tangent (t : Tensor (Dual R)) (ht : t.WF) (key key1 : List RawItem) (items : List Item)
    (h1 : processKey t.length key = .ok key1) (h2 : normKey key1 t.shape = .ok items)
    (m : TMode (Dual R)) (l : Tensor (Dual R)) (hr : t.getitem key = .ok (.inl (m :: l)))
    (out : List Nat) (hf : fits (groupKey items) t.length out.length) :
    (Tensor.dense (m :: l) out).d = (t.dense (srcIdx (groupKey items) out)).d := by
  rw [C03.getitem_tensor t ht key key1 items h1 h2 m l hr out hf]

/-- a smooth scalar head (`sqrt` in `norm`, `dist`): equal duals go to equal duals, whatever the
    derivative `f'` of the head is -/
theorem smooth_head (f f' : R → R) (x y : Dual R) (h : x = y) :
    (⟨f x.v, f' x.v * x.d⟩ : Dual R) = ⟨f y.v, f' y.v * y.d⟩ := by rw [h]

/-- what `x.data *= c` does is **not** multiplication by a constant: the value is scaled but the
    tangent is not (the defect repaired by commit c1c3e4a; scalar multiplication used to bypass autograd) -/
theorem dataScale_loses_gradient : Dual.dataScale (3 : Int) ⟨1, 1⟩ ≠ (Dual.const 3) * ⟨1, 1⟩ := by
  intro h
  have := congrArg Dual.d h
  simp [Dual.dataScale, Dual.const] at this

/-- multiplication by a constant scales the tangent (what the repaired code does) -/
theorem const_mul_tangent (c : R) (x : Dual R) : ((Dual.const c) * x).d = c * x.d := by
  simp [Dual.const]

/-! ### the routines modelled in the extension round, instantiated at dual numbers -/

/-- **sums over any modes** (keepdim form; `tn.sum`, and with it the unnormalised part of `mean`): value and tangent of every
    entry are those of the dense array summed over exactly the listed modes -/
theorem sumKeep_tangent (t : Tensor (Dual R)) (dims : List Bool) (idx : List Nat) (hd : dims.length = t.length)
    (hi : idx.length = t.length) :
    ((t.sumKeep dims).dense idx).d = (sumOver dims t.shape t.dense idx).d := by
  rw [C06.sumKeep_sumOver t dims idx hd hi]

/-- the sum over all modes, as the scalar `tn.sum(t)` returns -/
theorem sum_all_tangent (t : Tensor (Dual R)) (ht : t.WF) :
    ∃ s : Dual R, t.sum (allDims t) = .ok (.inr s) ∧ s.d = (boxSum t.shape t.dense).d :=
  ⟨_, C06.sum_all t ht, rfl⟩

/-- **squared distance**: the radicand of `tn.dist` is, in value and tangent, the squared norm of the difference -/
theorem distsq_tangent (t u : Tensor (Dual R)) (ht : t.WF) (hu : u.WF) (hs : t.shape = u.shape) :
    (t.normsq + u.normsq - 2 * t.dot u).d = ((t.sub u).normsq).d := by
  rw [C06.distsq_eq_normsq_sub t u ht hu hs]

/-- **tensor-times-matrix products along any modes** (`tn.ttm`; flips, cumulative sums, paddings, finite differences are instances) -/
theorem ttm_tangent (t : Tensor (Dual R)) (maps : List (Option (Nat × (Nat → Nat → Dual R)))) (idx : List Nat)
    (hl : maps.length = t.length) (hi : idx.length = t.length) :
    ((t.ttm maps).dense idx).d = (applyMaps maps t.shape t.dense idx).d := by
  rw [C12.linModes_dense t maps idx hl hi]

/-- **concatenation**: the tangent of an entry of `tn.cat(ts, dim)` is the tangent of the entry of the operand whose block contains it -/
theorem cat_tangent (t0 : Tensor (Dual R)) (rest : List (Tensor (Dual R))) (d : Nat)
    (hwf : ∀ t ∈ t0 :: rest, t.WF) (hlen : ∀ t ∈ rest, t.length = t0.length) (hd : d < t0.length)
    (hs : ∀ t ∈ rest, ∀ k, k ≠ d → t.shape.getD k 0 = t0.shape.getD k 0)
    (idx : List Nat) (hi : idx.length = t0.length) (k : Nat) (hk : k < (t0 :: rest).length)
    (hlo : (((t0 :: rest).take k).map (catSize d)).sum ≤ idx.getD d 0)
    (hhi : idx.getD d 0 < (((t0 :: rest).take (k + 1)).map (catSize d)).sum) :
    ((Tensor.catN (t0 :: rest) d).dense idx).d =
      (((t0 :: rest)[k]).dense (idx.set d (idx.getD d 0 - (((t0 :: rest).take k).map (catSize d)).sum))).d := by
  rw [C12.catN_dense t0 rest d hwf hlen hd hs idx hi k hk hlo hhi]

/-- **finite differences** of any order along a mode -/
theorem partialN_tangent (t : Tensor (Dual R)) (d : Nat) (c : Dual R) (per : Bool) (k : Nat) (idx : List Nat)
    (hd : d < t.length) (hi : idx.length = t.length) :
    ((t.partialN d c per k).dense idx).d = ((C20.denseD t.shape d c per)^[k] t.dense idx).d := by
  rw [C20.partialN_dense t d c per hd k idx hi]

end TN.C07
