import TnVerif.Lemmas.Dual
import TnVerif.Props.C02
import TnVerif.Props.C03
import TnVerif.Props.C06
/-!
# C07 — gradients through compressed operations equal gradients through the dense arrays

Autograd propagates, through ring operations, exactly what dual-number arithmetic propagates.
`Dual R` is a commutative ring, so the theorems of C02 (any expression tree), C03 (indexing) and C06
(inner products, sums) hold *as already proved* with `R := Dual R`: the compressed and the dense
computation agree in the value **and in the tangent**, for every assignment of tangents to the
entries of every core and factor — i.e. the gradients with respect to every parameter agree.
-/
namespace TN.C07
open TN
variable {R : Type} [CommRing R]

/-- **any expression tree** over `{+,-,*,unary -, scalar ops}`: the tangent of every entry of the
    compressed result is the tangent of the element-wise expression on the dense arrays -/
theorem expr_tangent (s : List Nat) (e : C02.Expr (Dual R)) (h : C02.wfExpr s e) (idx : List Nat) (hi : idx.length = s.length) :
    ((C02.evalT e).dense idx).d = (C02.evalD e idx).d ∧ ((C02.evalT e).dense idx).v = (C02.evalD e idx).v := by
  have := (C02.expr_dense s e h).2.2 idx hi
  rw [this]; exact ⟨rfl, rfl⟩

/-- product rule through compressed multiplication -/
theorem mul_tangent (t u : Tensor (Dual R)) (ht : t.WF) (hu : u.WF) (hs : t.shape = u.shape) (idx : List Nat) :
    ((t.mul u).dense idx).d = (t.dense idx).v * (u.dense idx).d + (t.dense idx).d * (u.dense idx).v := by
  rw [C02.mul_dense t u ht hu hs]; rfl

/-- **inner products, norms² and everything built from them** -/
theorem dot_tangent (t u : Tensor (Dual R)) (ht : t.WF) (hu : u.WF) (hs : t.shape = u.shape) :
    (t.dot u).d = (boxSum t.shape (fun idx => t.dense idx * u.dense idx)).d := by
  rw [C06.dot_eq t u ht hu hs]

/-- **indexing and slicing** (tensor-valued result) -/
theorem getitem_tangent (t : Tensor (Dual R)) (ht : t.WF) (key key1 : List RawItem) (items : List Item)
    (h1 : processKey t.length key = .ok key1) (h2 : normKey key1 t.shape = .ok items)
    (m : TMode (Dual R)) (l : Tensor (Dual R)) (hr : t.getitem key = .ok (.inl (m :: l)))
    (out : List Nat) (hf : fits (groupKey items) t.length out.length) :
    (Tensor.dense (m :: l) out).d = (t.dense (srcIdx (groupKey items) out)).d := by
  rw [C03.getitem_tensor t ht key key1 items h1 h2 m l hr out hf]

/-- a smooth scalar head (`sqrt` in `norm`, `dist`): equal duals go to equal duals, whatever the
    derivative `f'` of the head is -/
theorem smooth_head (f f' : R → R) (x y : Dual R) (h : x = y) :
    (⟨f x.v, f' x.v * x.d⟩ : Dual R) = ⟨f y.v, f' y.v * y.d⟩ := by rw [h]

/-- what `x.data *= c` does is **not** multiplication by a constant: the value is scaled but the
    tangent is not (the defect repaired by commit c1c3e4a; scalar multiplication used to bypass autograd) -/
theorem dataScale_loses_gradient : Dual.dataScale (3 : Int) ⟨1, 1⟩ ≠ (Dual.const 3) * ⟨1, 1⟩ := by
  intro h
  have := congrArg Dual.d h
  simp [Dual.dataScale, Dual.const] at this

/-- multiplication by a constant scales the tangent (what the repaired code does) -/
theorem const_mul_tangent (c : R) (x : Dual R) : ((Dual.const c) * x).d = c * x.d := by
  simp [Dual.const]

end TN.C07
